import SodiumModel.Basic
/-
  Model of the guarded allocator (sodium/utils.c: _sodium_malloc, sodium_allocarray, sodium_free,
  sodium_mprotect_*): all `size_t` arithmetic in UInt64, page size `pg` a parameter, addresses
  relative to the mapping base. System calls are recorded, not executed.
-/
namespace Sodium.Model.Alloc

def CANARY_SIZE : UInt64 := 16

inductive Prot where | none | ro | rw deriving DecidableEq, Repr

inductive Sys where
  | mmap (len : UInt64)
  | mprotect (off len : UInt64) (p : Prot)
  | mlock (off len : UInt64)           -- sodium_mlock: madvise(DONTDUMP) + mlock
  | munlock (off len : UInt64)         -- sodium_munlock: memzero + madvise(DODUMP) + munlock
  | munmap (off len : UInt64)
  deriving DecidableEq, Repr

/-- `_page_round` -/
def pageRound (pg size : UInt64) : UInt64 := (size + (pg - 1)) &&& ~~~(pg - 1)

structure Layout where
  total : UInt64
  unprotOff : UInt64
  unprotSize : UInt64
  canaryOff : UInt64
  userOff : UInt64
  deriving DecidableEq, Repr

inductive MallocResult where
  | enomem
  | ok (L : Layout) (calls : List Sys)
  deriving DecidableEq, Repr

def layout (pg size : UInt64) : Layout :=
  let swc := CANARY_SIZE + size
  let unprot := pageRound pg swc
  let total := pg + pg + unprot + pg
  let canaryOff := pg * 2 + pageRound pg swc - swc
  ⟨total, pg * 2, unprot, canaryOff, canaryOff + CANARY_SIZE⟩

/-- `_sodium_malloc` (HAVE_ALIGNED_MALLOC, HAVE_PAGE_PROTECTION, mmap available) -/
def sodium_malloc (pg size : UInt64) : MallocResult :=
  if size ≥ (0xFFFFFFFFFFFFFFFF : UInt64) - pg * 5 then .enomem else
  let L := layout pg size
  .ok L [.mmap L.total,
         .mprotect pg pg .none,                                   -- guard page before the data
         .mprotect (L.unprotOff + L.unprotSize) pg .none,         -- guard page after the data
         .mlock L.unprotOff L.unprotSize,
         .mprotect 0 pg .ro]                                      -- header page holding unprotected_size

/-- `sodium_allocarray` -/
def sodium_allocarray (pg count size : UInt64) : MallocResult :=
  if count > 0 ∧ size ≥ (0xFFFFFFFFFFFFFFFF : UInt64) / count then .enomem
  else sodium_malloc pg (count * size)

/-- `_unprotected_ptr_from_user_ptr` on absolute addresses -/
def unprotectedFromUser (pg user : UInt64) : UInt64 := (user - CANARY_SIZE) &&& ~~~(pg - 1)

/-- sodium_free on an allocation with layout L (canary intact): the system calls issued -/
def sodium_free_calls (L : Layout) : List Sys :=
  [.mprotect 0 L.total .rw, .munlock L.unprotOff L.unprotSize, .munmap 0 L.total]

/-- protection requests of the public API -/
inductive Op where | noaccess | readonly | readwrite deriving DecidableEq, Repr

def Op.prot : Op → Prot
  | .noaccess => .none | .readonly => .ro | .readwrite => .rw

/-- sodium_mprotect_*: one mprotect over the whole unprotected region -/
def mprotectCall (L : Layout) (o : Op) : Sys := .mprotect L.unprotOff L.unprotSize o.prot

/-- page protections of a mapping of `n` pages as a list, after the calls of malloc and a history of ops -/
def applyCall (pg : UInt64) (pages : List Prot) : Sys → List Prot
  | .mprotect off len p =>
    pages.mapIdx fun i q => if off.toNat ≤ i * pg.toNat ∧ i * pg.toNat < off.toNat + len.toNat then p else q
  | _ => pages

def pagesAfter (pg : UInt64) (L : Layout) (calls : List Sys) (ops : List Op) : List Prot :=
  (calls ++ ops.map (mprotectCall L)).foldl (applyCall pg) (List.replicate (L.total.toNat / pg.toNat) .rw)

end Sodium.Model.Alloc
