import SodiumModel.Basic
import SodiumModel.Model.CoresRef
/-
  Model of the VECTORISED ChaCha20 of libsodium, written after the C text of

    crypto_stream/chacha20/dolbeau/chacha20_dolbeau-avx2.c   (u8.h, u4.h, u1.h, u0.h)
    crypto_stream/chacha20/dolbeau/chacha20_dolbeau-ssse3.c  (      u4.h, u1.h, u0.h)

  Part 1 is a small explicit library of the SSE2 / SSSE3 / AVX2 intrinsics that occur in those files,
  each transcribing the "Operation" section of the Intel SDM / Intrinsics Guide (quoted in the
  doc-comment). THESE DEFINITIONS ARE PART OF THE TRUSTED BASE: nothing in Lean ties them to the CPU.
  They are validated against the real CPU by `simdcheck/intrinsics_check.c` (compiled with gcc -mavx2)
  and `simdcheck/SimdCheck.lean` (run by `simdcheck/run.sh`).

  Registers. `__m128i` is ONE canonical representation, `V128` = four 32-bit lanes, lane 0 = bits
  31..0. The other views are explicit reinterpretations: two 64-bit lanes (`V128.q0`, `V128.q1`,
  `V128.ofQ`; 64-bit lane 0 = 32-bit lanes 1:0) and sixteen bytes (`V128.toBytes`, `V128.ofBytes`;
  byte 4i+k = bits 8k+7..8k of 32-bit lane i: x86 is little-endian, and this is also the memory image
  used by loads and stores). `__m256i` is `M256` = two `V128` halves (`lo` = bits 127..0).

  Memory. A `const uint8_t *p` is the list suffix starting at `p` (`p + n` = `p.drop n`; reading past
  the end reads 0, as in `Model/CoresRef.lean`). The output pointer `c` is the buffer starting at `c`
  (its old contents included), and a store at `c + off` replaces bytes `off .. off+len` of that buffer
  (`storeBytes`). In the main model `m` and `c` are separate values; for the in-place callers (`stream_ref`,
  `stream_ietf_ext_ref`: `m == c`) the loop bodies are transcribed a second time with every load reading
  the buffer as left by the stores that precede it (`u1_iter_inplace`, `u4_ONEQUAD_inplace`,
  `u4_iter_inplace`, `u8_iter_inplace`, `u0_xorloop_inplace`) and proved equal to the separate-buffer bodies
  on the old contents (`C03Simd.inplace_bodies_eq`).

  Hoisting: u4.h / u8.h compute `orig0..orig11`, `orig14`, `orig15` (and `rot16`, `rot8`) once before their
  `while`; the model recomputes them in every pass of the body. The words they read (`x[0..11]`, `x[14]`,
  `x[15]`) are never written, so this is the same value.

  Part 2 transcribes the macros and the loop bodies; Part 3 `chacha20_encrypt_bytes` (both
  compositions) and the entry points. Core Lean only.
-/
namespace Sodium.Model.ChachaSimd
open Sodium Sodium.Model.CoresRef

/-! ## Part 1: registers and intrinsics (trusted base) -/

/-- `__m128i`, canonical view: four 32-bit lanes, `e0` = bits 31..0 -/
structure V128 where
  e0 : UInt32
  e1 : UInt32
  e2 : UInt32
  e3 : UInt32
  deriving DecidableEq, Repr

namespace V128

/-- 32-bit lane `i mod 4` -/
def lane (v : V128) (i : Nat) : UInt32 :=
  match i % 4 with
  | 0 => v.e0
  | 1 => v.e1
  | 2 => v.e2
  | _ => v.e3

/-- 64-bit lane 0 = bits 63..0 = 32-bit lanes 1:0 -/
def q0 (v : V128) : UInt64 := v.e0.toUInt64 ||| (v.e1.toUInt64 <<< 32)
/-- 64-bit lane 1 = bits 127..64 = 32-bit lanes 3:2 -/
def q1 (v : V128) : UInt64 := v.e2.toUInt64 ||| (v.e3.toUInt64 <<< 32)
/-- the register whose 64-bit lanes are `a` (low) and `b` (high) -/
def ofQ (a b : UInt64) : V128 := ⟨a.toUInt32, (a >>> 32).toUInt32, b.toUInt32, (b >>> 32).toUInt32⟩

/-- the sixteen bytes, byte 0 = bits 7..0 (also the memory image) -/
def toBytes (v : V128) : Bytes :=
  store32_le v.e0 ++ (store32_le v.e1 ++ (store32_le v.e2 ++ store32_le v.e3))
/-- the register whose bytes are `b[0..16]` -/
def ofBytes (b : Bytes) : V128 :=
  ⟨load32_le b, load32_le (b.drop 4), load32_le (b.drop 8), load32_le (b.drop 12)⟩

/-- lane-wise map / zip on the 32-bit view -/
@[inline] def map32 (f : UInt32 → UInt32) (a : V128) : V128 := ⟨f a.e0, f a.e1, f a.e2, f a.e3⟩
@[inline] def zip32 (f : UInt32 → UInt32 → UInt32) (a b : V128) : V128 :=
  ⟨f a.e0 b.e0, f a.e1 b.e1, f a.e2 b.e2, f a.e3 b.e3⟩

end V128

/-- `__m256i`: `lo` = bits 127..0, `hi` = bits 255..128 -/
structure M256 where
  lo : V128
  hi : V128
  deriving DecidableEq, Repr

namespace M256
/-- 32-bit lane `i mod 8` -/
def lane (v : M256) (i : Nat) : UInt32 := if i % 8 < 4 then v.lo.lane (i % 8) else v.hi.lane (i % 8 - 4)
def toBytes (v : M256) : Bytes := v.lo.toBytes ++ v.hi.toBytes
def ofBytes (b : Bytes) : M256 := ⟨V128.ofBytes b, V128.ofBytes (b.drop 16)⟩
end M256

/-- a store of the bytes `b` at `mem + off`: bytes `off .. off + b.length` of the buffer are replaced -/
def storeBytes (mem : Bytes) (off : Nat) (b : Bytes) : Bytes :=
  mem.take off ++ (b ++ mem.drop (off + b.length))

/-- the memory image of four consecutive `uint32_t` objects (little-endian machine) -/
def words_mem (w0 w1 w2 w3 : UInt32) : Bytes :=
  store32_le w0 ++ (store32_le w1 ++ (store32_le w2 ++ store32_le w3))

/-! ### SSE2 -/

/-- MOVDQU load: "dst[127:0] := MEM[mem_addr+127:mem_addr]" -/
def mm_loadu_si128 (mem : Bytes) : V128 := V128.ofBytes mem

/-- MOVDQU store: "MEM[mem_addr+127:mem_addr] := a[127:0]" (`mem_addr = mem + off`) -/
def mm_storeu_si128 (mem : Bytes) (off : Nat) (a : V128) : Bytes := storeBytes mem off a.toBytes

/-- `_mm_set_epi8(e15, …, e0)`: "dst[7:0] := e0; dst[15:8] := e1; …; dst[127:120] := e15" -/
def mm_set_epi8 (e15 e14 e13 e12 e11 e10 e9 e8 e7 e6 e5 e4 e3 e2 e1 e0 : UInt8) : V128 :=
  V128.ofBytes [e0, e1, e2, e3, e4, e5, e6, e7, e8, e9, e10, e11, e12, e13, e14, e15]

/-- `_mm_set1_epi32(a)`: "FOR j := 0 to 3: dst[32j+31:32j] := a[31:0]" -/
def mm_set1_epi32 (a : UInt32) : V128 := ⟨a, a, a, a⟩

/-- `_mm_set_epi64x(e1, e0)`: "dst[63:0] := e0; dst[127:64] := e1" -/
def mm_set_epi64x (e1 e0 : UInt64) : V128 := V128.ofQ e0 e1

/-- `_mm_set1_epi64x(a)`: "FOR j := 0 to 1: dst[64j+63:64j] := a[63:0]" -/
def mm_set1_epi64x (a : UInt64) : V128 := V128.ofQ a a

/-- MOVQ `_mm_cvtsi64_si128(a)`: "dst[63:0] := a[63:0]; dst[127:64] := 0" -/
def mm_cvtsi64_si128 (a : UInt64) : V128 := V128.ofQ a 0

/-- PADDD: "FOR j := 0 to 3: dst[32j+31:32j] := a[32j+31:32j] + b[32j+31:32j]" -/
def mm_add_epi32 (a b : V128) : V128 := V128.zip32 (· + ·) a b

/-- PADDQ: "FOR j := 0 to 1: dst[64j+63:64j] := a[64j+63:64j] + b[64j+63:64j]" -/
def mm_add_epi64 (a b : V128) : V128 := V128.ofQ (a.q0 + b.q0) (a.q1 + b.q1)

/-- PXOR: "dst[127:0] := (a[127:0] XOR b[127:0])" -/
def mm_xor_si128 (a b : V128) : V128 := V128.zip32 (· ^^^ ·) a b

/-- POR: "dst[127:0] := (a[127:0] OR b[127:0])" -/
def mm_or_si128 (a b : V128) : V128 := V128.zip32 (· ||| ·) a b

/-- PSLLD imm8: "FOR j := 0 to 3: IF imm8[7:0] > 31 dst[32j+31:32j] := 0
    ELSE dst[32j+31:32j] := ZeroExtend32(a[32j+31:32j] << imm8[7:0])" -/
def mm_slli_epi32 (a : V128) (imm8 : UInt32) : V128 :=
  V128.map32 (fun x => if imm8 > 31 then 0 else x <<< imm8) a

/-- PSRLD imm8: "FOR j := 0 to 3: IF imm8[7:0] > 31 dst[32j+31:32j] := 0
    ELSE dst[32j+31:32j] := ZeroExtend32(a[32j+31:32j] >> imm8[7:0])" -/
def mm_srli_epi32 (a : V128) (imm8 : UInt32) : V128 :=
  V128.map32 (fun x => if imm8 > 31 then 0 else x >>> imm8) a

/-- PSHUFD: "dst[31:0] := SELECT4(a, imm8[1:0]); dst[63:32] := SELECT4(a, imm8[3:2]);
    dst[95:64] := SELECT4(a, imm8[5:4]); dst[127:96] := SELECT4(a, imm8[7:6])"
    (SELECT4(src, control) = the 32-bit lane number `control` of src) -/
def mm_shuffle_epi32 (a : V128) (imm8 : Nat) : V128 :=
  ⟨a.lane (imm8 % 4), a.lane (imm8 / 4 % 4), a.lane (imm8 / 16 % 4), a.lane (imm8 / 64 % 4)⟩

/-- PUNPCKLDQ: "dst[31:0] := a[31:0]; dst[63:32] := b[31:0]; dst[95:64] := a[63:32]; dst[127:96] := b[63:32]" -/
def mm_unpacklo_epi32 (a b : V128) : V128 := ⟨a.e0, b.e0, a.e1, b.e1⟩

/-- PUNPCKHDQ: "dst[31:0] := a[95:64]; dst[63:32] := b[95:64]; dst[95:64] := a[127:96]; dst[127:96] := b[127:96]" -/
def mm_unpackhi_epi32 (a b : V128) : V128 := ⟨a.e2, b.e2, a.e3, b.e3⟩

/-- PUNPCKLQDQ: "dst[63:0] := a[63:0]; dst[127:64] := b[63:0]" -/
def mm_unpacklo_epi64 (a b : V128) : V128 := V128.ofQ a.q0 b.q0

/-- PUNPCKHQDQ: "dst[63:0] := a[127:64]; dst[127:64] := b[127:64]" -/
def mm_unpackhi_epi64 (a b : V128) : V128 := V128.ofQ a.q1 b.q1

/-! ### SSSE3 -/

/-- PSHUFB: "FOR j := 0 to 15: i := j*8; IF b[i+7] == 1 dst[i+7:i] := 0
    ELSE index[3:0] := b[i+3:i]; dst[i+7:i] := a[index*8+7:index*8]" -/
def mm_shuffle_epi8 (a b : V128) : V128 :=
  let ab := a.toBytes
  V128.ofBytes (b.toBytes.map fun s => if s &&& 0x80 ≠ 0 then 0 else ab.getD (s &&& 0x0F).toNat 0)

/-! ### AVX2 -/

/-- VMOVDQU load: "dst[255:0] := MEM[mem_addr+255:mem_addr]" -/
def mm256_loadu_si256 (mem : Bytes) : M256 := M256.ofBytes mem

/-- VMOVDQU store: "MEM[mem_addr+255:mem_addr] := a[255:0]" (`mem_addr = mem + off`) -/
def mm256_storeu_si256 (mem : Bytes) (off : Nat) (a : M256) : Bytes := storeBytes mem off a.toBytes

/-- `_mm256_set_epi8(e31, …, e0)`: "dst[7:0] := e0; …; dst[255:248] := e31" -/
def mm256_set_epi8 (e31 e30 e29 e28 e27 e26 e25 e24 e23 e22 e21 e20 e19 e18 e17 e16
    e15 e14 e13 e12 e11 e10 e9 e8 e7 e6 e5 e4 e3 e2 e1 e0 : UInt8) : M256 :=
  M256.ofBytes [e0, e1, e2, e3, e4, e5, e6, e7, e8, e9, e10, e11, e12, e13, e14, e15,
    e16, e17, e18, e19, e20, e21, e22, e23, e24, e25, e26, e27, e28, e29, e30, e31]

/-- `_mm256_set1_epi32(a)`: "FOR j := 0 to 7: dst[32j+31:32j] := a[31:0]" -/
def mm256_set1_epi32 (a : UInt32) : M256 := ⟨mm_set1_epi32 a, mm_set1_epi32 a⟩

/-- `_mm256_set_epi32(e7, …, e0)`: "dst[31:0] := e0; …; dst[255:224] := e7" -/
def mm256_set_epi32 (e7 e6 e5 e4 e3 e2 e1 e0 : UInt32) : M256 := ⟨⟨e0, e1, e2, e3⟩, ⟨e4, e5, e6, e7⟩⟩

/-- `_mm256_set_epi64x(e3, e2, e1, e0)`: "dst[63:0] := e0; dst[127:64] := e1; dst[191:128] := e2; dst[255:192] := e3" -/
def mm256_set_epi64x (e3 e2 e1 e0 : UInt64) : M256 := ⟨V128.ofQ e0 e1, V128.ofQ e2 e3⟩

/-- VPBROADCASTQ: "FOR j := 0 to 3: dst[64j+63:64j] := a[63:0]" -/
def mm256_broadcastq_epi64 (a : V128) : M256 := ⟨V128.ofQ a.q0 a.q0, V128.ofQ a.q0 a.q0⟩

/-- VPADDD: "FOR j := 0 to 7: dst[32j+31:32j] := a[32j+31:32j] + b[32j+31:32j]" -/
def mm256_add_epi32 (a b : M256) : M256 := ⟨mm_add_epi32 a.lo b.lo, mm_add_epi32 a.hi b.hi⟩

/-- VPADDQ: "FOR j := 0 to 3: dst[64j+63:64j] := a[64j+63:64j] + b[64j+63:64j]" -/
def mm256_add_epi64 (a b : M256) : M256 := ⟨mm_add_epi64 a.lo b.lo, mm_add_epi64 a.hi b.hi⟩

/-- VPXOR: "dst[255:0] := (a[255:0] XOR b[255:0])" -/
def mm256_xor_si256 (a b : M256) : M256 := ⟨mm_xor_si128 a.lo b.lo, mm_xor_si128 a.hi b.hi⟩

/-- VPOR: "dst[255:0] := (a[255:0] OR b[255:0])" -/
def mm256_or_si256 (a b : M256) : M256 := ⟨mm_or_si128 a.lo b.lo, mm_or_si128 a.hi b.hi⟩

/-- VPSLLD imm8: as PSLLD on each of the eight 32-bit lanes -/
def mm256_slli_epi32 (a : M256) (imm8 : UInt32) : M256 := ⟨mm_slli_epi32 a.lo imm8, mm_slli_epi32 a.hi imm8⟩

/-- VPSRLD imm8: as PSRLD on each of the eight 32-bit lanes -/
def mm256_srli_epi32 (a : M256) (imm8 : UInt32) : M256 := ⟨mm_srli_epi32 a.lo imm8, mm_srli_epi32 a.hi imm8⟩

/-- VPSHUFB (256): "FOR j := 0 to 15: i := j*8; IF b[i+7] == 1 dst[i+7:i] := 0 ELSE index[3:0] := b[i+3:i];
    dst[i+7:i] := a[index*8+7:index*8]; IF b[128+i+7] == 1 dst[128+i+7:128+i] := 0 ELSE
    index[3:0] := b[128+i+3:128+i]; dst[128+i+7:128+i] := a[128+index*8+7:128+index*8]"
    (each 128-bit half is shuffled by the same half of `b`, indices never cross halves) -/
def mm256_shuffle_epi8 (a b : M256) : M256 := ⟨mm_shuffle_epi8 a.lo b.lo, mm_shuffle_epi8 a.hi b.hi⟩

/-- VPUNPCKLDQ (256): "dst[127:0] := INTERLEAVE_DWORDS(a[127:0], b[127:0]);
    dst[255:128] := INTERLEAVE_DWORDS(a[255:128], b[255:128])" -/
def mm256_unpacklo_epi32 (a b : M256) : M256 := ⟨mm_unpacklo_epi32 a.lo b.lo, mm_unpacklo_epi32 a.hi b.hi⟩

/-- VPUNPCKHDQ (256): INTERLEAVE_HIGH_DWORDS on each 128-bit half -/
def mm256_unpackhi_epi32 (a b : M256) : M256 := ⟨mm_unpackhi_epi32 a.lo b.lo, mm_unpackhi_epi32 a.hi b.hi⟩

/-- VPUNPCKLQDQ (256): INTERLEAVE_QWORDS on each 128-bit half -/
def mm256_unpacklo_epi64 (a b : M256) : M256 := ⟨mm_unpacklo_epi64 a.lo b.lo, mm_unpacklo_epi64 a.hi b.hi⟩

/-- VPUNPCKHQDQ (256): INTERLEAVE_HIGH_QWORDS on each 128-bit half -/
def mm256_unpackhi_epi64 (a b : M256) : M256 := ⟨mm_unpackhi_epi64 a.lo b.lo, mm_unpackhi_epi64 a.hi b.hi⟩

/-- VPERMD `_mm256_permutevar8x32_epi32(a, idx)`: "FOR j := 0 to 7: i := j*32; id := idx[i+2:i]*32;
    dst[i+31:i] := a[id+31:id]" -/
def mm256_permutevar8x32_epi32 (a idx : M256) : M256 :=
  let sel (j : Nat) : UInt32 := a.lane ((idx.lane j).toNat % 8)
  ⟨⟨sel 0, sel 1, sel 2, sel 3⟩, ⟨sel 4, sel 5, sel 6, sel 7⟩⟩

/-- VPERM2I128 `_mm256_permute2x128_si256(a, b, imm8)`: "SELECT4(src1, src2, control): CASE control[1:0] OF
    0: tmp := src1[127:0]; 1: tmp := src1[255:128]; 2: tmp := src2[127:0]; 3: tmp := src2[255:128];
    IF control[3] tmp := 0.  dst[127:0] := SELECT4(a, b, imm8[3:0]); dst[255:128] := SELECT4(a, b, imm8[7:4])" -/
def mm256_permute2x128_si256 (a b : M256) (imm8 : Nat) : M256 :=
  let select4 (control : Nat) : V128 :=
    if control / 8 % 2 = 1 then ⟨0, 0, 0, 0⟩ else
    match control % 4 with
    | 0 => a.lo
    | 1 => a.hi
    | 2 => b.lo
    | _ => b.hi
  ⟨select4 (imm8 % 16), select4 (imm8 / 16 % 16)⟩

/-! ## Part 2: the macros and loop bodies -/

/-- `# define ROUNDS 20` -/
def ROUNDS : Nat := 20

/-- `for (i = START; i < rounds; i += 2) body` (`fuel` ≥ the number of iterations) -/
def forUpBy2Aux {α : Type} (body : α → α) (rounds : Nat) : Nat → Nat → α → α
  | 0, _, x => x
  | fuel + 1, i, x => if i < rounds then forUpBy2Aux body rounds fuel (i + 2) (body x) else x

/-- `for (i = 0; i < ROUNDS; i += 2) body` -/
def forUpBy2 {α : Type} (body : α → α) (rounds i : Nat) (x : α) : α :=
  forUpBy2Aux body rounds rounds i x

/-- sixteen vector locals `x_0 .. x_15` (or `orig0 .. orig15`) -/
structure X16 (α : Type) where
  x_0 : α
  x_1 : α
  x_2 : α
  x_3 : α
  x_4 : α
  x_5 : α
  x_6 : α
  x_7 : α
  x_8 : α
  x_9 : α
  x_10 : α
  x_11 : α
  x_12 : α
  x_13 : α
  x_14 : α
  x_15 : α

/-- `rot16 = _mm_set_epi8(13, 12, 15, 14, 9, 8, 11, 10, 5, 4, 7, 6, 1, 0, 3, 2)` (u0.h, u1.h, u4.h) -/
def rot16 : V128 := mm_set_epi8 13 12 15 14 9 8 11 10 5 4 7 6 1 0 3 2
/-- `rot8 = _mm_set_epi8(14, 13, 12, 15, 10, 9, 8, 11, 6, 5, 4, 7, 2, 1, 0, 3)` (u0.h, u1.h, u4.h) -/
def rot8 : V128 := mm_set_epi8 14 13 12 15 10 9 8 11 6 5 4 7 2 1 0 3

/-! ### u1.h / u0.h: one block in row form -/

/-- the four row registers `x_0 .. x_3` of u1.h / u0.h -/
structure Rows where
  x_0 : V128
  x_1 : V128
  x_2 : V128
  x_3 : V128

/-- body of `for (i = 0; i < ROUNDS; i += 2)` in u1.h and (same text) u0.h -/
def row_doubleRound (r : Rows) : Rows :=
  let ⟨x_0, x_1, x_2, x_3⟩ := r
  let x_0 := mm_add_epi32 x_0 x_1
  let x_3 := mm_xor_si128 x_3 x_0
  let x_3 := mm_shuffle_epi8 x_3 rot16

  let x_2 := mm_add_epi32 x_2 x_3
  let x_1 := mm_xor_si128 x_1 x_2

  let t_1 := x_1
  let x_1 := mm_slli_epi32 x_1 12
  let t_1 := mm_srli_epi32 t_1 20
  let x_1 := mm_xor_si128 x_1 t_1

  let x_0 := mm_add_epi32 x_0 x_1
  let x_3 := mm_xor_si128 x_3 x_0
  let x_0 := mm_shuffle_epi32 x_0 0x93
  let x_3 := mm_shuffle_epi8 x_3 rot8

  let x_2 := mm_add_epi32 x_2 x_3
  let x_3 := mm_shuffle_epi32 x_3 0x4e
  let x_1 := mm_xor_si128 x_1 x_2
  let x_2 := mm_shuffle_epi32 x_2 0x39

  let t_1 := x_1
  let x_1 := mm_slli_epi32 x_1 7
  let t_1 := mm_srli_epi32 t_1 25
  let x_1 := mm_xor_si128 x_1 t_1

  let x_0 := mm_add_epi32 x_0 x_1
  let x_3 := mm_xor_si128 x_3 x_0
  let x_3 := mm_shuffle_epi8 x_3 rot16

  let x_2 := mm_add_epi32 x_2 x_3
  let x_1 := mm_xor_si128 x_1 x_2

  let t_1 := x_1
  let x_1 := mm_slli_epi32 x_1 12
  let t_1 := mm_srli_epi32 t_1 20
  let x_1 := mm_xor_si128 x_1 t_1

  let x_0 := mm_add_epi32 x_0 x_1
  let x_3 := mm_xor_si128 x_3 x_0
  let x_0 := mm_shuffle_epi32 x_0 0x39
  let x_3 := mm_shuffle_epi8 x_3 rot8

  let x_2 := mm_add_epi32 x_2 x_3
  let x_3 := mm_shuffle_epi32 x_3 0x4e
  let x_1 := mm_xor_si128 x_1 x_2
  let x_2 := mm_shuffle_epi32 x_2 0x93

  let t_1 := x_1
  let x_1 := mm_slli_epi32 x_1 7
  let t_1 := mm_srli_epi32 t_1 25
  let x_1 := mm_xor_si128 x_1 t_1
  ⟨x_0, x_1, x_2, x_3⟩

/-- u1.h / u0.h, from `x_0 = _mm_loadu_si128(x + 0)` to `x_3 = _mm_add_epi32(x_3, _mm_loadu_si128(x + 12))`:
    the four rows of the keystream block of context `x` -/
def row_block (x : W16) : Rows :=
  let x_0 := mm_loadu_si128 (words_mem x.x0 x.x1 x.x2 x.x3)
  let x_1 := mm_loadu_si128 (words_mem x.x4 x.x5 x.x6 x.x7)
  let x_2 := mm_loadu_si128 (words_mem x.x8 x.x9 x.x10 x.x11)
  let x_3 := mm_loadu_si128 (words_mem x.x12 x.x13 x.x14 x.x15)
  let r := forUpBy2 row_doubleRound ROUNDS 0 ⟨x_0, x_1, x_2, x_3⟩
  let x_0 := mm_add_epi32 r.x_0 (mm_loadu_si128 (words_mem x.x0 x.x1 x.x2 x.x3))
  let x_1 := mm_add_epi32 r.x_1 (mm_loadu_si128 (words_mem x.x4 x.x5 x.x6 x.x7))
  let x_2 := mm_add_epi32 r.x_2 (mm_loadu_si128 (words_mem x.x8 x.x9 x.x10 x.x11))
  let x_3 := mm_add_epi32 r.x_3 (mm_loadu_si128 (words_mem x.x12 x.x13 x.x14 x.x15))
  ⟨x_0, x_1, x_2, x_3⟩

/-- one pass through the body of `while (bytes >= 64)` in u1.h: the buffer at `c` after the four stores,
    and the context after `in12++; if (in12 == 0) in13++; x[12] = in12; x[13] = in13` -/
def u1_iter (x : W16) (m c : Bytes) : Bytes × W16 :=
  let r := row_block x
  let x_0 := mm_xor_si128 r.x_0 (mm_loadu_si128 (m.drop 0))
  let x_1 := mm_xor_si128 r.x_1 (mm_loadu_si128 (m.drop 16))
  let x_2 := mm_xor_si128 r.x_2 (mm_loadu_si128 (m.drop 32))
  let x_3 := mm_xor_si128 r.x_3 (mm_loadu_si128 (m.drop 48))
  let c := mm_storeu_si128 c 0 x_0
  let c := mm_storeu_si128 c 16 x_1
  let c := mm_storeu_si128 c 32 x_2
  let c := mm_storeu_si128 c 48 x_3
  let in12 := x.x12
  let in13 := x.x13
  let in12 := in12 + 1
  let in13 := if in12 = 0 then in13 + 1 else in13
  (c, { x with x12 := in12, x13 := in13 })

/-- `while (bytes >= 64) { …; bytes -= 64; c += 64; m += 64; }` (`bytes` is `m.length`). Returns the bytes
    written, the context, and the advanced `m`, `c`. `fuel` bounds the iterations (use `m.length`). -/
def u1_loop : Nat → W16 → Bytes → Bytes → Bytes × W16 × Bytes × Bytes
  | 0, x, m, c => ([], x, m, c)
  | fuel + 1, x, m, c =>
    if m.length ≥ 64 then
      let (c, x) := u1_iter x m c
      let (out, x, m', c') := u1_loop fuel x (m.drop 64) (c.drop 64)
      (c.take 64 ++ out, x, m', c')
    else ([], x, m, c)

/-- `for (i = 0; i < bytes; i++) c[i] = m[i] ^ partialblock[i];` -/
def u0_xorloop (bytes : Nat) (m partialblock : Bytes) (i : Nat) (c : Bytes) : Bytes :=
  if i < bytes then u0_xorloop bytes m partialblock (i + 1) (c.set i (m.getD i 0 ^^^ partialblock.getD i 0))
  else c
termination_by bytes - i
decreasing_by omega

/-- u0.h: `if (bytes > 0) { … }`: the keystream block goes to the stack buffer `partialblock[64]`
    (all 64 bytes are written by the four stores; its indeterminate initial contents are modelled
    as zeros), then `bytes` bytes are XORed out. No counter update: `x[12]`, `x[13]` are left alone. -/
def u0 (x : W16) (m c : Bytes) : Bytes :=
  let bytes := m.length
  if bytes > 0 then
    let r := row_block x
    let partialblock := zeros 64
    let partialblock := mm_storeu_si128 partialblock 0 r.x_0
    let partialblock := mm_storeu_si128 partialblock 16 r.x_1
    let partialblock := mm_storeu_si128 partialblock 32 r.x_2
    let partialblock := mm_storeu_si128 partialblock 48 r.x_3
    u0_xorloop bytes m partialblock 0 c
  else c

/-! ### u4.h: four blocks, one per 32-bit lane -/

/-- `VEC4_ROT(A, IMM) = _mm_or_si128(_mm_slli_epi32(A, IMM), _mm_srli_epi32(A, (32 - IMM)))` -/
def VEC4_ROT (a : V128) (imm : UInt32) : V128 :=
  mm_or_si128 (mm_slli_epi32 a imm) (mm_srli_epi32 a (32 - imm))

/-- `VEC4_QUARTERROUND(A, B, C, D)` = `VEC4_QUARTERROUND_SHUFFLE(A, B, C, D)`; the new values of
    `(x_A, x_B, x_C, x_D)` (the temporaries `t_A`, `t_C` are dead afterwards) -/
def VEC4_QUARTERROUND (x_A x_B x_C x_D : V128) : V128 × V128 × V128 × V128 :=
  let x_A := mm_add_epi32 x_A x_B
  let t_A := mm_xor_si128 x_D x_A
  let x_D := mm_shuffle_epi8 t_A rot16
  let x_C := mm_add_epi32 x_C x_D
  let t_C := mm_xor_si128 x_B x_C
  let x_B := VEC4_ROT t_C 12
  let x_A := mm_add_epi32 x_A x_B
  let t_A := mm_xor_si128 x_D x_A
  let x_D := mm_shuffle_epi8 t_A rot8
  let x_C := mm_add_epi32 x_C x_D
  let t_C := mm_xor_si128 x_B x_C
  let x_B := VEC4_ROT t_C 7
  (x_A, x_B, x_C, x_D)

/-- body of `for (i = 0; i < ROUNDS; i += 2)` in u4.h -/
def u4_doubleRound (s : X16 V128) : X16 V128 :=
  let ⟨x_0, x_1, x_2, x_3, x_4, x_5, x_6, x_7, x_8, x_9, x_10, x_11, x_12, x_13, x_14, x_15⟩ := s
  let (x_0, x_4, x_8, x_12) := VEC4_QUARTERROUND x_0 x_4 x_8 x_12
  let (x_1, x_5, x_9, x_13) := VEC4_QUARTERROUND x_1 x_5 x_9 x_13
  let (x_2, x_6, x_10, x_14) := VEC4_QUARTERROUND x_2 x_6 x_10 x_14
  let (x_3, x_7, x_11, x_15) := VEC4_QUARTERROUND x_3 x_7 x_11 x_15
  let (x_0, x_5, x_10, x_15) := VEC4_QUARTERROUND x_0 x_5 x_10 x_15
  let (x_1, x_6, x_11, x_12) := VEC4_QUARTERROUND x_1 x_6 x_11 x_12
  let (x_2, x_7, x_8, x_13) := VEC4_QUARTERROUND x_2 x_7 x_8 x_13
  let (x_3, x_4, x_9, x_14) := VEC4_QUARTERROUND x_3 x_4 x_9 x_14
  ⟨x_0, x_1, x_2, x_3, x_4, x_5, x_6, x_7, x_8, x_9, x_10, x_11, x_12, x_13, x_14, x_15⟩

/-- u4.h `ONEQUAD(A, B, C, D)` = `ONEQUAD_TRANSPOSE(A, B, C, D)` with the pointers `m`, `c + coff`:
    add the originals, transpose the 4×4 words, XOR with the message and store at
    `c + 0 / 64 / 128 / 192`. Returns the buffer at `c`. -/
def u4_ONEQUAD (x_A x_B x_C x_D orig_A orig_B orig_C orig_D : V128) (m c : Bytes) (coff : Nat) : Bytes :=
  let x_A := mm_add_epi32 x_A orig_A
  let x_B := mm_add_epi32 x_B orig_B
  let x_C := mm_add_epi32 x_C orig_C
  let x_D := mm_add_epi32 x_D orig_D
  let t_A := mm_unpacklo_epi32 x_A x_B
  let t_B := mm_unpacklo_epi32 x_C x_D
  let t_C := mm_unpackhi_epi32 x_A x_B
  let t_D := mm_unpackhi_epi32 x_C x_D
  let x_A := mm_unpacklo_epi64 t_A t_B
  let x_B := mm_unpackhi_epi64 t_A t_B
  let x_C := mm_unpacklo_epi64 t_C t_D
  let x_D := mm_unpackhi_epi64 t_C t_D
  let t0 := mm_xor_si128 x_A (mm_loadu_si128 (m.drop 0))
  let c := mm_storeu_si128 c (coff + 0) t0
  let t1 := mm_xor_si128 x_B (mm_loadu_si128 (m.drop 64))
  let c := mm_storeu_si128 c (coff + 64) t1
  let t2 := mm_xor_si128 x_C (mm_loadu_si128 (m.drop 128))
  let c := mm_storeu_si128 c (coff + 128) t2
  let t3 := mm_xor_si128 x_D (mm_loadu_si128 (m.drop 192))
  let c := mm_storeu_si128 c (coff + 192) t3
  c

/-- the counter lanes of u4.h: from `in12 = x[12]` to `x_13 = _mm_unpackhi_epi32(t12, t13)` -/
def u4_counters (in12 in13 : UInt32) : V128 × V128 × UInt64 :=
  let addv12 := mm_set_epi64x 1 0
  let addv13 := mm_set_epi64x 3 2
  let in1213 : UInt64 := in12.toUInt64 ||| (in13.toUInt64 <<< 32)
  let t12 := mm_set1_epi64x in1213
  let t13 := mm_set1_epi64x in1213
  let x_12 := mm_add_epi64 addv12 t12
  let x_13 := mm_add_epi64 addv13 t13
  let t12 := mm_unpacklo_epi32 x_12 x_13
  let t13 := mm_unpackhi_epi32 x_12 x_13
  let x_12 := mm_unpacklo_epi32 t12 t13
  let x_13 := mm_unpackhi_epi32 t12 t13
  (x_12, x_13, in1213)

/-- one pass through the body of `while (bytes >= 256)` in u4.h: the buffer at `c` after the sixteen
    stores and the context after `in1213 += 4; x[12] = in1213 & 0xFFFFFFFF; x[13] = (in1213 >> 32) & 0xFFFFFFFF` -/
def u4_iter (x : W16) (m c : Bytes) : Bytes × W16 :=
  let orig0 := mm_set1_epi32 x.x0
  let orig1 := mm_set1_epi32 x.x1
  let orig2 := mm_set1_epi32 x.x2
  let orig3 := mm_set1_epi32 x.x3
  let orig4 := mm_set1_epi32 x.x4
  let orig5 := mm_set1_epi32 x.x5
  let orig6 := mm_set1_epi32 x.x6
  let orig7 := mm_set1_epi32 x.x7
  let orig8 := mm_set1_epi32 x.x8
  let orig9 := mm_set1_epi32 x.x9
  let orig10 := mm_set1_epi32 x.x10
  let orig11 := mm_set1_epi32 x.x11
  let orig14 := mm_set1_epi32 x.x14
  let orig15 := mm_set1_epi32 x.x15
  let in12 := x.x12
  let in13 := x.x13
  let (x_12, x_13, in1213) := u4_counters in12 in13
  let orig12 := x_12
  let orig13 := x_13
  let in1213 := in1213 + 4
  let x := { x with x12 := (in1213 &&& 0xFFFFFFFF).toUInt32, x13 := ((in1213 >>> 32) &&& 0xFFFFFFFF).toUInt32 }
  let s := forUpBy2 u4_doubleRound ROUNDS 0
      ⟨orig0, orig1, orig2, orig3, orig4, orig5, orig6, orig7, orig8, orig9, orig10, orig11,
       x_12, x_13, orig14, orig15⟩
  let c := u4_ONEQUAD s.x_0 s.x_1 s.x_2 s.x_3 orig0 orig1 orig2 orig3 m c 0
  let m := m.drop 16                                    -- m += 16; c += 16;
  let c := u4_ONEQUAD s.x_4 s.x_5 s.x_6 s.x_7 orig4 orig5 orig6 orig7 m c 16
  let m := m.drop 16
  let c := u4_ONEQUAD s.x_8 s.x_9 s.x_10 s.x_11 orig8 orig9 orig10 orig11 m c 32
  let m := m.drop 16
  let c := u4_ONEQUAD s.x_12 s.x_13 s.x_14 s.x_15 orig12 orig13 orig14 orig15 m c 48
  (c, x)

/-- `if (bytes >= 256) { … while (bytes >= 256) { …; bytes -= 256; c += 256; m += 256; } }` -/
def u4_loop : Nat → W16 → Bytes → Bytes → Bytes × W16 × Bytes × Bytes
  | 0, x, m, c => ([], x, m, c)
  | fuel + 1, x, m, c =>
    if m.length ≥ 256 then
      let (c, x) := u4_iter x m c
      let (out, x, m', c') := u4_loop fuel x (m.drop 256) (c.drop 256)
      (c.take 256 ++ out, x, m', c')
    else ([], x, m, c)

/-! ### u8.h: eight blocks, one per 32-bit lane of a 256-bit register -/

/-- `rot16` of u8.h: the 128-bit constant in both halves -/
def rot16_256 : M256 :=
  mm256_set_epi8 13 12 15 14 9 8 11 10 5 4 7 6 1 0 3 2 13 12 15 14 9 8 11 10 5 4 7 6 1 0 3 2
/-- `rot8` of u8.h -/
def rot8_256 : M256 :=
  mm256_set_epi8 14 13 12 15 10 9 8 11 6 5 4 7 2 1 0 3 14 13 12 15 10 9 8 11 6 5 4 7 2 1 0 3

/-- `VEC8_ROT(A, IMM) = _mm256_or_si256(_mm256_slli_epi32(A, IMM), _mm256_srli_epi32(A, (32 - IMM)))` -/
def VEC8_ROT (a : M256) (imm : UInt32) : M256 :=
  mm256_or_si256 (mm256_slli_epi32 a imm) (mm256_srli_epi32 a (32 - imm))

/-- `VEC8_LINE1(A, B, C, D)`: new `(x_A, x_D)` -/
def VEC8_LINE1 (x_A x_B _x_C x_D : M256) : M256 × M256 :=
  let x_A := mm256_add_epi32 x_A x_B
  let x_D := mm256_shuffle_epi8 (mm256_xor_si256 x_D x_A) rot16_256
  (x_A, x_D)
/-- `VEC8_LINE2(A, B, C, D)`: new `(x_C, x_B)` -/
def VEC8_LINE2 (_x_A x_B x_C x_D : M256) : M256 × M256 :=
  let x_C := mm256_add_epi32 x_C x_D
  let x_B := VEC8_ROT (mm256_xor_si256 x_B x_C) 12
  (x_C, x_B)
/-- `VEC8_LINE3(A, B, C, D)`: new `(x_A, x_D)` -/
def VEC8_LINE3 (x_A x_B _x_C x_D : M256) : M256 × M256 :=
  let x_A := mm256_add_epi32 x_A x_B
  let x_D := mm256_shuffle_epi8 (mm256_xor_si256 x_D x_A) rot8_256
  (x_A, x_D)
/-- `VEC8_LINE4(A, B, C, D)`: new `(x_C, x_B)` -/
def VEC8_LINE4 (_x_A x_B x_C x_D : M256) : M256 × M256 :=
  let x_C := mm256_add_epi32 x_C x_D
  let x_B := VEC8_ROT (mm256_xor_si256 x_B x_C) 7
  (x_C, x_B)

/-- `VEC8_ROUND(A1, …, D4)` = `VEC8_ROUND_SEQ(A1, …, D4)`: the four lines of four quarter rounds,
    interleaved line by line; returns the sixteen registers in argument order -/
def VEC8_ROUND (a1 b1 c1 d1 a2 b2 c2 d2 a3 b3 c3 d3 a4 b4 c4 d4 : M256) :
    M256 × M256 × M256 × M256 × M256 × M256 × M256 × M256 ×
    M256 × M256 × M256 × M256 × M256 × M256 × M256 × M256 :=
  let (a1, d1) := VEC8_LINE1 a1 b1 c1 d1
  let (a2, d2) := VEC8_LINE1 a2 b2 c2 d2
  let (a3, d3) := VEC8_LINE1 a3 b3 c3 d3
  let (a4, d4) := VEC8_LINE1 a4 b4 c4 d4
  let (c1, b1) := VEC8_LINE2 a1 b1 c1 d1
  let (c2, b2) := VEC8_LINE2 a2 b2 c2 d2
  let (c3, b3) := VEC8_LINE2 a3 b3 c3 d3
  let (c4, b4) := VEC8_LINE2 a4 b4 c4 d4
  let (a1, d1) := VEC8_LINE3 a1 b1 c1 d1
  let (a2, d2) := VEC8_LINE3 a2 b2 c2 d2
  let (a3, d3) := VEC8_LINE3 a3 b3 c3 d3
  let (a4, d4) := VEC8_LINE3 a4 b4 c4 d4
  let (c1, b1) := VEC8_LINE4 a1 b1 c1 d1
  let (c2, b2) := VEC8_LINE4 a2 b2 c2 d2
  let (c3, b3) := VEC8_LINE4 a3 b3 c3 d3
  let (c4, b4) := VEC8_LINE4 a4 b4 c4 d4
  (a1, b1, c1, d1, a2, b2, c2, d2, a3, b3, c3, d3, a4, b4, c4, d4)

/-- body of `for (i = 0; i < ROUNDS; i += 2)` in u8.h -/
def u8_doubleRound (s : X16 M256) : X16 M256 :=
  let ⟨x_0, x_1, x_2, x_3, x_4, x_5, x_6, x_7, x_8, x_9, x_10, x_11, x_12, x_13, x_14, x_15⟩ := s
  let (x_0, x_4, x_8, x_12, x_1, x_5, x_9, x_13, x_2, x_6, x_10, x_14, x_3, x_7, x_11, x_15) :=
    VEC8_ROUND x_0 x_4 x_8 x_12 x_1 x_5 x_9 x_13 x_2 x_6 x_10 x_14 x_3 x_7 x_11 x_15
  let (x_0, x_5, x_10, x_15, x_1, x_6, x_11, x_12, x_2, x_7, x_8, x_13, x_3, x_4, x_9, x_14) :=
    VEC8_ROUND x_0 x_5 x_10 x_15 x_1 x_6 x_11 x_12 x_2 x_7 x_8 x_13 x_3 x_4 x_9 x_14
  ⟨x_0, x_1, x_2, x_3, x_4, x_5, x_6, x_7, x_8, x_9, x_10, x_11, x_12, x_13, x_14, x_15⟩

/-- `ONEQUAD_UNPCK(A, B, C, D)`: add the originals and transpose 4×4 inside each 128-bit half -/
def u8_ONEQUAD_UNPCK (x_A x_B x_C x_D orig_A orig_B orig_C orig_D : M256) : M256 × M256 × M256 × M256 :=
  let x_A := mm256_add_epi32 x_A orig_A
  let x_B := mm256_add_epi32 x_B orig_B
  let x_C := mm256_add_epi32 x_C orig_C
  let x_D := mm256_add_epi32 x_D orig_D
  let t_A := mm256_unpacklo_epi32 x_A x_B
  let t_B := mm256_unpacklo_epi32 x_C x_D
  let t_C := mm256_unpackhi_epi32 x_A x_B
  let t_D := mm256_unpackhi_epi32 x_C x_D
  let x_A := mm256_unpacklo_epi64 t_A t_B
  let x_B := mm256_unpackhi_epi64 t_A t_B
  let x_C := mm256_unpacklo_epi64 t_C t_D
  let x_D := mm256_unpackhi_epi64 t_C t_D
  (x_A, x_B, x_C, x_D)

/-- `ONEOCTO(A, B, C, D, A2, B2, C2, D2)` with the pointers `m`, `c + coff`: two `ONEQUAD_UNPCK`, the
    eight `_mm256_permute2x128_si256`, the eight XORs with the message, the eight 32-byte stores -/
def u8_ONEOCTO (x_A x_B x_C x_D x_A2 x_B2 x_C2 x_D2 orig_A orig_B orig_C orig_D orig_A2 orig_B2 orig_C2 orig_D2 : M256)
    (m c : Bytes) (coff : Nat) : Bytes :=
  let (x_A, x_B, x_C, x_D) := u8_ONEQUAD_UNPCK x_A x_B x_C x_D orig_A orig_B orig_C orig_D
  let (x_A2, x_B2, x_C2, x_D2) := u8_ONEQUAD_UNPCK x_A2 x_B2 x_C2 x_D2 orig_A2 orig_B2 orig_C2 orig_D2
  let t_A := mm256_permute2x128_si256 x_A x_A2 0x20
  let t_A2 := mm256_permute2x128_si256 x_A x_A2 0x31
  let t_B := mm256_permute2x128_si256 x_B x_B2 0x20
  let t_B2 := mm256_permute2x128_si256 x_B x_B2 0x31
  let t_C := mm256_permute2x128_si256 x_C x_C2 0x20
  let t_C2 := mm256_permute2x128_si256 x_C x_C2 0x31
  let t_D := mm256_permute2x128_si256 x_D x_D2 0x20
  let t_D2 := mm256_permute2x128_si256 x_D x_D2 0x31
  let t_A := mm256_xor_si256 t_A (mm256_loadu_si256 (m.drop 0))
  let t_B := mm256_xor_si256 t_B (mm256_loadu_si256 (m.drop 64))
  let t_C := mm256_xor_si256 t_C (mm256_loadu_si256 (m.drop 128))
  let t_D := mm256_xor_si256 t_D (mm256_loadu_si256 (m.drop 192))
  let t_A2 := mm256_xor_si256 t_A2 (mm256_loadu_si256 (m.drop 256))
  let t_B2 := mm256_xor_si256 t_B2 (mm256_loadu_si256 (m.drop 320))
  let t_C2 := mm256_xor_si256 t_C2 (mm256_loadu_si256 (m.drop 384))
  let t_D2 := mm256_xor_si256 t_D2 (mm256_loadu_si256 (m.drop 448))
  let c := mm256_storeu_si256 c (coff + 0) t_A
  let c := mm256_storeu_si256 c (coff + 64) t_B
  let c := mm256_storeu_si256 c (coff + 128) t_C
  let c := mm256_storeu_si256 c (coff + 192) t_D
  let c := mm256_storeu_si256 c (coff + 256) t_A2
  let c := mm256_storeu_si256 c (coff + 320) t_B2
  let c := mm256_storeu_si256 c (coff + 384) t_C2
  let c := mm256_storeu_si256 c (coff + 448) t_D2
  c

/-- the counter lanes of u8.h: from `in12 = x[12]` to `x_13 = _mm256_permutevar8x32_epi32(t13, permute)` -/
def u8_counters (in12 in13 : UInt32) : M256 × M256 × UInt64 :=
  let addv12 := mm256_set_epi64x 3 2 1 0
  let addv13 := mm256_set_epi64x 7 6 5 4
  let permute := mm256_set_epi32 7 6 3 2 5 4 1 0
  let in1213 : UInt64 := in12.toUInt64 ||| (in13.toUInt64 <<< 32)
  let x_12 := mm256_broadcastq_epi64 (mm_cvtsi64_si128 in1213)
  let x_13 := x_12
  let t12 := mm256_add_epi64 addv12 x_12
  let t13 := mm256_add_epi64 addv13 x_13
  let x_12 := mm256_unpacklo_epi32 t12 t13
  let x_13 := mm256_unpackhi_epi32 t12 t13
  let t12 := mm256_unpacklo_epi32 x_12 x_13
  let t13 := mm256_unpackhi_epi32 x_12 x_13
  let x_12 := mm256_permutevar8x32_epi32 t12 permute
  let x_13 := mm256_permutevar8x32_epi32 t13 permute
  (x_12, x_13, in1213)

/-- one pass through the body of `while (bytes >= 512)` in u8.h -/
def u8_iter (x : W16) (m c : Bytes) : Bytes × W16 :=
  let orig0 := mm256_set1_epi32 x.x0
  let orig1 := mm256_set1_epi32 x.x1
  let orig2 := mm256_set1_epi32 x.x2
  let orig3 := mm256_set1_epi32 x.x3
  let orig4 := mm256_set1_epi32 x.x4
  let orig5 := mm256_set1_epi32 x.x5
  let orig6 := mm256_set1_epi32 x.x6
  let orig7 := mm256_set1_epi32 x.x7
  let orig8 := mm256_set1_epi32 x.x8
  let orig9 := mm256_set1_epi32 x.x9
  let orig10 := mm256_set1_epi32 x.x10
  let orig11 := mm256_set1_epi32 x.x11
  let orig14 := mm256_set1_epi32 x.x14
  let orig15 := mm256_set1_epi32 x.x15
  let in12 := x.x12
  let in13 := x.x13
  let (x_12, x_13, in1213) := u8_counters in12 in13
  let orig12 := x_12
  let orig13 := x_13
  let in1213 := in1213 + 8
  let x := { x with x12 := (in1213 &&& 0xFFFFFFFF).toUInt32, x13 := ((in1213 >>> 32) &&& 0xFFFFFFFF).toUInt32 }
  let s := forUpBy2 u8_doubleRound ROUNDS 0
      ⟨orig0, orig1, orig2, orig3, orig4, orig5, orig6, orig7, orig8, orig9, orig10, orig11,
       x_12, x_13, orig14, orig15⟩
  let c := u8_ONEOCTO s.x_0 s.x_1 s.x_2 s.x_3 s.x_4 s.x_5 s.x_6 s.x_7
    orig0 orig1 orig2 orig3 orig4 orig5 orig6 orig7 m c 0
  let m := m.drop 32                                    -- m += 32; c += 32;
  let c := u8_ONEOCTO s.x_8 s.x_9 s.x_10 s.x_11 s.x_12 s.x_13 s.x_14 s.x_15
    orig8 orig9 orig10 orig11 orig12 orig13 orig14 orig15 m c 32
  (c, x)

/-- `if (bytes >= 512) { … while (bytes >= 512) { …; bytes -= 512; c += 512; m += 512; } }` -/
def u8_loop : Nat → W16 → Bytes → Bytes → Bytes × W16 × Bytes × Bytes
  | 0, x, m, c => ([], x, m, c)
  | fuel + 1, x, m, c =>
    if m.length ≥ 512 then
      let (c, x) := u8_iter x m c
      let (out, x, m', c') := u8_loop fuel x (m.drop 512) (c.drop 512)
      (c.take 512 ++ out, x, m', c')
    else ([], x, m, c)

/-! ### the same loop bodies when `m == c` (the in-place callers `stream_ref`, `stream_ietf_ext_ref`)

  Here every load of `m + off` reads the buffer AS IT IS AT THAT POINT of the statement sequence, i.e. after
  the stores that precede it in program order. `Properties/C03Simd.lean` (`*_inplace_eq`) proves that each
  body computes the same buffer and context as the separate-buffer body above applied to `m := ` the old
  contents: every load precedes every store to the bytes it reads. -/

/-- u1.h body with `m == c`: the four loads precede the four stores -/
def u1_iter_inplace (x : W16) (c : Bytes) : Bytes × W16 :=
  let r := row_block x
  let x_0 := mm_xor_si128 r.x_0 (mm_loadu_si128 (c.drop 0))
  let x_1 := mm_xor_si128 r.x_1 (mm_loadu_si128 (c.drop 16))
  let x_2 := mm_xor_si128 r.x_2 (mm_loadu_si128 (c.drop 32))
  let x_3 := mm_xor_si128 r.x_3 (mm_loadu_si128 (c.drop 48))
  let c := mm_storeu_si128 c 0 x_0
  let c := mm_storeu_si128 c 16 x_1
  let c := mm_storeu_si128 c 32 x_2
  let c := mm_storeu_si128 c 48 x_3
  let in12 := x.x12
  let in13 := x.x13
  let in12 := in12 + 1
  let in13 := if in12 = 0 then in13 + 1 else in13
  (c, { x with x12 := in12, x13 := in13 })

/-- u4.h `ONEQUAD_TRANSPOSE` with `m == c` (both at `c + coff`): load, store, load, store, … -/
def u4_ONEQUAD_inplace (x_A x_B x_C x_D orig_A orig_B orig_C orig_D : V128) (c : Bytes) (coff : Nat) : Bytes :=
  let x_A := mm_add_epi32 x_A orig_A
  let x_B := mm_add_epi32 x_B orig_B
  let x_C := mm_add_epi32 x_C orig_C
  let x_D := mm_add_epi32 x_D orig_D
  let t_A := mm_unpacklo_epi32 x_A x_B
  let t_B := mm_unpacklo_epi32 x_C x_D
  let t_C := mm_unpackhi_epi32 x_A x_B
  let t_D := mm_unpackhi_epi32 x_C x_D
  let x_A := mm_unpacklo_epi64 t_A t_B
  let x_B := mm_unpackhi_epi64 t_A t_B
  let x_C := mm_unpacklo_epi64 t_C t_D
  let x_D := mm_unpackhi_epi64 t_C t_D
  let t0 := mm_xor_si128 x_A (mm_loadu_si128 (c.drop (coff + 0)))
  let c := mm_storeu_si128 c (coff + 0) t0
  let t1 := mm_xor_si128 x_B (mm_loadu_si128 (c.drop (coff + 64)))
  let c := mm_storeu_si128 c (coff + 64) t1
  let t2 := mm_xor_si128 x_C (mm_loadu_si128 (c.drop (coff + 128)))
  let c := mm_storeu_si128 c (coff + 128) t2
  let t3 := mm_xor_si128 x_D (mm_loadu_si128 (c.drop (coff + 192)))
  let c := mm_storeu_si128 c (coff + 192) t3
  c

/-- u4.h loop body with `m == c` -/
def u4_iter_inplace (x : W16) (c : Bytes) : Bytes × W16 :=
  let orig0 := mm_set1_epi32 x.x0
  let orig1 := mm_set1_epi32 x.x1
  let orig2 := mm_set1_epi32 x.x2
  let orig3 := mm_set1_epi32 x.x3
  let orig4 := mm_set1_epi32 x.x4
  let orig5 := mm_set1_epi32 x.x5
  let orig6 := mm_set1_epi32 x.x6
  let orig7 := mm_set1_epi32 x.x7
  let orig8 := mm_set1_epi32 x.x8
  let orig9 := mm_set1_epi32 x.x9
  let orig10 := mm_set1_epi32 x.x10
  let orig11 := mm_set1_epi32 x.x11
  let orig14 := mm_set1_epi32 x.x14
  let orig15 := mm_set1_epi32 x.x15
  let in12 := x.x12
  let in13 := x.x13
  let (x_12, x_13, in1213) := u4_counters in12 in13
  let orig12 := x_12
  let orig13 := x_13
  let in1213 := in1213 + 4
  let x := { x with x12 := (in1213 &&& 0xFFFFFFFF).toUInt32, x13 := ((in1213 >>> 32) &&& 0xFFFFFFFF).toUInt32 }
  let s := forUpBy2 u4_doubleRound ROUNDS 0
      ⟨orig0, orig1, orig2, orig3, orig4, orig5, orig6, orig7, orig8, orig9, orig10, orig11,
       x_12, x_13, orig14, orig15⟩
  let c := u4_ONEQUAD_inplace s.x_0 s.x_1 s.x_2 s.x_3 orig0 orig1 orig2 orig3 c 0
  let c := u4_ONEQUAD_inplace s.x_4 s.x_5 s.x_6 s.x_7 orig4 orig5 orig6 orig7 c 16
  let c := u4_ONEQUAD_inplace s.x_8 s.x_9 s.x_10 s.x_11 orig8 orig9 orig10 orig11 c 32
  let c := u4_ONEQUAD_inplace s.x_12 s.x_13 s.x_14 s.x_15 orig12 orig13 orig14 orig15 c 48
  (c, x)

/-- u8.h loop body with `m == c`: inside one `ONEOCTO` the eight loads precede the eight stores, so it is
    `u8_ONEOCTO` reading the current buffer at `c + coff`; the second one reads the buffer left by the first -/
def u8_iter_inplace (x : W16) (c : Bytes) : Bytes × W16 :=
  let orig0 := mm256_set1_epi32 x.x0
  let orig1 := mm256_set1_epi32 x.x1
  let orig2 := mm256_set1_epi32 x.x2
  let orig3 := mm256_set1_epi32 x.x3
  let orig4 := mm256_set1_epi32 x.x4
  let orig5 := mm256_set1_epi32 x.x5
  let orig6 := mm256_set1_epi32 x.x6
  let orig7 := mm256_set1_epi32 x.x7
  let orig8 := mm256_set1_epi32 x.x8
  let orig9 := mm256_set1_epi32 x.x9
  let orig10 := mm256_set1_epi32 x.x10
  let orig11 := mm256_set1_epi32 x.x11
  let orig14 := mm256_set1_epi32 x.x14
  let orig15 := mm256_set1_epi32 x.x15
  let in12 := x.x12
  let in13 := x.x13
  let (x_12, x_13, in1213) := u8_counters in12 in13
  let orig12 := x_12
  let orig13 := x_13
  let in1213 := in1213 + 8
  let x := { x with x12 := (in1213 &&& 0xFFFFFFFF).toUInt32, x13 := ((in1213 >>> 32) &&& 0xFFFFFFFF).toUInt32 }
  let s := forUpBy2 u8_doubleRound ROUNDS 0
      ⟨orig0, orig1, orig2, orig3, orig4, orig5, orig6, orig7, orig8, orig9, orig10, orig11,
       x_12, x_13, orig14, orig15⟩
  let c := u8_ONEOCTO s.x_0 s.x_1 s.x_2 s.x_3 s.x_4 s.x_5 s.x_6 s.x_7
    orig0 orig1 orig2 orig3 orig4 orig5 orig6 orig7 (c.drop 0) c 0
  let c := u8_ONEOCTO s.x_8 s.x_9 s.x_10 s.x_11 s.x_12 s.x_13 s.x_14 s.x_15
    orig8 orig9 orig10 orig11 orig12 orig13 orig14 orig15 (c.drop 32) c 32
  (c, x)

/-- u0.h byte loop with `m == c`: `c[i] = c[i] ^ partialblock[i]` -/
def u0_xorloop_inplace (bytes : Nat) (partialblock : Bytes) (i : Nat) (c : Bytes) : Bytes :=
  if i < bytes then
    u0_xorloop_inplace bytes partialblock (i + 1) (c.set i (c.getD i 0 ^^^ partialblock.getD i 0))
  else c
termination_by bytes - i
decreasing_by omega

/-! ## Part 3: `chacha20_encrypt_bytes` and the entry points -/

/-- chacha20_dolbeau-ssse3.c `chacha20_encrypt_bytes(ctx, m, c, bytes)`: `if (!bytes) return;` then
    u4.h, u1.h, u0.h. `bytes` is `m.length`; `c` is the output buffer (old contents; at least `bytes`
    long). Returns the first `bytes` bytes of the buffer afterwards, and the context. -/
def chacha20_encrypt_bytes_ssse3 (ctx : W16) (m c : Bytes) : Bytes × W16 :=
  if m.length = 0 then ([], ctx) else
  let x := ctx
  let (o4, x, m, c) := u4_loop m.length x m c
  let (o1, x, m, c) := u1_loop m.length x m c
  let o0 := (u0 x m c).take m.length
  (o4 ++ (o1 ++ o0), x)

/-- chacha20_dolbeau-avx2.c `chacha20_encrypt_bytes`: u8.h, u4.h, u1.h, u0.h -/
def chacha20_encrypt_bytes_avx2 (ctx : W16) (m c : Bytes) : Bytes × W16 :=
  if m.length = 0 then ([], ctx) else
  let x := ctx
  let (o8, x, m, c) := u8_loop m.length x m c
  let (o4, x, m, c) := u4_loop m.length x m c
  let (o1, x, m, c) := u1_loop m.length x m c
  let o0 := (u0 x m c).take m.length
  (o8 ++ (o4 ++ (o1 ++ o0)), x)

/-- the four entry points, parametrised by the file's `chacha20_encrypt_bytes`; `chacha_keysetup`,
    `chacha_ivsetup`, `chacha_ietf_ivsetup` have the same text as in chacha20_ref.c (the models of
    `Model/CoresRef.lean` are used). `stream_ref`: `memset(c, 0, clen)` then encrypt in place. -/
structure Impl where
  encrypt_bytes : W16 → Bytes → Bytes → Bytes × W16

def Impl.stream_ref (I : Impl) (clen : Nat) (n k : Bytes) : Bytes :=
  if clen = 0 then [] else
  let ctx := chacha_ivsetup (chacha_keysetup W16.zero k) n none
  let c := zeros clen
  (I.encrypt_bytes ctx c c).1

def Impl.stream_ietf_ext_ref (I : Impl) (clen : Nat) (n k : Bytes) : Bytes :=
  if clen = 0 then [] else
  let ctx := chacha_ietf_ivsetup (chacha_keysetup W16.zero k) n none
  let c := zeros clen
  (I.encrypt_bytes ctx c c).1

/-- `ic_high = (uint32_t) (ic >> 32); ic_low = (uint32_t) ic;` stored to `ic_bytes[8]`; `c` is the
    caller's output buffer (old contents) -/
def Impl.stream_ref_xor_ic (I : Impl) (c m n : Bytes) (ic : UInt64) (k : Bytes) : Bytes :=
  if m.length = 0 then [] else
  let ic_high := (ic >>> 32).toUInt32
  let ic_low := ic.toUInt32
  let ic_bytes := store32_le ic_low ++ store32_le ic_high
  let ctx := chacha_ivsetup (chacha_keysetup W16.zero k) n (some ic_bytes)
  (I.encrypt_bytes ctx m c).1

def Impl.stream_ietf_ext_ref_xor_ic (I : Impl) (c m n : Bytes) (ic : UInt32) (k : Bytes) : Bytes :=
  if m.length = 0 then [] else
  let ic_bytes := store32_le ic
  let ctx := chacha_ietf_ivsetup (chacha_keysetup W16.zero k) n (some ic_bytes)
  (I.encrypt_bytes ctx m c).1

def avx2 : Impl := ⟨chacha20_encrypt_bytes_avx2⟩
def ssse3 : Impl := ⟨chacha20_encrypt_bytes_ssse3⟩

end Sodium.Model.ChachaSimd
