import SodiumModel.Basic
/-
  Model of the scalar limb arithmetic of
    crypto_core/ed25519/ref10/ed25519_ref10.c :  load_3, load_4, sc25519_reduce, sc25519_mul,
    sc25519_muladd, sc25519_sq, sc25519_sqmul, sc25519_invert
  transcribed STATEMENT BY STATEMENT (scripts/gen_sc.py parsed the C text; every C statement is one
  Lean `let`, the C text of every block is quoted in the doc comment above its transcription).

  `int64_t` is `Int64` (wrapping `+ - *`, arithmetic `>>>`), `uint64_t` is `UInt64`, `unsigned char`
  is `UInt8`.  The conversions the C compiler inserts are explicit:
    * `2097151 & load_3(s)`                    : computed in `uint64_t`, then converted to `int64_t`
    * `(int64_t) (1L << 20)`                    : `(1 : Int64) <<< 20`
    * `s6 -= carry6 * ((uint64_t) 1L << 21)`    : both operands are converted to `uint64_t`, the
                                                  difference is converted back to `int64_t`
    * `s[2] = (s0 >> 16) | (s1 * ((uint64_t) 1 << 5))` : `uint64_t` arithmetic, truncated to a byte.
  That none of the `Int64` operations overflows is a THEOREM (`Proofs/ScReduce*.lean`), not an
  assumption of the model.

  The three C functions end with the SAME 276 lines (from `s11 += s23 * 666643;` to the byte
  packing; the generator asserts textual identity), transcribed once as `reduce_tail`.
  The blank-line separated blocks of the C text are the `def`s below, composed in program order.
-/
namespace Sodium.Model.ScReduce
open Sodium

/-- `static inline uint64_t load_3(const unsigned char *in)` (`inp + off` is the pointer) -/
def load_3 (inp : Bytes) (off : Nat) : UInt64 :=
  let result : UInt64 := (inp[off]!).toUInt64
  let result := result ||| ((inp[off + 1]!).toUInt64 <<< 8)
  let result := result ||| ((inp[off + 2]!).toUInt64 <<< 16)
  result

/-- `static inline uint64_t load_4(const unsigned char *in)` -/
def load_4 (inp : Bytes) (off : Nat) : UInt64 :=
  let result : UInt64 := (inp[off]!).toUInt64
  let result := result ||| ((inp[off + 1]!).toUInt64 <<< 8)
  let result := result ||| ((inp[off + 2]!).toUInt64 <<< 16)
  let result := result ||| ((inp[off + 3]!).toUInt64 <<< 24)
  result

/-- the local variables `int64_t s0 … s23` -/
structure Limbs where
  s0 : Int64
  s1 : Int64
  s2 : Int64
  s3 : Int64
  s4 : Int64
  s5 : Int64
  s6 : Int64
  s7 : Int64
  s8 : Int64
  s9 : Int64
  s10 : Int64
  s11 : Int64
  s12 : Int64
  s13 : Int64
  s14 : Int64
  s15 : Int64
  s16 : Int64
  s17 : Int64
  s18 : Int64
  s19 : Int64
  s20 : Int64
  s21 : Int64
  s22 : Int64
  s23 : Int64
  deriving Repr, DecidableEq

/-- twelve 21-bit limbs `a0 … a11` (resp. `b`, `c`) of a 32-byte operand -/
structure Limbs12 where
  l0 : Int64
  l1 : Int64
  l2 : Int64
  l3 : Int64
  l4 : Int64
  l5 : Int64
  l6 : Int64
  l7 : Int64
  l8 : Int64
  l9 : Int64
  l10 : Int64
  l11 : Int64
  deriving Repr, DecidableEq

/-! ### sc25519_reduce: the loads -/

/--
```c
    int64_t s0  = 2097151 & load_3(s);
    int64_t s1  = 2097151 & (load_4(s + 2) >> 5);
    int64_t s2  = 2097151 & (load_3(s + 5) >> 2);
    int64_t s3  = 2097151 & (load_4(s + 7) >> 7);
    int64_t s4  = 2097151 & (load_4(s + 10) >> 4);
    int64_t s5  = 2097151 & (load_3(s + 13) >> 1);
    int64_t s6  = 2097151 & (load_4(s + 15) >> 6);
    int64_t s7  = 2097151 & (load_3(s + 18) >> 3);
    int64_t s8  = 2097151 & load_3(s + 21);
    int64_t s9  = 2097151 & (load_4(s + 23) >> 5);
    int64_t s10 = 2097151 & (load_3(s + 26) >> 2);
    int64_t s11 = 2097151 & (load_4(s + 28) >> 7);
    int64_t s12 = 2097151 & (load_4(s + 31) >> 4);
    int64_t s13 = 2097151 & (load_3(s + 34) >> 1);
    int64_t s14 = 2097151 & (load_4(s + 36) >> 6);
    int64_t s15 = 2097151 & (load_3(s + 39) >> 3);
    int64_t s16 = 2097151 & load_3(s + 42);
    int64_t s17 = 2097151 & (load_4(s + 44) >> 5);
    int64_t s18 = 2097151 & (load_3(s + 47) >> 2);
    int64_t s19 = 2097151 & (load_4(s + 49) >> 7);
    int64_t s20 = 2097151 & (load_4(s + 52) >> 4);
    int64_t s21 = 2097151 & (load_3(s + 55) >> 1);
    int64_t s22 = 2097151 & (load_4(s + 57) >> 6);
    int64_t s23 = (load_4(s + 60) >> 3);
```
-/
def sc_load64 (s : Bytes) : Limbs :=
  {
    s0 := ((2097151 : UInt64) &&& load_3 s 0).toInt64,
    s1 := ((2097151 : UInt64) &&& (load_4 s 2 >>> 5)).toInt64,
    s2 := ((2097151 : UInt64) &&& (load_3 s 5 >>> 2)).toInt64,
    s3 := ((2097151 : UInt64) &&& (load_4 s 7 >>> 7)).toInt64,
    s4 := ((2097151 : UInt64) &&& (load_4 s 10 >>> 4)).toInt64,
    s5 := ((2097151 : UInt64) &&& (load_3 s 13 >>> 1)).toInt64,
    s6 := ((2097151 : UInt64) &&& (load_4 s 15 >>> 6)).toInt64,
    s7 := ((2097151 : UInt64) &&& (load_3 s 18 >>> 3)).toInt64,
    s8 := ((2097151 : UInt64) &&& load_3 s 21).toInt64,
    s9 := ((2097151 : UInt64) &&& (load_4 s 23 >>> 5)).toInt64,
    s10 := ((2097151 : UInt64) &&& (load_3 s 26 >>> 2)).toInt64,
    s11 := ((2097151 : UInt64) &&& (load_4 s 28 >>> 7)).toInt64,
    s12 := ((2097151 : UInt64) &&& (load_4 s 31 >>> 4)).toInt64,
    s13 := ((2097151 : UInt64) &&& (load_3 s 34 >>> 1)).toInt64,
    s14 := ((2097151 : UInt64) &&& (load_4 s 36 >>> 6)).toInt64,
    s15 := ((2097151 : UInt64) &&& (load_3 s 39 >>> 3)).toInt64,
    s16 := ((2097151 : UInt64) &&& load_3 s 42).toInt64,
    s17 := ((2097151 : UInt64) &&& (load_4 s 44 >>> 5)).toInt64,
    s18 := ((2097151 : UInt64) &&& (load_3 s 47 >>> 2)).toInt64,
    s19 := ((2097151 : UInt64) &&& (load_4 s 49 >>> 7)).toInt64,
    s20 := ((2097151 : UInt64) &&& (load_4 s 52 >>> 4)).toInt64,
    s21 := ((2097151 : UInt64) &&& (load_3 s 55 >>> 1)).toInt64,
    s22 := ((2097151 : UInt64) &&& (load_4 s 57 >>> 6)).toInt64,
    s23 := (load_4 s 60 >>> 3).toInt64 }

/-! ### the common tail of sc25519_reduce / sc25519_mul / sc25519_muladd -/

/--
```c
    s11 += s23 * 666643;
    s12 += s23 * 470296;
    s13 += s23 * 654183;
    s14 -= s23 * 997805;
    s15 += s23 * 136657;
    s16 -= s23 * 683901;
```
-/
def fold_s23 (x : Limbs) : Limbs :=
  let s11 := x.s11
  let s12 := x.s12
  let s13 := x.s13
  let s14 := x.s14
  let s15 := x.s15
  let s16 := x.s16
  let s23 := x.s23
  let s11 := s11 + s23 * 666643
  let s12 := s12 + s23 * 470296
  let s13 := s13 + s23 * 654183
  let s14 := s14 - s23 * 997805
  let s15 := s15 + s23 * 136657
  let s16 := s16 - s23 * 683901
  { x with s11 := s11, s12 := s12, s13 := s13, s14 := s14, s15 := s15, s16 := s16 }

/--
```c
    s10 += s22 * 666643;
    s11 += s22 * 470296;
    s12 += s22 * 654183;
    s13 -= s22 * 997805;
    s14 += s22 * 136657;
    s15 -= s22 * 683901;
```
-/
def fold_s22 (x : Limbs) : Limbs :=
  let s10 := x.s10
  let s11 := x.s11
  let s12 := x.s12
  let s13 := x.s13
  let s14 := x.s14
  let s15 := x.s15
  let s22 := x.s22
  let s10 := s10 + s22 * 666643
  let s11 := s11 + s22 * 470296
  let s12 := s12 + s22 * 654183
  let s13 := s13 - s22 * 997805
  let s14 := s14 + s22 * 136657
  let s15 := s15 - s22 * 683901
  { x with s10 := s10, s11 := s11, s12 := s12, s13 := s13, s14 := s14, s15 := s15 }

/--
```c
    s9 += s21 * 666643;
    s10 += s21 * 470296;
    s11 += s21 * 654183;
    s12 -= s21 * 997805;
    s13 += s21 * 136657;
    s14 -= s21 * 683901;
```
-/
def fold_s21 (x : Limbs) : Limbs :=
  let s9 := x.s9
  let s10 := x.s10
  let s11 := x.s11
  let s12 := x.s12
  let s13 := x.s13
  let s14 := x.s14
  let s21 := x.s21
  let s9 := s9 + s21 * 666643
  let s10 := s10 + s21 * 470296
  let s11 := s11 + s21 * 654183
  let s12 := s12 - s21 * 997805
  let s13 := s13 + s21 * 136657
  let s14 := s14 - s21 * 683901
  { x with s9 := s9, s10 := s10, s11 := s11, s12 := s12, s13 := s13, s14 := s14 }

/--
```c
    s8 += s20 * 666643;
    s9 += s20 * 470296;
    s10 += s20 * 654183;
    s11 -= s20 * 997805;
    s12 += s20 * 136657;
    s13 -= s20 * 683901;
```
-/
def fold_s20 (x : Limbs) : Limbs :=
  let s8 := x.s8
  let s9 := x.s9
  let s10 := x.s10
  let s11 := x.s11
  let s12 := x.s12
  let s13 := x.s13
  let s20 := x.s20
  let s8 := s8 + s20 * 666643
  let s9 := s9 + s20 * 470296
  let s10 := s10 + s20 * 654183
  let s11 := s11 - s20 * 997805
  let s12 := s12 + s20 * 136657
  let s13 := s13 - s20 * 683901
  { x with s8 := s8, s9 := s9, s10 := s10, s11 := s11, s12 := s12, s13 := s13 }

/--
```c
    s7 += s19 * 666643;
    s8 += s19 * 470296;
    s9 += s19 * 654183;
    s10 -= s19 * 997805;
    s11 += s19 * 136657;
    s12 -= s19 * 683901;
```
-/
def fold_s19 (x : Limbs) : Limbs :=
  let s7 := x.s7
  let s8 := x.s8
  let s9 := x.s9
  let s10 := x.s10
  let s11 := x.s11
  let s12 := x.s12
  let s19 := x.s19
  let s7 := s7 + s19 * 666643
  let s8 := s8 + s19 * 470296
  let s9 := s9 + s19 * 654183
  let s10 := s10 - s19 * 997805
  let s11 := s11 + s19 * 136657
  let s12 := s12 - s19 * 683901
  { x with s7 := s7, s8 := s8, s9 := s9, s10 := s10, s11 := s11, s12 := s12 }

/--
```c
    s6 += s18 * 666643;
    s7 += s18 * 470296;
    s8 += s18 * 654183;
    s9 -= s18 * 997805;
    s10 += s18 * 136657;
    s11 -= s18 * 683901;
```
-/
def fold_s18 (x : Limbs) : Limbs :=
  let s6 := x.s6
  let s7 := x.s7
  let s8 := x.s8
  let s9 := x.s9
  let s10 := x.s10
  let s11 := x.s11
  let s18 := x.s18
  let s6 := s6 + s18 * 666643
  let s7 := s7 + s18 * 470296
  let s8 := s8 + s18 * 654183
  let s9 := s9 - s18 * 997805
  let s10 := s10 + s18 * 136657
  let s11 := s11 - s18 * 683901
  { x with s6 := s6, s7 := s7, s8 := s8, s9 := s9, s10 := s10, s11 := s11 }

/--
```c
    carry6 = (s6 + (int64_t) (1L << 20)) >> 21;
    s7 += carry6;
    s6 -= carry6 * ((uint64_t) 1L << 21);
    carry8 = (s8 + (int64_t) (1L << 20)) >> 21;
    s9 += carry8;
    s8 -= carry8 * ((uint64_t) 1L << 21);
    carry10 = (s10 + (int64_t) (1L << 20)) >> 21;
    s11 += carry10;
    s10 -= carry10 * ((uint64_t) 1L << 21);
    carry12 = (s12 + (int64_t) (1L << 20)) >> 21;
    s13 += carry12;
    s12 -= carry12 * ((uint64_t) 1L << 21);
    carry14 = (s14 + (int64_t) (1L << 20)) >> 21;
    s15 += carry14;
    s14 -= carry14 * ((uint64_t) 1L << 21);
    carry16 = (s16 + (int64_t) (1L << 20)) >> 21;
    s17 += carry16;
    s16 -= carry16 * ((uint64_t) 1L << 21);
```
-/
def carry_6_16 (x : Limbs) : Limbs :=
  let s6 := x.s6
  let s7 := x.s7
  let s8 := x.s8
  let s9 := x.s9
  let s10 := x.s10
  let s11 := x.s11
  let s12 := x.s12
  let s13 := x.s13
  let s14 := x.s14
  let s15 := x.s15
  let s16 := x.s16
  let s17 := x.s17
  let carry6 := (s6 + ((1 : Int64) <<< 20)) >>> 21
  let s7 := s7 + carry6
  let s6 := (s6.toUInt64 - carry6.toUInt64 * ((1 : UInt64) <<< 21)).toInt64
  let carry8 := (s8 + ((1 : Int64) <<< 20)) >>> 21
  let s9 := s9 + carry8
  let s8 := (s8.toUInt64 - carry8.toUInt64 * ((1 : UInt64) <<< 21)).toInt64
  let carry10 := (s10 + ((1 : Int64) <<< 20)) >>> 21
  let s11 := s11 + carry10
  let s10 := (s10.toUInt64 - carry10.toUInt64 * ((1 : UInt64) <<< 21)).toInt64
  let carry12 := (s12 + ((1 : Int64) <<< 20)) >>> 21
  let s13 := s13 + carry12
  let s12 := (s12.toUInt64 - carry12.toUInt64 * ((1 : UInt64) <<< 21)).toInt64
  let carry14 := (s14 + ((1 : Int64) <<< 20)) >>> 21
  let s15 := s15 + carry14
  let s14 := (s14.toUInt64 - carry14.toUInt64 * ((1 : UInt64) <<< 21)).toInt64
  let carry16 := (s16 + ((1 : Int64) <<< 20)) >>> 21
  let s17 := s17 + carry16
  let s16 := (s16.toUInt64 - carry16.toUInt64 * ((1 : UInt64) <<< 21)).toInt64
  { x with s6 := s6, s7 := s7, s8 := s8, s9 := s9, s10 := s10, s11 := s11, s12 := s12, s13 := s13, s14 := s14, s15 := s15, s16 := s16, s17 := s17 }

/--
```c
    carry7 = (s7 + (int64_t) (1L << 20)) >> 21;
    s8 += carry7;
    s7 -= carry7 * ((uint64_t) 1L << 21);
    carry9 = (s9 + (int64_t) (1L << 20)) >> 21;
    s10 += carry9;
    s9 -= carry9 * ((uint64_t) 1L << 21);
    carry11 = (s11 + (int64_t) (1L << 20)) >> 21;
    s12 += carry11;
    s11 -= carry11 * ((uint64_t) 1L << 21);
    carry13 = (s13 + (int64_t) (1L << 20)) >> 21;
    s14 += carry13;
    s13 -= carry13 * ((uint64_t) 1L << 21);
    carry15 = (s15 + (int64_t) (1L << 20)) >> 21;
    s16 += carry15;
    s15 -= carry15 * ((uint64_t) 1L << 21);
```
-/
def carry_7_15 (x : Limbs) : Limbs :=
  let s7 := x.s7
  let s8 := x.s8
  let s9 := x.s9
  let s10 := x.s10
  let s11 := x.s11
  let s12 := x.s12
  let s13 := x.s13
  let s14 := x.s14
  let s15 := x.s15
  let s16 := x.s16
  let carry7 := (s7 + ((1 : Int64) <<< 20)) >>> 21
  let s8 := s8 + carry7
  let s7 := (s7.toUInt64 - carry7.toUInt64 * ((1 : UInt64) <<< 21)).toInt64
  let carry9 := (s9 + ((1 : Int64) <<< 20)) >>> 21
  let s10 := s10 + carry9
  let s9 := (s9.toUInt64 - carry9.toUInt64 * ((1 : UInt64) <<< 21)).toInt64
  let carry11 := (s11 + ((1 : Int64) <<< 20)) >>> 21
  let s12 := s12 + carry11
  let s11 := (s11.toUInt64 - carry11.toUInt64 * ((1 : UInt64) <<< 21)).toInt64
  let carry13 := (s13 + ((1 : Int64) <<< 20)) >>> 21
  let s14 := s14 + carry13
  let s13 := (s13.toUInt64 - carry13.toUInt64 * ((1 : UInt64) <<< 21)).toInt64
  let carry15 := (s15 + ((1 : Int64) <<< 20)) >>> 21
  let s16 := s16 + carry15
  let s15 := (s15.toUInt64 - carry15.toUInt64 * ((1 : UInt64) <<< 21)).toInt64
  { x with s7 := s7, s8 := s8, s9 := s9, s10 := s10, s11 := s11, s12 := s12, s13 := s13, s14 := s14, s15 := s15, s16 := s16 }

/--
```c
    s5 += s17 * 666643;
    s6 += s17 * 470296;
    s7 += s17 * 654183;
    s8 -= s17 * 997805;
    s9 += s17 * 136657;
    s10 -= s17 * 683901;
```
-/
def fold_s17 (x : Limbs) : Limbs :=
  let s5 := x.s5
  let s6 := x.s6
  let s7 := x.s7
  let s8 := x.s8
  let s9 := x.s9
  let s10 := x.s10
  let s17 := x.s17
  let s5 := s5 + s17 * 666643
  let s6 := s6 + s17 * 470296
  let s7 := s7 + s17 * 654183
  let s8 := s8 - s17 * 997805
  let s9 := s9 + s17 * 136657
  let s10 := s10 - s17 * 683901
  { x with s5 := s5, s6 := s6, s7 := s7, s8 := s8, s9 := s9, s10 := s10 }

/--
```c
    s4 += s16 * 666643;
    s5 += s16 * 470296;
    s6 += s16 * 654183;
    s7 -= s16 * 997805;
    s8 += s16 * 136657;
    s9 -= s16 * 683901;
```
-/
def fold_s16 (x : Limbs) : Limbs :=
  let s4 := x.s4
  let s5 := x.s5
  let s6 := x.s6
  let s7 := x.s7
  let s8 := x.s8
  let s9 := x.s9
  let s16 := x.s16
  let s4 := s4 + s16 * 666643
  let s5 := s5 + s16 * 470296
  let s6 := s6 + s16 * 654183
  let s7 := s7 - s16 * 997805
  let s8 := s8 + s16 * 136657
  let s9 := s9 - s16 * 683901
  { x with s4 := s4, s5 := s5, s6 := s6, s7 := s7, s8 := s8, s9 := s9 }

/--
```c
    s3 += s15 * 666643;
    s4 += s15 * 470296;
    s5 += s15 * 654183;
    s6 -= s15 * 997805;
    s7 += s15 * 136657;
    s8 -= s15 * 683901;
```
-/
def fold_s15 (x : Limbs) : Limbs :=
  let s3 := x.s3
  let s4 := x.s4
  let s5 := x.s5
  let s6 := x.s6
  let s7 := x.s7
  let s8 := x.s8
  let s15 := x.s15
  let s3 := s3 + s15 * 666643
  let s4 := s4 + s15 * 470296
  let s5 := s5 + s15 * 654183
  let s6 := s6 - s15 * 997805
  let s7 := s7 + s15 * 136657
  let s8 := s8 - s15 * 683901
  { x with s3 := s3, s4 := s4, s5 := s5, s6 := s6, s7 := s7, s8 := s8 }

/--
```c
    s2 += s14 * 666643;
    s3 += s14 * 470296;
    s4 += s14 * 654183;
    s5 -= s14 * 997805;
    s6 += s14 * 136657;
    s7 -= s14 * 683901;
```
-/
def fold_s14 (x : Limbs) : Limbs :=
  let s2 := x.s2
  let s3 := x.s3
  let s4 := x.s4
  let s5 := x.s5
  let s6 := x.s6
  let s7 := x.s7
  let s14 := x.s14
  let s2 := s2 + s14 * 666643
  let s3 := s3 + s14 * 470296
  let s4 := s4 + s14 * 654183
  let s5 := s5 - s14 * 997805
  let s6 := s6 + s14 * 136657
  let s7 := s7 - s14 * 683901
  { x with s2 := s2, s3 := s3, s4 := s4, s5 := s5, s6 := s6, s7 := s7 }

/--
```c
    s1 += s13 * 666643;
    s2 += s13 * 470296;
    s3 += s13 * 654183;
    s4 -= s13 * 997805;
    s5 += s13 * 136657;
    s6 -= s13 * 683901;
```
-/
def fold_s13 (x : Limbs) : Limbs :=
  let s1 := x.s1
  let s2 := x.s2
  let s3 := x.s3
  let s4 := x.s4
  let s5 := x.s5
  let s6 := x.s6
  let s13 := x.s13
  let s1 := s1 + s13 * 666643
  let s2 := s2 + s13 * 470296
  let s3 := s3 + s13 * 654183
  let s4 := s4 - s13 * 997805
  let s5 := s5 + s13 * 136657
  let s6 := s6 - s13 * 683901
  { x with s1 := s1, s2 := s2, s3 := s3, s4 := s4, s5 := s5, s6 := s6 }

/--
```c
    s0 += s12 * 666643;
    s1 += s12 * 470296;
    s2 += s12 * 654183;
    s3 -= s12 * 997805;
    s4 += s12 * 136657;
    s5 -= s12 * 683901;
    s12 = 0;
```
-/
def fold_s12_a (x : Limbs) : Limbs :=
  let s0 := x.s0
  let s1 := x.s1
  let s2 := x.s2
  let s3 := x.s3
  let s4 := x.s4
  let s5 := x.s5
  let s12 := x.s12
  let s0 := s0 + s12 * 666643
  let s1 := s1 + s12 * 470296
  let s2 := s2 + s12 * 654183
  let s3 := s3 - s12 * 997805
  let s4 := s4 + s12 * 136657
  let s5 := s5 - s12 * 683901
  let s12 := 0
  { x with s0 := s0, s1 := s1, s2 := s2, s3 := s3, s4 := s4, s5 := s5, s12 := s12 }

/--
```c
    carry0 = (s0 + (int64_t) (1L << 20)) >> 21;
    s1 += carry0;
    s0 -= carry0 * ((uint64_t) 1L << 21);
    carry2 = (s2 + (int64_t) (1L << 20)) >> 21;
    s3 += carry2;
    s2 -= carry2 * ((uint64_t) 1L << 21);
    carry4 = (s4 + (int64_t) (1L << 20)) >> 21;
    s5 += carry4;
    s4 -= carry4 * ((uint64_t) 1L << 21);
    carry6 = (s6 + (int64_t) (1L << 20)) >> 21;
    s7 += carry6;
    s6 -= carry6 * ((uint64_t) 1L << 21);
    carry8 = (s8 + (int64_t) (1L << 20)) >> 21;
    s9 += carry8;
    s8 -= carry8 * ((uint64_t) 1L << 21);
    carry10 = (s10 + (int64_t) (1L << 20)) >> 21;
    s11 += carry10;
    s10 -= carry10 * ((uint64_t) 1L << 21);
```
-/
def carry_0_10 (x : Limbs) : Limbs :=
  let s0 := x.s0
  let s1 := x.s1
  let s2 := x.s2
  let s3 := x.s3
  let s4 := x.s4
  let s5 := x.s5
  let s6 := x.s6
  let s7 := x.s7
  let s8 := x.s8
  let s9 := x.s9
  let s10 := x.s10
  let s11 := x.s11
  let carry0 := (s0 + ((1 : Int64) <<< 20)) >>> 21
  let s1 := s1 + carry0
  let s0 := (s0.toUInt64 - carry0.toUInt64 * ((1 : UInt64) <<< 21)).toInt64
  let carry2 := (s2 + ((1 : Int64) <<< 20)) >>> 21
  let s3 := s3 + carry2
  let s2 := (s2.toUInt64 - carry2.toUInt64 * ((1 : UInt64) <<< 21)).toInt64
  let carry4 := (s4 + ((1 : Int64) <<< 20)) >>> 21
  let s5 := s5 + carry4
  let s4 := (s4.toUInt64 - carry4.toUInt64 * ((1 : UInt64) <<< 21)).toInt64
  let carry6 := (s6 + ((1 : Int64) <<< 20)) >>> 21
  let s7 := s7 + carry6
  let s6 := (s6.toUInt64 - carry6.toUInt64 * ((1 : UInt64) <<< 21)).toInt64
  let carry8 := (s8 + ((1 : Int64) <<< 20)) >>> 21
  let s9 := s9 + carry8
  let s8 := (s8.toUInt64 - carry8.toUInt64 * ((1 : UInt64) <<< 21)).toInt64
  let carry10 := (s10 + ((1 : Int64) <<< 20)) >>> 21
  let s11 := s11 + carry10
  let s10 := (s10.toUInt64 - carry10.toUInt64 * ((1 : UInt64) <<< 21)).toInt64
  { x with s0 := s0, s1 := s1, s2 := s2, s3 := s3, s4 := s4, s5 := s5, s6 := s6, s7 := s7, s8 := s8, s9 := s9, s10 := s10, s11 := s11 }

/--
```c
    carry1 = (s1 + (int64_t) (1L << 20)) >> 21;
    s2 += carry1;
    s1 -= carry1 * ((uint64_t) 1L << 21);
    carry3 = (s3 + (int64_t) (1L << 20)) >> 21;
    s4 += carry3;
    s3 -= carry3 * ((uint64_t) 1L << 21);
    carry5 = (s5 + (int64_t) (1L << 20)) >> 21;
    s6 += carry5;
    s5 -= carry5 * ((uint64_t) 1L << 21);
    carry7 = (s7 + (int64_t) (1L << 20)) >> 21;
    s8 += carry7;
    s7 -= carry7 * ((uint64_t) 1L << 21);
    carry9 = (s9 + (int64_t) (1L << 20)) >> 21;
    s10 += carry9;
    s9 -= carry9 * ((uint64_t) 1L << 21);
    carry11 = (s11 + (int64_t) (1L << 20)) >> 21;
    s12 += carry11;
    s11 -= carry11 * ((uint64_t) 1L << 21);
```
-/
def carry_1_11 (x : Limbs) : Limbs :=
  let s1 := x.s1
  let s2 := x.s2
  let s3 := x.s3
  let s4 := x.s4
  let s5 := x.s5
  let s6 := x.s6
  let s7 := x.s7
  let s8 := x.s8
  let s9 := x.s9
  let s10 := x.s10
  let s11 := x.s11
  let s12 := x.s12
  let carry1 := (s1 + ((1 : Int64) <<< 20)) >>> 21
  let s2 := s2 + carry1
  let s1 := (s1.toUInt64 - carry1.toUInt64 * ((1 : UInt64) <<< 21)).toInt64
  let carry3 := (s3 + ((1 : Int64) <<< 20)) >>> 21
  let s4 := s4 + carry3
  let s3 := (s3.toUInt64 - carry3.toUInt64 * ((1 : UInt64) <<< 21)).toInt64
  let carry5 := (s5 + ((1 : Int64) <<< 20)) >>> 21
  let s6 := s6 + carry5
  let s5 := (s5.toUInt64 - carry5.toUInt64 * ((1 : UInt64) <<< 21)).toInt64
  let carry7 := (s7 + ((1 : Int64) <<< 20)) >>> 21
  let s8 := s8 + carry7
  let s7 := (s7.toUInt64 - carry7.toUInt64 * ((1 : UInt64) <<< 21)).toInt64
  let carry9 := (s9 + ((1 : Int64) <<< 20)) >>> 21
  let s10 := s10 + carry9
  let s9 := (s9.toUInt64 - carry9.toUInt64 * ((1 : UInt64) <<< 21)).toInt64
  let carry11 := (s11 + ((1 : Int64) <<< 20)) >>> 21
  let s12 := s12 + carry11
  let s11 := (s11.toUInt64 - carry11.toUInt64 * ((1 : UInt64) <<< 21)).toInt64
  { x with s1 := s1, s2 := s2, s3 := s3, s4 := s4, s5 := s5, s6 := s6, s7 := s7, s8 := s8, s9 := s9, s10 := s10, s11 := s11, s12 := s12 }

/--
```c
    s0 += s12 * 666643;
    s1 += s12 * 470296;
    s2 += s12 * 654183;
    s3 -= s12 * 997805;
    s4 += s12 * 136657;
    s5 -= s12 * 683901;
    s12 = 0;
```
-/
def fold_s12_b (x : Limbs) : Limbs :=
  let s0 := x.s0
  let s1 := x.s1
  let s2 := x.s2
  let s3 := x.s3
  let s4 := x.s4
  let s5 := x.s5
  let s12 := x.s12
  let s0 := s0 + s12 * 666643
  let s1 := s1 + s12 * 470296
  let s2 := s2 + s12 * 654183
  let s3 := s3 - s12 * 997805
  let s4 := s4 + s12 * 136657
  let s5 := s5 - s12 * 683901
  let s12 := 0
  { x with s0 := s0, s1 := s1, s2 := s2, s3 := s3, s4 := s4, s5 := s5, s12 := s12 }

/--
```c
    carry0 = s0 >> 21;
    s1 += carry0;
    s0 -= carry0 * ((uint64_t) 1L << 21);
    carry1 = s1 >> 21;
    s2 += carry1;
    s1 -= carry1 * ((uint64_t) 1L << 21);
    carry2 = s2 >> 21;
    s3 += carry2;
    s2 -= carry2 * ((uint64_t) 1L << 21);
    carry3 = s3 >> 21;
    s4 += carry3;
    s3 -= carry3 * ((uint64_t) 1L << 21);
    carry4 = s4 >> 21;
    s5 += carry4;
    s4 -= carry4 * ((uint64_t) 1L << 21);
    carry5 = s5 >> 21;
    s6 += carry5;
    s5 -= carry5 * ((uint64_t) 1L << 21);
    carry6 = s6 >> 21;
    s7 += carry6;
    s6 -= carry6 * ((uint64_t) 1L << 21);
    carry7 = s7 >> 21;
    s8 += carry7;
    s7 -= carry7 * ((uint64_t) 1L << 21);
    carry8 = s8 >> 21;
    s9 += carry8;
    s8 -= carry8 * ((uint64_t) 1L << 21);
    carry9 = s9 >> 21;
    s10 += carry9;
    s9 -= carry9 * ((uint64_t) 1L << 21);
    carry10 = s10 >> 21;
    s11 += carry10;
    s10 -= carry10 * ((uint64_t) 1L << 21);
    carry11 = s11 >> 21;
    s12 += carry11;
    s11 -= carry11 * ((uint64_t) 1L << 21);
```
-/
def carryF_0_11 (x : Limbs) : Limbs :=
  let s0 := x.s0
  let s1 := x.s1
  let s2 := x.s2
  let s3 := x.s3
  let s4 := x.s4
  let s5 := x.s5
  let s6 := x.s6
  let s7 := x.s7
  let s8 := x.s8
  let s9 := x.s9
  let s10 := x.s10
  let s11 := x.s11
  let s12 := x.s12
  let carry0 := s0 >>> 21
  let s1 := s1 + carry0
  let s0 := (s0.toUInt64 - carry0.toUInt64 * ((1 : UInt64) <<< 21)).toInt64
  let carry1 := s1 >>> 21
  let s2 := s2 + carry1
  let s1 := (s1.toUInt64 - carry1.toUInt64 * ((1 : UInt64) <<< 21)).toInt64
  let carry2 := s2 >>> 21
  let s3 := s3 + carry2
  let s2 := (s2.toUInt64 - carry2.toUInt64 * ((1 : UInt64) <<< 21)).toInt64
  let carry3 := s3 >>> 21
  let s4 := s4 + carry3
  let s3 := (s3.toUInt64 - carry3.toUInt64 * ((1 : UInt64) <<< 21)).toInt64
  let carry4 := s4 >>> 21
  let s5 := s5 + carry4
  let s4 := (s4.toUInt64 - carry4.toUInt64 * ((1 : UInt64) <<< 21)).toInt64
  let carry5 := s5 >>> 21
  let s6 := s6 + carry5
  let s5 := (s5.toUInt64 - carry5.toUInt64 * ((1 : UInt64) <<< 21)).toInt64
  let carry6 := s6 >>> 21
  let s7 := s7 + carry6
  let s6 := (s6.toUInt64 - carry6.toUInt64 * ((1 : UInt64) <<< 21)).toInt64
  let carry7 := s7 >>> 21
  let s8 := s8 + carry7
  let s7 := (s7.toUInt64 - carry7.toUInt64 * ((1 : UInt64) <<< 21)).toInt64
  let carry8 := s8 >>> 21
  let s9 := s9 + carry8
  let s8 := (s8.toUInt64 - carry8.toUInt64 * ((1 : UInt64) <<< 21)).toInt64
  let carry9 := s9 >>> 21
  let s10 := s10 + carry9
  let s9 := (s9.toUInt64 - carry9.toUInt64 * ((1 : UInt64) <<< 21)).toInt64
  let carry10 := s10 >>> 21
  let s11 := s11 + carry10
  let s10 := (s10.toUInt64 - carry10.toUInt64 * ((1 : UInt64) <<< 21)).toInt64
  let carry11 := s11 >>> 21
  let s12 := s12 + carry11
  let s11 := (s11.toUInt64 - carry11.toUInt64 * ((1 : UInt64) <<< 21)).toInt64
  { x with s0 := s0, s1 := s1, s2 := s2, s3 := s3, s4 := s4, s5 := s5, s6 := s6, s7 := s7, s8 := s8, s9 := s9, s10 := s10, s11 := s11, s12 := s12 }

/--
```c
    s0 += s12 * 666643;
    s1 += s12 * 470296;
    s2 += s12 * 654183;
    s3 -= s12 * 997805;
    s4 += s12 * 136657;
    s5 -= s12 * 683901;
```
-/
def fold_s12_c (x : Limbs) : Limbs :=
  let s0 := x.s0
  let s1 := x.s1
  let s2 := x.s2
  let s3 := x.s3
  let s4 := x.s4
  let s5 := x.s5
  let s12 := x.s12
  let s0 := s0 + s12 * 666643
  let s1 := s1 + s12 * 470296
  let s2 := s2 + s12 * 654183
  let s3 := s3 - s12 * 997805
  let s4 := s4 + s12 * 136657
  let s5 := s5 - s12 * 683901
  { x with s0 := s0, s1 := s1, s2 := s2, s3 := s3, s4 := s4, s5 := s5 }

/--
```c
    carry0 = s0 >> 21;
    s1 += carry0;
    s0 -= carry0 * ((uint64_t) 1L << 21);
    carry1 = s1 >> 21;
    s2 += carry1;
    s1 -= carry1 * ((uint64_t) 1L << 21);
    carry2 = s2 >> 21;
    s3 += carry2;
    s2 -= carry2 * ((uint64_t) 1L << 21);
    carry3 = s3 >> 21;
    s4 += carry3;
    s3 -= carry3 * ((uint64_t) 1L << 21);
    carry4 = s4 >> 21;
    s5 += carry4;
    s4 -= carry4 * ((uint64_t) 1L << 21);
    carry5 = s5 >> 21;
    s6 += carry5;
    s5 -= carry5 * ((uint64_t) 1L << 21);
    carry6 = s6 >> 21;
    s7 += carry6;
    s6 -= carry6 * ((uint64_t) 1L << 21);
    carry7 = s7 >> 21;
    s8 += carry7;
    s7 -= carry7 * ((uint64_t) 1L << 21);
    carry8 = s8 >> 21;
    s9 += carry8;
    s8 -= carry8 * ((uint64_t) 1L << 21);
    carry9 = s9 >> 21;
    s10 += carry9;
    s9 -= carry9 * ((uint64_t) 1L << 21);
    carry10 = s10 >> 21;
    s11 += carry10;
    s10 -= carry10 * ((uint64_t) 1L << 21);
```
-/
def carryF_0_10 (x : Limbs) : Limbs :=
  let s0 := x.s0
  let s1 := x.s1
  let s2 := x.s2
  let s3 := x.s3
  let s4 := x.s4
  let s5 := x.s5
  let s6 := x.s6
  let s7 := x.s7
  let s8 := x.s8
  let s9 := x.s9
  let s10 := x.s10
  let s11 := x.s11
  let carry0 := s0 >>> 21
  let s1 := s1 + carry0
  let s0 := (s0.toUInt64 - carry0.toUInt64 * ((1 : UInt64) <<< 21)).toInt64
  let carry1 := s1 >>> 21
  let s2 := s2 + carry1
  let s1 := (s1.toUInt64 - carry1.toUInt64 * ((1 : UInt64) <<< 21)).toInt64
  let carry2 := s2 >>> 21
  let s3 := s3 + carry2
  let s2 := (s2.toUInt64 - carry2.toUInt64 * ((1 : UInt64) <<< 21)).toInt64
  let carry3 := s3 >>> 21
  let s4 := s4 + carry3
  let s3 := (s3.toUInt64 - carry3.toUInt64 * ((1 : UInt64) <<< 21)).toInt64
  let carry4 := s4 >>> 21
  let s5 := s5 + carry4
  let s4 := (s4.toUInt64 - carry4.toUInt64 * ((1 : UInt64) <<< 21)).toInt64
  let carry5 := s5 >>> 21
  let s6 := s6 + carry5
  let s5 := (s5.toUInt64 - carry5.toUInt64 * ((1 : UInt64) <<< 21)).toInt64
  let carry6 := s6 >>> 21
  let s7 := s7 + carry6
  let s6 := (s6.toUInt64 - carry6.toUInt64 * ((1 : UInt64) <<< 21)).toInt64
  let carry7 := s7 >>> 21
  let s8 := s8 + carry7
  let s7 := (s7.toUInt64 - carry7.toUInt64 * ((1 : UInt64) <<< 21)).toInt64
  let carry8 := s8 >>> 21
  let s9 := s9 + carry8
  let s8 := (s8.toUInt64 - carry8.toUInt64 * ((1 : UInt64) <<< 21)).toInt64
  let carry9 := s9 >>> 21
  let s10 := s10 + carry9
  let s9 := (s9.toUInt64 - carry9.toUInt64 * ((1 : UInt64) <<< 21)).toInt64
  let carry10 := s10 >>> 21
  let s11 := s11 + carry10
  let s10 := (s10.toUInt64 - carry10.toUInt64 * ((1 : UInt64) <<< 21)).toInt64
  { x with s0 := s0, s1 := s1, s2 := s2, s3 := s3, s4 := s4, s5 := s5, s6 := s6, s7 := s7, s8 := s8, s9 := s9, s10 := s10, s11 := s11 }

/--
```c
    s[0]  = s0 >> 0;
    s[1]  = s0 >> 8;
    s[2]  = (s0 >> 16) | (s1 * ((uint64_t) 1 << 5));
    s[3]  = s1 >> 3;
    s[4]  = s1 >> 11;
    s[5]  = (s1 >> 19) | (s2 * ((uint64_t) 1 << 2));
    s[6]  = s2 >> 6;
    s[7]  = (s2 >> 14) | (s3 * ((uint64_t) 1 << 7));
    s[8]  = s3 >> 1;
    s[9]  = s3 >> 9;
    s[10] = (s3 >> 17) | (s4 * ((uint64_t) 1 << 4));
    s[11] = s4 >> 4;
    s[12] = s4 >> 12;
    s[13] = (s4 >> 20) | (s5 * ((uint64_t) 1 << 1));
    s[14] = s5 >> 7;
    s[15] = (s5 >> 15) | (s6 * ((uint64_t) 1 << 6));
    s[16] = s6 >> 2;
    s[17] = s6 >> 10;
    s[18] = (s6 >> 18) | (s7 * ((uint64_t) 1 << 3));
    s[19] = s7 >> 5;
    s[20] = s7 >> 13;
    s[21] = s8 >> 0;
    s[22] = s8 >> 8;
    s[23] = (s8 >> 16) | (s9 * ((uint64_t) 1 << 5));
    s[24] = s9 >> 3;
    s[25] = s9 >> 11;
    s[26] = (s9 >> 19) | (s10 * ((uint64_t) 1 << 2));
    s[27] = s10 >> 6;
    s[28] = (s10 >> 14) | (s11 * ((uint64_t) 1 << 7));
    s[29] = s11 >> 1;
    s[30] = s11 >> 9;
    s[31] = s11 >> 17;
```
the 32 bytes `s[0..32)`; `int64_t → unsigned char` is reduction modulo 256 -/
def pack (x : Limbs) : Bytes :=
  let s0 := x.s0
  let s1 := x.s1
  let s2 := x.s2
  let s3 := x.s3
  let s4 := x.s4
  let s5 := x.s5
  let s6 := x.s6
  let s7 := x.s7
  let s8 := x.s8
  let s9 := x.s9
  let s10 := x.s10
  let s11 := x.s11
  [ (s0 >>> 0).toUInt64.toUInt8,
    (s0 >>> 8).toUInt64.toUInt8,
    ((s0 >>> 16).toUInt64 ||| (s1.toUInt64 * ((1 : UInt64) <<< 5))).toUInt8,
    (s1 >>> 3).toUInt64.toUInt8,
    (s1 >>> 11).toUInt64.toUInt8,
    ((s1 >>> 19).toUInt64 ||| (s2.toUInt64 * ((1 : UInt64) <<< 2))).toUInt8,
    (s2 >>> 6).toUInt64.toUInt8,
    ((s2 >>> 14).toUInt64 ||| (s3.toUInt64 * ((1 : UInt64) <<< 7))).toUInt8,
    (s3 >>> 1).toUInt64.toUInt8,
    (s3 >>> 9).toUInt64.toUInt8,
    ((s3 >>> 17).toUInt64 ||| (s4.toUInt64 * ((1 : UInt64) <<< 4))).toUInt8,
    (s4 >>> 4).toUInt64.toUInt8,
    (s4 >>> 12).toUInt64.toUInt8,
    ((s4 >>> 20).toUInt64 ||| (s5.toUInt64 * ((1 : UInt64) <<< 1))).toUInt8,
    (s5 >>> 7).toUInt64.toUInt8,
    ((s5 >>> 15).toUInt64 ||| (s6.toUInt64 * ((1 : UInt64) <<< 6))).toUInt8,
    (s6 >>> 2).toUInt64.toUInt8,
    (s6 >>> 10).toUInt64.toUInt8,
    ((s6 >>> 18).toUInt64 ||| (s7.toUInt64 * ((1 : UInt64) <<< 3))).toUInt8,
    (s7 >>> 5).toUInt64.toUInt8,
    (s7 >>> 13).toUInt64.toUInt8,
    (s8 >>> 0).toUInt64.toUInt8,
    (s8 >>> 8).toUInt64.toUInt8,
    ((s8 >>> 16).toUInt64 ||| (s9.toUInt64 * ((1 : UInt64) <<< 5))).toUInt8,
    (s9 >>> 3).toUInt64.toUInt8,
    (s9 >>> 11).toUInt64.toUInt8,
    ((s9 >>> 19).toUInt64 ||| (s10.toUInt64 * ((1 : UInt64) <<< 2))).toUInt8,
    (s10 >>> 6).toUInt64.toUInt8,
    ((s10 >>> 14).toUInt64 ||| (s11.toUInt64 * ((1 : UInt64) <<< 7))).toUInt8,
    (s11 >>> 1).toUInt64.toUInt8,
    (s11 >>> 9).toUInt64.toUInt8,
    (s11 >>> 17).toUInt64.toUInt8 ]

/-- the common tail, in program order -/
def reduce_tail (x : Limbs) : Bytes :=
  let x := fold_s23 x
  let x := fold_s22 x
  let x := fold_s21 x
  let x := fold_s20 x
  let x := fold_s19 x
  let x := fold_s18 x
  let x := carry_6_16 x
  let x := carry_7_15 x
  let x := fold_s17 x
  let x := fold_s16 x
  let x := fold_s15 x
  let x := fold_s14 x
  let x := fold_s13 x
  let x := fold_s12_a x
  let x := carry_0_10 x
  let x := carry_1_11 x
  let x := fold_s12_b x
  let x := carryF_0_11 x
  let x := fold_s12_c x
  let x := carryF_0_10 x
  pack x

/-- `void sc25519_reduce(unsigned char s[64])` : the 32 bytes written to `s[0..32)` -/
def sc25519_reduce (s : Bytes) : Bytes :=
  reduce_tail (sc_load64 s)

/-! ### sc25519_mul / sc25519_muladd: loads, schoolbook products, first carries -/

/--
```c
/* and the same twelve statements for b (sc25519_mul) and for b, c (sc25519_muladd) */
    int64_t a0  = 2097151 & load_3(a);
    int64_t a1  = 2097151 & (load_4(a + 2) >> 5);
    int64_t a2  = 2097151 & (load_3(a + 5) >> 2);
    int64_t a3  = 2097151 & (load_4(a + 7) >> 7);
    int64_t a4  = 2097151 & (load_4(a + 10) >> 4);
    int64_t a5  = 2097151 & (load_3(a + 13) >> 1);
    int64_t a6  = 2097151 & (load_4(a + 15) >> 6);
    int64_t a7  = 2097151 & (load_3(a + 18) >> 3);
    int64_t a8  = 2097151 & load_3(a + 21);
    int64_t a9  = 2097151 & (load_4(a + 23) >> 5);
    int64_t a10 = 2097151 & (load_3(a + 26) >> 2);
    int64_t a11 = (load_4(a + 28) >> 7);
```
-/
def sc_load32 (s : Bytes) : Limbs12 :=
  {
    l0 := ((2097151 : UInt64) &&& load_3 s 0).toInt64,
    l1 := ((2097151 : UInt64) &&& (load_4 s 2 >>> 5)).toInt64,
    l2 := ((2097151 : UInt64) &&& (load_3 s 5 >>> 2)).toInt64,
    l3 := ((2097151 : UInt64) &&& (load_4 s 7 >>> 7)).toInt64,
    l4 := ((2097151 : UInt64) &&& (load_4 s 10 >>> 4)).toInt64,
    l5 := ((2097151 : UInt64) &&& (load_3 s 13 >>> 1)).toInt64,
    l6 := ((2097151 : UInt64) &&& (load_4 s 15 >>> 6)).toInt64,
    l7 := ((2097151 : UInt64) &&& (load_3 s 18 >>> 3)).toInt64,
    l8 := ((2097151 : UInt64) &&& load_3 s 21).toInt64,
    l9 := ((2097151 : UInt64) &&& (load_4 s 23 >>> 5)).toInt64,
    l10 := ((2097151 : UInt64) &&& (load_3 s 26 >>> 2)).toInt64,
    l11 := (load_4 s 28 >>> 7).toInt64 }

/--
```c
    s0 = a0 * b0;
    s1 = a0 * b1 + a1 * b0;
    s2 = a0 * b2 + a1 * b1 + a2 * b0;
    s3 = a0 * b3 + a1 * b2 + a2 * b1 + a3 * b0;
    s4 = a0 * b4 + a1 * b3 + a2 * b2 + a3 * b1 + a4 * b0;
    s5 = a0 * b5 + a1 * b4 + a2 * b3 + a3 * b2 + a4 * b1 + a5 * b0;
    s6 = a0 * b6 + a1 * b5 + a2 * b4 + a3 * b3 + a4 * b2 + a5 * b1 + a6 * b0;
    s7 = a0 * b7 + a1 * b6 + a2 * b5 + a3 * b4 + a4 * b3 + a5 * b2 +
         a6 * b1 + a7 * b0;
    s8 = a0 * b8 + a1 * b7 + a2 * b6 + a3 * b5 + a4 * b4 + a5 * b3 +
         a6 * b2 + a7 * b1 + a8 * b0;
    s9 = a0 * b9 + a1 * b8 + a2 * b7 + a3 * b6 + a4 * b5 + a5 * b4 +
         a6 * b3 + a7 * b2 + a8 * b1 + a9 * b0;
    s10 = a0 * b10 + a1 * b9 + a2 * b8 + a3 * b7 + a4 * b6 + a5 * b5 +
          a6 * b4 + a7 * b3 + a8 * b2 + a9 * b1 + a10 * b0;
    s11 = a0 * b11 + a1 * b10 + a2 * b9 + a3 * b8 + a4 * b7 + a5 * b6 +
          a6 * b5 + a7 * b4 + a8 * b3 + a9 * b2 + a10 * b1 + a11 * b0;
    s12 = a1 * b11 + a2 * b10 + a3 * b9 + a4 * b8 + a5 * b7 + a6 * b6 +
          a7 * b5 + a8 * b4 + a9 * b3 + a10 * b2 + a11 * b1;
    s13 = a2 * b11 + a3 * b10 + a4 * b9 + a5 * b8 + a6 * b7 + a7 * b6 +
          a8 * b5 + a9 * b4 + a10 * b3 + a11 * b2;
    s14 = a3 * b11 + a4 * b10 + a5 * b9 + a6 * b8 + a7 * b7 + a8 * b6 +
          a9 * b5 + a10 * b4 + a11 * b3;
    s15 = a4 * b11 + a5 * b10 + a6 * b9 + a7 * b8 + a8 * b7 + a9 * b6 +
          a10 * b5 + a11 * b4;
    s16 =
        a5 * b11 + a6 * b10 + a7 * b9 + a8 * b8 + a9 * b7 + a10 * b6 + a11 * b5;
    s17 = a6 * b11 + a7 * b10 + a8 * b9 + a9 * b8 + a10 * b7 + a11 * b6;
    s18 = a7 * b11 + a8 * b10 + a9 * b9 + a10 * b8 + a11 * b7;
    s19 = a8 * b11 + a9 * b10 + a10 * b9 + a11 * b8;
    s20 = a9 * b11 + a10 * b10 + a11 * b9;
    s21 = a10 * b11 + a11 * b10;
    s22 = a11 * b11;
    s23 = 0;
```
-/
def mul_products (a b : Limbs12) : Limbs :=
  let a0 := a.l0
  let a1 := a.l1
  let a2 := a.l2
  let a3 := a.l3
  let a4 := a.l4
  let a5 := a.l5
  let a6 := a.l6
  let a7 := a.l7
  let a8 := a.l8
  let a9 := a.l9
  let a10 := a.l10
  let a11 := a.l11
  let b0 := b.l0
  let b1 := b.l1
  let b2 := b.l2
  let b3 := b.l3
  let b4 := b.l4
  let b5 := b.l5
  let b6 := b.l6
  let b7 := b.l7
  let b8 := b.l8
  let b9 := b.l9
  let b10 := b.l10
  let b11 := b.l11
  let s0 := a0 * b0
  let s1 := a0 * b1 + a1 * b0
  let s2 := a0 * b2 + a1 * b1 + a2 * b0
  let s3 := a0 * b3 + a1 * b2 + a2 * b1 + a3 * b0
  let s4 := a0 * b4 + a1 * b3 + a2 * b2 + a3 * b1 + a4 * b0
  let s5 := a0 * b5 + a1 * b4 + a2 * b3 + a3 * b2 + a4 * b1 + a5 * b0
  let s6 := a0 * b6 + a1 * b5 + a2 * b4 + a3 * b3 + a4 * b2 + a5 * b1 + a6 * b0
  let s7 := a0 * b7 + a1 * b6 + a2 * b5 + a3 * b4 + a4 * b3 + a5 * b2 + a6 * b1 + a7 * b0
  let s8 := a0 * b8 + a1 * b7 + a2 * b6 + a3 * b5 + a4 * b4 + a5 * b3 + a6 * b2 + a7 * b1 + a8 * b0
  let s9 := a0 * b9 + a1 * b8 + a2 * b7 + a3 * b6 + a4 * b5 + a5 * b4 + a6 * b3 + a7 * b2 + a8 * b1 + a9 * b0
  let s10 := a0 * b10 + a1 * b9 + a2 * b8 + a3 * b7 + a4 * b6 + a5 * b5 + a6 * b4 + a7 * b3 + a8 * b2 + a9 * b1 + a10 * b0
  let s11 := a0 * b11 + a1 * b10 + a2 * b9 + a3 * b8 + a4 * b7 + a5 * b6 + a6 * b5 + a7 * b4 + a8 * b3 + a9 * b2 + a10 * b1 + a11 * b0
  let s12 := a1 * b11 + a2 * b10 + a3 * b9 + a4 * b8 + a5 * b7 + a6 * b6 + a7 * b5 + a8 * b4 + a9 * b3 + a10 * b2 + a11 * b1
  let s13 := a2 * b11 + a3 * b10 + a4 * b9 + a5 * b8 + a6 * b7 + a7 * b6 + a8 * b5 + a9 * b4 + a10 * b3 + a11 * b2
  let s14 := a3 * b11 + a4 * b10 + a5 * b9 + a6 * b8 + a7 * b7 + a8 * b6 + a9 * b5 + a10 * b4 + a11 * b3
  let s15 := a4 * b11 + a5 * b10 + a6 * b9 + a7 * b8 + a8 * b7 + a9 * b6 + a10 * b5 + a11 * b4
  let s16 := a5 * b11 + a6 * b10 + a7 * b9 + a8 * b8 + a9 * b7 + a10 * b6 + a11 * b5
  let s17 := a6 * b11 + a7 * b10 + a8 * b9 + a9 * b8 + a10 * b7 + a11 * b6
  let s18 := a7 * b11 + a8 * b10 + a9 * b9 + a10 * b8 + a11 * b7
  let s19 := a8 * b11 + a9 * b10 + a10 * b9 + a11 * b8
  let s20 := a9 * b11 + a10 * b10 + a11 * b9
  let s21 := a10 * b11 + a11 * b10
  let s22 := a11 * b11
  let s23 := 0
  ⟨s0, s1, s2, s3, s4, s5, s6, s7, s8, s9, s10, s11, s12, s13, s14, s15, s16, s17, s18, s19, s20, s21, s22, s23⟩

/--
```c
    s0 = c0 + a0 * b0;
    s1 = c1 + a0 * b1 + a1 * b0;
    s2 = c2 + a0 * b2 + a1 * b1 + a2 * b0;
    s3 = c3 + a0 * b3 + a1 * b2 + a2 * b1 + a3 * b0;
    s4 = c4 + a0 * b4 + a1 * b3 + a2 * b2 + a3 * b1 + a4 * b0;
    s5 = c5 + a0 * b5 + a1 * b4 + a2 * b3 + a3 * b2 + a4 * b1 + a5 * b0;
    s6 = c6 + a0 * b6 + a1 * b5 + a2 * b4 + a3 * b3 + a4 * b2 + a5 * b1 +
         a6 * b0;
    s7 = c7 + a0 * b7 + a1 * b6 + a2 * b5 + a3 * b4 + a4 * b3 + a5 * b2 +
         a6 * b1 + a7 * b0;
    s8 = c8 + a0 * b8 + a1 * b7 + a2 * b6 + a3 * b5 + a4 * b4 + a5 * b3 +
         a6 * b2 + a7 * b1 + a8 * b0;
    s9 = c9 + a0 * b9 + a1 * b8 + a2 * b7 + a3 * b6 + a4 * b5 + a5 * b4 +
         a6 * b3 + a7 * b2 + a8 * b1 + a9 * b0;
    s10 = c10 + a0 * b10 + a1 * b9 + a2 * b8 + a3 * b7 + a4 * b6 + a5 * b5 +
          a6 * b4 + a7 * b3 + a8 * b2 + a9 * b1 + a10 * b0;
    s11 = c11 + a0 * b11 + a1 * b10 + a2 * b9 + a3 * b8 + a4 * b7 + a5 * b6 +
          a6 * b5 + a7 * b4 + a8 * b3 + a9 * b2 + a10 * b1 + a11 * b0;
    s12 = a1 * b11 + a2 * b10 + a3 * b9 + a4 * b8 + a5 * b7 + a6 * b6 +
          a7 * b5 + a8 * b4 + a9 * b3 + a10 * b2 + a11 * b1;
    s13 = a2 * b11 + a3 * b10 + a4 * b9 + a5 * b8 + a6 * b7 + a7 * b6 +
          a8 * b5 + a9 * b4 + a10 * b3 + a11 * b2;
    s14 = a3 * b11 + a4 * b10 + a5 * b9 + a6 * b8 + a7 * b7 + a8 * b6 +
          a9 * b5 + a10 * b4 + a11 * b3;
    s15 = a4 * b11 + a5 * b10 + a6 * b9 + a7 * b8 + a8 * b7 + a9 * b6 +
          a10 * b5 + a11 * b4;
    s16 =
        a5 * b11 + a6 * b10 + a7 * b9 + a8 * b8 + a9 * b7 + a10 * b6 + a11 * b5;
    s17 = a6 * b11 + a7 * b10 + a8 * b9 + a9 * b8 + a10 * b7 + a11 * b6;
    s18 = a7 * b11 + a8 * b10 + a9 * b9 + a10 * b8 + a11 * b7;
    s19 = a8 * b11 + a9 * b10 + a10 * b9 + a11 * b8;
    s20 = a9 * b11 + a10 * b10 + a11 * b9;
    s21 = a10 * b11 + a11 * b10;
    s22 = a11 * b11;
    s23 = 0;
```
-/
def muladd_products (a b c : Limbs12) : Limbs :=
  let a0 := a.l0
  let a1 := a.l1
  let a2 := a.l2
  let a3 := a.l3
  let a4 := a.l4
  let a5 := a.l5
  let a6 := a.l6
  let a7 := a.l7
  let a8 := a.l8
  let a9 := a.l9
  let a10 := a.l10
  let a11 := a.l11
  let b0 := b.l0
  let b1 := b.l1
  let b2 := b.l2
  let b3 := b.l3
  let b4 := b.l4
  let b5 := b.l5
  let b6 := b.l6
  let b7 := b.l7
  let b8 := b.l8
  let b9 := b.l9
  let b10 := b.l10
  let b11 := b.l11
  let c0 := c.l0
  let c1 := c.l1
  let c2 := c.l2
  let c3 := c.l3
  let c4 := c.l4
  let c5 := c.l5
  let c6 := c.l6
  let c7 := c.l7
  let c8 := c.l8
  let c9 := c.l9
  let c10 := c.l10
  let c11 := c.l11
  let s0 := c0 + a0 * b0
  let s1 := c1 + a0 * b1 + a1 * b0
  let s2 := c2 + a0 * b2 + a1 * b1 + a2 * b0
  let s3 := c3 + a0 * b3 + a1 * b2 + a2 * b1 + a3 * b0
  let s4 := c4 + a0 * b4 + a1 * b3 + a2 * b2 + a3 * b1 + a4 * b0
  let s5 := c5 + a0 * b5 + a1 * b4 + a2 * b3 + a3 * b2 + a4 * b1 + a5 * b0
  let s6 := c6 + a0 * b6 + a1 * b5 + a2 * b4 + a3 * b3 + a4 * b2 + a5 * b1 + a6 * b0
  let s7 := c7 + a0 * b7 + a1 * b6 + a2 * b5 + a3 * b4 + a4 * b3 + a5 * b2 + a6 * b1 + a7 * b0
  let s8 := c8 + a0 * b8 + a1 * b7 + a2 * b6 + a3 * b5 + a4 * b4 + a5 * b3 + a6 * b2 + a7 * b1 + a8 * b0
  let s9 := c9 + a0 * b9 + a1 * b8 + a2 * b7 + a3 * b6 + a4 * b5 + a5 * b4 + a6 * b3 + a7 * b2 + a8 * b1 + a9 * b0
  let s10 := c10 + a0 * b10 + a1 * b9 + a2 * b8 + a3 * b7 + a4 * b6 + a5 * b5 + a6 * b4 + a7 * b3 + a8 * b2 + a9 * b1 + a10 * b0
  let s11 := c11 + a0 * b11 + a1 * b10 + a2 * b9 + a3 * b8 + a4 * b7 + a5 * b6 + a6 * b5 + a7 * b4 + a8 * b3 + a9 * b2 + a10 * b1 + a11 * b0
  let s12 := a1 * b11 + a2 * b10 + a3 * b9 + a4 * b8 + a5 * b7 + a6 * b6 + a7 * b5 + a8 * b4 + a9 * b3 + a10 * b2 + a11 * b1
  let s13 := a2 * b11 + a3 * b10 + a4 * b9 + a5 * b8 + a6 * b7 + a7 * b6 + a8 * b5 + a9 * b4 + a10 * b3 + a11 * b2
  let s14 := a3 * b11 + a4 * b10 + a5 * b9 + a6 * b8 + a7 * b7 + a8 * b6 + a9 * b5 + a10 * b4 + a11 * b3
  let s15 := a4 * b11 + a5 * b10 + a6 * b9 + a7 * b8 + a8 * b7 + a9 * b6 + a10 * b5 + a11 * b4
  let s16 := a5 * b11 + a6 * b10 + a7 * b9 + a8 * b8 + a9 * b7 + a10 * b6 + a11 * b5
  let s17 := a6 * b11 + a7 * b10 + a8 * b9 + a9 * b8 + a10 * b7 + a11 * b6
  let s18 := a7 * b11 + a8 * b10 + a9 * b9 + a10 * b8 + a11 * b7
  let s19 := a8 * b11 + a9 * b10 + a10 * b9 + a11 * b8
  let s20 := a9 * b11 + a10 * b10 + a11 * b9
  let s21 := a10 * b11 + a11 * b10
  let s22 := a11 * b11
  let s23 := 0
  ⟨s0, s1, s2, s3, s4, s5, s6, s7, s8, s9, s10, s11, s12, s13, s14, s15, s16, s17, s18, s19, s20, s21, s22, s23⟩

/--
```c
    carry0 = (s0 + (int64_t) (1L << 20)) >> 21;
    s1 += carry0;
    s0 -= carry0 * ((uint64_t) 1L << 21);
    carry2 = (s2 + (int64_t) (1L << 20)) >> 21;
    s3 += carry2;
    s2 -= carry2 * ((uint64_t) 1L << 21);
    carry4 = (s4 + (int64_t) (1L << 20)) >> 21;
    s5 += carry4;
    s4 -= carry4 * ((uint64_t) 1L << 21);
    carry6 = (s6 + (int64_t) (1L << 20)) >> 21;
    s7 += carry6;
    s6 -= carry6 * ((uint64_t) 1L << 21);
    carry8 = (s8 + (int64_t) (1L << 20)) >> 21;
    s9 += carry8;
    s8 -= carry8 * ((uint64_t) 1L << 21);
    carry10 = (s10 + (int64_t) (1L << 20)) >> 21;
    s11 += carry10;
    s10 -= carry10 * ((uint64_t) 1L << 21);
    carry12 = (s12 + (int64_t) (1L << 20)) >> 21;
    s13 += carry12;
    s12 -= carry12 * ((uint64_t) 1L << 21);
    carry14 = (s14 + (int64_t) (1L << 20)) >> 21;
    s15 += carry14;
    s14 -= carry14 * ((uint64_t) 1L << 21);
    carry16 = (s16 + (int64_t) (1L << 20)) >> 21;
    s17 += carry16;
    s16 -= carry16 * ((uint64_t) 1L << 21);
    carry18 = (s18 + (int64_t) (1L << 20)) >> 21;
    s19 += carry18;
    s18 -= carry18 * ((uint64_t) 1L << 21);
    carry20 = (s20 + (int64_t) (1L << 20)) >> 21;
    s21 += carry20;
    s20 -= carry20 * ((uint64_t) 1L << 21);
    carry22 = (s22 + (int64_t) (1L << 20)) >> 21;
    s23 += carry22;
    s22 -= carry22 * ((uint64_t) 1L << 21);
```
-/
def mul_carry_0_22 (x : Limbs) : Limbs :=
  let s0 := x.s0
  let s1 := x.s1
  let s2 := x.s2
  let s3 := x.s3
  let s4 := x.s4
  let s5 := x.s5
  let s6 := x.s6
  let s7 := x.s7
  let s8 := x.s8
  let s9 := x.s9
  let s10 := x.s10
  let s11 := x.s11
  let s12 := x.s12
  let s13 := x.s13
  let s14 := x.s14
  let s15 := x.s15
  let s16 := x.s16
  let s17 := x.s17
  let s18 := x.s18
  let s19 := x.s19
  let s20 := x.s20
  let s21 := x.s21
  let s22 := x.s22
  let s23 := x.s23
  let carry0 := (s0 + ((1 : Int64) <<< 20)) >>> 21
  let s1 := s1 + carry0
  let s0 := (s0.toUInt64 - carry0.toUInt64 * ((1 : UInt64) <<< 21)).toInt64
  let carry2 := (s2 + ((1 : Int64) <<< 20)) >>> 21
  let s3 := s3 + carry2
  let s2 := (s2.toUInt64 - carry2.toUInt64 * ((1 : UInt64) <<< 21)).toInt64
  let carry4 := (s4 + ((1 : Int64) <<< 20)) >>> 21
  let s5 := s5 + carry4
  let s4 := (s4.toUInt64 - carry4.toUInt64 * ((1 : UInt64) <<< 21)).toInt64
  let carry6 := (s6 + ((1 : Int64) <<< 20)) >>> 21
  let s7 := s7 + carry6
  let s6 := (s6.toUInt64 - carry6.toUInt64 * ((1 : UInt64) <<< 21)).toInt64
  let carry8 := (s8 + ((1 : Int64) <<< 20)) >>> 21
  let s9 := s9 + carry8
  let s8 := (s8.toUInt64 - carry8.toUInt64 * ((1 : UInt64) <<< 21)).toInt64
  let carry10 := (s10 + ((1 : Int64) <<< 20)) >>> 21
  let s11 := s11 + carry10
  let s10 := (s10.toUInt64 - carry10.toUInt64 * ((1 : UInt64) <<< 21)).toInt64
  let carry12 := (s12 + ((1 : Int64) <<< 20)) >>> 21
  let s13 := s13 + carry12
  let s12 := (s12.toUInt64 - carry12.toUInt64 * ((1 : UInt64) <<< 21)).toInt64
  let carry14 := (s14 + ((1 : Int64) <<< 20)) >>> 21
  let s15 := s15 + carry14
  let s14 := (s14.toUInt64 - carry14.toUInt64 * ((1 : UInt64) <<< 21)).toInt64
  let carry16 := (s16 + ((1 : Int64) <<< 20)) >>> 21
  let s17 := s17 + carry16
  let s16 := (s16.toUInt64 - carry16.toUInt64 * ((1 : UInt64) <<< 21)).toInt64
  let carry18 := (s18 + ((1 : Int64) <<< 20)) >>> 21
  let s19 := s19 + carry18
  let s18 := (s18.toUInt64 - carry18.toUInt64 * ((1 : UInt64) <<< 21)).toInt64
  let carry20 := (s20 + ((1 : Int64) <<< 20)) >>> 21
  let s21 := s21 + carry20
  let s20 := (s20.toUInt64 - carry20.toUInt64 * ((1 : UInt64) <<< 21)).toInt64
  let carry22 := (s22 + ((1 : Int64) <<< 20)) >>> 21
  let s23 := s23 + carry22
  let s22 := (s22.toUInt64 - carry22.toUInt64 * ((1 : UInt64) <<< 21)).toInt64
  { x with s0 := s0, s1 := s1, s2 := s2, s3 := s3, s4 := s4, s5 := s5, s6 := s6, s7 := s7, s8 := s8, s9 := s9, s10 := s10, s11 := s11, s12 := s12, s13 := s13, s14 := s14, s15 := s15, s16 := s16, s17 := s17, s18 := s18, s19 := s19, s20 := s20, s21 := s21, s22 := s22, s23 := s23 }

/--
```c
    carry1 = (s1 + (int64_t) (1L << 20)) >> 21;
    s2 += carry1;
    s1 -= carry1 * ((uint64_t) 1L << 21);
    carry3 = (s3 + (int64_t) (1L << 20)) >> 21;
    s4 += carry3;
    s3 -= carry3 * ((uint64_t) 1L << 21);
    carry5 = (s5 + (int64_t) (1L << 20)) >> 21;
    s6 += carry5;
    s5 -= carry5 * ((uint64_t) 1L << 21);
    carry7 = (s7 + (int64_t) (1L << 20)) >> 21;
    s8 += carry7;
    s7 -= carry7 * ((uint64_t) 1L << 21);
    carry9 = (s9 + (int64_t) (1L << 20)) >> 21;
    s10 += carry9;
    s9 -= carry9 * ((uint64_t) 1L << 21);
    carry11 = (s11 + (int64_t) (1L << 20)) >> 21;
    s12 += carry11;
    s11 -= carry11 * ((uint64_t) 1L << 21);
    carry13 = (s13 + (int64_t) (1L << 20)) >> 21;
    s14 += carry13;
    s13 -= carry13 * ((uint64_t) 1L << 21);
    carry15 = (s15 + (int64_t) (1L << 20)) >> 21;
    s16 += carry15;
    s15 -= carry15 * ((uint64_t) 1L << 21);
    carry17 = (s17 + (int64_t) (1L << 20)) >> 21;
    s18 += carry17;
    s17 -= carry17 * ((uint64_t) 1L << 21);
    carry19 = (s19 + (int64_t) (1L << 20)) >> 21;
    s20 += carry19;
    s19 -= carry19 * ((uint64_t) 1L << 21);
    carry21 = (s21 + (int64_t) (1L << 20)) >> 21;
    s22 += carry21;
    s21 -= carry21 * ((uint64_t) 1L << 21);
```
-/
def mul_carry_1_21 (x : Limbs) : Limbs :=
  let s1 := x.s1
  let s2 := x.s2
  let s3 := x.s3
  let s4 := x.s4
  let s5 := x.s5
  let s6 := x.s6
  let s7 := x.s7
  let s8 := x.s8
  let s9 := x.s9
  let s10 := x.s10
  let s11 := x.s11
  let s12 := x.s12
  let s13 := x.s13
  let s14 := x.s14
  let s15 := x.s15
  let s16 := x.s16
  let s17 := x.s17
  let s18 := x.s18
  let s19 := x.s19
  let s20 := x.s20
  let s21 := x.s21
  let s22 := x.s22
  let carry1 := (s1 + ((1 : Int64) <<< 20)) >>> 21
  let s2 := s2 + carry1
  let s1 := (s1.toUInt64 - carry1.toUInt64 * ((1 : UInt64) <<< 21)).toInt64
  let carry3 := (s3 + ((1 : Int64) <<< 20)) >>> 21
  let s4 := s4 + carry3
  let s3 := (s3.toUInt64 - carry3.toUInt64 * ((1 : UInt64) <<< 21)).toInt64
  let carry5 := (s5 + ((1 : Int64) <<< 20)) >>> 21
  let s6 := s6 + carry5
  let s5 := (s5.toUInt64 - carry5.toUInt64 * ((1 : UInt64) <<< 21)).toInt64
  let carry7 := (s7 + ((1 : Int64) <<< 20)) >>> 21
  let s8 := s8 + carry7
  let s7 := (s7.toUInt64 - carry7.toUInt64 * ((1 : UInt64) <<< 21)).toInt64
  let carry9 := (s9 + ((1 : Int64) <<< 20)) >>> 21
  let s10 := s10 + carry9
  let s9 := (s9.toUInt64 - carry9.toUInt64 * ((1 : UInt64) <<< 21)).toInt64
  let carry11 := (s11 + ((1 : Int64) <<< 20)) >>> 21
  let s12 := s12 + carry11
  let s11 := (s11.toUInt64 - carry11.toUInt64 * ((1 : UInt64) <<< 21)).toInt64
  let carry13 := (s13 + ((1 : Int64) <<< 20)) >>> 21
  let s14 := s14 + carry13
  let s13 := (s13.toUInt64 - carry13.toUInt64 * ((1 : UInt64) <<< 21)).toInt64
  let carry15 := (s15 + ((1 : Int64) <<< 20)) >>> 21
  let s16 := s16 + carry15
  let s15 := (s15.toUInt64 - carry15.toUInt64 * ((1 : UInt64) <<< 21)).toInt64
  let carry17 := (s17 + ((1 : Int64) <<< 20)) >>> 21
  let s18 := s18 + carry17
  let s17 := (s17.toUInt64 - carry17.toUInt64 * ((1 : UInt64) <<< 21)).toInt64
  let carry19 := (s19 + ((1 : Int64) <<< 20)) >>> 21
  let s20 := s20 + carry19
  let s19 := (s19.toUInt64 - carry19.toUInt64 * ((1 : UInt64) <<< 21)).toInt64
  let carry21 := (s21 + ((1 : Int64) <<< 20)) >>> 21
  let s22 := s22 + carry21
  let s21 := (s21.toUInt64 - carry21.toUInt64 * ((1 : UInt64) <<< 21)).toInt64
  { x with s1 := s1, s2 := s2, s3 := s3, s4 := s4, s5 := s5, s6 := s6, s7 := s7, s8 := s8, s9 := s9, s10 := s10, s11 := s11, s12 := s12, s13 := s13, s14 := s14, s15 := s15, s16 := s16, s17 := s17, s18 := s18, s19 := s19, s20 := s20, s21 := s21, s22 := s22 }

/-- `void sc25519_mul(unsigned char s[32], const unsigned char a[32], const unsigned char b[32])` -/
def sc25519_mul (a b : Bytes) : Bytes :=
  let x := mul_products (sc_load32 a) (sc_load32 b)
  let x := mul_carry_0_22 x
  let x := mul_carry_1_21 x
  reduce_tail x

/-- `void sc25519_muladd(unsigned char s[32], a, b, c)` : (ab + c) mod l -/
def sc25519_muladd (a b c : Bytes) : Bytes :=
  let x := muladd_products (sc_load32 a) (sc_load32 b) (sc_load32 c)
  let x := mul_carry_0_22 x
  let x := mul_carry_1_21 x
  reduce_tail x

/-- `static inline void sc25519_sq(unsigned char *s, const unsigned char *a)` : `sc25519_mul(s, a, a)` -/
def sc25519_sq (a : Bytes) : Bytes := sc25519_mul a a

/-- `sc25519_sqmul(s, n, a)` : `for (i = 0; i < n; i++) sc25519_sq(s, s); sc25519_mul(s, s, a);` -/
def sc25519_sqmul (s : Bytes) (n : Nat) (a : Bytes) : Bytes :=
  sc25519_mul (Nat.repeat sc25519_sq n s) a

/--
```c
    sc25519_sq(_10, s);
    sc25519_mul(_11, s, _10);
    sc25519_mul(_100, s, _11);
    sc25519_sq(_1000, _100);
    sc25519_mul(_1010, _10, _1000);
    sc25519_mul(_1011, s, _1010);
    sc25519_sq(_10000, _1000);
    sc25519_sq(_10110, _1011);
    sc25519_mul(_100000, _1010, _10110);
    sc25519_mul(_100110, _10000, _10110);
    sc25519_sq(_1000000, _100000);
    sc25519_mul(_1010000, _10000, _1000000);
    sc25519_mul(_1010011, _11, _1010000);
    sc25519_mul(_1100011, _10000, _1010011);
    sc25519_mul(_1100111, _100, _1100011);
    sc25519_mul(_1101011, _100, _1100111);
    sc25519_mul(_10010011, _1000000, _1010011);
    sc25519_mul(_10010111, _100, _10010011);
    sc25519_mul(_10111101, _100110, _10010111);
    sc25519_mul(_11010011, _10110, _10111101);
    sc25519_mul(_11100111, _1010000, _10010111);
    sc25519_mul(_11101011, _100, _11100111);
    sc25519_mul(_11110101, _1010, _11101011);

    sc25519_mul(recip, _1011, _11110101);
    sc25519_sqmul(recip, 126, _1010011);
    sc25519_sqmul(recip, 9, _10);
    sc25519_mul(recip, recip, _11110101);
    sc25519_sqmul(recip, 7, _1100111);
    sc25519_sqmul(recip, 9, _11110101);
    sc25519_sqmul(recip, 11, _10111101);
    sc25519_sqmul(recip, 8, _11100111);
    sc25519_sqmul(recip, 9, _1101011);
    sc25519_sqmul(recip, 6, _1011);
    sc25519_sqmul(recip, 14, _10010011);
    sc25519_sqmul(recip, 10, _1100011);
    sc25519_sqmul(recip, 9, _10010111);
    sc25519_sqmul(recip, 10, _11110101);
    sc25519_sqmul(recip, 8, _11010011);
    sc25519_sqmul(recip, 8, _11101011);
```
-/
def sc25519_invert (s : Bytes) : Bytes :=
  let x_10 := sc25519_sq s
  let x_11 := sc25519_mul s x_10
  let x_100 := sc25519_mul s x_11
  let x_1000 := sc25519_sq x_100
  let x_1010 := sc25519_mul x_10 x_1000
  let x_1011 := sc25519_mul s x_1010
  let x_10000 := sc25519_sq x_1000
  let x_10110 := sc25519_sq x_1011
  let x_100000 := sc25519_mul x_1010 x_10110
  let x_100110 := sc25519_mul x_10000 x_10110
  let x_1000000 := sc25519_sq x_100000
  let x_1010000 := sc25519_mul x_10000 x_1000000
  let x_1010011 := sc25519_mul x_11 x_1010000
  let x_1100011 := sc25519_mul x_10000 x_1010011
  let x_1100111 := sc25519_mul x_100 x_1100011
  let x_1101011 := sc25519_mul x_100 x_1100111
  let x_10010011 := sc25519_mul x_1000000 x_1010011
  let x_10010111 := sc25519_mul x_100 x_10010011
  let x_10111101 := sc25519_mul x_100110 x_10010111
  let x_11010011 := sc25519_mul x_10110 x_10111101
  let x_11100111 := sc25519_mul x_1010000 x_10010111
  let x_11101011 := sc25519_mul x_100 x_11100111
  let x_11110101 := sc25519_mul x_1010 x_11101011
  let recip := sc25519_mul x_1011 x_11110101
  let recip := sc25519_sqmul recip 126 x_1010011
  let recip := sc25519_sqmul recip 9 x_10
  let recip := sc25519_mul recip x_11110101
  let recip := sc25519_sqmul recip 7 x_1100111
  let recip := sc25519_sqmul recip 9 x_11110101
  let recip := sc25519_sqmul recip 11 x_10111101
  let recip := sc25519_sqmul recip 8 x_11100111
  let recip := sc25519_sqmul recip 9 x_1101011
  let recip := sc25519_sqmul recip 6 x_1011
  let recip := sc25519_sqmul recip 14 x_10010011
  let recip := sc25519_sqmul recip 10 x_1100011
  let recip := sc25519_sqmul recip 9 x_10010111
  let recip := sc25519_sqmul recip 10 x_11110101
  let recip := sc25519_sqmul recip 8 x_11010011
  let recip := sc25519_sqmul recip 8 x_11101011
  recip

end Sodium.Model.ScReduce
