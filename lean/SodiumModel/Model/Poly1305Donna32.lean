import SodiumModel.Basic
import SodiumModel.Model.Utils
import SodiumModel.Model.Hash
/-
  crypto_onetimeauth/poly1305/donna/poly1305_donna32.h, statement by statement
  (the implementation selected when the compiler has no 128-bit integer: `HAVE_TI_MODE` undefined,
  harness variants `noti` / `portable`).

  C types.  The header declares the limbs r[5], h[5], pad[4] and all temporaries except
  d0..d4 and f as `unsigned long`, the products d0..d4 and f as `unsigned long long`, and the
  values returned by `LOAD32_LE` are `uint32_t`.
    * `uint32_t`            = `UInt32`  (wrapping)
    * `unsigned long long`  = `UInt64`  (wrapping)
    * `unsigned long`       = `BitVec w` (wrapping), the width `w` a parameter of the model:
        - `w = 64` is what the compiler uses on this LP64 host (x86-64 Linux,
          `sizeof(unsigned long) = 8`): THE model of the compiled code, the one the driver runs;
        - `w = 32` is the code's design assumption (ILP32 / LLP64: "32 bit * 32 bit = 64 bit
          multiplication and 64 bit addition").
      Every place where the width is visible in the C is kept: the wrap of every `unsigned long`
      operation, the conversions `(unsigned long) d0`, `(unsigned long) f` (truncation to w bits),
      `(unsigned long long) h0` (zero-extension), the shift count
      `sizeof(unsigned long) * 8 - 1 = w - 1` of the mask and `g4 = h4 + c - (1UL << 26)`.
  Integer promotions are transcribed as the C standard prescribes: `LOAD32_LE(..) >> k & mask`
  is computed in 32 bits (`uint32_t` = `unsigned int`) and only then converted to `unsigned long`;
  `(LOAD32_LE(m + 12) >> 8) | hibit` converts the 32-bit shift result to `unsigned long` first.
  Nothing is assumed about the absence of overflow: that is a theorem
  (Properties/C10Donna32.lean, `blocks_no_overflow32`).

  As in Model/Poly1305Donna.lean the streaming part of the C (`leftover`, `buffer`, `final`, the
  `while (bytes >= 16)` loop, which is shared source text: poly1305_donna.c) is the generic
  front-end `polyUpdate` / `polyFinish` of Model/Hash.lean; this file provides the state,
  `poly1305_init`, the body of the `poly1305_blocks` loop for one 16-byte block and the
  arithmetic part of `poly1305_finish`.  (In the C, r0..r4 s1..s4 are loaded once before the
  loop and h0..h4 are written back after it; doing that per block is the same function.)
-/
namespace Sodium.Model.Poly1305Donna32
open Sodium Sodium.Model

/-- `unsigned long`, `w` bits wide -/
abbrev ULong (w : Nat) := BitVec w

abbrev Limbs5 (w : Nat) := ULong w × ULong w × ULong w × ULong w × ULong w
abbrev Limbs4 (w : Nat) := ULong w × ULong w × ULong w × ULong w

/-- the arithmetic fields of `poly1305_state_internal_t` -/
structure State (w : Nat) where
  r : Limbs5 w
  h : Limbs5 w
  pad : Limbs4 w
deriving DecidableEq, Repr

/-! ### integer conversions -/

/-- `uint32_t` → `unsigned long` (value preserving when w ≥ 32) -/
def ulOf32 (w : Nat) (x : UInt32) : ULong w := BitVec.ofNat w x.toNat
/-- `(unsigned long long) x` for `x : unsigned long` (value preserving when w ≤ 64) -/
def ull {w : Nat} (x : ULong w) : UInt64 := UInt64.ofNat x.toNat
/-- `(unsigned long) d` for `d : unsigned long long` (truncation to w bits) -/
def ulOf64 (w : Nat) (d : UInt64) : ULong w := BitVec.ofNat w d.toNat
/-- `(uint32_t) x` for `x : unsigned long` -/
def u32Of {w : Nat} (x : ULong w) : UInt32 := UInt32.ofNat x.toNat

/-- `LOAD32_LE(&b[off])` -/
def LOAD32_LE (b : Bytes) (off : Nat) : UInt32 := load32 (b.drop off)

/-! ### poly1305_init -/

def poly1305_init (w : Nat) (key : Bytes) : State w :=
  /- r &= 0xffffffc0ffffffc0ffffffc0fffffff -/
  let r0 := ulOf32 w ((LOAD32_LE key 0) &&& 0x3ffffff)
  let r1 := ulOf32 w ((LOAD32_LE key 3 >>> 2) &&& 0x3ffff03)
  let r2 := ulOf32 w ((LOAD32_LE key 6 >>> 4) &&& 0x3ffc0ff)
  let r3 := ulOf32 w ((LOAD32_LE key 9 >>> 6) &&& 0x3f03fff)
  let r4 := ulOf32 w ((LOAD32_LE key 12 >>> 8) &&& 0x00fffff)
  /- h = 0; save pad for later -/
  { r := (r0, r1, r2, r3, r4), h := (0, 0, 0, 0, 0),
    pad := (ulOf32 w (LOAD32_LE key 16), ulOf32 w (LOAD32_LE key 20),
            ulOf32 w (LOAD32_LE key 24), ulOf32 w (LOAD32_LE key 28)) }

/-! ### poly1305_blocks, one iteration of the `while (bytes >= 16)` loop.
  `hib = true` is `st->final == 0` (hibit = 1UL << 24), `hib = false` is the padded last block. -/

def poly1305_blocks {w : Nat} (st : State w) (m : Bytes) (hib : Bool) : State w :=
  let hibit : ULong w := if hib then (1 : ULong w) <<< 24 else 0   /- 1 << 128 -/
  let r0 := st.r.1
  let r1 := st.r.2.1
  let r2 := st.r.2.2.1
  let r3 := st.r.2.2.2.1
  let r4 := st.r.2.2.2.2
  let s1 := r1 * 5
  let s2 := r2 * 5
  let s3 := r3 * 5
  let s4 := r4 * 5
  let h0 := st.h.1
  let h1 := st.h.2.1
  let h2 := st.h.2.2.1
  let h3 := st.h.2.2.2.1
  let h4 := st.h.2.2.2.2
  /- h += m[i] -/
  let h0 := h0 + ulOf32 w ((LOAD32_LE m 0) &&& 0x3ffffff)
  let h1 := h1 + ulOf32 w ((LOAD32_LE m 3 >>> 2) &&& 0x3ffffff)
  let h2 := h2 + ulOf32 w ((LOAD32_LE m 6 >>> 4) &&& 0x3ffffff)
  let h3 := h3 + ulOf32 w ((LOAD32_LE m 9 >>> 6) &&& 0x3ffffff)
  let h4 := h4 + (ulOf32 w (LOAD32_LE m 12 >>> 8) ||| hibit)
  /- h *= r -/
  let d0 := (ull h0 * ull r0) + (ull h1 * ull s4) + (ull h2 * ull s3) + (ull h3 * ull s2) + (ull h4 * ull s1)
  let d1 := (ull h0 * ull r1) + (ull h1 * ull r0) + (ull h2 * ull s4) + (ull h3 * ull s3) + (ull h4 * ull s2)
  let d2 := (ull h0 * ull r2) + (ull h1 * ull r1) + (ull h2 * ull r0) + (ull h3 * ull s4) + (ull h4 * ull s3)
  let d3 := (ull h0 * ull r3) + (ull h1 * ull r2) + (ull h2 * ull r1) + (ull h3 * ull r0) + (ull h4 * ull s4)
  let d4 := (ull h0 * ull r4) + (ull h1 * ull r3) + (ull h2 * ull r2) + (ull h3 * ull r1) + (ull h4 * ull r0)
  /- (partial) h %= p -/
  let c := ulOf64 w (d0 >>> 26)
  let h0 := ulOf64 w d0 &&& 0x3ffffff
  let d1 := d1 + ull c
  let c := ulOf64 w (d1 >>> 26)
  let h1 := ulOf64 w d1 &&& 0x3ffffff
  let d2 := d2 + ull c
  let c := ulOf64 w (d2 >>> 26)
  let h2 := ulOf64 w d2 &&& 0x3ffffff
  let d3 := d3 + ull c
  let c := ulOf64 w (d3 >>> 26)
  let h3 := ulOf64 w d3 &&& 0x3ffffff
  let d4 := d4 + ull c
  let c := ulOf64 w (d4 >>> 26)
  let h4 := ulOf64 w d4 &&& 0x3ffffff
  let h0 := h0 + c * 5
  let c := h0 >>> 26
  let h0 := h0 &&& 0x3ffffff
  let h1 := h1 + c
  { st with h := (h0, h1, h2, h3, h4) }

/-! ### poly1305_finish after the remaining block has been processed: the full carry, the
  conditional subtraction of p, the repacking into four 32-bit words, the addition of pad through
  the 64-bit `f` carry chain and the four 32-bit stores. -/

def poly1305_finish {w : Nat} (st : State w) : Bytes :=
  /- fully carry h -/
  let h0 := st.h.1
  let h1 := st.h.2.1
  let h2 := st.h.2.2.1
  let h3 := st.h.2.2.2.1
  let h4 := st.h.2.2.2.2
  let c := h1 >>> 26
  let h1 := h1 &&& 0x3ffffff
  let h2 := h2 + c
  let c := h2 >>> 26
  let h2 := h2 &&& 0x3ffffff
  let h3 := h3 + c
  let c := h3 >>> 26
  let h3 := h3 &&& 0x3ffffff
  let h4 := h4 + c
  let c := h4 >>> 26
  let h4 := h4 &&& 0x3ffffff
  let h0 := h0 + c * 5
  let c := h0 >>> 26
  let h0 := h0 &&& 0x3ffffff
  let h1 := h1 + c
  /- compute h + -p -/
  let g0 := h0 + 5
  let c := g0 >>> 26
  let g0 := g0 &&& 0x3ffffff
  let g1 := h1 + c
  let c := g1 >>> 26
  let g1 := g1 &&& 0x3ffffff
  let g2 := h2 + c
  let c := g2 >>> 26
  let g2 := g2 &&& 0x3ffffff
  let g3 := h3 + c
  let c := g3 >>> 26
  let g3 := g3 &&& 0x3ffffff
  let g4 := h4 + c - ((1 : ULong w) <<< 26)
  /- select h if h < p, or h + -p if h >= p -/
  let mask := (g4 >>> (w - 1)) - 1        /- (sizeof(unsigned long) * 8) - 1 = w - 1 -/
  let g0 := g0 &&& mask
  let g1 := g1 &&& mask
  let g2 := g2 &&& mask
  let g3 := g3 &&& mask
  let g4 := g4 &&& mask
  let mask := ~~~mask
  let h0 := (h0 &&& mask) ||| g0
  let h1 := (h1 &&& mask) ||| g1
  let h2 := (h2 &&& mask) ||| g2
  let h3 := (h3 &&& mask) ||| g3
  let h4 := (h4 &&& mask) ||| g4
  /- h = h % (2^128) -/
  let h0 := (h0 ||| (h1 <<< 26)) &&& 0xffffffff
  let h1 := ((h1 >>> 6) ||| (h2 <<< 20)) &&& 0xffffffff
  let h2 := ((h2 >>> 12) ||| (h3 <<< 14)) &&& 0xffffffff
  let h3 := ((h3 >>> 18) ||| (h4 <<< 8)) &&& 0xffffffff
  /- mac = (h + pad) % (2^128) -/
  let f := ull h0 + ull st.pad.1
  let h0 := ulOf64 w f
  let f := ull h1 + ull st.pad.2.1 + (f >>> 32)
  let h1 := ulOf64 w f
  let f := ull h2 + ull st.pad.2.2.1 + (f >>> 32)
  let h2 := ulOf64 w f
  let f := ull h3 + ull st.pad.2.2.2 + (f >>> 32)
  let h3 := ulOf64 w f
  store32 (u32Of h0) ++ store32 (u32Of h1) ++ store32 (u32Of h2) ++ store32 (u32Of h3)

/-! ### the streaming API: the donna front-end of Model/Hash.lean over this block function -/

def init (w : Nat) (key : Bytes) : PolyState (State w) := ⟨poly1305_init w key, []⟩
def update {w : Nat} (s : PolyState (State w)) (m : Bytes) : PolyState (State w) :=
  polyUpdate poly1305_blocks s m
def final {w : Nat} (s : PolyState (State w)) : Bytes := polyFinish poly1305_blocks poly1305_finish s

/-- crypto_onetimeauth_poly1305 with the message supplied in chunks, `unsigned long` w bits wide -/
def macChunksW (w : Nat) (key : Bytes) (cs : List Bytes) : Bytes := final (cs.foldl update (init w key))

/-- crypto_onetimeauth_poly1305 (one-shot), `unsigned long` w bits wide -/
def macW (w : Nat) (key msg : Bytes) : Bytes := macChunksW w key [msg]

/-- the code as compiled on this host (LP64: `unsigned long` = 64 bits) -/
def macChunks (key : Bytes) (cs : List Bytes) : Bytes := macChunksW 64 key cs
def mac (key msg : Bytes) : Bytes := macW 64 key msg

/-- the code as compiled where `unsigned long` = 32 bits (ILP32, LLP64) -/
def macChunksILP32 (key : Bytes) (cs : List Bytes) : Bytes := macChunksW 32 key cs

end Sodium.Model.Poly1305Donna32
