import SodiumModel.Basic
import SodiumModel.Spec.Field25519
import SodiumModel.Spec.Sha512
import SodiumModel.Spec.Scalar25519
import SodiumModel.Model.Sign
import SodiumModel.Model.Ge25519Tables
/-
  Model of the edwards25519 GROUP-OPERATION code of
      crypto_core/ed25519/ref10/ed25519_ref10.c           (fe_51 build: HAVE_TI_MODE)
  written in the statement order of the C code over an ABSTRACT field (`GeFieldOps F`):

    fe25519_invert, fe25519_pow22523                          (the two addition chains)
    ge25519_p2 / p3 / p1p1 / precomp / cached                 (the five representations)
    ge25519_p1p1_to_p2, p1p1_to_p3, p2_to_p3, p3_to_p2, p3_to_cached, p3_to_precomp
    ge25519_p2_0, p3_0, precomp_0, cached_0
    ge25519_p2_dbl, p3_dbl, add_cached, sub_cached, add_precomp (madd), sub_precomp (msub)
    ge25519_p3_add, p3_sub, p3_neg, p3p3_dbl, p3_dbladd
    equal, negative, ge25519_cmov, cmov_cached, cmov8, cmov8_base, cmov8_cached
    ge25519_scalarmult, ge25519_scalarmult_base               (signed radix-16 recoding `e[64]`)
    slide_vartime, ge25519_double_scalarmult_vartime          (sliding window, digits odd, |digit| <= 15)
    ge25519_mul_l, ge25519_is_on_main_subgroup, ge25519_has_small_order, ge25519_is_on_curve
    ge25519_tobytes, ge25519_p3_tobytes, ge25519_frombytes, ge25519_frombytes_negate_vartime

  Conventions.  Every C temporary is a `let`; an output-first C call `fe25519_op(h, f, g)` is
  `let h := ops.op f g`; `fe25519_copy(h, f)` is `let h := f`.  `signed char` = `Int8`, `int` = `Int32`,
  `unsigned char` = `UInt8`, `unsigned int` / `uint32_t` = `UInt32`; the integer promotions and the
  conversions on assignment are written out (`.toInt32`, `.toInt8`, …; conversion to a narrower signed type
  wraps, as gcc/clang implement it; `>>` on a negative `int` is the arithmetic shift).
  `optblocker_u8` (a `volatile unsigned char` that is 0 and never written) is the constant 0.
  `equal` / `negative` are the portable `#else` branches (the x86-64 / aarch64 inline-asm branches compute
  the same 0/1 value).  Arrays are lists; an index the C code never uses out of range is read with `getD`.

  The precomputed tables (`fe_51/base.h`, `base2.h`) and the constants (`fe_51/constants.h`) are the
  GENERATED file `Model/Ge25519Tables.lean` (natural-number values of the limbs), turned into field
  elements with `ops.ofNat`.

  `specGe` instantiates the field with the specification field `Spec.F25519` (naturals, every operation
  returns the canonical representative); `refOps` are the primitives of `Model.Sign.Ops` built from the
  functions of this file over `specGe` – what the driver runs against the compiled library.
  Mathlib-free.
-/
namespace Sodium.Model.Ge25519
open Sodium
open Sodium.Model.Sign (u8i i2u8)

/-- the `fe25519_*` operations used by the group code of ed25519_ref10.c -/
structure GeFieldOps (F : Type) where
  /-- `fe25519_0(h)` -/
  zero : F
  /-- `fe25519_1(h)` -/
  one : F
  /-- `fe25519_add(h, f, g)` -/
  add : F → F → F
  /-- `fe25519_sub(h, f, g)` -/
  sub : F → F → F
  /-- `fe25519_neg(h, f)` -/
  neg : F → F
  /-- `fe25519_mul(h, f, g)` -/
  mul : F → F → F
  /-- `fe25519_sq(h, f)` -/
  sq : F → F
  /-- `fe25519_sq2(h, f)`: 2·f² -/
  sq2 : F → F
  /-- `fe25519_cmov(f, g, b)`: the new `f` (replace `f` by `g` if `b == 1`; the C code requires `b ∈ {0, 1}`) -/
  cmov : F → F → UInt32 → F
  /-- `fe25519_frombytes(h, s)` -/
  frombytes : Bytes → F
  /-- `fe25519_tobytes(s, h)` -/
  tobytes : F → Bytes
  /-- `fe25519_isnegative(f)` -/
  isnegative : F → Int32
  /-- `fe25519_iszero(f)` -/
  iszero : F → Int32
  /-- a `static const fe25519` initialiser with the given value (tables and constants) -/
  ofNat : Nat → F

section
variable {F : Type} (ops : GeFieldOps F)

/-! ### constants (fe_51/constants.h) -/

/-- `ed25519_d` -/
def ed25519_d : F := ops.ofNat Ge25519Tables.ed25519_d
/-- `ed25519_d2` -/
def ed25519_d2 : F := ops.ofNat Ge25519Tables.ed25519_d2
/-- `fe25519_sqrtm1` -/
def fe25519_sqrtm1 : F := ops.ofNat Ge25519Tables.fe25519_sqrtm1

/-! ### the two addition chains -/

/-- `for (i = 0; i < n; ++i) fe25519_sq(t, t);` -/
def sqN : Nat → F → F
  | 0, t => t
  | n + 1, t => sqN n (ops.sq t)

/-- `fe25519_invert(out, z)` (ed25519_ref10.c:67): z^(p-2) = z^(2^255-21).
    A loop `fe25519_sq(t, s); for (i = 1; i < n; ++i) fe25519_sq(t, t);` is `sqN n s`. -/
def fe25519_invert (z : F) : F :=
  let t0 := ops.sq z                       -- fe25519_sq(t0, z);
  let t1 := ops.sq t0                      -- fe25519_sq(t1, t0);
  let t1 := ops.sq t1                      -- fe25519_sq(t1, t1);
  let t1 := ops.mul z t1                   -- fe25519_mul(t1, z, t1);
  let t0 := ops.mul t0 t1                  -- fe25519_mul(t0, t0, t1);
  let t2 := ops.sq t0                      -- fe25519_sq(t2, t0);
  let t1 := ops.mul t1 t2                  -- fe25519_mul(t1, t1, t2);
  let t2 := sqN ops 5 t1                   -- fe25519_sq(t2, t1); for (i = 1; i < 5; ++i) fe25519_sq(t2, t2);
  let t1 := ops.mul t2 t1                  -- fe25519_mul(t1, t2, t1);
  let t2 := sqN ops 10 t1                  -- fe25519_sq(t2, t1); for (i = 1; i < 10; ++i) …
  let t2 := ops.mul t2 t1                  -- fe25519_mul(t2, t2, t1);
  let t3 := sqN ops 20 t2                  -- fe25519_sq(t3, t2); for (i = 1; i < 20; ++i) …
  let t2 := ops.mul t3 t2                  -- fe25519_mul(t2, t3, t2);
  let t2 := sqN ops 10 t2                  -- for (i = 1; i < 11; ++i) fe25519_sq(t2, t2);
  let t1 := ops.mul t2 t1                  -- fe25519_mul(t1, t2, t1);
  let t2 := sqN ops 50 t1                  -- fe25519_sq(t2, t1); for (i = 1; i < 50; ++i) …
  let t2 := ops.mul t2 t1                  -- fe25519_mul(t2, t2, t1);
  let t3 := sqN ops 100 t2                 -- fe25519_sq(t3, t2); for (i = 1; i < 100; ++i) …
  let t2 := ops.mul t3 t2                  -- fe25519_mul(t2, t3, t2);
  let t2 := sqN ops 50 t2                  -- for (i = 1; i < 51; ++i) fe25519_sq(t2, t2);
  let t1 := ops.mul t2 t1                  -- fe25519_mul(t1, t2, t1);
  let t1 := sqN ops 5 t1                   -- for (i = 1; i < 6; ++i) fe25519_sq(t1, t1);
  ops.mul t1 t0                            -- fe25519_mul(out, t1, t0);

/-- `fe25519_pow22523(out, z)` (ed25519_ref10.c:123): z^((p-5)/8) = z^(2^252-3) -/
def fe25519_pow22523 (z : F) : F :=
  let t0 := ops.sq z                       -- fe25519_sq(t0, z);
  let t1 := ops.sq t0                      -- fe25519_sq(t1, t0);
  let t1 := ops.sq t1                      -- fe25519_sq(t1, t1);
  let t1 := ops.mul z t1                   -- fe25519_mul(t1, z, t1);
  let t0 := ops.mul t0 t1                  -- fe25519_mul(t0, t0, t1);
  let t0 := ops.sq t0                      -- fe25519_sq(t0, t0);
  let t0 := ops.mul t1 t0                  -- fe25519_mul(t0, t1, t0);
  let t1 := sqN ops 5 t0                   -- fe25519_sq(t1, t0); for (i = 1; i < 5; ++i) fe25519_sq(t1, t1);
  let t0 := ops.mul t1 t0                  -- fe25519_mul(t0, t1, t0);
  let t1 := sqN ops 10 t0                  -- fe25519_sq(t1, t0); for (i = 1; i < 10; ++i) …
  let t1 := ops.mul t1 t0                  -- fe25519_mul(t1, t1, t0);
  let t2 := sqN ops 20 t1                  -- fe25519_sq(t2, t1); for (i = 1; i < 20; ++i) …
  let t1 := ops.mul t2 t1                  -- fe25519_mul(t1, t2, t1);
  let t1 := sqN ops 10 t1                  -- for (i = 1; i < 11; ++i) fe25519_sq(t1, t1);
  let t0 := ops.mul t1 t0                  -- fe25519_mul(t0, t1, t0);
  let t1 := sqN ops 50 t0                  -- fe25519_sq(t1, t0); for (i = 1; i < 50; ++i) …
  let t1 := ops.mul t1 t0                  -- fe25519_mul(t1, t1, t0);
  let t2 := sqN ops 100 t1                 -- fe25519_sq(t2, t1); for (i = 1; i < 100; ++i) …
  let t1 := ops.mul t2 t1                  -- fe25519_mul(t1, t2, t1);
  let t1 := sqN ops 50 t1                  -- for (i = 1; i < 51; ++i) fe25519_sq(t1, t1);
  let t0 := ops.mul t1 t0                  -- fe25519_mul(t0, t1, t0);
  let t0 := ops.sq t0                      -- fe25519_sq(t0, t0);
  let t0 := ops.sq t0                      -- fe25519_sq(t0, t0);
  ops.mul t0 z                             -- fe25519_mul(out, t0, z);

end

/-! ### the representations (private/ed25519_ref10.h) -/

/-- `ge25519_p2`: projective (X : Y : Z), x = X/Z, y = Y/Z -/
structure P2 (F : Type) where
  X : F
  Y : F
  Z : F

/-- `ge25519_p3`: extended (X : Y : Z : T), XY = ZT -/
structure P3 (F : Type) where
  X : F
  Y : F
  Z : F
  T : F

/-- `ge25519_p1p1`: completed ((X : Z), (Y : T)), x = X/Z, y = Y/T -/
structure P1p1 (F : Type) where
  X : F
  Y : F
  Z : F
  T : F

/-- `ge25519_precomp`: (y+x, y-x, 2dxy) of an affine point -/
structure Precomp (F : Type) where
  yplusx : F
  yminusx : F
  xy2d : F

/-- `ge25519_cached`: (Y+X, Y-X, Z, 2dT) -/
structure Cached (F : Type) where
  YplusX : F
  YminusX : F
  Z : F
  T2d : F

section
variable {F : Type} (ops : GeFieldOps F)

/-! ### conversions and neutral elements -/

/-- `ge25519_p1p1_to_p2(r, p)` -/
def ge25519_p1p1_to_p2 (p : P1p1 F) : P2 F :=
  let rX := ops.mul p.X p.T                -- fe25519_mul(r->X, p->X, p->T);
  let rY := ops.mul p.Y p.Z                -- fe25519_mul(r->Y, p->Y, p->Z);
  let rZ := ops.mul p.Z p.T                -- fe25519_mul(r->Z, p->Z, p->T);
  ⟨rX, rY, rZ⟩

/-- `ge25519_p1p1_to_p3(r, p)` -/
def ge25519_p1p1_to_p3 (p : P1p1 F) : P3 F :=
  let rX := ops.mul p.X p.T                -- fe25519_mul(r->X, p->X, p->T);
  let rY := ops.mul p.Y p.Z                -- fe25519_mul(r->Y, p->Y, p->Z);
  let rZ := ops.mul p.Z p.T                -- fe25519_mul(r->Z, p->Z, p->T);
  let rT := ops.mul p.X p.Y                -- fe25519_mul(r->T, p->X, p->Y);
  ⟨rX, rY, rZ, rT⟩

/-- `ge25519_p2_to_p3(r, p)`: T := X·Y with Z kept (a valid p3 only if Z = 1) -/
def ge25519_p2_to_p3 (p : P2 F) : P3 F :=
  let rX := p.X                            -- fe25519_copy(r->X, p->X);
  let rY := p.Y                            -- fe25519_copy(r->Y, p->Y);
  let rZ := p.Z                            -- fe25519_copy(r->Z, p->Z);
  let rT := ops.mul p.X p.Y                -- fe25519_mul(r->T, p->X, p->Y);
  ⟨rX, rY, rZ, rT⟩

/-- `ge25519_p2_0(h)` -/
def ge25519_p2_0 : P2 F :=
  ⟨ops.zero, ops.one, ops.one⟩             -- fe25519_0(h->X); fe25519_1(h->Y); fe25519_1(h->Z);

/-- `ge25519_p3_0(h)` -/
def ge25519_p3_0 : P3 F :=
  ⟨ops.zero, ops.one, ops.one, ops.zero⟩   -- fe25519_0(h->X); fe25519_1(h->Y); fe25519_1(h->Z); fe25519_0(h->T);

/-- `ge25519_cached_0(h)` -/
def ge25519_cached_0 : Cached F :=
  ⟨ops.one, ops.one, ops.one, ops.zero⟩    -- fe25519_1(h->YplusX); fe25519_1(h->YminusX); fe25519_1(h->Z); fe25519_0(h->T2d);

/-- `ge25519_precomp_0(h)` -/
def ge25519_precomp_0 : Precomp F :=
  ⟨ops.one, ops.one, ops.zero⟩             -- fe25519_1(h->yplusx); fe25519_1(h->yminusx); fe25519_0(h->xy2d);

/-- `ge25519_p3_to_cached(r, p)` -/
def ge25519_p3_to_cached (p : P3 F) : Cached F :=
  let rYplusX := ops.add p.Y p.X           -- fe25519_add(r->YplusX, p->Y, p->X);
  let rYminusX := ops.sub p.Y p.X          -- fe25519_sub(r->YminusX, p->Y, p->X);
  let rZ := p.Z                            -- fe25519_copy(r->Z, p->Z);
  let rT2d := ops.mul p.T (ed25519_d2 ops) -- fe25519_mul(r->T2d, p->T, ed25519_d2);
  ⟨rYplusX, rYminusX, rZ, rT2d⟩

/-- `ge25519_p3_to_precomp(pi, p)` -/
def ge25519_p3_to_precomp (p : P3 F) : Precomp F :=
  let recip := fe25519_invert ops p.Z      -- fe25519_invert(recip, p->Z);
  let x := ops.mul p.X recip               -- fe25519_mul(x, p->X, recip);
  let y := ops.mul p.Y recip               -- fe25519_mul(y, p->Y, recip);
  let yplusx := ops.add y x                -- fe25519_add(pi->yplusx, y, x);
  let yminusx := ops.sub y x               -- fe25519_sub(pi->yminusx, y, x);
  let xy := ops.mul x y                    -- fe25519_mul(xy, x, y);
  let xy2d := ops.mul xy (ed25519_d2 ops)  -- fe25519_mul(pi->xy2d, xy, ed25519_d2);
  ⟨yplusx, yminusx, xy2d⟩

/-- `ge25519_p3_to_p2(r, p)` -/
def ge25519_p3_to_p2 (p : P3 F) : P2 F :=
  ⟨p.X, p.Y, p.Z⟩                          -- fe25519_copy(r->X, p->X); … (r->Y, p->Y); … (r->Z, p->Z);

/-! ### the point formulas -/

/-- `ge25519_add_cached(r, p, q)`: r = p + q -/
def ge25519_add_cached (p : P3 F) (q : Cached F) : P1p1 F :=
  let rX := ops.add p.Y p.X                -- fe25519_add(r->X, p->Y, p->X);
  let rY := ops.sub p.Y p.X                -- fe25519_sub(r->Y, p->Y, p->X);
  let rZ := ops.mul rX q.YplusX            -- fe25519_mul(r->Z, r->X, q->YplusX);
  let rY := ops.mul rY q.YminusX           -- fe25519_mul(r->Y, r->Y, q->YminusX);
  let rT := ops.mul q.T2d p.T              -- fe25519_mul(r->T, q->T2d, p->T);
  let rX := ops.mul p.Z q.Z                -- fe25519_mul(r->X, p->Z, q->Z);
  let t0 := ops.add rX rX                  -- fe25519_add(t0, r->X, r->X);
  let rX := ops.sub rZ rY                  -- fe25519_sub(r->X, r->Z, r->Y);
  let rY := ops.add rZ rY                  -- fe25519_add(r->Y, r->Z, r->Y);
  let rZ := ops.add t0 rT                  -- fe25519_add(r->Z, t0, r->T);
  let rT := ops.sub t0 rT                  -- fe25519_sub(r->T, t0, r->T);
  ⟨rX, rY, rZ, rT⟩

/-- `ge25519_sub_cached(r, p, q)`: r = p - q -/
def ge25519_sub_cached (p : P3 F) (q : Cached F) : P1p1 F :=
  let rX := ops.add p.Y p.X                -- fe25519_add(r->X, p->Y, p->X);
  let rY := ops.sub p.Y p.X                -- fe25519_sub(r->Y, p->Y, p->X);
  let rZ := ops.mul rX q.YminusX           -- fe25519_mul(r->Z, r->X, q->YminusX);
  let rY := ops.mul rY q.YplusX            -- fe25519_mul(r->Y, r->Y, q->YplusX);
  let rT := ops.mul q.T2d p.T              -- fe25519_mul(r->T, q->T2d, p->T);
  let rX := ops.mul p.Z q.Z                -- fe25519_mul(r->X, p->Z, q->Z);
  let t0 := ops.add rX rX                  -- fe25519_add(t0, r->X, r->X);
  let rX := ops.sub rZ rY                  -- fe25519_sub(r->X, r->Z, r->Y);
  let rY := ops.add rZ rY                  -- fe25519_add(r->Y, r->Z, r->Y);
  let rZ := ops.sub t0 rT                  -- fe25519_sub(r->Z, t0, r->T);
  let rT := ops.add t0 rT                  -- fe25519_add(r->T, t0, r->T);
  ⟨rX, rY, rZ, rT⟩

/-- `ge25519_add_precomp(r, p, q)` ("madd"): r = p + q, q affine precomputed -/
def ge25519_add_precomp (p : P3 F) (q : Precomp F) : P1p1 F :=
  let rX := ops.add p.Y p.X                -- fe25519_add(r->X, p->Y, p->X);
  let rY := ops.sub p.Y p.X                -- fe25519_sub(r->Y, p->Y, p->X);
  let rZ := ops.mul rX q.yplusx            -- fe25519_mul(r->Z, r->X, q->yplusx);
  let rY := ops.mul rY q.yminusx           -- fe25519_mul(r->Y, r->Y, q->yminusx);
  let rT := ops.mul q.xy2d p.T             -- fe25519_mul(r->T, q->xy2d, p->T);
  let t0 := ops.add p.Z p.Z                -- fe25519_add(t0, p->Z, p->Z);
  let rX := ops.sub rZ rY                  -- fe25519_sub(r->X, r->Z, r->Y);
  let rY := ops.add rZ rY                  -- fe25519_add(r->Y, r->Z, r->Y);
  let rZ := ops.add t0 rT                  -- fe25519_add(r->Z, t0, r->T);
  let rT := ops.sub t0 rT                  -- fe25519_sub(r->T, t0, r->T);
  ⟨rX, rY, rZ, rT⟩

/-- `ge25519_sub_precomp(r, p, q)` ("msub"): r = p - q -/
def ge25519_sub_precomp (p : P3 F) (q : Precomp F) : P1p1 F :=
  let rX := ops.add p.Y p.X                -- fe25519_add(r->X, p->Y, p->X);
  let rY := ops.sub p.Y p.X                -- fe25519_sub(r->Y, p->Y, p->X);
  let rZ := ops.mul rX q.yminusx           -- fe25519_mul(r->Z, r->X, q->yminusx);
  let rY := ops.mul rY q.yplusx            -- fe25519_mul(r->Y, r->Y, q->yplusx);
  let rT := ops.mul q.xy2d p.T             -- fe25519_mul(r->T, q->xy2d, p->T);
  let t0 := ops.add p.Z p.Z                -- fe25519_add(t0, p->Z, p->Z);
  let rX := ops.sub rZ rY                  -- fe25519_sub(r->X, r->Z, r->Y);
  let rY := ops.add rZ rY                  -- fe25519_add(r->Y, r->Z, r->Y);
  let rZ := ops.sub t0 rT                  -- fe25519_sub(r->Z, t0, r->T);
  let rT := ops.add t0 rT                  -- fe25519_add(r->T, t0, r->T);
  ⟨rX, rY, rZ, rT⟩

/-- `ge25519_p2_dbl(r, p)`: r = 2p -/
def ge25519_p2_dbl (p : P2 F) : P1p1 F :=
  let rX := ops.sq p.X                     -- fe25519_sq(r->X, p->X);
  let rZ := ops.sq p.Y                     -- fe25519_sq(r->Z, p->Y);
  let rT := ops.sq2 p.Z                    -- fe25519_sq2(r->T, p->Z);
  let rY := ops.add p.X p.Y                -- fe25519_add(r->Y, p->X, p->Y);
  let t0 := ops.sq rY                      -- fe25519_sq(t0, r->Y);
  let rY := ops.add rZ rX                  -- fe25519_add(r->Y, r->Z, r->X);
  let rZ := ops.sub rZ rX                  -- fe25519_sub(r->Z, r->Z, r->X);
  let rX := ops.sub t0 rY                  -- fe25519_sub(r->X, t0, r->Y);
  let rT := ops.sub rT rZ                  -- fe25519_sub(r->T, r->T, r->Z);
  ⟨rX, rY, rZ, rT⟩

/-- `ge25519_p3_dbl(r, p)` -/
def ge25519_p3_dbl (p : P3 F) : P1p1 F :=
  let q := ge25519_p3_to_p2 p              -- ge25519_p3_to_p2(&q, p);
  ge25519_p2_dbl ops q                     -- ge25519_p2_dbl(r, &q);

/-- `ge25519_p3p3_dbl(r, p)` -/
def ge25519_p3p3_dbl (p : P3 F) : P3 F :=
  let p1p1 := ge25519_p3_dbl ops p         -- ge25519_p3_dbl(&p1p1, p);
  ge25519_p1p1_to_p3 ops p1p1              -- ge25519_p1p1_to_p3(r, &p1p1);

/-- `ge25519_p3_neg(r, p)` -/
def ge25519_p3_neg (p : P3 F) : P3 F :=
  let rX := ops.neg p.X                    -- fe25519_neg(r->X, p->X);
  let rY := p.Y                            -- fe25519_copy(r->Y, p->Y);
  let rZ := p.Z                            -- fe25519_copy(r->Z, p->Z);
  let rT := ops.neg p.T                    -- fe25519_neg(r->T, p->T);
  ⟨rX, rY, rZ, rT⟩

/-- `ge25519_p3_add(r, p, q)` -/
def ge25519_p3_add (p q : P3 F) : P3 F :=
  let q_cached := ge25519_p3_to_cached ops q       -- ge25519_p3_to_cached(&q_cached, q);
  let p1p1 := ge25519_add_cached ops p q_cached    -- ge25519_add_cached(&p1p1, p, &q_cached);
  ge25519_p1p1_to_p3 ops p1p1                      -- ge25519_p1p1_to_p3(r, &p1p1);

/-- `ge25519_p3_sub(r, p, q)` -/
def ge25519_p3_sub (p q : P3 F) : P3 F :=
  let q_neg := ge25519_p3_neg ops q                -- ge25519_p3_neg(&q_neg, q);
  ge25519_p3_add ops p q_neg                       -- ge25519_p3_add(r, p, &q_neg);

/-! ### constant-time table lookups -/

/-- `optblocker_u8`: `static volatile unsigned char`, zero-initialised and never written -/
def optblocker_u8 : UInt8 := 0

/-- `equal(b, c)` (portable branch):
      const unsigned char x = (unsigned char) b ^ (unsigned char) c;
      uint32_t y = (uint32_t) x;  y--;
      return ((y >> 29) ^ optblocker_u8) >> 2; -/
def equal (b c : Int8) : UInt8 :=
  let x : UInt8 := i2u8 (u8i b.toUInt8 ^^^ u8i c.toUInt8)
  let y : UInt32 := x.toUInt32
  let y := y - 1
  (((y >>> 29) ^^^ optblocker_u8.toUInt32) >>> 2).toUInt8

/-- `negative(b)` (portable branch):
      const uint8_t x = (uint8_t) b;
      return ((x >> 5) ^ optblocker_u8) >> 2; -/
def negative (b : Int8) : UInt8 :=
  let x : UInt8 := b.toUInt8
  i2u8 (((u8i x >>> 5) ^^^ u8i optblocker_u8) >>> 2)

/-- `babs = b - (((-bnegative) & b) * ((signed char) 1 << 1));` (all operands promoted to `int`,
    the result converted to `unsigned char`) -/
def babs (b : Int8) (bnegative : UInt8) : UInt8 :=
  i2u8 (b.toInt32 - (((-(u8i bnegative)) &&& b.toInt32) * ((1 : Int8).toInt32 <<< 1)))

/-- `ge25519_cmov(t, u, b)` -/
def ge25519_cmov (t u : Precomp F) (b : UInt8) : Precomp F :=
  let yplusx := ops.cmov t.yplusx u.yplusx b.toUInt32      -- fe25519_cmov(t->yplusx, u->yplusx, b);
  let yminusx := ops.cmov t.yminusx u.yminusx b.toUInt32   -- fe25519_cmov(t->yminusx, u->yminusx, b);
  let xy2d := ops.cmov t.xy2d u.xy2d b.toUInt32            -- fe25519_cmov(t->xy2d, u->xy2d, b);
  ⟨yplusx, yminusx, xy2d⟩

/-- `ge25519_cmov_cached(t, u, b)` -/
def ge25519_cmov_cached (t u : Cached F) (b : UInt8) : Cached F :=
  let YplusX := ops.cmov t.YplusX u.YplusX b.toUInt32      -- fe25519_cmov(t->YplusX, u->YplusX, b);
  let YminusX := ops.cmov t.YminusX u.YminusX b.toUInt32   -- fe25519_cmov(t->YminusX, u->YminusX, b);
  let Z := ops.cmov t.Z u.Z b.toUInt32                     -- fe25519_cmov(t->Z, u->Z, b);
  let T2d := ops.cmov t.T2d u.T2d b.toUInt32               -- fe25519_cmov(t->T2d, u->T2d, b);
  ⟨YplusX, YminusX, Z, T2d⟩

/-- `ge25519_cmov8(t, precomp, b)`; `precomp` has 8 entries -/
def ge25519_cmov8 (precomp : List (Precomp F)) (b : Int8) : Precomp F :=
  let z := ge25519_precomp_0 ops
  let bnegative := negative b                                        -- const unsigned char bnegative = negative(b);
  let babs := babs b bnegative                                       -- const unsigned char babs = b - (((-bnegative) & b) * …);
  let t := ge25519_precomp_0 ops                                     -- ge25519_precomp_0(t);
  let t := ge25519_cmov ops t (precomp.getD 0 z) (equal babs.toInt8 1)   -- ge25519_cmov(t, &precomp[0], equal(babs, 1));
  let t := ge25519_cmov ops t (precomp.getD 1 z) (equal babs.toInt8 2)
  let t := ge25519_cmov ops t (precomp.getD 2 z) (equal babs.toInt8 3)
  let t := ge25519_cmov ops t (precomp.getD 3 z) (equal babs.toInt8 4)
  let t := ge25519_cmov ops t (precomp.getD 4 z) (equal babs.toInt8 5)
  let t := ge25519_cmov ops t (precomp.getD 5 z) (equal babs.toInt8 6)
  let t := ge25519_cmov ops t (precomp.getD 6 z) (equal babs.toInt8 7)
  let t := ge25519_cmov ops t (precomp.getD 7 z) (equal babs.toInt8 8)   -- ge25519_cmov(t, &precomp[7], equal(babs, 8));
  let minust : Precomp F :=
    ⟨t.yminusx,                                                      -- fe25519_copy(minust.yplusx, t->yminusx);
     t.yplusx,                                                       -- fe25519_copy(minust.yminusx, t->yplusx);
     ops.neg t.xy2d⟩                                                 -- fe25519_neg(minust.xy2d, t->xy2d);
  ge25519_cmov ops t minust bnegative                                -- ge25519_cmov(t, &minust, bnegative);

/-- `static const ge25519_precomp base[32][8]` (fe_51/base.h), row `pos`: `base[pos][j] = (j+1)·256^pos·B` -/
def baseRow (pos : Nat) : List (Precomp F) :=
  ((Ge25519Tables.base.drop (8 * pos)).take 8).map fun e => ⟨ops.ofNat e.1, ops.ofNat e.2.1, ops.ofNat e.2.2⟩

/-- `ge25519_cmov8_base(t, pos, b)` -/
def ge25519_cmov8_base (pos : Nat) (b : Int8) : Precomp F :=
  ge25519_cmov8 ops (baseRow ops pos) b                              -- ge25519_cmov8(t, base[pos], b);

/-- `ge25519_cmov8_cached(t, cached, b)`; `cached` has 8 entries -/
def ge25519_cmov8_cached (cached : List (Cached F)) (b : Int8) : Cached F :=
  let z := ge25519_cached_0 ops
  let bnegative := negative b                                        -- const unsigned char bnegative = negative(b);
  let babs := babs b bnegative                                       -- const unsigned char babs = b - (((-bnegative) & b) * …);
  let t := ge25519_cached_0 ops                                      -- ge25519_cached_0(t);
  let t := ge25519_cmov_cached ops t (cached.getD 0 z) (equal babs.toInt8 1)   -- ge25519_cmov_cached(t, &cached[0], equal(babs, 1));
  let t := ge25519_cmov_cached ops t (cached.getD 1 z) (equal babs.toInt8 2)
  let t := ge25519_cmov_cached ops t (cached.getD 2 z) (equal babs.toInt8 3)
  let t := ge25519_cmov_cached ops t (cached.getD 3 z) (equal babs.toInt8 4)
  let t := ge25519_cmov_cached ops t (cached.getD 4 z) (equal babs.toInt8 5)
  let t := ge25519_cmov_cached ops t (cached.getD 5 z) (equal babs.toInt8 6)
  let t := ge25519_cmov_cached ops t (cached.getD 6 z) (equal babs.toInt8 7)
  let t := ge25519_cmov_cached ops t (cached.getD 7 z) (equal babs.toInt8 8)   -- ge25519_cmov_cached(t, &cached[7], equal(babs, 8));
  let minust : Cached F :=
    ⟨t.YminusX,                                                      -- fe25519_copy(minust.YplusX, t->YminusX);
     t.YplusX,                                                       -- fe25519_copy(minust.YminusX, t->YplusX);
     t.Z,                                                            -- fe25519_copy(minust.Z, t->Z);
     ops.neg t.T2d⟩                                                  -- fe25519_neg(minust.T2d, t->T2d);
  ge25519_cmov_cached ops t minust bnegative                         -- ge25519_cmov_cached(t, &minust, bnegative);

end

/-! ### signed radix-16 recoding (shared by ge25519_scalarmult and ge25519_scalarmult_base) -/

/-- `for (i = 0; i < 32; ++i) { e[2 * i + 0] = (a[i] >> 0) & 15; e[2 * i + 1] = (a[i] >> 4) & 15; }`
    over the byte list `a` (the C code reads exactly 32 bytes) -/
def nibbles : Bytes → List Int8
  | [] => []
  | x :: xs => ((u8i x >>> 0) &&& 15).toInt8 :: ((u8i x >>> 4) &&& 15).toInt8 :: nibbles xs

/-- one iteration of the carry loop on `e[i]` and `carry`; returns the new `(e[i], carry)`:
      e[i] += carry;  carry = e[i] + 8;  carry >>= 4;  e[i] -= carry * ((signed char) 1 << 4); -/
def carryStep (ei carry : Int8) : Int8 × Int8 :=
  let ei : Int8 := (ei.toInt32 + carry.toInt32).toInt8
  let carry : Int8 := (ei.toInt32 + 8).toInt8
  let carry : Int8 := (carry.toInt32 >>> 4).toInt8
  let ei : Int8 := (ei.toInt32 - carry.toInt32 * ((1 : Int8).toInt32 <<< 4)).toInt8
  (ei, carry)

/-- `for (i = 0; i < 63; ++i) { … }  e[63] += carry;` — every entry but the last goes through
    `carryStep`, the last one only receives the carry -/
def carryLoop : List Int8 → Int8 → List Int8
  | [], _ => []
  | [last], carry => [(last.toInt32 + carry.toInt32).toInt8]
  | ei :: rest, carry =>
    let s := carryStep ei carry
    s.1 :: carryLoop rest s.2

/-- the digits `e[0..63]` computed by both scalar multiplications from `a[0..31]` (`carry = 0;` first) -/
def recode (a : Bytes) : List Int8 := carryLoop (nibbles (a.take 32)) 0

section
variable {F : Type} (ops : GeFieldOps F)

/-! ### ge25519_scalarmult -/

/-- the table `pi[8]` of `ge25519_scalarmult`: pi[i-1] = i·p -/
def scalarmultTable (p : P3 F) : List (Cached F) :=
  let pi0 := ge25519_p3_to_cached ops p            -- ge25519_p3_to_cached(&pi[1 - 1], p);   /* p */
  let t2 := ge25519_p3_dbl ops p                   -- ge25519_p3_dbl(&t2, p);
  let p2 := ge25519_p1p1_to_p3 ops t2              -- ge25519_p1p1_to_p3(&p2, &t2);
  let pi1 := ge25519_p3_to_cached ops p2           -- ge25519_p3_to_cached(&pi[2 - 1], &p2); /* 2p = 2*p */
  let t3 := ge25519_add_cached ops p pi1           -- ge25519_add_cached(&t3, p, &pi[2 - 1]);
  let p3 := ge25519_p1p1_to_p3 ops t3              -- ge25519_p1p1_to_p3(&p3, &t3);
  let pi2 := ge25519_p3_to_cached ops p3           -- ge25519_p3_to_cached(&pi[3 - 1], &p3); /* 3p = 2p+p */
  let t4 := ge25519_p3_dbl ops p2                  -- ge25519_p3_dbl(&t4, &p2);
  let p4 := ge25519_p1p1_to_p3 ops t4              -- ge25519_p1p1_to_p3(&p4, &t4);
  let pi3 := ge25519_p3_to_cached ops p4           -- ge25519_p3_to_cached(&pi[4 - 1], &p4); /* 4p = 2*2p */
  let t5 := ge25519_add_cached ops p pi3           -- ge25519_add_cached(&t5, p, &pi[4 - 1]);
  let p5 := ge25519_p1p1_to_p3 ops t5              -- ge25519_p1p1_to_p3(&p5, &t5);
  let pi4 := ge25519_p3_to_cached ops p5           -- ge25519_p3_to_cached(&pi[5 - 1], &p5); /* 5p = 4p+p */
  let t6 := ge25519_p3_dbl ops p3                  -- ge25519_p3_dbl(&t6, &p3);
  let p6 := ge25519_p1p1_to_p3 ops t6              -- ge25519_p1p1_to_p3(&p6, &t6);
  let pi5 := ge25519_p3_to_cached ops p6           -- ge25519_p3_to_cached(&pi[6 - 1], &p6); /* 6p = 2*3p */
  let t7 := ge25519_add_cached ops p pi5           -- ge25519_add_cached(&t7, p, &pi[6 - 1]);
  let p7 := ge25519_p1p1_to_p3 ops t7              -- ge25519_p1p1_to_p3(&p7, &t7);
  let pi6 := ge25519_p3_to_cached ops p7           -- ge25519_p3_to_cached(&pi[7 - 1], &p7); /* 7p = 6p+p */
  let t8 := ge25519_p3_dbl ops p4                  -- ge25519_p3_dbl(&t8, &p4);
  let p8 := ge25519_p1p1_to_p3 ops t8              -- ge25519_p1p1_to_p3(&p8, &t8);
  let pi7 := ge25519_p3_to_cached ops p8           -- ge25519_p3_to_cached(&pi[8 - 1], &p8); /* 8p = 2*4p */
  [pi0, pi1, pi2, pi3, pi4, pi5, pi6, pi7]

/-- one iteration of `for (i = 63; i != 0; i--)` for the digit `ei = e[i]`: h ← 16·(h + e[i]·p) -/
def scalarmultStep (pi : List (Cached F)) (ei : Int8) (h : P3 F) : P3 F :=
  let t := ge25519_cmov8_cached ops pi ei          -- ge25519_cmov8_cached(&t, pi, e[i]);
  let r := ge25519_add_cached ops h t              -- ge25519_add_cached(&r, h, &t);
  let s := ge25519_p1p1_to_p2 ops r                -- ge25519_p1p1_to_p2(&s, &r);
  let r := ge25519_p2_dbl ops s                    -- ge25519_p2_dbl(&r, &s);
  let s := ge25519_p1p1_to_p2 ops r                -- ge25519_p1p1_to_p2(&s, &r);
  let r := ge25519_p2_dbl ops s                    -- ge25519_p2_dbl(&r, &s);
  let s := ge25519_p1p1_to_p2 ops r                -- ge25519_p1p1_to_p2(&s, &r);
  let r := ge25519_p2_dbl ops s                    -- ge25519_p2_dbl(&r, &s);
  let s := ge25519_p1p1_to_p2 ops r                -- ge25519_p1p1_to_p2(&s, &r);
  let r := ge25519_p2_dbl ops s                    -- ge25519_p2_dbl(&r, &s);
  ge25519_p1p1_to_p3 ops r                         -- ge25519_p1p1_to_p3(h, &r);  /* *16 */

/-- `for (i = 63; i != 0; i--) { … }` with `i` iterations left (i = 63, 62, …, 1) -/
def scalarmultLoop (pi : List (Cached F)) (e : List Int8) : Nat → P3 F → P3 F
  | 0, h => h
  | i + 1, h => scalarmultLoop pi e i (scalarmultStep ops pi (e.getD (i + 1) 0) h)

/-- `ge25519_scalarmult(h, a, p)` -/
def ge25519_scalarmult (a : Bytes) (p : P3 F) : P3 F :=
  let pi := scalarmultTable ops p
  let e := recode a
  let h := ge25519_p3_0 ops                        -- ge25519_p3_0(h);
  let h := scalarmultLoop ops pi e 63 h            -- for (i = 63; i != 0; i--) { … }
  let t := ge25519_cmov8_cached ops pi (e.getD 0 0)    -- ge25519_cmov8_cached(&t, pi, e[i]);   (i = 0)
  let r := ge25519_add_cached ops h t              -- ge25519_add_cached(&r, h, &t);
  ge25519_p1p1_to_p3 ops r                         -- ge25519_p1p1_to_p3(h, &r);

/-! ### ge25519_scalarmult_base -/

/-- the body of both `for (i = …; i < 64; i += 2)` loops -/
def baseStep (e : List Int8) (i : Nat) (h : P3 F) : P3 F :=
  let t := ge25519_cmov8_base ops (i / 2) (e.getD i 0)     -- ge25519_cmov8_base(&t, i / 2, e[i]);
  let r := ge25519_add_precomp ops h t                     -- ge25519_add_precomp(&r, h, &t);
  ge25519_p1p1_to_p3 ops r                                 -- ge25519_p1p1_to_p3(h, &r);

/-- `for (i = start; i < 64; i += 2) { … }`: `n` iterations left, the next one at index `i` -/
def baseLoop (e : List Int8) : Nat → Nat → P3 F → P3 F
  | 0, _, h => h
  | n + 1, i, h => baseLoop e n (i + 2) (baseStep ops e i h)

/-- `ge25519_scalarmult_base(h, a)` -/
def ge25519_scalarmult_base (a : Bytes) : P3 F :=
  let e := recode a
  let h := ge25519_p3_0 ops                        -- ge25519_p3_0(h);
  let h := baseLoop ops e 32 1 h                   -- for (i = 1; i < 64; i += 2) { … }
  let r := ge25519_p3_dbl ops h                    -- ge25519_p3_dbl(&r, h);
  let s := ge25519_p1p1_to_p2 ops r                -- ge25519_p1p1_to_p2(&s, &r);
  let r := ge25519_p2_dbl ops s                    -- ge25519_p2_dbl(&r, &s);
  let s := ge25519_p1p1_to_p2 ops r                -- ge25519_p1p1_to_p2(&s, &r);
  let r := ge25519_p2_dbl ops s                    -- ge25519_p2_dbl(&r, &s);
  let s := ge25519_p1p1_to_p2 ops r                -- ge25519_p1p1_to_p2(&s, &r);
  let r := ge25519_p2_dbl ops s                    -- ge25519_p2_dbl(&r, &s);
  let h := ge25519_p1p1_to_p3 ops r                -- ge25519_p1p1_to_p3(h, &r);
  baseLoop ops e 32 0 h                            -- for (i = 0; i < 64; i += 2) { … }

end

/-! ### slide_vartime -/

/-- `for (i = 0; i < 256; ++i) r[i] = 1 & (a[i >> 3] >> (i & 7));` — entries `i, i+1, …` (`n` of them) -/
def slideBits (a : Bytes) : Nat → Nat → List Int8
  | 0, _ => []
  | n + 1, i =>
    ((1 : Int32) &&& (u8i (a.getD (i >>> 3) 0) >>> (Int32.ofNat (i &&& 7)))).toInt8 :: slideBits a n (i + 1)

/-- the carry loop
      for (k = i + b; k < 256; ++k) { if (! r[k]) { r[k] = 1; break; }  r[k] = 0; }
    starting at `k`, with `fuel ≥ 256 - k` -/
def slideCarry : Nat → Nat → List Int8 → List Int8
  | 0, _, r => r
  | fuel + 1, k, r =>
    if k < 256 then
      if r.getD k 0 = 0 then r.set k 1
      else slideCarry fuel (k + 1) (r.set k 0)
    else r

/-- the loop `for (b = 1; b <= 6 && i + b < 256; ++b) { … }` from `b` on (`fuel ≥ 7 - b`) -/
def slideInner (i : Nat) : Nat → Nat → List Int8 → List Int8
  | 0, _, r => r
  | fuel + 1, b, r =>
    if b ≤ 6 ∧ i + b < 256 then
      if r.getD (i + b) 0 = 0 then slideInner i fuel (b + 1) r                -- if (! r[i + b]) continue;
      else
        let ribs : Int32 := (r.getD (i + b) 0).toInt32 <<< Int32.ofNat b      -- ribs = r[i + b] << b;
        let cmp : Int32 := (r.getD i 0).toInt32 + ribs                        -- cmp = r[i] + ribs;
        if cmp ≤ 15 then
          let r := r.set i cmp.toInt8                                         -- r[i] = cmp;
          let r := r.set (i + b) 0                                            -- r[i + b] = 0;
          slideInner i fuel (b + 1) r
        else
          let cmp : Int32 := (r.getD i 0).toInt32 - ribs                      -- cmp = r[i] - ribs;
          if cmp < -15 then r                                                 -- if (cmp < -15) break;
          else
            let r := r.set i cmp.toInt8                                       -- r[i] = cmp;
            let r := slideCarry (256 - (i + b)) (i + b) r                     -- for (k = i + b; k < 256; ++k) { … }
            slideInner i fuel (b + 1) r
    else r

/-- the loop `for (i = 0; i < 256; ++i) { if (! r[i]) continue; for (b …) … }` from `i` on, `n` iterations left -/
def slideOuter : Nat → Nat → List Int8 → List Int8
  | 0, _, r => r
  | n + 1, i, r => slideOuter n (i + 1) (if r.getD i 0 = 0 then r else slideInner i 6 1 r)

/-- `slide_vartime(r, a)` -/
def slide_vartime (a : Bytes) : List Int8 := slideOuter 256 0 (slideBits a 256 0)

section
variable {F : Type} (ops : GeFieldOps F)

/-! ### ge25519_double_scalarmult_vartime -/

/-- `static const ge25519_precomp Bi[8]` (fe_51/base2.h): Bi[j] = (2j+1)·B -/
def Bi : List (Precomp F) :=
  Ge25519Tables.base2.map fun e => ⟨ops.ofNat e.1, ops.ofNat e.2.1, ops.ofNat e.2.2⟩

/-- the table `Ai[8]` of `ge25519_double_scalarmult_vartime`: A, 3A, 5A, …, 15A -/
def dsmTable (A : P3 F) : List (Cached F) :=
  let Ai0 := ge25519_p3_to_cached ops A            -- ge25519_p3_to_cached(&Ai[0], A);
  let t := ge25519_p3_dbl ops A                    -- ge25519_p3_dbl(&t, A);
  let A2 := ge25519_p1p1_to_p3 ops t               -- ge25519_p1p1_to_p3(&A2, &t);
  let t := ge25519_add_cached ops A2 Ai0           -- ge25519_add_cached(&t, &A2, &Ai[0]);
  let u := ge25519_p1p1_to_p3 ops t                -- ge25519_p1p1_to_p3(&u, &t);
  let Ai1 := ge25519_p3_to_cached ops u            -- ge25519_p3_to_cached(&Ai[1], &u);
  let t := ge25519_add_cached ops A2 Ai1           -- … &Ai[1]
  let u := ge25519_p1p1_to_p3 ops t
  let Ai2 := ge25519_p3_to_cached ops u            -- … &Ai[2]
  let t := ge25519_add_cached ops A2 Ai2
  let u := ge25519_p1p1_to_p3 ops t
  let Ai3 := ge25519_p3_to_cached ops u            -- … &Ai[3]
  let t := ge25519_add_cached ops A2 Ai3
  let u := ge25519_p1p1_to_p3 ops t
  let Ai4 := ge25519_p3_to_cached ops u            -- … &Ai[4]
  let t := ge25519_add_cached ops A2 Ai4
  let u := ge25519_p1p1_to_p3 ops t
  let Ai5 := ge25519_p3_to_cached ops u            -- … &Ai[5]
  let t := ge25519_add_cached ops A2 Ai5
  let u := ge25519_p1p1_to_p3 ops t
  let Ai6 := ge25519_p3_to_cached ops u            -- … &Ai[6]
  let t := ge25519_add_cached ops A2 Ai6           -- ge25519_add_cached(&t, &A2, &Ai[6]);
  let u := ge25519_p1p1_to_p3 ops t                -- ge25519_p1p1_to_p3(&u, &t);
  let Ai7 := ge25519_p3_to_cached ops u            -- ge25519_p3_to_cached(&Ai[7], &u);
  [Ai0, Ai1, Ai2, Ai3, Ai4, Ai5, Ai6, Ai7]

/-- `for (i = 255; i >= 0; --i) { if (aslide[i] || bslide[i]) break; }`: returns `i + 1` (0 when the loop
    runs to `i = -1`); `n` = `i + 1` at the loop head -/
def dsmTop (aslide bslide : List Int8) : Nat → Nat
  | 0 => 0
  | i + 1 => if aslide.getD i 0 ≠ 0 ∨ bslide.getD i 0 ≠ 0 then i + 1 else dsmTop aslide bslide i

/-- an `int` used as an array index -/
def idx (x : Int32) : Nat := x.toNatClampNeg

/-- one iteration of `for (; i >= 0; --i)` for the digits `ai = aslide[i]`, `bi = bslide[i]` -/
def dsmStep (Ai : List (Cached F)) (ai bi : Int8) (r : P2 F) : P2 F :=
  let c0 := ge25519_cached_0 ops
  let z0 := ge25519_precomp_0 ops
  let t := ge25519_p2_dbl ops r                                        -- ge25519_p2_dbl(&t, r);
  let t :=
    if ai > 0 then                                                     -- if (aslide[i] > 0) {
      let u := ge25519_p1p1_to_p3 ops t                                --   ge25519_p1p1_to_p3(&u, &t);
      ge25519_add_cached ops u (Ai.getD (idx (ai.toInt32 / 2)) c0)     --   ge25519_add_cached(&t, &u, &Ai[aslide[i] / 2]);
    else if ai < 0 then                                                -- } else if (aslide[i] < 0) {
      let u := ge25519_p1p1_to_p3 ops t                                --   ge25519_p1p1_to_p3(&u, &t);
      ge25519_sub_cached ops u (Ai.getD (idx ((-ai.toInt32) / 2)) c0)  --   ge25519_sub_cached(&t, &u, &Ai[(-aslide[i]) / 2]);
    else t
  let t :=
    if bi > 0 then                                                     -- if (bslide[i] > 0) {
      let u := ge25519_p1p1_to_p3 ops t                                --   ge25519_p1p1_to_p3(&u, &t);
      ge25519_add_precomp ops u ((Bi ops).getD (idx (bi.toInt32 / 2)) z0)      --   ge25519_add_precomp(&t, &u, &Bi[bslide[i] / 2]);
    else if bi < 0 then                                                -- } else if (bslide[i] < 0) {
      let u := ge25519_p1p1_to_p3 ops t                                --   ge25519_p1p1_to_p3(&u, &t);
      ge25519_sub_precomp ops u ((Bi ops).getD (idx ((-bi.toInt32) / 2)) z0)   --   ge25519_sub_precomp(&t, &u, &Bi[(-bslide[i]) / 2]);
    else t
  ge25519_p1p1_to_p2 ops t                                             -- ge25519_p1p1_to_p2(r, &t);

/-- `for (; i >= 0; --i) { … }` with `n = i + 1` -/
def dsmLoop (Ai : List (Cached F)) (aslide bslide : List Int8) : Nat → P2 F → P2 F
  | 0, r => r
  | i + 1, r => dsmLoop Ai aslide bslide i (dsmStep ops Ai (aslide.getD i 0) (bslide.getD i 0) r)

/-- `ge25519_double_scalarmult_vartime(r, a, A, b)`: r = a·A + b·B -/
def ge25519_double_scalarmult_vartime (a : Bytes) (A : P3 F) (b : Bytes) : P2 F :=
  let aslide := slide_vartime a                    -- slide_vartime(aslide, a);
  let bslide := slide_vartime b                    -- slide_vartime(bslide, b);
  let Ai := dsmTable ops A
  let r := ge25519_p2_0 ops                        -- ge25519_p2_0(r);
  let n := dsmTop aslide bslide 256                -- for (i = 255; i >= 0; --i) if (aslide[i] || bslide[i]) break;
  dsmLoop ops Ai aslide bslide n r                 -- for (; i >= 0; --i) { … }

/-! ### ge25519_mul_l and the predicates -/

/-- the loop of `ge25519_p3_dbladd`: `for (i = 0; i < n; i++) { ge25519_p2_dbl(&p1p1, &p2); ge25519_p1p1_to_p2(&p2, &p1p1); }`;
    state `(p2, p1p1)` -/
def dblLoop : Nat → P2 F × P1p1 F → P2 F × P1p1 F
  | 0, s => s
  | n + 1, s =>
    let p1p1 := ge25519_p2_dbl ops s.1
    dblLoop n (ge25519_p1p1_to_p2 ops p1p1, p1p1)

/-- `ge25519_p3_dbladd(r, n, q)`: r = r·2^n + q.  (`p1p1` is uninitialised before the loop; every call has n ≥ 6.) -/
def ge25519_p3_dbladd (r : P3 F) (n : Nat) (q : P3 F) : P3 F :=
  let p2 := ge25519_p3_to_p2 r                     -- ge25519_p3_to_p2(&p2, r);
  let s := dblLoop ops n (p2, ⟨ops.zero, ops.zero, ops.zero, ops.zero⟩)
  let r := ge25519_p1p1_to_p3 ops s.2              -- ge25519_p1p1_to_p3(r, &p1p1);
  ge25519_p3_add ops r q                           -- ge25519_p3_add(r, r, q);

/-- `ge25519_mul_l(r, p)`: multiplication by the order of the main subgroup
    l = 2^252 + 27742317777372353535851937790883648493 (addition chain) -/
def ge25519_mul_l (p : P3 F) : P3 F :=
  let add := ge25519_p3_add ops
  let dbl := ge25519_p3p3_dbl ops
  let _10 := dbl p                                 -- ge25519_p3p3_dbl(&_10, p);
  let _11 := add p _10                             -- ge25519_p3_add(&_11, p, &_10);
  let _100 := add p _11                            -- ge25519_p3_add(&_100, p, &_11);
  let _110 := add _10 _100                         -- ge25519_p3_add(&_110, &_10, &_100);
  let _1000 := add _10 _110                        -- ge25519_p3_add(&_1000, &_10, &_110);
  let _1011 := add _11 _1000                       -- ge25519_p3_add(&_1011, &_11, &_1000);
  let _10000 := dbl _1000                          -- ge25519_p3p3_dbl(&_10000, &_1000);
  let _100000 := dbl _10000                        -- ge25519_p3p3_dbl(&_100000, &_10000);
  let _100110 := add _110 _100000                  -- ge25519_p3_add(&_100110, &_110, &_100000);
  let _1000000 := dbl _100000                      -- ge25519_p3p3_dbl(&_1000000, &_100000);
  let _1010000 := add _10000 _1000000              -- ge25519_p3_add(&_1010000, &_10000, &_1000000);
  let _1010011 := add _11 _1010000                 -- ge25519_p3_add(&_1010011, &_11, &_1010000);
  let _1100011 := add _10000 _1010011              -- ge25519_p3_add(&_1100011, &_10000, &_1010011);
  let _1100111 := add _100 _1100011                -- ge25519_p3_add(&_1100111, &_100, &_1100011);
  let _1101011 := add _100 _1100111                -- ge25519_p3_add(&_1101011, &_100, &_1100111);
  let _10010011 := add _1000000 _1010011           -- ge25519_p3_add(&_10010011, &_1000000, &_1010011);
  let _10010111 := add _100 _10010011              -- ge25519_p3_add(&_10010111, &_100, &_10010011);
  let _10111101 := add _100110 _10010111           -- ge25519_p3_add(&_10111101, &_100110, &_10010111);
  let _11010011 := add _1000000 _10010011          -- ge25519_p3_add(&_11010011, &_1000000, &_10010011);
  let _11100111 := add _1010000 _10010111          -- ge25519_p3_add(&_11100111, &_1010000, &_10010111);
  let _11101101 := add _110 _11100111              -- ge25519_p3_add(&_11101101, &_110, &_11100111);
  let _11110101 := add _1000 _11101101             -- ge25519_p3_add(&_11110101, &_1000, &_11101101);
  let r := add _1011 _11110101                     -- ge25519_p3_add(r, &_1011, &_11110101);
  let r := ge25519_p3_dbladd ops r 126 _1010011    -- ge25519_p3_dbladd(r, 126, &_1010011);
  let r := ge25519_p3_dbladd ops r 9 _10           -- ge25519_p3_dbladd(r, 9, &_10);
  let r := add r _11110101                         -- ge25519_p3_add(r, r, &_11110101);
  let r := ge25519_p3_dbladd ops r 7 _1100111      -- ge25519_p3_dbladd(r, 7, &_1100111);
  let r := ge25519_p3_dbladd ops r 9 _11110101     -- ge25519_p3_dbladd(r, 9, &_11110101);
  let r := ge25519_p3_dbladd ops r 11 _10111101    -- ge25519_p3_dbladd(r, 11, &_10111101);
  let r := ge25519_p3_dbladd ops r 8 _11100111     -- ge25519_p3_dbladd(r, 8, &_11100111);
  let r := ge25519_p3_dbladd ops r 9 _1101011      -- ge25519_p3_dbladd(r, 9, &_1101011);
  let r := ge25519_p3_dbladd ops r 6 _1011         -- ge25519_p3_dbladd(r, 6, &_1011);
  let r := ge25519_p3_dbladd ops r 14 _10010011    -- ge25519_p3_dbladd(r, 14, &_10010011);
  let r := ge25519_p3_dbladd ops r 10 _1100011     -- ge25519_p3_dbladd(r, 10, &_1100011);
  let r := ge25519_p3_dbladd ops r 9 _10010111     -- ge25519_p3_dbladd(r, 9, &_10010111);
  let r := ge25519_p3_dbladd ops r 10 _11110101    -- ge25519_p3_dbladd(r, 10, &_11110101);
  let r := ge25519_p3_dbladd ops r 8 _11010011     -- ge25519_p3_dbladd(r, 8, &_11010011);
  ge25519_p3_dbladd ops r 8 _11101101              -- ge25519_p3_dbladd(r, 8, &_11101101);

/-- `ge25519_is_on_curve(p)` -/
def ge25519_is_on_curve (p : P3 F) : Int32 :=
  let x2 := ops.sq p.X                     -- fe25519_sq(x2, p->X);
  let y2 := ops.sq p.Y                     -- fe25519_sq(y2, p->Y);
  let z2 := ops.sq p.Z                     -- fe25519_sq(z2, p->Z);
  let t0 := ops.sub y2 x2                  -- fe25519_sub(t0, y2, x2);
  let t0 := ops.mul t0 z2                  -- fe25519_mul(t0, t0, z2);
  let t1 := ops.mul x2 y2                  -- fe25519_mul(t1, x2, y2);
  let t1 := ops.mul t1 (ed25519_d ops)     -- fe25519_mul(t1, t1, ed25519_d);
  let z4 := ops.sq z2                      -- fe25519_sq(z4, z2);
  let t1 := ops.add t1 z4                  -- fe25519_add(t1, t1, z4);
  let t0 := ops.sub t0 t1                  -- fe25519_sub(t0, t0, t1);
  ops.iszero t0                            -- return fe25519_iszero(t0);

/-- `ge25519_is_on_main_subgroup(p)` -/
def ge25519_is_on_main_subgroup (p : P3 F) : Int32 :=
  let pl := ge25519_mul_l ops p            -- ge25519_mul_l(&pl, p);
  ops.iszero pl.X                          -- return fe25519_iszero(pl.X);

/-- `ge25519_has_small_order(p)` -/
def ge25519_has_small_order (p : P3 F) : Int32 :=
  let ret : Int32 := 0                                 -- int ret = 0;
  let recip := fe25519_invert ops p.Z                  -- fe25519_invert(recip, p->Z);
  let x := ops.mul p.X recip                           -- fe25519_mul(x, p->X, recip);
  let ret := ret ||| ops.iszero x                      -- ret |= fe25519_iszero(x);
  let y := ops.mul p.Y recip                           -- fe25519_mul(y, p->Y, recip);
  let ret := ret ||| ops.iszero y                      -- ret |= fe25519_iszero(y);
  let x_neg := ops.neg p.X                             -- fe25519_neg(x_neg, p->X);
  let y_sqrtm1 := ops.mul y (fe25519_sqrtm1 ops)       -- fe25519_mul(y_sqrtm1, y, fe25519_sqrtm1);
  let c := ops.sub y_sqrtm1 x                          -- fe25519_sub(c, y_sqrtm1, x);
  let ret := ret ||| ops.iszero c                      -- ret |= fe25519_iszero(c);
  let c := ops.sub y_sqrtm1 x_neg                      -- fe25519_sub(c, y_sqrtm1, x_neg);
  let ret := ret ||| ops.iszero c                      -- ret |= fe25519_iszero(c);
  ret

/-! ### encoding and decoding -/

/-- `s[31] ^= fe25519_isnegative(x) << 7;` -/
def xorSign (s : Bytes) (neg : Int32) : Bytes :=
  s.set 31 (i2u8 (u8i (s.getD 31 0) ^^^ (neg <<< 7)))

/-- `ge25519_tobytes(s, h)` -/
def ge25519_tobytes (h : P2 F) : Bytes :=
  let recip := fe25519_invert ops h.Z      -- fe25519_invert(recip, h->Z);
  let x := ops.mul h.X recip               -- fe25519_mul(x, h->X, recip);
  let y := ops.mul h.Y recip               -- fe25519_mul(y, h->Y, recip);
  let s := ops.tobytes y                   -- fe25519_tobytes(s, y);
  xorSign s (ops.isnegative x)             -- s[31] ^= fe25519_isnegative(x) << 7;

/-- `ge25519_p3_tobytes(s, h)` -/
def ge25519_p3_tobytes (h : P3 F) : Bytes :=
  let recip := fe25519_invert ops h.Z      -- fe25519_invert(recip, h->Z);
  let x := ops.mul h.X recip               -- fe25519_mul(x, h->X, recip);
  let y := ops.mul h.Y recip               -- fe25519_mul(y, h->Y, recip);
  let s := ops.tobytes y                   -- fe25519_tobytes(s, y);
  xorSign s (ops.isnegative x)             -- s[31] ^= fe25519_isnegative(x) << 7;

/-- `ge25519_frombytes(h, s)`: the return value (0 / -1) and `*h` (always completely written) -/
def ge25519_frombytes (s : Bytes) : Int32 × P3 F :=
  let hY := ops.frombytes s                            -- fe25519_frombytes(h->Y, s);
  let hZ := ops.one                                    -- fe25519_1(h->Z);
  let u := ops.sq hY                                   -- fe25519_sq(u, h->Y);
  let v := ops.mul u (ed25519_d ops)                   -- fe25519_mul(v, u, ed25519_d);
  let u := ops.sub u hZ                                -- fe25519_sub(u, u, h->Z); /* u = y^2-1 */
  let v := ops.add v hZ                                -- fe25519_add(v, v, h->Z); /* v = dy^2+1 */
  let hX := ops.mul u v                                -- fe25519_mul(h->X, u, v);
  let hX := fe25519_pow22523 ops hX                    -- fe25519_pow22523(h->X, h->X);
  let hX := ops.mul u hX                               -- fe25519_mul(h->X, u, h->X); /* u((uv)^((q-5)/8)) */
  let vxx := ops.sq hX                                 -- fe25519_sq(vxx, h->X);
  let vxx := ops.mul vxx v                             -- fe25519_mul(vxx, vxx, v);
  let m_root_check := ops.sub vxx u                    -- fe25519_sub(m_root_check, vxx, u); /* vx^2-u */
  let p_root_check := ops.add vxx u                    -- fe25519_add(p_root_check, vxx, u); /* vx^2+u */
  let has_m_root := ops.iszero m_root_check            -- has_m_root = fe25519_iszero(m_root_check);
  let has_p_root := ops.iszero p_root_check            -- has_p_root = fe25519_iszero(p_root_check);
  let x_sqrtm1 := ops.mul hX (fe25519_sqrtm1 ops)      -- fe25519_mul(x_sqrtm1, h->X, fe25519_sqrtm1); /* x*sqrt(-1) */
  let hX := ops.cmov hX x_sqrtm1 (1 - has_m_root).toUInt32    -- fe25519_cmov(h->X, x_sqrtm1, 1 - has_m_root);
  let negx := ops.neg hX                               -- fe25519_neg(negx, h->X);
  let hX := ops.cmov hX negx                           -- fe25519_cmov(h->X, negx, fe25519_isnegative(h->X) ^ (((s[31] >> 5) ^ optblocker_u8) >> 2));
    (ops.isnegative hX ^^^ (((u8i (s.getD 31 0) >>> 5) ^^^ u8i optblocker_u8) >>> 2)).toUInt32
  let hT := ops.mul hX hY                              -- fe25519_mul(h->T, h->X, h->Y);
  ((has_m_root ||| has_p_root) - 1, ⟨hX, hY, hZ, hT⟩)  -- return (has_m_root | has_p_root) - 1;

/-- `ge25519_frombytes_negate_vartime(h, s)`: the return value and `*h`.  On the `return -1` path `h->T`
    has not been written: the model returns `fe25519_0` there (callers do not read `*h` on failure). -/
def ge25519_frombytes_negate_vartime (s : Bytes) : Int32 × P3 F :=
  let hY := ops.frombytes s                            -- fe25519_frombytes(h->Y, s);
  let hZ := ops.one                                    -- fe25519_1(h->Z);
  let u := ops.sq hY                                   -- fe25519_sq(u, h->Y);
  let v := ops.mul u (ed25519_d ops)                   -- fe25519_mul(v, u, ed25519_d);
  let u := ops.sub u hZ                                -- fe25519_sub(u, u, h->Z); /* u = y^2-1 */
  let v := ops.add v hZ                                -- fe25519_add(v, v, h->Z); /* v = dy^2+1 */
  let v3 := ops.sq v                                   -- fe25519_sq(v3, v);
  let v3 := ops.mul v3 v                               -- fe25519_mul(v3, v3, v); /* v3 = v^3 */
  let hX := ops.sq v3                                  -- fe25519_sq(h->X, v3);
  let hX := ops.mul hX v                               -- fe25519_mul(h->X, h->X, v);
  let hX := ops.mul hX u                               -- fe25519_mul(h->X, h->X, u); /* x = uv^7 */
  let hX := fe25519_pow22523 ops hX                    -- fe25519_pow22523(h->X, h->X); /* x = (uv^7)^((q-5)/8) */
  let hX := ops.mul hX v3                              -- fe25519_mul(h->X, h->X, v3);
  let hX := ops.mul hX u                               -- fe25519_mul(h->X, h->X, u); /* x = uv^3(uv^7)^((q-5)/8) */
  let vxx := ops.sq hX                                 -- fe25519_sq(vxx, h->X);
  let vxx := ops.mul vxx v                             -- fe25519_mul(vxx, vxx, v);
  let m_root_check := ops.sub vxx u                    -- fe25519_sub(m_root_check, vxx, u); /* vx^2-u */
  let fin (hX : F) : Int32 × P3 F :=
    let hX :=
      if ops.isnegative hX = u8i (s.getD 31 0) >>> 7 then   -- if (fe25519_isnegative(h->X) == (s[31] >> 7)) {
        ops.neg hX                                     --   fe25519_neg(h->X, h->X); }
      else hX
    let hT := ops.mul hX hY                            -- fe25519_mul(h->T, h->X, h->Y);
    (0, ⟨hX, hY, hZ, hT⟩)                              -- return 0;
  if ops.iszero m_root_check = 0 then                  -- if (fe25519_iszero(m_root_check) == 0) {
    let p_root_check := ops.add vxx u                  --   fe25519_add(p_root_check, vxx, u); /* vx^2+u */
    if ops.iszero p_root_check = 0 then                --   if (fe25519_iszero(p_root_check) == 0) {
      (-1, ⟨hX, hY, hZ, ops.zero⟩)                     --     return -1; }
    else
      let hX := ops.mul hX (fe25519_sqrtm1 ops)        --   fe25519_mul(h->X, h->X, fe25519_sqrtm1); }
      fin hX
  else fin hX

end

/-! ### instantiation with the specification field -/

open Sodium.Spec in
/-- `Spec.F25519` as `GeFieldOps`: naturals, every operation returns the canonical representative.
    `cmov f g b` replaces iff `b ≠ 0` (the C mask `-(uint64_t) b` / the `cmov` instruction is meaningful for
    `b ∈ {0, 1}` only, and the group code only passes 0 or 1). -/
def specGe : GeFieldOps Nat where
  zero := 0
  one := 1
  add := F25519.add
  sub := F25519.sub
  neg := F25519.neg
  mul := F25519.mul
  sq := F25519.sqr
  sq2 f := F25519.mul 2 (F25519.sqr f)
  cmov f g b := if b = 0 then f else g
  frombytes := F25519.fromBytesMasked
  tobytes := F25519.toBytes
  isnegative f := if F25519.isNegative f then 1 else 0
  iszero f := if F25519.isZero f then 1 else 0
  ofNat n := n

open Sodium.Spec in
/-- the group primitives of `Model.Sign.Ops` (sign.c / open.c / keypair.c) built from the C-structured
    functions of this file over the specification field; SHA-512 and the scalar arithmetic as in `specOps` -/
def refOps : Model.Sign.Ops (P3 Nat) (P2 Nat) where
  sha512 := Sha512.hash
  scReduce := Scalar.reduce64
  scMuladd := fun a b c => Scalar.encode (le (a.take 32) * le (b.take 32) + le (c.take 32))
  frombytesNegateVartime := ge25519_frombytes_negate_vartime specGe
  frombytes := ge25519_frombytes specGe
  hasSmallOrder := ge25519_has_small_order specGe
  doubleScalarmultVartime := fun a A b => ge25519_double_scalarmult_vartime specGe a A b
  p2ToP3 := ge25519_p2_to_p3 specGe
  p3Sub := ge25519_p3_sub specGe
  scalarmultBase := ge25519_scalarmult_base specGe
  p3Tobytes := ge25519_p3_tobytes specGe

end Sodium.Model.Ge25519
