import SodiumModel.Basic
import SodiumModel.Model.Codecs
/-
  Model of crypto_pwhash (crypto_pwhash.c, argon2/pwhash_argon2i.c, argon2/pwhash_argon2id.c,
  argon2/argon2.c, argon2/argon2-encoding.c, `argon2_validate_inputs` and the memory rounding of
  argon2/argon2-core.c / argon2.c) and of crypto_pwhash_scryptsalsa208sha256
  (pwhash_scryptsalsa208sha256.c, crypto_scrypt-common.c and the parameter checks of `escrypt_kdf_*`),
  written to the structure of the C code.

  * The two memory-hard cores (filling the Argon2 memory / scrypt's SMix + PBKDF2) are PARAMETERS
    (`Prims`); the driver instantiates them with `Spec.Argon2.argon2` / `Spec.Scrypt.scrypt`.
  * `size_t` / `unsigned long long` quantities are `Nat` (< 2^64, 64-bit target: SIZE_MAX = 2^64-1);
    the places where the C code truncates to `uint32_t` are written `u32 x` (= x mod 2^32).
  * A C string is the list of its bytes before the terminating NUL. The public entry points take
    arbitrary bytes and cut at the first NUL (`cstr`), exactly as the C code sees them.
  * `errno`: 0 = not set by the function (the C code never clears it).
  * Not modelled: allocation failures (malloc/mmap returning NULL), the `out == passwd` alias check,
    `sodium_misuse()` aborts are reported as `.misuse`.
-/
namespace Sodium.Model.Pwhash
open Sodium Sodium.Model

/-! ### primitives -/

structure Prims where
  /-- Argon2 v1.3 tag: type y (1 = i, 2 = id), password, salt, t, m, lanes, tag length
      (no secret, no associated data) -/
  argon2 : (y : Nat) → (pwd salt : Bytes) → (t m lanes outlen : Nat) → Bytes
  /-- scrypt(P, S, N, r, p, dkLen) -/
  scrypt : (pwd salt : Bytes) → (N r p dkLen : Nat) → Bytes

/-! ### constants -/

def EINVAL : Nat := 22
def EFBIG : Nat := 27
def ENOMEM : Nat := 12

def UINT32_MAX : Nat := 4294967295
def ULONG_MAX : Nat := 18446744073709551615
def SIZE_MAX : Nat := 18446744073709551615
def u32 (x : Nat) : Nat := x % 4294967296

def ALG_ARGON2I13 : Int := 1
def ALG_ARGON2ID13 : Int := 2
def BYTES_MIN : Nat := 16
def BYTES_MAX : Nat := 4294967295
def PASSWD_MIN : Nat := 0
def PASSWD_MAX : Nat := 4294967295
def SALTBYTES : Nat := 16
def STRBYTES : Nat := 128
def STR_HASHBYTES : Nat := 32
def argon2i_OPSLIMIT_MIN : Nat := 3
def argon2id_OPSLIMIT_MIN : Nat := 1
def OPSLIMIT_MAX : Nat := 4294967295
def MEMLIMIT_MIN : Nat := 8192
def MEMLIMIT_MAX : Nat := 4398046510080

inductive Argon2Type where
  | i | id
  deriving DecidableEq, Repr

/-- the numeric value of `argon2_type` hashed into H_0 -/
def Argon2Type.y : Argon2Type → Nat
  | .i => 1
  | .id => 2

def Argon2Type.opsMin : Argon2Type → Nat
  | .i => argon2i_OPSLIMIT_MIN
  | .id => argon2id_OPSLIMIT_MIN

def Argon2Type.alg : Argon2Type → Int
  | .i => ALG_ARGON2I13
  | .id => ALG_ARGON2ID13

/-! string literals of the C code as byte lists (checked against the literals in Properties/C08.lean) -/
/-- "$argon2i" -/
def lit_argon2i : Bytes := [36, 97, 114, 103, 111, 110, 50, 105]
/-- "$argon2id" -/
def lit_argon2id : Bytes := [36, 97, 114, 103, 111, 110, 50, 105, 100]
/-- "$v=" -/
def lit_v : Bytes := [36, 118, 61]
/-- "$m=" -/
def lit_m : Bytes := [36, 109, 61]
/-- ",t=" -/
def lit_t : Bytes := [44, 116, 61]
/-- ",p=" -/
def lit_p : Bytes := [44, 112, 61]
/-- "$" -/
def lit_dollar : Bytes := [36]

/-- "$argon2i" / "$argon2id" -/
def Argon2Type.tag : Argon2Type → Bytes
  | .i => lit_argon2i
  | .id => lit_argon2id

/-! ### argon2 error codes (argon2.h) -/

def ARGON2_OK : Int := 0
def ARGON2_OUTPUT_PTR_NULL : Int := -1
def ARGON2_OUTPUT_TOO_SHORT : Int := -2
def ARGON2_OUTPUT_TOO_LONG : Int := -3
def ARGON2_PWD_TOO_SHORT : Int := -4
def ARGON2_PWD_TOO_LONG : Int := -5
def ARGON2_SALT_TOO_SHORT : Int := -6
def ARGON2_SALT_TOO_LONG : Int := -7
def ARGON2_AD_TOO_SHORT : Int := -8
def ARGON2_AD_TOO_LONG : Int := -9
def ARGON2_SECRET_TOO_SHORT : Int := -10
def ARGON2_SECRET_TOO_LONG : Int := -11
def ARGON2_TIME_TOO_SMALL : Int := -12
def ARGON2_TIME_TOO_LARGE : Int := -13
def ARGON2_MEMORY_TOO_LITTLE : Int := -14
def ARGON2_MEMORY_TOO_MUCH : Int := -15
def ARGON2_LANES_TOO_FEW : Int := -16
def ARGON2_LANES_TOO_MANY : Int := -17
def ARGON2_PWD_PTR_MISMATCH : Int := -18
def ARGON2_SALT_PTR_MISMATCH : Int := -19
def ARGON2_SECRET_PTR_MISMATCH : Int := -20
def ARGON2_AD_PTR_MISMATCH : Int := -21
def ARGON2_INCORRECT_TYPE : Int := -26
def ARGON2_THREADS_TOO_FEW : Int := -28
def ARGON2_THREADS_TOO_MANY : Int := -29
def ARGON2_ENCODING_FAIL : Int := -31
def ARGON2_DECODING_FAIL : Int := -32
def ARGON2_DECODING_LENGTH_FAIL : Int := -34
def ARGON2_VERIFY_MISMATCH : Int := -35

def ARGON2_VERSION_NUMBER : Nat := 0x13
def ARGON2_SYNC_POINTS : UInt32 := 4
def ARGON2_MIN_LANES : Nat := 1
def ARGON2_MAX_LANES : Nat := 0xFFFFFF
def ARGON2_MIN_THREADS : Nat := 1
def ARGON2_MAX_THREADS : Nat := 0xFFFFFF
def ARGON2_MIN_OUTLEN : Nat := 16
def ARGON2_MAX_OUTLEN : Nat := 0xFFFFFFFF
def ARGON2_MIN_MEMORY : Nat := 8
/-- `ARGON2_MIN(UINT32_C(0xFFFFFFFF), UINT64_C(1) << 32)` on a 64-bit target -/
def ARGON2_MAX_MEMORY : Nat := 0xFFFFFFFF
def ARGON2_MIN_TIME : Nat := 1
def ARGON2_MAX_TIME : Nat := 0xFFFFFFFF
def ARGON2_MIN_PWD_LENGTH : Nat := 0
def ARGON2_MAX_PWD_LENGTH : Nat := 0xFFFFFFFF
def ARGON2_MIN_AD_LENGTH : Nat := 0
def ARGON2_MAX_AD_LENGTH : Nat := 0xFFFFFFFF
def ARGON2_MIN_SALT_LENGTH : Nat := 8
def ARGON2_MAX_SALT_LENGTH : Nat := 0xFFFFFFFF
def ARGON2_MIN_SECRET : Nat := 0
def ARGON2_MAX_SECRET : Nat := 0xFFFFFFFF

/-! ### argon2_context and argon2_validate_inputs (argon2-core.c) -/

/-- the fields of `argon2_context` that `argon2_validate_inputs` looks at (`uint32_t` lengths;
    a pointer is represented by "is it NULL") -/
structure Context where
  outNull : Bool := false
  outlen : Nat
  pwdNull : Bool := false
  pwdlen : Nat
  saltNull : Bool := false
  saltlen : Nat
  secretNull : Bool := true
  secretlen : Nat := 0
  adNull : Bool := true
  adlen : Nat := 0
  t_cost : Nat
  m_cost : Nat
  lanes : Nat
  threads : Nat
  deriving DecidableEq, Repr

def argon2_validate_inputs (c : Context) : Int :=
  if c.outNull then ARGON2_OUTPUT_PTR_NULL
  else if ARGON2_MIN_OUTLEN > c.outlen then ARGON2_OUTPUT_TOO_SHORT
  else if ARGON2_MAX_OUTLEN < c.outlen then ARGON2_OUTPUT_TOO_LONG
  else if c.pwdNull && c.pwdlen != 0 then ARGON2_PWD_PTR_MISMATCH
  else if ARGON2_MIN_PWD_LENGTH > c.pwdlen then ARGON2_PWD_TOO_SHORT
  else if ARGON2_MAX_PWD_LENGTH < c.pwdlen then ARGON2_PWD_TOO_LONG
  else if c.saltNull && c.saltlen != 0 then ARGON2_SALT_PTR_MISMATCH
  else if ARGON2_MIN_SALT_LENGTH > c.saltlen then ARGON2_SALT_TOO_SHORT
  else if ARGON2_MAX_SALT_LENGTH < c.saltlen then ARGON2_SALT_TOO_LONG
  else if c.secretNull && c.secretlen != 0 then ARGON2_SECRET_PTR_MISMATCH
  else if !c.secretNull && ARGON2_MIN_SECRET > c.secretlen then ARGON2_SECRET_TOO_SHORT
  else if !c.secretNull && ARGON2_MAX_SECRET < c.secretlen then ARGON2_SECRET_TOO_LONG
  else if c.adNull && c.adlen != 0 then ARGON2_AD_PTR_MISMATCH
  else if !c.adNull && ARGON2_MIN_AD_LENGTH > c.adlen then ARGON2_AD_TOO_SHORT
  else if !c.adNull && ARGON2_MAX_AD_LENGTH < c.adlen then ARGON2_AD_TOO_LONG
  else if ARGON2_MIN_LANES > c.lanes then ARGON2_LANES_TOO_FEW
  else if ARGON2_MAX_LANES < c.lanes then ARGON2_LANES_TOO_MANY
  else if ARGON2_MIN_MEMORY > c.m_cost then ARGON2_MEMORY_TOO_LITTLE
  else if ARGON2_MAX_MEMORY < c.m_cost then ARGON2_MEMORY_TOO_MUCH
  else if c.m_cost < 8 * c.lanes then ARGON2_MEMORY_TOO_LITTLE
  else if ARGON2_MIN_TIME > c.t_cost then ARGON2_TIME_TOO_SMALL
  else if ARGON2_MAX_TIME < c.t_cost then ARGON2_TIME_TOO_LARGE
  else if ARGON2_MIN_THREADS > c.threads then ARGON2_THREADS_TOO_FEW
  else if ARGON2_MAX_THREADS < c.threads then ARGON2_THREADS_TOO_MANY
  else ARGON2_OK

/-! ### argon2_ctx: memory rounding (argon2.c), in `uint32_t` arithmetic -/

structure Instance where
  passes : UInt32
  memory_blocks : UInt32
  segment_length : UInt32
  lane_length : UInt32
  lanes : UInt32
  threads : UInt32
  deriving DecidableEq, Repr

/-- step "2. Align memory size" of `argon2_ctx` -/
def argon2_instance (t_cost m_cost lanes threads : UInt32) : Instance :=
  let memory_blocks := m_cost
  let memory_blocks :=
    if memory_blocks < 2 * ARGON2_SYNC_POINTS * lanes then 2 * ARGON2_SYNC_POINTS * lanes else memory_blocks
  let segment_length := memory_blocks / (lanes * ARGON2_SYNC_POINTS)
  let memory_blocks := segment_length * (lanes * ARGON2_SYNC_POINTS)
  { passes := t_cost, memory_blocks := memory_blocks, segment_length := segment_length,
    lane_length := segment_length * ARGON2_SYNC_POINTS, lanes := lanes, threads := threads }

/-- `argon2_ctx(context, type)`: validation, then the core (steps 3-5) as the primitive;
    returns the error code and the tag written to `context->out` -/
def argon2_ctx (P : Prims) (c : Context) (pwd salt : Bytes) (type : Argon2Type) : Int × Bytes :=
  let result := argon2_validate_inputs c
  if result ≠ ARGON2_OK then (result, [])
  else (ARGON2_OK, P.argon2 type.y pwd salt c.t_cost c.m_cost c.lanes c.outlen)

/-! ### argon2-encoding.c -/

/-- the `for (;; str++)` loop of `decode_decimal` (`unsigned long acc`); `none` = `return NULL`.
    `c` is a `char` converted to `int`: bytes ≥ 0x80 are negative there, hence `< '0'`; as an
    unsigned byte they are `> '9'` — the same branch. -/
def decodeDecimalLoop : Bytes → UInt64 → Option (UInt64 × Bytes)
  | [], acc => some (acc, [])
  | c :: rest, acc =>
    if c < 48 ∨ c > 57 then some (acc, c :: rest)
    else
      let d : UInt64 := (c - 48).toUInt64
      if acc > (0xFFFFFFFFFFFFFFFF : UInt64) / 10 then none
      else
        let acc := acc * 10
        if d > (0xFFFFFFFFFFFFFFFF : UInt64) - acc then none
        else decodeDecimalLoop rest (acc + d)

/-- `decode_decimal(str, &v)`: `some (v, rest of the string)` or `none` (NULL) -/
def decode_decimal (str : Bytes) : Option (Nat × Bytes) :=
  match decodeDecimalLoop str 0 with
  | none => none
  | some (acc, rest) =>
    -- `str == orig || (*orig == '0' && str != (orig + 1))`
    if rest.length = str.length ∨ (str.head? = some 48 ∧ rest.length + 1 ≠ str.length) then none
    else some (acc.toNat, rest)

/-- `DECIMAL_U32(x)` -/
def decimalU32 (str : Bytes) : Option (Nat × Bytes) :=
  match decode_decimal str with
  | none => none
  | some (v, rest) => if v > UINT32_MAX then none else some (v, rest)

/-- `CC(prefix)`: `strncmp(str, prefix, strlen(prefix)) != 0` → fail, else advance -/
def cc (pre : Bytes) (str : Bytes) : Option Bytes :=
  if pre.isPrefixOf str then some (str.drop pre.length) else none

/-- `BIN(buf, max_len, len)`: Base64 (original alphabet, no padding), no ignore set, end pointer
    requested. Returns the decoded bytes and the rest of the string. -/
def bin (maxLen : Nat) (str : Bytes) : Option (Bytes × Bytes) :=
  match sodium_base642bin maxLen str none true 3 with
  | .misuse => none
  | .res r =>
    if r.rc ≠ 0 ∨ r.binLen > UINT32_MAX then none
    else some (r.written.take r.binLen, str.drop r.endPos)

/-- what `argon2_decode_string` stores into the context -/
structure Decoded where
  m_cost : Nat
  t_cost : Nat
  lanes : Nat
  salt : Bytes
  out : Bytes
  deriving DecidableEq, Repr

/-- `argon2_decode_string(ctx, str, type)`; `c0` is the context on entry (its `saltlen` / `outlen`
    are the buffer capacities, its other fields are what the caller set). -/
def argon2_decode_string (c0 : Context) (str : Bytes) (type : Argon2Type) : Int × Option Decoded :=
  let maxsaltlen := c0.saltlen
  let maxoutlen := c0.outlen
  match cc type.tag str with
  | none => (ARGON2_DECODING_FAIL, none)
  | some str =>
  match cc lit_v str with
  | none => (ARGON2_DECODING_FAIL, none)
  | some str =>
  match decimalU32 str with
  | none => (ARGON2_DECODING_FAIL, none)
  | some (version, str) =>
  if version ≠ ARGON2_VERSION_NUMBER then (ARGON2_INCORRECT_TYPE, none) else
  match cc lit_m str with
  | none => (ARGON2_DECODING_FAIL, none)
  | some str =>
  match decimalU32 str with
  | none => (ARGON2_DECODING_FAIL, none)
  | some (m_cost, str) =>
  if m_cost > UINT32_MAX then (ARGON2_INCORRECT_TYPE, none) else
  match cc lit_t str with
  | none => (ARGON2_DECODING_FAIL, none)
  | some str =>
  match decimalU32 str with
  | none => (ARGON2_DECODING_FAIL, none)
  | some (t_cost, str) =>
  if t_cost > UINT32_MAX then (ARGON2_INCORRECT_TYPE, none) else
  match cc lit_p str with
  | none => (ARGON2_DECODING_FAIL, none)
  | some str =>
  match decimalU32 str with
  | none => (ARGON2_DECODING_FAIL, none)
  | some (lanes, str) =>
  if lanes > UINT32_MAX then (ARGON2_INCORRECT_TYPE, none) else
  match cc lit_dollar str with
  | none => (ARGON2_DECODING_FAIL, none)
  | some str =>
  match bin maxsaltlen str with
  | none => (ARGON2_DECODING_FAIL, none)
  | some (salt, str) =>
  match cc lit_dollar str with
  | none => (ARGON2_DECODING_FAIL, none)
  | some str =>
  match bin maxoutlen str with
  | none => (ARGON2_DECODING_FAIL, none)
  | some (out, str) =>
  let c := { c0 with saltlen := salt.length, outlen := out.length, m_cost := m_cost, t_cost := t_cost,
                     lanes := lanes, threads := lanes }
  let validation_result := argon2_validate_inputs c
  if validation_result ≠ ARGON2_OK then (validation_result, none)
  else if str = [] then (ARGON2_OK, some ⟨m_cost, t_cost, lanes, salt, out⟩)
  else (ARGON2_DECODING_FAIL, none)

/-- the `do … while (x != 0U && i != 0U)` loop of `u32_to_string`; `i` = index before `--i` -/
def u32ToStringLoop : Nat → UInt32 → Bytes → Bytes
  | 0, _, acc => acc
  | i + 1, x, acc =>
    let acc := ((x % 10).toUInt8 + 48) :: acc
    let x := x / 10
    if x ≠ 0 ∧ i ≠ 0 then u32ToStringLoop i x acc else acc

/-- `u32_to_string(str, x)` (`tmp` has 10 characters) -/
def u32_to_string (x : UInt32) : Bytes := u32ToStringLoop 10 x []

inductive Enc where
  | misuse                 -- sodium_bin2base64 called sodium_misuse()
  | fail (code : Int)
  | ok (s : Bytes)         -- the C string written to `dst`
  deriving DecidableEq, Repr

/-- `SS(str)`: `(written so far, dst_len)` → the same after appending, or `none` (ENCODING_FAIL) -/
def ss (s : Bytes) (st : Bytes × Nat) : Option (Bytes × Nat) :=
  if s.length ≥ st.2 then none else some (st.1 ++ s, st.2 - s.length)

/-- `SX(x)` -/
def sx (x : Nat) (st : Bytes × Nat) : Option (Bytes × Nat) := ss (u32_to_string (UInt32.ofNat x)) st

/-- `SB(buf, len)`: `none` = misuse inside sodium_bin2base64; `sb_len = strlen(dst)` -/
def sb (buf : Bytes) (st : Bytes × Nat) : Option (Bytes × Nat) :=
  match sodium_bin2base64 st.2 buf 3 with
  | .misuse => none
  | .ok w =>
    let s := w.takeWhile (· != 0)
    some (st.1 ++ s, st.2 - s.length)

/-- `argon2_encode_string`, everything after the `argon2_validate_inputs` call -/
def encodeTail (c : Context) (salt out : Bytes) (st : Bytes × Nat) : Enc :=
  match sx ARGON2_VERSION_NUMBER st with
  | none => .fail ARGON2_ENCODING_FAIL
  | some st =>
  match ss lit_m st with
  | none => .fail ARGON2_ENCODING_FAIL
  | some st =>
  match sx c.m_cost st with
  | none => .fail ARGON2_ENCODING_FAIL
  | some st =>
  match ss lit_t st with
  | none => .fail ARGON2_ENCODING_FAIL
  | some st =>
  match sx c.t_cost st with
  | none => .fail ARGON2_ENCODING_FAIL
  | some st =>
  match ss lit_p st with
  | none => .fail ARGON2_ENCODING_FAIL
  | some st =>
  match sx c.lanes st with
  | none => .fail ARGON2_ENCODING_FAIL
  | some st =>
  match ss lit_dollar st with
  | none => .fail ARGON2_ENCODING_FAIL
  | some st =>
  match sb salt st with
  | none => .misuse
  | some st =>
  match ss lit_dollar st with
  | none => .fail ARGON2_ENCODING_FAIL
  | some st =>
  match sb out st with
  | none => .misuse
  | some st => .ok st.1

/-- `argon2_encode_string(dst, dst_len, ctx, type)` -/
def argon2_encode_string (dstLen : Nat) (c : Context) (salt out : Bytes) (type : Argon2Type) : Enc :=
  match ss (type.tag ++ lit_v) ([], dstLen) with
  | none => .fail ARGON2_ENCODING_FAIL
  | some st =>
    let validation_result := argon2_validate_inputs c
    if validation_result ≠ ARGON2_OK then .fail validation_result else encodeTail c salt out st

/-! ### argon2.c: argon2_hash, argon2_verify -/

structure HashOut where
  rc : Int
  hash : Bytes := []        -- the tag (`out`, copied to `hash` when requested)
  encoded : Bytes := []     -- the C string written to `encoded` when requested
  misuse : Bool := false
  deriving DecidableEq, Repr

/-- `argon2_hash(t_cost, m_cost, parallelism, pwd, pwdlen, salt, saltlen, hash, hashlen, encoded,
    encodedlen, type)`; `pwdNull` = the caller passed a NULL password pointer;
    `encodedLen = 0` ⇔ no encoding requested (`encoded && encodedlen`).
    (The initial `randombytes_buf(hash, hashlen)` only matters on failure and is not modelled.) -/
def argon2_hash (P : Prims) (t_cost m_cost parallelism : Nat) (pwdNull : Bool) (pwd salt : Bytes)
    (hashlen : Nat) (encodedLen : Nat) (type : Argon2Type) : HashOut :=
  if pwd.length > ARGON2_MAX_PWD_LENGTH then { rc := ARGON2_PWD_TOO_LONG }
  else if hashlen > ARGON2_MAX_OUTLEN then { rc := ARGON2_OUTPUT_TOO_LONG }
  else if salt.length > ARGON2_MAX_SALT_LENGTH then { rc := ARGON2_SALT_TOO_LONG }
  else
    let c : Context :=
      { outlen := u32 hashlen, pwdNull := pwdNull, pwdlen := u32 pwd.length, saltlen := u32 salt.length,
        t_cost := t_cost, m_cost := m_cost, lanes := parallelism, threads := parallelism }
    let r := argon2_ctx P c pwd salt type
    if r.1 ≠ ARGON2_OK then { rc := r.1 }
    else if encodedLen ≠ 0 then
      match argon2_encode_string encodedLen c salt r.2 type with
      | .misuse => { rc := ARGON2_ENCODING_FAIL, misuse := true }
      | .fail _ => { rc := ARGON2_ENCODING_FAIL }
      | .ok s => { rc := ARGON2_OK, hash := r.2, encoded := s }
    else { rc := ARGON2_OK, hash := r.2 }

/-- `sodium_memcmp(a, b, len) != 0` on two buffers of the same length -/
def memNe (a b : Bytes) : Bool := a != b

/-- `argon2_verify(encoded, pwd, pwdlen, type)` -/
def argon2_verify (P : Prims) (encoded : Bytes) (pwdNull : Bool) (pwd : Bytes) (type : Argon2Type) : Int :=
  let encoded_len := encoded.length
  if encoded_len > UINT32_MAX then ARGON2_DECODING_LENGTH_FAIL else
  -- ctx.pwd = NULL, ctx.secret = NULL; ad/salt/out = malloc(encoded_len)
  let c0 : Context :=
    { outlen := encoded_len, pwdNull := true, pwdlen := 0, saltlen := encoded_len, adNull := false,
      adlen := encoded_len, t_cost := 0, m_cost := 0, lanes := 0, threads := 0 }
  match argon2_decode_string c0 encoded type with
  | (decode_result, none) => decode_result
  | (_, some d) =>
    let h := argon2_hash P d.t_cost d.m_cost d.lanes pwdNull pwd d.salt d.out.length 0 type
    if h.rc = ARGON2_OK ∧ memNe h.hash d.out then ARGON2_VERIFY_MISMATCH else h.rc

/-! ### pwhash_argon2i.c / pwhash_argon2id.c -/

structure Result where
  rc : Int
  errno : Nat := 0          -- 0: not set
  out : Bytes := []         -- meaningful when rc = 0 (on failure the C buffer holds zeros)
  misuse : Bool := false
  deriving DecidableEq, Repr

/-- `crypto_pwhash_argon2i` / `crypto_pwhash_argon2id` (the two functions differ only in OPSLIMIT_MIN,
    the accepted `alg` and the Argon2 type) -/
def crypto_pwhash_argon2 (P : Prims) (type : Argon2Type) (outlen : Nat) (passwd salt : Bytes)
    (opslimit memlimit : Nat) (alg : Int) : Result :=
  if outlen > BYTES_MAX then { rc := -1, errno := EFBIG }
  else if outlen < BYTES_MIN then { rc := -1, errno := EINVAL }
  else if passwd.length > PASSWD_MAX ∨ opslimit > OPSLIMIT_MAX ∨ memlimit > MEMLIMIT_MAX then
    { rc := -1, errno := EFBIG }
  else if passwd.length < PASSWD_MIN ∨ opslimit < type.opsMin ∨ memlimit < MEMLIMIT_MIN then
    { rc := -1, errno := EINVAL }
  else if alg ≠ type.alg then { rc := -1, errno := EINVAL }
  else
    let h := argon2_hash P (u32 opslimit) (u32 (memlimit / 1024)) 1 false passwd (salt.take SALTBYTES) outlen 0 type
    if h.rc ≠ ARGON2_OK then { rc := -1 } else { rc := 0, out := h.hash }

/-- `crypto_pwhash_argon2i_str` / `crypto_pwhash_argon2id_str`; `rnd` = the bytes `randombytes_buf`
    delivers for the salt. `out` is the whole 128-byte buffer. -/
def crypto_pwhash_argon2_str (P : Prims) (type : Argon2Type) (passwd : Bytes) (opslimit memlimit : Nat)
    (rnd : Bytes) : Result :=
  if passwd.length > PASSWD_MAX ∨ opslimit > OPSLIMIT_MAX ∨ memlimit > MEMLIMIT_MAX then
    { rc := -1, errno := EFBIG }
  else if passwd.length < PASSWD_MIN ∨ opslimit < type.opsMin ∨ memlimit < MEMLIMIT_MIN then
    { rc := -1, errno := EINVAL }
  else
    let salt := rnd.take SALTBYTES
    let h := argon2_hash P (u32 opslimit) (u32 (memlimit / 1024)) 1 false passwd salt STR_HASHBYTES STRBYTES type
    if h.misuse then { rc := -1, misuse := true }
    else if h.rc ≠ ARGON2_OK then { rc := -1 }
    else { rc := 0, out := h.encoded ++ zeros (STRBYTES - h.encoded.length) }

/-- the C string inside arbitrary bytes: everything before the first NUL -/
def cstr (s : Bytes) : Bytes := s.takeWhile (· != 0)

/-- `crypto_pwhash_argon2i_str_verify` / `crypto_pwhash_argon2id_str_verify` -/
def crypto_pwhash_argon2_str_verify (P : Prims) (type : Argon2Type) (str : Bytes) (passwd : Bytes) : Result :=
  if passwd.length > PASSWD_MAX then { rc := -1, errno := EFBIG }
  else if passwd.length < PASSWD_MIN then { rc := -1, errno := EINVAL }
  else
    let verify_ret := argon2_verify P (cstr str) false passwd type
    if verify_ret = ARGON2_OK then { rc := 0 }
    else if verify_ret = ARGON2_VERIFY_MISMATCH then { rc := -1, errno := EINVAL }
    else { rc := -1 }

/-- `_needs_rehash(str, opslimit, memlimit, type)` -/
def needs_rehash (str : Bytes) (opslimit memlimit : Nat) (type : Argon2Type) : Result :=
  let str := cstr str
  let fodder_len := str.length
  let memlimit := memlimit / 1024
  if opslimit > UINT32_MAX ∨ memlimit > UINT32_MAX ∨ fodder_len ≥ STRBYTES then { rc := -1, errno := EINVAL }
  else
    -- ctx.out = ctx.pwd = ctx.salt = fodder (calloc), ad = secret = NULL
    let c0 : Context :=
      { outlen := u32 fodder_len, pwdlen := u32 fodder_len, saltlen := u32 fodder_len,
        t_cost := 0, m_cost := 0, lanes := 0, threads := 0 }
    match argon2_decode_string c0 str type with
    | (_, none) => { rc := -1, errno := EINVAL }
    | (_, some d) =>
      if d.t_cost ≠ u32 opslimit ∨ d.m_cost ≠ u32 memlimit then { rc := 1 } else { rc := 0 }

/-! ### crypto_pwhash.c -/

def crypto_pwhash (P : Prims) (outlen : Nat) (passwd salt : Bytes) (opslimit memlimit : Nat) (alg : Int) : Result :=
  if alg = ALG_ARGON2I13 then crypto_pwhash_argon2 P .i outlen passwd salt opslimit memlimit alg
  else if alg = ALG_ARGON2ID13 then crypto_pwhash_argon2 P .id outlen passwd salt opslimit memlimit alg
  else { rc := -1, errno := EINVAL }

def crypto_pwhash_str (P : Prims) (passwd : Bytes) (opslimit memlimit : Nat) (rnd : Bytes) : Result :=
  crypto_pwhash_argon2_str P .id passwd opslimit memlimit rnd

def crypto_pwhash_str_alg (P : Prims) (passwd : Bytes) (opslimit memlimit : Nat) (alg : Int) (rnd : Bytes) : Result :=
  if alg = ALG_ARGON2I13 then crypto_pwhash_argon2_str P .i passwd opslimit memlimit rnd
  else if alg = ALG_ARGON2ID13 then crypto_pwhash_argon2_str P .id passwd opslimit memlimit rnd
  else { rc := -1, misuse := true }

/-- "$argon2id$" -/
def argon2id_STRPREFIX : Bytes := [36, 97, 114, 103, 111, 110, 50, 105, 100, 36]
/-- "$argon2i$" -/
def argon2i_STRPREFIX : Bytes := [36, 97, 114, 103, 111, 110, 50, 105, 36]

/-- `strncmp(str, prefix, sizeof prefix - 1) == 0` (the prefix contains no NUL) -/
def hasPrefix (pre str : Bytes) : Bool := pre.isPrefixOf (cstr str)

def crypto_pwhash_str_verify (P : Prims) (str passwd : Bytes) : Result :=
  if hasPrefix argon2id_STRPREFIX str then crypto_pwhash_argon2_str_verify P .id str passwd
  else if hasPrefix argon2i_STRPREFIX str then crypto_pwhash_argon2_str_verify P .i str passwd
  else { rc := -1, errno := EINVAL }

def crypto_pwhash_str_needs_rehash (str : Bytes) (opslimit memlimit : Nat) : Result :=
  if hasPrefix argon2id_STRPREFIX str then needs_rehash str opslimit memlimit .id
  else if hasPrefix argon2i_STRPREFIX str then needs_rehash str opslimit memlimit .i
  else { rc := -1, errno := EINVAL }

/-! ### scrypt: pwhash_scryptsalsa208sha256.c -/

def scrypt_BYTES_MIN : Nat := 16
def scrypt_BYTES_MAX : Nat := 0x1fffffffe0
def scrypt_SALTBYTES : Nat := 32
def scrypt_STRBYTES : Nat := 102
def scrypt_STRSETTINGBYTES : Nat := 57
def scrypt_STRSALTBYTES : Nat := 32
def scrypt_STRHASHBYTES : Nat := 32
def scrypt_STRHASHBYTES_ENCODED : Nat := 43

/-- `for (*N_log2 = 1; *N_log2 < 63; *N_log2 += 1) if ((uint64_t)(1) << *N_log2 > maxN / 2) break;`
    `pickNLoop fuel k` with `fuel = 63 - k` -/
def pickNLoop (maxN : Nat) : Nat → Nat → Nat
  | 0, k => k
  | fuel + 1, k => if 2 ^ k > maxN / 2 then k else pickNLoop maxN fuel (k + 1)

structure Params where
  N_log2 : Nat
  p : Nat
  r : Nat
  deriving DecidableEq, Repr

/-- `pickparams(opslimit, memlimit, &N_log2, &p, &r)` (always returns 0) -/
def pickparams (opslimit memlimit : Nat) : Params :=
  let opslimit := if opslimit < 32768 then 32768 else opslimit
  let r := 8
  if opslimit < memlimit / 32 then
    let maxN := opslimit / (r * 4)
    { N_log2 := pickNLoop maxN 62 1, p := 1, r := r }
  else
    let maxN := memlimit / (r * 128)
    let N_log2 := pickNLoop maxN 62 1
    let maxrp := (opslimit / 4) / 2 ^ N_log2
    let maxrp := if maxrp > 0x3fffffff then 0x3fffffff else maxrp
    { N_log2 := N_log2, p := u32 maxrp / r, r := r }

/-- `sodium_strnlen(str, maxlen)` on a buffer -/
def sodium_strnlen (str : Bytes) (maxlen : Nat) : Nat := ((str.take maxlen).takeWhile (· != 0)).length

/-! ### scrypt: crypto_scrypt-common.c -/

/-- "./0123456789ABCDEFGHIJKLMNOPQRSTUVWXYZabcdefghijklmnopqrstuvwxyz" -/
def itoa64 : Bytes :=
  [46, 47, 48, 49, 50, 51, 52, 53, 54, 55, 56, 57, 65, 66, 67, 68, 69, 70, 71, 72, 73, 74, 75, 76, 77, 78, 79, 80, 81, 82, 83, 84, 85, 86, 87, 88, 89, 90, 97, 98, 99, 100, 101, 102, 103, 104, 105, 106, 107, 108, 109, 110, 111, 112, 113, 114, 115, 116, 117, 118, 119, 120, 121, 122]

/-- `encode64_uint32(dst, dstlen, src, srcbits)`: `for (bit = 0; bit < srcbits; bit += 6)`;
    the first argument counts the iterations, `none` = `return NULL` -/
def encode64_uint32 : Nat → Nat → UInt32 → Option Bytes
  | 0, _, _ => some []
  | n + 1, dstlen, src =>
    if dstlen < 1 then none
    else match encode64_uint32 n (dstlen - 1) (src >>> 6) with
      | none => none
      | some r => some (itoa64.getD (src &&& 0x3f).toNat 0 :: r)

/-- `encode64(dst, dstlen, src, srclen)` -/
def encode64 : Nat → Bytes → Option Bytes
  | dstlen, a :: b :: c :: rest =>
    let value : UInt32 := a.toUInt32 ||| (b.toUInt32 <<< 8) ||| (c.toUInt32 <<< 16)
    match encode64_uint32 4 dstlen value with
    | none => none
    | some s => match encode64 (dstlen - 4) rest with
      | none => none
      | some t => some (s ++ t)
  | dstlen, [a, b] =>
    let value : UInt32 := a.toUInt32 ||| (b.toUInt32 <<< 8)
    encode64_uint32 3 dstlen value
  | dstlen, [a] => encode64_uint32 2 dstlen a.toUInt32
  | _, [] => some []

/-- `decode64_one(&dst, src)`: `strchr(itoa64, src)` — note that `strchr` finds the terminating NUL,
    so a NUL character decodes (successfully) as 64 -/
def decode64_one (src : UInt8) : Option UInt32 :=
  match (itoa64 ++ [0]).idxOf? src with
  | some i => some (UInt32.ofNat i)
  | none => none

/-- `decode64_uint32(&dst, dstbits, src)`; first argument = number of iterations, `bit` the shift.
    Reading past the end of the list = reading the terminating NUL. -/
def decode64_uint32 : Nat → UInt32 → Bytes → Option (UInt32 × Bytes)
  | 0, _, src => some (0, src)
  | n + 1, bit, src =>
    match decode64_one (src.headD 0) with
    | none => none
    | some one =>
      match decode64_uint32 n (bit + 6) (src.drop 1) with
      | none => none
      | some (v, rest) => some ((one <<< bit) ||| v, rest)

/-- `escrypt_parse_setting(setting, &N_log2, &r, &p)`: `(N_log2, r, p, rest)` or `none` (NULL).
    Reading past the end of the list = reading the terminating NUL. -/
def escrypt_parse_setting (setting : Bytes) : Option (UInt32 × UInt32 × UInt32 × Bytes) :=
  if setting.getD 0 0 ≠ 36 ∨ setting.getD 1 0 ≠ 55 ∨ setting.getD 2 0 ≠ 36 then none else
  let src := setting.drop 3
  match decode64_one (src.headD 0) with
  | none => none
  | some N_log2 =>
    match decode64_uint32 5 0 (src.drop 1) with
    | none => none
    | some (r, src) =>
      match decode64_uint32 5 0 src with
      | none => none
      | some (p, src) => some (N_log2, r, p, src)

/-- the parameter checks of `escrypt_kdf_sse` / `escrypt_kdf_nosse`, then the scrypt core -/
def escrypt_kdf (P : Prims) (passwd salt : Bytes) (N r p : Nat) (buflen : Nat) : Result :=
  if buflen > (2 ^ 32 - 1) * 32 then { rc := -1, errno := EFBIG }
  else if r * p ≥ 2 ^ 30 then { rc := -1, errno := EFBIG }
  else if N > UINT32_MAX then { rc := -1, errno := EFBIG }
  else if N &&& (N - 1) ≠ 0 ∨ N < 2 then { rc := -1, errno := EINVAL }
  else if r = 0 ∨ p = 0 then { rc := -1, errno := EINVAL }
  else if r > SIZE_MAX / 128 / p ∨ N > SIZE_MAX / 128 / r then { rc := -1, errno := ENOMEM }
  else { rc := 0, out := P.scrypt passwd salt N r p buflen }

/-- `strrchr(salt, '$')`: index of the last '$', if any -/
def lastDollar (s : Bytes) : Option Nat :=
  match s.reverse.idxOf? 36 with
  | some i => some (s.length - 1 - i)
  | none => none

/-- `escrypt_r(local, passwd, passwdlen, setting, buf, buflen)`: the C string written to `buf`, or
    `none` (NULL) -/
def escrypt_r (P : Prims) (passwd setting : Bytes) (buflen : Nat) : Option Bytes :=
  match escrypt_parse_setting setting with
  | none => none
  | some (N_log2, r, p, src) =>
    let N := 2 ^ N_log2.toNat            -- `(uint64_t) 1 << N_log2` (N_log2 ≤ 63 unless it was the NUL)
    let prefixlen := setting.length - src.length
    let salt := src
    let saltlen := match lastDollar salt with
      | some i => i
      | none => salt.length
    let need := prefixlen + saltlen + 1 + scrypt_STRHASHBYTES_ENCODED + 1
    if need > buflen ∨ need < saltlen then none else
    let k := escrypt_kdf P passwd (salt.take saltlen) N r.toNat p.toNat scrypt_STRHASHBYTES
    if k.rc ≠ 0 then none else
    match encode64 (buflen - (prefixlen + saltlen + 1)) k.out with
    | none => none
    | some h =>
      if prefixlen + saltlen + 1 + h.length ≥ buflen then none
      else some (setting.take (prefixlen + saltlen) ++ [36] ++ h)

/-- `escrypt_gensalt_r(N_log2, r, p, src, srclen, buf, buflen)` -/
def escrypt_gensalt_r (N_log2 r p : Nat) (src : Bytes) (buflen : Nat) : Option Bytes :=
  let prefixlen := 3 + 1 + 5 + 5
  let saltlen := (src.length * 8 + 5) / 6
  let need := prefixlen + saltlen + 1
  if need > buflen ∨ need < saltlen ∨ saltlen < src.length then none
  else if N_log2 > 63 ∨ r * p ≥ 2 ^ 30 then none
  else
    match encode64_uint32 5 (buflen - 4) (UInt32.ofNat r) with
    | none => none
    | some rs =>
      match encode64_uint32 5 (buflen - 9) (UInt32.ofNat p) with
      | none => none
      | some ps =>
        match encode64 (buflen - 14) src with
        | none => none
        | some ss =>
          if 14 + ss.length ≥ buflen then none
          else some ([36, 55, 36, itoa64.getD N_log2 0] ++ rs ++ ps ++ ss)

/-- `crypto_pwhash_scryptsalsa208sha256_ll(passwd, passwdlen, salt, saltlen, N, r, p, buf, buflen)` -/
def crypto_pwhash_scrypt_ll (P : Prims) (passwd salt : Bytes) (N r p : Nat) (buflen : Nat) : Result :=
  escrypt_kdf P passwd salt N r p buflen

/-- `crypto_pwhash_scryptsalsa208sha256(out, outlen, passwd, passwdlen, salt, opslimit, memlimit)` -/
def crypto_pwhash_scrypt (P : Prims) (outlen : Nat) (passwd salt : Bytes) (opslimit memlimit : Nat) : Result :=
  if passwd.length > SIZE_MAX ∨ outlen > scrypt_BYTES_MAX then { rc := -1, errno := EFBIG }
  else if outlen < scrypt_BYTES_MIN then { rc := -1, errno := EINVAL }
  else
    let pp := pickparams opslimit memlimit
    crypto_pwhash_scrypt_ll P passwd (salt.take scrypt_SALTBYTES) (2 ^ pp.N_log2) pp.r pp.p outlen

/-- `crypto_pwhash_scryptsalsa208sha256_str(out, passwd, passwdlen, opslimit, memlimit)`; `rnd` = the
    bytes `randombytes_buf` delivers for the salt; `out` = the whole 102-byte buffer -/
def crypto_pwhash_scrypt_str (P : Prims) (passwd : Bytes) (opslimit memlimit : Nat) (rnd : Bytes) : Result :=
  if passwd.length > SIZE_MAX then { rc := -1, errno := EFBIG } else
  let pp := pickparams opslimit memlimit
  let salt := rnd.take scrypt_STRSALTBYTES
  match escrypt_gensalt_r pp.N_log2 pp.r pp.p salt (scrypt_STRSETTINGBYTES + 1) with
  | none => { rc := -1, errno := EINVAL }
  | some setting =>
    match escrypt_r P passwd setting scrypt_STRBYTES with
    | none => { rc := -1, errno := EINVAL }
    | some s => { rc := 0, out := s ++ zeros (scrypt_STRBYTES - s.length) }

/-- `crypto_pwhash_scryptsalsa208sha256_str_verify(str, passwd, passwdlen)`. `str` is the caller's
    buffer (at least 102 readable bytes: shorter lists are read as NUL-padded). `rnd` = the 102 bytes
    with which `escrypt_r` pre-fills `wanted` (`randombytes_buf(buf, buflen)`): when the recomputed
    string is shorter than 101 characters the tail of `wanted` is random and takes part in the
    102-byte comparison. -/
def crypto_pwhash_scrypt_str_verify (P : Prims) (str passwd : Bytes) (rnd : Bytes) : Int :=
  let buf := (str ++ zeros scrypt_STRBYTES).take scrypt_STRBYTES
  if sodium_strnlen buf scrypt_STRBYTES ≠ scrypt_STRBYTES - 1 then -1 else
  match escrypt_r P passwd (cstr buf) scrypt_STRBYTES with
  | none => -1
  | some s =>
    let wanted := s ++ [0] ++ ((rnd ++ zeros scrypt_STRBYTES).take scrypt_STRBYTES).drop (s.length + 1)
    if memNe wanted buf then -1 else 0

/-- `crypto_pwhash_scryptsalsa208sha256_str_needs_rehash(str, opslimit, memlimit)` -/
def crypto_pwhash_scrypt_str_needs_rehash (str : Bytes) (opslimit memlimit : Nat) : Result :=
  let pp := pickparams opslimit memlimit
  let buf := (str ++ zeros scrypt_STRBYTES).take scrypt_STRBYTES
  if sodium_strnlen buf scrypt_STRBYTES ≠ scrypt_STRBYTES - 1 then { rc := -1, errno := EINVAL } else
  match escrypt_parse_setting (cstr buf) with
  | none => { rc := -1, errno := EINVAL }
  | some (N_log2_, r_, p_, _) =>
    if pp.N_log2 ≠ N_log2_.toNat ∨ pp.r ≠ r_.toNat ∨ pp.p ≠ p_.toNat then { rc := 1 } else { rc := 0 }

end Sodium.Model.Pwhash
