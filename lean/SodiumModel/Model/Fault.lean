import SodiumModel.Basic
/-
  Model of the allocation behaviour of the password-hashing front-ends and of sodium_malloc
  (argon2.c: argon2_hash / argon2_verify, argon2-core.c: argon2_initialize / allocate_memory /
  argon2_free_instance, pwhash_argon2i(d).c: *_str_needs_rehash, scrypt_platform.c + escrypt_kdf,
  utils.c: _sodium_malloc) as programs over an oracle `ok : Nat → Bool` telling whether the i-th
  allocation request (malloc / calloc / mmap, in program order) succeeds.
-/
namespace Sodium.Model.Fault

inductive Kind where | malloc | calloc | mmap deriving DecidableEq, Repr

inductive Ev where
  | alloc (k : Kind) (id : Nat)        -- request number `id` succeeded
  | failed (k : Kind) (id : Nat)       -- request number `id` failed
  | release (k : Kind) (id : Nat)      -- free / munmap of the block obtained by request `id`
  deriving DecidableEq, Repr

structure St where
  next : Nat := 0
  evs : List Ev := []       -- most recent first

abbrev M := StateM St

/-- issue the next allocation request -/
def request (ok : Nat → Bool) (k : Kind) : M (Option Nat) := fun s =>
  if ok s.next then (some s.next, { next := s.next + 1, evs := .alloc k s.next :: s.evs })
  else (none, { next := s.next + 1, evs := .failed k s.next :: s.evs })

/-- `free(p)` / `munmap` ; `free(NULL)` is a no-op -/
def release (k : Kind) : Option Nat → M Unit
  | none => pure ()
  | some id => fun s => ((), { s with evs := .release k id :: s.evs })

/-- argon2_ctx: argon2_initialize (pseudo_rands, region struct, mmap'ed memory), fill, argon2_finalize -/
def argon2Ctx (ok : Nat → Bool) : M Bool := do
  let pr ← request ok .malloc
  if pr.isNone then return false
  let rg ← request ok .malloc
  if rg.isNone then
    release .malloc pr              -- argon2_free_instance: free(pseudo_rands); free_memory(NULL)
    return false
  let mem ← request ok .mmap
  if mem.isNone then
    release .malloc rg              -- allocate_memory frees the region struct itself
    release .malloc pr
    return false
  -- fill_memory_blocks … argon2_finalize → argon2_free_instance
  release .malloc pr
  release .mmap mem
  release .malloc rg
  return true

/-- argon2_hash: `out = malloc(hashlen)`, argon2_ctx, `free(out)`; returns success -/
def argon2Hash (ok : Nat → Bool) : M Bool := do
  let out ← request ok .malloc
  if out.isNone then return false
  let r ← argon2Ctx ok
  release .malloc out
  return r

/-- argon2_verify(encoded, pwd): `matches` = whether the recomputed hash equals the stored one;
    returns 0 (match) / -1 -/
def argon2Verify (ok : Nat → Bool) (decodes «matches» : Bool) : M Int := do
  let ad ← request ok .malloc
  let salt ← request ok .malloc
  let o ← request ok .malloc
  if ad.isNone || salt.isNone || o.isNone then
    release .malloc ad; release .malloc salt; release .malloc o
    return -1
  let out ← request ok .malloc
  if out.isNone then
    release .malloc ad; release .malloc salt; release .malloc o
    return -1
  if !decodes then
    release .malloc ad; release .malloc salt; release .malloc o; release .malloc out
    return -1
  let r ← argon2Hash ok
  release .malloc ad; release .malloc salt
  release .malloc out; release .malloc o
  return (if r && «matches» then 0 else -1)

/-- crypto_pwhash (raw) and crypto_pwhash_str: 0 / -1 -/
def pwhash (ok : Nat → Bool) : M Int := do
  let r ← argon2Hash ok
  return (if r then 0 else -1)

/-- *_str_needs_rehash: `fodder = calloc(...)`; `res` = the answer when memory is available (0 / 1 / -1) -/
def needsRehash (ok : Nat → Bool) (res : Int) : M Int := do
  let f ← request ok .calloc
  if f.isNone then return -1
  release .calloc f
  return res

/-- scrypt (escrypt_kdf growing the local region once, escrypt_free_local); `matches` for str_verify -/
def scrypt (ok : Nat → Bool) («matches» : Bool) : M Int := do
  let m ← request ok .mmap
  if m.isNone then return -1
  release .mmap m
  return (if «matches» then 0 else -1)

/-- sodium_malloc: one mmap; the block stays live (returned to the caller) -/
def sodiumMalloc (ok : Nat → Bool) : M Int := do
  let m ← request ok .mmap
  return (if m.isNone then -1 else 0)

structure Run where
  rc : Int
  evs : List Ev           -- in program order

def run (p : M Int) : Run :=
  let r := p {}
  ⟨r.1, r.2.evs.reverse⟩

/-- blocks allocated and not yet released at the end of a run -/
def live (evs : List Ev) : List Nat :=
  evs.foldl (fun l e => match e with
    | .alloc _ id => id :: l
    | .release _ id => l.erase id
    | .failed _ _ => l) []

def anyFailed (evs : List Ev) : Bool := evs.any fun e => match e with | .failed _ _ => true | _ => false

/-- a release of a block that is not live (double free / free of a never-allocated block) -/
def badRelease (evs : List Ev) : Bool :=
  (evs.foldl (fun (acc : List Nat × Bool) e => match e with
    | .alloc _ id => (id :: acc.1, acc.2)
    | .release _ id => if acc.1.contains id then (acc.1.erase id, acc.2) else (acc.1, true)
    | .failed _ _ => acc) ([], false)).2

end Sodium.Model.Fault
