import SodiumModel.Model.Sign
import SodiumModel.Spec.Sha512
import SodiumModel.Spec.Ed25519
import SodiumModel.Spec.Scalar25519
/-
  The primitives of `Model.Sign.Ops` instantiated with the executable RFC 8032 specification
  (`Spec/Ed25519.lean`, `Spec/Sha512.lean`, `Spec/Scalar25519.lean`).  Used by the driver
  (`Driver/C06.lean`) to run the model of sign.c / open.c against the compiled library, and by
  `Properties/C06.lean` for the concrete deviation theorem.

  The group primitives are instantiated at the granularity of the C calls, so the quirk of
  the final check documented at `Spec.Ed25519.libsodiumCheckAccepts` is reproduced by the
  same mechanism as in the C code rather than by fiat: `p2ToP3` sets T := X·Y while keeping Z
  (a valid P3 needs T = X·Y/Z), `p3Sub` is the unified addition law applied to that T, and
  `hasSmallOrder` is the literal formula of `ge25519_has_small_order` (including the projective
  `-X` in its last disjunct).
-/
namespace Sodium.Model.Sign
open Sodium.Spec Sodium.Spec.F25519 Sodium.Spec.Ed25519

/-- `ge25519_has_small_order`, transcribed: recip = 1/Z; x = X·recip; y = Y·recip; x_neg = -X (sic);
    ret = iszero(x) | iszero(y) | iszero(y·sqrt(-1) - x) | iszero(y·sqrt(-1) - x_neg) -/
def hasSmallOrderC (P : Point) : Int32 :=
  let recip := inv P.Z
  let x := mul P.X recip
  let y := mul P.Y recip
  let xNeg := F25519.neg P.X
  let ySqrtm1 := mul y sqrtM1
  if isZero x || isZero y || isZero (F25519.sub ySqrtm1 x) || isZero (F25519.sub ySqrtm1 xNeg) then 1 else 0

def decodeRc (f : Point → Point) (b : Bytes) : Int32 × Point :=
  match decodeLax b with
  | none => (-1, identity)
  | some P => (0, f P)

/-- the primitives of `Model.Sign.Ops` over the executable specification -/
def specOps : Model.Sign.Ops Point Point where
  sha512 := Sha512.hash
  scReduce := Scalar.reduce64
  scMuladd := fun a b c => Scalar.encode (le (a.take 32) * le (b.take 32) + le (c.take 32))
  frombytesNegateVartime := decodeRc Ed25519.neg
  frombytes := decodeRc id
  hasSmallOrder := hasSmallOrderC
  doubleScalarmultVartime := fun a A b =>
    Ed25519.add (scalarMult (le (a.take 32)) A) (scalarMult (le (b.take 32)) basePoint)
  p2ToP3 := fun P => { P with T := mul P.X P.Y }
  p3Sub := Ed25519.sub
  scalarmultBase := fun a => scalarMult (le (a.take 32)) basePoint
  p3Tobytes := encode

end Sodium.Model.Sign
