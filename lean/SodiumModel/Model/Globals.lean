import SodiumModel.Basic
import SodiumModel.Model.Init
/-
  C19, Tie B — model of the shared (static-storage, non-const) objects of libsodium and of the
  accesses every function performs on them.

  The DATA (`Generated/Globals.lean`, emitted by tools_new/c2lean_globals.py from the clang AST of
  every .c file of the x86-64 build) is a `Table`:
    * `objs`  : every object with static storage duration whose type is not `const`
                (file-scope and function-static; `tls` = `_Thread_local`; `vol` = volatile/atomic;
                 `mutex` = its type is `pthread_mutex_t`);
    * `fns`   : every function from which an access to such an object is reachable, with its direct
                reads / writes and its calls (direct, through global function pointers, through the
                `implementation->field` tables — resolved to every candidate);
                every access / call carries its lock context inside the function (`LockCtx`) and
                whether it is executed only while the phase flag `initialized` (sodium/core.c) is 0
                (`initOnly`: it is lexically after `if (initialized != 0) { …; return 1; }`).

  The MODEL:
    * `Performs tbl pol f held e` : a call of function `f`, entered with the library lock held /
      not held, may perform the access event `e` (object, read/write, lock held at that point) once
      the phase flag is 1 — the transitive closure over the call graph, computed semantically as
      an inductive relation (no fuel, no bit masks);
    * an execution = an interleaving (`Interleaving`) of any number of threads, each running any
      sequence of exported API functions, each call contributing any list of the events it may
      perform;
    * `raceFreeAfterInit tbl : Bool` : the decidable check (reachability fixpoint over
      (function, lock held) nodes as a bit mask in a `Nat`, then one pass over the accesses).
-/
namespace Sodium.Model.Globals

/-- lock context of an access / call inside its function -/
inductive LockCtx where
  | inherit    -- no lock operation executed yet in this function: protected iff the caller holds the lock
  | held       -- after sodium_crit_enter / pthread_mutex_lock on every path
  | released   -- after sodium_crit_leave / pthread_mutex_unlock on some path
  deriving DecidableEq, Repr

/-- is the lock held at a point with context `c` in a function entered with `held`? -/
def LockCtx.eff : LockCtx → Bool → Bool
  | .inherit, h => h
  | .held, _ => true
  | .released, _ => false

structure Obj where
  key : String        -- `file:name`, `file:function:name` (function-static) or `name` (external linkage)
  file : String
  tls : Bool
  vol : Bool
  mutex : Bool
  deriving Repr

structure Access where
  obj : Nat           -- index into `Table.objs`
  write : Bool
  lock : LockCtx
  initOnly : Bool     -- only executed while `initialized == 0`
  deriving DecidableEq, Repr

structure Call where
  callee : Nat        -- index into `Table.fns`
  lock : LockCtx
  initOnly : Bool
  deriving DecidableEq, Repr

structure Fn where
  key : String
  api : Bool          -- declared SODIUM_EXPORT (default visibility): callable by the application
  accesses : List Access
  calls : List Call
  deriving Repr

structure Table where
  objs : List Obj
  fns : List Fn
  initFlag : Nat      -- index of sodium/core.c:initialized
  deriving Repr

/-- The named exceptions.  `allowObjs`: objects exempted as a whole; `exemptFns`: functions whose
    calls are outside the contract of "concurrent use after initialisation" (an execution of the model
    never enters them; their accesses are not performed). Each entry carries its reason. -/
structure Policy where
  allowObjs : List (String × String)
  exemptFns : List (String × String)

/-- The exceptions the code really has (see Properties/C19Globals.lean: every entry is necessary). -/
def policy : Policy where
  allowObjs := [
    ("randombytes/randombytes.c:implementation",
     "written without the lock by randombytes_init_if_needed, but only when it is NULL; sodium_init (randombytes_stir, under the lock) has made it non-NULL and only randombytes_set_implementation (exempt) stores to it afterwards"),
    ("randombytes/internal/randombytes_internal_random.c:global",
     "written by randombytes_internal_random_init / _stir (global.initialized, fd, getrandom_available, pid) when a thread's TLS stream is stirred for the first time: every thread stores the same values after the first stir under sodium_init; pid only stored when different (known_findings: concurrent first use)"),
    ("randombytes/sysrandom/randombytes_sysrandom.c:stream",
     "sysrandom state: written by randombytes_sysrandom_stir only when stream.initialized == 0, which sodium_init (under the lock) has ended; randombytes_close (exempt) resets it"),
    ("randombytes/internal/randombytes_internal_random.c:randombytes_internal_random_random_dev_open:devices",
     "function-static array of pointers to string literals, never stored to: `const char **device = devices` is counted as an escaping (writable) address by the translator"),
    ("randombytes/sysrandom/randombytes_sysrandom.c:randombytes_sysrandom_random_dev_open:devices",
     "as above")]
  exemptFns := [
    ("sodium_misuse",
     "abort path: only reached on API misuse, never returns (abort()); calls sodium_crit_leave without owning the lock (reads / writes `locked` unprotected, may unlock a mutex another thread holds) and runs the user handler with the lock held"),
    ("randombytes_set_implementation",
     "documented: must be called before sodium_init / before any other use; plain store to `implementation`"),
    ("randombytes_close",
     "documented as releasing the global resources of the generator: not to be called while other threads use it; resets the sysrandom / internal state without the lock")]

/-! ### semantic closure -/

/-- an access event as performed: object, read/write, whether the library lock is held -/
structure Eff where
  obj : Nat
  write : Bool
  locked : Bool
  deriving DecidableEq, Repr

def exemptFn (pol : Policy) (tbl : Table) (f : Nat) : Bool :=
  match tbl.fns[f]? with
  | some fn => (pol.exemptFns.map (·.1)).contains fn.key
  | none => false

/-- `Performs tbl pol f held e`: after initialisation a call of `f` (index), entered with the lock
    held iff `held`, may perform `e`.  Accesses and calls that only execute while `initialized == 0`
    are not performed; exempt functions are not entered. -/
inductive Performs (tbl : Table) (pol : Policy) : Nat → Bool → Eff → Prop where
  | here {f : Nat} {held : Bool} {fn : Fn} {a : Access} :
      tbl.fns[f]? = some fn → a ∈ fn.accesses → a.initOnly = false →
      Performs tbl pol f held ⟨a.obj, a.write, a.lock.eff held⟩
  | call {f : Nat} {held : Bool} {fn : Fn} {c : Call} {e : Eff} :
      tbl.fns[f]? = some fn → c ∈ fn.calls → c.initOnly = false → exemptFn pol tbl c.callee = false →
      Performs tbl pol c.callee (c.lock.eff held) e → Performs tbl pol f held e

/-- the functions an application thread may call: exported and not exempt -/
def isRoot (tbl : Table) (pol : Policy) (f : Nat) : Prop :=
  ∃ fn, tbl.fns[f]? = some fn ∧ fn.api = true ∧ exemptFn pol tbl f = false

structure Event where
  tid : Nat
  eff : Eff
  deriving DecidableEq, Repr

/-- the access events of one thread running the API calls `prog` in sequence (application threads
    do not hold the library lock between calls) -/
inductive ThreadRun (tbl : Table) (pol : Policy) : List Nat → List Eff → Prop where
  | nil : ThreadRun tbl pol [] []
  | call {f : Nat} {fs : List Nat} {evs rest : List Eff} :
      isRoot tbl pol f → (∀ e ∈ evs, Performs tbl pol f false e) → ThreadRun tbl pol fs rest →
      ThreadRun tbl pol (f :: fs) (evs ++ rest)

/-- `trace` is an interleaving of the threads `progs` (thread `t` runs `progs[t]`): its projection on
    every thread identifier is a run of that thread's program (no events from other identifiers) -/
def Interleaving (tbl : Table) (pol : Policy) (progs : List (List Nat)) (trace : List Event) : Prop :=
  ∀ t, ThreadRun tbl pol (progs.getD t []) ((trace.filter (fun e => e.tid == t)).map (·.eff))

/-- object-level exemptions: thread-local (every thread has its own instance), the mutex itself,
    or named in the allow-list -/
def objExempt (pol : Policy) (tbl : Table) (o : Nat) : Bool :=
  match tbl.objs[o]? with
  | some ob => ob.tls || ob.mutex || (pol.allowObjs.map (·.1)).contains ob.key
  | none => false

/-- a data race: two accesses of different threads to the same (non-exempt) object, at least one a
    write, not both under the library lock -/
def Race (pol : Policy) (tbl : Table) (e1 e2 : Event) : Prop :=
  e1.tid ≠ e2.tid ∧ e1.eff.obj = e2.eff.obj ∧ (e1.eff.write = true ∨ e2.eff.write = true) ∧
  objExempt pol tbl e1.eff.obj = false ∧ ¬ (e1.eff.locked = true ∧ e2.eff.locked = true)

/-! ### the combined system: the `sodium_init` lock protocol (Model/Init.lean) and API calls

  An action is a step of the initialisation protocol by thread `t`, or an access event of an API call
  made by thread `t`; the latter is only enabled once `t` has RETURNED from `sodium_init`
  ("after initialisation": the contract of the property).  API events do not change the protocol state. -/

inductive Act where
  | init (t : Nat)
  | api (t : Nat) (e : Eff)
  deriving DecidableEq, Repr

/-- thread `t` has returned from `sodium_init` -/
def hasReturned (s : Init.State) (t : Nat) : Bool :=
  match s.pcs[t]? with
  | some (.done _) => true
  | _ => false

def stepC (s : Init.State) : Act → Option Init.State
  | .init t => some (Init.step s t)
  | .api t _ => if hasReturned s t then some s else none

def runC (s : Init.State) : List Act → Option Init.State
  | [] => some s
  | a :: as => match stepC s a with
    | some s' => runC s' as
    | none => none

/-- the schedule of the initialisation protocol inside a combined execution -/
def schedOf (acts : List Act) : List Nat :=
  acts.filterMap fun a => match a with | .init t => some t | .api _ _ => none

/-- the API access events of a combined execution, in order -/
def apiEvents (acts : List Act) : List Event :=
  acts.filterMap fun a => match a with | .api t e => some ⟨t, e⟩ | .init _ => none

/-! ### the decidable check -/

def setBit (m k : Nat) : Nat := m ||| 2 ^ k

/-- node (function f, lock held on entry h) -/
def node (f : Nat) (h : Bool) : Nat := 2 * f + h.toNat

def exemptFnMask (pol : Policy) (tbl : Table) : Nat :=
  tbl.fns.zipIdx.foldl (fun m p => if (pol.exemptFns.map (·.1)).contains p.1.key then setBit m p.2 else m) 0

/-- successors of node (fn, h) -/
def succMask (ex : Nat) (fn : Fn) (h : Bool) : Nat :=
  fn.calls.foldl (fun m c => if !c.initOnly && !ex.testBit c.callee then setBit m (node c.callee (c.lock.eff h)) else m) 0

def fnStep (ex m : Nat) (fn : Fn) (i : Nat) : Nat :=
  (if m.testBit (node i false) then succMask ex fn false else 0) |||
  (if m.testBit (node i true) then succMask ex fn true else 0)

def stepMask (tbl : Table) (ex m : Nat) : Nat :=
  tbl.fns.zipIdx.foldl (fun acc p => acc ||| fnStep ex m p.1 p.2) m

def rootMask (tbl : Table) (ex : Nat) : Nat :=
  tbl.fns.zipIdx.foldl (fun m p => if p.1.api && !ex.testBit p.2 then setBit m (node p.2 false) else m) 0

def iterate (tbl : Table) (ex : Nat) : Nat → Nat → Nat
  | 0, m => m
  | fuel + 1, m => let m' := stepMask tbl ex m; if m' == m then m else iterate tbl ex fuel m'

/-- reachable (function, held) nodes after initialisation (64 rounds are far more than the depth of the
    call graph; `raceFreeAfterInit` checks that the result is a fixpoint) -/
def reachMask (tbl : Table) (ex : Nat) : Nat := iterate tbl ex 64 (rootMask tbl ex)

def fnWritten (fn : Fn) (r : Bool) : Nat :=
  fn.accesses.foldl (fun m a => if !a.initOnly && a.write && r then setBit m a.obj else m) 0

def fnUnlocked (fn : Fn) (rf rt : Bool) : Nat :=
  fn.accesses.foldl (fun m a => if !a.initOnly && ((rf && !a.lock.eff false) || (rt && !a.lock.eff true)) then setBit m a.obj else m) 0

/-- objects with a post-init write -/
def writtenMask (tbl : Table) (m : Nat) : Nat :=
  tbl.fns.zipIdx.foldl (fun acc p => acc ||| fnWritten p.1 (m.testBit (node p.2 false) || m.testBit (node p.2 true))) 0

/-- objects with a post-init access that is not under the lock -/
def unlockedMask (tbl : Table) (m : Nat) : Nat :=
  tbl.fns.zipIdx.foldl (fun acc p => acc ||| fnUnlocked p.1 (m.testBit (node p.2 false)) (m.testBit (node p.2 true))) 0

def objExemptMask (pol : Policy) (tbl : Table) : Nat :=
  tbl.objs.zipIdx.foldl (fun m p => if p.1.tls || p.1.mutex || (pol.allowObjs.map (·.1)).contains p.1.key then setBit m p.2 else m) 0

def raceFreeWith (pol : Policy) (tbl : Table) : Bool :=
  let ex := exemptFnMask pol tbl
  let r := reachMask tbl ex
  stepMask tbl ex r == r &&
  ((writtenMask tbl r &&& unlockedMask tbl r) ||| objExemptMask pol tbl) == objExemptMask pol tbl

/-- every object is thread-local (or the mutex), or has no write reachable after initialisation
    (written only under `sodium_init`, before `initialized := 1` is published under the lock), or
    all its post-init accesses are lock-protected, or it is a named exception -/
def raceFreeAfterInit (tbl : Table) : Bool := raceFreeWith policy tbl

/-! ### reporting helpers (used by `#eval` / the replay tool, not by the theorems) -/

def bitsOf (m n : Nat) : List Nat := (List.range n).filter m.testBit

/-- keys of the objects that fail the check under policy `pol` -/
def offenders (pol : Policy) (tbl : Table) : List String :=
  let ex := exemptFnMask pol tbl
  let r := reachMask tbl ex
  let bad := writtenMask tbl r &&& unlockedMask tbl r
  (tbl.objs.zipIdx.filter (fun p => bad.testBit p.2 && !objExempt pol tbl p.2)).map (·.1.key)

/-- for object `o`: the reachable functions with an unprotected access / a write (for the replay message) -/
def culprits (pol : Policy) (tbl : Table) (o : Nat) : List (String × String) :=
  let ex := exemptFnMask pol tbl
  let r := reachMask tbl ex
  (tbl.fns.zipIdx.flatMap fun p =>
    p.1.accesses.filterMap fun a =>
      if a.obj == o && !a.initOnly then
        let rf := r.testBit (node p.2 false); let rt := r.testBit (node p.2 true)
        if rf || rt then
          let unl := (rf && !a.lock.eff false) || (rt && !a.lock.eff true)
          some (p.1.key, (if a.write then "write" else "read") ++ (if unl then " unprotected" else " locked"))
        else none
      else none)

/-- the access events (object key, write, locked) a post-init call of the API function `name` may perform,
    computed from the reachability of that single root -/
def apiAccesses (pol : Policy) (tbl : Table) (name : String) : List (String × Bool × Bool) :=
  let ex := exemptFnMask pol tbl
  let root := tbl.fns.zipIdx.foldl (fun m p => if p.1.key == name then setBit m (node p.2 false) else m) 0
  let r := iterate tbl ex 64 root
  (tbl.fns.zipIdx.flatMap fun p =>
    [false, true].flatMap fun h =>
      if r.testBit (node p.2 h) then
        p.1.accesses.filterMap fun a =>
          if a.initOnly then none else some ((tbl.objs[a.obj]?.map (·.key)).getD "?", a.write, a.lock.eff h)
      else []).eraseDups

end Sodium.Model.Globals
