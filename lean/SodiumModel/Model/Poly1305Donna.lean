import SodiumModel.Basic
import SodiumModel.Model.Utils
import SodiumModel.Model.Hash
/-
  crypto_onetimeauth/poly1305/donna/poly1305_donna64.h, statement by statement.

  `unsigned long long` = UInt64 (wrapping).  `uint128_t` = a `Nat` that is reduced `% 2^128`
  after EVERY operation that the C performs in 128 bits (MUL, ADD, ADDLO); `SHR` and `LO`
  truncate to 64 bits exactly like the C casts `(unsigned long long)(in >> shift)` and
  `(unsigned long long)(in)`.  Nothing is assumed about the absence of overflow: that is a
  theorem (Proofs/Poly1305Donna.lean, `blocks_no_overflow`).

  The streaming part of the C (`leftover`, `buffer`, `final`, the `while (bytes >= 16)` loop) is
  the generic front-end `polyUpdate` / `polyFinish` of Model/Hash.lean; this file provides the
  state, `poly1305_init`, the body of the `poly1305_blocks` loop for one 16-byte block and the
  arithmetic part of `poly1305_finish`.  (In the C, r0 r1 r2 s1 s2 are loaded once before the
  loop and h0 h1 h2 are written back after it; doing that per block is the same function.)
-/
namespace Sodium.Model.Poly1305Donna
open Sodium Sodium.Model

/-- the arithmetic fields of `poly1305_state_internal_t` -/
structure State where
  r : UInt64 × UInt64 × UInt64
  h : UInt64 × UInt64 × UInt64
  pad : UInt64 × UInt64
deriving DecidableEq, Repr

/-! ### the macros on `uint128_t` -/

/- a `uint128_t` value is a `Nat`, always kept `< 2^128` by the operations below -/

/-- `MUL(out, x, y)  out = ((uint128_t) x * y)` -/
def MUL (x y : UInt64) : Nat := (x.toNat * y.toNat) % 2 ^ 128
/-- `ADD(out, in)  out += in` (128-bit) -/
def ADD (out inp : Nat) : Nat := (out + inp) % 2 ^ 128
/-- `ADDLO(out, in)  out += in` (128-bit += 64-bit) -/
def ADDLO (out : Nat) (inp : UInt64) : Nat := (out + inp.toNat) % 2 ^ 128
/-- `SHR(in, shift)  (unsigned long long) (in >> (shift))` -/
def SHR (inp : Nat) (shift : Nat) : UInt64 := UInt64.ofNat (inp >>> shift)
/-- `LO(in)  (unsigned long long) (in)` -/
def LO (inp : Nat) : UInt64 := UInt64.ofNat inp

/-- `LOAD64_LE(&b[off])` -/
def LOAD64_LE (b : Bytes) (off : Nat) : UInt64 := load64 (b.drop off)

/-! ### poly1305_init -/

def poly1305_init (key : Bytes) : State :=
  /- r &= 0xffffffc0ffffffc0ffffffc0fffffff -/
  let t0 := LOAD64_LE key 0
  let t1 := LOAD64_LE key 8
  let r0 := t0 &&& 0xffc0fffffff
  let r1 := ((t0 >>> 44) ||| (t1 <<< 20)) &&& 0xfffffc0ffff
  let r2 := (t1 >>> 24) &&& 0x00ffffffc0f
  /- h = 0; save pad for later -/
  { r := (r0, r1, r2), h := (0, 0, 0), pad := (LOAD64_LE key 16, LOAD64_LE key 24) }

/-! ### poly1305_blocks, one iteration of the `while (bytes >= 16)` loop.
  `hib = true` is `st->final == 0` (hibit = 1 << 40), `hib = false` is the padded last block. -/

def poly1305_blocks (st : State) (m : Bytes) (hib : Bool) : State :=
  let hibit : UInt64 := if hib then (1 : UInt64) <<< 40 else 0   /- 1 << 128 -/
  let r0 := st.r.1
  let r1 := st.r.2.1
  let r2 := st.r.2.2
  let h0 := st.h.1
  let h1 := st.h.2.1
  let h2 := st.h.2.2
  let s1 := r1 * ((5 : UInt64) <<< 2)
  let s2 := r2 * ((5 : UInt64) <<< 2)
  /- h += m[i] -/
  let t0 := LOAD64_LE m 0
  let t1 := LOAD64_LE m 8
  let h0 := h0 + (t0 &&& 0xfffffffffff)
  let h1 := h1 + (((t0 >>> 44) ||| (t1 <<< 20)) &&& 0xfffffffffff)
  let h2 := h2 + (((t1 >>> 24) &&& 0x3ffffffffff) ||| hibit)
  /- h *= r -/
  let d0 := MUL h0 r0
  let d := MUL h1 s2
  let d0 := ADD d0 d
  let d := MUL h2 s1
  let d0 := ADD d0 d
  let d1 := MUL h0 r1
  let d := MUL h1 r0
  let d1 := ADD d1 d
  let d := MUL h2 s2
  let d1 := ADD d1 d
  let d2 := MUL h0 r2
  let d := MUL h1 r1
  let d2 := ADD d2 d
  let d := MUL h2 r0
  let d2 := ADD d2 d
  /- (partial) h %= p -/
  let c := SHR d0 44
  let h0 := LO d0 &&& 0xfffffffffff
  let d1 := ADDLO d1 c
  let c := SHR d1 44
  let h1 := LO d1 &&& 0xfffffffffff
  let d2 := ADDLO d2 c
  let c := SHR d2 42
  let h2 := LO d2 &&& 0x3ffffffffff
  let h0 := h0 + c * 5
  let c := h0 >>> 44
  let h0 := h0 &&& 0xfffffffffff
  let h1 := h1 + c
  { st with h := (h0, h1, h2) }

/-! ### poly1305_finish after the remaining block has been processed: the full carry, the
  conditional subtraction of p, the addition of pad and the two 64-bit stores. -/

def poly1305_finish (st : State) : Bytes :=
  /- fully carry h -/
  let h0 := st.h.1
  let h1 := st.h.2.1
  let h2 := st.h.2.2
  let c := h1 >>> 44
  let h1 := h1 &&& 0xfffffffffff
  let h2 := h2 + c
  let c := h2 >>> 42
  let h2 := h2 &&& 0x3ffffffffff
  let h0 := h0 + c * 5
  let c := h0 >>> 44
  let h0 := h0 &&& 0xfffffffffff
  let h1 := h1 + c
  let c := h1 >>> 44
  let h1 := h1 &&& 0xfffffffffff
  let h2 := h2 + c
  let c := h2 >>> 42
  let h2 := h2 &&& 0x3ffffffffff
  let h0 := h0 + c * 5
  let c := h0 >>> 44
  let h0 := h0 &&& 0xfffffffffff
  let h1 := h1 + c
  /- compute h + -p -/
  let g0 := h0 + 5
  let c := g0 >>> 44
  let g0 := g0 &&& 0xfffffffffff
  let g1 := h1 + c
  let c := g1 >>> 44
  let g1 := g1 &&& 0xfffffffffff
  let g2 := h2 + c - ((1 : UInt64) <<< 42)
  /- select h if h < p, or h + -p if h >= p -/
  let mask := (g2 >>> 63) - 1          /- sizeof(unsigned long long) * 8 - 1 = 63 -/
  let g0 := g0 &&& mask
  let g1 := g1 &&& mask
  let g2 := g2 &&& mask
  let mask := ~~~mask
  let h0 := (h0 &&& mask) ||| g0
  let h1 := (h1 &&& mask) ||| g1
  let h2 := (h2 &&& mask) ||| g2
  /- h = (h + pad) -/
  let t0 := st.pad.1
  let t1 := st.pad.2
  let h0 := h0 + (t0 &&& 0xfffffffffff)
  let c := h0 >>> 44
  let h0 := h0 &&& 0xfffffffffff
  let h1 := h1 + ((((t0 >>> 44) ||| (t1 <<< 20)) &&& 0xfffffffffff) + c)
  let c := h1 >>> 44
  let h1 := h1 &&& 0xfffffffffff
  let h2 := h2 + (((t1 >>> 24) &&& 0x3ffffffffff) + c)
  let h2 := h2 &&& 0x3ffffffffff
  /- mac = h % (2^128) -/
  let h0 := h0 ||| (h1 <<< 44)
  let h1 := (h1 >>> 20) ||| (h2 <<< 24)
  store64 h0 ++ store64 h1

/-! ### the streaming API: the donna front-end of Model/Hash.lean over this block function -/

def init (key : Bytes) : PolyState State := ⟨poly1305_init key, []⟩
def update (s : PolyState State) (m : Bytes) : PolyState State := polyUpdate poly1305_blocks s m
def final (s : PolyState State) : Bytes := polyFinish poly1305_blocks poly1305_finish s

/-- crypto_onetimeauth_poly1305 with the message supplied in chunks -/
def macChunks (key : Bytes) (cs : List Bytes) : Bytes := final (cs.foldl update (init key))

/-- crypto_onetimeauth_poly1305 (one-shot) -/
def mac (key msg : Bytes) : Bytes := macChunks key [msg]

end Sodium.Model.Poly1305Donna

