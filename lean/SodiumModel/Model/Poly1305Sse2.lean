import SodiumModel.Basic
import SodiumModel.Model.Utils
import SodiumModel.Model.Blake2bSimdIntrin
import SodiumModel.Model.Poly1305Donna
/-
  crypto_onetimeauth/poly1305/sse2/poly1305_sse2.c, statement by statement: the implementation
  `crypto_onetimeauth_poly1305` selects on every x86-64 host with SSE2 (HAVE_TI_MODE, HAVE_EMMINTRIN_H,
  HAVE_AMD64_ASM are defined in this build).

  Part 1 adds the SSE2 intrinsics of that file that `Model/Blake2bSimdIntrin.lean` does not have, in
  the same style (`M128` = two 64-bit lanes; explicit 32-bit / 64-bit views; doc-comment = the Intel
  SDM / Intrinsics Guide "Operation").  THEY ARE TRUSTED BASE, validated against the CPU by
  `simdcheck/poly1305sse2/run.sh`.  Reused from Blake2bSimdIntrin: `M128` and its views,
  `_MM_SHUFFLE`, `_mm_add_epi64`, `_mm_srli_epi64`, `_mm_slli_epi64`, `_mm_shuffle_epi32`,
  `_mm_unpacklo_epi64`.

  Part 2 is the state and `poly1305_init_ext`; Part 3 `poly1305_blocks` (the 64-byte loop body is the
  C text in the C's statement order, 209 statements); Part 4 `poly1305_update`,
  `poly1305_finish_ext`, the one-shot function and `_verify`.

  Conventions.
  * `unsigned long long` / `uint64_t` = `UInt64` (wrapping), `uint32_t` = `UInt32`, `uint128_t` = a
    `Nat` reduced `% 2^128` after every operation (the `MUL`/`ADD`/`ADDLO`/`SHR`/`LO` of
    Model/Poly1305Donna.lean).  Nothing is assumed about the absence of overflow.
  * Byte counts (`bytes`, `leftover`, `inlen`) are `Nat`: they are lengths of the Lean lists that
    stand for the C buffers; `st->leftover` is the length of `buffer` (= `buffer[0 .. leftover)`, the
    bytes of `st->buffer` beyond `leftover` are never read).
  * a `const unsigned char *m` is the list of bytes starting at `m` (`m + k` = `m.drop k`; loads
    past the end read 0); `m == NULL` is `none`.
  * The union `H` (`uint64_t h[3]` / `uint32_t hh[10]`, 40 bytes) is five little-endian 64-bit words
    `w0 … w4`: `hh[2k] | hh[2k+1] << 32 = w_k`, `h[k] = w_k`.  A 16-byte load at `&hh[0]` is
    `⟨w0, w1⟩`, at `&hh[4]` is `⟨w2, w3⟩`, and at `&hh[8]` it is `⟨w4, R[0] | R[1] << 32⟩`: THE LOAD
    RUNS 8 BYTES PAST `H` INTO `R[0], R[1]` (the next struct member; in bounds of the struct). Only
    its low half is used.
  * `poly1305_init_ext` leaves `R2` (when `bytes <= 16`) and `R4` (when `bytes < 96`) UNWRITTEN; in
    the one-shot function `st` is an uninitialised automatic variable, and `poly1305_blocks`
    nevertheless loads `st->R2` (to compute R20 … S24, which are then unused).  The model carries
    the prior contents of the state as the argument `st` of `poly1305_init_ext`, and
    Properties/C04PolySse2.lean proves the tag does not depend on them (`sse2_mac_eq_spec`,
    `sse2_mac_junk_independent`).
  * `static volatile uint64_t optblocker_u64` is zero-initialised and never written; the model
    reads 0.
  * `poly1305_finish_ext`'s `addq/adcq` inline asm (HAVE_AMD64_ASM) is `adc64` of Model/Utils.lean.
-/
namespace Sodium.Model.Poly1305Sse2
open Sodium Sodium.Model
open Sodium.Model.Blake2bSimd (M128 _MM_SHUFFLE _mm_add_epi64 _mm_srli_epi64 _mm_slli_epi64
  _mm_shuffle_epi32 _mm_unpacklo_epi64)
open Sodium.Model.Poly1305Donna (MUL ADD ADDLO SHR LO)

/-! ## Part 1: the additional SSE2 intrinsics (trusted base) -/

/-- `_mm_setzero_si128()`: `dst[MAX:0] := 0` -/
@[inline] def _mm_setzero_si128 : M128 := M128.ofEpi64 fun _ => 0

/-- `_mm_cvtsi32_si128(a)`: `dst[31:0] := a[31:0]; dst[127:32] := 0` -/
@[inline] def _mm_cvtsi32_si128 (a : UInt32) : M128 := M128.ofEpi32 fun j => if j = 0 then a else 0

/-- `_mm_cvtsi128_si32(a)`: `dst[31:0] := a[31:0]` -/
@[inline] def _mm_cvtsi128_si32 (a : M128) : UInt32 := a.epi32 0

/-- `_mm_and_si128(a, b)`: `dst[127:0] := (a[127:0] AND b[127:0])` -/
@[inline] def _mm_and_si128 (a b : M128) : M128 := M128.ofEpi64 fun j => a.epi64 j &&& b.epi64 j

/-- `_mm_or_si128(a, b)`: `dst[127:0] := (a[127:0] OR b[127:0])` -/
@[inline] def _mm_or_si128 (a b : M128) : M128 := M128.ofEpi64 fun j => a.epi64 j ||| b.epi64 j

/-- `_mm_mul_epu32(a, b)`: `dst[63:0] := a[31:0] * b[31:0]; dst[127:64] := a[95:64] * b[95:64]`
    (PMULUDQ: the low unsigned 32-bit integer of each 64-bit element, 64-bit products) -/
@[inline] def _mm_mul_epu32 (a b : M128) : M128 :=
  M128.ofEpi64 fun j => (a.epi32 (2 * j)).toUInt64 * (b.epi32 (2 * j)).toUInt64

/-- `_mm_srli_si128(a, imm8)`: `tmp := imm8[7:0]; IF tmp > 15 tmp := 16 FI;
    dst[127:0] := a[127:0] >> (tmp*8)` (a 128-bit logical shift by bytes) -/
@[inline] def _mm_srli_si128 (a : M128) (imm8 : Nat) : M128 :=
  let tmp := if imm8 % 256 > 15 then 16 else imm8 % 256
  let v := (a.epi64 0).toNat + 2 ^ 64 * (a.epi64 1).toNat
  let s := v >>> (tmp * 8)
  M128.ofEpi64 fun j => UInt64.ofNat (s >>> (64 * j))

/-- `_mm_unpacklo_epi32(a, b)`: `dst[31:0] := a[31:0]; dst[63:32] := b[31:0];
    dst[95:64] := a[63:32]; dst[127:96] := b[63:32]` -/
@[inline] def _mm_unpacklo_epi32 (a b : M128) : M128 :=
  M128.ofEpi32 fun j => [a.epi32 0, b.epi32 0, a.epi32 1, b.epi32 1].getD j 0

/-- `_mm_unpackhi_epi32(a, b)`: `dst[31:0] := a[95:64]; dst[63:32] := b[95:64];
    dst[95:64] := a[127:96]; dst[127:96] := b[127:96]` -/
@[inline] def _mm_unpackhi_epi32 (a b : M128) : M128 :=
  M128.ofEpi32 fun j => [a.epi32 2, b.epi32 2, a.epi32 3, b.epi32 3].getD j 0

/-- `_mm_loadl_epi64((const __m128i *) m)`: `dst[63:0] := MEM[mem_addr+63:mem_addr]; dst[MAX:64] := 0`
    (`load64` = the little-endian value of the 8 bytes at `m`: the memory image of a register is
    little-endian) -/
@[inline] def _mm_loadl_epi64 (m : Bytes) : M128 := M128.ofEpi64 fun j => if j = 0 then load64 m else 0

/-- `_mm_loadu_si128((const __m128i *) m)` with `m` a byte pointer:
    `dst[127:0] := MEM[mem_addr+127:mem_addr]` -/
@[inline] def _mm_loadu_si128 (m : Bytes) : M128 := M128.ofEpi64 fun j => load64 (m.drop (8 * j))

/-- `_mm_loadu_si128((const __m128i *) &w[0])` with `w` a `uint32_t` array (`w0 … w3` = `w[0 … 3]`):
    on the little-endian x86 the 32-bit lanes of the result are `w[0] … w[3]` -/
@[inline] def _mm_loadu_si128_u32 (w0 w1 w2 w3 : UInt32) : M128 :=
  M128.ofEpi32 fun j => [w0, w1, w2, w3].getD j 0

/-- `_mm_storeu_si128((__m128i *) p, a)` with `p` pointing at two `uint64_t`:
    `MEM[mem_addr+127:mem_addr] := a[127:0]`; the two 64-bit words written -/
@[inline] def _mm_storeu_si128_u64 (a : M128) : UInt64 × UInt64 := (a.epi64 0, a.epi64 1)

/-- `_mm_storel_epi64((__m128i *) p, a)`: `MEM[mem_addr+63:mem_addr] := a[63:0]`; the 64-bit word written -/
@[inline] def _mm_storel_epi64_u64 (a : M128) : UInt64 := a.epi64 0

/-! ## Part 2: the state, `poly1305_init_ext` -/

/-- five 26-bit limbs (or five registers of limbs) -/
structure L5 (α : Type) where
  l0 : α
  l1 : α
  l2 : α
  l3 : α
  l4 : α
  deriving DecidableEq, Repr

/-- `enum poly1305_state_flags_t` -/
def poly1305_started : UInt64 := 1
def poly1305_final_shift8 : UInt64 := 4
def poly1305_final_shift16 : UInt64 := 8
/-- use [r^2,r] for the final block -/
def poly1305_final_r2_r : UInt64 := 16
/-- use [r,1] for the final block -/
def poly1305_final_r_1 : UInt64 := 32

/-- `#define poly1305_block_size 32` -/
def poly1305_block_size : Nat := 32

/-- `poly1305_state_internal_t` (`leftover` = `buffer.length`) -/
structure State where
  /-- `union { uint64_t h[3]; uint32_t hh[10]; } H` as five 64-bit words -/
  H : L5 UInt64
  R : L5 UInt32
  R2 : L5 UInt32
  R4 : L5 UInt32
  pad : UInt64 × UInt64
  flags : UInt64
  buffer : Bytes
  deriving DecidableEq, Repr

/-- the five assignments `R[0] = (uint32_t)(rt0) & 0x3ffffff; … R[4] = (uint32_t)((rt2 >> 16));` -/
def r_limbs (r0 r1 r2 : UInt64) : L5 UInt32 :=
  { l0 := r0.toUInt32 &&& 0x3ffffff
    l1 := ((r0 >>> 26) ||| (r1 <<< 18)).toUInt32 &&& 0x3ffffff
    l2 := (r1 >>> 8).toUInt32 &&& 0x3ffffff
    l3 := ((r1 >>> 34) ||| (r2 <<< 10)).toUInt32 &&& 0x3ffffff
    l4 := (r2 >>> 16).toUInt32 }

/-- the arithmetic of one pass of the `for (i = 0; i < 2; i++)` loop: `(rt0, rt1, rt2) := rt^2` -/
def r_square (rt0 rt1 rt2 : UInt64) : UInt64 × UInt64 × UInt64 :=
  let st2 := rt2 * ((5 : UInt64) <<< 2)
  let d0 := ADD (MUL rt0 rt0) (MUL (rt1 * 2) st2)
  let d1 := ADD (MUL rt2 st2) (MUL (rt0 * 2) rt1)
  let d2 := ADD (MUL rt1 rt1) (MUL (rt2 * 2) rt0)
  let rt0 := LO d0 &&& 0xfffffffffff
  let c := SHR d0 44
  let d1 := ADDLO d1 c
  let rt1 := LO d1 &&& 0xfffffffffff
  let c := SHR d1 44
  let d2 := ADDLO d2 c
  let rt2 := LO d2 &&& 0x3ffffffffff
  let c := SHR d2 42
  let rt0 := rt0 + c * 5
  let c := rt0 >>> 44
  let rt0 := rt0 &&& 0xfffffffffff
  let rt1 := rt1 + c
  let c := rt1 >>> 44
  let rt1 := rt1 &&& 0xfffffffffff
  let rt2 := rt2 + c /- even if rt2 overflows, it will still fit in rp4 safely, and is safe to multiply with -/
  (rt0, rt1, rt2)

/-- `poly1305_init_ext(st, key, bytes)`; `st` = the prior contents of `*st` -/
def poly1305_init_ext (st : State) (key : Bytes) (bytes : Nat) : State :=
  let bytes := if bytes = 0 then 2 ^ 64 - 1 else bytes      /- bytes = ~(unsigned long long) 0 -/
  /- H = 0 (the third 16-byte store also zeroes R[0], R[1], overwritten below) -/
  let H : L5 UInt64 := ⟨0, 0, 0, 0, 0⟩
  /- clamp key -/
  let t0 := load64 key
  let t1 := load64 (key.drop 8)
  let r0 := t0 &&& 0xffc0fffffff
  let t0 := t0 >>> 44
  let t0 := t0 ||| (t1 <<< 20)
  let r1 := t0 &&& 0xfffffc0ffff
  let t1 := t1 >>> 24
  let r2 := t1 &&& 0x00ffffffc0f
  /- r^1 -/
  let R := r_limbs r0 r1 r2
  /- save pad -/
  let pad := (load64 (key.drop 16), load64 (key.drop 24))
  /- r^2, r^4 -/
  let R24 : L5 UInt32 × L5 UInt32 :=
    if bytes ≤ 16 then (st.R2, st.R4)                          /- i == 0: break -/
    else
      let rt := r_square r0 r1 r2
      let R2 := r_limbs rt.1 rt.2.1 rt.2.2
      if bytes < 96 then (R2, st.R4)                           /- i == 1: break -/
      else
        let rt := r_square rt.1 rt.2.1 rt.2.2
        (R2, r_limbs rt.1 rt.2.1 rt.2.2)
  { H := H, R := R, R2 := R24.1, R4 := R24.2, pad := pad, flags := 0, buffer := [] }

/-! ## Part 3: `poly1305_blocks` -/

/-- the multiplier registers `R20 … R24, S21 … S24` (resp. `R40 … S44`) -/
structure Mult where
  R0 : M128
  R1 : M128
  R2 : M128
  R3 : M128
  R4 : M128
  S1 : M128
  S2 : M128
  S3 : M128
  S4 : M128

def HIBIT0 : M128 := _mm_shuffle_epi32 (_mm_cvtsi32_si128 ((1 : UInt32) <<< 24)) (_MM_SHUFFLE 1 0 1 0)
def MMASK : M128 := _mm_shuffle_epi32 (_mm_cvtsi32_si128 (((1 : UInt32) <<< 26) - 1)) (_MM_SHUFFLE 1 0 1 0)
def FIVE : M128 := _mm_shuffle_epi32 (_mm_cvtsi32_si128 5) (_MM_SHUFFLE 1 0 1 0)

/-- `H = [Mx,My]`: the first 32 bytes -/
def blocks_first (HIBIT : M128) (m : Bytes) : L5 M128 :=
  let T5 := _mm_unpacklo_epi64 (_mm_loadl_epi64 (m.drop 0)) (_mm_loadl_epi64 (m.drop 16))
  let T6 := _mm_unpacklo_epi64 (_mm_loadl_epi64 (m.drop 8)) (_mm_loadl_epi64 (m.drop 24))
  let H0 := _mm_and_si128 MMASK T5
  let H1 := _mm_and_si128 MMASK (_mm_srli_epi64 T5 26)
  let T5 := _mm_or_si128 (_mm_srli_epi64 T5 52) (_mm_slli_epi64 T6 12)
  let H2 := _mm_and_si128 MMASK T5
  let H3 := _mm_and_si128 MMASK (_mm_srli_epi64 T5 26)
  let H4 := _mm_srli_epi64 T6 40
  let H4 := _mm_or_si128 H4 HIBIT
  ⟨H0, H1, H2, H3, H4⟩

/-- the `else` branch: H0 … H4 from `st->H.hh[0 … 9]` -/
def blocks_load_H (st : State) : L5 M128 :=
  let T0 : M128 := M128.ofEpi64 fun j => [st.H.l0, st.H.l1].getD j 0          /- &st->H.hh[0] -/
  let T1 : M128 := M128.ofEpi64 fun j => [st.H.l2, st.H.l3].getD j 0          /- &st->H.hh[4] -/
  /- &st->H.hh[8]: hh[8], hh[9], R[0], R[1] -/
  let T2 : M128 := M128.ofEpi64 fun j =>
    [st.H.l4, st.R.l0.toUInt64 ||| (st.R.l1.toUInt64 <<< 32)].getD j 0
  let H0 := _mm_shuffle_epi32 T0 (_MM_SHUFFLE 1 1 0 0)
  let H1 := _mm_shuffle_epi32 T0 (_MM_SHUFFLE 3 3 2 2)
  let H2 := _mm_shuffle_epi32 T1 (_MM_SHUFFLE 1 1 0 0)
  let H3 := _mm_shuffle_epi32 T1 (_MM_SHUFFLE 3 3 2 2)
  let H4 := _mm_shuffle_epi32 T2 (_MM_SHUFFLE 1 1 0 0)
  ⟨H0, H1, H2, H3, H4⟩

/-- `S21 = _mm_mul_epu32(R21, FIVE); …` -/
def with_S (R20 R21 R22 R23 R24 : M128) : Mult :=
  let S21 := _mm_mul_epu32 R21 FIVE
  let S22 := _mm_mul_epu32 R22 FIVE
  let S23 := _mm_mul_epu32 R23 FIVE
  let S24 := _mm_mul_epu32 R24 FIVE
  ⟨R20, R21, R22, R23, R24, S21, S22, S23, S24⟩

/-- R20 … R24 in the three cases of `st->flags`, then S21 … S24 -/
def blocks_load_R2 (st : State) (flags : UInt64) : Mult :=
  if flags &&& (poly1305_final_r2_r ||| poly1305_final_r_1) ≠ 0 then
    if flags &&& poly1305_final_r2_r ≠ 0 then
      /- use [r^2, r] -/
      let T2 := _mm_loadu_si128_u32 st.R.l0 st.R.l1 st.R.l2 st.R.l3
      let T3 := _mm_cvtsi32_si128 st.R.l4
      let T0 := _mm_loadu_si128_u32 st.R2.l0 st.R2.l1 st.R2.l2 st.R2.l3
      let T1 := _mm_cvtsi32_si128 st.R2.l4
      let T4 := _mm_unpacklo_epi32 T0 T2
      let T5 := _mm_unpackhi_epi32 T0 T2
      let R24 := _mm_unpacklo_epi64 T1 T3
      let R20 := _mm_shuffle_epi32 T4 (_MM_SHUFFLE 1 1 0 0)
      let R21 := _mm_shuffle_epi32 T4 (_MM_SHUFFLE 3 3 2 2)
      let R22 := _mm_shuffle_epi32 T5 (_MM_SHUFFLE 1 1 0 0)
      let R23 := _mm_shuffle_epi32 T5 (_MM_SHUFFLE 3 3 2 2)
      with_S R20 R21 R22 R23 R24
    else
      /- use [r^1, 1] -/
      let T0 := _mm_loadu_si128_u32 st.R.l0 st.R.l1 st.R.l2 st.R.l3
      let T1 := _mm_cvtsi32_si128 st.R.l4
      let T2 := _mm_cvtsi32_si128 1
      let T4 := _mm_unpacklo_epi32 T0 T2
      let T5 := _mm_unpackhi_epi32 T0 T2
      let R24 := T1
      let R20 := _mm_shuffle_epi32 T4 (_MM_SHUFFLE 1 1 0 0)
      let R21 := _mm_shuffle_epi32 T4 (_MM_SHUFFLE 3 3 2 2)
      let R22 := _mm_shuffle_epi32 T5 (_MM_SHUFFLE 1 1 0 0)
      let R23 := _mm_shuffle_epi32 T5 (_MM_SHUFFLE 3 3 2 2)
      with_S R20 R21 R22 R23 R24
  else
    /- use [r^2, r^2] -/
    let T0 := _mm_loadu_si128_u32 st.R2.l0 st.R2.l1 st.R2.l2 st.R2.l3
    let T1 := _mm_cvtsi32_si128 st.R2.l4
    let R20 := _mm_shuffle_epi32 T0 (_MM_SHUFFLE 0 0 0 0)
    let R21 := _mm_shuffle_epi32 T0 (_MM_SHUFFLE 1 1 1 1)
    let R22 := _mm_shuffle_epi32 T0 (_MM_SHUFFLE 2 2 2 2)
    let R23 := _mm_shuffle_epi32 T0 (_MM_SHUFFLE 3 3 3 3)
    let R24 := _mm_shuffle_epi32 T1 (_MM_SHUFFLE 0 0 0 0)
    with_S R20 R21 R22 R23 R24

/-- R40 … R44, S41 … S44 (inside `if (bytes >= 64)`) -/
def blocks_load_R4 (st : State) : Mult :=
  let T0 := _mm_loadu_si128_u32 st.R4.l0 st.R4.l1 st.R4.l2 st.R4.l3
  let T1 := _mm_cvtsi32_si128 st.R4.l4
  let R40 := _mm_shuffle_epi32 T0 (_MM_SHUFFLE 0 0 0 0)
  let R41 := _mm_shuffle_epi32 T0 (_MM_SHUFFLE 1 1 1 1)
  let R42 := _mm_shuffle_epi32 T0 (_MM_SHUFFLE 2 2 2 2)
  let R43 := _mm_shuffle_epi32 T0 (_MM_SHUFFLE 3 3 3 3)
  let R44 := _mm_shuffle_epi32 T1 (_MM_SHUFFLE 0 0 0 0)
  with_S R40 R41 R42 R43 R44

/-- the body of `while (bytes >= 64)`, in the C's statement order:
    `H = (H*[r^4,r^4] + [Mx,My]*[r^2,r^2] + [Mx',My'])` -/
def blocks_main_body (HIBIT : M128) (K2 K4 : Mult) (H : L5 M128) (m : Bytes) : L5 M128 :=
  let H0 := H.l0
  let H1 := H.l1
  let H2 := H.l2
  let H3 := H.l3
  let H4 := H.l4
  let R20 := K2.R0
  let R21 := K2.R1
  let R22 := K2.R2
  let R23 := K2.R3
  let R24 := K2.R4
  let S21 := K2.S1
  let S22 := K2.S2
  let S23 := K2.S3
  let S24 := K2.S4
  let R40 := K4.R0
  let R41 := K4.R1
  let R42 := K4.R2
  let R43 := K4.R3
  let R44 := K4.R4
  let S41 := K4.S1
  let S42 := K4.S2
  let S43 := K4.S3
  let S44 := K4.S4
  let T15 := S42
  let T0 := H4
  let T0 := _mm_mul_epu32 T0 S41
  let v01 := H3
  let v01 := _mm_mul_epu32 v01 T15
  let T14 := S43
  let T1 := H4
  let T1 := _mm_mul_epu32 T1 T15
  let v11 := H3
  let v11 := _mm_mul_epu32 v11 T14
  let T2 := H4
  let T2 := _mm_mul_epu32 T2 T14
  let T0 := _mm_add_epi64 T0 v01
  let T15 := S44
  let v02 := H2
  let v02 := _mm_mul_epu32 v02 T14
  let T3 := H4
  let T3 := _mm_mul_epu32 T3 T15
  let T1 := _mm_add_epi64 T1 v11
  let v03 := H1
  let v03 := _mm_mul_epu32 v03 T15
  let v12 := H2
  let v12 := _mm_mul_epu32 v12 T15
  let T0 := _mm_add_epi64 T0 v02
  let T14 := R40
  let v21 := H3
  let v21 := _mm_mul_epu32 v21 T15
  let v31 := H3
  let v31 := _mm_mul_epu32 v31 T14
  let T0 := _mm_add_epi64 T0 v03
  let T4 := H4
  let T4 := _mm_mul_epu32 T4 T14
  let T1 := _mm_add_epi64 T1 v12
  let v04 := H0
  let v04 := _mm_mul_epu32 v04 T14
  let T2 := _mm_add_epi64 T2 v21
  let v13 := H1
  let v13 := _mm_mul_epu32 v13 T14
  let T3 := _mm_add_epi64 T3 v31
  let T15 := R41
  let v22 := H2
  let v22 := _mm_mul_epu32 v22 T14
  let v32 := H2
  let v32 := _mm_mul_epu32 v32 T15
  let T0 := _mm_add_epi64 T0 v04
  let v41 := H3
  let v41 := _mm_mul_epu32 v41 T15
  let T1 := _mm_add_epi64 T1 v13
  let v14 := H0
  let v14 := _mm_mul_epu32 v14 T15
  let T2 := _mm_add_epi64 T2 v22
  let T14 := R42
  let T5 := _mm_unpacklo_epi64 (_mm_loadl_epi64 (m.drop 0)) (_mm_loadl_epi64 (m.drop 16))
  let v23 := H1
  let v23 := _mm_mul_epu32 v23 T15
  let T3 := _mm_add_epi64 T3 v32
  let v33 := H1
  let v33 := _mm_mul_epu32 v33 T14
  let T4 := _mm_add_epi64 T4 v41
  let v42 := H2
  let v42 := _mm_mul_epu32 v42 T14
  let T1 := _mm_add_epi64 T1 v14
  let T15 := R43
  let T6 := _mm_unpacklo_epi64 (_mm_loadl_epi64 (m.drop 8)) (_mm_loadl_epi64 (m.drop 24))
  let v24 := H0
  let v24 := _mm_mul_epu32 v24 T14
  let T2 := _mm_add_epi64 T2 v23
  let v34 := H0
  let v34 := _mm_mul_epu32 v34 T15
  let T3 := _mm_add_epi64 T3 v33
  let M0 := _mm_and_si128 MMASK T5
  let v43 := H1
  let v43 := _mm_mul_epu32 v43 T15
  let T4 := _mm_add_epi64 T4 v42
  let M1 := _mm_and_si128 MMASK (_mm_srli_epi64 T5 26)
  let v44 := H0
  let v44 := _mm_mul_epu32 v44 R44
  let T2 := _mm_add_epi64 T2 v24
  let T5 := _mm_or_si128 (_mm_srli_epi64 T5 52) (_mm_slli_epi64 T6 12)
  let T3 := _mm_add_epi64 T3 v34
  let M3 := _mm_and_si128 MMASK (_mm_srli_epi64 T6 14)
  let T4 := _mm_add_epi64 T4 v43
  let M2 := _mm_and_si128 MMASK T5
  let T4 := _mm_add_epi64 T4 v44
  let M4 := _mm_or_si128 (_mm_srli_epi64 T6 40) HIBIT
  let T5 := _mm_loadu_si128 (m.drop 32)
  let T6 := _mm_loadu_si128 (m.drop 48)
  let T7 := _mm_unpacklo_epi32 T5 T6
  let T8 := _mm_unpackhi_epi32 T5 T6
  let M5 := _mm_unpacklo_epi32 T7 _mm_setzero_si128
  let M6 := _mm_unpackhi_epi32 T7 _mm_setzero_si128
  let M7 := _mm_unpacklo_epi32 T8 _mm_setzero_si128
  let M8 := _mm_unpackhi_epi32 T8 _mm_setzero_si128
  let M6 := _mm_slli_epi64 M6 6
  let M7 := _mm_slli_epi64 M7 12
  let M8 := _mm_slli_epi64 M8 18
  let T0 := _mm_add_epi64 T0 M5
  let T1 := _mm_add_epi64 T1 M6
  let T2 := _mm_add_epi64 T2 M7
  let T3 := _mm_add_epi64 T3 M8
  let T4 := _mm_add_epi64 T4 HIBIT
  let T15 := S22
  let v00 := M4
  let v00 := _mm_mul_epu32 v00 S21
  let v01 := M3
  let v01 := _mm_mul_epu32 v01 T15
  let T14 := S23
  let v10 := M4
  let v10 := _mm_mul_epu32 v10 T15
  let v11 := M3
  let v11 := _mm_mul_epu32 v11 T14
  let T0 := _mm_add_epi64 T0 v00
  let v20 := M4
  let v20 := _mm_mul_epu32 v20 T14
  let T0 := _mm_add_epi64 T0 v01
  let T15 := S24
  let v02 := M2
  let v02 := _mm_mul_epu32 v02 T14
  let T1 := _mm_add_epi64 T1 v10
  let v30 := M4
  let v30 := _mm_mul_epu32 v30 T15
  let T1 := _mm_add_epi64 T1 v11
  let v03 := M1
  let v03 := _mm_mul_epu32 v03 T15
  let T2 := _mm_add_epi64 T2 v20
  let v12 := M2
  let v12 := _mm_mul_epu32 v12 T15
  let T0 := _mm_add_epi64 T0 v02
  let T14 := R20
  let v21 := M3
  let v21 := _mm_mul_epu32 v21 T15
  let T3 := _mm_add_epi64 T3 v30
  let v31 := M3
  let v31 := _mm_mul_epu32 v31 T14
  let T0 := _mm_add_epi64 T0 v03
  let v40 := M4
  let v40 := _mm_mul_epu32 v40 T14
  let T1 := _mm_add_epi64 T1 v12
  let v04 := M0
  let v04 := _mm_mul_epu32 v04 T14
  let T2 := _mm_add_epi64 T2 v21
  let v13 := M1
  let v13 := _mm_mul_epu32 v13 T14
  let T3 := _mm_add_epi64 T3 v31
  let T15 := R21
  let v22 := M2
  let v22 := _mm_mul_epu32 v22 T14
  let T4 := _mm_add_epi64 T4 v40
  let v32 := M2
  let v32 := _mm_mul_epu32 v32 T15
  let T0 := _mm_add_epi64 T0 v04
  let v41 := M3
  let v41 := _mm_mul_epu32 v41 T15
  let T1 := _mm_add_epi64 T1 v13
  let v14 := M0
  let v14 := _mm_mul_epu32 v14 T15
  let T2 := _mm_add_epi64 T2 v22
  let T14 := R22
  let v23 := M1
  let v23 := _mm_mul_epu32 v23 T15
  let T3 := _mm_add_epi64 T3 v32
  let v33 := M1
  let v33 := _mm_mul_epu32 v33 T14
  let T4 := _mm_add_epi64 T4 v41
  let v42 := M2
  let v42 := _mm_mul_epu32 v42 T14
  let T1 := _mm_add_epi64 T1 v14
  let T15 := R23
  let v24 := M0
  let v24 := _mm_mul_epu32 v24 T14
  let T2 := _mm_add_epi64 T2 v23
  let v34 := M0
  let v34 := _mm_mul_epu32 v34 T15
  let T3 := _mm_add_epi64 T3 v33
  let v43 := M1
  let v43 := _mm_mul_epu32 v43 T15
  let T4 := _mm_add_epi64 T4 v42
  let v44 := M0
  let v44 := _mm_mul_epu32 v44 R24
  let T2 := _mm_add_epi64 T2 v24
  let T3 := _mm_add_epi64 T3 v34
  let T4 := _mm_add_epi64 T4 v43
  let T4 := _mm_add_epi64 T4 v44
  let C1 := _mm_srli_epi64 T0 26
  let C2 := _mm_srli_epi64 T3 26
  let T0 := _mm_and_si128 T0 MMASK
  let T3 := _mm_and_si128 T3 MMASK
  let T1 := _mm_add_epi64 T1 C1
  let T4 := _mm_add_epi64 T4 C2
  let C1 := _mm_srli_epi64 T1 26
  let C2 := _mm_srli_epi64 T4 26
  let T1 := _mm_and_si128 T1 MMASK
  let T4 := _mm_and_si128 T4 MMASK
  let T2 := _mm_add_epi64 T2 C1
  let T0 := _mm_add_epi64 T0 (_mm_mul_epu32 C2 FIVE)
  let C1 := _mm_srli_epi64 T2 26
  let C2 := _mm_srli_epi64 T0 26
  let T2 := _mm_and_si128 T2 MMASK
  let T0 := _mm_and_si128 T0 MMASK
  let T3 := _mm_add_epi64 T3 C1
  let T1 := _mm_add_epi64 T1 C2
  let C1 := _mm_srli_epi64 T3 26
  let T3 := _mm_and_si128 T3 MMASK
  let T4 := _mm_add_epi64 T4 C1
  let H0 := T0
  let H1 := T1
  let H2 := T2
  let H3 := T3
  let H4 := T4
  ⟨H0, H1, H2, H3, H4⟩

/-- `while (bytes >= 64) { …; m += 64; bytes -= 64; }` (fuel = an upper bound on the iterations) -/
def blocks_main_loop (HIBIT : M128) (K2 K4 : Mult) : Nat → L5 M128 → Bytes → Nat → L5 M128 × Bytes × Nat
  | 0, H, m, bytes => (H, m, bytes)
  | fuel + 1, H, m, bytes =>
    if bytes ≥ 64 then blocks_main_loop HIBIT K2 K4 fuel (blocks_main_body HIBIT K2 K4 H m) (m.drop 64) (bytes - 64)
    else (H, m, bytes)

/-- `H *= [r^2,r^2]` of the `if (bytes >= 32)` block (T0 … T4 before the message is added) -/
def blocks_tail_mul (K2 : Mult) (H : L5 M128) : L5 M128 :=
  let H0 := H.l0
  let H1 := H.l1
  let H2 := H.l2
  let H3 := H.l3
  let H4 := H.l4
  let R20 := K2.R0
  let R21 := K2.R1
  let R22 := K2.R2
  let R23 := K2.R3
  let R24 := K2.R4
  let S21 := K2.S1
  let S22 := K2.S2
  let S23 := K2.S3
  let S24 := K2.S4
  let T15 := S22
  let T0 := H4
  let T0 := _mm_mul_epu32 T0 S21
  let v01 := H3
  let v01 := _mm_mul_epu32 v01 T15
  let T14 := S23
  let T1 := H4
  let T1 := _mm_mul_epu32 T1 T15
  let v11 := H3
  let v11 := _mm_mul_epu32 v11 T14
  let T2 := H4
  let T2 := _mm_mul_epu32 T2 T14
  let T0 := _mm_add_epi64 T0 v01
  let T15 := S24
  let v02 := H2
  let v02 := _mm_mul_epu32 v02 T14
  let T3 := H4
  let T3 := _mm_mul_epu32 T3 T15
  let T1 := _mm_add_epi64 T1 v11
  let v03 := H1
  let v03 := _mm_mul_epu32 v03 T15
  let v12 := H2
  let v12 := _mm_mul_epu32 v12 T15
  let T0 := _mm_add_epi64 T0 v02
  let T14 := R20
  let v21 := H3
  let v21 := _mm_mul_epu32 v21 T15
  let v31 := H3
  let v31 := _mm_mul_epu32 v31 T14
  let T0 := _mm_add_epi64 T0 v03
  let T4 := H4
  let T4 := _mm_mul_epu32 T4 T14
  let T1 := _mm_add_epi64 T1 v12
  let v04 := H0
  let v04 := _mm_mul_epu32 v04 T14
  let T2 := _mm_add_epi64 T2 v21
  let v13 := H1
  let v13 := _mm_mul_epu32 v13 T14
  let T3 := _mm_add_epi64 T3 v31
  let T15 := R21
  let v22 := H2
  let v22 := _mm_mul_epu32 v22 T14
  let v32 := H2
  let v32 := _mm_mul_epu32 v32 T15
  let T0 := _mm_add_epi64 T0 v04
  let v41 := H3
  let v41 := _mm_mul_epu32 v41 T15
  let T1 := _mm_add_epi64 T1 v13
  let v14 := H0
  let v14 := _mm_mul_epu32 v14 T15
  let T2 := _mm_add_epi64 T2 v22
  let T14 := R22
  let v23 := H1
  let v23 := _mm_mul_epu32 v23 T15
  let T3 := _mm_add_epi64 T3 v32
  let v33 := H1
  let v33 := _mm_mul_epu32 v33 T14
  let T4 := _mm_add_epi64 T4 v41
  let v42 := H2
  let v42 := _mm_mul_epu32 v42 T14
  let T1 := _mm_add_epi64 T1 v14
  let T15 := R23
  let v24 := H0
  let v24 := _mm_mul_epu32 v24 T14
  let T2 := _mm_add_epi64 T2 v23
  let v34 := H0
  let v34 := _mm_mul_epu32 v34 T15
  let T3 := _mm_add_epi64 T3 v33
  let v43 := H1
  let v43 := _mm_mul_epu32 v43 T15
  let T4 := _mm_add_epi64 T4 v42
  let v44 := H0
  let v44 := _mm_mul_epu32 v44 R24
  let T2 := _mm_add_epi64 T2 v24
  let T3 := _mm_add_epi64 T3 v34
  let T4 := _mm_add_epi64 T4 v43
  let T4 := _mm_add_epi64 T4 v44
  ⟨T0, T1, T2, T3, T4⟩

/-- `H += [Mx,My]` (`if (m) { … }`) -/
def blocks_tail_add (HIBIT : M128) (T : L5 M128) (m : Option Bytes) : L5 M128 :=
  let T0 := T.l0
  let T1 := T.l1
  let T2 := T.l2
  let T3 := T.l3
  let T4 := T.l4
  match m with
  | some m =>
    let T5 := _mm_loadu_si128 (m.drop 0)
    let T6 := _mm_loadu_si128 (m.drop 16)
    let T7 := _mm_unpacklo_epi32 T5 T6
    let T8 := _mm_unpackhi_epi32 T5 T6
    let M0 := _mm_unpacklo_epi32 T7 _mm_setzero_si128
    let M1 := _mm_unpackhi_epi32 T7 _mm_setzero_si128
    let M2 := _mm_unpacklo_epi32 T8 _mm_setzero_si128
    let M3 := _mm_unpackhi_epi32 T8 _mm_setzero_si128
    let M1 := _mm_slli_epi64 M1 6
    let M2 := _mm_slli_epi64 M2 12
    let M3 := _mm_slli_epi64 M3 18
    let T0 := _mm_add_epi64 T0 M0
    let T1 := _mm_add_epi64 T1 M1
    let T2 := _mm_add_epi64 T2 M2
    let T3 := _mm_add_epi64 T3 M3
    let T4 := _mm_add_epi64 T4 HIBIT
    ⟨T0, T1, T2, T3, T4⟩
  | none => ⟨T0, T1, T2, T3, T4⟩

/-- `reduce` -/
def blocks_reduce (T : L5 M128) : L5 M128 :=
  let T0 := T.l0
  let T1 := T.l1
  let T2 := T.l2
  let T3 := T.l3
  let T4 := T.l4
  let C1 := _mm_srli_epi64 T0 26
  let C2 := _mm_srli_epi64 T3 26
  let T0 := _mm_and_si128 T0 MMASK
  let T3 := _mm_and_si128 T3 MMASK
  let T1 := _mm_add_epi64 T1 C1
  let T4 := _mm_add_epi64 T4 C2
  let C1 := _mm_srli_epi64 T1 26
  let C2 := _mm_srli_epi64 T4 26
  let T1 := _mm_and_si128 T1 MMASK
  let T4 := _mm_and_si128 T4 MMASK
  let T2 := _mm_add_epi64 T2 C1
  let T0 := _mm_add_epi64 T0 (_mm_mul_epu32 C2 FIVE)
  let C1 := _mm_srli_epi64 T2 26
  let C2 := _mm_srli_epi64 T0 26
  let T2 := _mm_and_si128 T2 MMASK
  let T0 := _mm_and_si128 T0 MMASK
  let T3 := _mm_add_epi64 T3 C1
  let T1 := _mm_add_epi64 T1 C2
  let C1 := _mm_srli_epi64 T3 26
  let T3 := _mm_and_si128 T3 MMASK
  let T4 := _mm_add_epi64 T4 C1
  let H0 := T0
  let H1 := T1
  let H2 := T2
  let H3 := T3
  let H4 := T4
  ⟨H0, H1, H2, H3, H4⟩

/-- the `if (bytes >= 32) { … }` block: `H = (H*[r^2,r^2] + [Mx,My])` -/
def blocks_tail (HIBIT : M128) (K2 : Mult) (H : L5 M128) (m : Option Bytes) : L5 M128 :=
  blocks_reduce (blocks_tail_add HIBIT (blocks_tail_mul K2 H) m)

/-- `if (m) { … }`: the two lanes of H0 … H4 are stored in `st->H.hh[0 … 9]` -/
def blocks_store_H (H : L5 M128) : L5 UInt64 :=
  let T0 := _mm_shuffle_epi32 H.l0 (_MM_SHUFFLE 0 0 2 0)
  let T1 := _mm_shuffle_epi32 H.l1 (_MM_SHUFFLE 0 0 2 0)
  let T2 := _mm_shuffle_epi32 H.l2 (_MM_SHUFFLE 0 0 2 0)
  let T3 := _mm_shuffle_epi32 H.l3 (_MM_SHUFFLE 0 0 2 0)
  let T4 := _mm_shuffle_epi32 H.l4 (_MM_SHUFFLE 0 0 2 0)
  let T0 := _mm_unpacklo_epi64 T0 T1
  let T1 := _mm_unpacklo_epi64 T2 T3
  let w01 := _mm_storeu_si128_u64 T0         /- &st->H.hh[0] -/
  let w23 := _mm_storeu_si128_u64 T1         /- &st->H.hh[4] -/
  let w4 := _mm_storel_epi64_u64 T4          /- &st->H.hh[8] -/
  ⟨w01.1, w01.2, w23.1, w23.2, w4⟩

/-- `static volatile uint64_t optblocker_u64;` (zero-initialised, never written) -/
def optblocker_u64 : UInt64 := 0

/-- `else { … }` (`m == NULL`): `H = H[0]+H[1]`, the full carry, `h − p` select; writes
    `st->H.h[0 … 2]` (hh[6 … 9] keep their value) -/
def blocks_final_H (H : L5 M128) (old : L5 UInt64) : L5 UInt64 :=
  /- H = H[0]+H[1] -/
  let T0 := H.l0
  let T1 := H.l1
  let T2 := H.l2
  let T3 := H.l3
  let T4 := H.l4
  let T0 := _mm_add_epi64 T0 (_mm_srli_si128 T0 8)
  let T1 := _mm_add_epi64 T1 (_mm_srli_si128 T1 8)
  let T2 := _mm_add_epi64 T2 (_mm_srli_si128 T2 8)
  let T3 := _mm_add_epi64 T3 (_mm_srli_si128 T3 8)
  let T4 := _mm_add_epi64 T4 (_mm_srli_si128 T4 8)
  let t0 := _mm_cvtsi128_si32 T0
  let b := t0 >>> 26
  let t0 := t0 &&& 0x3ffffff
  let t1 := _mm_cvtsi128_si32 T1 + b
  let b := t1 >>> 26
  let t1 := t1 &&& 0x3ffffff
  let t2 := _mm_cvtsi128_si32 T2 + b
  let b := t2 >>> 26
  let t2 := t2 &&& 0x3ffffff
  let t3 := _mm_cvtsi128_si32 T3 + b
  let b := t3 >>> 26
  let t3 := t3 &&& 0x3ffffff
  let t4 := _mm_cvtsi128_si32 T4 + b
  /- everything except t4 is in range, so this is all safe -/
  let h0 := (t0.toUInt64 ||| (t1.toUInt64 <<< 26)) &&& 0xfffffffffff
  let h1 := ((t1.toUInt64 >>> 18) ||| (t2.toUInt64 <<< 8) ||| (t3.toUInt64 <<< 34)) &&& 0xfffffffffff
  let h2 := (t3.toUInt64 >>> 10) ||| (t4.toUInt64 <<< 16)
  let c := h2 >>> 42
  let h2 := h2 &&& 0x3ffffffffff
  let h0 := h0 + c * 5
  let c := h0 >>> 44
  let h0 := h0 &&& 0xfffffffffff
  let h1 := h1 + c
  let c := h1 >>> 44
  let h1 := h1 &&& 0xfffffffffff
  let h2 := h2 + c
  let c := h2 >>> 42
  let h2 := h2 &&& 0x3ffffffffff
  let h0 := h0 + c * 5
  let c := h0 >>> 44
  let h0 := h0 &&& 0xfffffffffff
  let h1 := h1 + c
  let g0 := h0 + 5
  let c := g0 >>> 44
  let g0 := g0 &&& 0xfffffffffff
  let g1 := h1 + c
  let c := g1 >>> 44
  let g1 := g1 &&& 0xfffffffffff
  let g2 := h2 + c - ((1 : UInt64) <<< 42)
  let c := (((g2 >>> 61) ^^^ optblocker_u64) >>> 2) - 1
  let nc := ~~~c
  let h0 := (h0 &&& nc) ||| (g0 &&& c)
  let h1 := (h1 &&& nc) ||| (g1 &&& c)
  let h2 := (h2 &&& nc) ||| (g2 &&& c)
  ⟨h0, h1, h2, old.l3, old.l4⟩

/-- `poly1305_blocks(st, m, bytes)`.  Every call site passes a multiple of 32 with `bytes ≥ 32`
    (`bytes -= 32` is the truncated subtraction of `Nat`; in the C it would wrap for `bytes < 32`). -/
def poly1305_blocks (st : State) (m : Option Bytes) (bytes : Nat) : State :=
  let HIBIT := HIBIT0
  let HIBIT := if st.flags &&& poly1305_final_shift8 ≠ 0 then _mm_srli_si128 HIBIT 8 else HIBIT
  let HIBIT := if st.flags &&& poly1305_final_shift16 ≠ 0 then _mm_setzero_si128 else HIBIT
  let mp := m.getD []          /- the bytes at `m`; not dereferenced when `m == NULL` -/
  let s1 : L5 M128 × Bytes × Nat × UInt64 :=
    if st.flags &&& poly1305_started = 0 then
      /- H = [Mx,My] -/
      (blocks_first HIBIT mp, mp.drop 32, bytes - 32, st.flags ||| poly1305_started)
    else (blocks_load_H st, mp, bytes, st.flags)
  let H := s1.1
  let mp := s1.2.1
  let bytes := s1.2.2.1
  let flags := s1.2.2.2
  let K2 := blocks_load_R2 st flags
  let s2 : L5 M128 × Bytes × Nat :=
    if bytes ≥ 64 then blocks_main_loop HIBIT K2 (blocks_load_R4 st) bytes H mp bytes
    else (H, mp, bytes)
  let H := s2.1
  let mp := s2.2.1
  let bytes := s2.2.2
  let H := if bytes ≥ 32 then blocks_tail HIBIT K2 H (m.map fun _ => mp) else H
  match m with
  | some _ => { st with H := blocks_store_H H, flags := flags }
  | none => { st with H := blocks_final_H H st.H, flags := flags }

/-! ## Part 4: `poly1305_update`, `poly1305_finish_ext`, the entry points -/

/-- `poly1305_update(st, m, bytes)` with `bytes = m.length` -/
def poly1305_update (st : State) (m : Bytes) : State :=
  let bytes := m.length
  /- handle leftover -/
  let s1 : State × Option (Bytes × Nat) :=
    if st.buffer.length ≠ 0 then
      let want := poly1305_block_size - st.buffer.length
      let want := if want > bytes then bytes else want
      let st := { st with buffer := st.buffer ++ m.take want }
      let bytes := bytes - want
      let m := m.drop want
      if st.buffer.length < poly1305_block_size then (st, none)     /- return -/
      else
        let st := poly1305_blocks st (some st.buffer) poly1305_block_size
        ({ st with buffer := [] }, some (m, bytes))
    else (st, some (m, bytes))
  match s1.2 with
  | none => s1.1
  | some (m, bytes) =>
    let st := s1.1
    /- process full blocks -/
    let s2 : State × Bytes × Nat :=
      if bytes ≥ poly1305_block_size then
        let want := bytes / poly1305_block_size * poly1305_block_size     /- bytes & ~(block_size - 1) -/
        (poly1305_blocks st (some m) want, m.drop want, bytes - want)
      else (st, m, bytes)
    /- store leftover -/
    if s2.2.2 ≠ 0 then { s2.1 with buffer := s2.1.buffer ++ s2.2.1.take s2.2.2 } else s2.1

/-- a store of `b` at `dst + off` -/
def storeAt (dst : Bytes) (off : Nat) (b : Bytes) : Bytes := dst.take off ++ (b ++ dst.drop (off + b.length))

/-- `poly1305_block_copy31(dst, src, bytes)`: copy 0-31 bytes -/
def poly1305_block_copy31 (dst src : Bytes) (bytes : Nat) : Bytes :=
  let s : Bytes × Nat := (dst, 0)     /- (memory at dst, offset of both running pointers) -/
  let s := if bytes &&& 16 ≠ 0 then (storeAt s.1 s.2 ((src.drop s.2).take 16), s.2 + 16) else s
  let s := if bytes &&& 8 ≠ 0 then (storeAt s.1 s.2 ((src.drop s.2).take 8), s.2 + 8) else s
  let s := if bytes &&& 4 ≠ 0 then (storeAt s.1 s.2 ((src.drop s.2).take 4), s.2 + 4) else s
  let s := if bytes &&& 2 ≠ 0 then (storeAt s.1 s.2 ((src.drop s.2).take 2), s.2 + 2) else s
  let s := if bytes &&& 1 ≠ 0 then (storeAt s.1 s.2 ((src.drop s.2).take 1), s.2 + 1) else s
  s.1

/-- `poly1305_finish_ext(st, m, leftover, mac)`; returns `mac[0 … 16)` -/
def poly1305_finish_ext (st : State) (m : Bytes) (leftover : Nat) : Bytes :=
  let st :=
    if leftover ≠ 0 then
      let final := zeros 32
      let final := poly1305_block_copy31 final m leftover
      let final := if leftover ≠ 16 then final.set leftover 1 else final
      let st := { st with flags := st.flags |||
        (if leftover ≥ 16 then poly1305_final_shift8 else poly1305_final_shift16) }
      poly1305_blocks st (some final) 32
    else st
  let st :=
    if st.flags &&& poly1305_started ≠ 0 then
      /- finalize, H *= [r^2,r], or H *= [r,1] -/
      let st :=
        if leftover = 0 ∨ leftover > 16 then { st with flags := st.flags ||| poly1305_final_r2_r }
        else { st with flags := st.flags ||| poly1305_final_r_1 }
      poly1305_blocks st none 32
    else st
  let h0 := st.H.l0
  let h1 := st.H.l1
  let h2 := st.H.l2
  /- pad -/
  let h0 := h0 ||| (h1 <<< 44)
  let h1 := (h1 >>> 20) ||| (h2 <<< 24)
  /- addq %2, %0 ; adcq %3, %1 -/
  let a0 := adc64 h0 st.pad.1 false
  let a1 := adc64 h1 st.pad.2 a0.2
  store64 a0.1 ++ store64 a1.1

/-- `crypto_onetimeauth_poly1305_sse2_init`: `poly1305_init_ext(state, key, 0)` -/
def init (st : State) (key : Bytes) : State := poly1305_init_ext st key 0
/-- `crypto_onetimeauth_poly1305_sse2_update` -/
def update (st : State) (m : Bytes) : State := poly1305_update st m
/-- `crypto_onetimeauth_poly1305_sse2_final`: `poly1305_finish_ext(st, st->buffer, st->leftover, mac)` -/
def final (st : State) : Bytes := poly1305_finish_ext st st.buffer st.buffer.length

/-- init / update … / final with the message supplied in chunks; `st` = the prior contents of the
    caller's `crypto_onetimeauth_poly1305_state` -/
def macChunks (st : State) (key : Bytes) (cs : List Bytes) : Bytes := final (cs.foldl update (init st key))

/-- `crypto_onetimeauth_poly1305_sse2(out, m, inlen, key)`; `st` = the uninitialised stack variable -/
def mac (st : State) (key m : Bytes) : Bytes :=
  let inlen := m.length
  let st := poly1305_init_ext st key inlen
  let blocks := inlen / 32 * 32             /- inlen & ~31 -/
  let s : State × Bytes × Nat :=
    if blocks > 0 then (poly1305_blocks st (some m) blocks, m.drop blocks, inlen - blocks)
    else (st, m, inlen)
  poly1305_finish_ext s.1 s.2.1 s.2.2

/-- `crypto_onetimeauth_poly1305_sse2_verify`: `crypto_verify_16(h, correct)` -/
def verify (st : State) (h m key : Bytes) : Int32 := verify_n_sse2 1 h (mac st key m)

end Sodium.Model.Poly1305Sse2
