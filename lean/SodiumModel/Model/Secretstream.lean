import SodiumModel.Basic
import SodiumModel.Model.Utils
/-
  Model of crypto_secretstream_xchacha20poly1305 (state = k[32] ‖ nonce[12], nonce = counter[4] ‖ inonce[8]),
  written to the C code. Primitives are parameters:
    ks k nonce12 ic len  = ChaCha20-IETF keystream, `len` bytes starting at block `ic`
    mac key32 data       = Poly1305
    hchacha in16 k       = HChaCha20
-/
namespace Sodium.Model.SS

structure Prims where
  ks : Bytes → Bytes → Nat → Nat → Bytes
  mac : Bytes → Bytes → Bytes
  hchacha : Bytes → Bytes → Bytes

structure State where
  k : Bytes          -- 32 bytes
  nonce : Bytes      -- 12 bytes: counter[4] ‖ inonce[8]
  deriving DecidableEq, Repr

def counter (s : State) : Bytes := s.nonce.take 4
def inonce (s : State) : Bytes := s.nonce.drop 4

/-- `_counter_reset`: counter = 01 00 00 00 -/
def counterReset (s : State) : State := { s with nonce := [1, 0, 0, 0] ++ inonce s }

/-- init_pull (init_push is the same function of a random header) -/
def init (P : Prims) (header k : Bytes) : State :=
  counterReset ⟨P.hchacha (header.take 16) k, zeros 4 ++ (header.drop 16).take 8⟩

/-- rekey: (k ‖ inonce) ^= ChaCha20-IETF(nonce, k) from block 0; then counter reset -/
def rekey (P : Prims) (s : State) : State :=
  let kn := xorBytes (s.k ++ inonce s) (P.ks s.k s.nonce 0 40)
  ⟨kn.take 32, [1, 0, 0, 0] ++ kn.drop 32⟩

/-- `(0x10 - adlen) & 0xf` and `(0x10 - (sizeof block) + mlen) & 0xf` in `unsigned long long` arithmetic -/
def padAd (adlen : Nat) : Nat := (((0x10 : UInt64) - UInt64.ofNat adlen) &&& 0xf).toNat
def padMsg (mlen : Nat) : Nat := (((0x10 : UInt64) - 64 + UInt64.ofNat mlen) &&& 0xf).toNat

/-- the Poly1305 input of one chunk -/
def macInput (ad block c : Bytes) : Bytes :=
  ad ++ zeros (padAd ad.length) ++ block ++ c ++ zeros (padMsg c.length) ++
    toLE 8 ad.length ++ toLE 8 (64 + c.length)

/-- state update shared by push and pull after a chunk with MAC `mac` and tag `tag` -/
def advance (P : Prims) (s : State) (mac : Bytes) (tag : UInt8) : State :=
  let s1 : State := { s with nonce := sodium_increment_generic (counter s) ++ xorBytes (inonce s) (mac.take 8) }
  if (tag &&& 0x02) ≠ 0 ∨ sodium_is_zero (counter s1) = 1 then rekey P s1 else s1

def push (P : Prims) (s : State) (m ad : Bytes) (tag : UInt8) : State × Bytes :=
  let polykey := (P.ks s.k s.nonce 0 64).take 32
  let block := xorBytes (tag :: zeros 63) (P.ks s.k s.nonce 1 64)
  let c := xorBytes m (P.ks s.k s.nonce 2 m.length)
  let mac := P.mac polykey (macInput ad block c)
  (advance P s mac tag, block.take 1 ++ c ++ mac)

inductive PullResult where
  | fail                                          -- -1: state unchanged, *mlen_p = 0, *tag_p = 0xff, m untouched
  | ok (s : State) (m : Bytes) (tag : UInt8)
  deriving DecidableEq, Repr

def pull (P : Prims) (s : State) (inp ad : Bytes) : PullResult :=
  if inp.length < 17 then .fail else
  let mlen := inp.length - 17
  let polykey := (P.ks s.k s.nonce 0 64).take 32
  let in0 := inp.take 1
  let dec := xorBytes (in0 ++ zeros 63) (P.ks s.k s.nonce 1 64)
  let tag := dec.headD 0
  let block := in0 ++ dec.drop 1
  let c := (inp.drop 1).take mlen
  let storedMac := inp.drop (1 + mlen)
  let mac := P.mac polykey (macInput ad block c)
  if sodium_memcmp mac storedMac ≠ 0 then .fail else
  .ok (advance P s mac tag) (xorBytes c (P.ks s.k s.nonce 2 mlen)) tag

end Sodium.Model.SS
