import SodiumModel.Basic
/-
  Model of `_sodium_runtime_intel_cpu_features` (sodium/runtime.c) for a build with all x86
  intrinsics headers available: decoding of CPUID leaves 0 / 1 / 7 and XCR0 into feature flags.
-/
namespace Sodium.Model.Runtime

structure Regs where
  eax0 : UInt32      -- CPUID leaf 0, EAX (0 = no CPUID information)
  ecx1 : UInt32      -- leaf 1 ECX
  edx1 : UInt32      -- leaf 1 EDX
  ebx7 : UInt32      -- leaf 7 EBX
  xcr0 : UInt32      -- XGETBV(0), low word
  deriving DecidableEq, Repr

structure Features where
  sse2 : Bool := false
  sse3 : Bool := false
  ssse3 : Bool := false
  sse41 : Bool := false
  avx : Bool := false
  avx2 : Bool := false
  avx512f : Bool := false
  pclmul : Bool := false
  aesni : Bool := false
  rdrand : Bool := false
  deriving DecidableEq, Repr

def CPUID_EBX_AVX2 : UInt32 := 0x00000020
def CPUID_EBX_AVX512F : UInt32 := 0x00010000
def CPUID_ECX_SSE3 : UInt32 := 0x00000001
def CPUID_ECX_PCLMUL : UInt32 := 0x00000002
def CPUID_ECX_SSSE3 : UInt32 := 0x00000200
def CPUID_ECX_SSE41 : UInt32 := 0x00080000
def CPUID_ECX_AESNI : UInt32 := 0x02000000
def CPUID_ECX_XSAVE : UInt32 := 0x04000000
def CPUID_ECX_OSXSAVE : UInt32 := 0x08000000
def CPUID_ECX_AVX : UInt32 := 0x10000000
def CPUID_ECX_RDRAND : UInt32 := 0x40000000
def CPUID_EDX_SSE2 : UInt32 := 0x04000000
def XCR0_SSE : UInt32 := 0x00000002
def XCR0_AVX : UInt32 := 0x00000004
def XCR0_OPMASK : UInt32 := 0x00000020
def XCR0_ZMM_HI256 : UInt32 := 0x00000040
def XCR0_HI16_ZMM : UInt32 := 0x00000080

def has (w m : UInt32) : Bool := (w &&& m) != 0
def hasAll (w m : UInt32) : Bool := (w &&& m) == m

/-- returns (rc, features); rc = -1 and no feature when leaf 0 reports EAX = 0 -/
def decode (r : Regs) (haveXgetbv : Bool := true) : Int × Features :=
  if r.eax0 = 0 then (-1, {}) else
  let avxm := CPUID_ECX_AVX ||| CPUID_ECX_XSAVE ||| CPUID_ECX_OSXSAVE
  -- xcr0 is read only when AVX, XSAVE and OSXSAVE are all reported (and stays 0 without XGETBV support in the build)
  let xcr0 := if hasAll r.ecx1 avxm && haveXgetbv then r.xcr0 else 0
  let avx := hasAll r.ecx1 avxm && hasAll xcr0 (XCR0_SSE ||| XCR0_AVX)
  let avx2 := avx && has r.ebx7 CPUID_EBX_AVX2
  let avx512f := avx2 && hasAll r.ebx7 CPUID_EBX_AVX512F &&
                 hasAll xcr0 (XCR0_OPMASK ||| XCR0_ZMM_HI256 ||| XCR0_HI16_ZMM)
  (0, { sse2 := has r.edx1 CPUID_EDX_SSE2, sse3 := has r.ecx1 CPUID_ECX_SSE3, ssse3 := has r.ecx1 CPUID_ECX_SSSE3,
        sse41 := has r.ecx1 CPUID_ECX_SSE41, avx := avx, avx2 := avx2, avx512f := avx512f,
        pclmul := has r.ecx1 CPUID_ECX_PCLMUL, aesni := has r.ecx1 CPUID_ECX_AESNI, rdrand := has r.ecx1 CPUID_ECX_RDRAND })

/-- crypto_aead_aes256gcm_is_available -/
def gcmAvailable (f : Features) : Bool := f.pclmul && f.aesni && f.avx

end Sodium.Model.Runtime
