import SodiumModel.Model.Utils
import SodiumModel.Model.Pad
import SodiumModel.Model.Codecs
/-
  C11 — LEAKAGE-INSTRUMENTED models ("program counter + memory address" leakage model).

  Every function `fL` below returns `(result, trace)`.  The trace records, in program order and
  following the C source statement by statement,
    * every conditional-branch decision (`if`, `||` short-circuit, loop-continuation tests,
      including the final failing test), as `Ev.branch taken`;
    * every array / table / pointer-offset access, as `Ev.load region idx` / `Ev.store region idx`
      (`region` = the C name of the array, `idx` = element index; for the inline-assembly paths
      the byte offset of the memory operand).
  Register-only arithmetic (masks, shifts, xor, integer conversions) emits nothing; scalar locals
  (`d`, `c`, `acc`, `pad_len`, … — registers or fixed stack slots, also when `volatile`) emit
  nothing because their address does not depend on anything.

  The un-instrumented result (`.1`) is proved equal to the existing models of `Model/Utils.lean`,
  `Model/Pad.lean`, `Model/Codecs.lean` in `Proofs/Leak.lean`; those are validated against the
  real library by the C14/C15/C16 correspondence checks.

  Loops over a buffer are written as structural recursion over the list of bytes, carrying the
  index; the number of iterations is the (public) length.
-/
namespace Sodium.Model.Leak

inductive Ev where
  | branch (taken : Bool)
  | load (region : String) (idx : Nat)
  | store (region : String) (idx : Nat)
  deriving DecidableEq, Repr

abbrev Trace := List Ev

/-! ## 1. crypto_verify_n (generic body) and the utils.c helpers -/

/-- verify.c:74 `for (i = 0; i < n; i++) { d |= x[i] ^ y[i]; }` -/
def verifyLoopL (d : UInt16) (i : Nat) : Bytes → Bytes → UInt16 × Trace
  | x :: xs, y :: ys =>
    let r := verifyLoopL (d ||| (x ^^^ y).toUInt16) (i + 1) xs ys
    (r.1, .branch true :: .load "x" i :: .load "y" i :: r.2)
  | _, _ => (d, [.branch false])

/-- generic `crypto_verify_n(x, y, n)`; the buffers are the `n`-byte arrays -/
def crypto_verify_nL (x y : Bytes) : Int32 × Trace :=
  let r := verifyLoopL 0 0 x y
  (verifyFinal16 r.1, r.2)

/-- `crypto_verify_16 / _32 / _64`: the same body, called on 16 / 32 / 64-byte arrays -/
def crypto_verify_16L (x y : Bytes) : Int32 × Trace := crypto_verify_nL x y
def crypto_verify_32L (x y : Bytes) : Int32 × Trace := crypto_verify_nL x y
def crypto_verify_64L (x y : Bytes) : Int32 × Trace := crypto_verify_nL x y

/-- utils.c:204 `for (i = 0U; i < len; i++) { d |= b1[i] ^ b2[i]; }` -/
def memcmpLoopL (d : UInt8) (i : Nat) : Bytes → Bytes → UInt8 × Trace
  | x :: xs, y :: ys =>
    let r := memcmpLoopL (d ||| (x ^^^ y)) (i + 1) xs ys
    (r.1, .branch true :: .load "b1" i :: .load "b2" i :: r.2)
  | _, _ => (d, [.branch false])

def sodium_memcmpL (b1 b2 : Bytes) : Int32 × Trace :=
  let r := memcmpLoopL 0 0 b1 b2
  (memcmpFinal r.1, r.2)

/-- utils.c:263 `for (i = 0U; i < nlen; i++) { d |= n[i]; }` -/
def isZeroLoopL (d : UInt8) (i : Nat) : Bytes → UInt8 × Trace
  | x :: xs =>
    let r := isZeroLoopL (d ||| x) (i + 1) xs
    (r.1, .branch true :: .load "n" i :: r.2)
  | [] => (d, [.branch false])

def sodium_is_zeroL (n : Bytes) : Int32 × Trace :=
  let r := isZeroLoopL 0 0 n
  (isZeroFinal r.1, r.2)

/-- utils.c:246 `i = len; while (i != 0U) { i--; x1 = b1[i]; x2 = b2[i]; … }` : the byte at the
    head of the list (index `i`) is processed LAST, so its events come last. -/
def compareLoopL (i : Nat) : Bytes → Bytes → (UInt8 × UInt8) × Trace
  | x :: xs, y :: ys =>
    let r := compareLoopL (i + 1) xs ys
    (compareStep r.1 x y, r.2 ++ [.branch true, .load "b1" i, .load "b2" i])
  | _, _ => ((0, 1), [])

def sodium_compareL (b1 b2 : Bytes) : Int32 × Trace :=
  let r := compareLoopL 0 b1 b2
  ((r.1.1.toUInt32 + r.1.1.toUInt32 + r.1.2.toUInt32).toInt32 - 1, r.2 ++ [.branch false])

/-- utils.c:309 `for (; i < nlen; i++) { c += n[i]; n[i] = (unsigned char) c; c >>= 8; }` -/
def incLoopL (c : UInt64) (i : Nat) : Bytes → Bytes × Trace
  | [] => ([], [.branch false])
  | x :: xs =>
    let c1 := c + x.toUInt64
    let r := incLoopL (c1 >>> 8) (i + 1) xs
    (c1.toUInt8 :: r.1, .branch true :: .load "n" i :: .store "n" i :: r.2)

def sodium_increment_genericL (n : Bytes) : Bytes × Trace := incLoopL 1 0 n

/-- utils.c:358 `for (…) { c += a[i] + b[i]; a[i] = (unsigned char) c; c >>= 8; }` -/
def addLoopL (c : UInt64) (i : Nat) : Bytes → Bytes → Bytes × Trace
  | x :: xs, y :: ys =>
    let c1 := c + (x.toUInt64 + y.toUInt64)
    let r := addLoopL (c1 >>> 8) (i + 1) xs ys
    (c1.toUInt8 :: r.1, .branch true :: .load "a" i :: .load "b" i :: .store "a" i :: r.2)
  | _, _ => ([], [.branch false])

def sodium_add_genericL (a b : Bytes) : Bytes × Trace := addLoopL 0 0 a b

/-- utils.c:401 `for (…) { c = a[i] - b[i] - c; a[i] = (unsigned char) c; c = (c >> 8) & 1U; }` -/
def subLoopL (c : UInt64) (i : Nat) : Bytes → Bytes → Bytes × Trace
  | x :: xs, y :: ys =>
    let c1 := x.toUInt64 - y.toUInt64 - c
    let r := subLoopL ((c1 >>> 8) &&& 1) (i + 1) xs ys
    (c1.toUInt8 :: r.1, .branch true :: .load "a" i :: .load "b" i :: .store "a" i :: r.2)
  | _, _ => ([], [.branch false])

def sodium_sub_genericL (a b : Bytes) : Bytes × Trace := subLoopL 0 0 a b

/-! ### the functions as compiled with HAVE_AMD64_ASM: dispatch on the (public) length, then either
    a straight-line assembly block (memory operands at fixed byte offsets) or the generic loop -/

/-- `op reg, off(%[out])` with a memory destination: one read and one write at byte offset `off` -/
def rmw (region : String) (off : Nat) : Trace := [.load region off, .store region off]

def sodium_incrementL (n : Bytes) : Bytes × Trace :=
  if n.length = 12 then (increment_asm12 n, .branch true :: rmw "n" 0 ++ rmw "n" 8)
  else if n.length = 24 then
    (increment_asm24 n, .branch false :: .branch true :: rmw "n" 0 ++ rmw "n" 8 ++ rmw "n" 16)
  else if n.length = 8 then (increment_asm8 n, .branch false :: .branch false :: .branch true :: rmw "n" 0)
  else
    let r := sodium_increment_genericL n
    (r.1, .branch false :: .branch false :: .branch false :: r.2)

def sodium_addL (a b : Bytes) : Bytes × Trace :=
  if a.length = 12 then
    (add_asm12 a b, .branch true :: .load "b" 0 :: .load "b" 8 :: rmw "a" 0 ++ rmw "a" 8)
  else if a.length = 24 then
    (add_asm24 a b, .branch false :: .branch true :: .load "b" 0 :: .load "b" 8 :: .load "b" 16 ::
      rmw "a" 0 ++ rmw "a" 8 ++ rmw "a" 16)
  else if a.length = 8 then
    (add_asm8 a b, .branch false :: .branch false :: .branch true :: .load "b" 0 :: rmw "a" 0)
  else
    let r := sodium_add_genericL a b
    (r.1, .branch false :: .branch false :: .branch false :: r.2)

def sodium_subL (a b : Bytes) : Bytes × Trace :=
  if a.length = 64 then
    (sub_asm64 a b, .branch true ::
      ((List.range 8).map fun k => Ev.load "b" (8 * k)) ++ (List.range 8).flatMap fun k => rmw "a" (8 * k))
  else
    let r := sodium_sub_genericL a b
    (r.1, .branch false :: r.2)

/-! ## 2. sodium_unpad (utils.c:785) — buffer contents secret, lengths public -/

/-- utils.c:801 `for (i = 0U; i < blocksize; i++) { c = *(tail - i); … }`, `tail = &buf[len - 1]`;
    `cs` = the bytes `tail[0], tail[-1], …` -/
def unpadLoopL (len : Nat) : UnpadState → UInt64 → Bytes → UnpadState × Trace
  | s, _, [] => (s, [.branch false])
  | s, i, c :: cs =>
    let r := unpadLoopL len (unpadStep s i c) (i + 1) cs
    (r.1, .branch true :: .load "buf" (len - 1 - i.toNat) :: r.2)

def sodium_unpadL (buf : Bytes) (bs : UInt64) : UnpadResult × Trace :=
  let len := UInt64.ofNat buf.length
  -- `if (padded_buflen < blocksize || blocksize <= 0U) return -1;`
  if len < bs then (.err, [.branch true])
  else if bs = 0 then (.err, [.branch false, .branch true])
  else
    let r := unpadLoopL buf.length ⟨0, 0, 0⟩ 0 (unpadBlock buf bs.toNat)
    (.done ((r.1.valid.toUInt32 - 1).toInt32) (len - 1 - r.1.padLen),
     .branch false :: .branch false :: r.2 ++ [.store "unpadded_buflen_p" 0])

/-! ## 3. sodium_bin2hex, sodium_bin2base64 (codecs.c) — bin contents secret; lengths, variant public -/

/-- codecs.c:26 `while (i < bin_len) { c = bin[i] & 0xf; b = bin[i] >> 4; …; hex[i*2] = …;
    hex[i*2+1] = …; i++; }` -/
def bin2hexLoopL (i : Nat) : Bytes → Bytes × Trace
  | [] => ([], [.branch false])
  | x :: xs =>
    let r := bin2hexLoopL (i + 1) xs
    (hexPair x ++ r.1,
     .branch true :: .load "bin" i :: .load "bin" i :: .store "hex" (2 * i) :: .store "hex" (2 * i + 1) :: r.2)

def sodium_bin2hexL (hexMaxlen : UInt64) (bin : Bytes) : EncResult × Trace :=
  let n := UInt64.ofNat bin.length
  -- `if (bin_len >= SIZE_MAX / 2 || hex_maxlen <= bin_len * 2U) sodium_misuse();`
  if n ≥ (0xFFFFFFFFFFFFFFFF : UInt64) / 2 then (.misuse, [.branch true])
  else if hexMaxlen ≤ n * 2 then (.misuse, [.branch false, .branch true])
  else
    let r := bin2hexLoopL 0 bin
    (.ok (r.1 ++ [0]), .branch false :: .branch false :: r.2 ++ [.store "hex" (2 * bin.length)])

/-- codecs.c:211/223 `while (acc_len >= 6) { acc_len -= 6; b64[b64_pos++] = map((acc >> acc_len) & 0x3F); }`
    (`b64_byte_to_char` / `b64_byte_to_urlsafe_char` are pure arithmetic: no events) -/
def encDrainL (v : UInt32) (acc : UInt32) : Nat → Nat → (Bytes × Nat) × Trace
  | pos, n + 6 =>
    let r := encDrainL v acc (pos + 1) n
    ((encChar v ((acc >>> (UInt32.ofNat n)) &&& 0x3F) :: r.1.1, r.1.2),
     .branch true :: .store "b64" pos :: r.2)
  | _, n => (([], n), [.branch false])

/-- codecs.c:208/220 `while (bin_pos < bin_len) { acc = (acc << 8) + bin[bin_pos++]; acc_len += 8; drain }`
    followed by `if (acc_len > 0) { b64[b64_pos++] = … }` -/
def encLoopL (v : UInt32) : Bytes → UInt32 → Nat → Nat → Nat → Bytes × Trace
  | [], acc, accLen, _, pos =>
    if accLen > 0 then
      ([encChar v ((acc <<< (UInt32.ofNat (6 - accLen))) &&& 0x3F)],
       [.branch false, .branch true, .store "b64" pos])
    else ([], [.branch false, .branch false])
  | b :: rest, acc, accLen, binPos, pos =>
    let acc' := (acc <<< 8) + b.toUInt32
    let d := encDrainL v acc' pos (accLen + 8)
    let r := encLoopL v rest acc' d.1.2 (binPos + 1) (pos + d.1.1.length)
    (d.1.1 ++ r.1, .branch true :: .load "bin" binPos :: d.2 ++ r.2)

/-- codecs.c:233 `while (b64_pos < b64_len) { b64[b64_pos++] = '='; }` : `k` iterations from `pos` -/
def padFillTrace : Nat → Nat → Trace
  | _, 0 => [.branch false]
  | pos, k + 1 => .branch true :: .store "b64" pos :: padFillTrace (pos + 1) k

/-- codecs.c:236 `do { b64[b64_pos++] = 0U; } while (b64_pos < b64_maxlen);` : `k ≥ 1` iterations -/
def zeroFillTrace : Nat → Nat → Trace
  | _, 0 => []
  | pos, 1 => [.store "b64" pos, .branch false]
  | pos, k + 2 => .store "b64" pos :: .branch true :: zeroFillTrace (pos + 1) (k + 1)

/-- codecs.c:197 `if (remainder != 0) { if ((variant & NO_PADDING) == 0U) … else … }` -/
def b64LenTrace (v : UInt32) (binLen : Nat) : Trace :=
  if binLen - 3 * (binLen / 3) ≠ 0 then [.branch true, .branch (!isNoPad v)] else [.branch false]

def sodium_bin2base64L (maxlen : Nat) (bin : Bytes) (v : UInt32) : EncResult × Trace :=
  -- sodium_base64_check_variant
  if !variantOk v then (.misuse, [.branch true]) else
  let bl := b64Len v bin.length
  -- `if (b64_maxlen <= b64_len) sodium_misuse();`
  if maxlen ≤ bl then (.misuse, .branch false :: b64LenTrace v bin.length ++ [.branch true]) else
  -- `if ((variant & URLSAFE) != 0U)` selects one of two textually identical loops
  let r := encLoopL v bin 0 0 0 0
  let pos1 := r.1.length
  let npad := bl - pos1                       -- iterations of the '=' loop
  let pos2 := pos1 + npad
  let nzero := max 1 (maxlen - pos2)          -- iterations of the do-while
  (.ok (r.1 ++ List.replicate npad 61 ++ List.replicate nzero 0),
   .branch false :: b64LenTrace v bin.length ++ [.branch false, .branch (isUrlsafe v)] ++ r.2 ++
     [.branch (decide (pos1 ≤ bl))] ++          -- assert(b64_pos <= b64_len)
     padFillTrace pos1 npad ++ zeroFillTrace pos2 nzero)

/-! ## 4. fe25519_cswap / fe25519_cmov (ed25519_ref10_fe_51.h), ge25519_cmov8 (ed25519_ref10.c) -/

/-- a C pointer into a named region: `region[off …]` -/
structure Ptr where
  region : String
  off : Nat := 0
  deriving DecidableEq, Repr

def Ptr.ld (p : Ptr) (i : Nat) : Ev := .load p.region (p.off + i)
def Ptr.st (p : Ptr) (i : Nat) : Ev := .store p.region (p.off + i)
/-- `&p[k]` / address of a member at limb offset `k` -/
def Ptr.shift (p : Ptr) (k : Nat) : Ptr := ⟨p.region, p.off + k⟩

/-- `fe25519` with HAVE_TI_MODE: 5 limbs of 64 bits -/
structure Fe where
  l0 : UInt64
  l1 : UInt64
  l2 : UInt64
  l3 : UInt64
  l4 : UInt64
  deriving DecidableEq, Repr

def feLoads (p : Ptr) : Trace := [p.ld 0, p.ld 1, p.ld 2, p.ld 3, p.ld 4]
def feStores (p : Ptr) : Trace := [p.st 0, p.st 1, p.st 2, p.st 3, p.st 4]

/-- `uint64_t mask = (uint64_t) (-(int64_t) b);` for `unsigned int b` -/
def ctMask (b : UInt32) : UInt64 := 0 - b.toUInt64

/-- fe_51.h:179 fe25519_cswap -/
def fe25519_cswapL (pf pg : Ptr) (f g : Fe) (b : UInt32) : (Fe × Fe) × Trace :=
  let mask := ctMask b
  let x0 := (f.l0 ^^^ g.l0) &&& mask
  let x1 := (f.l1 ^^^ g.l1) &&& mask
  let x2 := (f.l2 ^^^ g.l2) &&& mask
  let x3 := (f.l3 ^^^ g.l3) &&& mask
  let x4 := (f.l4 ^^^ g.l4) &&& mask
  ((⟨f.l0 ^^^ x0, f.l1 ^^^ x1, f.l2 ^^^ x2, f.l3 ^^^ x3, f.l4 ^^^ x4⟩,
    ⟨g.l0 ^^^ x0, g.l1 ^^^ x1, g.l2 ^^^ x2, g.l3 ^^^ x3, g.l4 ^^^ x4⟩),
   feLoads pf ++ feLoads pg ++ feStores pf ++ feStores pg)

/-- fe_51.h:137 fe25519_cmov, portable C body -/
def fe25519_cmovCL (pf pg : Ptr) (f g : Fe) (b : UInt32) : Fe × Trace :=
  let mask := ctMask b
  let x0 := (f.l0 ^^^ g.l0) &&& mask
  let x1 := (f.l1 ^^^ g.l1) &&& mask
  let x2 := (f.l2 ^^^ g.l2) &&& mask
  let x3 := (f.l3 ^^^ g.l3) &&& mask
  let x4 := (f.l4 ^^^ g.l4) &&& mask
  (⟨f.l0 ^^^ x0, f.l1 ^^^ x1, f.l2 ^^^ x2, f.l3 ^^^ x3, f.l4 ^^^ x4⟩,
   feLoads pf ++ feLoads pg ++ feStores pf)

/-- fe_51.h:115 fe25519_cmov, HAVE_AMD64_ASM body: `test c,c; movq k(b),t; cmoveq k(a),t; …; movq t,k(a)`.
    `cmov` with a memory source always performs the load; `t = (c == 0) ? f[k] : g[k]`. -/
def fe25519_cmovAsmL (pf pg : Ptr) (f g : Fe) (b : UInt32) : Fe × Trace :=
  let sel (x y : UInt64) : UInt64 := if b = 0 then x else y
  (⟨sel f.l0 g.l0, sel f.l1 g.l1, sel f.l2 g.l2, sel f.l3 g.l3, sel f.l4 g.l4⟩,
   [pg.ld 0, pf.ld 0, pg.ld 1, pf.ld 1, pg.ld 2, pf.ld 2, pf.st 0, pf.st 1,
    pg.ld 3, pf.ld 3, pg.ld 4, pf.ld 4, pf.st 2, pf.st 3, pf.st 4])

/-- the body selected at compile time (`asm = true` ⇔ HAVE_AMD64_ASM) -/
def fe25519_cmovL (asm : Bool) (pf pg : Ptr) (f g : Fe) (b : UInt32) : Fe × Trace :=
  if asm then fe25519_cmovAsmL pf pg f g b else fe25519_cmovCL pf pg f g b

/-- `fe25519_copy(h, f)` : memcpy of 5 limbs -/
def feCopyTrace (ph pf : Ptr) : Trace := feLoads pf ++ feStores ph

def fe0 : Fe := ⟨0, 0, 0, 0, 0⟩
def fe1 : Fe := ⟨1, 0, 0, 0, 0⟩

/-- ed25519_ref10.c:632 `negative`, portable body (`optblocker_u8 = 0`); the x86-64 body is
    `shrb $7` on the same byte, i.e. the same value -/
def ctNegative (b : Int8) : UInt8 := ((b.toUInt8 >>> 5) ^^^ 0) >>> 2

/-- ed25519_ref10.c:610 `equal`, portable body; the x86-64 body is `cmpb; cmovel` -/
def ctEqual (b c : Int8) : UInt8 :=
  let x : UInt8 := b.toUInt8 ^^^ c.toUInt8
  let y : UInt32 := x.toUInt32 - 1
  (((y >>> 29) ^^^ 0) >>> 2).toUInt8

/-- `babs = b - (((-bnegative) & b) * ((signed char) 1 << 1))`, computed in `int`, stored to `unsigned char` -/
def ctBabs (b : Int8) : UInt8 :=
  let bneg : Int32 := (ctNegative b).toUInt32.toInt32
  (b.toInt32 - ((0 - bneg) &&& b.toInt32) * 2).toUInt32.toUInt8

/-- `ge25519_precomp` : (y+x, y-x, 2dxy), 15 limbs -/
structure Precomp where
  yplusx : Fe
  yminusx : Fe
  xy2d : Fe
  deriving DecidableEq, Repr

def precomp0 : Precomp := ⟨fe1, fe1, fe0⟩

/-- ed25519_ref10.c:648 ge25519_cmov -/
def ge25519_cmovL (asm : Bool) (pt pu : Ptr) (t u : Precomp) (b : UInt8) : Precomp × Trace :=
  let r0 := fe25519_cmovL asm pt pu t.yplusx u.yplusx b.toUInt32
  let r1 := fe25519_cmovL asm (pt.shift 5) (pu.shift 5) t.yminusx u.yminusx b.toUInt32
  let r2 := fe25519_cmovL asm (pt.shift 10) (pu.shift 10) t.xy2d u.xy2d b.toUInt32
  (⟨r0.1, r1.1, r2.1⟩, r0.2 ++ r1.2 ++ r2.2)

/-- `ge25519_precomp_0(t)` : `h[0] = 1; memset(&h[1], …)` twice, then `memset(h, 0, …)` -/
def precomp0Trace (pt : Ptr) : Trace :=
  feStores pt ++ feStores (pt.shift 5) ++ feStores (pt.shift 10)

/-- ed25519_ref10.c:665 ge25519_cmov8.  `tbl j` = `precomp[j]` at limb offset `15*j` from `ptab`;
    `neg`/`negT` = `fe25519_neg` and its (fixed) trace; `pm` = the local `minust`. -/
def ge25519_cmov8L (asm : Bool) (neg : Fe → Fe) (negT : Trace) (pt ptab pm : Ptr)
    (tbl : Fin 8 → Precomp) (b : Int8) : Precomp × Trace :=
  let bnegative := ctNegative b
  let babs := ctBabs b
  let t := precomp0
  let c1 := ge25519_cmovL asm pt (ptab.shift 0) t (tbl 0) (ctEqual babs.toInt8 1)
  let c2 := ge25519_cmovL asm pt (ptab.shift 15) c1.1 (tbl 1) (ctEqual babs.toInt8 2)
  let c3 := ge25519_cmovL asm pt (ptab.shift 30) c2.1 (tbl 2) (ctEqual babs.toInt8 3)
  let c4 := ge25519_cmovL asm pt (ptab.shift 45) c3.1 (tbl 3) (ctEqual babs.toInt8 4)
  let c5 := ge25519_cmovL asm pt (ptab.shift 60) c4.1 (tbl 4) (ctEqual babs.toInt8 5)
  let c6 := ge25519_cmovL asm pt (ptab.shift 75) c5.1 (tbl 5) (ctEqual babs.toInt8 6)
  let c7 := ge25519_cmovL asm pt (ptab.shift 90) c6.1 (tbl 6) (ctEqual babs.toInt8 7)
  let c8 := ge25519_cmovL asm pt (ptab.shift 105) c7.1 (tbl 7) (ctEqual babs.toInt8 8)
  let t8 := c8.1
  let minust : Precomp := ⟨t8.yminusx, t8.yplusx, neg t8.xy2d⟩
  let cn := ge25519_cmovL asm pt pm t8 minust bnegative
  (cn.1,
   precomp0Trace pt ++ c1.2 ++ c2.2 ++ c3.2 ++ c4.2 ++ c5.2 ++ c6.2 ++ c7.2 ++ c8.2 ++
   feCopyTrace pm (pt.shift 5) ++ feCopyTrace (pm.shift 5) pt ++ negT ++ cn.2)

/-- `ge25519_cached` : (Y+X, Y-X, Z, 2dT), 20 limbs -/
structure Cached where
  YplusX : Fe
  YminusX : Fe
  Z : Fe
  T2d : Fe
  deriving DecidableEq, Repr

def cached0 : Cached := ⟨fe1, fe1, fe1, fe0⟩

/-- ed25519_ref10.c:656 ge25519_cmov_cached -/
def ge25519_cmov_cachedL (asm : Bool) (pt pu : Ptr) (t u : Cached) (b : UInt8) : Cached × Trace :=
  let r0 := fe25519_cmovL asm pt pu t.YplusX u.YplusX b.toUInt32
  let r1 := fe25519_cmovL asm (pt.shift 5) (pu.shift 5) t.YminusX u.YminusX b.toUInt32
  let r2 := fe25519_cmovL asm (pt.shift 10) (pu.shift 10) t.Z u.Z b.toUInt32
  let r3 := fe25519_cmovL asm (pt.shift 15) (pu.shift 15) t.T2d u.T2d b.toUInt32
  (⟨r0.1, r1.1, r2.1, r3.1⟩, r0.2 ++ r1.2 ++ r2.2 ++ r3.2)

def cached0Trace (pt : Ptr) : Trace :=
  feStores pt ++ feStores (pt.shift 5) ++ feStores (pt.shift 10) ++ feStores (pt.shift 15)

/-- ed25519_ref10.c:700 ge25519_cmov8_cached -/
def ge25519_cmov8_cachedL (asm : Bool) (neg : Fe → Fe) (negT : Trace) (pt ptab pm : Ptr)
    (tbl : Fin 8 → Cached) (b : Int8) : Cached × Trace :=
  let bnegative := ctNegative b
  let babs := ctBabs b
  let t := cached0
  let c1 := ge25519_cmov_cachedL asm pt (ptab.shift 0) t (tbl 0) (ctEqual babs.toInt8 1)
  let c2 := ge25519_cmov_cachedL asm pt (ptab.shift 20) c1.1 (tbl 1) (ctEqual babs.toInt8 2)
  let c3 := ge25519_cmov_cachedL asm pt (ptab.shift 40) c2.1 (tbl 2) (ctEqual babs.toInt8 3)
  let c4 := ge25519_cmov_cachedL asm pt (ptab.shift 60) c3.1 (tbl 3) (ctEqual babs.toInt8 4)
  let c5 := ge25519_cmov_cachedL asm pt (ptab.shift 80) c4.1 (tbl 4) (ctEqual babs.toInt8 5)
  let c6 := ge25519_cmov_cachedL asm pt (ptab.shift 100) c5.1 (tbl 5) (ctEqual babs.toInt8 6)
  let c7 := ge25519_cmov_cachedL asm pt (ptab.shift 120) c6.1 (tbl 6) (ctEqual babs.toInt8 7)
  let c8 := ge25519_cmov_cachedL asm pt (ptab.shift 140) c7.1 (tbl 7) (ctEqual babs.toInt8 8)
  let t8 := c8.1
  let minust : Cached := ⟨t8.YminusX, t8.YplusX, t8.Z, neg t8.T2d⟩
  let cn := ge25519_cmov_cachedL asm pt pm t8 minust bnegative
  (cn.1,
   cached0Trace pt ++ c1.2 ++ c2.2 ++ c3.2 ++ c4.2 ++ c5.2 ++ c6.2 ++ c7.2 ++ c8.2 ++
   feCopyTrace pm (pt.shift 5) ++ feCopyTrace (pm.shift 5) pt ++ feCopyTrace (pm.shift 10) (pt.shift 10) ++
   negT ++ cn.2)

/-! ## 5. X25519 Montgomery ladder, control skeleton (x25519_ref10.c:73) -/

/-- the field operations other than cswap: opaque functions on limbs, each with a FIXED trace
    fragment `tr name` (they are straight-line limb arithmetic on fixed addresses) -/
structure FeOps where
  add : Fe → Fe → Fe
  sub : Fe → Fe → Fe
  mul : Fe → Fe → Fe
  sq : Fe → Fe
  mul32 : Fe → UInt32 → Fe
  invert : Fe → Fe
  frombytes : Bytes → Fe
  tobytes : Fe → Bytes
  /-- `has_small_order(p)` on the PUBLIC point -/
  hasSmallOrder : Bytes → Bool
  tr : String → Trace

structure LadderSt where
  x2 : Fe
  z2 : Fe
  x3 : Fe
  z3 : Fe
  swap : UInt32

/-- the 18 field operations of one ladder step, in program order (x25519_ref10.c:108–125) -/
def ladderBodyTrace (ops : FeOps) : Trace :=
  ops.tr "fe25519_add" ++ ops.tr "fe25519_sub" ++ ops.tr "fe25519_sq" ++ ops.tr "fe25519_sq" ++
  ops.tr "fe25519_mul" ++ ops.tr "fe25519_sub" ++ ops.tr "fe25519_sub" ++ ops.tr "fe25519_mul" ++
  ops.tr "fe25519_add" ++ ops.tr "fe25519_mul" ++ ops.tr "fe25519_add" ++ ops.tr "fe25519_sq" ++
  ops.tr "fe25519_sub" ++ ops.tr "fe25519_sq" ++ ops.tr "fe25519_mul" ++ ops.tr "fe25519_mul32" ++
  ops.tr "fe25519_add" ++ ops.tr "fe25519_mul"

/-- one iteration of `for (pos = 254; pos >= 0; --pos)` (after the loop test) -/
def ladderStepL (ops : FeOps) (x1 : Fe) (t : Bytes) (pos : Nat) (s : LadderSt) : LadderSt × Trace :=
  -- `bit = t[pos / 8] >> (pos & 7); bit &= 1;` : the index pos/8 is public
  let bit : UInt32 := ((t.getD (pos / 8) 0).toUInt32 >>> (UInt32.ofNat (pos &&& 7))) &&& 1
  let swap := s.swap ^^^ bit
  let c1 := fe25519_cswapL ⟨"x2", 0⟩ ⟨"x3", 0⟩ s.x2 s.x3 swap
  let c2 := fe25519_cswapL ⟨"z2", 0⟩ ⟨"z3", 0⟩ s.z2 s.z3 swap
  let x2 := c1.1.1; let x3 := c1.1.2; let z2 := c2.1.1; let z3 := c2.1.2
  let a := ops.add x2 z2
  let b := ops.sub x2 z2
  let aa := ops.sq a
  let bb := ops.sq b
  let x2' := ops.mul aa bb
  let e := ops.sub aa bb
  let da := ops.mul (ops.sub x3 z3) a
  let cb := ops.mul (ops.add x3 z3) b
  let x3' := ops.sq (ops.add da cb)
  let z3' := ops.mul (ops.sq (ops.sub da cb)) x1
  let z2' := ops.mul (ops.add (ops.mul32 e 121666) bb) e
  (⟨x2', z2', x3', z3', bit⟩, .load "t" (pos / 8) :: c1.2 ++ c2.2 ++ ladderBodyTrace ops)

/-- `for (pos = 254; pos >= 0; --pos)` with `fuel = pos + 1` -/
def ladderLoopL (ops : FeOps) (x1 : Fe) (t : Bytes) : Nat → LadderSt → LadderSt × Trace
  | 0, s => (s, [.branch false])
  | k + 1, s =>
    let r := ladderStepL ops x1 t k s
    let r2 := ladderLoopL ops x1 t k r.1
    (r2.1, .branch true :: r.2 ++ r2.2)

/-- x25519_ref10.c:88 `for (i = 0; i < 32; i++) { t[i] = n[i]; }` -/
def copyLoopL (src dst : String) (i : Nat) : Bytes → Bytes × Trace
  | [] => ([], [.branch false])
  | x :: xs =>
    let r := copyLoopL src dst (i + 1) xs
    (x :: r.1, .branch true :: .load src i :: .store dst i :: r.2)

/-- `t[0] &= 248; t[31] &= 127; t[31] |= 64;` -/
def clamp (t : Bytes) : Bytes :=
  let t1 := t.set 0 (t.getD 0 0 &&& 248)
  let t2 := t1.set 31 (t1.getD 31 0 &&& 127)
  t2.set 31 (t2.getD 31 0 ||| 64)

def clampTrace (r : String) : Trace := rmw r 0 ++ rmw r 31 ++ rmw r 31

/-- crypto_scalarmult_curve25519_ref10(q, n, p): `n` secret scalar, `p` public point.
    Returns `none` for `return -1`. -/
def x25519L (ops : FeOps) (n p : Bytes) : Option Bytes × Trace :=
  if ops.hasSmallOrder p then (none, ops.tr "has_small_order" ++ [.branch true]) else
  let cp := copyLoopL "n" "t" 0 n
  let t := clamp cp.1
  let x1 := ops.frombytes p
  let l := ladderLoopL ops x1 t 255 ⟨fe1, fe0, x1, fe1, 0⟩
  let c1 := fe25519_cswapL ⟨"x2", 0⟩ ⟨"x3", 0⟩ l.1.x2 l.1.x3 l.1.swap
  let c2 := fe25519_cswapL ⟨"z2", 0⟩ ⟨"z3", 0⟩ l.1.z2 l.1.z3 l.1.swap
  let z2 := ops.invert c2.1.1
  let x2 := ops.mul c1.1.1 z2
  (some (ops.tobytes x2),
   ops.tr "has_small_order" ++ [.branch false] ++ cp.2 ++ clampTrace "t" ++
   ops.tr "fe25519_frombytes" ++ ops.tr "fe25519_1" ++ ops.tr "fe25519_0" ++ ops.tr "fe25519_copy" ++
   ops.tr "fe25519_1" ++ l.2 ++ c1.2 ++ c2.2 ++
   ops.tr "fe25519_invert" ++ ops.tr "fe25519_mul" ++ ops.tr "fe25519_tobytes" ++ ops.tr "sodium_memzero")

/-! ## 6. signed radix-16 recoding and the fixed-window digit loops (ed25519_ref10.c:864, 957) -/

/-- `for (i = 0; i < 32; ++i) { e[2*i+0] = (a[i] >> 0) & 15; e[2*i+1] = (a[i] >> 4) & 15; }` -/
def nibblesL (i : Nat) : Bytes → List Int8 × Trace
  | [] => ([], [.branch false])
  | x :: xs =>
    let r := nibblesL (i + 1) xs
    (((x >>> 0) &&& 15).toInt8 :: ((x >>> 4) &&& 15).toInt8 :: r.1,
     .branch true :: .load "a" i :: .store "e" (2 * i) :: .load "a" i :: .store "e" (2 * i + 1) :: r.2)

/-- `carry = 0; for (i = 0; i < 63; ++i) { e[i] += carry; carry = e[i] + 8; carry >>= 4;
    e[i] -= carry * ((signed char) 1 << 4); } e[63] += carry;`
    over an array of any length ≥ 1 (63 = length − 1) -/
def carryLoopL (carry : Int8) (i : Nat) : List Int8 → List Int8 × Trace
  | [] => ([], [.branch false])
  | [x] => ([x + carry], [.branch false, .load "e" i, .store "e" i])
  | x :: y :: xs =>
    let e1 := x + carry
    let c := (e1 + 8) >>> 4
    let r := carryLoopL c (i + 1) (y :: xs)
    ((e1 - c * 16) :: r.1,
     .branch true :: .load "e" i :: .store "e" i :: .load "e" i :: .load "e" i :: .store "e" i :: r.2)

/-- the whole recoding: 64 signed digits of the 32-byte scalar `a` -/
def recodeL (a : Bytes) : List Int8 × Trace :=
  let n := nibblesL 0 a
  let c := carryLoopL 0 0 n.1
  (c.1, n.2 ++ c.2)

/-- the group operations: opaque, each with a FIXED trace fragment -/
structure GeOps (P1 P2 P3 : Type) where
  p3_0 : P3
  add_precomp : P3 → Precomp → P1
  add_cached : P3 → Cached → P1
  p1p1_to_p3 : P1 → P3
  p1p1_to_p2 : P1 → P2
  p2_dbl : P2 → P1
  p3_dbl : P3 → P1
  /-- the 8 multiples of the PUBLIC point, `pi[0..7]` (ed25519_ref10.c:876–904) -/
  mkTable : P3 → Fin 8 → Cached
  neg : Fe → Fe
  tr : String → Trace

section Scalarmult
variable {P1 P2 P3 : Type} (asm : Bool) (ops : GeOps P1 P2 P3)

/-- `for (i = i0; i < 64; i += 2) { cmov8_base(&t, i / 2, e[i]); add_precomp(&r, h, &t); p1p1_to_p3(h, &r); }`
    `base pos` = `base[pos]` at limb offset `120*pos` of the static table -/
def baseLoopL (base : Nat → Fin 8 → Precomp) (e : List Int8) : Nat → Nat → P3 → P3 × Trace
  | 0, _, h => (h, [.branch false])
  | k + 1, i, h =>
    let c := ge25519_cmov8L asm ops.neg (ops.tr "fe25519_neg") ⟨"t", 0⟩ ⟨"base", 120 * (i / 2)⟩ ⟨"minust", 0⟩
               (base (i / 2)) (e.getD i 0)
    let h' := ops.p1p1_to_p3 (ops.add_precomp h c.1)
    let r := baseLoopL base e k (i + 2) h'
    (r.1, .branch true :: .load "e" i :: c.2 ++ ops.tr "ge25519_add_precomp" ++ ops.tr "ge25519_p1p1_to_p3" ++ r.2)

/-- ed25519_ref10.c:957 ge25519_scalarmult_base -/
def ge25519_scalarmult_baseL (base : Nat → Fin 8 → Precomp) (a : Bytes) : P3 × Trace :=
  let e := recodeL a
  let l1 := baseLoopL asm ops base e.1 32 1 ops.p3_0
  let r := ops.p3_dbl l1.1
  let r := ops.p2_dbl (ops.p1p1_to_p2 r)
  let r := ops.p2_dbl (ops.p1p1_to_p2 r)
  let r := ops.p2_dbl (ops.p1p1_to_p2 r)
  let h := ops.p1p1_to_p3 r
  let l2 := baseLoopL asm ops base e.1 32 0 h
  (l2.1,
   e.2 ++ ops.tr "ge25519_p3_0" ++ l1.2 ++
   ops.tr "ge25519_p3_dbl" ++ ops.tr "ge25519_p1p1_to_p2" ++ ops.tr "ge25519_p2_dbl" ++
   ops.tr "ge25519_p1p1_to_p2" ++ ops.tr "ge25519_p2_dbl" ++ ops.tr "ge25519_p1p1_to_p2" ++
   ops.tr "ge25519_p2_dbl" ++ ops.tr "ge25519_p1p1_to_p3" ++ l2.2)

/-- the fixed sequence after each table lookup in `ge25519_scalarmult` -/
def windowTrace : Trace :=
  ops.tr "ge25519_add_cached" ++
  ops.tr "ge25519_p1p1_to_p2" ++ ops.tr "ge25519_p2_dbl" ++ ops.tr "ge25519_p1p1_to_p2" ++ ops.tr "ge25519_p2_dbl" ++
  ops.tr "ge25519_p1p1_to_p2" ++ ops.tr "ge25519_p2_dbl" ++ ops.tr "ge25519_p1p1_to_p2" ++ ops.tr "ge25519_p2_dbl" ++
  ops.tr "ge25519_p1p1_to_p3"

/-- `for (i = 63; i != 0; i--) { cmov8_cached(&t, pi, e[i]); add_cached; 4 × (p1p1_to_p2; p2_dbl); p1p1_to_p3 }`
    with `fuel = i` -/
def varLoopL (pi : Fin 8 → Cached) (e : List Int8) : Nat → P3 → P3 × Trace
  | 0, h => (h, [.branch false])
  | k + 1, h =>
    let i := k + 1
    let c := ge25519_cmov8_cachedL asm ops.neg (ops.tr "fe25519_neg") ⟨"t", 0⟩ ⟨"pi", 0⟩ ⟨"minust", 0⟩ pi (e.getD i 0)
    let r := ops.add_cached h c.1
    let r := ops.p2_dbl (ops.p1p1_to_p2 r)
    let r := ops.p2_dbl (ops.p1p1_to_p2 r)
    let r := ops.p2_dbl (ops.p1p1_to_p2 r)
    let r := ops.p2_dbl (ops.p1p1_to_p2 r)
    let l := varLoopL pi e k (ops.p1p1_to_p3 r)
    (l.1, .branch true :: .load "e" i :: c.2 ++ windowTrace ops ++ l.2)

/-- ed25519_ref10.c:864 ge25519_scalarmult: `a` secret scalar, `p` PUBLIC point -/
def ge25519_scalarmultL (a : Bytes) (p : P3) : P3 × Trace :=
  let pi := ops.mkTable p
  let e := recodeL a
  let l := varLoopL asm ops pi e.1 63 ops.p3_0
  let c := ge25519_cmov8_cachedL asm ops.neg (ops.tr "fe25519_neg") ⟨"t", 0⟩ ⟨"pi", 0⟩ ⟨"minust", 0⟩ pi (e.1.getD 0 0)
  let r := ops.add_cached l.1 c.1
  (ops.p1p1_to_p3 r,
   ops.tr "precompute_pi" ++ e.2 ++ ops.tr "ge25519_p3_0" ++ l.2 ++
   .load "e" 0 :: c.2 ++ ops.tr "ge25519_add_cached" ++ ops.tr "ge25519_p1p1_to_p3")

end Scalarmult

/-! ## Negative controls: code that is NOT constant-time, in the same leakage model -/

/-- `for (i = 0; i < len; i++) { if (b1[i] != b2[i]) return -1; } return 0;` -/
def memcmpEarlyL (i : Nat) : Bytes → Bytes → Int32 × Trace
  | x :: xs, y :: ys =>
    if x ≠ y then (-1, [.branch true, .load "b1" i, .load "b2" i, .branch true])
    else
      let r := memcmpEarlyL (i + 1) xs ys
      (r.1, .branch true :: .load "b1" i :: .load "b2" i :: .branch false :: r.2)
  | _, _ => (0, [.branch false])

/-- `*t = precomp[babs - 1]` (direct secret-indexed table read), then the same conditional negation -/
def lookupDirectL (ptab : Ptr) (tbl : Fin 8 → Precomp) (b : Int8) : Precomp × Trace :=
  let j : Nat := (ctBabs b).toNat - 1
  let p := ptab.shift (15 * j)
  (if h : j < 8 then tbl ⟨j, h⟩ else precomp0,
   feLoads p ++ feLoads (p.shift 5) ++ feLoads (p.shift 10))

end Sodium.Model.Leak
