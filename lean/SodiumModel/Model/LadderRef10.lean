import SodiumModel.Basic
import SodiumModel.Spec.Field25519
import SodiumModel.Spec.Ed25519
/-
  Model of the field-arithmetic part of crypto_scalarmult/curve25519/ref10/x25519_ref10.c, written in
  the statement order of the C code over an ABSTRACT field:

    crypto_scalarmult_curve25519_ref10        (lines 91–134: `fe25519_frombytes` … ladder … `fe25519_tobytes`)
    edwards_to_montgomery
    crypto_scalarmult_curve25519_ref10_base   (after the clamping; `ge25519_scalarmult_base` is a parameter)

  The part of `crypto_scalarmult_curve25519_ref10` BEFORE `fe25519_frombytes` (`has_small_order`, the copy
  `t[i] = n[i]` and the clamping) is `Model/Scalarmult.lean` (`mult_ref10`, whose parameter `X` receives
  the already clamped copy `t`); `ladder` below is what is plugged in for that `X`.

  `fe25519` is a type parameter `F` with the operations of `private/ed25519_ref10_fe_*.h` as a structure
  (`FieldOps`); `specField` instantiates it with the specification field `Spec.F25519` (naturals, every
  operation returns the canonical representative).  `unsigned int` = UInt32; `int pos` runs over
  254 … 0 and is a `Nat` (the loop is a recursion on `pos + 1`).

  A leakage-instrumented skeleton of the same loop is `Model/Leak.lean` (`ladderStepL`); the model
  here is trace-free and is about VALUES.  Mathlib-free.
-/
namespace Sodium.Model.LadderRef10
open Sodium

/-- the `fe25519_*` operations used by x25519_ref10.c.  Output-first C signatures
    `fe25519_op(h, f, g)` become `h := op f g`. -/
structure FieldOps (F : Type) where
  /-- `fe25519_add(h, f, g)` -/
  add : F → F → F
  /-- `fe25519_sub(h, f, g)` -/
  sub : F → F → F
  /-- `fe25519_mul(h, f, g)` -/
  mul : F → F → F
  /-- `fe25519_sq(h, f)` -/
  sq : F → F
  /-- `fe25519_mul32(h, f, n)` with `uint32_t n` (called with the constant 121666) -/
  mul32 : F → UInt32 → F
  /-- `fe25519_invert(out, z)` -/
  invert : F → F
  /-- `fe25519_frombytes(h, s)` -/
  frombytes : Bytes → F
  /-- `fe25519_tobytes(s, h)` -/
  tobytes : F → Bytes
  /-- `fe25519_cswap(f, g, b)`: the new `(f, g)`.  The C code requires `b ∈ {0, 1}`. -/
  cswap : F → F → UInt32 → F × F
  /-- `fe25519_1(h)` -/
  one : F
  /-- `fe25519_0(h)` -/
  zero : F

/-- the live variables of the loop: `x2, z2, x3, z3` and `swap` (`x1` and `t` are loop-invariant;
    `a, b, aa, bb, e, da, cb` are dead at the loop head) -/
structure State (F : Type) where
  x2 : F
  z2 : F
  x3 : F
  z3 : F
  swap : UInt32

/-- `bit = t[pos / 8] >> (pos & 7);  bit &= 1;`
    (`t[…]` is promoted to `int`, shifted, converted to `unsigned int`: value-preserving) -/
def scalarBit (t : Bytes) (pos : Nat) : UInt32 :=
  let bit : UInt32 := (t.getD (pos / 8) 0).toUInt32 >>> UInt32.ofNat (pos &&& 7)
  bit &&& 1

/-- one iteration of `for (pos = 254; pos >= 0; --pos)`, C statement order (x25519_ref10.c:101–126) -/
def step {F : Type} (ops : FieldOps F) (x1 : F) (t : Bytes) (pos : Nat) (s : State F) : State F :=
  let bit := scalarBit t pos                -- bit = t[pos / 8] >> (pos & 7); bit &= 1;
  let swap := s.swap ^^^ bit                -- swap ^= bit;
  let cx := ops.cswap s.x2 s.x3 swap        -- fe25519_cswap(x2, x3, swap);
  let x2 := cx.1; let x3 := cx.2
  let cz := ops.cswap s.z2 s.z3 swap        -- fe25519_cswap(z2, z3, swap);
  let z2 := cz.1; let z3 := cz.2
  let swap := bit                           -- swap = bit;
  let a := ops.add x2 z2                    -- fe25519_add(a, x2, z2);
  let b := ops.sub x2 z2                    -- fe25519_sub(b, x2, z2);
  let aa := ops.sq a                        -- fe25519_sq(aa, a);
  let bb := ops.sq b                        -- fe25519_sq(bb, b);
  let x2 := ops.mul aa bb                   -- fe25519_mul(x2, aa, bb);
  let e := ops.sub aa bb                    -- fe25519_sub(e, aa, bb);
  let da := ops.sub x3 z3                   -- fe25519_sub(da, x3, z3);
  let da := ops.mul da a                    -- fe25519_mul(da, da, a);
  let cb := ops.add x3 z3                   -- fe25519_add(cb, x3, z3);
  let cb := ops.mul cb b                    -- fe25519_mul(cb, cb, b);
  let x3 := ops.add da cb                   -- fe25519_add(x3, da, cb);
  let x3 := ops.sq x3                       -- fe25519_sq(x3, x3);
  let z3 := ops.sub da cb                   -- fe25519_sub(z3, da, cb);
  let z3 := ops.sq z3                       -- fe25519_sq(z3, z3);
  let z3 := ops.mul z3 x1                   -- fe25519_mul(z3, z3, x1);
  let z2 := ops.mul32 e 121666              -- fe25519_mul32(z2, e, 121666);
  let z2 := ops.add z2 bb                   -- fe25519_add(z2, z2, bb);
  let z2 := ops.mul z2 e                    -- fe25519_mul(z2, z2, e);
  { x2 := x2, z2 := z2, x3 := x3, z3 := z3, swap := swap }

/-- `for (pos = 254; pos >= 0; --pos) { … }` with `fuel = pos + 1` iterations left -/
def loop {F : Type} (ops : FieldOps F) (x1 : F) (t : Bytes) : Nat → State F → State F
  | 0, s => s
  | pos + 1, s => loop ops x1 t pos (step ops x1 t pos s)

/-- `crypto_scalarmult_curve25519_ref10` from `fe25519_frombytes(x1, p)` to `fe25519_tobytes(q, x2)`:
    `t` = the (clamped) scalar copy, `p` = the point encoding; the result is the content of `q`. -/
def ladder {F : Type} (ops : FieldOps F) (t p : Bytes) : Bytes :=
  let x1 := ops.frombytes p                 -- fe25519_frombytes(x1, p);
  let x2 := ops.one                         -- fe25519_1(x2);
  let z2 := ops.zero                        -- fe25519_0(z2);
  let x3 := x1                              -- fe25519_copy(x3, x1);
  let z3 := ops.one                         -- fe25519_1(z3);
  let swap : UInt32 := 0                    -- swap = 0;
  let s := loop ops x1 t 255 { x2 := x2, z2 := z2, x3 := x3, z3 := z3, swap := swap }
  let x2 := (ops.cswap s.x2 s.x3 s.swap).1  -- fe25519_cswap(x2, x3, swap);
  let z2 := (ops.cswap s.z2 s.z3 s.swap).1  -- fe25519_cswap(z2, z3, swap);
  let z2 := ops.invert z2                   -- fe25519_invert(z2, z2);
  let x2 := ops.mul x2 z2                   -- fe25519_mul(x2, x2, z2);
  ops.tobytes x2                            -- fe25519_tobytes(q, x2);

/-! ### the base-point function -/

/-- `ge25519_p3` -/
structure P3 (F : Type) where
  X : F
  Y : F
  Z : F
  T : F

/-- `edwards_to_montgomery(montgomeryX, edwardsY, edwardsZ)` -/
def edwards_to_montgomery {F : Type} (ops : FieldOps F) (edwardsY edwardsZ : F) : F :=
  let tempX := ops.add edwardsZ edwardsY    -- fe25519_add(tempX, edwardsZ, edwardsY);
  let tempZ := ops.sub edwardsZ edwardsY    -- fe25519_sub(tempZ, edwardsZ, edwardsY);
  let tempZ := ops.invert tempZ             -- fe25519_invert(tempZ, tempZ);
  ops.mul tempX tempZ                       -- fe25519_mul(montgomeryX, tempX, tempZ);

/-- `crypto_scalarmult_curve25519_ref10_base(q, n)`; `scalarmult_base` = `ge25519_scalarmult_base`
    applied to the clamped copy `t` (which the C code keeps in `q`). -/
def base {F : Type} (ops : FieldOps F) (scalarmult_base : Bytes → P3 F) (n : Bytes) : Bytes :=
  let t := n.take 32                                   -- for (i = 0; i < 32; i++) t[i] = n[i];
  let t := t.set 0 (t.getD 0 0 &&& 248)                -- t[0] &= 248;
  let t := t.set 31 (t.getD 31 0 &&& 127)              -- t[31] &= 127;
  let t := t.set 31 (t.getD 31 0 ||| 64)               -- t[31] |= 64;
  let A := scalarmult_base t                           -- ge25519_scalarmult_base(&A, t);
  let pk := edwards_to_montgomery ops A.Y A.Z          -- edwards_to_montgomery(pk, A.Y, A.Z);
  ops.tobytes pk                                       -- fe25519_tobytes(q, pk);

/-! ### instantiation with the specification field -/

/-- `Spec.F25519` as `FieldOps`: naturals, every operation returns the canonical representative;
    `frombytes` masks bit 255 and reduces, `tobytes` is canonical.
    `cswap f g b` swaps iff `b ≠ 0`; the C code (mask `-(int64_t) b`) is only meaningful for
    `b ∈ {0, 1}`, and the ladder only ever passes 0 or 1 (`Proofs/LadderRef10.lean`, `Rel`). -/
def specField : FieldOps Nat where
  add := Spec.F25519.add
  sub := Spec.F25519.sub
  mul := Spec.F25519.mul
  sq := Spec.F25519.sqr
  mul32 f n := Spec.F25519.mul f n.toNat
  invert := Spec.F25519.inv
  frombytes := Spec.F25519.fromBytesMasked
  tobytes := Spec.F25519.toBytes
  cswap f g b := if b = 0 then (f, g) else (g, f)
  one := 1
  zero := 0

/-- the ref10 ladder over the specification field: what the driver uses as `X` -/
def x25519_ref10 (t p : Bytes) : Bytes := ladder specField t p

/-- `ge25519_scalarmult_base(&A, t)` as specified in `Spec/Ed25519.lean`: `[le t]B` in extended
    coordinates (RFC 8032 `point_mul`) -/
def specScalarmultBase (t : Bytes) : P3 Nat :=
  let A := Spec.Ed25519.scalarMult (le t) Spec.Ed25519.basePoint
  { X := A.X, Y := A.Y, Z := A.Z, T := A.T }

/-- `crypto_scalarmult_curve25519_ref10_base` over the specification field and the specification's
    Edwards base-point multiplication: what the driver uses for `crypto_scalarmult_curve25519_base` -/
def x25519_ref10_base (n : Bytes) : Bytes := base specField specScalarmultBase n

end Sodium.Model.LadderRef10
