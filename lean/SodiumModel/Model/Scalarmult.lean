import SodiumModel.Basic
import SodiumModel.Model.Utils
/-
  Model of the X25519 entry points and of the key-agreement constructions built on them,
  written to the structure of the C code:

    crypto_scalarmult/curve25519/scalarmult_curve25519.c   crypto_scalarmult_curve25519 (all-zero check)
    crypto_scalarmult/curve25519/ref10/x25519_ref10.c      has_small_order, crypto_scalarmult_curve25519_ref10
    crypto_scalarmult/curve25519/sandy2x/curve25519_sandy2x.c   (clamping, no early reject)
    crypto_kx/crypto_kx.c                                  seed_keypair, client/server_session_keys
    crypto_box/curve25519x{salsa,chacha}20poly1305/*.c     seed_keypair, beforenm

  Primitives are parameters:
    `X : Bytes → Bytes → Bytes`  the field-arithmetic part of an implementation's `mult`
                                 (`fe25519_frombytes` … ladder … `fe25519_tobytes`) applied to the
                                 ALREADY CLAMPED copy `t` of the scalar and the point encoding `p`;
    `base : Bytes → Bytes`       `crypto_scalarmult_curve25519_base`;
    `H : Bytes → Bytes`          BLAKE2b-512 (`crypto_generichash` with outlen 64, no key; the
                                 init/update/update/update/final sequence hashes the concatenation);
    `H32 : Bytes → Bytes`        BLAKE2b-256; `sha512`; `hcore` = HSalsa20 / HChaCha20 (input, key).

  `unsigned char` = UInt8, `unsigned int` = UInt32, `int` = Int32.  Bitwise `|`, `^`, `&` on
  `unsigned char` operands are written on UInt8 (the promotion to `int` and the conversion back in
  `c[i] |= …` are value-preserving for these operators, as in `Model/Utils.lean`); subtractions
  are written with the promotion because they can go negative.
-/
namespace Sodium.Model.Scalarmult
open Sodium Sodium.Model

/-! ### ref10 `has_small_order` -/

/-- `static const unsigned char blocklist[][32]` of x25519_ref10.c (7 rows, transcribed) -/
def blocklist : List Bytes := [
  /- 0 (order 4) -/
  [ 0x00, 0x00, 0x00, 0x00, 0x00, 0x00, 0x00, 0x00, 0x00, 0x00, 0x00,
    0x00, 0x00, 0x00, 0x00, 0x00, 0x00, 0x00, 0x00, 0x00, 0x00, 0x00,
    0x00, 0x00, 0x00, 0x00, 0x00, 0x00, 0x00, 0x00, 0x00, 0x00 ],
  /- 1 (order 1) -/
  [ 0x01, 0x00, 0x00, 0x00, 0x00, 0x00, 0x00, 0x00, 0x00, 0x00, 0x00,
    0x00, 0x00, 0x00, 0x00, 0x00, 0x00, 0x00, 0x00, 0x00, 0x00, 0x00,
    0x00, 0x00, 0x00, 0x00, 0x00, 0x00, 0x00, 0x00, 0x00, 0x00 ],
  /- 325606250916557431795983626356110631294008115727848805560023387167927233504 (order 8) -/
  [ 0xe0, 0xeb, 0x7a, 0x7c, 0x3b, 0x41, 0xb8, 0xae, 0x16, 0x56, 0xe3,
    0xfa, 0xf1, 0x9f, 0xc4, 0x6a, 0xda, 0x09, 0x8d, 0xeb, 0x9c, 0x32,
    0xb1, 0xfd, 0x86, 0x62, 0x05, 0x16, 0x5f, 0x49, 0xb8, 0x00 ],
  /- 39382357235489614581723060781553021112529911719440698176882885853963445705823 (order 8) -/
  [ 0x5f, 0x9c, 0x95, 0xbc, 0xa3, 0x50, 0x8c, 0x24, 0xb1, 0xd0, 0xb1,
    0x55, 0x9c, 0x83, 0xef, 0x5b, 0x04, 0x44, 0x5c, 0xc4, 0x58, 0x1c,
    0x8e, 0x86, 0xd8, 0x22, 0x4e, 0xdd, 0xd0, 0x9f, 0x11, 0x57 ],
  /- p-1 (order 2) -/
  [ 0xec, 0xff, 0xff, 0xff, 0xff, 0xff, 0xff, 0xff, 0xff, 0xff, 0xff,
    0xff, 0xff, 0xff, 0xff, 0xff, 0xff, 0xff, 0xff, 0xff, 0xff, 0xff,
    0xff, 0xff, 0xff, 0xff, 0xff, 0xff, 0xff, 0xff, 0xff, 0x7f ],
  /- p (=0, order 4) -/
  [ 0xed, 0xff, 0xff, 0xff, 0xff, 0xff, 0xff, 0xff, 0xff, 0xff, 0xff,
    0xff, 0xff, 0xff, 0xff, 0xff, 0xff, 0xff, 0xff, 0xff, 0xff, 0xff,
    0xff, 0xff, 0xff, 0xff, 0xff, 0xff, 0xff, 0xff, 0xff, 0x7f ],
  /- p+1 (=1, order 1) -/
  [ 0xee, 0xff, 0xff, 0xff, 0xff, 0xff, 0xff, 0xff, 0xff, 0xff, 0xff,
    0xff, 0xff, 0xff, 0xff, 0xff, 0xff, 0xff, 0xff, 0xff, 0xff, 0xff,
    0xff, 0xff, 0xff, 0xff, 0xff, 0xff, 0xff, 0xff, 0xff, 0x7f ] ]

/-- the table under its historical name -/
abbrev blacklist : List Bytes := blocklist

/-- inner loop at byte index `j` with `x = s[j]` (or `s[j] & 0x7f` for the last byte):
    `for (i = 0; i < 7; i++) c[i] |= x ^ blocklist[i][j];` -/
def orColumn (tbl : List Bytes) (x : UInt8) (j : Nat) (c : List UInt8) : List UInt8 :=
  List.zipWith (fun ci row => ci ||| (x ^^^ row.getD j 0)) c tbl

/-- outer loop `for (j = …; j < …; j++) { inner }`, `n` iterations starting at index `j` -/
def orColumns (tbl : List Bytes) (s : Bytes) : Nat → Nat → List UInt8 → List UInt8
  | _, 0, c => c
  | j, n + 1, c => orColumns tbl s (j + 1) n (orColumn tbl (s.getD j 0) j c)

/-- `k |= (c[i] - 1);` : `c[i]` is promoted to `int` (so 0 - 1 = -1), the `int` result is converted
    to `unsigned int` (-1 ↦ 0xffffffff) for the `|=` on `unsigned int k` -/
def orMinus1 (k : UInt32) (ci : UInt8) : UInt32 := k ||| (ci.toUInt32.toInt32 - 1).toUInt32

/-- `return (int) ((k >> 8) & 1);` on `unsigned int k` -/
def smallOrderFinal (k : UInt32) : Int32 := ((k >>> 8) &&& 1).toInt32

/-- `has_small_order(s)` -/
def has_small_order (s : Bytes) : Int32 :=
  let c : List UInt8 := List.replicate 7 0                       -- unsigned char c[7] = { 0 };
  let c := orColumns blocklist s 0 31 c                          -- for (j = 0; j < 31; j++) …
  let c := orColumn blocklist (s.getD 31 0 &&& 0x7f) 31 c        -- c[i] |= (s[31] & 0x7f) ^ blocklist[i][31]
  let k := c.foldl orMinus1 0                                    -- k = 0; for (i…) k |= (c[i] - 1);
  smallOrderFinal k

/-! ### the `mult` member of the two implementations -/

/-- `for (i = 0; i < 32; i++) t[i] = n[i];  t[0] &= 248;  t[31] &= 127;  t[31] |= 64;` -/
def clamp (n : Bytes) : Bytes :=
  let t := n.take 32
  let t := t.set 0 (t.getD 0 0 &&& 248)
  let t := t.set 31 (t.getD 31 0 &&& 127)
  t.set 31 (t.getD 31 0 ||| 64)

/-- `crypto_scalarmult_curve25519_ref10`: `none` = returned -1 without writing `q`
    (early reject), `some q` = returned 0 with `q` written. -/
def mult_ref10 (X : Bytes → Bytes → Bytes) (n p : Bytes) : Option Bytes :=
  if has_small_order p != 0 then none          -- if (has_small_order(p)) return -1;
  else some (X (clamp n) p)

/-- `crypto_scalarmult_curve25519_sandy2x`: same clamping, no early reject, always returns 0 -/
def mult_sandy2x (X : Bytes → Bytes → Bytes) (n p : Bytes) : Option Bytes :=
  some (X (clamp n) p)

/-! ### `crypto_scalarmult_curve25519` -/

/-- `return -(1 & ((d - 1) >> 8));` : `d` promoted to `int`, arithmetic shift -/
def rcFinal (d : UInt8) : Int32 := -((1 : Int32) &&& ((d.toUInt32.toInt32 - 1) >>> 8))

/-- `crypto_scalarmult_curve25519(q, n, p)` over the selected implementation's `mult`.
    Result: return code and the contents of `q` (`none` = never written). -/
def crypto_scalarmult_curve25519 (mult : Bytes → Bytes → Option Bytes) (n p : Bytes) :
    Int32 × Option Bytes :=
  match mult n p with
  | none => (-1, none)                                   -- if (implementation->mult(q, n, p) != 0) return -1;
  | some q => (rcFinal (orAll 0 (q.take 32)), some q)    -- for (i < 32) d |= q[i];

/-! ### crypto_box: seeded key pair and precomputation -/

/-- `crypto_box_curve25519x{salsa,chacha}20poly1305_seed_keypair`: returns (rc, pk, sk) -/
def crypto_box_seed_keypair (sha512 : Bytes → Bytes) (base : Bytes → Bytes) (seed : Bytes) :
    Int32 × Bytes × Bytes :=
  let hash := sha512 (seed.take 32)      -- crypto_hash_sha512(hash, seed, 32);
  let sk := hash.take 32                 -- memcpy(sk, hash, 32);
  (0, base sk, sk)                       -- return crypto_scalarmult_curve25519_base(pk, sk);

/-- `crypto_box_…_beforenm(k, pk, sk)`; `hcore inp key` = HSalsa20 / HChaCha20 with the default constant -/
def crypto_box_beforenm (mult : Bytes → Bytes → Option Bytes) (hcore : Bytes → Bytes → Bytes)
    (pk sk : Bytes) : Int32 × Option Bytes :=
  let zero : Bytes := zeros 16                                  -- static const unsigned char zero[16] = { 0 };
  match crypto_scalarmult_curve25519 mult sk pk with
  | (rc, s) =>
    if rc != 0 then (-1, none)                                  -- if (crypto_scalarmult_curve25519(s, sk, pk) != 0) return -1;
    else (0, some (hcore zero (s.getD [])))                     -- return crypto_core_h…20(k, zero, s, NULL);

/-! ### crypto_kx -/

/-- `crypto_kx_seed_keypair`: returns (rc, pk, sk) -/
def crypto_kx_seed_keypair (H32 : Bytes → Bytes) (base : Bytes → Bytes) (seed : Bytes) :
    Int32 × Bytes × Bytes :=
  let sk := H32 (seed.take 32)           -- crypto_generichash(sk, 32, seed, 32, NULL, 0);
  (0, base sk, sk)                       -- return crypto_scalarmult_base(pk, sk);

/-- The two caller-provided output buffers, named after the ARGUMENT POSITION in which the caller
    passed them (`A` = first argument `rx`, `B` = second argument `tx`). -/
inductive Buf | A | B
  deriving DecidableEq, Repr

/-- a pointer argument: `none` = NULL -/
abbrev Ptr := Option Buf

/-- contents of the two buffers -/
structure Mem where
  A : Bytes
  B : Bytes
  deriving DecidableEq, Repr

def Mem.get (m : Mem) : Buf → Bytes
  | .A => m.A
  | .B => m.B

/-- `p[i] = v` -/
def Mem.store (m : Mem) (p : Buf) (i : Nat) (v : UInt8) : Mem :=
  match p with
  | .A => { m with A := m.A.set i v }
  | .B => { m with B := m.B.set i v }

/-- `for (i = 0; i < 32; i++) { first[i] = keys[i + o1]; second[i] = keys[i + o2]; }`
    (`n` iterations starting at `i`); the two stores of one iteration happen in this order. -/
def storeLoop (keys : Bytes) (first second : Buf) (o1 o2 : Nat) : Nat → Nat → Mem → Mem
  | _, 0, m => m
  | i, n + 1, m =>
    let m := m.store first i (keys.getD (i + o1) 0)
    let m := m.store second i (keys.getD (i + o2) 0)
    storeLoop keys first second o1 o2 (i + 1) n m

/-- outcome of a session-key call: `sodium_misuse()` (abort) or a return code with the final memory -/
inductive KxOutcome
  | misuse
  | ret (rc : Int32) (m : Mem)
  deriving DecidableEq, Repr

/-- `if (rx == NULL) rx = tx;  if (tx == NULL) tx = rx;` -/
def aliasPtrs (rx tx : Ptr) : Ptr × Ptr :=
  let rx := if rx = none then tx else rx
  let tx := if tx = none then rx else tx
  (rx, tx)

/-- common body of `crypto_kx_{client,server}_session_keys` after the pointer fix-up;
    `sk`, `pk` = the arguments of `crypto_scalarmult`; `server` selects the store order. -/
def kxBody (mult : Bytes → Bytes → Option Bytes) (H : Bytes → Bytes) (server : Bool)
    (rx tx : Ptr) (m : Mem) (client_pk server_pk sk pk : Bytes) : KxOutcome :=
  match aliasPtrs rx tx with
  | (some rxp, some txp) =>
    match crypto_scalarmult_curve25519 mult sk pk with
    | (rc, q) =>
      if rc != 0 then .ret (-1) m                                        -- return -1;
      else
        -- init(outlen 64); update(q, 32); update(client_pk, 32); update(server_pk, 32); final(keys, 64)
        let keys := H ((q.getD []).take 32 ++ client_pk.take 32 ++ server_pk.take 32)
        if server then
          .ret 0 (storeLoop keys txp rxp 0 32 0 32 m)                    -- tx[i] = keys[i]; rx[i] = keys[i + 32];
        else
          .ret 0 (storeLoop keys rxp txp 0 32 0 32 m)                    -- rx[i] = keys[i]; tx[i] = keys[i + 32];
  | _ => .misuse                                                         -- if (rx == NULL) sodium_misuse();

/-- `crypto_kx_client_session_keys(rx, tx, client_pk, client_sk, server_pk)` -/
def crypto_kx_client_session_keys (mult : Bytes → Bytes → Option Bytes) (H : Bytes → Bytes)
    (rx tx : Ptr) (m : Mem) (client_pk client_sk server_pk : Bytes) : KxOutcome :=
  kxBody mult H false rx tx m client_pk server_pk client_sk server_pk

/-- `crypto_kx_server_session_keys(rx, tx, server_pk, server_sk, client_pk)` -/
def crypto_kx_server_session_keys (mult : Bytes → Bytes → Option Bytes) (H : Bytes → Bytes)
    (rx tx : Ptr) (m : Mem) (server_pk server_sk client_pk : Bytes) : KxOutcome :=
  kxBody mult H true rx tx m client_pk server_pk server_sk client_pk

/-! #### the documented call forms: distinct 32-byte buffers, either of which may be omitted -/

/-- result seen by a caller that passes buffer `A` as `rx` iff `wantRx` and buffer `B` as `tx`
    iff `wantTx`: return code, final contents of its `rx` buffer, of its `tx` buffer -/
structure KxKeys where
  rc : Int32
  rx : Option Bytes
  tx : Option Bytes
  deriving DecidableEq, Repr

def kxView (wantRx wantTx : Bool) : KxOutcome → Option KxKeys
  | .misuse => none
  | .ret rc m => some ⟨rc, if wantRx then some m.A else none, if wantTx then some m.B else none⟩

/-- initial contents of the output buffers in the call-form wrappers -/
def mem0 : Mem := ⟨zeros 32, zeros 32⟩

def kxClient (mult : Bytes → Bytes → Option Bytes) (H : Bytes → Bytes) (wantRx wantTx : Bool)
    (client_pk client_sk server_pk : Bytes) : Option KxKeys :=
  kxView wantRx wantTx (crypto_kx_client_session_keys mult H
    (if wantRx then some .A else none) (if wantTx then some .B else none) mem0 client_pk client_sk server_pk)

def kxServer (mult : Bytes → Bytes → Option Bytes) (H : Bytes → Bytes) (wantRx wantTx : Bool)
    (server_pk server_sk client_pk : Bytes) : Option KxKeys :=
  kxView wantRx wantTx (crypto_kx_server_session_keys mult H
    (if wantRx then some .A else none) (if wantTx then some .B else none) mem0 server_pk server_sk client_pk)

end Sodium.Model.Scalarmult
