import SodiumModel.Model.Utils
/-
  Model of the glue code of
    crypto_core/ed25519/core_ed25519.c          (scalar_* wrappers, is_valid_point, from_string*)
    crypto_core/ed25519/core_h2c.c              (expand_message_xmd, both hash instantiations)
    crypto_scalarmult/ed25519/ref10/scalarmult_ed25519_ref10.c   (return-code logic, clamping)
  written to the structure of the C code.  Buffers are byte lists of the declared C size,
  `memcpy`/`memset` are explicit, `int` is Int32, `unsigned char` is UInt8, `unsigned int` is UInt32.

  The arithmetic primitives (`sc25519_reduce`, `sc25519_mul`, `sc25519_invert`), the group
  primitives (`ge25519_*`) and the hash function are PARAMETERS.
  `sodium_add` / `sodium_sub` / `sodium_is_zero` are the models of `Model/Utils.lean`
  (the generic loops; `Properties/C14.lean` proves the amd64 fast paths byte-identical).
-/
namespace Sodium.Model.Scalar
open Sodium Sodium.Model

/-! ### memory helpers -/

/-- `memcpy(dst + off, src, n)` on a buffer of fixed size -/
def memcpyAt (dst : Bytes) (off : Nat) (src : Bytes) (n : Nat) : Bytes :=
  dst.take off ++ src.take n ++ dst.drop (off + n)

/-- `crypto_core_ed25519_SCALARBYTES` -/
def SCALARBYTES : Nat := 32
/-- `crypto_core_ed25519_NONREDUCEDSCALARBYTES` -/
def NONREDUCEDSCALARBYTES : Nat := 64

/-- `static const unsigned char L[]` of core_ed25519.c : 2^252+27742317777372353535851937790883648493 -/
def Lbytes : Bytes :=
  [0xed, 0xd3, 0xf5, 0x5c, 0x1a, 0x63, 0x12, 0x58, 0xd6, 0x9c, 0xf7,
   0xa2, 0xde, 0xf9, 0xde, 0x14, 0x00, 0x00, 0x00, 0x00, 0x00, 0x00,
   0x00, 0x00, 0x00, 0x00, 0x00, 0x00, 0x00, 0x00, 0x00, 0x10]

/-- `sc25519_reduce(t)` works in place on a 64-byte buffer: the 32 result bytes overwrite `t[0..32)`.
    `reduce : Bytes(64) → Bytes(32)` is the parameter. -/
def sc25519_reduce_inplace (reduce : Bytes → Bytes) (t : Bytes) : Bytes :=
  memcpyAt t 0 (reduce t) SCALARBYTES

/-! ### crypto_core_ed25519_scalar_* -/

/-- `crypto_core_ed25519_scalar_reduce(r, s)` : `memcpy(t, s, 64); sc25519_reduce(t); memcpy(r, t, 32)` -/
def scalar_reduce (reduce : Bytes → Bytes) (s : Bytes) : Bytes :=
  let t := memcpyAt (zeros NONREDUCEDSCALARBYTES) 0 s NONREDUCEDSCALARBYTES
  let t := sc25519_reduce_inplace reduce t
  t.take SCALARBYTES

/-- `crypto_core_ed25519_scalar_negate(neg, s)` -/
def scalar_negate (reduce : Bytes → Bytes) (s : Bytes) : Bytes :=
  let t_ := zeros NONREDUCEDSCALARBYTES                       -- memset(t_, 0, sizeof t_)
  let s_ := zeros NONREDUCEDSCALARBYTES                       -- memset(s_, 0, sizeof s_)
  let t_ := memcpyAt t_ SCALARBYTES Lbytes SCALARBYTES        -- memcpy(t_ + 32, L, 32)
  let s_ := memcpyAt s_ 0 s SCALARBYTES                       -- memcpy(s_, s, 32)
  let t_ := sodium_sub_generic t_ s_                          -- sodium_sub(t_, s_, sizeof t_)
  let t_ := sc25519_reduce_inplace reduce t_                  -- sc25519_reduce(t_)
  t_.take SCALARBYTES                                         -- memcpy(neg, t_, 32)

/-- `crypto_core_ed25519_scalar_complement(comp, s)` -/
def scalar_complement (reduce : Bytes → Bytes) (s : Bytes) : Bytes :=
  let t_ := zeros NONREDUCEDSCALARBYTES
  let s_ := zeros NONREDUCEDSCALARBYTES
  let t_ := t_.set 0 (t_[0]! + 1)                             -- t_[0]++
  let t_ := memcpyAt t_ SCALARBYTES Lbytes SCALARBYTES
  let s_ := memcpyAt s_ 0 s SCALARBYTES
  let t_ := sodium_sub_generic t_ s_
  let t_ := sc25519_reduce_inplace reduce t_
  t_.take SCALARBYTES

/-- `crypto_core_ed25519_scalar_add(z, x, y)` : NOTE `sodium_add` is called with length 32, not 64 -/
def scalar_add (reduce : Bytes → Bytes) (x y : Bytes) : Bytes :=
  let x_ := zeros NONREDUCEDSCALARBYTES
  let y_ := zeros NONREDUCEDSCALARBYTES
  let x_ := memcpyAt x_ 0 x SCALARBYTES
  let y_ := memcpyAt y_ 0 y SCALARBYTES
  -- sodium_add(x_, y_, crypto_core_ed25519_SCALARBYTES): only the first 32 bytes take part
  let x_ := memcpyAt x_ 0 (sodium_add_generic (x_.take SCALARBYTES) (y_.take SCALARBYTES)) SCALARBYTES
  scalar_reduce reduce x_

/-- `crypto_core_ed25519_scalar_sub(z, x, y)` : negate, then add -/
def scalar_sub (reduce : Bytes → Bytes) (x y : Bytes) : Bytes :=
  let yn := scalar_negate reduce y
  scalar_add reduce x yn

/-- `crypto_core_ed25519_scalar_mul(z, x, y)` : `sc25519_mul(z, x, y)` -/
def scalar_mul (mul : Bytes → Bytes → Bytes) (x y : Bytes) : Bytes := mul x y

/-- `crypto_core_ed25519_scalar_invert(recip, s)` : (return code, recip);
    `sc25519_invert(recip, s); return - sodium_is_zero(s, 32);` -/
def scalar_invert (invert : Bytes → Bytes) (s : Bytes) : Int32 × Bytes :=
  let recip := invert s
  (- sodium_is_zero (s.take SCALARBYTES), recip)

/-! ### sc25519_is_canonical (ed25519_ref10.c) -/

/-- one iteration of the `do { i--; … } while (i != 0)` body on the byte pair (s[i], L[i]);
    the operands are promoted to `int`, `>>` is arithmetic, the results are truncated to `unsigned char` -/
def canonStep (st : UInt8 × UInt8) (si li : UInt8) : UInt8 × UInt8 :=
  let c := st.1
  let n := st.2
  let si' : Int32 := si.toUInt32.toInt32
  let li' : Int32 := li.toUInt32.toInt32
  let c' : UInt8 := (c.toUInt32.toInt32 ||| (((si' - li') >>> 8) &&& n.toUInt32.toInt32)).toUInt32.toUInt8
  let n' : UInt8 := (n.toUInt32.toInt32 &&& (((si' ^^^ li') - 1) >>> 8)).toUInt32.toUInt8
  (c', n')

/-- the loop runs from byte 31 down to byte 0: the tail is processed first -/
def canonLoop : Bytes → Bytes → UInt8 × UInt8
  | s :: ss, l :: ls => canonStep (canonLoop ss ls) s l
  | _, _ => (0, 1)

/-- `sc25519_is_canonical(s)` : `return (c != 0);` -/
def sc25519_is_canonical (s : Bytes) : Int32 :=
  if (canonLoop (s.take 32) Lbytes).1 != 0 then 1 else 0

/-! ### crypto_core_ed25519_is_valid_point and crypto_scalarmult_ed25519* -/

/-- the `ge25519_*` primitives used by the glue code, over an abstract point type -/
structure GePrims (P3 : Type) where
  is_canonical : Bytes → Int32
  frombytes : Bytes → Int32 × P3
  is_on_curve : P3 → Int32
  has_small_order : P3 → Int32
  is_on_main_subgroup : P3 → Int32
  scalarmult : Bytes → P3 → P3
  scalarmult_base : Bytes → P3
  p3_tobytes : P3 → Bytes

/-- `crypto_core_ed25519_is_valid_point(p)` : the short-circuit `||` chain -/
def is_valid_point {P3 : Type} (G : GePrims P3) (p : Bytes) : Int32 :=
  if G.is_canonical p == 0 then 0 else
  let r := G.frombytes p
  if r.1 != 0 then 0 else
  if G.is_on_curve r.2 == 0 then 0 else
  if G.has_small_order r.2 != 0 then 0 else
  if G.is_on_main_subgroup r.2 == 0 then 0 else 1

/-- `_crypto_scalarmult_ed25519_is_inf(s)` -/
def is_inf (s : Bytes) : Int32 :=
  let c : UInt8 := s[0]! ^^^ 0x01
  let c := orAll c ((s.drop 1).take 30)                       -- for (i = 1; i < 31; i++) c |= s[i];
  let c := c ||| (s[31]! &&& 0x7f)
  ((((c.toUInt32) - 1) >>> 8) &&& 1).toInt32

/-- `_crypto_scalarmult_ed25519_clamp(k)` -/
def clamp (k : Bytes) : Bytes :=
  let k := k.set 0 (k[0]! &&& 248)
  k.set 31 (k[31]! ||| 64)

/-- the scalar bytes handed to `ge25519_scalarmult*`: copy, optional clamp, `t[31] &= 127` -/
def scalar_bytes (n : Bytes) (clampFlag : Int32) : Bytes :=
  let t := n.take 32                                          -- for (i…) t[i] = n[i];
  let t := if clampFlag != 0 then clamp t else t
  t.set 31 (t[31]! &&& 127)

/-- `_crypto_scalarmult_ed25519(q, n, p, clamp)` : (return code, contents of q).
    `q0` is the caller's output buffer, left untouched when the point is rejected.
    (`n` and `q` are assumed not to alias: `sodium_is_zero(n, 32)` is evaluated after q is written.) -/
def scalarmult_generic {P3 : Type} (G : GePrims P3) (q0 n p : Bytes) (clampFlag : Int32) : Int32 × Bytes :=
  if G.is_canonical p == 0 then (-1, q0) else
  let r := G.frombytes p
  if r.1 != 0 then (-1, q0) else
  if G.has_small_order r.2 != 0 then (-1, q0) else
  if G.is_on_main_subgroup r.2 == 0 then (-1, q0) else
  let t := scalar_bytes n clampFlag
  let Q := G.scalarmult t r.2
  let q := G.p3_tobytes Q
  if is_inf q != 0 || sodium_is_zero (n.take 32) != 0 then (-1, q) else (0, q)

def crypto_scalarmult_ed25519 {P3 : Type} (G : GePrims P3) (q0 n p : Bytes) := scalarmult_generic G q0 n p 1
def crypto_scalarmult_ed25519_noclamp {P3 : Type} (G : GePrims P3) (q0 n p : Bytes) := scalarmult_generic G q0 n p 0

/-- `_crypto_scalarmult_ed25519_base(q, n, clamp)` -/
def scalarmult_base_generic {P3 : Type} (G : GePrims P3) (n : Bytes) (clampFlag : Int32) : Int32 × Bytes :=
  let t := scalar_bytes n clampFlag
  let Q := G.scalarmult_base t
  let q := G.p3_tobytes Q
  if is_inf q != 0 || sodium_is_zero (n.take 32) != 0 then (-1, q) else (0, q)

def crypto_scalarmult_ed25519_base {P3 : Type} (G : GePrims P3) (n : Bytes) := scalarmult_base_generic G n 1
def crypto_scalarmult_ed25519_base_noclamp {P3 : Type} (G : GePrims P3) (n : Bytes) := scalarmult_base_generic G n 0

/-! ### core_h2c.c : expand_message_xmd -/

/-- the string literal "H2C-OVERSIZE-DST-" (`sizeof … - 1U` = 17 bytes) -/
def oversizePrefix : Bytes :=
  [0x48, 0x32, 0x43, 0x2d, 0x4f, 0x56, 0x45, 0x52, 0x53, 0x49, 0x5a, 0x45, 0x2d, 0x44, 0x53, 0x54, 0x2d]

/-- where the local variable `ctx` points: at the caller's string or at the local buffer `u0` -/
inductive CtxPtr where
  | user
  | u0
  deriving DecidableEq, Repr

/-- the bytes read through `ctx` (`ctx_len` of them) given the CURRENT contents of `u0` -/
def derefCtx (ctxp : CtxPtr) (userCtx u0 : Bytes) (ctx_len : Nat) : Bytes :=
  match ctxp with
  | .user => userCtx.take ctx_len
  | .u0 => u0.take ctx_len

/-- `crypto_hash_*_final(&st, buf)` : HASH_BYTES digest bytes are stored at the start of `buf` -/
def storeDigest (HB : Nat) (buf digest : Bytes) : Bytes := memcpyAt buf 0 digest HB

/-- the `for (i = 0U; i < h_len; i += HASH_BYTES)` loop.  `u0` is not written inside the loop;
    `ctx` is dereferenced in every iteration (through `ctxp`, i.e. possibly reading `u0`).
    `fuel` bounds the number of iterations (h_len suffices because HASH_BYTES ≥ 1). -/
def h2cLoop (H : Bytes → Bytes) (HB h_len : Nat) (ctxp : CtxPtr) (userCtx : Bytes)
    (ctx_len : Nat) (ctx_len_u8 : UInt8) (u0 : Bytes) :
    (fuel i : Nat) → (ux t h : Bytes) → Bytes
  | 0, _, _, _, h => h
  | fuel + 1, i, ux, t, h =>
    if i < h_len then
      let ux := xorBytes ux u0                                -- for (j…) ux[j] ^= u0[j];
      let t := t.set 2 (t[2]! + 1)                            -- t[2]++
      let ux := storeDigest HB ux
        (H (ux.take HB ++ [t[2]!] ++ derefCtx ctxp userCtx u0 ctx_len ++ [ctx_len_u8]))
      let h := memcpyAt h i ux (if h_len - i ≥ HB then HB else h_len - i)
      h2cLoop H HB h_len ctxp userCtx ctx_len ctx_len_u8 u0 fuel (i + HB) ux t h
    else h

/--
  `core_h2c_string_to_hash_sha256 / _sha512(h, h_len, ctx, msg, msg_len)` with the hash function
  `H` (init/update…/final = H of the concatenation), `HB = HASH_BYTES`, `HBLK = HASH_BLOCKBYTES`.
  `h0` is the caller's output buffer (h_len bytes, arbitrary contents); the result is the
  buffer afterwards.  `ctx` is the C string without its terminator (NULL ≙ empty: `ctx_len = 0`).
  The return value is always 0.  `h_len ≤ 0xff` is asserted in C.
-/
def string_to_hash (H : Bytes → Bytes) (HB HBLK : Nat) (h0 : Bytes) (h_len : Nat)
    (ctx msg : Bytes) : Bytes :=
  let empty_block := zeros HBLK
  let u0 := zeros HB                                          -- uninitialised in C; never read before written
  let ux := zeros HB
  let t : Bytes := [0, UInt8.ofNat h_len, 0]
  let ctx_len := ctx.length                                   -- strlen(ctx)
  -- if (ctx_len > 0xff) { u0 = H("H2C-OVERSIZE-DST-" ‖ ctx); ctx = u0; ctx_len = HASH_BYTES; }
  let u0 := if ctx_len > 0xff then storeDigest HB u0 (H (oversizePrefix ++ ctx.take ctx_len)) else u0
  let ctxp := if ctx_len > 0xff then CtxPtr.u0 else CtxPtr.user
  let ctx_len := if ctx_len > 0xff then HB else ctx_len
  let ctx_len_u8 := UInt8.ofNat ctx_len
  -- b_0, stored into u0 — which `ctx` may be pointing at
  let u0 := storeDigest HB u0
    (H (empty_block ++ msg ++ t ++ derefCtx ctxp ctx u0 ctx_len ++ [ctx_len_u8]))
  h2cLoop H HB h_len ctxp ctx ctx_len ctx_len_u8 u0 h_len 0 ux t h0

def CORE_H2C_SHA256 : Int32 := 1
def CORE_H2C_SHA512 : Int32 := 2

/-- `core_h2c_string_to_hash` : dispatch on `hash_alg` (return code, h) -/
def core_h2c_string_to_hash (sha256 sha512 : Bytes → Bytes) (h0 : Bytes) (h_len : Nat)
    (ctx msg : Bytes) (hash_alg : Int32) : Int32 × Bytes :=
  if hash_alg == CORE_H2C_SHA256 then (0, string_to_hash sha256 32 64 h0 h_len ctx msg)
  else if hash_alg == CORE_H2C_SHA512 then (0, string_to_hash sha512 64 128 h0 h_len ctx msg)
  else (-1, h0)

/-! ### core_ed25519.c : `_string_to_points`, `from_string`, `from_string_ro`;
       core_ristretto255.c : `_string_to_element`, `scalar_from_string` -/

def HASH_GE_L : Nat := 48

/-- the body of the `for (i…)` loop of `_string_to_points`: reverse the i-th 48-byte chunk into a
    zero-padded 64-byte little-endian buffer and map it -/
def pointOfChunk (from_hash : Bytes → Bytes) (h_be : Bytes) (i : Nat) : Bytes :=
  let h := (List.range HASH_GE_L).map fun j => h_be[i * HASH_GE_L + HASH_GE_L - 1 - j]!
  let h := h ++ zeros (64 - HASH_GE_L)                        -- memset(&h[j], 0, (sizeof h) - j)
  from_hash h

/-- `_string_to_points(px, n, ctx, msg, msg_len, hash_alg)` for n ≤ 2 : (rc, px) -/
def string_to_points (sha256 sha512 : Bytes → Bytes) (from_hash : Bytes → Bytes) (n : Nat)
    (ctx msg : Bytes) (hash_alg : Int32) : Int32 × Bytes :=
  let r := core_h2c_string_to_hash sha256 sha512 (zeros (2 * HASH_GE_L)) (n * HASH_GE_L) ctx msg hash_alg
  if r.1 != 0 then (-1, []) else
  (0, ((List.range n).map fun i => pointOfChunk from_hash r.2 i).flatten)

/-- `crypto_core_ed25519_from_string` -/
def from_string (sha256 sha512 from_hash : Bytes → Bytes) (ctx msg : Bytes) (hash_alg : Int32) :
    Int32 × Bytes :=
  string_to_points sha256 sha512 from_hash 1 ctx msg hash_alg

/-- `crypto_core_ed25519_from_string_ro` : two points, then `crypto_core_ed25519_add`
    (`core_add` returns `none` for -1) -/
def from_string_ro (sha256 sha512 from_hash : Bytes → Bytes) (core_add : Bytes → Bytes → Option Bytes)
    (ctx msg : Bytes) (hash_alg : Int32) : Int32 × Bytes :=
  let r := string_to_points sha256 sha512 from_hash 2 ctx msg hash_alg
  if r.1 != 0 then (-1, []) else
  match core_add (r.2.take 32) ((r.2.drop 32).take 32) with
  | none => (-1, [])
  | some p => (0, p)

/-- `_string_to_element` of core_ristretto255.c : 64 bytes of XMD output go to `ristretto255_from_hash` -/
def ristretto_from_string (sha256 sha512 ristretto_from_hash : Bytes → Bytes) (ctx msg : Bytes)
    (hash_alg : Int32) : Int32 × Bytes :=
  let r := core_h2c_string_to_hash sha256 sha512 (zeros 64) 64 ctx msg hash_alg
  if r.1 != 0 then (-1, []) else (0, ristretto_from_hash r.2)

end Sodium.Model.Scalar
