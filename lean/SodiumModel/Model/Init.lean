import SodiumModel.Basic
/-
  Model of the once-initialisation protocol of sodium/core.c (pthread build):
      sodium_init: lock; if (initialized) { unlock; return 1; }
                   <body: feature detection, stir, alloc init, pickers>; initialized = 1; unlock; return 0;
  as a labelled transition system over N threads, a mutex owner and the `initialized` flag.
  A schedule is any list of thread identifiers; a step of a thread that cannot move (blocked on the
  mutex, or finished) leaves the state unchanged, so every interleaving of any number of threads is a
  schedule.
-/
namespace Sodium.Model.Init

inductive Pc where
  | start          -- before pthread_mutex_lock
  | locked         -- holds the mutex, about to test `initialized`
  | body           -- running the initialisation body (holds the mutex)
  | bodyDone       -- body finished, about to set initialized = 1 and unlock
  | done (ret : Nat)   -- returned `ret`
  deriving DecidableEq, Repr

structure State where
  pcs : List Pc                 -- one per thread
  owner : Option Nat            -- mutex owner
  initialized : Bool
  bodyRuns : Nat                -- how many times the body has been started
  bodyWrites : Nat              -- completed body executions (writes to the shared tables published)
  deriving DecidableEq, Repr

def init (n : Nat) : State := ⟨List.replicate n .start, none, false, 0, 0⟩

def setPc (s : State) (t : Nat) (p : Pc) : State := { s with pcs := s.pcs.set t p }

/-- one step of thread `t` -/
def step (s : State) (t : Nat) : State :=
  match s.pcs[t]? with
  | some .start => if s.owner.isNone then { setPc s t .locked with owner := some t } else s     -- blocked while the mutex is held
  | some .locked =>
    if s.initialized then { setPc s t (.done 1) with owner := none }
    else { setPc s t .body with bodyRuns := s.bodyRuns + 1 }
  | some .body => { setPc s t .bodyDone with bodyWrites := s.bodyWrites + 1 }
  | some .bodyDone => { setPc s t (.done 0) with owner := none, initialized := true }
  | _ => s

def run (s : State) (sched : List Nat) : State := sched.foldl step s

def allDone (s : State) : Bool := s.pcs.all fun p => match p with | .done _ => true | _ => false
def rets (s : State) : List Nat := s.pcs.filterMap fun p => match p with | .done r => some r | _ => none

end Sodium.Model.Init
