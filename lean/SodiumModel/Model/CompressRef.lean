import SodiumModel.Basic
/-
  The reference (portable C) compression functions, modelled statement by statement:

  * `crypto_hash/sha256/cp/hash_sha256_cp.c`   : `SHA256_Transform` (be32dec_vect, RNDr with the
    rotating index `(64 - i) % 8 …`, MSCH computing `W[i + ii + 16]` on the fly, `state[i] += S[i]`)
  * `crypto_hash/sha512/cp/hash_sha512_cp.c`   : `SHA512_Transform` (the same with 80 rounds, uint64)
  * `crypto_generichash/blake2b/ref/blake2b-compress-ref.c` : `blake2b_compress_ref`
    (LOAD64_LE of m[16], v[0..15], the G macro with `blake2b_sigma[r][2*i+0/1]`, ROUND(0..11),
    `h[i] ^= v[i] ^ v[i+8]`), plus `blake2b_increment_counter` / `blake2b_set_lastblock`
  * `crypto_shorthash/siphash24/ref/shorthash_siphash24_ref.c`, `shorthash_siphashx24_ref.c`
    (+ `shorthash_siphash_ref.h`: the SIPROUND macro)

  C arrays are `Array`s; `x[i]` is `x.getD i 0`, `x[i] = e` is `x.setIfInBounds i e`, so an
  out-of-bounds access in the model is visible (a read of 0 / a dropped write) rather than hidden.
  Macro arguments are substituted textually (no added parentheses), e.g. in RND the argument
  `k = W[i + ii] + Krnd[i + ii]` is pasted into `h += S1(e) + Ch(e, f, g) + k`.
  Core Lean only.
-/
namespace Sodium.Model.CompressRef

/-! ### private/common.h -/

/-- `rotr32(x, b) = (x >> b) | (x << (32 - b))` -/
@[inline] def rotr32 (x : UInt32) (b : UInt32) : UInt32 := (x >>> b) ||| (x <<< (32 - b))
/-- `rotr64(x, b) = (x >> b) | (x << (64 - b))` -/
@[inline] def rotr64 (x : UInt64) (b : UInt64) : UInt64 := (x >>> b) ||| (x <<< (64 - b))
/-- `rotl64(x, b) = (x << b) | (x >> (64 - b))` -/
@[inline] def rotl64 (x : UInt64) (b : UInt64) : UInt64 := (x <<< b) ||| (x >>> (64 - b))

/-- `load32_be(src)` (the portable branch): `src` is the buffer, `off` the pointer offset -/
def load32_be (src : Array UInt8) (off : Nat) : UInt32 :=
  let w : UInt32 := (src.getD (off + 3) 0).toUInt32
  let w := w ||| ((src.getD (off + 2) 0).toUInt32 <<< 8)
  let w := w ||| ((src.getD (off + 1) 0).toUInt32 <<< 16)
  let w := w ||| ((src.getD (off + 0) 0).toUInt32 <<< 24)
  w

/-- `load64_be(src)` (the portable branch) -/
def load64_be (src : Array UInt8) (off : Nat) : UInt64 :=
  let w : UInt64 := (src.getD (off + 7) 0).toUInt64
  let w := w ||| ((src.getD (off + 6) 0).toUInt64 <<< 8)
  let w := w ||| ((src.getD (off + 5) 0).toUInt64 <<< 16)
  let w := w ||| ((src.getD (off + 4) 0).toUInt64 <<< 24)
  let w := w ||| ((src.getD (off + 3) 0).toUInt64 <<< 32)
  let w := w ||| ((src.getD (off + 2) 0).toUInt64 <<< 40)
  let w := w ||| ((src.getD (off + 1) 0).toUInt64 <<< 48)
  let w := w ||| ((src.getD (off + 0) 0).toUInt64 <<< 56)
  w

/-- `load64_le(src)`: the portable branch; on a little-endian host the C code is a `memcpy`
    into a `uint64_t`, which is the same value. -/
def load64_le (src : Array UInt8) (off : Nat) : UInt64 :=
  let w : UInt64 := (src.getD (off + 0) 0).toUInt64
  let w := w ||| ((src.getD (off + 1) 0).toUInt64 <<< 8)
  let w := w ||| ((src.getD (off + 2) 0).toUInt64 <<< 16)
  let w := w ||| ((src.getD (off + 3) 0).toUInt64 <<< 24)
  let w := w ||| ((src.getD (off + 4) 0).toUInt64 <<< 32)
  let w := w ||| ((src.getD (off + 5) 0).toUInt64 <<< 40)
  let w := w ||| ((src.getD (off + 6) 0).toUInt64 <<< 48)
  let w := w ||| ((src.getD (off + 7) 0).toUInt64 <<< 56)
  w

/-! ### hash_sha256_cp.c -/
namespace Sha256

/-- `for (i = 0; i < len / 4; i++) dst[i] = LOAD32_BE(src + i * 4);` (`n` = iterations left) -/
def be32dec_vect_loop (src : Array UInt8) (len : Nat) : Nat → Nat → Array UInt32 → Array UInt32
  | 0, _, dst => dst
  | n + 1, i, dst =>
    if i < len / 4 then be32dec_vect_loop src len n (i + 1) (dst.setIfInBounds i (load32_be src (i * 4)))
    else dst

def be32dec_vect (dst : Array UInt32) (src : Array UInt8) (len : Nat) : Array UInt32 :=
  be32dec_vect_loop src len (len / 4) 0 dst

/-- `static const uint32_t Krnd[64]` -/
def Krnd : Array UInt32 := #[
    0x428a2f98, 0x71374491, 0xb5c0fbcf, 0xe9b5dba5, 0x3956c25b, 0x59f111f1,
    0x923f82a4, 0xab1c5ed5, 0xd807aa98, 0x12835b01, 0x243185be, 0x550c7dc3,
    0x72be5d74, 0x80deb1fe, 0x9bdc06a7, 0xc19bf174, 0xe49b69c1, 0xefbe4786,
    0x0fc19dc6, 0x240ca1cc, 0x2de92c6f, 0x4a7484aa, 0x5cb0a9dc, 0x76f988da,
    0x983e5152, 0xa831c66d, 0xb00327c8, 0xbf597fc7, 0xc6e00bf3, 0xd5a79147,
    0x06ca6351, 0x14292967, 0x27b70a85, 0x2e1b2138, 0x4d2c6dfc, 0x53380d13,
    0x650a7354, 0x766a0abb, 0x81c2c92e, 0x92722c85, 0xa2bfe8a1, 0xa81a664b,
    0xc24b8b70, 0xc76c51a3, 0xd192e819, 0xd6990624, 0xf40e3585, 0x106aa070,
    0x19a4c116, 0x1e376c08, 0x2748774c, 0x34b0bcb5, 0x391c0cb3, 0x4ed8aa4a,
    0x5b9cca4f, 0x682e6ff3, 0x748f82ee, 0x78a5636f, 0x84c87814, 0x8cc70208,
    0x90befffa, 0xa4506ceb, 0xbef9a3f7, 0xc67178f2]

/-- `#define Ch(x, y, z) ((x & (y ^ z)) ^ z)` -/
@[inline] def Ch (x y z : UInt32) : UInt32 := (x &&& (y ^^^ z)) ^^^ z
/-- `#define Maj(x, y, z) ((x & (y | z)) | (y & z))` -/
@[inline] def Maj (x y z : UInt32) : UInt32 := (x &&& (y ||| z)) ||| (y &&& z)
@[inline] def SHR (x n : UInt32) : UInt32 := x >>> n
@[inline] def ROTR (x n : UInt32) : UInt32 := rotr32 x n
@[inline] def S0 (x : UInt32) : UInt32 := ROTR x 2 ^^^ ROTR x 13 ^^^ ROTR x 22
@[inline] def S1 (x : UInt32) : UInt32 := ROTR x 6 ^^^ ROTR x 11 ^^^ ROTR x 25
@[inline] def s0 (x : UInt32) : UInt32 := ROTR x 7 ^^^ ROTR x 18 ^^^ SHR x 3
@[inline] def s1 (x : UInt32) : UInt32 := ROTR x 17 ^^^ ROTR x 19 ^^^ SHR x 10

/-- `RNDr(S, W, i, ii)`: the macro `RND(a, b, c, d, e, f, g, h, k)`
    ```
    h += S1(e) + Ch(e, f, g) + k;  d += h;  h += S0(a) + Maj(a, b, c);
    ```
    with `a … h` the lvalues `S[(64 - i) % 8] … S[(71 - i) % 8]` and `k` the text
    `W[i + ii] + Krnd[i + ii]`. -/
def RNDr (S W : Array UInt32) (i ii : Nat) : Array UInt32 :=
  let a := (64 - i) % 8; let b := (65 - i) % 8; let c := (66 - i) % 8; let d := (67 - i) % 8
  let e := (68 - i) % 8; let f := (69 - i) % 8; let g := (70 - i) % 8; let h := (71 - i) % 8
  let S := S.setIfInBounds h (S.getD h 0 +
      (S1 (S.getD e 0) + Ch (S.getD e 0) (S.getD f 0) (S.getD g 0) + W.getD (i + ii) 0 + Krnd.getD (i + ii) 0))
  let S := S.setIfInBounds d (S.getD d 0 + S.getD h 0)
  let S := S.setIfInBounds h (S.getD h 0 + (S0 (S.getD a 0) + Maj (S.getD a 0) (S.getD b 0) (S.getD c 0)))
  S

/-- `MSCH(W, ii, i)`: `W[i + ii + 16] = s1(W[i + ii + 14]) + W[i + ii + 9] + s0(W[i + ii + 1]) + W[i + ii]` -/
def MSCH (W : Array UInt32) (ii i : Nat) : Array UInt32 :=
  W.setIfInBounds (i + ii + 16)
    (s1 (W.getD (i + ii + 14) 0) + W.getD (i + ii + 9) 0 + s0 (W.getD (i + ii + 1) 0) + W.getD (i + ii) 0)

/-- the sixteen `RNDr(S, W, 0, i); … RNDr(S, W, 15, i);` of one loop body -/
def rnd16 (S W : Array UInt32) (i : Nat) : Array UInt32 :=
  let S := RNDr S W 0 i
  let S := RNDr S W 1 i
  let S := RNDr S W 2 i
  let S := RNDr S W 3 i
  let S := RNDr S W 4 i
  let S := RNDr S W 5 i
  let S := RNDr S W 6 i
  let S := RNDr S W 7 i
  let S := RNDr S W 8 i
  let S := RNDr S W 9 i
  let S := RNDr S W 10 i
  let S := RNDr S W 11 i
  let S := RNDr S W 12 i
  let S := RNDr S W 13 i
  let S := RNDr S W 14 i
  let S := RNDr S W 15 i
  S

/-- the sixteen `MSCH(W, 0, i); … MSCH(W, 15, i);` of one loop body -/
def msch16 (W : Array UInt32) (i : Nat) : Array UInt32 :=
  let W := MSCH W 0 i
  let W := MSCH W 1 i
  let W := MSCH W 2 i
  let W := MSCH W 3 i
  let W := MSCH W 4 i
  let W := MSCH W 5 i
  let W := MSCH W 6 i
  let W := MSCH W 7 i
  let W := MSCH W 8 i
  let W := MSCH W 9 i
  let W := MSCH W 10 i
  let W := MSCH W 11 i
  let W := MSCH W 12 i
  let W := MSCH W 13 i
  let W := MSCH W 14 i
  let W := MSCH W 15 i
  W

/-- `for (i = 0; i < 64; i += 16) { 16 × RNDr; if (i == 48) break; 16 × MSCH; }`
    (`n` = an upper bound on the iterations left); returns `(S, W)` -/
def mainLoop : Nat → Nat → Array UInt32 → Array UInt32 → Array UInt32 × Array UInt32
  | 0, _, S, W => (S, W)
  | n + 1, i, S, W =>
    if i < 64 then
      let S := rnd16 S W i
      if i = 48 then (S, W)
      else
        let W := msch16 W i
        mainLoop n (i + 16) S W
    else (S, W)

/-- `for (i = 0; i < 8; i++) state[i] += S[i];` -/
def addState_loop (S : Array UInt32) : Nat → Nat → Array UInt32 → Array UInt32
  | 0, _, state => state
  | n + 1, i, state =>
    if i < 8 then addState_loop S n (i + 1) (state.setIfInBounds i (state.getD i 0 + S.getD i 0))
    else state

/-- `memcpy(S, state, 32)`: the eight words of `state` overwrite `S[0..8)` -/
def memcpy8 (S state : Array UInt32) : Array UInt32 :=
  (List.range 8).foldl (fun S i => S.setIfInBounds i (state.getD i 0)) S

/-- `SHA256_Transform(state, block, W, S)`: `W` (64 words) and `S` (8 words) are caller-provided
    scratch buffers whose previous contents are arbitrary; returns `(state, W, S)`. -/
def SHA256_Transform (state : Array UInt32) (block : Array UInt8) (W S : Array UInt32) :
    Array UInt32 × Array UInt32 × Array UInt32 :=
  let W := be32dec_vect W block 64
  let S := memcpy8 S state
  let (S, W) := mainLoop 4 0 S W
  let state := addState_loop S 8 0 state
  (state, W, S)

/-- the compression function as the streaming code uses it: fresh (zeroed) scratch buffers,
    only the new state is kept -/
def transform (state : Array UInt32) (block : Bytes) : Array UInt32 :=
  (SHA256_Transform state block.toArray (Array.replicate 64 0) (Array.replicate 8 0)).1

end Sha256

/-! ### hash_sha512_cp.c -/
namespace Sha512

/-- `for (i = 0; i < len / 8; i++) dst[i] = LOAD64_BE(src + i * 8);` (`n` = iterations left) -/
def be64dec_vect_loop (src : Array UInt8) (len : Nat) : Nat → Nat → Array UInt64 → Array UInt64
  | 0, _, dst => dst
  | n + 1, i, dst =>
    if i < len / 8 then be64dec_vect_loop src len n (i + 1) (dst.setIfInBounds i (load64_be src (i * 8)))
    else dst

def be64dec_vect (dst : Array UInt64) (src : Array UInt8) (len : Nat) : Array UInt64 :=
  be64dec_vect_loop src len (len / 8) 0 dst

/-- `static const uint64_t Krnd[80]` -/
def Krnd : Array UInt64 := #[
    0x428a2f98d728ae22, 0x7137449123ef65cd, 0xb5c0fbcfec4d3b2f,
    0xe9b5dba58189dbbc, 0x3956c25bf348b538, 0x59f111f1b605d019,
    0x923f82a4af194f9b, 0xab1c5ed5da6d8118, 0xd807aa98a3030242,
    0x12835b0145706fbe, 0x243185be4ee4b28c, 0x550c7dc3d5ffb4e2,
    0x72be5d74f27b896f, 0x80deb1fe3b1696b1, 0x9bdc06a725c71235,
    0xc19bf174cf692694, 0xe49b69c19ef14ad2, 0xefbe4786384f25e3,
    0x0fc19dc68b8cd5b5, 0x240ca1cc77ac9c65, 0x2de92c6f592b0275,
    0x4a7484aa6ea6e483, 0x5cb0a9dcbd41fbd4, 0x76f988da831153b5,
    0x983e5152ee66dfab, 0xa831c66d2db43210, 0xb00327c898fb213f,
    0xbf597fc7beef0ee4, 0xc6e00bf33da88fc2, 0xd5a79147930aa725,
    0x06ca6351e003826f, 0x142929670a0e6e70, 0x27b70a8546d22ffc,
    0x2e1b21385c26c926, 0x4d2c6dfc5ac42aed, 0x53380d139d95b3df,
    0x650a73548baf63de, 0x766a0abb3c77b2a8, 0x81c2c92e47edaee6,
    0x92722c851482353b, 0xa2bfe8a14cf10364, 0xa81a664bbc423001,
    0xc24b8b70d0f89791, 0xc76c51a30654be30, 0xd192e819d6ef5218,
    0xd69906245565a910, 0xf40e35855771202a, 0x106aa07032bbd1b8,
    0x19a4c116b8d2d0c8, 0x1e376c085141ab53, 0x2748774cdf8eeb99,
    0x34b0bcb5e19b48a8, 0x391c0cb3c5c95a63, 0x4ed8aa4ae3418acb,
    0x5b9cca4f7763e373, 0x682e6ff3d6b2b8a3, 0x748f82ee5defb2fc,
    0x78a5636f43172f60, 0x84c87814a1f0ab72, 0x8cc702081a6439ec,
    0x90befffa23631e28, 0xa4506cebde82bde9, 0xbef9a3f7b2c67915,
    0xc67178f2e372532b, 0xca273eceea26619c, 0xd186b8c721c0c207,
    0xeada7dd6cde0eb1e, 0xf57d4f7fee6ed178, 0x06f067aa72176fba,
    0x0a637dc5a2c898a6, 0x113f9804bef90dae, 0x1b710b35131c471b,
    0x28db77f523047d84, 0x32caab7b40c72493, 0x3c9ebe0a15c9bebc,
    0x431d67c49c100d4c, 0x4cc5d4becb3e42b6, 0x597f299cfc657e2a,
    0x5fcb6fab3ad6faec, 0x6c44198c4a475817]

/-- `#define Ch(x, y, z) ((x & (y ^ z)) ^ z)` -/
@[inline] def Ch (x y z : UInt64) : UInt64 := (x &&& (y ^^^ z)) ^^^ z
/-- `#define Maj(x, y, z) ((x & (y | z)) | (y & z))` -/
@[inline] def Maj (x y z : UInt64) : UInt64 := (x &&& (y ||| z)) ||| (y &&& z)
@[inline] def SHR (x n : UInt64) : UInt64 := x >>> n
@[inline] def ROTR (x n : UInt64) : UInt64 := rotr64 x n
@[inline] def S0 (x : UInt64) : UInt64 := ROTR x 28 ^^^ ROTR x 34 ^^^ ROTR x 39
@[inline] def S1 (x : UInt64) : UInt64 := ROTR x 14 ^^^ ROTR x 18 ^^^ ROTR x 41
@[inline] def s0 (x : UInt64) : UInt64 := ROTR x 1 ^^^ ROTR x 8 ^^^ SHR x 7
@[inline] def s1 (x : UInt64) : UInt64 := ROTR x 19 ^^^ ROTR x 61 ^^^ SHR x 6

/-- `RNDr(S, W, i, ii)`: the macro `RND(a, b, c, d, e, f, g, h, k)`
    ```
    h += S1(e) + Ch(e, f, g) + k;  d += h;  h += S0(a) + Maj(a, b, c);
    ```
    with `a … h` the lvalues `S[(80 - i) % 8] … S[(87 - i) % 8]` and `k` the text
    `W[i + ii] + Krnd[i + ii]`. -/
def RNDr (S W : Array UInt64) (i ii : Nat) : Array UInt64 :=
  let a := (80 - i) % 8; let b := (81 - i) % 8; let c := (82 - i) % 8; let d := (83 - i) % 8
  let e := (84 - i) % 8; let f := (85 - i) % 8; let g := (86 - i) % 8; let h := (87 - i) % 8
  let S := S.setIfInBounds h (S.getD h 0 +
      (S1 (S.getD e 0) + Ch (S.getD e 0) (S.getD f 0) (S.getD g 0) + W.getD (i + ii) 0 + Krnd.getD (i + ii) 0))
  let S := S.setIfInBounds d (S.getD d 0 + S.getD h 0)
  let S := S.setIfInBounds h (S.getD h 0 + (S0 (S.getD a 0) + Maj (S.getD a 0) (S.getD b 0) (S.getD c 0)))
  S

/-- `MSCH(W, ii, i)`: `W[i + ii + 16] = s1(W[i + ii + 14]) + W[i + ii + 9] + s0(W[i + ii + 1]) + W[i + ii]` -/
def MSCH (W : Array UInt64) (ii i : Nat) : Array UInt64 :=
  W.setIfInBounds (i + ii + 16)
    (s1 (W.getD (i + ii + 14) 0) + W.getD (i + ii + 9) 0 + s0 (W.getD (i + ii + 1) 0) + W.getD (i + ii) 0)

/-- the sixteen `RNDr(S, W, 0, i); … RNDr(S, W, 15, i);` of one loop body -/
def rnd16 (S W : Array UInt64) (i : Nat) : Array UInt64 :=
  let S := RNDr S W 0 i
  let S := RNDr S W 1 i
  let S := RNDr S W 2 i
  let S := RNDr S W 3 i
  let S := RNDr S W 4 i
  let S := RNDr S W 5 i
  let S := RNDr S W 6 i
  let S := RNDr S W 7 i
  let S := RNDr S W 8 i
  let S := RNDr S W 9 i
  let S := RNDr S W 10 i
  let S := RNDr S W 11 i
  let S := RNDr S W 12 i
  let S := RNDr S W 13 i
  let S := RNDr S W 14 i
  let S := RNDr S W 15 i
  S

/-- the sixteen `MSCH(W, 0, i); … MSCH(W, 15, i);` of one loop body -/
def msch16 (W : Array UInt64) (i : Nat) : Array UInt64 :=
  let W := MSCH W 0 i
  let W := MSCH W 1 i
  let W := MSCH W 2 i
  let W := MSCH W 3 i
  let W := MSCH W 4 i
  let W := MSCH W 5 i
  let W := MSCH W 6 i
  let W := MSCH W 7 i
  let W := MSCH W 8 i
  let W := MSCH W 9 i
  let W := MSCH W 10 i
  let W := MSCH W 11 i
  let W := MSCH W 12 i
  let W := MSCH W 13 i
  let W := MSCH W 14 i
  let W := MSCH W 15 i
  W

/-- `for (i = 0; i < 80; i += 16) { 16 × RNDr; if (i == 64) break; 16 × MSCH; }`
    (`n` = an upper bound on the iterations left); returns `(S, W)` -/
def mainLoop : Nat → Nat → Array UInt64 → Array UInt64 → Array UInt64 × Array UInt64
  | 0, _, S, W => (S, W)
  | n + 1, i, S, W =>
    if i < 80 then
      let S := rnd16 S W i
      if i = 64 then (S, W)
      else
        let W := msch16 W i
        mainLoop n (i + 16) S W
    else (S, W)

/-- `for (i = 0; i < 8; i++) state[i] += S[i];` -/
def addState_loop (S : Array UInt64) : Nat → Nat → Array UInt64 → Array UInt64
  | 0, _, state => state
  | n + 1, i, state =>
    if i < 8 then addState_loop S n (i + 1) (state.setIfInBounds i (state.getD i 0 + S.getD i 0))
    else state

/-- `memcpy(S, state, 64)`: the eight words of `state` overwrite `S[0..8)` -/
def memcpy8 (S state : Array UInt64) : Array UInt64 :=
  (List.range 8).foldl (fun S i => S.setIfInBounds i (state.getD i 0)) S

/-- `SHA512_Transform(state, block, W, S)`: `W` (80 words) and `S` (8 words) are caller-provided
    scratch buffers whose previous contents are arbitrary; returns `(state, W, S)`. -/
def SHA512_Transform (state : Array UInt64) (block : Array UInt8) (W S : Array UInt64) :
    Array UInt64 × Array UInt64 × Array UInt64 :=
  let W := be64dec_vect W block 128
  let S := memcpy8 S state
  let (S, W) := mainLoop 5 0 S W
  let state := addState_loop S 8 0 state
  (state, W, S)

/-- the compression function as the streaming code uses it: fresh (zeroed) scratch buffers,
    only the new state is kept -/
def transform (state : Array UInt64) (block : Bytes) : Array UInt64 :=
  (SHA512_Transform state block.toArray (Array.replicate 80 0) (Array.replicate 8 0)).1

end Sha512

/-! ### blake2b-compress-ref.c (and the counter / last-block helpers of blake2b-ref.c) -/
namespace Blake2b

/-- `static const uint64_t blake2b_IV[8]` -/
def blake2b_IV : Array UInt64 := #[
    0x6a09e667f3bcc908, 0xbb67ae8584caa73b, 0x3c6ef372fe94f82b,
    0xa54ff53a5f1d36f1, 0x510e527fade682d1, 0x9b05688c2b3e6c1f,
    0x1f83d9abfb41bd6b, 0x5be0cd19137e2179]

/-- `static const uint8_t blake2b_sigma[12][16]` -/
def blake2b_sigma : Array (Array UInt8) := #[
    #[ 0, 1, 2, 3, 4, 5, 6, 7, 8, 9, 10, 11, 12, 13, 14, 15 ],
    #[ 14, 10, 4, 8, 9, 15, 13, 6, 1, 12, 0, 2, 11, 7, 5, 3 ],
    #[ 11, 8, 12, 0, 5, 2, 15, 13, 10, 14, 3, 6, 7, 1, 9, 4 ],
    #[ 7, 9, 3, 1, 13, 12, 11, 14, 2, 6, 5, 10, 4, 0, 15, 8 ],
    #[ 9, 0, 5, 7, 2, 4, 10, 15, 14, 1, 11, 12, 6, 8, 3, 13 ],
    #[ 2, 12, 6, 10, 0, 11, 8, 3, 4, 13, 7, 5, 15, 14, 1, 9 ],
    #[ 12, 5, 1, 15, 14, 13, 4, 10, 0, 7, 6, 3, 9, 2, 8, 11 ],
    #[ 13, 11, 7, 14, 12, 1, 3, 9, 5, 0, 15, 4, 8, 6, 2, 10 ],
    #[ 6, 15, 14, 9, 11, 3, 0, 8, 12, 2, 13, 7, 1, 4, 10, 5 ],
    #[ 10, 2, 8, 4, 7, 6, 1, 5, 15, 11, 9, 14, 3, 12, 13, 0 ],
    #[ 0, 1, 2, 3, 4, 5, 6, 7, 8, 9, 10, 11, 12, 13, 14, 15 ],
    #[ 14, 10, 4, 8, 9, 15, 13, 6, 1, 12, 0, 2, 11, 7, 5, 3 ]]

/-- `blake2b_sigma[r][k]` as an index -/
@[inline] def sigmaAt (r k : Nat) : Nat := ((blake2b_sigma.getD r #[]).getD k 0).toNat

/-- the macro `G(r, i, a, b, c, d)`; `a b c d` are the indices of the lvalues `v[a] …`:
    ```
    a += b + m[blake2b_sigma[r][2 * i + 0]];  d = ROTR64(d ^ a, 32);  c += d;  b = ROTR64(b ^ c, 24);
    a += b + m[blake2b_sigma[r][2 * i + 1]];  d = ROTR64(d ^ a, 16);  c += d;  b = ROTR64(b ^ c, 63);
    ``` -/
def G (m v : Array UInt64) (r i a b c d : Nat) : Array UInt64 :=
  let v := v.setIfInBounds a (v.getD a 0 + (v.getD b 0 + m.getD (sigmaAt r (2 * i + 0)) 0))
  let v := v.setIfInBounds d (rotr64 (v.getD d 0 ^^^ v.getD a 0) 32)
  let v := v.setIfInBounds c (v.getD c 0 + v.getD d 0)
  let v := v.setIfInBounds b (rotr64 (v.getD b 0 ^^^ v.getD c 0) 24)
  let v := v.setIfInBounds a (v.getD a 0 + (v.getD b 0 + m.getD (sigmaAt r (2 * i + 1)) 0))
  let v := v.setIfInBounds d (rotr64 (v.getD d 0 ^^^ v.getD a 0) 16)
  let v := v.setIfInBounds c (v.getD c 0 + v.getD d 0)
  let v := v.setIfInBounds b (rotr64 (v.getD b 0 ^^^ v.getD c 0) 63)
  v

/-- the macro `ROUND(r)` -/
def ROUND (m v : Array UInt64) (r : Nat) : Array UInt64 :=
  let v := G m v r 0 0 4 8 12
  let v := G m v r 1 1 5 9 13
  let v := G m v r 2 2 6 10 14
  let v := G m v r 3 3 7 11 15
  let v := G m v r 4 0 5 10 15
  let v := G m v r 5 1 6 11 12
  let v := G m v r 6 2 7 8 13
  let v := G m v r 7 3 4 9 14
  v

/-- `blake2b_compress_ref(S, block)`: the fields of `*S` it touches are `h[8]` (updated; the
    result), `t[2]` and `f[2]` (read). The locals `m[16]`, `v[16]` start zeroed here (every
    element is assigned before it is read). -/
def blake2b_compress_ref (h t f : Array UInt64) (block : Array UInt8) : Array UInt64 :=
  let m : Array UInt64 := Array.replicate 16 0
  let v : Array UInt64 := Array.replicate 16 0
  -- for (i = 0; i < 16; ++i) m[i] = LOAD64_LE(block + i * sizeof m[i]);
  let m := (List.range 16).foldl (fun m i => m.setIfInBounds i (load64_le block (i * 8))) m
  -- for (i = 0; i < 8; ++i) v[i] = S->h[i];
  let v := (List.range 8).foldl (fun v i => v.setIfInBounds i (h.getD i 0)) v
  let v := v.setIfInBounds 8 (blake2b_IV.getD 0 0)
  let v := v.setIfInBounds 9 (blake2b_IV.getD 1 0)
  let v := v.setIfInBounds 10 (blake2b_IV.getD 2 0)
  let v := v.setIfInBounds 11 (blake2b_IV.getD 3 0)
  let v := v.setIfInBounds 12 (t.getD 0 0 ^^^ blake2b_IV.getD 4 0)
  let v := v.setIfInBounds 13 (t.getD 1 0 ^^^ blake2b_IV.getD 5 0)
  let v := v.setIfInBounds 14 (f.getD 0 0 ^^^ blake2b_IV.getD 6 0)
  let v := v.setIfInBounds 15 (f.getD 1 0 ^^^ blake2b_IV.getD 7 0)
  let v := ROUND m v 0
  let v := ROUND m v 1
  let v := ROUND m v 2
  let v := ROUND m v 3
  let v := ROUND m v 4
  let v := ROUND m v 5
  let v := ROUND m v 6
  let v := ROUND m v 7
  let v := ROUND m v 8
  let v := ROUND m v 9
  let v := ROUND m v 10
  let v := ROUND m v 11
  -- for (i = 0; i < 8; ++i) S->h[i] = S->h[i] ^ v[i] ^ v[i + 8];
  (List.range 8).foldl (fun h i => h.setIfInBounds i (h.getD i 0 ^^^ v.getD i 0 ^^^ v.getD (i + 8) 0)) h

/-- `blake2b_increment_counter(S, inc)`, the portable branch:
    `S->t[0] += inc; S->t[1] += (S->t[0] < inc);` -/
def blake2b_increment_counter (t : Array UInt64) (inc : UInt64) : Array UInt64 :=
  let t := t.setIfInBounds 0 (t.getD 0 0 + inc)
  let t := t.setIfInBounds 1 (t.getD 1 0 + (if t.getD 0 0 < inc then 1 else 0))
  t

/-- `blake2b_increment_counter(S, inc)`, the `HAVE_TI_MODE` branch:
    `uint128_t t = ((uint128_t) S->t[1] << 64) | S->t[0]; t += inc; S->t[0] = (uint64_t)(t >> 0);
     S->t[1] = (uint64_t)(t >> 64);` (the `uint128_t` as a natural number mod 2^128) -/
def blake2b_increment_counter_ti (t : Array UInt64) (inc : UInt64) : Array UInt64 :=
  let t128 : Nat := ((t.getD 1 0).toNat <<< 64 % 2 ^ 128) ||| (t.getD 0 0).toNat
  let t128 := (t128 + inc.toNat) % 2 ^ 128
  let t := t.setIfInBounds 0 (UInt64.ofNat (t128 >>> 0))
  let t := t.setIfInBounds 1 (UInt64.ofNat (t128 >>> 64))
  t

/-- `blake2b_set_lastblock(S)`: `if (S->last_node) S->f[1] = -1; S->f[0] = -1;` -/
def blake2b_set_lastblock (f : Array UInt64) (last_node : UInt8) : Array UInt64 :=
  let f := if last_node != 0 then f.setIfInBounds 1 (0 - 1) else f
  f.setIfInBounds 0 (0 - 1)

/-- the counter words `t[0], t[1]` holding the 128-bit byte count `t` -/
def tWords (t : Nat) : Array UInt64 := #[UInt64.ofNat (t % 2 ^ 64), UInt64.ofNat (t / 2 ^ 64)]

/-- the flag words `f[0], f[1]` before / after `blake2b_set_lastblock` (with `last_node = 0`,
    the only value libsodium ever stores) -/
def fWords (last : Bool) : Array UInt64 :=
  if last then blake2b_set_lastblock #[0, 0] 0 else #[0, 0]

/-- the compression function in the shape the streaming model uses (`F h block t last`) -/
def compressF (h : Array UInt64) (block : Bytes) (t : Nat) (last : Bool) : Array UInt64 :=
  blake2b_compress_ref h (tWords t) (fWords last) block.toArray

end Blake2b

/-! ### shorthash_siphash_ref.h, shorthash_siphash24_ref.c, shorthash_siphashx24_ref.c -/
namespace SipHash

/-- `store64_le(dst, w)` (the portable branch; a `memcpy` on a little-endian host):
    `dst[0] = (uint8_t) w; w >>= 8; … dst[7] = (uint8_t) w;` -/
def store64_le (w : UInt64) : Array UInt8 :=
  let d0 := w.toUInt8; let w := w >>> 8
  let d1 := w.toUInt8; let w := w >>> 8
  let d2 := w.toUInt8; let w := w >>> 8
  let d3 := w.toUInt8; let w := w >>> 8
  let d4 := w.toUInt8; let w := w >>> 8
  let d5 := w.toUInt8; let w := w >>> 8
  let d6 := w.toUInt8; let w := w >>> 8
  let d7 := w.toUInt8
  #[d0, d1, d2, d3, d4, d5, d6, d7]

/-- the four local variables `v0 … v3` -/
structure V where
  v0 : UInt64
  v1 : UInt64
  v2 : UInt64
  v3 : UInt64

/-- the macro `SIPROUND` -/
def SIPROUND (s : V) : V :=
  let ⟨v0, v1, v2, v3⟩ := s
  let v0 := v0 + v1
  let v1 := rotl64 v1 13
  let v1 := v1 ^^^ v0
  let v0 := rotl64 v0 32
  let v2 := v2 + v3
  let v3 := rotl64 v3 16
  let v3 := v3 ^^^ v2
  let v0 := v0 + v3
  let v3 := rotl64 v3 21
  let v3 := v3 ^^^ v0
  let v2 := v2 + v1
  let v1 := rotl64 v1 17
  let v1 := v1 ^^^ v2
  let v2 := rotl64 v2 32
  ⟨v0, v1, v2, v3⟩

/-- `for (; in != end; in += 8) { m = LOAD64_LE(in); v3 ^= m; SIPROUND; SIPROUND; v0 ^= m; }`
    with `in`, `end` as offsets from the start of the buffer (`n` = a bound on the iterations);
    returns the variables and the final `in` -/
def loop (inp : Array UInt8) (endOff : Nat) : Nat → Nat → V → V × Nat
  | 0, off, s => (s, off)
  | n + 1, off, s =>
    if off ≠ endOff then
      let m := load64_le inp off
      let s := { s with v3 := s.v3 ^^^ m }
      let s := SIPROUND s
      let s := SIPROUND s
      let s := { s with v0 := s.v0 ^^^ m }
      loop inp endOff n (off + 8) s
    else (s, off)

/-- `switch (left) { case 7: b |= ((uint64_t) in[6]) << 48; /* FALLTHRU */ … case 1: b |= in[0]; break;
    case 0: break; }` -/
def tail (inp : Array UInt8) (off : Nat) (left : Nat) (b : UInt64) : UInt64 :=
  let case1 (b : UInt64) : UInt64 := b ||| (inp.getD (off + 0) 0).toUInt64
  let case2 (b : UInt64) : UInt64 := case1 (b ||| ((inp.getD (off + 1) 0).toUInt64 <<< 8))
  let case3 (b : UInt64) : UInt64 := case2 (b ||| ((inp.getD (off + 2) 0).toUInt64 <<< 16))
  let case4 (b : UInt64) : UInt64 := case3 (b ||| ((inp.getD (off + 3) 0).toUInt64 <<< 24))
  let case5 (b : UInt64) : UInt64 := case4 (b ||| ((inp.getD (off + 4) 0).toUInt64 <<< 32))
  let case6 (b : UInt64) : UInt64 := case5 (b ||| ((inp.getD (off + 5) 0).toUInt64 <<< 40))
  let case7 (b : UInt64) : UInt64 := case6 (b ||| ((inp.getD (off + 6) 0).toUInt64 <<< 48))
  match left with
  | 7 => case7 b
  | 6 => case6 b
  | 5 => case5 b
  | 4 => case4 b
  | 3 => case3 b
  | 2 => case2 b
  | 1 => case1 b
  | _ => b

/-- everything up to and including the absorption of the last word `b`; `v1init` is the initial
    constant of `v1` (the only difference between the two files before finalisation) -/
def absorb (v1init : UInt64) (inp : Array UInt8) (inlen : UInt64) (k : Array UInt8) : V :=
  let v0 : UInt64 := 0x736f6d6570736575
  let v1 : UInt64 := v1init
  let v2 : UInt64 := 0x6c7967656e657261
  let v3 : UInt64 := 0x7465646279746573
  let k0 := load64_le k 0
  let k1 := load64_le k 8
  let endOff := inlen.toNat - (inlen % 8).toNat      -- end = in + inlen - (inlen % sizeof(uint64_t))
  let left := (inlen &&& 7).toNat                    -- const int left = inlen & 7
  let b := inlen <<< 56
  let v3 := v3 ^^^ k1
  let v2 := v2 ^^^ k0
  let v1 := v1 ^^^ k1
  let v0 := v0 ^^^ k0
  let (s, off) := loop inp endOff (inlen.toNat / 8 + 1) 0 ⟨v0, v1, v2, v3⟩
  let b := tail inp off left b
  let s := { s with v3 := s.v3 ^^^ b }
  let s := SIPROUND s
  let s := SIPROUND s
  { s with v0 := s.v0 ^^^ b }

/-- `crypto_shorthash_siphash24(out, in, inlen, k)`; returns `out[0..8)` -/
def crypto_shorthash_siphash24 (inp : Array UInt8) (inlen : UInt64) (k : Array UInt8) : Array UInt8 :=
  let s := absorb 0x646f72616e646f6d inp inlen k
  let s := { s with v2 := s.v2 ^^^ 0xff }
  let s := SIPROUND s
  let s := SIPROUND s
  let s := SIPROUND s
  let s := SIPROUND s
  let b := s.v0 ^^^ s.v1 ^^^ s.v2 ^^^ s.v3
  store64_le b

/-- `crypto_shorthash_siphashx24(out, in, inlen, k)`; returns `out[0..16)` -/
def crypto_shorthash_siphashx24 (inp : Array UInt8) (inlen : UInt64) (k : Array UInt8) : Array UInt8 :=
  let s := absorb 0x646f72616e646f83 inp inlen k
  let s := { s with v2 := s.v2 ^^^ 0xee }
  let s := SIPROUND s
  let s := SIPROUND s
  let s := SIPROUND s
  let s := SIPROUND s
  let b := s.v0 ^^^ s.v1 ^^^ s.v2 ^^^ s.v3
  let out := store64_le b
  let s := { s with v1 := s.v1 ^^^ 0xdd }
  let s := SIPROUND s
  let s := SIPROUND s
  let s := SIPROUND s
  let s := SIPROUND s
  let b := s.v0 ^^^ s.v1 ^^^ s.v2 ^^^ s.v3
  out ++ store64_le b

end SipHash

end Sodium.Model.CompressRef
