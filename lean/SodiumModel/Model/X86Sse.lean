import SodiumModel.Basic
import SodiumModel.Model.ChachaSimd
/-
  Executable semantics of the x86-64 + SSE2 subset used by

    crypto_stream/salsa20/xmm6/salsa20_xmm6-asm.S      (`stream_salsa20_xmm6`, `stream_salsa20_xmm6_xor_ic`)

  The instruction list of that file is NOT transcribed here: `tools_new/asm2lean_salsa.py` translates the text of the
  .S file into `Generated/SalsaXmm6Asm.lean` (an `Array Instr`, the label table and one fetch lemma per instruction),
  on every check run. This file only says what each instruction does.

  Mnemonics that occur in the file (AT&T syntax, source first), and their constructor here:

    mov  %r,%r        movRR        movq %r,d(%b)   movqRM       movl d(%b),%r32  movlMR (zero-extends to 64 bits)
    mov  $i,%r        movIR        movq d(%b),%r   movqMR       movl %r32,d(%b)  movlRM
                                   movq $i,d(%b)   movqIM       leaq d(%b),%r    lea
    and  $i,%r        andIR        add  $i,%r / %r,%r  addIR / addRR          sub $i,%r / %r,%r   subIR / subRR
    shr  $i,%r        shrIR        cmp  $i,%r      cmpIR        xor %r,%r  xorRR       xorl d(%b),%r32   xorlMR
    jbe / jb / ja / jae / jmp      jcc / jmp       rep stosb    repStosb     rep movsb  repMovsb      ret   ret
    movdqa d(%b),%x / %x,d(%b) / %x,%x             movdqaMX / movdqaXM / movdqaXX
    paddd  %x,%x / d(%b),%x        padddXX / padddMX            pxor %x,%x   pxorXX
    pslld  $i,%x   psrld $i,%x     pslldIX / psrldIX            pshufd $i,%x,%x   pshufd
    movd   %x,%r64                 movdXR   (the assembler encodes `movd %xmm,%r64` as MOVQ: all 64 low bits move;
                                             the code only ever uses the low 32 afterwards)
    _CET_ENDBR                     nop      (endbr64 or nothing)

  Registers: sixteen 64-bit GPRs, sixteen XMM registers as four 32-bit lanes (`V128` and the lane operations
  `mm_add_epi32`, `mm_xor_si128`, `mm_slli_epi32`, `mm_srli_epi32`, `mm_shuffle_epi32` are those of
  `Model/ChachaSimd.lean`, validated against the CPU by `simdcheck/chacha`). Flags: CF and ZF (the only ones a
  conditional jump of the file reads); every arithmetic instruction sets them as the CPU does.

  Memory: a flat little-endian byte memory indexed by address (`Array UInt8`; bytes beyond the end read 0 and a write
  beyond the end grows the array, up to `MEM_LIMIT`; a write at or beyond `MEM_LIMIT` is dropped - the driver never
  goes there, and the theorems carry the bound). `movdqa` does not check its 16-byte alignment here (the frame
  the prologue builds is 32-byte aligned; `Properties/C03Asm.lean` states that).
-/
namespace Sodium.Model.X86Sse
open Sodium Sodium.Model.ChachaSimd

inductive Reg where
  | rax | rcx | rdx | rbx | rsp | rbp | rsi | rdi | r8 | r9 | r10 | r11 | r12 | r13 | r14 | r15
  deriving DecidableEq, Repr, Inhabited

structure Gprs where
  rax : UInt64
  rcx : UInt64
  rdx : UInt64
  rbx : UInt64
  rsp : UInt64
  rbp : UInt64
  rsi : UInt64
  rdi : UInt64
  r8 : UInt64
  r9 : UInt64
  r10 : UInt64
  r11 : UInt64
  r12 : UInt64
  r13 : UInt64
  r14 : UInt64
  r15 : UInt64
  deriving Inhabited

def Gprs.get (g : Gprs) : Reg → UInt64
  | .rax => g.rax | .rcx => g.rcx | .rdx => g.rdx | .rbx => g.rbx | .rsp => g.rsp | .rbp => g.rbp | .rsi => g.rsi | .rdi => g.rdi
  | .r8 => g.r8 | .r9 => g.r9 | .r10 => g.r10 | .r11 => g.r11 | .r12 => g.r12 | .r13 => g.r13 | .r14 => g.r14 | .r15 => g.r15

def Gprs.set (g : Gprs) (r : Reg) (v : UInt64) : Gprs :=
  match r with
  | .rax => { g with rax := v } | .rcx => { g with rcx := v } | .rdx => { g with rdx := v } | .rbx => { g with rbx := v }
  | .rsp => { g with rsp := v } | .rbp => { g with rbp := v } | .rsi => { g with rsi := v } | .rdi => { g with rdi := v }
  | .r8 => { g with r8 := v } | .r9 => { g with r9 := v } | .r10 => { g with r10 := v } | .r11 => { g with r11 := v }
  | .r12 => { g with r12 := v } | .r13 => { g with r13 := v } | .r14 => { g with r14 := v } | .r15 => { g with r15 := v }

instance : Inhabited V128 := ⟨⟨0, 0, 0, 0⟩⟩

structure Xmms where
  x0 : V128
  x1 : V128
  x2 : V128
  x3 : V128
  x4 : V128
  x5 : V128
  x6 : V128
  x7 : V128
  x8 : V128
  x9 : V128
  x10 : V128
  x11 : V128
  x12 : V128
  x13 : V128
  x14 : V128
  x15 : V128
  deriving Inhabited

/-- `%xmm<i>` (the translator only produces `i < 16`) -/
def Xmms.get (x : Xmms) : Nat → V128
  | 0 => x.x0 | 1 => x.x1 | 2 => x.x2 | 3 => x.x3 | 4 => x.x4 | 5 => x.x5 | 6 => x.x6 | 7 => x.x7
  | 8 => x.x8 | 9 => x.x9 | 10 => x.x10 | 11 => x.x11 | 12 => x.x12 | 13 => x.x13 | 14 => x.x14 | _ => x.x15

def Xmms.set (x : Xmms) (i : Nat) (v : V128) : Xmms :=
  match i with
  | 0 => { x with x0 := v } | 1 => { x with x1 := v } | 2 => { x with x2 := v } | 3 => { x with x3 := v }
  | 4 => { x with x4 := v } | 5 => { x with x5 := v } | 6 => { x with x6 := v } | 7 => { x with x7 := v }
  | 8 => { x with x8 := v } | 9 => { x with x9 := v } | 10 => { x with x10 := v } | 11 => { x with x11 := v }
  | 12 => { x with x12 := v } | 13 => { x with x13 := v } | 14 => { x with x14 := v } | _ => { x with x15 := v }

/-! ### memory -/

abbrev Mem := Array UInt8

/-- no address at or above this is ever written (1 MiB; the driver's layout ends far below) -/
def MEM_LIMIT : Nat := 1048576

def Mem.read8 (m : Mem) (a : Nat) : UInt8 := m.getD a 0

def Mem.write8 (m : Mem) (a : Nat) (v : UInt8) : Mem :=
  if a < m.size then m.setIfInBounds a v
  else if a < MEM_LIMIT then (m ++ Array.replicate (a - m.size) 0).push v
  else m

/-- little-endian 32-bit load -/
def Mem.read32 (m : Mem) (a : Nat) : UInt32 :=
  (m.read8 a).toUInt32 ||| ((m.read8 (a + 1)).toUInt32 <<< 8) ||| ((m.read8 (a + 2)).toUInt32 <<< 16)
    ||| ((m.read8 (a + 3)).toUInt32 <<< 24)

/-- little-endian 32-bit store -/
def Mem.write32 (m : Mem) (a : Nat) (v : UInt32) : Mem :=
  (((m.write8 a v.toUInt8).write8 (a + 1) (v >>> 8).toUInt8).write8 (a + 2) (v >>> 16).toUInt8).write8 (a + 3) (v >>> 24).toUInt8

def Mem.read64 (m : Mem) (a : Nat) : UInt64 :=
  (m.read32 a).toUInt64 ||| ((m.read32 (a + 4)).toUInt64 <<< 32)

def Mem.write64 (m : Mem) (a : Nat) (v : UInt64) : Mem :=
  (m.write32 a v.toUInt32).write32 (a + 4) (v >>> 32).toUInt32

def Mem.read128 (m : Mem) (a : Nat) : V128 :=
  ⟨m.read32 a, m.read32 (a + 4), m.read32 (a + 8), m.read32 (a + 12)⟩

def Mem.write128 (m : Mem) (a : Nat) (v : V128) : Mem :=
  (((m.write32 a v.e0).write32 (a + 4) v.e1).write32 (a + 8) v.e2).write32 (a + 12) v.e3

/-- `rep stosb` with DF = 0: `n` bytes `v` from address `a` upwards -/
def repStosbMem : Nat → Mem → Nat → UInt8 → Mem
  | 0, m, _, _ => m
  | n + 1, m, a, v => repStosbMem n (m.write8 a v) (a + 1) v

/-- `rep movsb` with DF = 0: byte by byte, lowest address first (so an overlapping forward copy smears, as on the CPU) -/
def repMovsbMem : Nat → Mem → Nat → Nat → Mem
  | 0, m, _, _ => m
  | n + 1, m, src, dst => repMovsbMem n (m.write8 dst (m.read8 src)) (src + 1) (dst + 1)

/-! ### instructions -/

/-- `disp(%base)` -/
structure MemOp where
  disp : UInt64
  base : Reg
  deriving DecidableEq, Repr, Inhabited

/-- the conditions the file uses (unsigned comparisons) -/
inductive Cond where
  | b    -- CF
  | ae   -- ¬CF
  | be   -- CF ∨ ZF
  | a    -- ¬CF ∧ ¬ZF
  deriving DecidableEq, Repr, Inhabited

inductive Instr where
  | nop
  | movRR (src dst : Reg)
  | movIR (imm : UInt64) (dst : Reg)
  | movqRM (src : Reg) (m : MemOp)
  | movqMR (m : MemOp) (dst : Reg)
  | movqIM (imm : UInt64) (m : MemOp)
  | movlMR (m : MemOp) (dst : Reg)
  | movlRM (src : Reg) (m : MemOp)
  | lea (m : MemOp) (dst : Reg)
  | andIR (imm : UInt64) (dst : Reg)
  | addIR (imm : UInt64) (dst : Reg)
  | addRR (src dst : Reg)
  | subIR (imm : UInt64) (dst : Reg)
  | subRR (src dst : Reg)
  | shrIR (imm : UInt64) (dst : Reg)
  | cmpIR (imm : UInt64) (dst : Reg)
  | xorRR (src dst : Reg)
  | xorlMR (m : MemOp) (dst : Reg)
  | jcc (c : Cond) (target : Nat)
  | jmp (target : Nat)
  | repStosb
  | repMovsb
  | ret
  | movdqaMX (m : MemOp) (dst : Nat)
  | movdqaXM (src : Nat) (m : MemOp)
  | movdqaXX (src dst : Nat)
  | padddXX (src dst : Nat)
  | padddMX (m : MemOp) (dst : Nat)
  | pxorXX (src dst : Nat)
  | pslldIX (imm : UInt32) (dst : Nat)
  | psrldIX (imm : UInt32) (dst : Nat)
  | pshufd (imm : Nat) (src dst : Nat)
  | movdXR (src : Nat) (dst : Reg)
  deriving DecidableEq, Repr, Inhabited

structure State where
  g : Gprs
  x : Xmms
  cf : Bool
  zf : Bool
  mem : Mem
  pc : Nat
  halted : Bool
  fault : Bool
  deriving Inhabited

/-- effective address of `disp(%base)` -/
def ea (g : Gprs) (m : MemOp) : Nat := (g.get m.base + m.disp).toNat

def Cond.holds (c : Cond) (cf zf : Bool) : Bool :=
  match c with
  | .b => cf
  | .ae => !cf
  | .be => cf || zf
  | .a => !cf && !zf

/-- a GPR result with the flags of a logical operation (CF = 0) -/
@[inline] def State.setLogic (s : State) (dst : Reg) (r : UInt64) : State :=
  { s with g := s.g.set dst r, cf := false, zf := r == 0, pc := s.pc + 1 }

def step (i : Instr) (s : State) : State :=
  match i with
  | .nop => { s with pc := s.pc + 1 }
  | .movRR src dst => { s with g := s.g.set dst (s.g.get src), pc := s.pc + 1 }
  | .movIR imm dst => { s with g := s.g.set dst imm, pc := s.pc + 1 }
  | .movqRM src m => { s with mem := s.mem.write64 (ea s.g m) (s.g.get src), pc := s.pc + 1 }
  | .movqMR m dst => { s with g := s.g.set dst (s.mem.read64 (ea s.g m)), pc := s.pc + 1 }
  | .movqIM imm m => { s with mem := s.mem.write64 (ea s.g m) imm, pc := s.pc + 1 }
  | .movlMR m dst => { s with g := s.g.set dst (s.mem.read32 (ea s.g m)).toUInt64, pc := s.pc + 1 }
  | .movlRM src m => { s with mem := s.mem.write32 (ea s.g m) (s.g.get src).toUInt32, pc := s.pc + 1 }
  | .lea m dst => { s with g := s.g.set dst (s.g.get m.base + m.disp), pc := s.pc + 1 }
  | .andIR imm dst => s.setLogic dst (s.g.get dst &&& imm)
  | .addIR imm dst =>
    let a := s.g.get dst
    let r := a + imm
    { s with g := s.g.set dst r, cf := r < a, zf := r == 0, pc := s.pc + 1 }
  | .addRR src dst =>
    let a := s.g.get dst
    let r := a + s.g.get src
    { s with g := s.g.set dst r, cf := r < a, zf := r == 0, pc := s.pc + 1 }
  | .subIR imm dst =>
    let a := s.g.get dst
    { s with g := s.g.set dst (a - imm), cf := a < imm, zf := a == imm, pc := s.pc + 1 }
  | .subRR src dst =>
    let a := s.g.get dst
    let b := s.g.get src
    { s with g := s.g.set dst (a - b), cf := a < b, zf := a == b, pc := s.pc + 1 }
  | .shrIR imm dst =>
    let a := s.g.get dst
    let r := a >>> imm
    { s with g := s.g.set dst r, cf := (a >>> (imm - 1)) &&& 1 == 1, zf := r == 0, pc := s.pc + 1 }
  | .cmpIR imm dst =>
    let a := s.g.get dst
    { s with cf := a < imm, zf := a == imm, pc := s.pc + 1 }
  | .xorRR src dst => s.setLogic dst (s.g.get dst ^^^ s.g.get src)
  | .xorlMR m dst => s.setLogic dst ((s.g.get dst).toUInt32 ^^^ s.mem.read32 (ea s.g m)).toUInt64
  | .jcc c t => { s with pc := if c.holds s.cf s.zf then t else s.pc + 1 }
  | .jmp t => { s with pc := t }
  | .repStosb =>
    let n := s.g.rcx.toNat
    if n > MEM_LIMIT then { s with halted := true, fault := true } else
    { s with mem := repStosbMem n s.mem s.g.rdi.toNat s.g.rax.toUInt8,
             g := { s.g with rdi := s.g.rdi + s.g.rcx, rcx := 0 }, pc := s.pc + 1 }
  | .repMovsb =>
    let n := s.g.rcx.toNat
    if n > MEM_LIMIT then { s with halted := true, fault := true } else
    { s with mem := repMovsbMem n s.mem s.g.rsi.toNat s.g.rdi.toNat,
             g := { s.g with rdi := s.g.rdi + s.g.rcx, rsi := s.g.rsi + s.g.rcx, rcx := 0 }, pc := s.pc + 1 }
  | .ret => { s with halted := true }
  | .movdqaMX m dst => { s with x := s.x.set dst (s.mem.read128 (ea s.g m)), pc := s.pc + 1 }
  | .movdqaXM src m => { s with mem := s.mem.write128 (ea s.g m) (s.x.get src), pc := s.pc + 1 }
  | .movdqaXX src dst => { s with x := s.x.set dst (s.x.get src), pc := s.pc + 1 }
  | .padddXX src dst => { s with x := s.x.set dst (mm_add_epi32 (s.x.get dst) (s.x.get src)), pc := s.pc + 1 }
  | .padddMX m dst => { s with x := s.x.set dst (mm_add_epi32 (s.x.get dst) (s.mem.read128 (ea s.g m))), pc := s.pc + 1 }
  | .pxorXX src dst => { s with x := s.x.set dst (mm_xor_si128 (s.x.get dst) (s.x.get src)), pc := s.pc + 1 }
  | .pslldIX imm dst => { s with x := s.x.set dst (mm_slli_epi32 (s.x.get dst) imm), pc := s.pc + 1 }
  | .psrldIX imm dst => { s with x := s.x.set dst (mm_srli_epi32 (s.x.get dst) imm), pc := s.pc + 1 }
  | .pshufd imm src dst => { s with x := s.x.set dst (mm_shuffle_epi32 (s.x.get src) imm), pc := s.pc + 1 }
  | .movdXR src dst =>
    let v := s.x.get src
    { s with g := s.g.set dst (v.e0.toUInt64 ||| (v.e1.toUInt64 <<< 32)), pc := s.pc + 1 }

/-- a program: the instructions in order, stored in blocks of 32 (so that a fetch is two short array reads, for the
    interpreter and for the proofs alike) -/
abbrev Program := Array (Array Instr)

def Program.fetch (p : Program) (pc : Nat) : Option Instr := (p[pc / 32]?).bind (·[pc % 32]?)

/-- fetch and execute until `ret` (or a fetch outside the program, which faults), at most `fuel` instructions -/
def run (prog : Program) : Nat → State → State
  | 0, s => s
  | fuel + 1, s =>
    if s.halted then s else
    match prog.fetch s.pc with
    | none => { s with halted := true, fault := true }
    | some i => run prog fuel (step i s)

/-! ### the driver's memory layout and the two entry points

  [0, STACK_TOP)  stack (zero)        entry `%rsp` = `RSP0` (≡ 8 mod 16 as after a `call`)
  KEY   32 bytes key                  NONCE  8 bytes nonce
  MSG   message, then 64 spare bytes  OUT(len)  output, then 64 spare bytes                                        -/

def RSP0 : UInt64 := 1000
def KEY : UInt64 := 1024
def NONCE : UInt64 := 1056
def MSG : UInt64 := 1088
def OUT (len : Nat) : UInt64 := UInt64.ofNat (1088 + (len + 127) / 64 * 64)

def initMem (key nonce m : Bytes) : Mem :=
  (zeros 1024 ++ ((key ++ zeros 32).take 32 ++ ((nonce ++ zeros 8).take 8 ++ zeros 24))).toArray
    ++ (m ++ zeros ((m.length + 127) / 64 * 64 - m.length + (m.length + 127) / 64 * 64)).toArray

def zeroG : Gprs := ⟨0, 0, 0, 0, 0, 0, 0, 0, 0, 0, 0, 0, 0, 0, 0, 0⟩
def zeroX : Xmms := ⟨default, default, default, default, default, default, default, default,
  default, default, default, default, default, default, default, default⟩

/-- `stream_salsa20_xmm6_xor_ic(c = %rdi, m = %rsi, mlen = %rdx, n = %rcx, ic = %r8, k = %r9)` -/
def initXorIc (entry : Nat) (key nonce : Bytes) (ic : UInt64) (m : Bytes) : State :=
  { g := { zeroG with rsp := RSP0, rdi := OUT m.length, rsi := MSG, rdx := UInt64.ofNat m.length, rcx := NONCE, r8 := ic, r9 := KEY }
    x := zeroX, cf := false, zf := false, mem := initMem key nonce m, pc := entry, halted := false, fault := false }

/-- `stream_salsa20_xmm6(c = %rdi, clen = %rsi, n = %rdx, k = %rcx)`; the output buffer initially holds `junk` -/
def initStream (entry : Nat) (key nonce : Bytes) (clen : Nat) (junk : Bytes) : State :=
  { g := { zeroG with rsp := RSP0, rdi := MSG, rsi := UInt64.ofNat clen, rdx := NONCE, rcx := KEY }
    x := zeroX, cf := false, zf := false, mem := initMem key nonce ((junk ++ zeros clen).take clen), pc := entry, halted := false, fault := false }

def Mem.slice (m : Mem) (a n : Nat) : Bytes := (List.range n).map fun i => m.read8 (a + i)

/-- enough for every length the driver sends (≈ 2800 instructions per 256 bytes) -/
def fuelFor (len : Nat) : Nat := 2000 + 16 * len + 1000 * ((len + 63) / 64)

/-- run the `xor_ic` entry; `none` when the run faults, does not return, or returns non-zero -/
def asmXorIc (prog : Program) (entry : Nat) (m n : Bytes) (ic : UInt64) (k : Bytes) : Option Bytes :=
  let s := run prog (fuelFor m.length) (initXorIc entry k n ic m)
  if s.halted && !s.fault && s.g.rax == 0 then some (s.mem.slice (OUT m.length).toNat m.length) else none

def asmStream (prog : Program) (entry : Nat) (clen : Nat) (n k : Bytes) : Option Bytes :=
  let s := run prog (fuelFor clen) (initStream entry k n clen (List.replicate clen 0xa5))
  if s.halted && !s.fault && s.g.rax == 0 then some (s.mem.slice MSG.toNat clen) else none

end Sodium.Model.X86Sse
