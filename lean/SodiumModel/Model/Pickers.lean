import SodiumModel.Basic
/-
  Semantics of the implementation-selection decision lists that tools/c2lean_pickers.py regenerates
  from the `*_pick_best_implementation` functions, and the Bool-valued soundness check run by the
  kernel over the generated tables.
  Feature indices: 0 sse2, 1 sse3, 2 ssse3, 3 sse41, 4 avx, 5 avx2, 6 avx512f, 7 pclmul, 8 aesni, 9 rdrand.
-/
namespace Sodium.Model.Pickers

/-- (features tested, implementation, `return` inside the branch, ISA the implementation is compiled for) -/
abbrev Stmt := List Nat × String × Bool × List Nat

def hasF (mask i : Nat) : Bool := mask.testBit i

/-- run the picker: later assignments override earlier ones until a branch returns -/
def selectFrom (mask : Nat) (cur : Option (String × List Nat)) : List Stmt → Option (String × List Nat)
  | [] => cur
  | (cond, impl, ret, req) :: rest =>
    if cond.all (hasF mask) then (if ret then some (impl, req) else selectFrom mask (some (impl, req)) rest)
    else selectFrom mask cur rest

def select (stmts : List Stmt) (mask : Nat) : Option (String × List Nat) := selectFrom mask none stmts

/-- architectural implications between x86 features (a real CPU that has the first has the second) -/
def arch : List (Nat × Nat) := [(6, 5), (5, 4), (4, 3), (3, 2), (2, 1), (1, 0), (8, 0), (7, 0)]

def closed (mask : Nat) : Bool := arch.all fun p => !hasF mask p.1 || hasF mask p.2

def soundAt (stmts : List Stmt) (mask : Nat) : Bool :=
  match select stmts mask with
  | none => false
  | some (_, req) => req.all (hasF mask)

/-- for every architecturally closed feature set, every picker selects an implementation whose ISA is available -/
def allSound (ps : List (String × List Stmt)) : Bool :=
  (List.range 1024).all fun m => !closed m || ps.all fun p => soundAt p.2 m

/-- with no feature at all every picker falls back to code compiled without any ISA extension -/
def fallbackPortable (ps : List (String × List Stmt)) : Bool :=
  ps.all fun p => match select p.2 0 with
    | some (_, []) => true
    | _ => false

end Sodium.Model.Pickers
