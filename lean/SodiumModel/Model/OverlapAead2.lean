import SodiumModel.Model.OverlapAead
/-
  C13, AES-256-GCM at memory level, the WHOLE of crypto_aead_aes256gcm_{encrypt,decrypt}_detached_afternm
  (aead_aes256gcm_aesni.c): associated data, the block loops of `Model/OverlapAead.lean` (`encBulk` / `decBulk` run by
  `gRun`), the tag — which aes_gcm_encrypt_generic builds IN THE CALLER'S `mac` BUFFER (`encrypt(st, mac, counter_)`
  stores E_K(J0) there BEFORE the tail of the message is loaded, and the last statement XORs GHASH into it) —, the
  limits path (`required_blocks == 0`), and in decrypt the order "all plaintext stores, THEN crypto_verify_16(mac, …),
  THEN memset(m, 0xd0, m_len) on failure".

  Primitives are parameters on values (`st` = the expanded state `crypto_aead_aes256gcm_state`, which is a const
  object of the caller distinct from the message buffers):
    ks st nonce len   AES-CTR keystream from counter 2
    ej0 st nonce      E_K(nonce ‖ 0^31 ‖ 1)
    ghash st data     REV128(sth->acc) after absorbing the whole-block sequence `data`
-/
namespace Sodium.Model.OverlapAead
open Sodium Sodium.Model Sodium.Model.Aead Sodium.Model.Overlap

structure GcmPrims where
  ks : Bytes → Bytes → Nat → Bytes
  ej0 : Bytes → Bytes → Bytes
  ghash : Bytes → Bytes → Bytes

/-- 0^u padding of a byte count to a whole block -/
def gpad (n : Nat) : Bytes := zeros ((16 - n % 16) % 16)

/-- final_block = [len(A)]_64 ‖ [len(C)]_64 in bits, big-endian -/
def finalBlock (adlen mlen : Nat) : Bytes := toBE 8 (8 * adlen) ++ toBE 8 (8 * mlen)

/-- `required_blocks(ad_len, m_len) != 0` for lengths that fit `size_t` (64 bits) -/
def limitsOk (adlen mlen : Nat) : Bool :=
  !(decide (adlen > 2 ^ 64 - 1 - 224) || decide (mlen > 2 ^ 64 - 1 - 224) || decide ((mlen + 15) / 16 ≥ 2 ^ 32 - 2))

/-- value-level reference: (ciphertext, tag) -/
def gcmEncV (G : GcmPrims) (st nonce ad m : Bytes) : Bytes × Bytes :=
  let c := xorBytes m (G.ks st nonce m.length)
  (c, xorBytes (G.ej0 st nonce) (G.ghash st (ad ++ gpad ad.length ++ c ++ gpad c.length ++ finalBlock ad.length c.length)))

/-- crypto_aead_aes256gcm_encrypt_detached_afternm(c, mac, maclen_p, m, m_len, ad, ad_len, nsec, npub, st):
    (return value, memory afterwards) -/
def gcmEncryptDetachedMem (G : GcmPrims) (st : Bytes) (mem : Mem) (c mac m mlen ad adlen npub : Nat) : Int32 × Mem :=
  -- if (required_blocks(...) == 0) { memset(mac, 0xd0, ABYTES); memset(c, 0, m_len); return -1; }
  if !limitsOk adlen mlen then (-1, memset (memset mem mac 0xd0 16) c 0 mlen)
  else
    -- memcpy(j, npub, NPUBBYTES)
    let nonce := read mem npub 12
    -- Associated data: gh_ad_blocks(ad, ad_len & ~15); pad the rest  (loads only)
    let gA := read mem ad adlen ++ gpad adlen
    let ks := G.ks st nonce mlen
    -- the block loops
    let r := gRun ks c m c (encBulk mlen).2 (mem, [])
    let i := (encBulk mlen).1
    -- STORE32_BE(counter_ + NPUBBYTES, 1); encrypt(st, mac, counter_): a STORE to the caller's mac buffer
    let mem1 := write r.1 mac (G.ej0 st nonce)
    let left := mlen - i
    -- tail through last_blocks
    let t : Mem × Bytes :=
      if left ≠ 0 then
        let lb := xorBytes (read mem1 (m + i) left) ((ks.drop i).take left)
        (write mem1 (c + i) lb, r.2 ++ lb ++ zeros (16 - left))
      else (mem1, r.2)
    let acc := G.ghash st (gA ++ t.2 ++ finalBlock adlen mlen)
    -- STORE128(mac, XOR128(LOAD128(mac), REV128(sth->acc)))
    (0, write t.1 mac (xorBytes (read t.1 mac 16) acc))

/-- crypto_aead_aes256gcm_decrypt_detached_afternm(m, nsec, c, c_len, mac, ad, ad_len, npub, st) for `m != NULL`
    (`m == NULL` is crypto_aead_aes256gcm_verify_mac, which stores nothing) -/
def gcmDecryptDetachedMem (G : GcmPrims) (st : Bytes) (mem : Mem) (m c clen mac ad adlen npub : Nat) : Int32 × Mem :=
  -- if (required_blocks(...) == 0) return -1;
  if !limitsOk adlen clen then (-1, mem)
  else
    let nonce := read mem npub 12
    let gA := read mem ad adlen ++ gpad adlen
    let ks := G.ks st nonce clen
    let r := gRun ks m c c (decBulk clen).2 (mem, [])
    let i := (decBulk clen).1
    -- encrypt(st, computed_mac, counter_): computed_mac is a stack array
    let left := clen - i
    let t : Mem × Bytes :=
      if left ≠ 0 then
        let lb := read r.1 (c + i) left
        (write r.1 (m + i) (xorBytes lb ((ks.drop i).take left)), r.2 ++ lb ++ zeros (16 - left))
      else r
    let computed := xorBytes (G.ej0 st nonce) (G.ghash st (gA ++ t.2 ++ finalBlock adlen clen))
    -- if (crypto_verify_16(mac, computed_mac) != 0) { memset(m, 0xd0, m_len); return -1; }   — `mac` is loaded HERE
    if Sodium.Model.verify_n_sse2 1 (read t.1 mac 16) computed ≠ 0 then (-1, memset t.1 m 0xd0 clen)
    else (0, t.1)

end Sodium.Model.OverlapAead
