import SodiumModel.Model.OverlapAead2
import SodiumModel.Spec.Gcm
/-
  C13 / AES-256-GCM: the primitives of `Model/OverlapAead2.lean` instantiated with the SPECIFICATION
  (`st` = the 32-byte key; FIPS-197 AES-256, SP 800-38D GCTR and GHASH):
    ks   = GCTR keystream from counter block nonce ‖ BE32(2) (= inc32(J0)), i.e. GCTR of zeros
    ej0  = E_K(J0), J0 = nonce ‖ BE32(1)
    ghash = GHASH under H = E_K(0^128)
  For a key that is not 32 bytes or a nonce that is not 12 bytes (never the case: the code reads exactly 12 nonce
  bytes and the key is `crypto_aead_aes256gcm_KEYBYTES`) the stream / E_K(J0) are defined as zeros, so that the output
  sizes hold unconditionally.
-/
namespace Sodium.Model.OverlapAead
open Sodium Sodium.Spec

def specPrims : GcmPrims where
  ks := fun st nonce len =>
    if st.length = 32 ∧ nonce.length = 12 then
      Gcm.gctr (Aes.cipher (Aes.keyExpansion256 st)) (Gcm.inc32 (nonce ++ [0, 0, 0, 1])) (zeros len)
    else zeros len
  ej0 := fun st nonce =>
    if st.length = 32 ∧ nonce.length = 12 then Aes.cipher (Aes.keyExpansion256 st) (nonce ++ [0, 0, 0, 1]) else zeros 16
  ghash := fun st d => Gcm.ghash (Aes.cipher (Aes.keyExpansion256 st) (zeros 16)) d

end Sodium.Model.OverlapAead
