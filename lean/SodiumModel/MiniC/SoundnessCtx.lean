import SodiumModel.MiniC.Soundness
/-
  Soundness of the MiniC constant-time checker for an EXPLICITLY SUPPLIED labelling of the locals.

  `ctCheck` infers the labels of the locals by iterated demotion (`inferCtx`) and then runs `checkProg`; the
  inference is untrusted.  For the large programs translated by `tools/c2minic.py` (field arithmetic, scalar
  multiplication, hash compression functions: hundreds of locals, dozens of callees) re-running the inference
  inside the kernel is the dominating cost, so the obligations of those programs supply the inferred context
  as a literal (computed outside the kernel with `#eval inferCtx …`) and let the kernel run only the single
  pass `checkS`, one function at a time (`checkFn`), the results being assembled by `allOK_cons`.
  `soundness_ctx` is `soundness` with the context as a parameter; nothing about the context is assumed except
  what `checkProg` and `entryOK` verify.
-/
namespace MiniC

/-- the body of `fn` checks under the environment `C` gives it (functions without an environment are not
    entry points of `exec_ni`; cf. `checkProg`) -/
def checkFn (P : Program) (C : Ctx) (fn : Fun) : Bool :=
  match C.lookup fn.name with
  | some Γ => checkS P C Γ fn.body
  | none => true

def allOK (P : Program) (C : Ctx) (L : List Fun) : Bool := L.all (checkFn P C)

theorem checkProg_eq_allOK (P : Program) (C : Ctx) : checkProg P C = allOK P C P := rfl

theorem allOK_nil (P : Program) (C : Ctx) : allOK P C [] = true := rfl

theorem allOK_cons {P : Program} {C : Ctx} {fn : Fun} {L : List Fun}
    (h : checkFn P C fn = true) (hL : allOK P C L = true) : allOK P C (fn :: L) = true := by
  simp only [allOK, List.all_cons, Bool.and_eq_true] at hL ⊢
  exact ⟨h, hL⟩

theorem allOK_append {P : Program} {C : Ctx} {L1 L2 : List Fun}
    (h1 : allOK P C L1 = true) (h2 : allOK P C L2 = true) : allOK P C (L1 ++ L2) = true := by
  simp only [allOK, List.all_append, Bool.and_eq_true] at h1 h2 ⊢
  exact ⟨h1, h2⟩

/-- SOUNDNESS for a supplied context: if every function of `P` checks under `C`, and the environment `C`
    gives the entry function claims no more about the parameters than `sp` (`entryOK`), then the entry
    function is non-interferent under `sp` — for all inputs and all fuel. -/
theorem soundness_ctx {P : Program} {f : FunName} {C : Ctx} {fn : Fun} {sp : Spec} {Γ : Env}
    (hprog : checkProg P C = true) (hf : P.find f = some fn) (hl : C.lookup f = some Γ)
    (hentry : entryOK fn Γ sp = true) :
    NonInterferent P fn sp := by
  intro fuel vals1 arrs1 vals2 arrs2 hpe
  simp only [entryOK, Bool.and_eq_true, List.all_eq_true, Bool.or_eq_true, Bool.not_eq_true',
    beq_iff_eq] at hentry
  obtain ⟨⟨⟨hv, ha⟩, hr⟩, hpa⟩ := hentry
  have hP := progOK_of_checkProg P _ hprog
  have hinit : Agree Γ (initState fn vals1 arrs1) (initState fn vals2 arrs2) := by
    refine ⟨fun x hx => ?_, fun a hx => ?_⟩
    · simp only [initState]
      cases hv x (List.contains_iff_mem.mp hx) with
      | inl h1 => exact hpe.1 x h1
      | inr h1 => rw [bindVars_not_mem _ _ _ h1, bindVars_not_mem _ _ _ h1]
    · simp only [initState]
      cases ha a (List.contains_iff_mem.mp hx) with
      | inl h1 => exact hpe.2 a h1
      | inr h1 => rw [bindArrs_not_mem _ _ _ h1, bindArrs_not_mem _ _ _ h1]
  have := exec_ni P _ hP fuel Γ fn.body _ _ (hP f fn Γ hf hl) hinit
  simp only [runFun]
  refine ⟨this.1, ?_, fun a hx => this.2.2.2 a (hpa a (List.contains_iff_mem.mp hx))⟩
  rw [hr]; exact this.2.1

/-- `ctCheck` is the instance of the supplied-context check at the inferred context -/
theorem ctCheck_iff_ctx (P : Program) (f : FunName) (specs : Ctx) :
    ctCheck P f specs = (checkProg P (inferCtx P specs) &&
      match P.find f, (inferCtx P specs).lookup f, specs.lookup f with
      | some fn, some Γ, some sp => entryOK fn Γ sp
      | _, _, _ => false) := rfl

end MiniC
