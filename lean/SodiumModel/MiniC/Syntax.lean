/-
  MiniC — a deep embedding of the fragment of C used by libsodium's constant-time leaf helpers
  (utils.c, codecs.c, verify.c, small ref10 helpers).  Core Lean only.

  The translator `tools/c2minic.py` produces values of these types from clang's JSON AST
  (where every implicit conversion is already an explicit cast node).  Normalisations done by the
  translator (trusted, documented in the generated file's header):
    * compound assignments `x op= e` become `x = (T)(x op e)` exactly as clang's
      CompoundAssignOperator describes (computation type, then conversion to the lvalue type);
    * `x++ / x-- / ++x / --x` become assignments, hoisted out of the enclosing expression statement;
    * `for (init; c; inc) b` becomes `init; while (c) { b; inc }` (no `continue` in the fragment);
    * pointer locals that are initialised once from `&a[e]` / `a` / `(T*) a` become an integer offset
      variable into the array `a`; `*(p - i)`, `p[i]` become loads / stores of `a`;
    * calls in expression position are hoisted to call statements with a fresh result variable;
    * `volatile` is ignored.
-/
namespace MiniC

abbrev Name := String
abbrev FunName := String

/-- integer types: signedness and width in bits (8/16/32/64; 128 is expressible as well) -/
structure Ty where
  signed : Bool
  bits : Nat
  deriving DecidableEq, Repr

namespace Ty
def u8 : Ty := ⟨false, 8⟩
def u16 : Ty := ⟨false, 16⟩
def u32 : Ty := ⟨false, 32⟩
def u64 : Ty := ⟨false, 64⟩
def i8 : Ty := ⟨true, 8⟩
def i16 : Ty := ⟨true, 16⟩
def i32 : Ty := ⟨true, 32⟩
def i64 : Ty := ⟨true, 64⟩
/-- `size_t` on the x86-64 SysV ABI -/
def size_t : Ty := u64
end Ty

inductive UnOp where
  | neg    -- `-e`
  | bnot   -- `~e`
  | lnot   -- `!e`   (result 0/1)
  deriving DecidableEq, Repr

inductive BinOp where
  | add | sub | mul
  | div | mod           -- leak both operands
  | band | bor | bxor
  | shl | shr           -- leak the shift amount unless it is a literal
  | eq | ne | lt | le | gt | ge   -- result 0/1
  deriving DecidableEq, Repr

/-- Expressions are side-effect free (the translator hoists `++`, calls, …) but they are
    INSTRUMENTED: evaluation yields a leakage trace. The `ty` of `un` / `bin` is the C type in which
    the operation is carried out (after the usual arithmetic conversions, explicit in clang's AST). -/
inductive Expr where
  | lit (v : Int)
  | var (x : Name)
  | un (op : UnOp) (ty : Ty) (e : Expr)
  | bin (op : BinOp) (ty : Ty) (e1 e2 : Expr)
  | cast (ty : Ty) (e : Expr)
  | load (a : Name) (idx : Expr)
  | land (e1 e2 : Expr)          -- `e1 && e2`, short-circuit: a branch on `e1`
  | lor (e1 e2 : Expr)           -- `e1 || e2`, short-circuit: a branch on `e1`
  | cond (c e1 e2 : Expr)        -- `c ? e1 : e2`: a branch on `c`
  deriving DecidableEq, Repr

def Expr.isLit : Expr → Bool
  | .lit _ => true
  | _ => false

inductive Stmt where
  | skip
  | assign (x : Name) (e : Expr)                  -- local declaration with initialiser / assignment
  | store (a : Name) (idx : Expr) (e : Expr)      -- `a[idx] = e`
  | declArr (a : Name) (vals : List Int)          -- local (or file-scope constant) array with its initial contents
  | seq (s1 s2 : Stmt)
  | ite (c : Expr) (s1 s2 : Stmt)
  | while (c : Expr) (b : Stmt)
  | doWhile (b : Stmt) (c : Expr)
  | call (dst : Option Name) (f : FunName) (args : List Expr) (arrs : List Name)
  | ret (e : Expr)                                -- `return e;`  (`return;` is `ret (lit 0)`)
  | brk
  | abort                                         -- call of a `noreturn` function (sodium_misuse, failed assert)
  deriving DecidableEq, Repr

/-- A function: scalar parameters (by value), array parameters (by pointer), body. -/
structure Fun where
  name : FunName
  params : List Name
  arrParams : List Name
  body : Stmt
  deriving DecidableEq, Repr

abbrev Program := List Fun

def Program.find (P : Program) (f : FunName) : Option Fun := List.find? (fun g => g.name == f) P

/-- right-nested sequence of a list of statements (used by the translator's output) -/
def Stmt.block : List Stmt → Stmt
  | [] => .skip
  | [s] => s
  | s :: ss => .seq s (Stmt.block ss)

end MiniC
