import SodiumModel.MiniC.Syntax
/-
  A decidable security type checker for MiniC (flow-insensitive labels, `Public ⊑ Secret`).

  An `Env` lists the PUBLIC scalar variables and the arrays whose CONTENTS are public of one
  function, and says whether its return value is public; everything not listed is Secret.
  The same structure is used for the user-supplied labelling of a function's parameters (`Spec`).

  `checkS` verifies, for a fixed `Env`:
    * every `if` / loop / `&&` / `||` / `?:` condition is Public;
    * every array index is Public;
    * both operands of `/` and `%` are Public, every non-literal shift amount is Public;
    * an assignment to a Public variable has a Public right-hand side; a store into an array with
      Public contents stores a Public value; a `return` in a function with Public result returns a
      Public value (implicit flows cannot arise: guards are Public);
    * at a call, Public parameters of the callee receive Public arguments, the contents label of each
      array argument is the contents label of the callee's array parameter, and a Public destination
      requires a Public result.
  The labels of locals are INFERRED (`inferFun`: start with every local Public, demote until stable);
  the inference is not trusted — only `checkS` under the inferred environment matters.
-/
namespace MiniC

structure Env where
  pubVars : List Name
  pubArrs : List Name
  retPub : Bool
  deriving Repr, DecidableEq

abbrev Spec := Env
abbrev Ctx := List (FunName × Env)

/-- `true` = Public -/
def labelE (Γ : Env) : Expr → Bool
  | .lit _ => true
  | .var x => Γ.pubVars.contains x
  | .un _ _ e => labelE Γ e
  | .bin _ _ e1 e2 => labelE Γ e1 && labelE Γ e2
  | .cast _ e => labelE Γ e
  | .load a i => Γ.pubArrs.contains a && labelE Γ i
  | .land e1 e2 => labelE Γ e1 && labelE Γ e2
  | .lor e1 e2 => labelE Γ e1 && labelE Γ e2
  | .cond c e1 e2 => labelE Γ c && labelE Γ e1 && labelE Γ e2

/-- operand requirements of the leaking operators -/
def binOK (Γ : Env) (op : BinOp) (e1 e2 : Expr) : Bool :=
  match op with
  | .div | .mod => labelE Γ e1 && labelE Γ e2
  | .shl | .shr => e2.isLit || labelE Γ e2
  | _ => true

def checkE (Γ : Env) : Expr → Bool
  | .lit _ => true
  | .var _ => true
  | .un _ _ e => checkE Γ e
  | .bin op _ e1 e2 => checkE Γ e1 && checkE Γ e2 && binOK Γ op e1 e2
  | .cast _ e => checkE Γ e
  | .load _ i => checkE Γ i && labelE Γ i
  | .land e1 e2 => checkE Γ e1 && checkE Γ e2 && labelE Γ e1
  | .lor e1 e2 => checkE Γ e1 && checkE Γ e2 && labelE Γ e1
  | .cond c e1 e2 => checkE Γ c && checkE Γ e1 && checkE Γ e2 && labelE Γ c

def checkArgs (Γ : Env) : List Expr → Bool
  | [] => true
  | e :: es => checkE Γ e && checkArgs Γ es

/-- Public parameters receive Public arguments -/
def argsOK (Γ Γg : Env) : List Name → List Expr → Bool
  | p :: ps, e :: es => (!Γg.pubVars.contains p || labelE Γ e) && argsOK Γ Γg ps es
  | _, _ => true

/-- contents labels of array arguments and array parameters coincide -/
def arrsOK (Γ Γg : Env) : List Name → List Name → Bool
  | a :: as, q :: qs => (Γ.pubArrs.contains a == Γg.pubArrs.contains q) && arrsOK Γ Γg as qs
  | _, _ => true

def dstOK (Γ Γg : Env) : Option Name → Bool
  | some x => !Γ.pubVars.contains x || Γg.retPub
  | none => true

def checkS (P : Program) (C : Ctx) (Γ : Env) : Stmt → Bool
  | .skip => true
  | .assign x e => checkE Γ e && (!Γ.pubVars.contains x || labelE Γ e)
  | .store a i e => checkE Γ e && checkE Γ i && labelE Γ i && (!Γ.pubArrs.contains a || labelE Γ e)
  | .declArr _ _ => true
  | .seq s1 s2 => checkS P C Γ s1 && checkS P C Γ s2
  | .ite c s1 s2 => checkE Γ c && labelE Γ c && checkS P C Γ s1 && checkS P C Γ s2
  | .while c b => checkE Γ c && labelE Γ c && checkS P C Γ b
  | .doWhile b c => checkE Γ c && labelE Γ c && checkS P C Γ b
  | .call dst f args arrs =>
    checkArgs Γ args &&
    match P.find f with
    | none => true            -- the semantics aborts right after evaluating the arguments
    | some fn =>
      match C.lookup f with
      | none => false
      | some Γg => argsOK Γ Γg fn.params args && arrsOK Γ Γg arrs fn.arrParams && dstOK Γ Γg dst
  | .ret e => checkE Γ e && (!Γ.retPub || labelE Γ e)
  | .brk => true
  | .abort => true

/-- every function of the program checks under its environment in `C` -/
def checkProg (P : Program) (C : Ctx) : Bool :=
  P.all fun fn => match C.lookup fn.name with
    | some Γ => checkS P C Γ fn.body
    | none => true

/-! ### label inference (untrusted) -/

def Stmt.assigned : Stmt → List Name
  | .assign x _ => [x]
  | .seq s1 s2 => s1.assigned ++ s2.assigned
  | .ite _ s1 s2 => s1.assigned ++ s2.assigned
  | .while _ b => b.assigned
  | .doWhile b _ => b.assigned
  | .call (some x) _ _ _ => [x]
  | _ => []

def Stmt.declaredArrs : Stmt → List Name
  | .declArr a _ => [a]
  | .seq s1 s2 => s1.declaredArrs ++ s2.declaredArrs
  | .ite _ s1 s2 => s1.declaredArrs ++ s2.declaredArrs
  | .while _ b => b.declaredArrs
  | .doWhile b _ => b.declaredArrs
  | _ => []

def Env.dropVar (Γ : Env) (x : Name) : Env := { Γ with pubVars := Γ.pubVars.filter (· != x) }
def Env.dropArr (Γ : Env) (a : Name) : Env := { Γ with pubArrs := Γ.pubArrs.filter (· != a) }

def dropArrs (Γ : Env) (sp : Spec) : List Name → List Name → Env
  | a :: as, q :: qs => dropArrs (if sp.pubArrs.contains q then Γ else Γ.dropArr a) sp as qs
  | _, _ => Γ

/-- one demotion pass -/
def pass (P : Program) (specs : Ctx) (Γ : Env) : Stmt → Env
  | .assign x e => if labelE Γ e then Γ else Γ.dropVar x
  | .store a _ e => if labelE Γ e then Γ else Γ.dropArr a
  | .seq s1 s2 => pass P specs (pass P specs Γ s1) s2
  | .ite _ s1 s2 => pass P specs (pass P specs Γ s1) s2
  | .while _ b => pass P specs Γ b
  | .doWhile b _ => pass P specs Γ b
  | .call dst f _ arrs =>
    match P.find f, specs.lookup f with
    | some fn, some sp =>
      let Γ1 := dropArrs Γ sp arrs fn.arrParams
      match dst with
      | some x => if sp.retPub then Γ1 else Γ1.dropVar x
      | none => Γ1
    | _, _ => Γ
  | _ => Γ

def iterPass (P : Program) (specs : Ctx) (body : Stmt) : Nat → Env → Env
  | 0, Γ => Γ
  | k + 1, Γ =>
    let Γ' := pass P specs Γ body
    if Γ'.pubVars.length == Γ.pubVars.length && Γ'.pubArrs.length == Γ.pubArrs.length then Γ
    else iterPass P specs body k Γ'

def secretSpec : Spec := ⟨[], [], false⟩

/-- inferred environment of a function: its spec for the parameters, least labels for the locals -/
def inferFun (P : Program) (specs : Ctx) (fn : Fun) : Env :=
  let sp := (specs.lookup fn.name).getD secretSpec
  let vs := (fn.body.assigned.filter (!fn.params.contains ·)).eraseDups
  let as := (fn.body.declaredArrs.filter (!fn.arrParams.contains ·)).eraseDups
  let Γ0 : Env := ⟨sp.pubVars ++ vs, sp.pubArrs ++ as, sp.retPub⟩
  iterPass P specs fn.body (Γ0.pubVars.length + Γ0.pubArrs.length + 1) Γ0

def inferCtx (P : Program) (specs : Ctx) : Ctx := P.map fun fn => (fn.name, inferFun P specs fn)

/-- the environment used for the entry function claims no more than its spec about the PARAMETERS,
    and keeps the spec's Public arrays Public (so that the final-contents claim is about the spec) -/
def entryOK (fn : Fun) (Γ : Env) (sp : Spec) : Bool :=
  Γ.pubVars.all (fun x => sp.pubVars.contains x || !fn.params.contains x) &&
  Γ.pubArrs.all (fun a => sp.pubArrs.contains a || !fn.arrParams.contains a) &&
  (sp.retPub == Γ.retPub) &&
  sp.pubArrs.all (fun a => Γ.pubArrs.contains a)

/-- THE CHECKER. `specs` labels the parameters of every function of `P` (missing = all Secret):
    Public scalar parameters, array parameters with Public contents, Public result. -/
def ctCheck (P : Program) (f : FunName) (specs : Ctx) : Bool :=
  let C := inferCtx P specs
  checkProg P C &&
  match P.find f, C.lookup f, specs.lookup f with
  | some fn, some Γ, some sp => entryOK fn Γ sp
  | _, _, _ => false

end MiniC
