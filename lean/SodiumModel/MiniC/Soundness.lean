import SodiumModel.MiniC.Semantics
import SodiumModel.MiniC.CtCheck
/-
  Soundness of the MiniC constant-time checker: non-interference of the leakage trace.

    eval_ni          expressions: checked + agreeing states ⇒ equal traces, and equal values if labelled Public
    exec_ni          statements, by induction on the fuel (calls included): equal traces, same kind of outcome
                     (both finish the same way or both run out of fuel), agreeing final states
    soundness        `ctCheck P f specs = true → NonInterferent P fn sp`  — for ALL programs, inputs, fuel
    exec_fuel_succ / exec_fuel_mono   a finished run does not depend on the amount of fuel

  No hypothesis on array lengths is needed: the semantics is total (out-of-bounds accesses are recorded in the
  trace with their index but never get stuck), so two runs may even use Secret arrays of different lengths.
  `Sodium.C11MiniC.soundness_states` restates `exec_ni` for two arbitrary initial states.
-/
namespace MiniC

/-- two states agree on every Public variable and on the contents of every Public array -/
def Agree (Γ : Env) (σ1 σ2 : State) : Prop :=
  (∀ x, Γ.pubVars.contains x = true → σ1.vars x = σ2.vars x) ∧
  (∀ a, Γ.pubArrs.contains a = true → σ1.arrs a = σ2.arrs a)

/-- outcomes of two runs are of the same kind (in particular both ran out of fuel or neither did);
    returned values are equal when the result is Public -/
def OutRel (retPub : Bool) : Outcome → Outcome → Prop
  | .normal, .normal => True
  | .brk, .brk => True
  | .abort, .abort => True
  | .timeout, .timeout => True
  | .ret v1, .ret v2 => retPub = true → v1 = v2
  | _, _ => False

theorem eval_ni (Γ : Env) (σ1 σ2 : State) (h : Agree Γ σ1 σ2) :
    ∀ e, checkE Γ e = true →
      (eval σ1 e).2 = (eval σ2 e).2 ∧ (labelE Γ e = true → (eval σ1 e).1 = (eval σ2 e).1) := by
  intro e
  induction e with
  | lit v => intro _; simp [eval]
  | var x => intro _; simp only [eval, labelE, true_and]; exact h.1 x
  | un op ty e ih =>
    intro hc; simp only [checkE] at hc
    have := ih hc
    simp only [eval, labelE]; exact ⟨this.1, fun hl => by rw [this.2 hl]⟩
  | cast ty e ih =>
    intro hc; simp only [checkE] at hc
    have := ih hc
    simp only [eval, labelE]; exact ⟨this.1, fun hl => by rw [this.2 hl]⟩
  | bin op ty e1 e2 ih1 ih2 =>
    intro hc; simp only [checkE, Bool.and_eq_true] at hc
    obtain ⟨⟨h1, h2⟩, hb⟩ := hc
    have i1 := ih1 h1; have i2 := ih2 h2
    simp only [eval, labelE, Bool.and_eq_true]
    refine ⟨?_, fun hl => by rw [i1.2 hl.1, i2.2 hl.2]⟩
    rw [i1.1, i2.1]; congr 1
    cases op <;> simp only [binLeak, binOK, Bool.and_eq_true, Bool.or_eq_true] at hb ⊢
    · rw [i1.2 hb.1, i2.2 hb.2]
    · rw [i1.2 hb.1, i2.2 hb.2]
    · cases hb with
      | inl hl => simp [hl]
      | inr hl => rw [i2.2 hl]
    · cases hb with
      | inl hl => simp [hl]
      | inr hl => rw [i2.2 hl]
  | load a i ih =>
    intro hc; simp only [checkE, Bool.and_eq_true] at hc
    have ii := ih hc.1
    have hv := ii.2 hc.2
    simp only [eval, labelE, Bool.and_eq_true]
    refine ⟨by rw [ii.1, hv], fun hl => ?_⟩
    simp only [State.getArr]; rw [hv, h.2 a hl.1]
  | land e1 e2 ih1 ih2 =>
    intro hc; simp only [checkE, Bool.and_eq_true] at hc
    obtain ⟨⟨h1, h2⟩, hl1⟩ := hc
    have i1 := ih1 h1; have i2 := ih2 h2
    have hv := i1.2 hl1
    simp only [eval, labelE, Bool.and_eq_true]
    rw [hv, i1.1]
    split
    · simp
    · exact ⟨by rw [i2.1], fun hl => by simp only []; rw [i2.2 hl.2]⟩
  | lor e1 e2 ih1 ih2 =>
    intro hc; simp only [checkE, Bool.and_eq_true] at hc
    obtain ⟨⟨h1, h2⟩, hl1⟩ := hc
    have i1 := ih1 h1; have i2 := ih2 h2
    have hv := i1.2 hl1
    simp only [eval, labelE, Bool.and_eq_true]
    rw [hv, i1.1]
    split
    · exact ⟨by rw [i2.1], fun hl => by simp only []; rw [i2.2 hl.2]⟩
    · simp
  | cond c e1 e2 ihc ih1 ih2 =>
    intro hc; simp only [checkE, Bool.and_eq_true] at hc
    obtain ⟨⟨⟨h0, h1⟩, h2⟩, hlc⟩ := hc
    have i0 := ihc h0; have i1 := ih1 h1; have i2 := ih2 h2
    have hv := i0.2 hlc
    simp only [eval, labelE, Bool.and_eq_true]
    rw [hv, i0.1]
    split
    · exact ⟨by rw [i2.1], fun hl => by simp only []; rw [i2.2 hl.2]⟩
    · exact ⟨by rw [i1.1], fun hl => by simp only []; rw [i1.2 hl.1.2]⟩

theorem evalArgs_ni (Γ : Env) (σ1 σ2 : State) (h : Agree Γ σ1 σ2) :
    ∀ es, checkArgs Γ es = true → (evalArgs σ1 es).2 = (evalArgs σ2 es).2 := by
  intro es
  induction es with
  | nil => intro _; rfl
  | cons e es ih =>
    intro hc; simp only [checkArgs, Bool.and_eq_true] at hc
    simp only [evalArgs]; rw [(eval_ni Γ σ1 σ2 h e hc.1).1, ih hc.2]

/-- Public parameters of the callee are bound to equal values -/
theorem bindVars_ni (Γ Γg : Env) (σ1 σ2 : State) (h : Agree Γ σ1 σ2) :
    ∀ ps es, checkArgs Γ es = true → argsOK Γ Γg ps es = true →
      ∀ x, Γg.pubVars.contains x = true →
        bindVars ps (evalArgs σ1 es).1 x = bindVars ps (evalArgs σ2 es).1 x := by
  intro ps
  induction ps with
  | nil => intros; simp [bindVars]
  | cons p ps ih =>
    intro es
    cases es with
    | nil => intros; simp [evalArgs, bindVars]
    | cons e es =>
      intro hc ha x hx
      simp only [checkArgs, Bool.and_eq_true] at hc
      simp only [argsOK, Bool.and_eq_true, Bool.or_eq_true, Bool.not_eq_true'] at ha
      simp only [evalArgs, bindVars]
      split
      · next hxp =>
        subst hxp
        cases ha.1 with
        | inl hn => rw [hx] at hn; cases hn
        | inr hl => exact (eval_ni Γ σ1 σ2 h e hc.1).2 hl
      · exact ih es hc.2 ha.2 x hx

theorem bindArrs_ni (Γ Γg : Env) (σ1 σ2 : State) (h : Agree Γ σ1 σ2) :
    ∀ as qs, arrsOK Γ Γg as qs = true →
      ∀ q, Γg.pubArrs.contains q = true →
        bindArrs qs (as.map σ1.getArr) q = bindArrs qs (as.map σ2.getArr) q := by
  intro as
  induction as with
  | nil => intro qs _ q _; cases qs <;> simp [bindArrs]
  | cons a as ih =>
    intro qs
    cases qs with
    | nil => intros; simp [bindArrs]
    | cons q0 qs =>
      intro ha q hq
      simp only [arrsOK, Bool.and_eq_true, beq_iff_eq] at ha
      simp only [List.map, bindArrs]
      split
      · next hqq =>
        subst hqq
        simp only [State.getArr]
        exact h.2 a (by rw [ha.1]; exact hq)
      · exact ih qs ha.2 q hq

theorem copyBack_vars (σ σc : State) : ∀ as qs, (copyBack σ σc as qs).vars = σ.vars := by
  intro as
  induction as generalizing σ with
  | nil => intro qs; cases qs <;> rfl
  | cons a as ih =>
    intro qs
    cases qs with
    | nil => rfl
    | cons q qs => simp only [copyBack]; rw [ih]; rfl

theorem copyBack_ni (Γ Γg : Env) (σc1 σc2 : State) (hc : Agree Γg σc1 σc2) :
    ∀ as qs σ1 σ2, arrsOK Γ Γg as qs = true →
      (∀ a, Γ.pubArrs.contains a = true → σ1.arrs a = σ2.arrs a) →
      ∀ a, Γ.pubArrs.contains a = true →
        (copyBack σ1 σc1 as qs).arrs a = (copyBack σ2 σc2 as qs).arrs a := by
  intro as
  induction as with
  | nil => intro qs σ1 σ2 _ h; cases qs <;> exact h
  | cons a0 as ih =>
    intro qs σ1 σ2 ha h
    cases qs with
    | nil => exact h
    | cons q0 qs =>
      simp only [arrsOK, Bool.and_eq_true, beq_iff_eq] at ha
      simp only [copyBack]
      apply ih qs _ _ ha.2
      intro b hb
      simp only [State.setArr, State.getArr]
      split
      · next hba => subst hba; exact hc.2 q0 (by rw [← ha.1]; exact hb)
      · exact h b hb

theorem Agree.setVar {Γ : Env} {σ1 σ2 : State} (h : Agree Γ σ1 σ2) (x : Name) (v1 v2 : Int)
    (hv : Γ.pubVars.contains x = true → v1 = v2) : Agree Γ (σ1.setVar x v1) (σ2.setVar x v2) := by
  refine ⟨fun y hy => ?_, h.2⟩
  simp only [State.setVar]
  split
  · next hyx => subst hyx; exact hv hy
  · exact h.1 y hy

theorem Agree.setArr {Γ : Env} {σ1 σ2 : State} (h : Agree Γ σ1 σ2) (a : Name) (l1 l2 : List Int)
    (hv : Γ.pubArrs.contains a = true → l1 = l2) : Agree Γ (σ1.setArr a l1) (σ2.setArr a l2) := by
  refine ⟨h.1, fun b hb => ?_⟩
  simp only [State.setArr]
  split
  · next hba => subst hba; exact hv hb
  · exact h.2 b hb

/-- every function that has an environment in `C` checks under it -/
def ProgOK (P : Program) (C : Ctx) : Prop :=
  ∀ f fn Γg, P.find f = some fn → C.lookup f = some Γg → checkS P C Γg fn.body = true

theorem progOK_of_checkProg (P : Program) (C : Ctx) (h : checkProg P C = true) : ProgOK P C := by
  intro f fn Γg hf hl
  have hmem : fn ∈ P := List.mem_of_find?_eq_some hf
  have hname : fn.name = f := by
    have := List.find?_some hf
    simpa using this
  have := (List.all_eq_true.mp h) fn hmem
  rw [hname, hl] at this
  exact this

theorem OutRel.symm_kind {b : Bool} {o1 o2 : Outcome} (h : OutRel b o1 o2) :
    (o1 = .normal ↔ o2 = .normal) ∧ (o1 = .brk ↔ o2 = .brk) ∧ (o1 = .abort ↔ o2 = .abort) ∧
    (o1 = .timeout ↔ o2 = .timeout) := by
  cases o1 <;> cases o2 <;> simp [OutRel] at h ⊢

theorem OutRel.retVal {b : Bool} {o1 o2 : Outcome} (h : OutRel b o1 o2) (hb : b = true) :
    o1.retVal = o2.retVal := by
  cases o1 <;> cases o2 <;> simp [OutRel, Outcome.retVal] at h ⊢
  exact h hb

/-- MAIN LEMMA (statement level): under a checked environment, two runs from states that agree on
    the Public part produce the same trace, the same kind of outcome, and final states that agree
    on the Public part.  By induction on the fuel. -/
theorem exec_ni (P : Program) (C : Ctx) (hP : ProgOK P C) :
    ∀ n Γ s σ1 σ2, checkS P C Γ s = true → Agree Γ σ1 σ2 →
      (exec P n s σ1).tr = (exec P n s σ2).tr ∧
      OutRel Γ.retPub (exec P n s σ1).out (exec P n s σ2).out ∧
      Agree Γ (exec P n s σ1).st (exec P n s σ2).st := by
  intro n
  induction n with
  | zero => intro Γ s σ1 σ2 _ h; simp only [exec]; exact ⟨trivial, trivial, h⟩
  | succ n ih =>
    intro Γ s σ1 σ2 hc h
    cases s with
    | skip => simp only [exec]; exact ⟨trivial, trivial, h⟩
    | brk => simp only [exec]; exact ⟨trivial, trivial, h⟩
    | abort => simp only [exec]; exact ⟨trivial, trivial, h⟩
    | declArr a vals => simp only [exec]; exact ⟨trivial, trivial, h.setArr a _ _ (fun _ => rfl)⟩
    | assign x e =>
      simp only [checkS, Bool.and_eq_true, Bool.or_eq_true, Bool.not_eq_true'] at hc
      have he := eval_ni Γ σ1 σ2 h e hc.1
      simp only [exec]
      refine ⟨he.1, trivial, h.setVar x _ _ (fun hx => ?_)⟩
      cases hc.2 with
      | inl hn => rw [hx] at hn; cases hn
      | inr hl => exact he.2 hl
    | ret e =>
      simp only [checkS, Bool.and_eq_true, Bool.or_eq_true, Bool.not_eq_true'] at hc
      have he := eval_ni Γ σ1 σ2 h e hc.1
      simp only [exec]
      refine ⟨he.1, fun hr => ?_, h⟩
      cases hc.2 with
      | inl hn => rw [hr] at hn; cases hn
      | inr hl => exact he.2 hl
    | store a i e =>
      simp only [checkS, Bool.and_eq_true, Bool.or_eq_true, Bool.not_eq_true'] at hc
      obtain ⟨⟨⟨hce, hci⟩, hli⟩, hst⟩ := hc
      have he := eval_ni Γ σ1 σ2 h e hce
      have hi := eval_ni Γ σ1 σ2 h i hci
      have hiv := hi.2 hli
      simp only [exec]
      refine ⟨by rw [he.1, hi.1, hiv], trivial, h.setArr a _ _ (fun ha => ?_)⟩
      cases hst with
      | inl hn => rw [ha] at hn; cases hn
      | inr hl => rw [he.2 hl, hiv]; simp only [State.getArr]; rw [h.2 a ha]
    | seq s1 s2 =>
      simp only [checkS, Bool.and_eq_true] at hc
      have i1 := ih Γ s1 σ1 σ2 hc.1 h
      simp only [exec]
      generalize exec P n s1 σ1 = r1 at i1 ⊢
      generalize exec P n s1 σ2 = r2 at i1 ⊢
      obtain ⟨t1, o1, a1⟩ := i1
      have k := o1.symm_kind
      split <;> split
      · have i2 := ih Γ s2 r1.st r2.st hc.2 a1
        exact ⟨by simp only []; rw [t1, i2.1], i2.2.1, i2.2.2⟩
      · next h1 _ h2 => exact absurd (k.1.mp h1) (by intro hh; exact h2 hh)
      · next h1 _ h2 => exact absurd (k.1.mpr h2) (by intro hh; exact h1 hh)
      · exact ⟨t1, o1, a1⟩
    | ite c s1 s2 =>
      simp only [checkS, Bool.and_eq_true] at hc
      obtain ⟨⟨⟨hcc, hlc⟩, hs1⟩, hs2⟩ := hc
      have hcv := eval_ni Γ σ1 σ2 h c hcc
      simp only [exec]
      rw [hcv.2 hlc, hcv.1]
      split
      · have i2 := ih Γ s2 σ1 σ2 hs2 h
        exact ⟨by simp only []; rw [i2.1], i2.2.1, i2.2.2⟩
      · have i1 := ih Γ s1 σ1 σ2 hs1 h
        exact ⟨by simp only []; rw [i1.1], i1.2.1, i1.2.2⟩
    | «while» c b =>
      have hcw := hc
      simp only [checkS, Bool.and_eq_true] at hc
      obtain ⟨⟨hcc, hlc⟩, hb⟩ := hc
      have hcv := eval_ni Γ σ1 σ2 h c hcc
      simp only [exec]
      rw [hcv.2 hlc, hcv.1]
      split
      · exact ⟨rfl, trivial, h⟩
      · have i1 := ih Γ b σ1 σ2 hb h
        generalize exec P n b σ1 = r1 at i1 ⊢
        generalize exec P n b σ2 = r2 at i1 ⊢
        obtain ⟨t1, o1, a1⟩ := i1
        have k := o1.symm_kind
        split <;> split
        · have i2 := ih Γ (.while c b) r1.st r2.st hcw a1
          exact ⟨by simp only []; rw [t1, i2.1], i2.2.1, i2.2.2⟩
        · next h1 _ h2 => rw [k.1.mp h1] at h2; cases h2
        · next h1 _ h2 _ => exact absurd (k.1.mp h1) h2
        · next h1 _ h2 => rw [k.2.1.mp h1] at h2; cases h2
        · exact ⟨by simp only []; rw [t1], trivial, a1⟩
        · next h1 _ _ h2 => exact absurd (k.2.1.mp h1) h2
        · next h1 _ _ h2 => exact absurd (k.1.mpr h2) h1
        · next _ h1 _ h2 => exact absurd (k.2.1.mpr h2) h1
        · exact ⟨by simp only []; rw [t1], o1, a1⟩
    | doWhile b c =>
      simp only [checkS, Bool.and_eq_true] at hc
      obtain ⟨⟨hcc, hlc⟩, hb⟩ := hc
      have hcw : checkS P C Γ (.while c b) = true := by
        simp only [checkS, Bool.and_eq_true]; exact ⟨⟨hcc, hlc⟩, hb⟩
      simp only [exec]
      have i1 := ih Γ b σ1 σ2 hb h
      generalize exec P n b σ1 = r1 at i1 ⊢
      generalize exec P n b σ2 = r2 at i1 ⊢
      obtain ⟨t1, o1, a1⟩ := i1
      have k := o1.symm_kind
      split <;> split
      · have i2 := ih Γ (.while c b) r1.st r2.st hcw a1
        exact ⟨by simp only []; rw [t1, i2.1], i2.2.1, i2.2.2⟩
      · next h1 _ h2 => rw [k.1.mp h1] at h2; cases h2
      · next h1 _ h2 _ => exact absurd (k.1.mp h1) h2
      · next h1 _ h2 => rw [k.2.1.mp h1] at h2; cases h2
      · exact ⟨t1, trivial, a1⟩
      · next h1 _ _ h2 => exact absurd (k.2.1.mp h1) h2
      · next h1 _ _ h2 => exact absurd (k.1.mpr h2) h1
      · next _ h1 _ h2 => exact absurd (k.2.1.mpr h2) h1
      · exact ⟨t1, o1, a1⟩
    | call dst f args arrs =>
      simp only [checkS, Bool.and_eq_true] at hc
      obtain ⟨hca, hcall⟩ := hc
      have hta := evalArgs_ni Γ σ1 σ2 h args hca
      simp only [exec]
      cases hf : P.find f with
      | none => simp only []; exact ⟨hta, trivial, h⟩
      | some fn =>
        rw [hf] at hcall
        simp only [] at hcall ⊢
        cases hl : C.lookup f with
        | none => rw [hl] at hcall; simp at hcall
        | some Γg =>
          rw [hl] at hcall
          simp only [Bool.and_eq_true] at hcall
          obtain ⟨⟨hao, hro⟩, hdo⟩ := hcall
          have hinit : Agree Γg (initState fn (evalArgs σ1 args).1 (arrs.map σ1.getArr))
              (initState fn (evalArgs σ2 args).1 (arrs.map σ2.getArr)) :=
            ⟨bindVars_ni Γ Γg σ1 σ2 h fn.params args hca hao,
             bindArrs_ni Γ Γg σ1 σ2 h arrs fn.arrParams hro⟩
          have ic := ih Γg fn.body _ _ (hP f fn Γg hf hl) hinit
          generalize exec P n fn.body (initState fn (evalArgs σ1 args).1 (arrs.map σ1.getArr)) = r1 at ic ⊢
          generalize exec P n fn.body (initState fn (evalArgs σ2 args).1 (arrs.map σ2.getArr)) = r2 at ic ⊢
          obtain ⟨t1, o1, a1⟩ := ic
          have k := o1.symm_kind
          have hfin : Agree Γ (setDst (copyBack σ1 r1.st arrs fn.arrParams) dst r1.out.retVal)
              (setDst (copyBack σ2 r2.st arrs fn.arrParams) dst r2.out.retVal) := by
            have hcb : Agree Γ (copyBack σ1 r1.st arrs fn.arrParams) (copyBack σ2 r2.st arrs fn.arrParams) :=
              ⟨by rw [copyBack_vars, copyBack_vars]; exact h.1,
               copyBack_ni Γ Γg r1.st r2.st a1 arrs fn.arrParams σ1 σ2 hro h.2⟩
            cases dst with
            | none => exact hcb
            | some x =>
              simp only [setDst]
              refine hcb.setVar x _ _ (fun hx => ?_)
              simp only [dstOK, Bool.or_eq_true, Bool.not_eq_true'] at hdo
              cases hdo with
              | inl hn => rw [hx] at hn; cases hn
              | inr hr => exact o1.retVal hr
          split <;> split
          · exact ⟨by simp only []; rw [hta, t1], trivial, h⟩
          · next h1 _ h2 => rw [k.2.2.2.mp h1] at h2; cases h2
          · next h1 _ h2 _ => exact absurd (k.2.2.2.mp h1) h2
          · next h1 _ h2 => rw [k.2.2.1.mp h1] at h2; cases h2
          · exact ⟨by simp only []; rw [hta, t1], trivial, h⟩
          · next h1 _ _ h2 => exact absurd (k.2.2.1.mp h1) h2
          · next h1 _ _ h2 => exact absurd (k.2.2.2.mpr h2) h1
          · next _ h1 _ h2 => exact absurd (k.2.2.1.mpr h2) h1
          · exact ⟨by simp only []; rw [hta, t1], trivial, hfin⟩

theorem bindVars_not_mem : ∀ (ps : List Name) (vs : List Int) (x : Name),
    ps.contains x = false → bindVars ps vs x = 0 := by
  intro ps
  induction ps with
  | nil => intros; simp [bindVars]
  | cons p ps ih =>
    intro vs x hx
    cases vs with
    | nil => simp [bindVars]
    | cons v vs =>
      simp only [List.contains_cons, Bool.or_eq_false_iff, beq_eq_false_iff_ne] at hx
      simp only [bindVars, hx.1, if_false]
      exact ih vs x hx.2

theorem bindArrs_not_mem : ∀ (ps : List Name) (vs : List (List Int)) (x : Name),
    ps.contains x = false → bindArrs ps vs x = [] := by
  intro ps
  induction ps with
  | nil => intros; simp [bindArrs]
  | cons p ps ih =>
    intro vs x hx
    cases vs with
    | nil => simp [bindArrs]
    | cons v vs =>
      simp only [List.contains_cons, Bool.or_eq_false_iff, beq_eq_false_iff_ne] at hx
      simp only [bindArrs, hx.1, if_false]
      exact ih vs x hx.2

/-- the two argument vectors give the same value to every Public scalar parameter and the same
    contents to every array parameter with Public contents (named after the function's parameters) -/
def PubEq (sp : Spec) (fn : Fun) (vals1 : List Int) (arrs1 : List (List Int))
    (vals2 : List Int) (arrs2 : List (List Int)) : Prop :=
  (∀ x, sp.pubVars.contains x = true → bindVars fn.params vals1 x = bindVars fn.params vals2 x) ∧
  (∀ a, sp.pubArrs.contains a = true → bindArrs fn.arrParams arrs1 a = bindArrs fn.arrParams arrs2 a)

/-- Non-interference of function `fn` of program `P` under the parameter labelling `sp`:
    any two calls (with any fuel) whose Public scalar arguments and Public array contents coincide —
    Secret arguments, Secret array contents and the lengths of Secret arrays are arbitrary —
      * produce EQUAL leakage traces,
      * end in the same kind of outcome (both return, both abort, or both run out of fuel), with equal
        return values if the result is labelled Public,
      * leave equal contents in every array labelled Public. -/
def NonInterferent (P : Program) (fn : Fun) (sp : Spec) : Prop :=
  ∀ (fuel : Nat) (vals1 : List Int) (arrs1 : List (List Int)) (vals2 : List Int) (arrs2 : List (List Int)),
    PubEq sp fn vals1 arrs1 vals2 arrs2 →
    (runFun P fuel fn vals1 arrs1).tr = (runFun P fuel fn vals2 arrs2).tr ∧
    OutRel sp.retPub (runFun P fuel fn vals1 arrs1).out (runFun P fuel fn vals2 arrs2).out ∧
    (∀ a, sp.pubArrs.contains a = true →
      (runFun P fuel fn vals1 arrs1).st.arrs a = (runFun P fuel fn vals2 arrs2).st.arrs a)

/-- SOUNDNESS of `ctCheck`, for all programs and all inputs: if the checker accepts function `f` of
    `P` under the parameter labelling `specs`, then `f` is non-interferent. -/
theorem soundness {P : Program} {f : FunName} {specs : Ctx} {fn : Fun} {sp : Spec}
    (hct : ctCheck P f specs = true) (hf : P.find f = some fn) (hs : specs.lookup f = some sp) :
    NonInterferent P fn sp := by
  intro fuel vals1 arrs1 vals2 arrs2 hpe
  simp only [ctCheck, Bool.and_eq_true] at hct
  obtain ⟨hprog, hentry⟩ := hct
  rw [hf, hs] at hentry
  cases hl : (inferCtx P specs).lookup f with
  | none => rw [hl] at hentry; simp at hentry
  | some Γ =>
    rw [hl] at hentry
    simp only [entryOK, Bool.and_eq_true, List.all_eq_true, Bool.or_eq_true, Bool.not_eq_true',
      beq_iff_eq] at hentry
    obtain ⟨⟨⟨hv, ha⟩, hr⟩, hpa⟩ := hentry
    have hP := progOK_of_checkProg P _ hprog
    have hinit : Agree Γ (initState fn vals1 arrs1) (initState fn vals2 arrs2) := by
      refine ⟨fun x hx => ?_, fun a hx => ?_⟩
      · simp only [initState]
        cases hv x (List.contains_iff_mem.mp hx) with
        | inl h1 => exact hpe.1 x h1
        | inr h1 => rw [bindVars_not_mem _ _ _ h1, bindVars_not_mem _ _ _ h1]
      · simp only [initState]
        cases ha a (List.contains_iff_mem.mp hx) with
        | inl h1 => exact hpe.2 a h1
        | inr h1 => rw [bindArrs_not_mem _ _ _ h1, bindArrs_not_mem _ _ _ h1]
    have := exec_ni P _ hP fuel Γ fn.body _ _ (hP f fn Γ hf hl) hinit
    simp only [runFun]
    refine ⟨this.1, ?_, fun a hx => this.2.2.2 a (hpa a (List.contains_iff_mem.mp hx))⟩
    rw [hr]; exact this.2.1


/-! ### the fuel is only a termination device: once a run finishes, more fuel changes nothing -/

theorem exec_while_eq (P : Program) (n : Nat) (c : Expr) (b : Stmt) (σ : State) :
    exec P (n + 1) (.while c b) σ =
      if (eval σ c).1 = 0 then ⟨.normal, σ, (eval σ c).2 ++ [.branch false]⟩
      else
        match (exec P n b σ).out with
        | .normal => ⟨(exec P n (.while c b) (exec P n b σ).st).out, (exec P n (.while c b) (exec P n b σ).st).st,
            (eval σ c).2 ++ [.branch true] ++ (exec P n b σ).tr ++ (exec P n (.while c b) (exec P n b σ).st).tr⟩
        | .brk => ⟨.normal, (exec P n b σ).st, (eval σ c).2 ++ [.branch true] ++ (exec P n b σ).tr⟩
        | o => ⟨o, (exec P n b σ).st, (eval σ c).2 ++ [.branch true] ++ (exec P n b σ).tr⟩ := by
  simp only [exec]
  split
  · rfl
  · generalize (exec P n b σ).out = o
    cases o <;> rfl

theorem exec_doWhile_eq (P : Program) (n : Nat) (c : Expr) (b : Stmt) (σ : State) :
    exec P (n + 1) (.doWhile b c) σ =
      match (exec P n b σ).out with
      | .normal => ⟨(exec P n (.while c b) (exec P n b σ).st).out, (exec P n (.while c b) (exec P n b σ).st).st,
          (exec P n b σ).tr ++ (exec P n (.while c b) (exec P n b σ).st).tr⟩
      | .brk => ⟨.normal, (exec P n b σ).st, (exec P n b σ).tr⟩
      | _ => exec P n b σ := by
  simp only [exec]
  generalize (exec P n b σ).out = o
  cases o <;> rfl

theorem exec_fuel_succ (P : Program) :
    ∀ n s σ, (exec P n s σ).out ≠ .timeout → exec P (n + 1) s σ = exec P n s σ := by
  intro n
  induction n with
  | zero => intro s σ h; simp [exec] at h
  | succ n ih =>
    intro s σ h
    cases s with
    | skip => simp only [exec]
    | brk => simp only [exec]
    | abort => simp only [exec]
    | declArr a vals => simp only [exec]
    | assign x e => simp only [exec]
    | ret e => simp only [exec]
    | store a i e => simp only [exec]
    | seq s1 s2 =>
      simp only [exec] at h ⊢
      cases h1 : (exec P n s1 σ).out with
      | normal =>
        rw [h1] at h; simp only [] at h
        have e1 := ih s1 σ (by rw [h1]; simp)
        have e2 := ih s2 (exec P n s1 σ).st h
        rw [e1, h1]; simp only []; rw [e2]
      | brk => rw [h1] at h; have e1 := ih s1 σ (by rw [h1]; simp); rw [e1, h1]
      | ret v => rw [h1] at h; have e1 := ih s1 σ (by rw [h1]; simp); rw [e1, h1]
      | abort => rw [h1] at h; have e1 := ih s1 σ (by rw [h1]; simp); rw [e1, h1]
      | timeout => rw [h1] at h; simp only [] at h; exact absurd h1 h
    | ite c s1 s2 =>
      simp only [exec] at h ⊢
      split
      · next hc =>
        rw [if_pos hc] at h; simp only [] at h
        rw [ih s2 σ h]
      · next hc =>
        rw [if_neg hc] at h; simp only [] at h
        rw [ih s1 σ h]
    | «while» c b =>
      rw [exec_while_eq P (n + 1) c b σ]
      rw [exec_while_eq P n c b σ] at h ⊢
      split
      · rfl
      · next hc =>
        rw [if_neg hc] at h
        cases h1 : (exec P n b σ).out with
        | normal =>
          rw [h1] at h; simp only [] at h
          have e1 := ih b σ (by rw [h1]; simp)
          have e2 := ih (.while c b) (exec P n b σ).st h
          rw [e1, h1]; simp only []; rw [e2]
        | brk => have e1 := ih b σ (by rw [h1]; simp); rw [e1, h1]
        | ret v => have e1 := ih b σ (by rw [h1]; simp); rw [e1, h1]
        | abort => have e1 := ih b σ (by rw [h1]; simp); rw [e1, h1]
        | timeout => rw [h1] at h; simp only [] at h; exact absurd rfl h
    | doWhile b c =>
      rw [exec_doWhile_eq P (n + 1) c b σ]
      rw [exec_doWhile_eq P n c b σ] at h ⊢
      cases h1 : (exec P n b σ).out with
      | normal =>
        rw [h1] at h; simp only [] at h
        have e1 := ih b σ (by rw [h1]; simp)
        have e2 := ih (.while c b) (exec P n b σ).st h
        rw [e1, h1]; simp only []; rw [e2]
      | brk => have e1 := ih b σ (by rw [h1]; simp); rw [e1, h1]
      | ret v => have e1 := ih b σ (by rw [h1]; simp); rw [e1, h1]
      | abort => have e1 := ih b σ (by rw [h1]; simp); rw [e1, h1]
      | timeout => rw [h1] at h; simp only [] at h; exact absurd h1 h
    | call dst f args arrs =>
      simp only [exec] at h ⊢
      cases hf : P.find f with
      | none => rfl
      | some fn =>
        rw [hf] at h; simp only [] at h ⊢
        cases h1 : (exec P n fn.body (initState fn (evalArgs σ args).1 (arrs.map σ.getArr))).out with
        | timeout => rw [h1] at h; simp only [] at h; exact absurd rfl h
        | normal => have e1 := ih fn.body _ (by rw [h1]; simp); rw [e1, h1]
        | brk => have e1 := ih fn.body _ (by rw [h1]; simp); rw [e1, h1]
        | ret v => have e1 := ih fn.body _ (by rw [h1]; simp); rw [e1, h1]
        | abort => have e1 := ih fn.body _ (by rw [h1]; simp); rw [e1, h1]

/-- a finished run is independent of the amount of fuel: any larger fuel gives the same result -/
theorem exec_fuel_mono (P : Program) (n m : Nat) (s : Stmt) (σ : State)
    (h : (exec P n s σ).out ≠ .timeout) (hm : n ≤ m) : exec P m s σ = exec P n s σ := by
  induction m with
  | zero => have : n = 0 := by omega
            subst this; rfl
  | succ m ih =>
    by_cases hnm : n = m + 1
    · subst hnm; rfl
    · have hle : n ≤ m := by omega
      have e := ih hle
      rw [exec_fuel_succ P m s σ (by rw [e]; exact h), e]

end MiniC
