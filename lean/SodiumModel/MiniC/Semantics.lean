import SodiumModel.MiniC.Syntax
/-
  Instrumented, fuel-indexed big-step semantics of MiniC.

  Leakage model (the one of `Model/Leak.lean`): the trace records, in program order,
    * every branch decision: `if`, loop tests (including the final failing one), the short-circuit
      test of `&&` / `||`, the test of `?:`                                  → `Ev.branch taken`
    * every array access as (array name, element index)                       → `Ev.load` / `Ev.store`
  and additionally
    * both operands of every division / modulo                                → `Ev.divop a b`
    * the amount of every shift whose amount is not a literal                 → `Ev.shamt n`.
  Scalar locals (registers / fixed stack slots) emit nothing.
  `&&` / `||` are value-producing: in `if (a || b)` the short-circuit test of `a` and the test of the `if` are both
  recorded (when `a` is true the second event is determined by the first; `Model/Leak.lean` records only one).

  Values are mathematical integers kept inside the range of their C type by `Ty.wrap`.
  The semantics is TOTAL: an out-of-bounds load yields 0 and an out-of-bounds store is dropped (the
  access is still recorded in the trace, with its index), division by zero yields 0; memory safety is
  not the subject here (it is the subject of the sanitizer runs).  Uninitialised locals read as 0.
-/
namespace MiniC

inductive Ev where
  | branch (taken : Bool)
  | load (arr : Name) (idx : Int)
  | store (arr : Name) (idx : Int)
  | divop (a b : Int)
  | shamt (n : Int)
  deriving DecidableEq, Repr

abbrev Trace := List Ev

/-! ### integer arithmetic -/

/-- reduce a mathematical integer into the range of `ty` (two's complement) -/
def Ty.wrap (ty : Ty) (z : Int) : Int :=
  let m : Int := (2 : Int) ^ ty.bits
  let r := z % m
  if ty.signed && decide (m ≤ 2 * r) then r - m else r

/-- the bit pattern of `z` in type `ty`, as a natural number below `2 ^ bits` -/
def Ty.pat (ty : Ty) (z : Int) : Nat := (z % ((2 : Int) ^ ty.bits)).toNat

def b2i (b : Bool) : Int := if b then 1 else 0

def evalUn (op : UnOp) (ty : Ty) (v : Int) : Int :=
  match op with
  | .neg => ty.wrap (-v)
  | .bnot => ty.wrap (-v - 1)
  | .lnot => b2i (v == 0)

def evalBin (op : BinOp) (ty : Ty) (a b : Int) : Int :=
  match op with
  | .add => ty.wrap (a + b)
  | .sub => ty.wrap (a - b)
  | .mul => ty.wrap (a * b)
  | .div => ty.wrap (Int.tdiv a b)
  | .mod => ty.wrap (Int.tmod a b)
  | .band => ty.wrap (Int.ofNat (ty.pat a &&& ty.pat b))
  | .bor => ty.wrap (Int.ofNat (ty.pat a ||| ty.pat b))
  | .bxor => ty.wrap (Int.ofNat (ty.pat a ^^^ ty.pat b))
  | .shl => ty.wrap (a * (2 : Int) ^ b.toNat)
  | .shr => ty.wrap (a >>> b.toNat)        -- arithmetic for negative `a` (as gcc / clang do)
  | .eq => b2i (a == b)
  | .ne => b2i (a != b)
  | .lt => b2i (decide (a < b))
  | .le => b2i (decide (a ≤ b))
  | .gt => b2i (decide (b < a))
  | .ge => b2i (decide (b ≤ a))

/-- what a binary operator leaks besides what its operands leak -/
def binLeak (op : BinOp) (e2 : Expr) (a b : Int) : Trace :=
  match op with
  | .div | .mod => [.divop a b]
  | .shl | .shr => if e2.isLit then [] else [.shamt b]
  | _ => []

/-! ### states -/

structure State where
  vars : Name → Int
  arrs : Name → List Int

namespace State
def getVar (σ : State) (x : Name) : Int := σ.vars x
def getArr (σ : State) (a : Name) : List Int := σ.arrs a
def setVar (σ : State) (x : Name) (v : Int) : State :=
  { σ with vars := fun y => if y = x then v else σ.vars y }
def setArr (σ : State) (a : Name) (l : List Int) : State :=
  { σ with arrs := fun b => if b = a then l else σ.arrs b }
def empty : State := ⟨fun _ => 0, fun _ => []⟩
end State

def readArr (l : List Int) (i : Int) : Int := if i < 0 then 0 else l.getD i.toNat 0
def writeArr (l : List Int) (i : Int) (v : Int) : List Int := if i < 0 then l else l.set i.toNat v

/-! ### expressions -/

def eval (σ : State) : Expr → Int × Trace
  | .lit v => (v, [])
  | .var x => (σ.getVar x, [])
  | .un op ty e => let r := eval σ e; (evalUn op ty r.1, r.2)
  | .bin op ty e1 e2 =>
    let r1 := eval σ e1
    let r2 := eval σ e2
    (evalBin op ty r1.1 r2.1, r1.2 ++ r2.2 ++ binLeak op e2 r1.1 r2.1)
  | .cast ty e => let r := eval σ e; (ty.wrap r.1, r.2)
  | .load a i => let r := eval σ i; (readArr (σ.getArr a) r.1, r.2 ++ [.load a r.1])
  | .land e1 e2 =>
    let r1 := eval σ e1
    if r1.1 = 0 then (0, r1.2 ++ [.branch false])
    else let r2 := eval σ e2; (b2i (r2.1 != 0), r1.2 ++ [.branch true] ++ r2.2)
  | .lor e1 e2 =>
    let r1 := eval σ e1
    if r1.1 = 0 then let r2 := eval σ e2; (b2i (r2.1 != 0), r1.2 ++ [.branch false] ++ r2.2)
    else (1, r1.2 ++ [.branch true])
  | .cond c e1 e2 =>
    let rc := eval σ c
    if rc.1 = 0 then let r := eval σ e2; (r.1, rc.2 ++ [.branch false] ++ r.2)
    else let r := eval σ e1; (r.1, rc.2 ++ [.branch true] ++ r.2)

def evalArgs (σ : State) : List Expr → List Int × Trace
  | [] => ([], [])
  | e :: es => let r := eval σ e; let rs := evalArgs σ es; (r.1 :: rs.1, r.2 ++ rs.2)

/-! ### statements -/

inductive Outcome where
  | normal
  | brk
  | ret (v : Int)
  | abort
  | timeout          -- out of fuel
  deriving DecidableEq, Repr

structure Res where
  out : Outcome
  st : State
  tr : Trace

/-- value bound to parameter `x` when `params` are bound positionally to `vals` (missing → 0) -/
def bindVars : List Name → List Int → Name → Int
  | p :: ps, v :: vs, x => if x = p then v else bindVars ps vs x
  | _, _, _ => 0

def bindArrs : List Name → List (List Int) → Name → List Int
  | p :: ps, v :: vs, x => if x = p then v else bindArrs ps vs x
  | _, _, _ => []

/-- callee's initial state -/
def initState (fn : Fun) (vals : List Int) (arrs : List (List Int)) : State :=
  ⟨bindVars fn.params vals, bindArrs fn.arrParams arrs⟩

/-- copy the callee's array parameters back into the caller's arrays (by-pointer passing) -/
def copyBack (σ : State) (σc : State) : List Name → List Name → State
  | a :: as, q :: qs => copyBack (σ.setArr a (σc.getArr q)) σc as qs
  | _, _ => σ

def Outcome.retVal : Outcome → Int
  | .ret v => v
  | _ => 0

def setDst (σ : State) : Option Name → Int → State
  | some x, v => σ.setVar x v
  | none, _ => σ

/-- `exec P fuel s σ`: every recursive call (sub-statement, loop iteration, function call) consumes
    one unit of fuel; `Outcome.timeout` is returned iff the fuel ran out somewhere. -/
def exec (P : Program) : Nat → Stmt → State → Res
  | 0, _, σ => ⟨.timeout, σ, []⟩
  | _ + 1, .skip, σ => ⟨.normal, σ, []⟩
  | _ + 1, .assign x e, σ => let r := eval σ e; ⟨.normal, σ.setVar x r.1, r.2⟩
  | _ + 1, .store a i e, σ =>
    let re := eval σ e
    let ri := eval σ i
    ⟨.normal, σ.setArr a (writeArr (σ.getArr a) ri.1 re.1), re.2 ++ ri.2 ++ [.store a ri.1]⟩
  | _ + 1, .declArr a vals, σ => ⟨.normal, σ.setArr a vals, []⟩
  | n + 1, .seq s1 s2, σ =>
    let r1 := exec P n s1 σ
    match r1.out with
    | .normal => let r2 := exec P n s2 r1.st; ⟨r2.out, r2.st, r1.tr ++ r2.tr⟩
    | _ => r1
  | n + 1, .ite c s1 s2, σ =>
    let rc := eval σ c
    if rc.1 = 0 then let r := exec P n s2 σ; ⟨r.out, r.st, rc.2 ++ [.branch false] ++ r.tr⟩
    else let r := exec P n s1 σ; ⟨r.out, r.st, rc.2 ++ [.branch true] ++ r.tr⟩
  | n + 1, .while c b, σ =>
    let rc := eval σ c
    if rc.1 = 0 then ⟨.normal, σ, rc.2 ++ [.branch false]⟩
    else
      let r1 := exec P n b σ
      match r1.out with
      | .normal => let r2 := exec P n (.while c b) r1.st; ⟨r2.out, r2.st, rc.2 ++ [.branch true] ++ r1.tr ++ r2.tr⟩
      | .brk => ⟨.normal, r1.st, rc.2 ++ [.branch true] ++ r1.tr⟩
      | o => ⟨o, r1.st, rc.2 ++ [.branch true] ++ r1.tr⟩
  | n + 1, .doWhile b c, σ =>
    let r1 := exec P n b σ
    match r1.out with
    | .normal => let r2 := exec P n (.while c b) r1.st; ⟨r2.out, r2.st, r1.tr ++ r2.tr⟩
    | .brk => ⟨.normal, r1.st, r1.tr⟩
    | _ => r1
  | n + 1, .call dst f args arrs, σ =>
    let ra := evalArgs σ args
    match P.find f with
    | none => ⟨.abort, σ, ra.2⟩        -- a function outside the program: treated as `noreturn`
    | some fn =>
      let r := exec P n fn.body (initState fn ra.1 (arrs.map σ.getArr))
      match r.out with
      | .timeout => ⟨.timeout, σ, ra.2 ++ r.tr⟩
      | .abort => ⟨.abort, σ, ra.2 ++ r.tr⟩
      | o => ⟨.normal, setDst (copyBack σ r.st arrs fn.arrParams) dst o.retVal, ra.2 ++ r.tr⟩
  | _ + 1, .ret e, σ => let r := eval σ e; ⟨.ret r.1, σ, r.2⟩
  | _ + 1, .brk, σ => ⟨.brk, σ, []⟩
  | _ + 1, .abort, σ => ⟨.abort, σ, []⟩

/-- Run function `fn` of program `P` on scalar arguments `vals` and arrays `arrs` (both positional):
    outcome (`.ret v` / `.normal` for a void function / `.abort` / `.timeout`), final state (the final
    contents of the array parameters are `(runFun …).st.arrs "name"`), trace. -/
def runFun (P : Program) (fuel : Nat) (fn : Fun) (vals : List Int) (arrs : List (List Int)) : Res :=
  exec P fuel fn.body (initState fn vals arrs)

end MiniC
