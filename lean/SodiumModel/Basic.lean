/-
  Basic vocabulary shared by Spec, Model and the driver (core Lean only).
-/
namespace Sodium

abbrev Bytes := List UInt8

/-- little-endian value of a byte string -/
def le : Bytes → Nat
  | [] => 0
  | b :: bs => b.toNat + 256 * le bs

/-- big-endian value of a byte string -/
def be (b : Bytes) : Nat := le b.reverse

/-- n-byte little-endian encoding of (v mod 2^(8n)) -/
def toLE : Nat → Nat → Bytes
  | 0, _ => []
  | n + 1, v => UInt8.ofNat (v % 256) :: toLE n (v / 256)

def toBE (n v : Nat) : Bytes := (toLE n v).reverse

def xorBytes : Bytes → Bytes → Bytes
  | x :: xs, y :: ys => (x ^^^ y) :: xorBytes xs ys
  | _, _ => []

def zeros (n : Nat) : Bytes := List.replicate n 0

/-! ### hex (driver only) -/

def hexDigit (n : Nat) : Char :=
  if n < 10 then Char.ofNat (48 + n) else Char.ofNat (87 + n)

def toHex (b : Bytes) : String :=
  if b.isEmpty then "-" else
  String.ofList (b.foldr (fun x acc => hexDigit (x.toNat / 16) :: hexDigit (x.toNat % 16) :: acc) [])

def hexVal (c : Char) : Option Nat :=
  if '0' ≤ c ∧ c ≤ '9' then some (c.toNat - 48)
  else if 'a' ≤ c ∧ c ≤ 'f' then some (c.toNat - 87)
  else if 'A' ≤ c ∧ c ≤ 'F' then some (c.toNat - 55)
  else none

def ofHexChars : List Char → Option Bytes
  | [] => some []
  | [_] => none
  | a :: b :: rest => do
    let x ← hexVal a
    let y ← hexVal b
    let r ← ofHexChars rest
    pure (UInt8.ofNat (16 * x + y) :: r)

def ofHex (s : String) : Option Bytes :=
  if s = "-" then some [] else ofHexChars s.toList

end Sodium
