import SodiumModel.Proofs.X86Sse2
import SodiumModel.Proofs.X86Sse2Loop
import SodiumModel.Proofs.SalsaSimd
import Generated.SalsaXmm6Asm
/-
  The end of one pass of the 64-byte block path of `salsa20_xmm6-asm.S`, executed symbolically on the regenerated
  instruction list: the 64-bit counter increment (indices 867 .. 874) and the feed-forward / XOR / store sequence
  (indices 803 .. 866).  Both are stated for ANY machine state at the respective index whose frame base `%rsp` is 480
  (the value `C03Asm2.prologue_control` establishes), so that they compose.
-/
namespace Sodium.X86SseP
open Sodium Sodium.Model.X86Sse Sodium.Model.ChachaSimd Sodium.Model.CoresRef Generated.SalsaXmm6Asm

theorem run_add (p : Program) (a b : Nat) (s : State) : run p (a + b) s = run p b (run p a s) := by
  induction a generalizing s with
  | zero => simp only [Nat.zero_add, run_zero]
  | succ n ih =>
    rw [show n + 1 + b = (n + b) + 1 by omega]
    by_cases hh : s.halted = true
    · have h0 : ∀ k, run p k s = s := by
        intro k; cases k with
        | zero => rfl
        | succ k => simp only [run, hh, if_true]
      rw [h0, h0, h0]
    · simp only [run]
      simp only [hh, Bool.false_eq_true, if_false]
      cases hf : p.fetch s.pc with
      | none =>
        have h0 : ∀ k (t : State), t.halted = true → run p k t = t := by
          intro k t ht; cases k with
          | zero => rfl
          | succ k => simp only [run, ht, if_true]
        simp only []
        exact (h0 b _ rfl).symm
      | some i => simp only []; exact ih _

/-- the counter increment, indices 867 .. 874: `%r9` := saved length, `q := 472(%rsp) + 1` as a 64-bit value, its low
    half to word 8 (80(%rsp)) and its high half to word 13 (4+96(%rsp)) of the frame, `q` back to 472(%rsp) -/
theorem counter_increment_run (t : State) (hpc : t.pc = 867) (hh : t.halted = false) (hsp : t.g.rsp = 480) :
    let s := run prog 8 t
    let q := t.mem.read64 952 + 1
    frameCtx s = { frameCtx t with x8 := q.toUInt32, x13 := (q >>> 32).toUInt32 } ∧
    s.mem.read64 952 = q ∧ s.g.r9 = t.mem.read64 960 ∧ s.pc = 875 ∧ s.halted = false ∧ s.fault = t.fault ∧
    s.g.rsp = 480 ∧ s.g.rsi = t.g.rsi ∧ s.g.rdi = t.g.rdi ∧ s.g.rdx = t.g.rdx ∧
    (∀ a, a + 4 ≤ 560 ∨ (564 ≤ a ∧ a + 4 ≤ 580) ∨ (584 ≤ a ∧ a + 4 ≤ 952) ∨ 960 ≤ a → s.mem.read32 a = t.mem.read32 a) := by
  obtain ⟨g, x, cf, zf, mem, pc, halted, fault⟩ := t
  obtain ⟨rax, rcx, rdx, rbx, rsp, rbp, rsi, rdi, r8, r9, r10, r11, r12, r13, r14, r15⟩ := g
  simp only at hpc hh hsp
  subst hpc hh hsp
  asm_step fetch_867
  asm_step fetch_868
  asm_step fetch_869
  asm_step fetch_870
  asm_step fetch_871
  asm_step fetch_872
  asm_step fetch_873
  asm_step fetch_874
  simp (disch := omega) only [run_zero, frameCtx, UInt64.reduceToNat, Nat.reduceAdd, read32_write32_same',
    read32_write32_disj, ChachaSimdP.q_join, true_and]
  intro a ha
  rw [read32_write32_disj _ _ _ _ (by omega), read32_write32_disj _ _ _ _ (by omega), read32_write32_disj _ _ _ _ (by omega),
    read32_write32_disj _ _ _ _ (by omega)]
/-- the sixteen 32-bit words at `a`, `a + 4`, … -/
def wordsAt (m : Mem) (a : Nat) : W16 :=
  ⟨m.read32 a, m.read32 (a + 4), m.read32 (a + 8), m.read32 (a + 12), m.read32 (a + 16), m.read32 (a + 20), m.read32 (a + 24),
   m.read32 (a + 28), m.read32 (a + 32), m.read32 (a + 36), m.read32 (a + 40), m.read32 (a + 44), m.read32 (a + 48),
   m.read32 (a + 52), m.read32 (a + 56), m.read32 (a + 60)⟩

macro "out_step" f:term : tactic =>
  `(tactic| (rw [run_step _ _ _ _ rfl $f];
             simp (disch := omega) only [step, Gprs.get, Gprs.set, Xmms.get, Xmms.set, ea, State.setLogic, Nat.reduceAdd, Nat.add_zero,
               UInt64.reduceAdd, UInt64.reduceToNat, UInt32.toUInt32_toUInt64, UInt64.toNat_add, Nat.mod_eq_of_lt,
               Mem.read128, read32_write32_disj, ChachaSimdP.q_lo, mm_add_epi32, V128.zip32, mm_shuffle_epi32, V128.lane,
               Nat.reduceMod, Nat.reduceDiv]))

/-- feed-forward, XOR with the message and the sixteen stores, indices 803 .. 866, from ANY state at index 803 with the
    frame at 480: `%xmm0..%xmm3` (r0..r3) plus the frame slots 112 / 64 / 80 / 96(%rsp), lane `l` of register `i` going to
    the standard word position of the diagonal layout, XOR the message word there, stored at `%rdi`.
    Hypotheses: the message (64 bytes at `%rsi`) does not wrap; the output (64 bytes at `%rdi`) lies below `MEM_LIMIT`,
    and is either disjoint from the message or IS the message buffer (in place). -/
theorem block_output_run (rax rcx rdx rbx rbp rsi rdi r8 r9 r10 r11 r12 r13 r14 r15 : UInt64)
    (r0 r1 r2 r3 x4 x5 x6 x7 x8 x9 x10 x11 x12 x13 x14 x15 : V128) (cf zf : Bool) (mem : Mem) (fault : Bool)
    (hM : rsi.toNat + 64 ≤ 18446744073709551616) (hC : rdi.toNat + 64 ≤ 1048576)
    (hMC : rdi.toNat + 64 ≤ rsi.toNat ∨ rsi.toNat + 64 ≤ rdi.toNat ∨ rdi.toNat = rsi.toNat) :
    let s := run prog 64 { g := ⟨rax, rcx, rdx, rbx, 480, rbp, rsi, rdi, r8, r9, r10, r11, r12, r13, r14, r15⟩,
                           x := ⟨r0, r1, r2, r3, x4, x5, x6, x7, x8, x9, x10, x11, x12, x13, x14, x15⟩, cf := cf, zf := zf,
                           mem := mem, pc := 803, halted := false, fault := fault }
    wordsAt s.mem rdi.toNat = ⟨(r0.e0 + mem.read32 592) ^^^ mem.read32 (rsi.toNat + 0),
       (r1.e1 + mem.read32 548) ^^^ mem.read32 (rsi.toNat + 4),
       (r2.e2 + mem.read32 568) ^^^ mem.read32 (rsi.toNat + 8),
       (r3.e3 + mem.read32 588) ^^^ mem.read32 (rsi.toNat + 12),
       (r3.e0 + mem.read32 576) ^^^ mem.read32 (rsi.toNat + 16),
       (r0.e1 + mem.read32 596) ^^^ mem.read32 (rsi.toNat + 20),
       (r1.e2 + mem.read32 552) ^^^ mem.read32 (rsi.toNat + 24),
       (r2.e3 + mem.read32 572) ^^^ mem.read32 (rsi.toNat + 28),
       (r2.e0 + mem.read32 560) ^^^ mem.read32 (rsi.toNat + 32),
       (r3.e1 + mem.read32 580) ^^^ mem.read32 (rsi.toNat + 36),
       (r0.e2 + mem.read32 600) ^^^ mem.read32 (rsi.toNat + 40),
       (r1.e3 + mem.read32 556) ^^^ mem.read32 (rsi.toNat + 44),
       (r1.e0 + mem.read32 544) ^^^ mem.read32 (rsi.toNat + 48),
       (r2.e1 + mem.read32 564) ^^^ mem.read32 (rsi.toNat + 52),
       (r3.e2 + mem.read32 584) ^^^ mem.read32 (rsi.toNat + 56),
       (r0.e3 + mem.read32 604) ^^^ mem.read32 (rsi.toNat + 60)⟩ ∧
    s.pc = 867 ∧ s.halted = false ∧ s.fault = fault ∧ s.g.rsp = 480 ∧ s.g.rsi = rsi ∧ s.g.rdi = rdi ∧ s.g.rdx = rdx ∧
    (∀ a, a + 4 ≤ rdi.toNat ∨ rdi.toNat + 64 ≤ a → s.mem.read32 a = mem.read32 a) := by
  intro s
  simp only [s]
  clear s
  out_step fetch_803
  out_step fetch_804
  out_step fetch_805
  out_step fetch_806
  out_step fetch_807
  out_step fetch_808
  out_step fetch_809
  out_step fetch_810
  out_step fetch_811
  out_step fetch_812
  out_step fetch_813
  out_step fetch_814
  out_step fetch_815
  out_step fetch_816
  out_step fetch_817
  out_step fetch_818
  out_step fetch_819
  out_step fetch_820
  out_step fetch_821
  out_step fetch_822
  out_step fetch_823
  out_step fetch_824
  out_step fetch_825
  out_step fetch_826
  out_step fetch_827
  out_step fetch_828
  out_step fetch_829
  out_step fetch_830
  out_step fetch_831
  out_step fetch_832
  out_step fetch_833
  out_step fetch_834
  out_step fetch_835
  out_step fetch_836
  out_step fetch_837
  out_step fetch_838
  out_step fetch_839
  out_step fetch_840
  out_step fetch_841
  out_step fetch_842
  out_step fetch_843
  out_step fetch_844
  out_step fetch_845
  out_step fetch_846
  out_step fetch_847
  out_step fetch_848
  out_step fetch_849
  out_step fetch_850
  out_step fetch_851
  out_step fetch_852
  out_step fetch_853
  out_step fetch_854
  out_step fetch_855
  out_step fetch_856
  out_step fetch_857
  out_step fetch_858
  out_step fetch_859
  out_step fetch_860
  out_step fetch_861
  out_step fetch_862
  out_step fetch_863
  out_step fetch_864
  out_step fetch_865
  out_step fetch_866
  simp (disch := omega) only [run_zero, wordsAt, read32_write32_same', read32_write32_disj, true_and]
  intro a ha
  iterate 16 rw [read32_write32_disj _ _ _ _ (by omega)]

end Sodium.X86SseP
