import SodiumModel.Model.Leak
import SodiumModel.Proofs.Codecs
import SodiumModel.Proofs.ByteDecide
/-
  Helper lemmas for C11 (leakage-instrumented models):
   * `(fL …).1 = f …` : the instrumented model computes the same result as the existing model;
   * `(fL …).2 = closed form of the public lengths only`.
-/
open Sodium Sodium.Model Sodium.Model.Leak Sodium.Spec.Base64
namespace Sodium.LeakP

/-! ### closed forms of loop traces -/

/-- `for (i = i0; i < i0 + k; i++) body(i)` : `k` passing tests, then the failing test -/
def loopTrace (body : Nat → Trace) : Nat → Nat → Trace
  | 0, _ => [.branch false]
  | k + 1, i => .branch true :: (body i ++ loopTrace body k (i + 1))

/-- descending `while (i != 0) { i--; body(i) }` over indices `i0 + k - 1 … i0` (without the final test) -/
def descTrace (body : Nat → Trace) : Nat → Nat → Trace
  | 0, _ => []
  | k + 1, i => descTrace body k (i + 1) ++ (.branch true :: body i)

/-! ### 1. verify / memcmp / is_zero / compare / increment / add / sub -/

theorem verifyLoopL_fst (d : UInt16) (i : Nat) (x y : Bytes) :
    (verifyLoopL d i x y).1 = orXor16 d x y := by
  induction x generalizing y d i with
  | nil => simp [verifyLoopL, orXor16]
  | cons a xs ih => cases y with
    | nil => simp [verifyLoopL, orXor16]
    | cons b ys => simp [verifyLoopL, orXor16, ih]

theorem verifyLoopL_snd (d : UInt16) (i : Nat) (x y : Bytes) :
    (verifyLoopL d i x y).2 = loopTrace (fun i => [.load "x" i, .load "y" i]) (min x.length y.length) i := by
  induction x generalizing y d i with
  | nil => simp [verifyLoopL, loopTrace]
  | cons a xs ih => cases y with
    | nil => simp [verifyLoopL, loopTrace]
    | cons b ys => simp [verifyLoopL, ih, loopTrace, Nat.succ_min_succ]

theorem memcmpLoopL_fst (d : UInt8) (i : Nat) (x y : Bytes) :
    (memcmpLoopL d i x y).1 = orXor d x y := by
  induction x generalizing y d i with
  | nil => simp [memcmpLoopL, orXor]
  | cons a xs ih => cases y with
    | nil => simp [memcmpLoopL, orXor]
    | cons b ys => simp [memcmpLoopL, orXor, ih]

theorem memcmpLoopL_snd (d : UInt8) (i : Nat) (x y : Bytes) :
    (memcmpLoopL d i x y).2 = loopTrace (fun i => [.load "b1" i, .load "b2" i]) (min x.length y.length) i := by
  induction x generalizing y d i with
  | nil => simp [memcmpLoopL, loopTrace]
  | cons a xs ih => cases y with
    | nil => simp [memcmpLoopL, loopTrace]
    | cons b ys => simp [memcmpLoopL, ih, loopTrace, Nat.succ_min_succ]

theorem isZeroLoopL_fst (d : UInt8) (i : Nat) (x : Bytes) : (isZeroLoopL d i x).1 = orAll d x := by
  induction x generalizing d i with
  | nil => simp [isZeroLoopL, orAll]
  | cons a xs ih => simp [isZeroLoopL, orAll, ih]

theorem isZeroLoopL_snd (d : UInt8) (i : Nat) (x : Bytes) :
    (isZeroLoopL d i x).2 = loopTrace (fun i => [.load "n" i]) x.length i := by
  induction x generalizing d i with
  | nil => simp [isZeroLoopL, loopTrace]
  | cons a xs ih => simp [isZeroLoopL, ih, loopTrace]

theorem compareLoopL_fst (i : Nat) (x y : Bytes) : (compareLoopL i x y).1 = compareLoop x y := by
  induction x generalizing y i with
  | nil => simp [compareLoopL, compareLoop]
  | cons a xs ih => cases y with
    | nil => simp [compareLoopL, compareLoop]
    | cons b ys => simp [compareLoopL, compareLoop, ih]

theorem compareLoopL_snd (i : Nat) (x y : Bytes) :
    (compareLoopL i x y).2 = descTrace (fun i => [.load "b1" i, .load "b2" i]) (min x.length y.length) i := by
  induction x generalizing y i with
  | nil => simp [compareLoopL, descTrace]
  | cons a xs ih => cases y with
    | nil => simp [compareLoopL, descTrace]
    | cons b ys => simp [compareLoopL, ih, descTrace, Nat.succ_min_succ]

theorem incLoopL_fst (c : UInt64) (i : Nat) (x : Bytes) : (incLoopL c i x).1 = incLoop c x := by
  induction x generalizing c i with
  | nil => simp [incLoopL, incLoop]
  | cons a xs ih => simp [incLoopL, incLoop, ih]

theorem incLoopL_snd (c : UInt64) (i : Nat) (x : Bytes) :
    (incLoopL c i x).2 = loopTrace (fun i => [.load "n" i, .store "n" i]) x.length i := by
  induction x generalizing c i with
  | nil => simp [incLoopL, loopTrace]
  | cons a xs ih => simp [incLoopL, ih, loopTrace]

theorem addLoopL_fst (c : UInt64) (i : Nat) (x y : Bytes) : (addLoopL c i x y).1 = addLoop c x y := by
  induction x generalizing y c i with
  | nil => simp [addLoopL, addLoop]
  | cons a xs ih => cases y with
    | nil => simp [addLoopL, addLoop]
    | cons b ys => simp [addLoopL, addLoop, ih]

theorem addLoopL_snd (c : UInt64) (i : Nat) (x y : Bytes) :
    (addLoopL c i x y).2 =
      loopTrace (fun i => [.load "a" i, .load "b" i, .store "a" i]) (min x.length y.length) i := by
  induction x generalizing y c i with
  | nil => simp [addLoopL, loopTrace]
  | cons a xs ih => cases y with
    | nil => simp [addLoopL, loopTrace]
    | cons b ys => simp [addLoopL, ih, loopTrace, Nat.succ_min_succ]

theorem subLoopL_fst (c : UInt64) (i : Nat) (x y : Bytes) : (subLoopL c i x y).1 = subLoop c x y := by
  induction x generalizing y c i with
  | nil => simp [subLoopL, subLoop]
  | cons a xs ih => cases y with
    | nil => simp [subLoopL, subLoop]
    | cons b ys => simp [subLoopL, subLoop, ih]

theorem subLoopL_snd (c : UInt64) (i : Nat) (x y : Bytes) :
    (subLoopL c i x y).2 =
      loopTrace (fun i => [.load "a" i, .load "b" i, .store "a" i]) (min x.length y.length) i := by
  induction x generalizing y c i with
  | nil => simp [subLoopL, loopTrace]
  | cons a xs ih => cases y with
    | nil => simp [subLoopL, loopTrace]
    | cons b ys => simp [subLoopL, ih, loopTrace, Nat.succ_min_succ]

/-! ### 2. unpad -/

theorem unpadLoopL_fst (len : Nat) (s : UnpadState) (i : UInt64) (cs : Bytes) :
    (unpadLoopL len s i cs).1 = unpadLoop s i cs := by
  induction cs generalizing s i with
  | nil => simp [unpadLoopL, unpadLoop]
  | cons c cs ih => simp [unpadLoopL, unpadLoop, ih]

/-- the addresses `tail - i` for `k` iterations starting at counter `i` (a `size_t`) -/
def unpadLoopTrace (len : Nat) : Nat → UInt64 → Trace
  | 0, _ => [.branch false]
  | k + 1, i => .branch true :: .load "buf" (len - 1 - i.toNat) :: unpadLoopTrace len k (i + 1)

theorem unpadLoopL_snd (len : Nat) (s : UnpadState) (i : UInt64) (cs : Bytes) :
    (unpadLoopL len s i cs).2 = unpadLoopTrace len cs.length i := by
  induction cs generalizing s i with
  | nil => simp [unpadLoopL, unpadLoopTrace]
  | cons c cs ih => simp [unpadLoopL, unpadLoopTrace, ih]

/-- the whole trace of `sodium_unpad` as a function of the two public lengths -/
def unpadTrace (len : Nat) (bs : UInt64) : Trace :=
  if UInt64.ofNat len < bs then [.branch true]
  else if bs = 0 then [.branch false, .branch true]
  else .branch false :: .branch false :: unpadLoopTrace len (min bs.toNat len) 0 ++ [.store "unpadded_buflen_p" 0]

theorem unpadBlock_length (buf : Bytes) (bs : Nat) : (unpadBlock buf bs).length = min bs buf.length := by
  simp [unpadBlock]; omega

theorem sodium_unpadL_fst (buf : Bytes) (bs : UInt64) : (sodium_unpadL buf bs).1 = sodium_unpad buf bs := by
  unfold sodium_unpadL sodium_unpad
  by_cases h1 : UInt64.ofNat buf.length < bs
  · simp [h1]
  · by_cases h2 : bs = 0
    · simp [h2]
    · simp [h1, h2, unpadLoopL_fst]

theorem sodium_unpadL_snd (buf : Bytes) (bs : UInt64) : (sodium_unpadL buf bs).2 = unpadTrace buf.length bs := by
  unfold sodium_unpadL unpadTrace
  by_cases h1 : UInt64.ofNat buf.length < bs
  · simp [h1]
  · by_cases h2 : bs = 0
    · simp [h2]
    · simp [h1, h2, unpadLoopL_snd, unpadBlock_length]

/-! ### 3. bin2hex / bin2base64 -/

theorem bin2hexLoopL_fst (i : Nat) (x : Bytes) : (bin2hexLoopL i x).1 = x.flatMap hexPair := by
  induction x generalizing i with
  | nil => simp [bin2hexLoopL]
  | cons a xs ih => simp [bin2hexLoopL, ih]

theorem bin2hexLoopL_snd (i : Nat) (x : Bytes) :
    (bin2hexLoopL i x).2 =
      loopTrace (fun i => [.load "bin" i, .load "bin" i, .store "hex" (2 * i), .store "hex" (2 * i + 1)])
        x.length i := by
  induction x generalizing i with
  | nil => simp [bin2hexLoopL, loopTrace]
  | cons a xs ih => simp [bin2hexLoopL, ih, loopTrace]

def bin2hexTrace (hexMaxlen : UInt64) (len : Nat) : Trace :=
  let n := UInt64.ofNat len
  if n ≥ (0xFFFFFFFFFFFFFFFF : UInt64) / 2 then [.branch true]
  else if hexMaxlen ≤ n * 2 then [.branch false, .branch true]
  else .branch false :: .branch false ::
    loopTrace (fun i => [.load "bin" i, .load "bin" i, .store "hex" (2 * i), .store "hex" (2 * i + 1)]) len 0 ++
    [.store "hex" (2 * len)]

theorem sodium_bin2hexL_fst (m : UInt64) (bin : Bytes) : (sodium_bin2hexL m bin).1 = sodium_bin2hex m bin := by
  unfold sodium_bin2hexL sodium_bin2hex
  dsimp only
  split
  · simp_all
  · split <;> simp_all [bin2hexLoopL_fst]

theorem sodium_bin2hexL_snd (m : UInt64) (bin : Bytes) : (sodium_bin2hexL m bin).2 = bin2hexTrace m bin.length := by
  unfold sodium_bin2hexL bin2hexTrace
  dsimp only
  split
  · simp_all
  · split <;> simp_all [bin2hexLoopL_snd]

theorem lt6 (n : Nat) (h : ∀ m, n = m + 6 → False) : n < 6 := by
  rcases Nat.lt_or_ge n 6 with h6 | h6
  · exact h6
  · exact (h (n - 6) (by omega)).elim

theorem encDrainL_fst (v acc : UInt32) (pos n : Nat) : (encDrainL v acc pos n).1 = encDrain v acc n := by
  fun_induction encDrainL v acc pos n with
  | case1 pos n r ih => simp [encDrain, r, ih]
  | case2 pos n h =>
    unfold encDrain
    split
    · exact absurd rfl (h _)
    · rfl

theorem encDrain_len (v acc : UInt32) (n : Nat) :
    (encDrain v acc n).1.length = n / 6 ∧ (encDrain v acc n).2 = n % 6 := by
  fun_induction encDrain v acc n with
  | case1 n r ih => simp [r, ih]; omega
  | case2 n h =>
    have := lt6 n (fun m hm => h m hm)
    simp; omega

theorem encDrainL_snd (v acc : UInt32) (pos n : Nat) :
    (encDrainL v acc pos n).2 = loopTrace (fun p => [.store "b64" p]) (n / 6) pos := by
  fun_induction encDrainL v acc pos n with
  | case1 pos n r ih =>
    have : (n + 6) / 6 = n / 6 + 1 := by omega
    simp [r, ih, this, loopTrace]
  | case2 pos n h =>
    have : n / 6 = 0 := by
      have := lt6 n (fun m hm => h m hm)
      omega
    simp [this, loopTrace]

theorem encLoopL_fst (v : UInt32) (bin : Bytes) (acc : UInt32) (accLen bp pos : Nat) :
    (encLoopL v bin acc accLen bp pos).1 = encLoop v bin acc accLen := by
  induction bin generalizing acc accLen bp pos with
  | nil => unfold encLoopL encLoop; split <;> rfl
  | cons b rest ih => simp [encLoopL, encLoop, ih, encDrainL_fst]

/-- trace of the main encoding loop: `k` input bytes left, `accLen` pending bits, positions -/
def encLoopTrace : Nat → Nat → Nat → Nat → Trace
  | 0, accLen, _, pos =>
    if accLen > 0 then [.branch false, .branch true, .store "b64" pos] else [.branch false, .branch false]
  | k + 1, accLen, bp, pos =>
    .branch true :: .load "bin" bp ::
      (loopTrace (fun p => [.store "b64" p]) ((accLen + 8) / 6) pos ++
       encLoopTrace k ((accLen + 8) % 6) (bp + 1) (pos + (accLen + 8) / 6))

theorem encLoopL_snd (v : UInt32) (bin : Bytes) (acc : UInt32) (accLen bp pos : Nat) :
    (encLoopL v bin acc accLen bp pos).2 = encLoopTrace bin.length accLen bp pos := by
  induction bin generalizing acc accLen bp pos with
  | nil => simp only [encLoopL, encLoopTrace, List.length_nil]; split <;> simp_all
  | cons b rest ih =>
    simp [encLoopL, encLoopTrace, ih, encDrainL_snd, encDrainL_fst, encDrain_len]

theorem encodedLen_nopad_le (p : Bool) (n : Nat) : encodedLen false n ≤ encodedLen p n := by
  unfold encodedLen; cases p <;> simp <;> omega

/-- the whole trace of `sodium_bin2base64` as a function of the public inputs -/
def bin2base64Trace (maxlen len : Nat) (v : UInt32) : Trace :=
  if !variantOk v then [.branch true] else
  let bl := b64Len v len
  if maxlen ≤ bl then .branch false :: b64LenTrace v len ++ [.branch true] else
  let pos1 := encodedLen false len
  let npad := bl - pos1
  let pos2 := pos1 + npad
  let nzero := max 1 (maxlen - pos2)
  .branch false :: b64LenTrace v len ++ [.branch false, .branch (isUrlsafe v)] ++ encLoopTrace len 0 0 0 ++
     [.branch (decide (pos1 ≤ bl))] ++ padFillTrace pos1 npad ++ zeroFillTrace pos2 nzero

theorem encLoopL_len (v : UInt32) (bin : Bytes) : (encLoopL v bin 0 0 0 0).1.length = encodedLen false bin.length := by
  rw [encLoopL_fst, encLoop_nopad, encode_len]

theorem sodium_bin2base64L_snd (maxlen : Nat) (bin : Bytes) (v : UInt32) :
    (sodium_bin2base64L maxlen bin v).2 = bin2base64Trace maxlen bin.length v := by
  unfold sodium_bin2base64L bin2base64Trace
  dsimp only
  split
  · rfl
  · split
    · rfl
    · simp only [encLoopL_len, encLoopL_snd]

theorem sodium_bin2base64L_fst (maxlen : Nat) (bin : Bytes) (v : UInt32) :
    (sodium_bin2base64L maxlen bin v).1 = sodium_bin2base64 maxlen bin v := by
  unfold sodium_bin2base64L sodium_bin2base64
  dsimp only
  split
  · rfl
  · split
    · rfl
    · rename_i h1 h2
      have hle : encodedLen false bin.length ≤ b64Len v bin.length := by
        rw [b64Len_spec]; exact encodedLen_nopad_le _ _
      have e1 : (encLoop v bin 0 0).length = encodedLen false bin.length := by
        rw [encLoop_nopad, encode_len]
      simp only [encLoopL_fst, e1]
      have : max 1 (maxlen - (encodedLen false bin.length + (b64Len v bin.length - encodedLen false bin.length)))
          = maxlen - b64Len v bin.length := by omega
      rw [this]

/-! ### amd64 dispatch versions of increment / add / sub -/

def incrementTrace (len : Nat) : Trace :=
  if len = 12 then .branch true :: rmw "n" 0 ++ rmw "n" 8
  else if len = 24 then .branch false :: .branch true :: rmw "n" 0 ++ rmw "n" 8 ++ rmw "n" 16
  else if len = 8 then .branch false :: .branch false :: .branch true :: rmw "n" 0
  else .branch false :: .branch false :: .branch false :: loopTrace (fun i => [.load "n" i, .store "n" i]) len 0

theorem sodium_incrementL_fst (n : Bytes) : (sodium_incrementL n).1 = sodium_increment_amd64 n := by
  unfold sodium_incrementL sodium_increment_amd64 sodium_increment_genericL sodium_increment_generic
  repeat' split
  all_goals simp [incLoopL_fst]

theorem sodium_incrementL_snd (n : Bytes) : (sodium_incrementL n).2 = incrementTrace n.length := by
  unfold sodium_incrementL incrementTrace sodium_increment_genericL
  repeat' split
  all_goals simp_all [incLoopL_snd]

def addTrace (la lb : Nat) : Trace :=
  if la = 12 then .branch true :: .load "b" 0 :: .load "b" 8 :: rmw "a" 0 ++ rmw "a" 8
  else if la = 24 then .branch false :: .branch true :: .load "b" 0 :: .load "b" 8 :: .load "b" 16 ::
      rmw "a" 0 ++ rmw "a" 8 ++ rmw "a" 16
  else if la = 8 then .branch false :: .branch false :: .branch true :: .load "b" 0 :: rmw "a" 0
  else .branch false :: .branch false :: .branch false ::
    loopTrace (fun i => [.load "a" i, .load "b" i, .store "a" i]) (min la lb) 0

theorem sodium_addL_fst (a b : Bytes) : (sodium_addL a b).1 = sodium_add_amd64 a b := by
  unfold sodium_addL sodium_add_amd64 sodium_add_genericL sodium_add_generic
  repeat' split
  all_goals simp [addLoopL_fst]

theorem sodium_addL_snd (a b : Bytes) : (sodium_addL a b).2 = addTrace a.length b.length := by
  unfold sodium_addL addTrace sodium_add_genericL
  repeat' split
  all_goals simp_all [addLoopL_snd]

def subTrace (la lb : Nat) : Trace :=
  if la = 64 then .branch true ::
      ((List.range 8).map fun k => Ev.load "b" (8 * k)) ++ (List.range 8).flatMap fun k => rmw "a" (8 * k)
  else .branch false :: loopTrace (fun i => [.load "a" i, .load "b" i, .store "a" i]) (min la lb) 0

theorem sodium_subL_fst (a b : Bytes) : (sodium_subL a b).1 = sodium_sub_amd64 a b := by
  unfold sodium_subL sodium_sub_amd64 sodium_sub_genericL sodium_sub_generic
  repeat' split
  all_goals simp [subLoopL_fst]

theorem sodium_subL_snd (a b : Bytes) : (sodium_subL a b).2 = subTrace a.length b.length := by
  unfold sodium_subL subTrace sodium_sub_genericL
  repeat' split
  all_goals simp_all [subLoopL_snd]

/-! ### 4. cswap / cmov / cmov8 -/

theorem ctMask_zero : ctMask 0 = 0 := by decide
theorem ctMask_one : ctMask 1 = 0xFFFFFFFFFFFFFFFF := by decide

theorem sel0 (f g : UInt64) : f ^^^ ((f ^^^ g) &&& 0) = f := by simp
theorem sel1 (f g : UInt64) : f ^^^ ((f ^^^ g) &&& 0xFFFFFFFFFFFFFFFF) = g := by
  have : (0xFFFFFFFFFFFFFFFF : UInt64) = -1 := by decide
  rw [this, UInt64.and_neg_one, ← UInt64.xor_assoc, UInt64.xor_self, UInt64.zero_xor]
theorem sel1' (f g : UInt64) : g ^^^ ((f ^^^ g) &&& 0xFFFFFFFFFFFFFFFF) = f := by
  rw [UInt64.xor_comm f g]; exact sel1 g f

theorem cswap_fn0 (pf pg : Ptr) (f g : Fe) : (fe25519_cswapL pf pg f g 0).1 = (f, g) := by
  simp [fe25519_cswapL, ctMask_zero]
theorem cswap_fn1 (pf pg : Ptr) (f g : Fe) : (fe25519_cswapL pf pg f g 1).1 = (g, f) := by
  simp [fe25519_cswapL, ctMask_one, sel1, sel1']

def cswapTrace (pf pg : Ptr) : Trace := feLoads pf ++ feLoads pg ++ feStores pf ++ feStores pg

theorem cswap_trace (pf pg : Ptr) (f g : Fe) (b : UInt32) :
    (fe25519_cswapL pf pg f g b).2 = cswapTrace pf pg := rfl

theorem cmovC_fn0 (pf pg : Ptr) (f g : Fe) : (fe25519_cmovCL pf pg f g 0).1 = f := by
  simp [fe25519_cmovCL, ctMask_zero]
theorem cmovC_fn1 (pf pg : Ptr) (f g : Fe) : (fe25519_cmovCL pf pg f g 1).1 = g := by
  simp [fe25519_cmovCL, ctMask_one, sel1]
theorem cmovAsm_fn (pf pg : Ptr) (f g : Fe) (b : UInt32) :
    (fe25519_cmovAsmL pf pg f g b).1 = if b = 0 then f else g := by
  unfold fe25519_cmovAsmL; split <;> simp_all

/-- the fixed trace of `fe25519_cmov` for the selected body -/
def cmovTrace (asm : Bool) (pf pg : Ptr) : Trace :=
  if asm then
    [pg.ld 0, pf.ld 0, pg.ld 1, pf.ld 1, pg.ld 2, pf.ld 2, pf.st 0, pf.st 1,
     pg.ld 3, pf.ld 3, pg.ld 4, pf.ld 4, pf.st 2, pf.st 3, pf.st 4]
  else feLoads pf ++ feLoads pg ++ feStores pf

theorem cmov_trace (asm : Bool) (pf pg : Ptr) (f g : Fe) (b : UInt32) :
    (fe25519_cmovL asm pf pg f g b).2 = cmovTrace asm pf pg := by
  cases asm <;> rfl

theorem cmov_fn0 (asm : Bool) (pf pg : Ptr) (f g : Fe) : (fe25519_cmovL asm pf pg f g 0).1 = f := by
  cases asm <;> simp [fe25519_cmovL, cmovC_fn0, cmovAsm_fn]
theorem cmov_fn1 (asm : Bool) (pf pg : Ptr) (f g : Fe) : (fe25519_cmovL asm pf pg f g 1).1 = g := by
  cases asm <;> simp [fe25519_cmovL, cmovC_fn1, cmovAsm_fn]

/-- the two compile-time bodies of `fe25519_cmov` agree under the documented precondition b ∈ {0,1} -/
theorem cmov_asm_eq_c (pf pg : Ptr) (f g : Fe) (b : UInt32) (hb : b = 0 ∨ b = 1) :
    (fe25519_cmovAsmL pf pg f g b).1 = (fe25519_cmovCL pf pg f g b).1 := by
  rcases hb with rfl | rfl <;> simp [cmovC_fn0, cmovC_fn1, cmovAsm_fn]

def geCmovTrace (asm : Bool) (pt pu : Ptr) : Trace :=
  cmovTrace asm pt pu ++ cmovTrace asm (pt.shift 5) (pu.shift 5) ++ cmovTrace asm (pt.shift 10) (pu.shift 10)

theorem ge_cmov_trace (asm : Bool) (pt pu : Ptr) (t u : Precomp) (b : UInt8) :
    (ge25519_cmovL asm pt pu t u b).2 = geCmovTrace asm pt pu := by
  simp [ge25519_cmovL, cmov_trace, geCmovTrace]

theorem ge_cmov_fn0 (asm : Bool) (pt pu : Ptr) (t u : Precomp) : (ge25519_cmovL asm pt pu t u 0).1 = t := by
  simp [ge25519_cmovL, cmov_fn0]
theorem ge_cmov_fn1 (asm : Bool) (pt pu : Ptr) (t u : Precomp) : (ge25519_cmovL asm pt pu t u 1).1 = u := by
  simp [ge25519_cmovL, cmov_fn1]

theorem Int8.forall_iff_u8 (P : Int8 → Prop) : (∀ b, P b) ↔ ∀ u : UInt8, P u.toInt8 :=
  ⟨fun h _ => h _, fun h b => by simpa using h b.toUInt8⟩

instance instDecidableForallInt8 (P : Int8 → Prop) [DecidablePred P] : Decidable (∀ b, P b) :=
  decidable_of_iff _ (Int8.forall_iff_u8 P).symm

theorem ctNegative_spec : ∀ b : Int8, ctNegative b = if b < 0 then 1 else 0 := by decide +kernel
theorem ctBabs_spec : ∀ b : Int8, ctBabs b = if b < 0 then (-b).toUInt8 else b.toUInt8 := by decide +kernel

/-- for digits in −8..8: `equal(babs, k)` is 1 exactly when |b| = k -/
theorem digit_facts : ∀ b : Int8, -8 ≤ b → b ≤ 8 →
    b.toInt.natAbs ≤ 8 ∧
    ctEqual (ctBabs b).toInt8 1 = (if b.toInt.natAbs = 1 then 1 else 0) ∧
    ctEqual (ctBabs b).toInt8 2 = (if b.toInt.natAbs = 2 then 1 else 0) ∧
    ctEqual (ctBabs b).toInt8 3 = (if b.toInt.natAbs = 3 then 1 else 0) ∧
    ctEqual (ctBabs b).toInt8 4 = (if b.toInt.natAbs = 4 then 1 else 0) ∧
    ctEqual (ctBabs b).toInt8 5 = (if b.toInt.natAbs = 5 then 1 else 0) ∧
    ctEqual (ctBabs b).toInt8 6 = (if b.toInt.natAbs = 6 then 1 else 0) ∧
    ctEqual (ctBabs b).toInt8 7 = (if b.toInt.natAbs = 7 then 1 else 0) ∧
    ctEqual (ctBabs b).toInt8 8 = (if b.toInt.natAbs = 8 then 1 else 0) := by
  decide +kernel

/-- the conditional negation of a precomputed point: swap y+x / y−x, negate 2dxy -/
def negP (neg : Fe → Fe) (p : Precomp) : Precomp := ⟨p.yminusx, p.yplusx, neg p.xy2d⟩

/-- table entry for |b| = n: the neutral element for n = 0, `precomp[n-1]` for 1 ≤ n ≤ 8 -/
def selP (tbl : Fin 8 → Precomp) (n : Nat) : Precomp :=
  if h : 1 ≤ n ∧ n ≤ 8 then tbl ⟨n - 1, by omega⟩ else precomp0

theorem cmov8_fn (asm : Bool) (neg : Fe → Fe) (negT : Trace) (pt ptab pm : Ptr) (tbl : Fin 8 → Precomp)
    (b : Int8) (h1 : -8 ≤ b) (h2 : b ≤ 8) :
    (ge25519_cmov8L asm neg negT pt ptab pm tbl b).1 =
      if b < 0 then negP neg (selP tbl b.toInt.natAbs) else selP tbl b.toInt.natAbs := by
  obtain ⟨hn, e1, e2, e3, e4, e5, e6, e7, e8⟩ := digit_facts b h1 h2
  unfold ge25519_cmov8L
  simp only [e1, e2, e3, e4, e5, e6, e7, e8, ctNegative_spec b]
  generalize b.toInt.natAbs = n at hn
  have : n = 0 ∨ n = 1 ∨ n = 2 ∨ n = 3 ∨ n = 4 ∨ n = 5 ∨ n = 6 ∨ n = 7 ∨ n = 8 := by omega
  by_cases hb : b < 0
  · rcases this with h | h | h | h | h | h | h | h | h <;> subst h <;>
      simp [hb, ge_cmov_fn0, ge_cmov_fn1, selP, negP]
  · rcases this with h | h | h | h | h | h | h | h | h <;> subst h <;>
      simp [hb, ge_cmov_fn0, ge_cmov_fn1, selP]


/-- the fixed trace of `ge25519_cmov8`: depends on the pointers (and the compile-time body) only -/
def cmov8Trace (asm : Bool) (negT : Trace) (pt ptab pm : Ptr) : Trace :=
  precomp0Trace pt ++ geCmovTrace asm pt (ptab.shift 0) ++ geCmovTrace asm pt (ptab.shift 15) ++
  geCmovTrace asm pt (ptab.shift 30) ++ geCmovTrace asm pt (ptab.shift 45) ++ geCmovTrace asm pt (ptab.shift 60) ++
  geCmovTrace asm pt (ptab.shift 75) ++ geCmovTrace asm pt (ptab.shift 90) ++ geCmovTrace asm pt (ptab.shift 105) ++
  feCopyTrace pm (pt.shift 5) ++ feCopyTrace (pm.shift 5) pt ++ negT ++ geCmovTrace asm pt pm

theorem cmov8_trace (asm : Bool) (neg : Fe → Fe) (negT : Trace) (pt ptab pm : Ptr) (tbl : Fin 8 → Precomp)
    (b : Int8) : (ge25519_cmov8L asm neg negT pt ptab pm tbl b).2 = cmov8Trace asm negT pt ptab pm := by
  simp only [ge25519_cmov8L, ge_cmov_trace, cmov8Trace]

/-! #### the `ge25519_cached` variant -/

def geCmovCachedTrace (asm : Bool) (pt pu : Ptr) : Trace :=
  cmovTrace asm pt pu ++ cmovTrace asm (pt.shift 5) (pu.shift 5) ++ cmovTrace asm (pt.shift 10) (pu.shift 10) ++
  cmovTrace asm (pt.shift 15) (pu.shift 15)

theorem ge_cmov_cached_trace (asm : Bool) (pt pu : Ptr) (t u : Cached) (b : UInt8) :
    (ge25519_cmov_cachedL asm pt pu t u b).2 = geCmovCachedTrace asm pt pu := by
  simp [ge25519_cmov_cachedL, cmov_trace, geCmovCachedTrace]

theorem ge_cmov_cached_fn0 (asm : Bool) (pt pu : Ptr) (t u : Cached) :
    (ge25519_cmov_cachedL asm pt pu t u 0).1 = t := by
  simp [ge25519_cmov_cachedL, cmov_fn0]
theorem ge_cmov_cached_fn1 (asm : Bool) (pt pu : Ptr) (t u : Cached) :
    (ge25519_cmov_cachedL asm pt pu t u 1).1 = u := by
  simp [ge25519_cmov_cachedL, cmov_fn1]

def negC (neg : Fe → Fe) (p : Cached) : Cached := ⟨p.YminusX, p.YplusX, p.Z, neg p.T2d⟩

def selC (tbl : Fin 8 → Cached) (n : Nat) : Cached :=
  if h : 1 ≤ n ∧ n ≤ 8 then tbl ⟨n - 1, by omega⟩ else cached0

theorem cmov8_cached_fn (asm : Bool) (neg : Fe → Fe) (negT : Trace) (pt ptab pm : Ptr) (tbl : Fin 8 → Cached)
    (b : Int8) (h1 : -8 ≤ b) (h2 : b ≤ 8) :
    (ge25519_cmov8_cachedL asm neg negT pt ptab pm tbl b).1 =
      if b < 0 then negC neg (selC tbl b.toInt.natAbs) else selC tbl b.toInt.natAbs := by
  obtain ⟨hn, e1, e2, e3, e4, e5, e6, e7, e8⟩ := digit_facts b h1 h2
  unfold ge25519_cmov8_cachedL
  simp only [e1, e2, e3, e4, e5, e6, e7, e8, ctNegative_spec b]
  generalize b.toInt.natAbs = n at hn
  have : n = 0 ∨ n = 1 ∨ n = 2 ∨ n = 3 ∨ n = 4 ∨ n = 5 ∨ n = 6 ∨ n = 7 ∨ n = 8 := by omega
  by_cases hb : b < 0
  · rcases this with h | h | h | h | h | h | h | h | h <;> subst h <;>
      simp [hb, ge_cmov_cached_fn0, ge_cmov_cached_fn1, selC, negC]
  · rcases this with h | h | h | h | h | h | h | h | h <;> subst h <;>
      simp [hb, ge_cmov_cached_fn0, ge_cmov_cached_fn1, selC]

def cmov8CachedTrace (asm : Bool) (negT : Trace) (pt ptab pm : Ptr) : Trace :=
  cached0Trace pt ++ geCmovCachedTrace asm pt (ptab.shift 0) ++ geCmovCachedTrace asm pt (ptab.shift 20) ++
  geCmovCachedTrace asm pt (ptab.shift 40) ++ geCmovCachedTrace asm pt (ptab.shift 60) ++
  geCmovCachedTrace asm pt (ptab.shift 80) ++ geCmovCachedTrace asm pt (ptab.shift 100) ++
  geCmovCachedTrace asm pt (ptab.shift 120) ++ geCmovCachedTrace asm pt (ptab.shift 140) ++
  feCopyTrace pm (pt.shift 5) ++ feCopyTrace (pm.shift 5) pt ++ feCopyTrace (pm.shift 10) (pt.shift 10) ++
  negT ++ geCmovCachedTrace asm pt pm

theorem cmov8_cached_trace (asm : Bool) (neg : Fe → Fe) (negT : Trace) (pt ptab pm : Ptr) (tbl : Fin 8 → Cached)
    (b : Int8) :
    (ge25519_cmov8_cachedL asm neg negT pt ptab pm tbl b).2 = cmov8CachedTrace asm negT pt ptab pm := by
  simp only [ge25519_cmov8_cachedL, ge_cmov_cached_trace, cmov8CachedTrace]

/-! ### 5. ladder -/

theorem ladderStepL_snd (ops : FeOps) (x1 : Fe) (t : Bytes) (pos : Nat) (s : LadderSt) :
    (ladderStepL ops x1 t pos s).2 =
      .load "t" (pos / 8) :: cswapTrace ⟨"x2", 0⟩ ⟨"x3", 0⟩ ++ cswapTrace ⟨"z2", 0⟩ ⟨"z3", 0⟩ ++ ladderBodyTrace ops :=
  rfl

def ladderLoopTrace (ops : FeOps) : Nat → Trace
  | 0 => [.branch false]
  | k + 1 => .branch true :: (.load "t" (k / 8) :: cswapTrace ⟨"x2", 0⟩ ⟨"x3", 0⟩ ++ cswapTrace ⟨"z2", 0⟩ ⟨"z3", 0⟩ ++
      ladderBodyTrace ops) ++ ladderLoopTrace ops k

theorem ladderLoopL_snd (ops : FeOps) (x1 : Fe) (t : Bytes) (k : Nat) (s : LadderSt) :
    (ladderLoopL ops x1 t k s).2 = ladderLoopTrace ops k := by
  induction k generalizing s with
  | zero => rfl
  | succ k ih => simp only [ladderLoopL, ladderLoopTrace, ladderStepL_snd, ih]

theorem copyLoopL_fst (src dst : String) (i : Nat) (x : Bytes) : (copyLoopL src dst i x).1 = x := by
  induction x generalizing i with
  | nil => rfl
  | cons a xs ih => simp [copyLoopL, ih]

theorem copyLoopL_snd (src dst : String) (i : Nat) (x : Bytes) :
    (copyLoopL src dst i x).2 = loopTrace (fun i => [.load src i, .store dst i]) x.length i := by
  induction x generalizing i with
  | nil => rfl
  | cons a xs ih => simp [copyLoopL, ih, loopTrace]

/-- the whole trace of the X25519 ladder: a function of the public point's small-order flag and
    of the scalar's length (32) -/
def x25519Trace (ops : FeOps) (small : Bool) (nlen : Nat) : Trace :=
  if small then ops.tr "has_small_order" ++ [.branch true] else
   ops.tr "has_small_order" ++ [.branch false] ++ loopTrace (fun i => [.load "n" i, .store "t" i]) nlen 0 ++
   clampTrace "t" ++
   ops.tr "fe25519_frombytes" ++ ops.tr "fe25519_1" ++ ops.tr "fe25519_0" ++ ops.tr "fe25519_copy" ++
   ops.tr "fe25519_1" ++ ladderLoopTrace ops 255 ++ cswapTrace ⟨"x2", 0⟩ ⟨"x3", 0⟩ ++ cswapTrace ⟨"z2", 0⟩ ⟨"z3", 0⟩ ++
   ops.tr "fe25519_invert" ++ ops.tr "fe25519_mul" ++ ops.tr "fe25519_tobytes" ++ ops.tr "sodium_memzero"

theorem x25519L_snd (ops : FeOps) (n p : Bytes) :
    (x25519L ops n p).2 = x25519Trace ops (ops.hasSmallOrder p) n.length := by
  unfold x25519L x25519Trace
  split
  · rfl
  · simp only [ladderLoopL_snd, copyLoopL_snd, cswap_trace]

/-! ### 6. recoding and digit loops -/

theorem nibblesL_snd (i : Nat) (a : Bytes) :
    (nibblesL i a).2 =
      loopTrace (fun i => [.load "a" i, .store "e" (2 * i), .load "a" i, .store "e" (2 * i + 1)]) a.length i := by
  induction a generalizing i with
  | nil => rfl
  | cons x xs ih => simp [nibblesL, ih, loopTrace]

theorem nibblesL_length (i : Nat) (a : Bytes) : (nibblesL i a).1.length = 2 * a.length := by
  induction a generalizing i with
  | nil => rfl
  | cons x xs ih => simp [nibblesL, ih]; omega

/-- trace of the carry loop over an array of `n` digits, starting at index `i` -/
def carryTrace : Nat → Nat → Trace
  | 0, _ => [.branch false]
  | 1, i => [.branch false, .load "e" i, .store "e" i]
  | n + 2, i =>
    .branch true :: .load "e" i :: .store "e" i :: .load "e" i :: .load "e" i :: .store "e" i :: carryTrace (n + 1) (i + 1)

theorem carryLoopL_snd (c : Int8) (i : Nat) (e : List Int8) : (carryLoopL c i e).2 = carryTrace e.length i := by
  fun_induction carryLoopL c i e with
  | case1 => rfl
  | case2 => rfl
  | case3 c i x y xs e1 c' r ih => simp [r, ih, carryTrace]

theorem carryLoopL_length (c : Int8) (i : Nat) (e : List Int8) : (carryLoopL c i e).1.length = e.length := by
  fun_induction carryLoopL c i e with
  | case1 => rfl
  | case2 => rfl
  | case3 c i x y xs e1 c' r ih => simp [r, ih]

def recodeTrace (alen : Nat) : Trace :=
  loopTrace (fun i => [.load "a" i, .store "e" (2 * i), .load "a" i, .store "e" (2 * i + 1)]) alen 0 ++
  carryTrace (2 * alen) 0

theorem recodeL_snd (a : Bytes) : (recodeL a).2 = recodeTrace a.length := by
  simp [recodeL, recodeTrace, nibblesL_snd, carryLoopL_snd, nibblesL_length]

section Scalarmult
variable {P1 P2 P3 : Type} (asm : Bool) (ops : GeOps P1 P2 P3)

def baseLoopTrace : Nat → Nat → Trace
  | 0, _ => [.branch false]
  | k + 1, i =>
    .branch true :: .load "e" i ::
      cmov8Trace asm (ops.tr "fe25519_neg") ⟨"t", 0⟩ ⟨"base", 120 * (i / 2)⟩ ⟨"minust", 0⟩ ++
      ops.tr "ge25519_add_precomp" ++ ops.tr "ge25519_p1p1_to_p3" ++ baseLoopTrace k (i + 2)

theorem baseLoopL_snd (base : Nat → Fin 8 → Precomp) (e : List Int8) (k i : Nat) (h : P3) :
    (baseLoopL asm ops base e k i h).2 = baseLoopTrace asm ops k i := by
  induction k generalizing i h with
  | zero => rfl
  | succ k ih => simp only [baseLoopL, baseLoopTrace, cmov8_trace, ih]

def scalarmultBaseTrace (alen : Nat) : Trace :=
  recodeTrace alen ++ ops.tr "ge25519_p3_0" ++ baseLoopTrace asm ops 32 1 ++
   ops.tr "ge25519_p3_dbl" ++ ops.tr "ge25519_p1p1_to_p2" ++ ops.tr "ge25519_p2_dbl" ++
   ops.tr "ge25519_p1p1_to_p2" ++ ops.tr "ge25519_p2_dbl" ++ ops.tr "ge25519_p1p1_to_p2" ++
   ops.tr "ge25519_p2_dbl" ++ ops.tr "ge25519_p1p1_to_p3" ++ baseLoopTrace asm ops 32 0

theorem scalarmult_baseL_snd (base : Nat → Fin 8 → Precomp) (a : Bytes) :
    (ge25519_scalarmult_baseL asm ops base a).2 = scalarmultBaseTrace asm ops a.length := by
  simp only [ge25519_scalarmult_baseL, scalarmultBaseTrace, baseLoopL_snd, recodeL_snd]

def varLoopTrace : Nat → Trace
  | 0 => [.branch false]
  | k + 1 =>
    .branch true :: .load "e" (k + 1) ::
      cmov8CachedTrace asm (ops.tr "fe25519_neg") ⟨"t", 0⟩ ⟨"pi", 0⟩ ⟨"minust", 0⟩ ++ windowTrace ops ++
      varLoopTrace k

theorem varLoopL_snd (pi : Fin 8 → Cached) (e : List Int8) (k : Nat) (h : P3) :
    (varLoopL asm ops pi e k h).2 = varLoopTrace asm ops k := by
  induction k generalizing h with
  | zero => rfl
  | succ k ih => simp only [varLoopL, varLoopTrace, cmov8_cached_trace, ih]

def scalarmultTrace (alen : Nat) : Trace :=
  ops.tr "precompute_pi" ++ recodeTrace alen ++ ops.tr "ge25519_p3_0" ++ varLoopTrace asm ops 63 ++
   .load "e" 0 :: cmov8CachedTrace asm (ops.tr "fe25519_neg") ⟨"t", 0⟩ ⟨"pi", 0⟩ ⟨"minust", 0⟩ ++
   ops.tr "ge25519_add_cached" ++ ops.tr "ge25519_p1p1_to_p3"

theorem scalarmultL_snd (a : Bytes) (p : P3) :
    (ge25519_scalarmultL asm ops a p).2 = scalarmultTrace asm ops a.length := by
  simp only [ge25519_scalarmultL, scalarmultTrace, varLoopL_snd, recodeL_snd, cmov8_cached_trace]

end Scalarmult

/-! ### functional correctness of the signed radix-16 recoding -/

/-- integer value of a little-endian signed radix-16 digit string -/
def digitsVal : List Int8 → Int
  | [] => 0
  | x :: xs => x.toInt + 16 * digitsVal xs

theorem nibble_byte : ∀ x : UInt8,
    ((0 : Int8) ≤ ((x >>> 0) &&& 15).toInt8 ∧ ((x >>> 0) &&& 15).toInt8 ≤ 15) ∧
    ((0 : Int8) ≤ ((x >>> 4) &&& 15).toInt8 ∧ ((x >>> 4) &&& 15).toInt8 ≤ 15) ∧
    ((x ≤ 127) → ((x >>> 4) &&& 15).toInt8 ≤ 7) ∧
    ((x >>> 0) &&& 15).toInt8.toInt + 16 * ((x >>> 4) &&& 15).toInt8.toInt = (x.toNat : Int) := by
  decide +kernel

theorem nibblesL_val (i : Nat) (a : Bytes) : digitsVal (nibblesL i a).1 = (le a : Int) := by
  induction a generalizing i with
  | nil => rfl
  | cons x xs ih =>
    have := (nibble_byte x).2.2.2
    simp only [nibblesL, digitsVal, ih, le]
    omega

theorem nibblesL_range (i : Nat) (a : Bytes) : ∀ d ∈ (nibblesL i a).1, 0 ≤ d ∧ d ≤ 15 := by
  induction a generalizing i with
  | nil => simp [nibblesL]
  | cons x xs ih =>
    have h := nibble_byte x
    intro d hd
    simp only [nibblesL, List.mem_cons] at hd
    rcases hd with rfl | rfl | hd
    · exact h.1
    · exact h.2.1
    · exact ih _ d hd

theorem nibblesL_last (i : Nat) (a : Bytes) (hl : ∀ x, a.getLast? = some x → x ≤ 127) :
    ∀ d, (nibblesL i a).1.getLast? = some d → d ≤ 7 := by
  induction a generalizing i with
  | nil => simp [nibblesL]
  | cons x xs ih =>
    cases xs with
    | nil =>
      intro d hd
      simp [nibblesL] at hd
      subst hd
      exact (nibble_byte x).2.2.1 (hl x (by simp))
    | cons y ys =>
      intro d hd
      apply ih (i + 1) (fun z hz => hl z (by simpa using hz)) d
      simpa [nibblesL] using hd

theorem carry_step0 : ∀ x : Int8, 0 ≤ x → x ≤ 15 →
    let c := (x + 0 + 8) >>> 4
    (c = 0 ∨ c = 1) ∧ -8 ≤ (x + 0 - c * 16) ∧ (x + 0 - c * 16) ≤ 7 ∧
    (x + 0 - c * 16).toInt + 16 * c.toInt = x.toInt + (0 : Int8).toInt ∧
    (x + 0).toInt = x.toInt + (0 : Int8).toInt ∧ (x ≤ 7 → -8 ≤ x + 0 ∧ x + 0 ≤ 8) := by
  decide +kernel
theorem carry_step1 : ∀ x : Int8, 0 ≤ x → x ≤ 15 →
    let c := (x + 1 + 8) >>> 4
    (c = 0 ∨ c = 1) ∧ -8 ≤ (x + 1 - c * 16) ∧ (x + 1 - c * 16) ≤ 7 ∧
    (x + 1 - c * 16).toInt + 16 * c.toInt = x.toInt + (1 : Int8).toInt ∧
    (x + 1).toInt = x.toInt + (1 : Int8).toInt ∧ (x ≤ 7 → -8 ≤ x + 1 ∧ x + 1 ≤ 8) := by
  decide +kernel

theorem carry_step (c : Int8) (hc : c = 0 ∨ c = 1) (x : Int8) (h0 : 0 ≤ x) (h15 : x ≤ 15) :
    let c' := (x + c + 8) >>> 4
    (c' = 0 ∨ c' = 1) ∧ -8 ≤ (x + c - c' * 16) ∧ (x + c - c' * 16) ≤ 7 ∧
    (x + c - c' * 16).toInt + 16 * c'.toInt = x.toInt + c.toInt ∧
    (x + c).toInt = x.toInt + c.toInt ∧ (x ≤ 7 → -8 ≤ x + c ∧ x + c ≤ 8) := by
  rcases hc with rfl | rfl
  · exact carry_step0 x h0 h15
  · exact carry_step1 x h0 h15

theorem carryLoopL_val (c : Int8) (i : Nat) (e : List Int8) (hc : c = 0 ∨ c = 1)
    (he : ∀ d ∈ e, 0 ≤ d ∧ d ≤ 15) (hne : e ≠ []) :
    digitsVal (carryLoopL c i e).1 = digitsVal e + c.toInt := by
  fun_induction carryLoopL c i e with
  | case1 => exact absurd rfl hne
  | case2 c i x =>
    have := carry_step c hc x (he x (by simp)).1 (he x (by simp)).2
    simp only [digitsVal]; omega
  | case3 c i x y xs e1 c' r ih =>
    have hs := carry_step c hc x (he x (by simp)).1 (he x (by simp)).2
    have := ih hs.1 (fun d hd => he d (by simp [hd])) (by simp)
    simp only [digitsVal] at this ⊢
    simp only [r, this]
    have h4 := hs.2.2.2.1
    simp only [e1, c'] at *
    omega

theorem carryLoopL_range (c : Int8) (i : Nat) (e : List Int8) (hc : c = 0 ∨ c = 1)
    (he : ∀ d ∈ e, 0 ≤ d ∧ d ≤ 15) (hl : ∀ d, e.getLast? = some d → d ≤ 7) :
    ∀ d ∈ (carryLoopL c i e).1, -8 ≤ d ∧ d ≤ 8 := by
  fun_induction carryLoopL c i e with
  | case1 => simp
  | case2 c i x =>
    have := carry_step c hc x (he x (by simp)).1 (he x (by simp)).2
    intro d hd
    simp only [List.mem_singleton] at hd
    subst hd
    exact this.2.2.2.2.2 (hl x (by simp))
  | case3 c i x y xs e1 c' r ih =>
    have hs := carry_step c hc x (he x (by simp)).1 (he x (by simp)).2
    have := ih hs.1 (fun d hd => he d (by simp [hd])) (fun d hd => hl d (by simpa using hd))
    intro d hd
    simp only [List.mem_cons] at hd
    rcases hd with rfl | hd
    · exact ⟨hs.2.1, Int8.le_trans hs.2.2.1 (by decide)⟩
    · exact this d (by simpa [r] using hd)

/-- the recoded digits represent the scalar: Σ e[i]·16^i = a (any length) -/
theorem recodeL_val (a : Bytes) : digitsVal (recodeL a).1 = (le a : Int) := by
  cases a with
  | nil => rfl
  | cons x xs =>
    have hne : (nibblesL 0 (x :: xs)).1 ≠ [] := by simp [nibblesL]
    have := carryLoopL_val 0 0 _ (Or.inl rfl) (nibblesL_range 0 (x :: xs)) hne
    simp only [recodeL, this, nibblesL_val]
    have : (0 : Int8).toInt = 0 := by decide
    omega

/-- every recoded digit is in −8..8 when the top bit of the scalar is clear (`a[31] ≤ 127`) -/
theorem recodeL_range (a : Bytes) (hl : ∀ x, a.getLast? = some x → x ≤ 127) :
    ∀ d ∈ (recodeL a).1, -8 ≤ d ∧ d ≤ 8 :=
  carryLoopL_range 0 0 _ (Or.inl rfl) (nibblesL_range 0 a) (nibblesL_last 0 a hl)

end Sodium.LeakP
