import SodiumModel.Model.CompressRef
import SodiumModel.Spec.Sha256
import SodiumModel.Spec.Sha512
import SodiumModel.Spec.Blake2b
import SodiumModel.Spec.SipHash
import SodiumModel.Model.Hash
/-
  Helper lemmas for `Properties/C04Compress.lean`: the C compression functions of
  `Model/CompressRef.lean` equal the executable specifications.
-/
namespace Sodium.CompressRefP
open Sodium Sodium.Model.CompressRef

/-! ### arrays -/

theorem getD_set {α} (xs : Array α) (i j : Nat) (v d : α) :
    (xs.setIfInBounds i v).getD j d = if i = j ∧ i < xs.size then v else xs.getD j d := by
  simp only [Array.getD_eq_getD_getElem?, Array.getElem?_setIfInBounds]
  by_cases h : i = j
  · subst h
    by_cases h2 : i < xs.size
    · simp [h2]
    · simp [h2]
  · simp [h]

theorem arr_ext_getD {α} (d : α) (a b : Array α) (hs : a.size = b.size)
    (h : ∀ j, j < a.size → a.getD j d = b.getD j d) : a = b := by
  apply Array.ext hs
  intro i h1 h2
  have := h i h1
  simpa [Array.getD_eq_getD_getElem?, h1, h2] using this

theorem lt8_cases {P : Nat → Prop} (h0 : P 0) (h1 : P 1) (h2 : P 2) (h3 : P 3) (h4 : P 4) (h5 : P 5)
    (h6 : P 6) (h7 : P 7) : ∀ j, j < 8 → P j := by
  intro j hj
  have : j = 0 ∨ j = 1 ∨ j = 2 ∨ j = 3 ∨ j = 4 ∨ j = 5 ∨ j = 6 ∨ j = 7 := by omega
  rcases this with rfl | rfl | rfl | rfl | rfl | rfl | rfl | rfl <;> assumption

/-- `w0`, then `n` pushes, each computed from the array so far -/
def pushFold {α} (f : Array α → Nat → α) (w0 : Array α) (n : Nat) : Array α :=
  (List.range n).foldl (fun w i => w.push (f w i)) w0

theorem pushFold_zero {α} (f : Array α → Nat → α) (w0 : Array α) : pushFold f w0 0 = w0 := rfl

theorem pushFold_succ {α} (f : Array α → Nat → α) (w0 : Array α) (n : Nat) :
    pushFold f w0 (n + 1) = (pushFold f w0 n).push (f (pushFold f w0 n) n) := by
  simp [pushFold, List.range_succ, List.foldl_append]

theorem pushFold_size {α} (f : Array α → Nat → α) (w0 : Array α) (n : Nat) :
    (pushFold f w0 n).size = w0.size + n := by
  induction n with
  | zero => simp [pushFold]
  | succ n ih => rw [pushFold_succ, Array.size_push, ih]; omega

theorem pushFold_stable {α} (f : Array α → Nat → α) (w0 : Array α) (d : α) (k t : Nat)
    (ht : t < w0.size + k) : ∀ n, k ≤ n → (pushFold f w0 n).getD t d = (pushFold f w0 k).getD t d := by
  intro n hn
  induction n with
  | zero => have : k = 0 := by omega
            subst this; rfl
  | succ n ih =>
    by_cases h : k = n + 1
    · subst h; rfl
    · rw [pushFold_succ, ← ih (by omega)]
      have hs := pushFold_size f w0 n
      simp only [Array.getD_eq_getD_getElem?]
      rw [Array.getElem?_push_lt (by omega), Array.getElem?_eq_getElem (by omega)]

theorem pushFold_new {α} (f : Array α → Nat → α) (w0 : Array α) (d : α) (k : Nat) :
    (pushFold f w0 (k + 1)).getD (w0.size + k) d = f (pushFold f w0 k) k := by
  rw [pushFold_succ]
  have hs := pushFold_size f w0 k
  simp [Array.getD_eq_getD_getElem?, ← hs]

/-! ### 32-bit word lemmas -/

theorem or4_32 (a b c d : UInt32) : a ||| b ||| c ||| d = d ||| c ||| b ||| a := by ac_rfl
theorem shl32_8_8 (a : UInt32) : a <<< 8 <<< 8 = a <<< 16 :=
  (UInt32.shiftLeft_add_of_toNat_lt (b := 8) (c := 8) (by decide)).symm
theorem shl32_16_8 (a : UInt32) : a <<< 16 <<< 8 = a <<< 24 :=
  (UInt32.shiftLeft_add_of_toNat_lt (b := 16) (c := 8) (by decide)).symm

theorem load32_be_eq (b : Array UInt8) (i : Nat) : load32_be b i = Spec.Sha256.load32be b i := by
  unfold load32_be Spec.Sha256.load32be
  have : List.range 4 = [0, 1, 2, 3] := by decide
  rw [this]
  simp only [List.foldl_cons, List.foldl_nil, UInt32.zero_shiftLeft, UInt32.zero_or, UInt32.shiftLeft_or,
    shl32_8_8, shl32_16_8]
  exact or4_32 _ _ _ _

namespace S256
open Sodium.Model.CompressRef.Sha256

theorem Ch_eq (x y z : UInt32) : Ch x y z = Spec.Sha256.ch x y z := by
  unfold Ch Spec.Sha256.ch
  apply UInt32.eq_of_toBitVec_eq
  simp only [UInt32.toBitVec_xor, UInt32.toBitVec_and, UInt32.toBitVec_not]
  ext i hi
  simp only [BitVec.getElem_xor, BitVec.getElem_and, BitVec.getElem_not]
  cases x.toBitVec[i] <;> cases y.toBitVec[i] <;> cases z.toBitVec[i] <;> rfl

theorem Maj_eq (x y z : UInt32) : Maj x y z = Spec.Sha256.maj x y z := by
  unfold Maj Spec.Sha256.maj
  apply UInt32.eq_of_toBitVec_eq
  simp only [UInt32.toBitVec_xor, UInt32.toBitVec_and, UInt32.toBitVec_or]
  ext i hi
  simp only [BitVec.getElem_xor, BitVec.getElem_and, BitVec.getElem_or]
  cases x.toBitVec[i] <;> cases y.toBitVec[i] <;> cases z.toBitVec[i] <;> rfl

theorem S0_eq (x : UInt32) : S0 x = Spec.Sha256.bigSigma0 x := rfl
theorem S1_eq (x : UInt32) : S1 x = Spec.Sha256.bigSigma1 x := rfl
theorem s0_eq (x : UInt32) : s0 x = Spec.Sha256.smallSigma0 x := rfl
theorem s1_eq (x : UInt32) : s1 x = Spec.Sha256.smallSigma1 x := rfl
/-- the transcribed table `Krnd` is the specification's K -/
theorem Krnd_eq : Krnd = Spec.Sha256.K := by decide

/-! #### the message schedule of the specification as a recurrence -/

def schedF (w : Array UInt32) (i : Nat) : UInt32 :=
  Spec.Sha256.smallSigma1 (w.getD (i + 16 - 2) 0) + w.getD (i + 16 - 7) 0
    + Spec.Sha256.smallSigma0 (w.getD (i + 16 - 15) 0) + w.getD (i + 16 - 16) 0

def sched16 (block : Bytes) : Array UInt32 :=
  pushFold (fun _ t => Spec.Sha256.load32be block.toArray (4 * t)) #[] 16

theorem schedule_eq (block : Bytes) : Spec.Sha256.schedule block = pushFold schedF (sched16 block) 48 := by
  unfold Spec.Sha256.schedule sched16 pushFold
  dsimp only [schedF]

theorem sched16_size (block : Bytes) : (sched16 block).size = 16 := by
  simp [sched16, pushFold_size]

theorem schedule_size (block : Bytes) : (Spec.Sha256.schedule block).size = 64 := by
  rw [schedule_eq, pushFold_size, sched16_size]

theorem schedule_lo (block : Bytes) (t : Nat) (ht : t < 16) :
    (Spec.Sha256.schedule block).getD t 0 = Spec.Sha256.load32be block.toArray (4 * t) := by
  rw [schedule_eq, pushFold_stable schedF (sched16 block) 0 0 t (by rw [sched16_size]; omega) 48 (by omega)]
  rw [pushFold_zero]
  unfold sched16
  rw [pushFold_stable _ #[] 0 (t + 1) t (by simp) 16 (by omega)]
  have := pushFold_new (fun _ t => Spec.Sha256.load32be block.toArray (4 * t)) #[] 0 t
  simpa using this

theorem schedule_hi (block : Bytes) (i : Nat) (hi : i < 48) :
    (Spec.Sha256.schedule block).getD (i + 16) 0 =
      Spec.Sha256.smallSigma1 ((Spec.Sha256.schedule block).getD (i + 14) 0)
        + (Spec.Sha256.schedule block).getD (i + 9) 0
        + Spec.Sha256.smallSigma0 ((Spec.Sha256.schedule block).getD (i + 1) 0)
        + (Spec.Sha256.schedule block).getD i 0 := by
  have hs := sched16_size block
  have st : ∀ t, t < 16 + i → (Spec.Sha256.schedule block).getD t 0
      = (pushFold schedF (sched16 block) i).getD t 0 := by
    intro t ht
    rw [schedule_eq]
    exact pushFold_stable schedF (sched16 block) 0 i t (by rw [hs]; exact ht) 48 (by omega)
  rw [st (i + 14) (by omega), st (i + 9) (by omega), st (i + 1) (by omega), st i (by omega)]
  rw [schedule_eq, pushFold_stable schedF (sched16 block) 0 (i + 1) (i + 16) (by rw [hs]; omega) 48 (by omega)]
  have := pushFold_new schedF (sched16 block) 0 i
  rw [hs, Nat.add_comm 16 i] at this
  rw [this]
  simp only [schedF]
  have e1 : i + 16 - 2 = i + 14 := by omega
  have e2 : i + 16 - 7 = i + 9 := by omega
  have e3 : i + 16 - 15 = i + 1 := by omega
  have e4 : i + 16 - 16 = i := by omega
  rw [e1, e2, e3, e4]

/-! #### be32dec_vect -/

theorem be32dec_loop_spec (src : Array UInt8) (len : Nat) :
    ∀ n i (dst : Array UInt32), i + n = len / 4 →
      (be32dec_vect_loop src len n i dst).size = dst.size ∧
      ∀ t, (be32dec_vect_loop src len n i dst).getD t 0 =
        if i ≤ t ∧ t < len / 4 ∧ t < dst.size then load32_be src (t * 4) else dst.getD t 0 := by
  intro n
  induction n with
  | zero =>
    intro i dst h
    refine ⟨rfl, fun t => ?_⟩
    have : ¬ (i ≤ t ∧ t < len / 4 ∧ t < dst.size) := by omega
    simp [be32dec_vect_loop, this]
  | succ n ih =>
    intro i dst h
    have hi : i < len / 4 := by omega
    simp only [be32dec_vect_loop, hi, if_true]
    obtain ⟨h1, h2⟩ := ih (i + 1) (dst.setIfInBounds i (load32_be src (i * 4))) (by omega)
    refine ⟨by rw [h1, Array.size_setIfInBounds], fun t => ?_⟩
    rw [h2 t, getD_set, Array.size_setIfInBounds]
    by_cases hti : i = t
    · subst hti
      by_cases hd : i < dst.size
      · simp [hd, hi]
      · simp [hd]
    · by_cases hlt : i + 1 ≤ t
      · have : i ≤ t := by omega
        simp [hti, hlt, this]
      · have : ¬ i ≤ t := by omega
        simp [hti, hlt, this]

/-- agreement of the C array `W` with the specification's schedule on the first `n` words -/
def Wagree (block : Bytes) (W : Array UInt32) (n : Nat) : Prop :=
  W.size = 64 ∧ ∀ t, t < n → W.getD t 0 = (Spec.Sha256.schedule block).getD t 0

theorem be32dec_agree (block : Bytes) (W : Array UInt32) (hW : W.size = 64) :
    Wagree block (be32dec_vect W block.toArray 64) 16 := by
  obtain ⟨h1, h2⟩ := be32dec_loop_spec block.toArray 64 (64 / 4) 0 W (by omega)
  refine ⟨by rw [be32dec_vect, h1, hW], fun t ht => ?_⟩
  rw [be32dec_vect, h2 t, schedule_lo block t ht, ← load32_be_eq, Nat.mul_comm]
  have : 0 ≤ t ∧ t < 64 / 4 ∧ t < W.size := by omega
  simp [this]

/-! #### MSCH -/

theorem MSCH_agree (block : Bytes) (W : Array UInt32) (i ii : Nat) (h : Wagree block W (i + ii + 16))
    (hb : i + ii + 16 < 64) : Wagree block (MSCH W ii i) (i + ii + 16 + 1) := by
  obtain ⟨hs, ha⟩ := h
  refine ⟨by rw [MSCH, Array.size_setIfInBounds, hs], fun t ht => ?_⟩
  rw [MSCH, getD_set]
  by_cases e : i + ii + 16 = t
  · subst e
    have : i + ii + 16 < W.size := by omega
    simp only [this, and_self, if_true]
    rw [schedule_hi block (i + ii) (by omega), s0_eq, s1_eq,
      ha (i + ii + 14) (by omega), ha (i + ii + 9) (by omega), ha (i + ii + 1) (by omega), ha (i + ii) (by omega)]
  · simp only [e, false_and, if_false]
    exact ha t (by omega)

def mschN (W : Array UInt32) (ii n : Nat) : Array UInt32 :=
  (List.range n).foldl (fun W i => MSCH W i ii) W

theorem range16 : List.range 16 = [0, 1, 2, 3, 4, 5, 6, 7, 8, 9, 10, 11, 12, 13, 14, 15] := by decide

theorem msch16_eq (W : Array UInt32) (ii : Nat) : msch16 W ii = mschN W ii 16 := by
  simp only [mschN, range16, List.foldl_cons, List.foldl_nil, msch16]

theorem mschN_succ (W : Array UInt32) (ii n : Nat) : mschN W ii (n + 1) = MSCH (mschN W ii n) n ii := by
  simp only [mschN, List.range_succ, List.foldl_append, List.foldl_cons, List.foldl_nil]

theorem mschN_agree (block : Bytes) (W : Array UInt32) (ii : Nat) (h : Wagree block W (ii + 16)) :
    ∀ n, ii + 16 + n ≤ 64 → Wagree block (mschN W ii n) (ii + 16 + n) := by
  intro n
  induction n with
  | zero => intro _; exact h
  | succ n ih =>
    intro hn
    have := ih (by omega)
    rw [mschN_succ]
    have e : ii + 16 + n = ii + n + 16 := by omega
    rw [e] at this
    have r := MSCH_agree block _ ii n this (by omega)
    have e2 : ii + n + 16 + 1 = ii + 16 + (n + 1) := by omega
    rw [e2] at r
    exact r

theorem msch16_agree (block : Bytes) (W : Array UInt32) (ii : Nat) (h : Wagree block W (ii + 16))
    (hb : ii + 32 ≤ 64) : Wagree block (msch16 W ii) (ii + 32) := by
  rw [msch16_eq]
  exact mschN_agree block W ii h 16 (by omega)

/-! #### RNDr: one round on the rotated view -/

/-- the working variables (a, …, h) as round `i` sees them -/
def view (S : Array UInt32) (i : Nat) : Array UInt32 :=
  #[S.getD ((64 - i) % 8) 0, S.getD ((65 - i) % 8) 0, S.getD ((66 - i) % 8) 0, S.getD ((67 - i) % 8) 0,
    S.getD ((68 - i) % 8) 0, S.getD ((69 - i) % 8) 0, S.getD ((70 - i) % 8) 0, S.getD ((71 - i) % 8) 0]

theorem rnd_arith (h s1 ch k w : UInt32) : h + (s1 + ch + w + k) = h + s1 + ch + k + w := by ac_rfl

theorem RNDr_size (S W : Array UInt32) (i ii : Nat) : (RNDr S W i ii).size = S.size := by
  simp [RNDr]

theorem RNDr_view (S W w : Array UInt32) (i ii : Nat) (hS : S.size = 8) (hi : i < 16)
    (hW : W.getD (i + ii) 0 = w.getD (i + ii) 0) :
    view (RNDr S W i ii) (i + 1) = Spec.Sha256.round w (view S i) (i + ii) := by
  have : i = 0 ∨ i = 1 ∨ i = 2 ∨ i = 3 ∨ i = 4 ∨ i = 5 ∨ i = 6 ∨ i = 7 ∨ i = 8 ∨ i = 9 ∨ i = 10 ∨ i = 11
      ∨ i = 12 ∨ i = 13 ∨ i = 14 ∨ i = 15 := by omega
  rcases this with rfl | rfl | rfl | rfl | rfl | rfl | rfl | rfl | rfl | rfl | rfl | rfl | rfl | rfl | rfl | rfl
  all_goals
    simp only [Array.getD_eq_getD_getElem?, Nat.zero_add] at hW
    simp [RNDr, view, Spec.Sha256.round, hS, S0_eq, S1_eq, Ch_eq, Maj_eq, Krnd_eq, hW]
    exact rnd_arith ..

def rndN (S W : Array UInt32) (ii n : Nat) : Array UInt32 :=
  (List.range n).foldl (fun S i => RNDr S W i ii) S

theorem rnd16_eq (S W : Array UInt32) (ii : Nat) : rnd16 S W ii = rndN S W ii 16 := by
  simp only [rndN, range16, List.foldl_cons, List.foldl_nil, rnd16]

theorem rndN_view (S W w : Array UInt32) (ii : Nat) (hS : S.size = 8) :
    ∀ n, n ≤ 16 → (∀ i, i < n → W.getD (i + ii) 0 = w.getD (i + ii) 0) →
      (rndN S W ii n).size = 8 ∧
      view (rndN S W ii n) n = (List.range' ii n).foldl (Spec.Sha256.round w) (view S 0) := by
  intro n
  induction n with
  | zero => intro _ _; exact ⟨hS, rfl⟩
  | succ n ih =>
    intro hn hW
    obtain ⟨h1, h2⟩ := ih (by omega) (fun i hi => hW i (by omega))
    have e : rndN S W ii (n + 1) = RNDr (rndN S W ii n) W n ii := by
      simp [rndN, List.range_succ, List.foldl_append]
    rw [e]
    refine ⟨by rw [RNDr_size, h1], ?_⟩
    rw [RNDr_view _ W w n ii h1 (by omega) (hW n (by omega)), h2, List.range'_1_concat, List.foldl_append,
      Nat.add_comm n ii]
    rfl

theorem view_zero (S : Array UInt32) (hS : S.size = 8) : view S 0 = S := by
  apply arr_ext_getD 0
  · simp [view, hS]
  · intro j hj
    have hj : j < 8 := by simpa [view] using hj
    revert j
    apply lt8_cases <;> simp [view, hS]

theorem view_16 (S : Array UInt32) : view S 16 = view S 0 := rfl

/-- sixteen `RNDr` (one loop body) are sixteen rounds of the specification -/
theorem rnd16_spec (block : Bytes) (S W : Array UInt32) (ii : Nat) (hS : S.size = 8)
    (hW : Wagree block W (ii + 16)) :
    (rnd16 S W ii).size = 8 ∧
    rnd16 S W ii = (List.range' ii 16).foldl (Spec.Sha256.round (Spec.Sha256.schedule block)) S := by
  obtain ⟨h1, h2⟩ := rndN_view S W (Spec.Sha256.schedule block) ii hS 16 (by omega)
    (fun i hi => hW.2 (i + ii) (by omega))
  rw [rnd16_eq]
  refine ⟨h1, ?_⟩
  rw [view_16, view_zero _ h1, view_zero _ hS] at h2
  exact h2

/-! #### the whole transform -/

theorem memcpy8_eq (S state : Array UInt32) (hS : S.size = 8) (hst : state.size = 8) :
    memcpy8 S state = state := by
  have hsz : (memcpy8 S state).size = 8 := by simp [memcpy8, List.range_succ, hS]
  apply arr_ext_getD 0
  · rw [hsz, hst]
  · rw [hsz]
    apply lt8_cases <;> simp [memcpy8, List.range_succ, hS]

theorem addState_eq (S state : Array UInt32) (hst : state.size = 8) :
    addState_loop S 8 0 state = (Array.range 8).map fun j => S.getD j 0 + state.getD j 0 := by
  have hsz : (addState_loop S 8 0 state).size = 8 := by simp [addState_loop, hst]
  apply arr_ext_getD 0
  · simp [hsz]
  · rw [hsz]
    apply lt8_cases <;>
      simp [addState_loop, hst, UInt32.add_comm]

theorem range64_split : List.range 64 =
    List.range' 0 16 ++ (List.range' 16 16 ++ (List.range' 32 16 ++ List.range' 48 16)) := by decide

theorem mainLoop_unfold (S0 W0 : Array UInt32) : mainLoop 4 0 S0 W0 =
    (rnd16 (rnd16 (rnd16 (rnd16 S0 W0 0) (msch16 W0 0) 16) (msch16 (msch16 W0 0) 16) 32)
        (msch16 (msch16 (msch16 W0 0) 16) 32) 48,
      msch16 (msch16 (msch16 W0 0) 16) 32) := by
  simp [mainLoop]

theorem transform_eq (state : Array UInt32) (block : Bytes) (W S : Array UInt32)
    (hst : state.size = 8) (hW : W.size = 64) (hS : S.size = 8) :
    (SHA256_Transform state block.toArray W S).1 = Spec.Sha256.compress state block := by
  have a0 := be32dec_agree block W hW
  have hm := memcpy8_eq S state hS hst
  simp only [SHA256_Transform, hm, mainLoop_unfold]
  generalize be32dec_vect W block.toArray 64 = W0 at a0 ⊢
  obtain ⟨z1, r1⟩ := rnd16_spec block state W0 0 hst a0
  have a1 := msch16_agree block W0 0 a0 (by omega)
  obtain ⟨z2, r2⟩ := rnd16_spec block (rnd16 state W0 0) (msch16 W0 0) 16 z1 a1
  have a2 := msch16_agree block (msch16 W0 0) 16 a1 (by omega)
  obtain ⟨z3, r3⟩ := rnd16_spec block _ (msch16 (msch16 W0 0) 16) 32 z2 a2
  have a3 := msch16_agree block (msch16 (msch16 W0 0) 16) 32 a2 (by omega)
  obtain ⟨z4, r4⟩ := rnd16_spec block _ (msch16 (msch16 (msch16 W0 0) 16) 32) 48 z3 a3
  rw [addState_eq _ _ hst, r4, r3, r2, r1]
  simp only [Spec.Sha256.compress, range64_split, List.foldl_append]

end S256

/-! ### 64-bit word lemmas -/

theorem or8_64 (a b c d e f g h : UInt64) :
    a ||| b ||| c ||| d ||| e ||| f ||| g ||| h = h ||| g ||| f ||| e ||| d ||| c ||| b ||| a := by ac_rfl
theorem shl64_8_8 (a : UInt64) : a <<< 8 <<< 8 = a <<< 16 :=
  (UInt64.shiftLeft_add_of_toNat_lt (b := 8) (c := 8) (by decide)).symm
theorem shl64_16_8 (a : UInt64) : a <<< 16 <<< 8 = a <<< 24 :=
  (UInt64.shiftLeft_add_of_toNat_lt (b := 16) (c := 8) (by decide)).symm
theorem shl64_24_8 (a : UInt64) : a <<< 24 <<< 8 = a <<< 32 :=
  (UInt64.shiftLeft_add_of_toNat_lt (b := 24) (c := 8) (by decide)).symm
theorem shl64_32_8 (a : UInt64) : a <<< 32 <<< 8 = a <<< 40 :=
  (UInt64.shiftLeft_add_of_toNat_lt (b := 32) (c := 8) (by decide)).symm
theorem shl64_40_8 (a : UInt64) : a <<< 40 <<< 8 = a <<< 48 :=
  (UInt64.shiftLeft_add_of_toNat_lt (b := 40) (c := 8) (by decide)).symm
theorem shl64_48_8 (a : UInt64) : a <<< 48 <<< 8 = a <<< 56 :=
  (UInt64.shiftLeft_add_of_toNat_lt (b := 48) (c := 8) (by decide)).symm

theorem range8 : List.range 8 = [0, 1, 2, 3, 4, 5, 6, 7] := by decide

theorem load64_be_eq (b : Array UInt8) (i : Nat) : load64_be b i = Spec.Sha512.load64be b i := by
  unfold load64_be Spec.Sha512.load64be
  rw [range8]
  simp only [List.foldl_cons, List.foldl_nil, UInt64.zero_shiftLeft, UInt64.zero_or, UInt64.shiftLeft_or,
    shl64_8_8, shl64_16_8, shl64_24_8, shl64_32_8, shl64_40_8, shl64_48_8]
  exact or8_64 _ _ _ _ _ _ _ _

theorem load64_le_eq (b : Array UInt8) (i : Nat) : load64_le b i = Spec.Blake2b.load64le b i := by
  unfold load64_le Spec.Blake2b.load64le
  rw [range8]
  simp only [List.foldr_cons, List.foldr_nil, UInt64.zero_shiftLeft, UInt64.zero_or, UInt64.shiftLeft_or,
    shl64_8_8, shl64_16_8, shl64_24_8, shl64_32_8, shl64_40_8, shl64_48_8]
  exact or8_64 _ _ _ _ _ _ _ _

namespace S512
open Sodium.Model.CompressRef.Sha512

theorem Ch_eq (x y z : UInt64) : Ch x y z = Spec.Sha512.ch x y z := by
  unfold Ch Spec.Sha512.ch
  apply UInt64.eq_of_toBitVec_eq
  simp only [UInt64.toBitVec_xor, UInt64.toBitVec_and, UInt64.toBitVec_not]
  ext i hi
  simp only [BitVec.getElem_xor, BitVec.getElem_and, BitVec.getElem_not]
  cases x.toBitVec[i] <;> cases y.toBitVec[i] <;> cases z.toBitVec[i] <;> rfl

theorem Maj_eq (x y z : UInt64) : Maj x y z = Spec.Sha512.maj x y z := by
  unfold Maj Spec.Sha512.maj
  apply UInt64.eq_of_toBitVec_eq
  simp only [UInt64.toBitVec_xor, UInt64.toBitVec_and, UInt64.toBitVec_or]
  ext i hi
  simp only [BitVec.getElem_xor, BitVec.getElem_and, BitVec.getElem_or]
  cases x.toBitVec[i] <;> cases y.toBitVec[i] <;> cases z.toBitVec[i] <;> rfl

theorem S0_eq (x : UInt64) : S0 x = Spec.Sha512.bigSigma0 x := rfl
theorem S1_eq (x : UInt64) : S1 x = Spec.Sha512.bigSigma1 x := rfl
theorem s0_eq (x : UInt64) : s0 x = Spec.Sha512.smallSigma0 x := rfl
theorem s1_eq (x : UInt64) : s1 x = Spec.Sha512.smallSigma1 x := rfl
/-- the transcribed table `Krnd` is the specification's K -/
theorem Krnd_eq : Krnd = Spec.Sha512.K := by decide

/-! #### the message schedule of the specification as a recurrence -/

def schedF (w : Array UInt64) (i : Nat) : UInt64 :=
  Spec.Sha512.smallSigma1 (w.getD (i + 16 - 2) 0) + w.getD (i + 16 - 7) 0
    + Spec.Sha512.smallSigma0 (w.getD (i + 16 - 15) 0) + w.getD (i + 16 - 16) 0

def sched16 (block : Bytes) : Array UInt64 :=
  pushFold (fun _ t => Spec.Sha512.load64be block.toArray (8 * t)) #[] 16

theorem schedule_eq (block : Bytes) : Spec.Sha512.schedule block = pushFold schedF (sched16 block) 64 := by
  unfold Spec.Sha512.schedule sched16 pushFold
  dsimp only [schedF]

theorem sched16_size (block : Bytes) : (sched16 block).size = 16 := by
  simp [sched16, pushFold_size]

theorem schedule_size (block : Bytes) : (Spec.Sha512.schedule block).size = 80 := by
  rw [schedule_eq, pushFold_size, sched16_size]

theorem schedule_lo (block : Bytes) (t : Nat) (ht : t < 16) :
    (Spec.Sha512.schedule block).getD t 0 = Spec.Sha512.load64be block.toArray (8 * t) := by
  rw [schedule_eq, pushFold_stable schedF (sched16 block) 0 0 t (by rw [sched16_size]; omega) 64 (by omega)]
  rw [pushFold_zero]
  unfold sched16
  rw [pushFold_stable _ #[] 0 (t + 1) t (by simp) 16 (by omega)]
  have := pushFold_new (fun _ t => Spec.Sha512.load64be block.toArray (8 * t)) #[] 0 t
  simpa using this

theorem schedule_hi (block : Bytes) (i : Nat) (hi : i < 64) :
    (Spec.Sha512.schedule block).getD (i + 16) 0 =
      Spec.Sha512.smallSigma1 ((Spec.Sha512.schedule block).getD (i + 14) 0)
        + (Spec.Sha512.schedule block).getD (i + 9) 0
        + Spec.Sha512.smallSigma0 ((Spec.Sha512.schedule block).getD (i + 1) 0)
        + (Spec.Sha512.schedule block).getD i 0 := by
  have hs := sched16_size block
  have st : ∀ t, t < 16 + i → (Spec.Sha512.schedule block).getD t 0
      = (pushFold schedF (sched16 block) i).getD t 0 := by
    intro t ht
    rw [schedule_eq]
    exact pushFold_stable schedF (sched16 block) 0 i t (by rw [hs]; exact ht) 64 (by omega)
  rw [st (i + 14) (by omega), st (i + 9) (by omega), st (i + 1) (by omega), st i (by omega)]
  rw [schedule_eq, pushFold_stable schedF (sched16 block) 0 (i + 1) (i + 16) (by rw [hs]; omega) 64 (by omega)]
  have := pushFold_new schedF (sched16 block) 0 i
  rw [hs, Nat.add_comm 16 i] at this
  rw [this]
  simp only [schedF]
  have e1 : i + 16 - 2 = i + 14 := by omega
  have e2 : i + 16 - 7 = i + 9 := by omega
  have e3 : i + 16 - 15 = i + 1 := by omega
  have e4 : i + 16 - 16 = i := by omega
  rw [e1, e2, e3, e4]

/-! #### be64dec_vect -/

theorem be64dec_loop_spec (src : Array UInt8) (len : Nat) :
    ∀ n i (dst : Array UInt64), i + n = len / 8 →
      (be64dec_vect_loop src len n i dst).size = dst.size ∧
      ∀ t, (be64dec_vect_loop src len n i dst).getD t 0 =
        if i ≤ t ∧ t < len / 8 ∧ t < dst.size then load64_be src (t * 8) else dst.getD t 0 := by
  intro n
  induction n with
  | zero =>
    intro i dst h
    refine ⟨rfl, fun t => ?_⟩
    have : ¬ (i ≤ t ∧ t < len / 8 ∧ t < dst.size) := by omega
    simp [be64dec_vect_loop, this]
  | succ n ih =>
    intro i dst h
    have hi : i < len / 8 := by omega
    simp only [be64dec_vect_loop, hi, if_true]
    obtain ⟨h1, h2⟩ := ih (i + 1) (dst.setIfInBounds i (load64_be src (i * 8))) (by omega)
    refine ⟨by rw [h1, Array.size_setIfInBounds], fun t => ?_⟩
    rw [h2 t, getD_set, Array.size_setIfInBounds]
    by_cases hti : i = t
    · subst hti
      by_cases hd : i < dst.size
      · simp [hd, hi]
      · simp [hd]
    · by_cases hlt : i + 1 ≤ t
      · have : i ≤ t := by omega
        simp [hti, hlt, this]
      · have : ¬ i ≤ t := by omega
        simp [hti, hlt, this]

/-- agreement of the C array `W` with the specification's schedule on the first `n` words -/
def Wagree (block : Bytes) (W : Array UInt64) (n : Nat) : Prop :=
  W.size = 80 ∧ ∀ t, t < n → W.getD t 0 = (Spec.Sha512.schedule block).getD t 0

theorem be64dec_agree (block : Bytes) (W : Array UInt64) (hW : W.size = 80) :
    Wagree block (be64dec_vect W block.toArray 128) 16 := by
  obtain ⟨h1, h2⟩ := be64dec_loop_spec block.toArray 128 (128 / 8) 0 W (by omega)
  refine ⟨by rw [be64dec_vect, h1, hW], fun t ht => ?_⟩
  rw [be64dec_vect, h2 t, schedule_lo block t ht, ← load64_be_eq, Nat.mul_comm]
  have : 0 ≤ t ∧ t < 128 / 8 ∧ t < W.size := by omega
  simp [this]

/-! #### MSCH -/

theorem MSCH_agree (block : Bytes) (W : Array UInt64) (i ii : Nat) (h : Wagree block W (i + ii + 16))
    (hb : i + ii + 16 < 80) : Wagree block (MSCH W ii i) (i + ii + 16 + 1) := by
  obtain ⟨hs, ha⟩ := h
  refine ⟨by rw [MSCH, Array.size_setIfInBounds, hs], fun t ht => ?_⟩
  rw [MSCH, getD_set]
  by_cases e : i + ii + 16 = t
  · subst e
    have : i + ii + 16 < W.size := by omega
    simp only [this, and_self, if_true]
    rw [schedule_hi block (i + ii) (by omega), s0_eq, s1_eq,
      ha (i + ii + 14) (by omega), ha (i + ii + 9) (by omega), ha (i + ii + 1) (by omega), ha (i + ii) (by omega)]
  · simp only [e, false_and, if_false]
    exact ha t (by omega)

def mschN (W : Array UInt64) (ii n : Nat) : Array UInt64 :=
  (List.range n).foldl (fun W i => MSCH W i ii) W

theorem range16 : List.range 16 = [0, 1, 2, 3, 4, 5, 6, 7, 8, 9, 10, 11, 12, 13, 14, 15] := by decide

theorem msch16_eq (W : Array UInt64) (ii : Nat) : msch16 W ii = mschN W ii 16 := by
  simp only [mschN, range16, List.foldl_cons, List.foldl_nil, msch16]

theorem mschN_succ (W : Array UInt64) (ii n : Nat) : mschN W ii (n + 1) = MSCH (mschN W ii n) n ii := by
  simp only [mschN, List.range_succ, List.foldl_append, List.foldl_cons, List.foldl_nil]

theorem mschN_agree (block : Bytes) (W : Array UInt64) (ii : Nat) (h : Wagree block W (ii + 16)) :
    ∀ n, ii + 16 + n ≤ 80 → Wagree block (mschN W ii n) (ii + 16 + n) := by
  intro n
  induction n with
  | zero => intro _; exact h
  | succ n ih =>
    intro hn
    have := ih (by omega)
    rw [mschN_succ]
    have e : ii + 16 + n = ii + n + 16 := by omega
    rw [e] at this
    have r := MSCH_agree block _ ii n this (by omega)
    have e2 : ii + n + 16 + 1 = ii + 16 + (n + 1) := by omega
    rw [e2] at r
    exact r

theorem msch16_agree (block : Bytes) (W : Array UInt64) (ii : Nat) (h : Wagree block W (ii + 16))
    (hb : ii + 32 ≤ 80) : Wagree block (msch16 W ii) (ii + 32) := by
  rw [msch16_eq]
  exact mschN_agree block W ii h 16 (by omega)

/-! #### RNDr: one round on the rotated view -/

/-- the working variables (a, …, h) as round `i` sees them -/
def view (S : Array UInt64) (i : Nat) : Array UInt64 :=
  #[S.getD ((80 - i) % 8) 0, S.getD ((81 - i) % 8) 0, S.getD ((82 - i) % 8) 0, S.getD ((83 - i) % 8) 0,
    S.getD ((84 - i) % 8) 0, S.getD ((85 - i) % 8) 0, S.getD ((86 - i) % 8) 0, S.getD ((87 - i) % 8) 0]

theorem rnd_arith (h s1 ch k w : UInt64) : h + (s1 + ch + w + k) = h + s1 + ch + k + w := by ac_rfl

theorem RNDr_size (S W : Array UInt64) (i ii : Nat) : (RNDr S W i ii).size = S.size := by
  simp [RNDr]

theorem RNDr_view (S W w : Array UInt64) (i ii : Nat) (hS : S.size = 8) (hi : i < 16)
    (hW : W.getD (i + ii) 0 = w.getD (i + ii) 0) :
    view (RNDr S W i ii) (i + 1) = Spec.Sha512.round w (view S i) (i + ii) := by
  have : i = 0 ∨ i = 1 ∨ i = 2 ∨ i = 3 ∨ i = 4 ∨ i = 5 ∨ i = 6 ∨ i = 7 ∨ i = 8 ∨ i = 9 ∨ i = 10 ∨ i = 11
      ∨ i = 12 ∨ i = 13 ∨ i = 14 ∨ i = 15 := by omega
  rcases this with rfl | rfl | rfl | rfl | rfl | rfl | rfl | rfl | rfl | rfl | rfl | rfl | rfl | rfl | rfl | rfl
  all_goals
    simp only [Array.getD_eq_getD_getElem?, Nat.zero_add] at hW
    simp [RNDr, view, Spec.Sha512.round, hS, S0_eq, S1_eq, Ch_eq, Maj_eq, Krnd_eq, hW]
    exact rnd_arith ..

def rndN (S W : Array UInt64) (ii n : Nat) : Array UInt64 :=
  (List.range n).foldl (fun S i => RNDr S W i ii) S

theorem rnd16_eq (S W : Array UInt64) (ii : Nat) : rnd16 S W ii = rndN S W ii 16 := by
  simp only [rndN, range16, List.foldl_cons, List.foldl_nil, rnd16]

theorem rndN_view (S W w : Array UInt64) (ii : Nat) (hS : S.size = 8) :
    ∀ n, n ≤ 16 → (∀ i, i < n → W.getD (i + ii) 0 = w.getD (i + ii) 0) →
      (rndN S W ii n).size = 8 ∧
      view (rndN S W ii n) n = (List.range' ii n).foldl (Spec.Sha512.round w) (view S 0) := by
  intro n
  induction n with
  | zero => intro _ _; exact ⟨hS, rfl⟩
  | succ n ih =>
    intro hn hW
    obtain ⟨h1, h2⟩ := ih (by omega) (fun i hi => hW i (by omega))
    have e : rndN S W ii (n + 1) = RNDr (rndN S W ii n) W n ii := by
      simp [rndN, List.range_succ, List.foldl_append]
    rw [e]
    refine ⟨by rw [RNDr_size, h1], ?_⟩
    rw [RNDr_view _ W w n ii h1 (by omega) (hW n (by omega)), h2, List.range'_1_concat, List.foldl_append,
      Nat.add_comm n ii]
    rfl

theorem view_zero (S : Array UInt64) (hS : S.size = 8) : view S 0 = S := by
  apply arr_ext_getD 0
  · simp [view, hS]
  · intro j hj
    have hj : j < 8 := by simpa [view] using hj
    revert j
    apply lt8_cases <;> simp [view, hS]

theorem view_16 (S : Array UInt64) : view S 16 = view S 0 := rfl

/-- sixteen `RNDr` (one loop body) are sixteen rounds of the specification -/
theorem rnd16_spec (block : Bytes) (S W : Array UInt64) (ii : Nat) (hS : S.size = 8)
    (hW : Wagree block W (ii + 16)) :
    (rnd16 S W ii).size = 8 ∧
    rnd16 S W ii = (List.range' ii 16).foldl (Spec.Sha512.round (Spec.Sha512.schedule block)) S := by
  obtain ⟨h1, h2⟩ := rndN_view S W (Spec.Sha512.schedule block) ii hS 16 (by omega)
    (fun i hi => hW.2 (i + ii) (by omega))
  rw [rnd16_eq]
  refine ⟨h1, ?_⟩
  rw [view_16, view_zero _ h1, view_zero _ hS] at h2
  exact h2

/-! #### the whole transform -/

theorem memcpy8_eq (S state : Array UInt64) (hS : S.size = 8) (hst : state.size = 8) :
    memcpy8 S state = state := by
  have hsz : (memcpy8 S state).size = 8 := by simp [memcpy8, List.range_succ, hS]
  apply arr_ext_getD 0
  · rw [hsz, hst]
  · rw [hsz]
    apply lt8_cases <;> simp [memcpy8, List.range_succ, hS]

theorem addState_eq (S state : Array UInt64) (hst : state.size = 8) :
    addState_loop S 8 0 state = (Array.range 8).map fun j => S.getD j 0 + state.getD j 0 := by
  have hsz : (addState_loop S 8 0 state).size = 8 := by simp [addState_loop, hst]
  apply arr_ext_getD 0
  · simp [hsz]
  · rw [hsz]
    apply lt8_cases <;>
      simp [addState_loop, hst, UInt64.add_comm]

theorem range80_split : List.range 80 =
    List.range' 0 16 ++ (List.range' 16 16 ++ (List.range' 32 16 ++ (List.range' 48 16 ++ List.range' 64 16))) := by
  decide

theorem mainLoop_unfold (S0 W0 : Array UInt64) : mainLoop 5 0 S0 W0 =
    (rnd16 (rnd16 (rnd16 (rnd16 (rnd16 S0 W0 0) (msch16 W0 0) 16) (msch16 (msch16 W0 0) 16) 32)
        (msch16 (msch16 (msch16 W0 0) 16) 32) 48) (msch16 (msch16 (msch16 (msch16 W0 0) 16) 32) 48) 64,
      msch16 (msch16 (msch16 (msch16 W0 0) 16) 32) 48) := by
  simp [mainLoop]

theorem transform_eq (state : Array UInt64) (block : Bytes) (W S : Array UInt64)
    (hst : state.size = 8) (hW : W.size = 80) (hS : S.size = 8) :
    (SHA512_Transform state block.toArray W S).1 = Spec.Sha512.compress state block := by
  have a0 := be64dec_agree block W hW
  have hm := memcpy8_eq S state hS hst
  simp only [SHA512_Transform, hm, mainLoop_unfold]
  generalize be64dec_vect W block.toArray 128 = W0 at a0 ⊢
  obtain ⟨z1, r1⟩ := rnd16_spec block state W0 0 hst a0
  have a1 := msch16_agree block W0 0 a0 (by omega)
  obtain ⟨z2, r2⟩ := rnd16_spec block (rnd16 state W0 0) (msch16 W0 0) 16 z1 a1
  have a2 := msch16_agree block (msch16 W0 0) 16 a1 (by omega)
  obtain ⟨z3, r3⟩ := rnd16_spec block _ (msch16 (msch16 W0 0) 16) 32 z2 a2
  have a3 := msch16_agree block (msch16 (msch16 W0 0) 16) 32 a2 (by omega)
  obtain ⟨z4, r4⟩ := rnd16_spec block _ (msch16 (msch16 (msch16 W0 0) 16) 32) 48 z3 a3
  have a4 := msch16_agree block (msch16 (msch16 (msch16 W0 0) 16) 32) 48 a3 (by omega)
  obtain ⟨_, r5⟩ := rnd16_spec block _ (msch16 (msch16 (msch16 (msch16 W0 0) 16) 32) 48) 64 z4 a4
  rw [addState_eq _ _ hst, r5, r4, r3, r2, r1]
  simp only [Spec.Sha512.compress, range80_split, List.foldl_append]

end S512

/-! ### BLAKE2b -/
namespace B2
open Sodium.Model.CompressRef.Blake2b
set_option linter.unusedSimpArgs false

theorem lt16_cases {P : Nat → Prop} (h0 : P 0) (h1 : P 1) (h2 : P 2) (h3 : P 3) (h4 : P 4) (h5 : P 5)
    (h6 : P 6) (h7 : P 7) (h8 : P 8) (h9 : P 9) (h10 : P 10) (h11 : P 11) (h12 : P 12) (h13 : P 13)
    (h14 : P 14) (h15 : P 15) : ∀ j, j < 16 → P j := by
  intro j hj
  have : j = 0 ∨ j = 1 ∨ j = 2 ∨ j = 3 ∨ j = 4 ∨ j = 5 ∨ j = 6 ∨ j = 7 ∨ j = 8 ∨ j = 9 ∨ j = 10
      ∨ j = 11 ∨ j = 12 ∨ j = 13 ∨ j = 14 ∨ j = 15 := by omega
  rcases this with rfl | rfl | rfl | rfl | rfl | rfl | rfl | rfl | rfl | rfl | rfl | rfl | rfl | rfl | rfl | rfl <;>
    assumption

theorem rotr_eq (x n : UInt64) : rotr64 x n = Spec.Blake2b.rotr x n := rfl

/-- the transcribed IV is the specification's -/
theorem IV_eq : blake2b_IV = Spec.Blake2b.ivWords := by decide

/-- the 12 × 16 table `blake2b_sigma` is SIGMA[r mod 10] of the specification -/
theorem sigma_eq : ∀ r, r < 12 → ∀ k, k < 16 →
    sigmaAt r k = ((Spec.Blake2b.sigma.getD (r % 10) #[]).getD k 0) := by decide

theorem specG_size (v : Array UInt64) (a b c d : Nat) (x y : UInt64) :
    (Spec.Blake2b.G v a b c d x y).size = v.size := by simp [Spec.Blake2b.G]

/-- the macro G (sequential in-place updates of four distinct in-range lvalues) is the
    specification's G (read four, compute, write four) -/
theorem G_eq (m v : Array UInt64) (r i a b c d : Nat) (hv : v.size = 16)
    (ha : a < 16) (hb : b < 16) (hc : c < 16) (hd : d < 16)
    (hab : a ≠ b) (hac : a ≠ c) (had : a ≠ d) (hbc : b ≠ c) (hbd : b ≠ d) (hcd : c ≠ d) :
    G m v r i a b c d
      = Spec.Blake2b.G v a b c d (m.getD (sigmaAt r (2 * i + 0)) 0) (m.getD (sigmaAt r (2 * i + 1)) 0) := by
  apply arr_ext_getD 0
  · simp [G, Spec.Blake2b.G]
  · intro j hj
    simp only [G, Spec.Blake2b.G, getD_set, Array.size_setIfInBounds, hv, rotr_eq]
    generalize m.getD (sigmaAt r (2 * i + 0)) 0 = x
    generalize m.getD (sigmaAt r (2 * i + 1)) 0 = y
    by_cases h1 : a = j
    · subst h1
      simp [ha, hb, hc, hd, hab, hac, had, hbc, hbd, hcd, Ne.symm hab, Ne.symm hac, Ne.symm had,
        Ne.symm hbc, Ne.symm hbd, Ne.symm hcd, UInt64.add_assoc]
    · by_cases h2 : b = j
      · subst h2
        simp [ha, hb, hc, hd, hab, hac, had, hbc, hbd, hcd, Ne.symm hab, Ne.symm hac, Ne.symm had,
          Ne.symm hbc, Ne.symm hbd, Ne.symm hcd, UInt64.add_assoc]
      · by_cases h3 : c = j
        · subst h3
          simp [ha, hb, hc, hd, hab, hac, had, hbc, hbd, hcd, Ne.symm hab, Ne.symm hac, Ne.symm had,
            Ne.symm hbc, Ne.symm hbd, Ne.symm hcd, UInt64.add_assoc]
        · by_cases h4 : d = j
          · subst h4
            simp [ha, hb, hc, hd, hab, hac, had, hbc, hbd, hcd, Ne.symm hab, Ne.symm hac, Ne.symm had,
              Ne.symm hbc, Ne.symm hbd, Ne.symm hcd, UInt64.add_assoc]
          · simp [ha, hb, hc, hd, hab, hac, had, hbc, hbd, hcd, Ne.symm hab, Ne.symm hac, Ne.symm had,
              Ne.symm hbc, Ne.symm hbd, Ne.symm hcd, h1, h2, h3, h4]

theorem specRound_size (m v : Array UInt64) (r : Nat) : (Spec.Blake2b.round m v r).size = v.size := by
  simp [Spec.Blake2b.round, specG_size]

/-- the macro ROUND(r) is one round of the specification's F -/
theorem ROUND_eq (m v : Array UInt64) (r : Nat) (hr : r < 12) (hv : v.size = 16) :
    ROUND m v r = Spec.Blake2b.round m v r := by
  unfold ROUND Spec.Blake2b.round
  simp only []
  rw [G_eq m v r 0 0 4 8 12 hv (by decide) (by decide) (by decide) (by decide) (by decide) (by decide)
    (by decide) (by decide) (by decide) (by decide)]
  rw [G_eq m _ r 1 1 5 9 13 (by simp [specG_size, hv]) (by decide) (by decide) (by decide) (by decide)
    (by decide) (by decide) (by decide) (by decide) (by decide) (by decide)]
  rw [G_eq m _ r 2 2 6 10 14 (by simp [specG_size, hv]) (by decide) (by decide) (by decide) (by decide)
    (by decide) (by decide) (by decide) (by decide) (by decide) (by decide)]
  rw [G_eq m _ r 3 3 7 11 15 (by simp [specG_size, hv]) (by decide) (by decide) (by decide) (by decide)
    (by decide) (by decide) (by decide) (by decide) (by decide) (by decide)]
  rw [G_eq m _ r 4 0 5 10 15 (by simp [specG_size, hv]) (by decide) (by decide) (by decide) (by decide)
    (by decide) (by decide) (by decide) (by decide) (by decide) (by decide)]
  rw [G_eq m _ r 5 1 6 11 12 (by simp [specG_size, hv]) (by decide) (by decide) (by decide) (by decide)
    (by decide) (by decide) (by decide) (by decide) (by decide) (by decide)]
  rw [G_eq m _ r 6 2 7 8 13 (by simp [specG_size, hv]) (by decide) (by decide) (by decide) (by decide)
    (by decide) (by decide) (by decide) (by decide) (by decide) (by decide)]
  rw [G_eq m _ r 7 3 4 9 14 (by simp [specG_size, hv]) (by decide) (by decide) (by decide) (by decide)
    (by decide) (by decide) (by decide) (by decide) (by decide) (by decide)]
  simp only [Nat.reduceMul, Nat.reduceAdd,
    sigma_eq r hr 0 (by decide), sigma_eq r hr 1 (by decide), sigma_eq r hr 2 (by decide),
    sigma_eq r hr 3 (by decide), sigma_eq r hr 4 (by decide), sigma_eq r hr 5 (by decide),
    sigma_eq r hr 6 (by decide), sigma_eq r hr 7 (by decide), sigma_eq r hr 8 (by decide),
    sigma_eq r hr 9 (by decide), sigma_eq r hr 10 (by decide), sigma_eq r hr 11 (by decide),
    sigma_eq r hr 12 (by decide), sigma_eq r hr 13 (by decide), sigma_eq r hr 14 (by decide),
    sigma_eq r hr 15 (by decide)]

theorem range12 : List.range 12 = [0, 1, 2, 3, 4, 5, 6, 7, 8, 9, 10, 11] := by decide

theorem rounds_eq (m v : Array UInt64) (hv : v.size = 16) :
    ROUND m (ROUND m (ROUND m (ROUND m (ROUND m (ROUND m (ROUND m (ROUND m (ROUND m (ROUND m (ROUND m
      (ROUND m v 0) 1) 2) 3) 4) 5) 6) 7) 8) 9) 10) 11 = (List.range 12).foldl (Spec.Blake2b.round m) v := by
  rw [range12]
  simp only [List.foldl_cons, List.foldl_nil]
  rw [ROUND_eq m v 0 (by decide) hv]
  rw [ROUND_eq m _ 1 (by decide) (by simp [specRound_size, hv])]
  rw [ROUND_eq m _ 2 (by decide) (by simp [specRound_size, hv])]
  rw [ROUND_eq m _ 3 (by decide) (by simp [specRound_size, hv])]
  rw [ROUND_eq m _ 4 (by decide) (by simp [specRound_size, hv])]
  rw [ROUND_eq m _ 5 (by decide) (by simp [specRound_size, hv])]
  rw [ROUND_eq m _ 6 (by decide) (by simp [specRound_size, hv])]
  rw [ROUND_eq m _ 7 (by decide) (by simp [specRound_size, hv])]
  rw [ROUND_eq m _ 8 (by decide) (by simp [specRound_size, hv])]
  rw [ROUND_eq m _ 9 (by decide) (by simp [specRound_size, hv])]
  rw [ROUND_eq m _ 10 (by decide) (by simp [specRound_size, hv])]
  rw [ROUND_eq m _ 11 (by decide) (by simp [specRound_size, hv])]

/-- the `LOAD64_LE` loop -/
def loadM (block : Array UInt8) : Array UInt64 :=
  (List.range 16).foldl (fun m i => m.setIfInBounds i (load64_le block (i * 8))) (Array.replicate 16 0)

theorem loadM_eq (block : Array UInt8) :
    loadM block = (Array.range 16).map fun i => Spec.Blake2b.load64le block (8 * i) := by
  have hsz : (loadM block).size = 16 := by simp [loadM, S256.range16]
  apply arr_ext_getD 0
  · simp [hsz]
  · rw [hsz]
    apply lt16_cases <;> simp [loadM, S256.range16, getD_set, load64_le_eq]

/-- the initialisation of `v[0..15]` -/
def initV (h t f : Array UInt64) : Array UInt64 :=
  let v := (List.range 8).foldl (fun v i => v.setIfInBounds i (h.getD i 0)) (Array.replicate 16 0)
  let v := v.setIfInBounds 8 (blake2b_IV.getD 0 0)
  let v := v.setIfInBounds 9 (blake2b_IV.getD 1 0)
  let v := v.setIfInBounds 10 (blake2b_IV.getD 2 0)
  let v := v.setIfInBounds 11 (blake2b_IV.getD 3 0)
  let v := v.setIfInBounds 12 (t.getD 0 0 ^^^ blake2b_IV.getD 4 0)
  let v := v.setIfInBounds 13 (t.getD 1 0 ^^^ blake2b_IV.getD 5 0)
  let v := v.setIfInBounds 14 (f.getD 0 0 ^^^ blake2b_IV.getD 6 0)
  let v := v.setIfInBounds 15 (f.getD 1 0 ^^^ blake2b_IV.getD 7 0)
  v

/-- the specification's `v` before the rounds -/
def specV (h : Array UInt64) (t : Nat) (last : Bool) : Array UInt64 :=
  let v : Array UInt64 := (Array.range 16).map fun i =>
    if i < 8 then h.getD i 0 else Spec.Blake2b.ivWords.getD (i - 8) 0
  let v := v.setIfInBounds 12 (v.getD 12 0 ^^^ UInt64.ofNat (t % 2 ^ 64))
  let v := v.setIfInBounds 13 (v.getD 13 0 ^^^ UInt64.ofNat (t / 2 ^ 64))
  if last then v.setIfInBounds 14 (v.getD 14 0 ^^^ 0xFFFFFFFFFFFFFFFF) else v

theorem specV_size (h : Array UInt64) (t : Nat) (last : Bool) : (specV h t last).size = 16 := by
  cases last <;> simp [specV]

theorem initV_eq (h : Array UInt64) (t : Nat) (last : Bool) :
    initV h (tWords t) (fWords last) = specV h t last := by
  have hsz : (initV h (tWords t) (fWords last)).size = 16 := by simp [initV, range8]
  have m1 : (0 - 1 : UInt64) = 0xFFFFFFFFFFFFFFFF := by decide
  apply arr_ext_getD 0
  · rw [hsz, specV_size]
  · rw [hsz]
    cases last <;>
    apply lt16_cases <;>
      simp [initV, specV, range8, getD_set, tWords, fWords, blake2b_set_lastblock, IV_eq, m1, UInt64.xor_comm]

theorem finalH_eq (h v : Array UInt64) (hh : h.size = 8) :
    (List.range 8).foldl (fun h i => h.setIfInBounds i (h.getD i 0 ^^^ v.getD i 0 ^^^ v.getD (i + 8) 0)) h
      = (Array.range 8).map fun i => h.getD i 0 ^^^ v.getD i 0 ^^^ v.getD (i + 8) 0 := by
  have hsz : ((List.range 8).foldl (fun h i => h.setIfInBounds i
      (h.getD i 0 ^^^ v.getD i 0 ^^^ v.getD (i + 8) 0)) h).size = 8 := by simp [range8, hh]
  apply arr_ext_getD 0
  · simp [range8, hh]
  · rw [hsz]
    apply lt8_cases <;> simp [range8, getD_set, hh]

theorem compress_eq (h : Array UInt64) (block : Bytes) (t : Nat) (last : Bool) (hh : h.size = 8) :
    blake2b_compress_ref h (tWords t) (fWords last) block.toArray = Spec.Blake2b.compress h block t last := by
  have e1 := loadM_eq block.toArray
  have e2 := initV_eq h t last
  unfold loadM at e1
  unfold initV at e2
  simp only [] at e2
  unfold blake2b_compress_ref
  simp only []
  rw [e1, e2, rounds_eq _ _ (specV_size h t last), finalH_eq _ _ hh]
  rfl

/-- `blake2b_increment_counter` (portable branch: add, then carry `t[0] < inc` into `t[1]`)
    adds `inc` to the 128-bit counter held in the two words -/
theorem increment_counter_eq (T : Nat) (inc : UInt64) :
    blake2b_increment_counter (tWords T) inc = tWords (T + inc.toNat) := by
  have hi := inc.toNat_lt
  simp only [blake2b_increment_counter, tWords]
  simp [getD_set]
  constructor
  · apply UInt64.toNat_inj.mp
    simp [UInt64.toNat_add, UInt64.toNat_ofNat']
  · apply UInt64.toNat_inj.mp
    by_cases h : UInt64.ofNat (T % 18446744073709551616) + inc < inc
    · rw [if_pos h]
      rw [UInt64.lt_iff_toNat_lt] at h
      simp [UInt64.toNat_add, UInt64.toNat_ofNat'] at h ⊢
      omega
    · rw [if_neg h]
      rw [UInt64.lt_iff_toNat_lt] at h
      simp [UInt64.toNat_add, UInt64.toNat_ofNat'] at h ⊢
      omega

/-- the `HAVE_TI_MODE` branch (`uint128_t` arithmetic) does the same -/
theorem increment_counter_ti_eq (T : Nat) (inc : UInt64) :
    blake2b_increment_counter_ti (tWords T) inc = tWords (T + inc.toNat) := by
  have hi := inc.toNat_lt
  simp only [blake2b_increment_counter_ti, tWords]
  simp [getD_set]
  have hlt : T % 18446744073709551616 < 2 ^ 64 := by omega
  have hx : (T / 18446744073709551616 % 18446744073709551616) <<< 64
      < 340282366920938463463374607431768211456 := by
    rw [Nat.shiftLeft_eq]; omega
  rw [Nat.mod_eq_of_lt hx, ← Nat.shiftLeft_add_eq_or_of_lt hlt, Nat.shiftLeft_eq]
  constructor
  · apply UInt64.toNat_inj.mp
    simp [UInt64.toNat_ofNat']
    omega
  · apply UInt64.toNat_inj.mp
    simp [UInt64.toNat_ofNat', Nat.shiftRight_eq_div_pow]
    omega

end B2

/-! ### SipHash-2-4 -/
namespace Sip
open Sodium.Model.CompressRef.SipHash

def toSpec (s : V) : Spec.SipHash.State := ⟨s.v0, s.v1, s.v2, s.v3⟩

theorem SIPROUND_eq (s : V) : toSpec (SIPROUND s) = Spec.SipHash.sipRound (toSpec s) := rfl

/-- Horner form of a little-endian load -/
def horner : Bytes → UInt64
  | [] => 0
  | b :: l => (horner l <<< 8) ||| b.toUInt64

theorem le_zeros (k : Nat) : le (zeros k) = 0 := by
  induction k with
  | zero => rfl
  | succ k ih => show le (0 :: zeros k) = 0; simp [le, ih]

theorem le_append_zeros (l : Bytes) (k : Nat) : le (l ++ zeros k) = le l := by
  induction l with
  | nil => rw [List.nil_append, le_zeros]; rfl
  | cons a l ih => simp [le, ih]

theorem horner_spec : ∀ l : Bytes, l.length ≤ 8 → (horner l).toNat = le l ∧ le l < 256 ^ l.length := by
  intro l
  induction l with
  | nil => intro _; simp [horner, le]
  | cons b l ih =>
    intro h
    simp only [List.length_cons] at h
    obtain ⟨h1, h2⟩ := ih (by omega)
    have hb := b.toNat_lt
    have hp : (256:Nat) ^ l.length ≤ 256 ^ 7 := Nat.pow_le_pow_right (by decide) (by omega)
    have hlt : b.toNat < 2 ^ 8 := by omega
    constructor
    · simp only [horner, le, UInt64.toNat_or, UInt64.toNat_shiftLeft, UInt8.toNat_toUInt64, h1]
      have : (8 : UInt64).toNat % 64 = 8 := by decide
      rw [this, Nat.mod_eq_of_lt (by rw [Nat.shiftLeft_eq]; omega),
        ← Nat.shiftLeft_add_eq_or_of_lt hlt, Nat.shiftLeft_eq]
      omega
    · simp only [le, List.length_cons, Nat.pow_succ]
      omega

theorem getD_list_eq (l : Bytes) : ∀ n, (List.range n).map (fun j => l.getD j 0) = (l ++ zeros n).take n := by
  intro n
  induction n generalizing l with
  | zero => simp
  | succ n ih =>
    cases l with
    | nil =>
      simp only [List.nil_append, zeros, List.getD_nil]
      rw [List.take_of_length_le (by simp)]
      exact (List.eq_replicate_iff.mpr ⟨by simp, by simp⟩)
    | cons a l =>
      rw [List.range_succ_eq_map, List.map_cons, List.map_map]
      simp only [List.cons_append, List.take_succ_cons, List.getD_cons_zero]
      congr 1
      have := ih l
      have e : (zeros (n + 1)) = zeros n ++ [0] := by simp [zeros, List.replicate_succ']
      rw [e, ← List.append_assoc, List.take_append_of_le_length (by simp [zeros])]
      rw [← this]
      apply List.map_congr_left
      intro j _
      simp

theorem load64_le_eq_spec (msg : Bytes) (off : Nat) :
    load64_le msg.toArray off = Spec.SipHash.load64le (msg.drop off) := by
  have h1 : load64_le msg.toArray off = horner ((List.range 8).map (fun j => (msg.drop off).getD j 0)) := by
    rw [load64_le_eq]
    simp [Spec.Blake2b.load64le, range8, horner, List.getD_eq_getElem?_getD]
  rw [h1, getD_list_eq]
  have hl : ((msg.drop off ++ zeros 8).take 8).length ≤ 8 := by rw [List.length_take]; omega
  apply UInt64.toNat_inj.mp
  rw [(horner_spec _ hl).1]
  generalize msg.drop off = r
  have hl2 : (r.take 8).length ≤ 8 := by rw [List.length_take]; omega
  have hb := (horner_spec _ hl2).2
  have hp : (256:Nat) ^ (r.take 8).length ≤ 256 ^ 8 := Nat.pow_le_pow_right (by decide) hl2
  rw [List.take_append, zeros, List.take_replicate]
  show le (List.take 8 r ++ zeros _) = _
  rw [le_append_zeros, Spec.SipHash.load64le, UInt64.toNat_ofNat', Nat.mod_eq_of_lt (by omega)]

/-- the loop body on the variables -/
def stepV (s : V) (m : UInt64) : V :=
  let s := { s with v3 := s.v3 ^^^ m }
  let s := SIPROUND s
  let s := SIPROUND s
  { s with v0 := s.v0 ^^^ m }

theorem stepV_spec (s : V) (m : UInt64) : toSpec (stepV s m) = Spec.SipHash.compress (toSpec s) m := rfl

theorem wordsAux_succ (F : Nat) (m : Bytes) : Spec.SipHash.wordsAux (F + 1) m =
    if m.isEmpty then [] else Spec.SipHash.load64le m :: Spec.SipHash.wordsAux F (m.drop 8) := rfl

theorem wordsAux_nil (F : Nat) : Spec.SipHash.wordsAux F [] = [] := by
  cases F <;> rfl

theorem loop_words (msg suffix : Bytes) (k : Nat) (hk : k < 8) (hs : suffix.length = 8 - k) :
    ∀ n off s F fuel, msg.length = off + 8 * n + k → n ≤ fuel → n + 1 ≤ F →
      (Spec.SipHash.wordsAux F (msg.drop off ++ suffix)).foldl Spec.SipHash.compress (toSpec s)
        = Spec.SipHash.compress (toSpec (loop msg.toArray (off + 8 * n) fuel off s).1)
            (Spec.SipHash.load64le (msg.drop (off + 8 * n) ++ suffix))
      ∧ (loop msg.toArray (off + 8 * n) fuel off s).2 = off + 8 * n := by
  intro n
  induction n with
  | zero =>
    intro off s F fuel hl _ hF
    have hloop : loop msg.toArray (off + 8 * 0) fuel off s = (s, off) := by
      cases fuel <;> simp [loop]
    rw [hloop]
    obtain ⟨F', rfl⟩ : ∃ F', F = F' + 1 := ⟨F - 1, by omega⟩
    have hlen : (msg.drop off ++ suffix).length = 8 := by simp; omega
    have hne : (msg.drop off ++ suffix).isEmpty = false := by
      cases h : (msg.drop off ++ suffix) with
      | nil => rw [h] at hlen; simp at hlen
      | cons a l => rfl
    have hd : (msg.drop off ++ suffix).drop 8 = [] := List.drop_of_length_le (by omega)
    rw [wordsAux_succ, hne, hd, wordsAux_nil]
    simp
  | succ n ih =>
    intro off s F fuel hl hfu hF
    obtain ⟨F', rfl⟩ : ∃ F', F = F' + 1 := ⟨F - 1, by omega⟩
    obtain ⟨fuel', rfl⟩ : ∃ f', fuel = f' + 1 := ⟨fuel - 1, by omega⟩
    have hne' : off ≠ off + 8 * (n + 1) := by omega
    have hrl : 8 ≤ (msg.drop off).length := by simp; omega
    have hne : (msg.drop off ++ suffix).isEmpty = false := by
      cases h : (msg.drop off ++ suffix) with
      | nil => have := congrArg List.length h; simp at this; omega
      | cons a l => rfl
    have hw : Spec.SipHash.load64le (msg.drop off ++ suffix) = load64_le msg.toArray off := by
      rw [load64_le_eq_spec]
      simp only [Spec.SipHash.load64le]
      rw [List.take_append_of_le_length hrl]
    have hd : (msg.drop off ++ suffix).drop 8 = msg.drop (off + 8) ++ suffix := by
      rw [List.drop_append_of_le_length hrl, List.drop_drop]
    have e : off + 8 * (n + 1) = off + 8 + 8 * n := by omega
    rw [wordsAux_succ, hne, hd, hw]
    simp only [Bool.false_eq_true, if_false, List.foldl_cons, loop, hne', ne_eq, not_false_eq_true, if_true]
    rw [e]
    have := ih (off + 8) (stepV s (load64_le msg.toArray off)) F' fuel' (by omega) (by omega) (by omega)
    rw [stepV_spec] at this
    exact this

theorem getD_toArray_drop (msg : Bytes) (off j : Nat) :
    msg.toArray.getD (off + j) 0 = (msg.drop off).getD j 0 := by
  simp [Array.getD_eq_getD_getElem?, List.getD_eq_getElem?_getD]

theorem lenbyte_shift (len : Nat) :
    (UInt8.ofNat (len % 256)).toUInt64 <<< 56 = UInt64.ofNat len <<< 56 := by
  apply UInt64.toNat_inj.mp
  have : (56 : UInt64).toNat % 64 = 56 := by decide
  simp only [UInt64.toNat_shiftLeft, UInt8.toNat_toUInt64, UInt8.toNat_ofNat', UInt64.toNat_ofNat', this,
    Nat.shiftLeft_eq]
  omega

theorem horner_load (l : Bytes) (h : l.length = 8) : Spec.SipHash.load64le l = horner l := by
  apply UInt64.toNat_inj.mp
  have hs := horner_spec l (by omega)
  rw [hs.1, Spec.SipHash.load64le, List.take_of_length_le (by omega), UInt64.toNat_ofNat',
    Nat.mod_eq_of_lt]
  have := hs.2
  rw [h] at this
  exact this

theorem tail_eq (msg : Bytes) (off left len : Nat) (hr : (msg.drop off).length = left) (hl : left < 8) :
    tail msg.toArray off left (UInt64.ofNat len <<< 56)
      = Spec.SipHash.load64le (msg.drop off ++ zeros (7 - left) ++ [UInt8.ofNat (len % 256)]) := by
  rw [horner_load _ (by rw [List.length_append, List.length_append, hr]; simp [zeros]; omega)]
  unfold tail
  simp only [getD_toArray_drop]
  generalize msg.drop off = r at hr
  rcases r with _ | ⟨a0, _ | ⟨a1, _ | ⟨a2, _ | ⟨a3, _ | ⟨a4, _ | ⟨a5, _ | ⟨a6, _ | ⟨a7, r⟩⟩⟩⟩⟩⟩⟩⟩ <;>
    simp only [List.length_cons, List.length_nil] at hr <;> (try omega) <;> subst hr <;>
    simp [horner, zeros, List.replicate, UInt64.shiftLeft_or, shl64_8_8, shl64_16_8, shl64_24_8, shl64_32_8,
      shl64_40_8, shl64_48_8, lenbyte_shift]

theorem store64_le_eq (w : UInt64) : (store64_le w).toList = toLE 8 w.toNat := by
  have h8 : (8 : UInt64).toNat % 64 = 8 := by decide
  simp only [store64_le, toLE, List.cons.injEq, and_true]
  refine ⟨?_, ?_, ?_, ?_, ?_, ?_, ?_, ?_⟩ <;> apply UInt8.toNat_inj.mp <;>
    simp only [UInt64.toNat_toUInt8, UInt64.toNat_shiftRight, UInt8.toNat_ofNat', h8, Nat.shiftRight_eq_div_pow] <;>
    omega

theorem absorb_eq (c1 : UInt64) (msg key : Bytes) (hlen : msg.length < 2 ^ 64) :
    toSpec (absorb c1 msg.toArray (UInt64.ofNat msg.length) key.toArray)
      = (Spec.SipHash.words msg).foldl Spec.SipHash.compress
          (toSpec ⟨0x736f6d6570736575 ^^^ Spec.SipHash.load64le key, c1 ^^^ Spec.SipHash.load64le (key.drop 8),
           0x6c7967656e657261 ^^^ Spec.SipHash.load64le key,
           0x7465646279746573 ^^^ Spec.SipHash.load64le (key.drop 8)⟩) := by
  have hn : (UInt64.ofNat msg.length).toNat = msg.length := by
    rw [UInt64.toNat_ofNat', Nat.mod_eq_of_lt hlen]
  have hm : (UInt64.ofNat msg.length % 8).toNat = msg.length % 8 := by
    rw [UInt64.toNat_mod, hn]; rfl
  have ha : (UInt64.ofNat msg.length &&& 7).toNat = msg.length % 8 := by
    rw [UInt64.toNat_and, hn]
    exact Nat.and_two_pow_sub_one_eq_mod msg.length 3
  have hk0 : load64_le key.toArray 0 = Spec.SipHash.load64le key := by
    rw [load64_le_eq_spec]; rfl
  have hk8 : load64_le key.toArray 8 = Spec.SipHash.load64le (key.drop 8) := load64_le_eq_spec key 8
  have he : msg.length - msg.length % 8 = 0 + 8 * (msg.length / 8) := by omega
  have lw := loop_words msg (zeros (7 - msg.length % 8) ++ [UInt8.ofNat (msg.length % 256)]) (msg.length % 8)
    (by omega) (by simp [zeros]; omega) (msg.length / 8) 0
    ⟨0x736f6d6570736575 ^^^ Spec.SipHash.load64le key, c1 ^^^ Spec.SipHash.load64le (key.drop 8),
     0x6c7967656e657261 ^^^ Spec.SipHash.load64le key, 0x7465646279746573 ^^^ Spec.SipHash.load64le (key.drop 8)⟩
    (msg ++ zeros (7 - msg.length % 8) ++ [UInt8.ofNat (msg.length % 256)]).length (msg.length / 8 + 1)
    (by omega) (by omega) (by simp [zeros]; omega)
  have ht := tail_eq msg (0 + 8 * (msg.length / 8)) (msg.length % 8) msg.length (by simp; omega) (by omega)
  unfold absorb
  simp only [hn, hm, ha, hk0, hk8, he]
  generalize loop msg.toArray (0 + 8 * (msg.length / 8)) (msg.length / 8 + 1) 0 _ = L at lw ⊢
  obtain ⟨s', off'⟩ := L
  obtain ⟨lw1, lw2⟩ := lw
  simp only at lw1 lw2 ⊢
  subst lw2
  rw [ht]
  unfold Spec.SipHash.words
  simp only [List.drop_zero, List.append_assoc] at lw1 ⊢
  rw [lw1]
  rfl

theorem fin4 (s : V) : toSpec (SIPROUND (SIPROUND (SIPROUND (SIPROUND s)))) = Spec.SipHash.finalRounds (toSpec s) := rfl

theorem siphash24_eq (msg key : Bytes) (hlen : msg.length < 2 ^ 64) :
    (crypto_shorthash_siphash24 msg.toArray (UInt64.ofNat msg.length) key.toArray).toList
      = Spec.SipHash.siphash24 key msg := by
  have ab := absorb_eq 0x646f72616e646f6d msg key hlen
  have hi : toSpec ⟨0x736f6d6570736575 ^^^ Spec.SipHash.load64le key,
      0x646f72616e646f6d ^^^ Spec.SipHash.load64le (key.drop 8),
      0x6c7967656e657261 ^^^ Spec.SipHash.load64le key,
      0x7465646279746573 ^^^ Spec.SipHash.load64le (key.drop 8)⟩ = Spec.SipHash.init key := by
    simp only [toSpec, Spec.SipHash.init, UInt64.xor_comm]
  rw [hi] at ab
  unfold crypto_shorthash_siphash24 Spec.SipHash.siphash24
  simp only [store64_le_eq, Spec.SipHash.output]
  rw [← ab]
  generalize absorb 0x646f72616e646f6d msg.toArray (UInt64.ofNat msg.length) key.toArray = A
  have hB := fin4 { A with v2 := A.v2 ^^^ 0xff }
  generalize SIPROUND (SIPROUND (SIPROUND (SIPROUND { A with v2 := A.v2 ^^^ 0xff }))) = B at hB ⊢
  have hB' : Spec.SipHash.finalRounds { toSpec A with v2 := (toSpec A).v2 ^^^ 0xff } = toSpec B := hB.symm
  rw [hB']
  rfl

theorem xor3_comm (a b x : UInt64) : a ^^^ b ^^^ x = x ^^^ a ^^^ b := by ac_rfl

theorem siphashx24_eq (msg key : Bytes) (hlen : msg.length < 2 ^ 64) :
    (crypto_shorthash_siphashx24 msg.toArray (UInt64.ofNat msg.length) key.toArray).toList
      = Spec.SipHash.siphashx24 key msg := by
  have ab := absorb_eq 0x646f72616e646f83 msg key hlen
  have hc : ∀ x : UInt64, (0x646f72616e646f83 : UInt64) ^^^ x = x ^^^ 0x646f72616e646f6d ^^^ 0xee := by
    intro x
    have : (0x646f72616e646f83 : UInt64) = 0x646f72616e646f6d ^^^ 0xee := by decide
    rw [this]
    exact xor3_comm _ _ _
  have hi : toSpec ⟨0x736f6d6570736575 ^^^ Spec.SipHash.load64le key,
      0x646f72616e646f83 ^^^ Spec.SipHash.load64le (key.drop 8),
      0x6c7967656e657261 ^^^ Spec.SipHash.load64le key,
      0x7465646279746573 ^^^ Spec.SipHash.load64le (key.drop 8)⟩
      = { Spec.SipHash.init key with v1 := (Spec.SipHash.init key).v1 ^^^ 0xee } := by
    simp only [toSpec, Spec.SipHash.init, hc]
    congr 1 <;> exact UInt64.xor_comm _ _
  rw [hi] at ab
  unfold crypto_shorthash_siphashx24 Spec.SipHash.siphashx24
  simp only [Array.toList_append, store64_le_eq, Spec.SipHash.output]
  rw [← ab]
  generalize absorb 0x646f72616e646f83 msg.toArray (UInt64.ofNat msg.length) key.toArray = A
  have hB := fin4 { A with v2 := A.v2 ^^^ 0xee }
  generalize SIPROUND (SIPROUND (SIPROUND (SIPROUND { A with v2 := A.v2 ^^^ 0xee }))) = B at hB ⊢
  have hC := fin4 { B with v1 := B.v1 ^^^ 0xdd }
  generalize SIPROUND (SIPROUND (SIPROUND (SIPROUND { B with v1 := B.v1 ^^^ 0xdd }))) = C at hC ⊢
  have hB' : Spec.SipHash.finalRounds { toSpec A with v2 := (toSpec A).v2 ^^^ 0xee } = toSpec B := hB.symm
  rw [hB']
  have hC' : Spec.SipHash.finalRounds { toSpec B with v1 := (toSpec B).v1 ^^^ 0xdd } = toSpec C := hC.symm
  rw [hC']
  rfl

end Sip

/-! ### transfer: streaming front-ends instantiated with two compression functions that agree on
    an invariant of the chaining value -/
section transfer
open Sodium.Model
variable {σ : Type} (P : σ → Prop)

theorem mdBlocks_congr (C1 C2 : σ → Bytes → σ) (hC : ∀ s b, P s → C1 s b = C2 s b)
    (hP : ∀ s b, P s → P (C2 s b)) (W : Nat) :
    ∀ fuel h m, P h → mdBlocks C1 W fuel h m = mdBlocks C2 W fuel h m ∧ P (mdBlocks C2 W fuel h m).1 := by
  intro fuel
  induction fuel with
  | zero => intro h m hp; exact ⟨rfl, hp⟩
  | succ n ih =>
    intro h m hp
    simp only [mdBlocks]
    by_cases hc : m.length ≥ W ∧ W > 0
    · simp only [hc, and_self, if_true]
      rw [hC h _ hp]
      exact ih _ _ (hP h _ hp)
    · simp only [hc, if_false]
      exact ⟨trivial, hp⟩

theorem mdUpdate_congr (C1 C2 : σ → Bytes → σ) (hC : ∀ s b, P s → C1 s b = C2 s b)
    (hP : ∀ s b, P s → P (C2 s b)) (W cbits : Nat) (s : MdState σ) (inp : Bytes) (hp : P s.h) :
    mdUpdate C1 W cbits s inp = mdUpdate C2 W cbits s inp ∧ P (mdUpdate C2 W cbits s inp).h := by
  unfold mdUpdate
  by_cases h1 : inp.isEmpty
  · simp only [h1, if_true]; exact ⟨trivial, hp⟩
  · simp only [h1, Bool.false_eq_true, if_false]
    by_cases h2 : inp.length < W - s.count / 8 % W
    · simp only [h2, if_true]; exact ⟨trivial, hp⟩
    · simp only [h2, if_false]
      rw [hC s.h _ hp]
      have := mdBlocks_congr P C1 C2 hC hP W (List.drop (W - s.count / 8 % W) inp).length
        (C2 s.h (s.buf ++ List.take (W - s.count / 8 % W) inp)) (List.drop (W - s.count / 8 % W) inp)
        (hP s.h _ hp)
      rw [this.1]
      exact ⟨rfl, this.2⟩

theorem mdUpdates_congr (C1 C2 : σ → Bytes → σ) (hC : ∀ s b, P s → C1 s b = C2 s b)
    (hP : ∀ s b, P s → P (C2 s b)) (W cbits : Nat) (cs : List Bytes) :
    ∀ s : MdState σ, P s.h →
      cs.foldl (mdUpdate C1 W cbits) s = cs.foldl (mdUpdate C2 W cbits) s ∧
      P (cs.foldl (mdUpdate C2 W cbits) s).h := by
  induction cs with
  | nil => intro s hp; exact ⟨rfl, hp⟩
  | cons c cs ih =>
    intro s hp
    have := mdUpdate_congr P C1 C2 hC hP W cbits s c hp
    simp only [List.foldl_cons]
    rw [this.1]
    exact ih _ this.2

theorem mdPadFinal_congr (C1 C2 : σ → Bytes → σ) (hC : ∀ s b, P s → C1 s b = C2 s b)
    (hP : ∀ s b, P s → P (C2 s b)) (W cbits : Nat) (s : MdState σ) (hp : P s.h) :
    mdPadFinal C1 W cbits s = mdPadFinal C2 W cbits s := by
  unfold mdPadFinal
  simp only []
  split
  · exact hC _ _ hp
  · rw [hC s.h _ hp, hC _ _ (hP _ _ hp)]

theorem b2Update_congr (F1 F2 : σ → Bytes → Nat → Bool → σ) (hF : ∀ s b t l, P s → F1 s b t l = F2 s b t l)
    (hP : ∀ s b t l, P s → P (F2 s b t l)) :
    ∀ fuel (s : B2State σ) inp, P s.h →
      b2Update F1 fuel s inp = b2Update F2 fuel s inp ∧ P (b2Update F2 fuel s inp).h := by
  intro fuel
  induction fuel with
  | zero => intro s inp hp; exact ⟨rfl, hp⟩
  | succ n ih =>
    intro s inp hp
    simp only [b2Update]
    by_cases h1 : inp.isEmpty
    · simp only [h1, if_true]; exact ⟨trivial, hp⟩
    · simp only [h1, Bool.false_eq_true, if_false]
      by_cases h2 : inp.length > 256 - s.buf.length
      · simp only [h2, if_true]
        rw [hF s.h _ _ _ hp]
        exact ih _ _ (hP s.h _ _ _ hp)
      · simp only [h2, if_false]; exact ⟨trivial, hp⟩

theorem b2Updates_congr (F1 F2 : σ → Bytes → Nat → Bool → σ) (hF : ∀ s b t l, P s → F1 s b t l = F2 s b t l)
    (hP : ∀ s b t l, P s → P (F2 s b t l)) (cs : List Bytes) :
    ∀ s : B2State σ, P s.h →
      cs.foldl (fun s c => b2Update F1 (c.length + 1) s c) s
        = cs.foldl (fun s c => b2Update F2 (c.length + 1) s c) s ∧
      P (cs.foldl (fun s c => b2Update F2 (c.length + 1) s c) s).h := by
  induction cs with
  | nil => intro s hp; exact ⟨rfl, hp⟩
  | cons c cs ih =>
    intro s hp
    have := b2Update_congr P F1 F2 hF hP (c.length + 1) s c hp
    simp only [List.foldl_cons]
    rw [this.1]
    exact ih _ this.2

theorem b2Final_congr (F1 F2 : σ → Bytes → Nat → Bool → σ) (hF : ∀ s b t l, P s → F1 s b t l = F2 s b t l)
    (hP : ∀ s b t l, P s → P (F2 s b t l)) (digest : σ → Nat → Bytes) (s : B2State σ) (outlen : Nat)
    (hp : P s.h) : b2Final F1 digest s outlen = b2Final F2 digest s outlen := by
  unfold b2Final
  by_cases h1 : s.last
  · simp only [h1, if_true]
  · simp only [h1, Bool.false_eq_true, if_false]
    by_cases h2 : s.buf.length > 128
    · simp only [h2, if_true]
      rw [hF s.h _ _ _ hp, hF _ _ _ _ (hP s.h _ _ _ hp)]
    · simp only [h2, if_false]
      rw [hF s.h _ _ _ hp]

theorem b2Init_congr (F1 F2 : σ → Bytes → Nat → Bool → σ) (hF : ∀ s b t l, P s → F1 s b t l = F2 s b t l)
    (hP : ∀ s b t l, P s → P (F2 s b t l)) (paramInit : Nat → Nat → Bytes → Bytes → σ)
    (hI : ∀ a b c d, P (paramInit a b c d)) (outlen : Nat) (key salt personal : Bytes) :
    b2Init F1 paramInit outlen key salt personal = b2Init F2 paramInit outlen key salt personal ∧
    P (b2Init F2 paramInit outlen key salt personal).h := by
  unfold b2Init
  simp only []
  split
  · exact ⟨rfl, hI _ _ _ _⟩
  · exact b2Update_congr P F1 F2 hF hP 2 _ _ (hI _ _ _ _)

theorem generichash_congr (F1 F2 : σ → Bytes → Nat → Bool → σ) (hF : ∀ s b t l, P s → F1 s b t l = F2 s b t l)
    (hP : ∀ s b t l, P s → P (F2 s b t l)) (paramInit : Nat → Nat → Bytes → Bytes → σ)
    (hI : ∀ a b c d, P (paramInit a b c d)) (digest : σ → Nat → Bytes) (outlen : Nat)
    (msg key salt personal : Bytes) :
    generichash F1 paramInit digest outlen msg key salt personal
      = generichash F2 paramInit digest outlen msg key salt personal := by
  unfold generichash
  split
  · rfl
  · have i := b2Init_congr P F1 F2 hF hP paramInit hI outlen key salt personal
    have u := b2Update_congr P F1 F2 hF hP (msg.length + 1) _ msg i.2
    simp only []
    rw [i.1, u.1, b2Final_congr P F1 F2 hF hP digest _ outlen u.2]

end transfer

end Sodium.CompressRefP
