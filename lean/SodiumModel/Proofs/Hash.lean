import SodiumModel.Model.Hash
import SodiumModel.Spec.Sha256
import SodiumModel.Spec.Sha512
import SodiumModel.Spec.Blake2b
import SodiumModel.Spec.Poly1305
import SodiumModel.Proofs.Utils
/-
  Helper lemmas for C04 (hash / MAC / KDF front-ends).
-/
open Sodium Sodium.Model
namespace Sodium

/-! ### lists of full blocks -/

/-- every block of `bs` has exactly `W` bytes -/
def AllLen (W : Nat) (bs : List Bytes) : Prop := ∀ b ∈ bs, b.length = W

theorem AllLen.nil (W : Nat) : AllLen W [] := by intro b hb; cases hb

theorem AllLen.cons {W : Nat} {b : Bytes} {bs : List Bytes} (hb : b.length = W) (h : AllLen W bs) :
    AllLen W (b :: bs) := by
  intro x hx
  rcases List.mem_cons.mp hx with rfl | hx
  · exact hb
  · exact h x hx

theorem AllLen.append {W : Nat} {as bs : List Bytes} (ha : AllLen W as) (hb : AllLen W bs) :
    AllLen W (as ++ bs) := by
  intro x hx
  rcases List.mem_append.mp hx with hx | hx
  · exact ha x hx
  · exact hb x hx

theorem AllLen.snoc {W : Nat} {b : Bytes} {bs : List Bytes} (h : AllLen W bs) (hb : b.length = W) :
    AllLen W (bs ++ [b]) := h.append (AllLen.cons hb (AllLen.nil W))

theorem AllLen.flatten_length {W : Nat} : ∀ {bs : List Bytes}, AllLen W bs → bs.flatten.length = W * bs.length
  | [], _ => by simp
  | b :: bs, h => by
    have h1 : b.length = W := h b (by simp)
    have h2 := AllLen.flatten_length (W := W) (bs := bs) (fun x hx => h x (by simp [hx]))
    simp [h1, h2, Nat.mul_add]
    omega

/-! ### `blocks` -/

theorem blocksAux_fuel (W : Nat) (hW : 0 < W) : ∀ (f1 f2 : Nat) (m : Bytes), m.length ≤ f1 → m.length ≤ f2 →
    Spec.Sha256.blocksAux W f1 m = Spec.Sha256.blocksAux W f2 m := by
  intro f1
  induction f1 with
  | zero =>
    intro f2 m h1 h2
    have : m = [] := List.eq_nil_of_length_eq_zero (by omega)
    subst this
    cases f2 <;> simp [Spec.Sha256.blocksAux]
  | succ f1 ih =>
    intro f2 m h1 h2
    cases m with
    | nil => cases f2 <;> simp [Spec.Sha256.blocksAux]
    | cons x xs =>
      cases f2 with
      | zero => simp at h2
      | succ f2 =>
        simp only [Spec.Sha256.blocksAux, List.isEmpty_cons, Bool.false_eq_true, if_false]
        congr 1
        apply ih
        · simp at h1 ⊢; omega
        · simp at h2 ⊢; omega

theorem blocks_nil (W : Nat) : Spec.Sha256.blocks W [] = [] := by
  simp [Spec.Sha256.blocks, Spec.Sha256.blocksAux]

theorem blocks_cons_block (W : Nat) (hW : 0 < W) (b rest : Bytes) (hb : b.length = W) :
    Spec.Sha256.blocks W (b ++ rest) = b :: Spec.Sha256.blocks W rest := by
  unfold Spec.Sha256.blocks
  have hl : (b ++ rest).length = (W - 1 + rest.length) + 1 := by simp [hb]; omega
  rw [hl]
  have hne : (b ++ rest).isEmpty = false := by
    cases b with
    | nil => simp at hb; omega
    | cons x xs => rfl
  simp only [Spec.Sha256.blocksAux, hne, Bool.false_eq_true, if_false]
  have ht : (b ++ rest).take W = b := by rw [← hb]; simp
  have hd : (b ++ rest).drop W = rest := by rw [← hb]; simp
  rw [ht, hd]
  congr 1
  exact blocksAux_fuel W hW _ _ rest (by omega) (Nat.le_refl _)

theorem blocks_flatten_append (W : Nat) (hW : 0 < W) : ∀ (bs : List Bytes) (t : Bytes), AllLen W bs →
    Spec.Sha256.blocks W (bs.flatten ++ t) = bs ++ Spec.Sha256.blocks W t
  | [], t, _ => by simp
  | b :: bs, t, h => by
    have h1 : b.length = W := h b (by simp)
    have h2 := blocks_flatten_append W hW bs t (fun x hx => h x (by simp [hx]))
    simp only [List.flatten_cons, List.append_assoc, List.cons_append]
    rw [blocks_cons_block W hW b _ h1, h2]

/-- a non-empty string of at most `W` bytes is a single block -/
theorem blocks_single (W : Nat) (t : Bytes) (h0 : 0 < t.length) (h1 : t.length ≤ W) :
    Spec.Sha256.blocks W t = [t] := by
  unfold Spec.Sha256.blocks
  obtain ⟨n, hn⟩ : ∃ n, t.length = n + 1 := ⟨t.length - 1, by omega⟩
  rw [hn]
  have hne : t.isEmpty = false := by
    cases t with
    | nil => simp at h0
    | cons x xs => rfl
  simp only [Spec.Sha256.blocksAux, hne, Bool.false_eq_true, if_false]
  rw [List.take_of_length_le h1, List.drop_of_length_le h1]
  cases n <;> simp [Spec.Sha256.blocksAux]

theorem sha512_blocksAux_eq (W : Nat) : ∀ (f : Nat) (m : Bytes),
    Spec.Sha512.blocksAux W f m = Spec.Sha256.blocksAux W f m
  | 0, _ => rfl
  | f + 1, m => by
    simp only [Spec.Sha512.blocksAux, Spec.Sha256.blocksAux, sha512_blocksAux_eq W f]

theorem sha512_blocks_eq (W : Nat) (m : Bytes) : Spec.Sha512.blocks W m = Spec.Sha256.blocks W m :=
  sha512_blocksAux_eq W _ m

theorem blake2b_blocksAux_eq (W : Nat) : ∀ (f : Nat) (m : Bytes),
    Spec.Blake2b.blocksAux W f m = Spec.Sha256.blocksAux W f m
  | 0, _ => rfl
  | f + 1, m => by
    simp only [Spec.Blake2b.blocksAux, Spec.Sha256.blocksAux, blake2b_blocksAux_eq W f]

theorem blake2b_blocks_eq (W : Nat) (m : Bytes) : Spec.Blake2b.blocks W m = Spec.Sha256.blocks W m :=
  blake2b_blocksAux_eq W _ m

theorem chunks16_eq : ∀ (f : Nat) (m : Bytes), Spec.Poly1305.chunks16 f m = Spec.Sha256.blocksAux 16 f m
  | 0, _ => rfl
  | f + 1, m => by
    simp only [Spec.Poly1305.chunks16, Spec.Sha256.blocksAux, chunks16_eq f]

theorem chunks16_blocks (m : Bytes) : Spec.Poly1305.chunks16 (m.length + 1) m = Spec.Sha256.blocks 16 m := by
  rw [chunks16_eq]
  exact blocksAux_fuel 16 (by omega) _ _ m (by omega) (Nat.le_refl _)

/-! ### the block loops -/

theorem mdBlocks_spec {σ : Type} (C : σ → Bytes → σ) (W : Nat) (hW : 0 < W) :
    ∀ (fuel : Nat) (h : σ) (m : Bytes), m.length ≤ fuel →
      ∃ bs : List Bytes, AllLen W bs ∧ m = bs.flatten ++ (mdBlocks C W fuel h m).2 ∧
        (mdBlocks C W fuel h m).2.length < W ∧ (mdBlocks C W fuel h m).1 = bs.foldl C h := by
  intro fuel
  induction fuel with
  | zero =>
    intro h m hm
    have : m = [] := List.eq_nil_of_length_eq_zero (by omega)
    subst this
    exact ⟨[], AllLen.nil W, by simp [mdBlocks], by simpa [mdBlocks] using hW, by simp [mdBlocks]⟩
  | succ fuel ih =>
    intro h m hm
    by_cases hge : m.length ≥ W
    · have hc : m.length ≥ W ∧ W > 0 := ⟨hge, hW⟩
      simp only [mdBlocks, hc, and_self, if_true]
      obtain ⟨bs, hbs, hm', hlt, hh⟩ := ih (C h (m.take W)) (m.drop W) (by simp; omega)
      refine ⟨m.take W :: bs, AllLen.cons (by simp; omega) hbs, ?_, hlt, ?_⟩
      · simp only [List.flatten_cons, List.append_assoc]
        rw [← hm', List.take_append_drop]
      · simpa using hh
    · have hc : ¬ (m.length ≥ W ∧ W > 0) := fun hc => hge hc.1
      simp only [mdBlocks, hc, if_false]
      exact ⟨[], AllLen.nil W, by simp, by omega, by simp⟩

theorem polyBlocks_eq_mdBlocks {σ : Type} (blk : σ → Bytes → Bool → σ) :
    ∀ (fuel : Nat) (st : σ) (m : Bytes),
      polyBlocks blk fuel st m = mdBlocks (fun s b => blk s b true) 16 fuel st m
  | 0, _, _ => rfl
  | fuel + 1, st, m => by
    simp only [polyBlocks, mdBlocks, polyBlocks_eq_mdBlocks blk fuel]
    simp

/-! ### Poly1305 -/

/-- state after absorbing `m`: the full 16-byte blocks `bs` have gone through `blk … true`, the rest is buffered -/
def PolyInv {σ : Type} (blk : σ → Bytes → Bool → σ) (st0 : σ) (s : PolyState σ) (m : Bytes) : Prop :=
  ∃ bs : List Bytes, AllLen 16 bs ∧ m = bs.flatten ++ s.buffer ∧ s.buffer.length < 16 ∧
    s.st = bs.foldl (fun st b => blk st b true) st0

theorem polyUpdate_inv {σ : Type} (blk : σ → Bytes → Bool → σ) (st0 : σ) (s : PolyState σ) (m c : Bytes)
    (h : PolyInv blk st0 s m) : PolyInv blk st0 (polyUpdate blk s c) (m ++ c) := by
  obtain ⟨bs, hbs, hm, hlt, hst⟩ := h
  unfold polyUpdate
  by_cases hb : s.buffer.length > 0
  · simp only [hb, if_true]
    by_cases hshort : (s.buffer ++ c.take (min (16 - s.buffer.length) c.length)).length < 16
    · simp only [hshort, if_true]
      have hw : min (16 - s.buffer.length) c.length = c.length := by
        simp at hshort; omega
      rw [hw, List.take_length]
      refine ⟨bs, hbs, by simp [hm], ?_, hst⟩
      rw [hw] at hshort; simpa using hshort
    · simp only [hshort, if_false]
      have hw : min (16 - s.buffer.length) c.length = 16 - s.buffer.length := by
        simp at hshort; omega
      have hcl : 16 - s.buffer.length ≤ c.length := by simp at hshort; omega
      rw [hw]
      rw [polyBlocks_eq_mdBlocks]
      obtain ⟨bs2, hbs2, hm2, hlt2, hst2⟩ := mdBlocks_spec (fun s b => blk s b true) 16 (by omega)
        (c.drop (16 - s.buffer.length)).length
        (blk s.st (s.buffer ++ c.take (16 - s.buffer.length)) true) (c.drop (16 - s.buffer.length)) (Nat.le_refl _)
      refine ⟨bs ++ (s.buffer ++ c.take (16 - s.buffer.length)) :: bs2, ?_, ?_, ?_, ?_⟩
      · exact hbs.append (AllLen.cons (by simp; omega) hbs2)
      · simp only [List.nil_append, List.flatten_append, List.flatten_cons, List.append_assoc]
        rw [← hm2, List.take_append_drop, hm, List.append_assoc]
      · simpa using hlt2
      · show (mdBlocks _ _ _ _ _).1 = _
        rw [hst2, List.foldl_append, List.foldl_cons, hst]
  · have hb0 : s.buffer = [] := List.eq_nil_of_length_eq_zero (by omega)
    simp only [hb, if_false]
    rw [polyBlocks_eq_mdBlocks]
    obtain ⟨bs2, hbs2, hm2, hlt2, hst2⟩ := mdBlocks_spec (fun s b => blk s b true) 16 (by omega)
      c.length s.st c (Nat.le_refl _)
    refine ⟨bs ++ bs2, hbs.append hbs2, ?_, ?_, ?_⟩
    · simp only [hb0, List.nil_append, List.flatten_append, List.append_assoc]
      rw [← hm2, hm, hb0]; simp
    · simpa [hb0] using hlt2
    · show (mdBlocks _ _ _ _ _).1 = _
      rw [hst2, List.foldl_append, hst]

theorem polyFold_inv {σ : Type} (blk : σ → Bytes → Bool → σ) (st0 : σ) :
    ∀ (cs : List Bytes) (s : PolyState σ) (m : Bytes), PolyInv blk st0 s m →
      PolyInv blk st0 (cs.foldl (polyUpdate blk) s) (m ++ cs.flatten)
  | [], s, m, h => by simpa using h
  | c :: cs, s, m, h => by
    have := polyFold_inv blk st0 cs _ _ (polyUpdate_inv blk st0 s m c h)
    simpa [List.append_assoc] using this

theorem le_zeros : ∀ k : Nat, le (zeros k) = 0
  | 0 => rfl
  | k + 1 => by
    have := le_zeros k
    simp only [zeros] at this
    simp [zeros, List.replicate_succ, le, this]

theorem le_pad1 (b : Bytes) (k : Nat) : le (b ++ 1 :: zeros k) = le b + 2 ^ (8 * b.length) := by
  rw [le_append]
  simp only [le, le_zeros]
  rw [Nat.pow_mul]
  simp

theorem polyNat_fold (r s : Nat) : ∀ (bs : List Bytes) (acc : Nat), AllLen 16 bs →
    bs.foldl (fun st b => polyBlkNat st b true) (r, s, acc) =
      (r, s, bs.foldl (fun a blk => ((a + le blk + 2 ^ (8 * blk.length)) * r) % Spec.Poly1305.p) acc)
  | [], _, _ => rfl
  | b :: bs, acc, h => by
    have h1 : b.length = 16 := h b (by simp)
    simp only [List.foldl_cons]
    rw [← polyNat_fold r s bs _ (fun x hx => h x (by simp [hx]))]
    simp [polyBlkNat, h1]

theorem polyFinish_spec (r k : Nat) (sf : PolyState PolyNat) (m : Bytes)
    (h : PolyInv polyBlkNat (r, k, 0) sf m) :
    polyFinish polyBlkNat polyFinNat sf =
      toLE 16 (((Spec.Sha256.blocks 16 m).foldl
        (fun a blk => ((a + le blk + 2 ^ (8 * blk.length)) * r) % Spec.Poly1305.p) 0 + k) % 2 ^ 128) := by
  obtain ⟨bs, hbs, hm, hlt, hst⟩ := h
  rw [polyNat_fold _ _ bs 0 hbs] at hst
  rw [hm, blocks_flatten_append 16 (by omega) bs _ hbs, List.foldl_append]
  unfold polyFinish
  rw [hst]
  by_cases hb : sf.buffer.length > 0
  · rw [if_pos hb, blocks_single 16 _ hb (by omega)]
    simp only [List.foldl_cons, List.foldl_nil, polyBlkNat, polyFinNat, le_pad1]
    simp [Nat.add_assoc]
  · rw [if_neg hb]
    have hb0 := List.eq_nil_of_length_eq_zero (Nat.eq_zero_of_not_pos hb)
    rw [hb0, blocks_nil]
    simp [polyFinNat]

theorem poly1305_chunks_aux (key : Bytes) (cs : List Bytes) :
    polyFinish polyBlkNat polyFinNat (cs.foldl (polyUpdate polyBlkNat) (polyInitNat key))
      = Spec.Poly1305.mac key cs.flatten := by
  have h0 : PolyInv polyBlkNat (polyInitNat key).st (polyInitNat key) [] :=
    ⟨[], AllLen.nil 16, by simp [polyInitNat], by simp [polyInitNat], rfl⟩
  have h1 := polyFold_inv polyBlkNat _ cs _ _ h0
  simp only [List.nil_append] at h1
  rw [polyFinish_spec _ _ _ _ h1]
  unfold Spec.Poly1305.mac
  simp only []
  rw [chunks16_blocks]

/-! ### HMAC / HKDF -/

theorem hmacFold {σ : Type} (H : HashOps σ) : ∀ (cs : List Bytes) (s : HmacState σ),
    cs.foldl (hmacUpdate H) s = ⟨cs.foldl H.update s.ictx, s.octx⟩
  | [], _ => rfl
  | c :: cs, s => by
    simp only [List.foldl_cons]
    rw [hmacFold H cs]
    rfl

theorem hmac_chunks_aux {σ : Type} (H : HashOps σ) (Hf : Bytes → Bytes)
    (hH : ∀ cs : List Bytes, H.final (cs.foldl H.update H.init) = Hf cs.flatten) (key : Bytes) (cs : List Bytes) :
    hmacFinal H (cs.foldl (hmacUpdate H) (hmacInit H key)) =
      Hf (xorPad 0x5c H.W (if key.length > H.W then Hf key else key) ++
        Hf (xorPad 0x36 H.W (if key.length > H.W then Hf key else key) ++ cs.flatten)) := by
  rw [hmacFold]
  have hk : H.final (H.update H.init key) = Hf key := by
    have := hH [key]
    simpa using this
  simp only [hmacFinal, hmacInit, hk]
  generalize (if key.length > H.W then Hf key else key) = k'
  have h1 : H.final (cs.foldl H.update (H.update H.init (xorPad 0x36 H.W k'))) =
      Hf (xorPad 0x36 H.W k' ++ cs.flatten) := by
    have := hH (xorPad 0x36 H.W k' :: cs)
    simpa using this
  rw [h1]
  have := hH [xorPad 0x5c H.W k', Hf (xorPad 0x36 H.W k' ++ cs.flatten)]
  simpa using this

/-- three updates then final, as in the HKDF expand loop -/
theorem hmac3_aux {σ : Type} (H : HashOps σ) (Hf : Bytes → Bytes)
    (hH : ∀ cs : List Bytes, H.final (cs.foldl H.update H.init) = Hf cs.flatten) (key a b c : Bytes) :
    hmacFinal H (hmacUpdate H (hmacUpdate H (hmacUpdate H (hmacInit H key) a) b) c) =
      Hf (xorPad 0x5c H.W (if key.length > H.W then Hf key else key) ++
        Hf (xorPad 0x36 H.W (if key.length > H.W then Hf key else key) ++ (a ++ b ++ c))) := by
  have := hmac_chunks_aux H Hf hH key [a, b, c]
  simpa [List.append_assoc] using this

section hkdf
variable {σ : Type} (H : HashOps σ) (prk ctx : Bytes) (mac : Bytes → Bytes) (T : Nat → Bytes)

/-- the first `n` blocks T(1) ‖ … ‖ T(n) -/
def okmOf (T : Nat → Bytes) (n : Nat) : Bytes := (List.range n).flatMap fun i => T (i + 1)

theorem okmOf_succ (n : Nat) : okmOf T (n + 1) = okmOf T n ++ T (n + 1) := by
  simp [okmOf, List.range_succ, List.flatMap_append]

theorem okmOf_length (out : Nat) (hlen : ∀ i, (T (i + 1)).length = out) : ∀ n, (okmOf T n).length = n * out
  | 0 => by simp [okmOf]
  | n + 1 => by
    rw [okmOf_succ, List.length_append, okmOf_length out hlen n, hlen, Nat.succ_mul]

theorem hkdfLoop_spec
    (hmac : ∀ prev c, hmacFinal H (hmacUpdate H (hmacUpdate H (hmacUpdate H (hmacInit H prk) prev) ctx) [c])
      = mac (prev ++ ctx ++ [c]))
    (hTs : ∀ i, T (i + 1) = mac (T i ++ ctx ++ [UInt8.ofNat (i + 1)])) :
    ∀ (k i : Nat), hkdfExpandLoop H prk ctx k (T i) (UInt8.ofNat (i + 1)) (okmOf T i) = okmOf T (i + k)
  | 0, i => rfl
  | k + 1, i => by
    simp only [hkdfExpandLoop, hmac, ← hTs]
    have hc : UInt8.ofNat (i + 1) + 1 = UInt8.ofNat (i + 1 + 1) := by
      rw [UInt8.ofNat_add (i + 1) 1]; rfl
    rw [hc, ← okmOf_succ, hkdfLoop_spec hmac hTs k (i + 1)]
    congr 1; omega

theorem hkdfExpand_spec
    (hmac : ∀ prev c, hmacFinal H (hmacUpdate H (hmacUpdate H (hmacUpdate H (hmacInit H prk) prev) ctx) [c])
      = mac (prev ++ ctx ++ [c]))
    (hT0 : T 0 = [])
    (hTs : ∀ i, T (i + 1) = mac (T i ++ ctx ++ [UInt8.ofNat (i + 1)]))
    (hlen : ∀ i, (T (i + 1)).length = H.outLen) (hpos : 0 < H.outLen) (L : Nat) :
    hkdfExpand H L ctx prk =
      if L > 255 * H.outLen then .err
      else .ok ((okmOf T ((L + H.outLen - 1) / H.outLen)).take L) := by
  unfold hkdfExpand
  by_cases hL : L > 255 * H.outLen
  · simp [hL]
  · rw [if_neg hL, if_neg hL]
    have hloop := hkdfLoop_spec H prk ctx mac T hmac hTs (L / H.outLen) 0
    have h00 : okmOf T 0 = [] := rfl
    have h01 : UInt8.ofNat (0 + 1) = 1 := rfl
    rw [hT0, h00, h01, Nat.zero_add] at hloop
    simp only [hloop]
    have hdm := Nat.div_add_mod L H.outLen
    have hfl := okmOf_length T H.outLen hlen (L / H.outLen)
    rw [Nat.mul_comm] at hfl
    have hlt := Nat.mod_lt L hpos
    by_cases hleft : L % H.outLen = 0
    · have hceil : (L + H.outLen - 1) / H.outLen = L / H.outLen := by
        have h1 : L + H.outLen - 1 = H.outLen * (L / H.outLen) + (H.outLen - 1) := by omega
        have h2 : (H.outLen - 1) / H.outLen = 0 := Nat.div_eq_of_lt (by omega)
        rw [h1, Nat.mul_add_div hpos, h2, Nat.add_zero]
      simp only [hleft, ne_eq, not_true_eq_false, if_false]
      rw [hceil, List.take_of_length_le]
      rw [hfl]; omega
    · have hceil : (L + H.outLen - 1) / H.outLen = L / H.outLen + 1 := by
        have h1 : L + H.outLen - 1 = H.outLen * (L / H.outLen + 1) + (L % H.outLen - 1) := by
          rw [Nat.mul_add]; omega
        have h2 : (L % H.outLen - 1) / H.outLen = 0 := Nat.div_eq_of_lt (by omega)
        rw [h1, Nat.mul_add_div hpos, h2, Nat.add_zero]
      simp only [ne_eq, hleft, not_false_eq_true, if_true]
      have hprev : (okmOf T (L / H.outLen)).drop ((okmOf T (L / H.outLen)).length -
          (if L / H.outLen = 0 then 0 else H.outLen)) = T (L / H.outLen) := by
        cases hn : L / H.outLen with
        | zero => simp [okmOf, hT0]
        | succ j =>
          rw [okmOf_succ]
          simp only [List.length_append, hlen, Nat.succ_ne_zero, if_false, Nat.add_sub_cancel]
          exact List.drop_left
      have ht : (okmOf T (L / H.outLen)).take L = okmOf T (L / H.outLen) :=
        List.take_of_length_le (by rw [hfl]; omega)
      have hl : L - (okmOf T (L / H.outLen)).length = L % H.outLen := by rw [hfl]; omega
      rw [hprev, hmac, ← hTs, hceil, okmOf_succ, List.take_append, ht, hl]

end hkdf

/-! ### SHA-2 (Merkle–Damgård) -/

/-- the buffer fill `(count / 8) % W` computed from the wrapped bit counter is the true `n % W` -/
def CountOk (W cbits n : Nat) : Prop := ((8 * n) % 2 ^ cbits / 8) % W = n % W

theorem countOk_of_fit {W cbits N n : Nat} (hfit : 8 * N < 2 ^ cbits) (hn : n ≤ N) : CountOk W cbits n := by
  unfold CountOk
  have h : 8 * n % 2 ^ cbits = 8 * n := Nat.mod_eq_of_lt (by omega)
  rw [h, Nat.mul_div_cancel_left _ (by omega : 0 < 8)]

theorem countOk_of_dvd {W cbits q : Nat} (hd : 2 ^ cbits = 8 * (W * q)) (n : Nat) : CountOk W cbits n := by
  unfold CountOk
  rw [hd, Nat.mul_mod_mul_left, Nat.mul_div_cancel_left _ (by omega : 0 < 8), Nat.mod_mul_right_mod]

theorem toLE_mod (n v : Nat) : toLE n (v % 256 ^ n) = toLE n v := by
  apply le_inj
  · rw [toLE_length, toLE_length]
  · rw [le_toLE, le_toLE, Nat.mod_mod]

theorem toBE_mod_pow (cbits v : Nat) (hc : cbits % 8 = 0) :
    toBE (cbits / 8) (v % 2 ^ cbits) = toBE (cbits / 8) v := by
  have h : 2 ^ cbits = 256 ^ (cbits / 8) := by
    have : cbits = 8 * (cbits / 8) := by omega
    conv => lhs; rw [this, Nat.pow_mul]
  unfold toBE
  rw [h, toLE_mod]

/-- state after absorbing `m`: the full blocks `bs` are folded into `h`, the rest is in `buf`,
    `count` = bit length mod 2^cbits -/
def MdInv {σ : Type} (C : σ → Bytes → σ) (W cbits : Nat) (iv : σ) (s : MdState σ) (m : Bytes) : Prop :=
  ∃ bs : List Bytes, AllLen W bs ∧ m = bs.flatten ++ s.buf ∧ s.buf.length < W ∧
    s.h = bs.foldl C iv ∧ s.count = (8 * m.length) % 2 ^ cbits

theorem MdInv.rem {σ : Type} {C : σ → Bytes → σ} {W cbits : Nat} {iv : σ} {s : MdState σ} {m : Bytes}
    (h : MdInv C W cbits iv s m) (hok : CountOk W cbits m.length) :
    (s.count / 8) % W = s.buf.length ∧ m.length % W = s.buf.length := by
  obtain ⟨bs, hbs, hm, hlt, _, hc⟩ := h
  have hl : m.length = W * bs.length + s.buf.length := by
    rw [hm, List.length_append, hbs.flatten_length]
  have h2 : m.length % W = s.buf.length := by
    rw [hl, Nat.mul_add_mod, Nat.mod_eq_of_lt hlt]
  refine ⟨?_, h2⟩
  rw [hc, hok, h2]

theorem mdInit_inv {σ : Type} (C : σ → Bytes → σ) (W cbits : Nat) (hW : 0 < W) (iv : σ) :
    MdInv C W cbits iv (mdInit iv) [] :=
  ⟨[], AllLen.nil W, rfl, hW, rfl, by simp [mdInit]⟩

theorem mdUpdate_inv {σ : Type} (C : σ → Bytes → σ) (W cbits : Nat) (hW : 0 < W) (iv : σ)
    (s : MdState σ) (m c : Bytes) (h : MdInv C W cbits iv s m) (hok : CountOk W cbits m.length) :
    MdInv C W cbits iv (mdUpdate C W cbits s c) (m ++ c) := by
  have hr := (h.rem hok).1
  obtain ⟨bs, hbs, hm, hlt, hh, hc⟩ := h
  have hcnt : (s.count + 8 * c.length) % 2 ^ cbits = (8 * (m ++ c).length) % 2 ^ cbits := by
    rw [hc, Nat.mod_add_mod, ← Nat.mul_add, ← List.length_append]
  unfold mdUpdate
  by_cases he : c.isEmpty = true
  · have : c = [] := List.isEmpty_iff.mp he
    subst this
    simp only [List.isEmpty_nil, if_true, List.append_nil]
    exact ⟨bs, hbs, hm, hlt, hh, hc⟩
  · simp only [he, if_false, hr, hcnt, Bool.false_eq_true]
    by_cases hs : c.length < W - s.buf.length
    · simp only [hs, if_true]
      exact ⟨bs, hbs, by simp [hm], by simp; omega, hh, rfl⟩
    · simp only [hs, if_false]
      obtain ⟨bs2, hbs2, hm2, hlt2, hh2⟩ := mdBlocks_spec C W hW (c.drop (W - s.buf.length)).length
        (C s.h (s.buf ++ c.take (W - s.buf.length))) (c.drop (W - s.buf.length)) (Nat.le_refl _)
      refine ⟨bs ++ (s.buf ++ c.take (W - s.buf.length)) :: bs2, ?_, ?_, hlt2, ?_, rfl⟩
      · exact hbs.append (AllLen.cons (by simp; omega) hbs2)
      · simp only [List.flatten_append, List.flatten_cons, List.append_assoc]
        rw [← hm2, List.take_append_drop, hm, List.append_assoc]
      · show (mdBlocks _ _ _ _ _).1 = _
        rw [hh2, List.foldl_append, List.foldl_cons, hh]

theorem mdFold_inv {σ : Type} (C : σ → Bytes → σ) (W cbits : Nat) (hW : 0 < W) (iv : σ) :
    ∀ (cs : List Bytes) (s : MdState σ) (m : Bytes), MdInv C W cbits iv s m →
      (∀ n, n ≤ (m ++ cs.flatten).length → CountOk W cbits n) →
      MdInv C W cbits iv (cs.foldl (mdUpdate C W cbits) s) (m ++ cs.flatten)
  | [], s, m, h, _ => by simpa using h
  | c :: cs, s, m, h, hok => by
    have h1 := mdUpdate_inv C W cbits hW iv s m c h (hok _ (by simp))
    have := mdFold_inv C W cbits hW iv cs _ _ h1 (by simpa [List.append_assoc] using hok)
    simpa [List.append_assoc] using this

theorem toBE_length (n v : Nat) : (toBE n v).length = n := by
  simp [toBE, toLE_length]

theorem zeros_length (n : Nat) : (zeros n).length = n := by simp [zeros]

theorem zeros_add (a b : Nat) : zeros (a + b) = zeros a ++ zeros b := by
  simp [zeros, List.replicate_append_replicate]

/-- the two-branch padding equals folding over the blocks of `m ‖ pad` -/
theorem mdPadFinal_spec {σ : Type} (C : σ → Bytes → σ) (W cbits : Nat) (hW : 0 < W)
    (hl : cbits / 8 < W) (iv : σ) (s : MdState σ) (m : Bytes) (h : MdInv C W cbits iv s m)
    (hok : CountOk W cbits m.length)
    (hcount : toBE (cbits / 8) ((8 * m.length) % 2 ^ cbits) = toBE (cbits / 8) (8 * m.length)) :
    mdPadFinal C W cbits s =
      (Spec.Sha256.blocks W (m ++ (0x80 :: zeros ((2 * W - 1 - cbits / 8 - m.length % W) % W)
        ++ toBE (cbits / 8) (8 * m.length)))).foldl C iv := by
  obtain ⟨hr, hr2⟩ := h.rem hok
  obtain ⟨bs, hbs, hm, hlt, hh, hc⟩ := h
  unfold mdPadFinal
  simp only [hr, hr2]
  rw [← hcount, ← hc]
  conv => rhs; rw [hm, List.append_assoc]
  rw [blocks_flatten_append W hW bs _ hbs, List.foldl_append, ← hh]
  by_cases hs : s.buf.length < W - cbits / 8
  · simp only [hs, if_true]
    have hk : (2 * W - 1 - cbits / 8 - s.buf.length) % W = W - cbits / 8 - s.buf.length - 1 := by
      have : 2 * W - 1 - cbits / 8 - s.buf.length = W + (W - cbits / 8 - s.buf.length - 1) := by omega
      rw [this, Nat.add_mod_left, Nat.mod_eq_of_lt (by omega)]
    rw [hk, blocks_single W _ (by simp; omega) (by simp [zeros_length, toBE_length]; omega)]
    simp
  · simp only [hs, if_false]
    have hk : (2 * W - 1 - cbits / 8 - s.buf.length) % W = (W - s.buf.length - 1) + (W - cbits / 8) := by
      rw [Nat.mod_eq_of_lt (by omega)]; omega
    rw [hk, zeros_add]
    have e : s.buf ++ (0x80 :: (zeros (W - s.buf.length - 1) ++ zeros (W - cbits / 8)) ++ toBE (cbits / 8) s.count)
        = (s.buf ++ 0x80 :: zeros (W - s.buf.length - 1)) ++ (zeros (W - cbits / 8) ++ toBE (cbits / 8) s.count) := by
      simp
    rw [e, blocks_cons_block W hW _ _ (by simp [zeros_length]; omega),
      blocks_single W _ (by simp [zeros_length, toBE_length]; omega) (by simp [zeros_length, toBE_length]; omega)]
    simp

/-- chunking theorem when the bit length fits the counter -/
theorem md_chunks_aux {σ : Type} (C : σ → Bytes → σ) (W cbits : Nat) (hW : 0 < W)
    (hl : cbits / 8 < W) (iv : σ) (cs : List Bytes) (hfit : 8 * cs.flatten.length < 2 ^ cbits) :
    mdPadFinal C W cbits (cs.foldl (mdUpdate C W cbits) (mdInit iv)) =
      (Spec.Sha256.blocks W (cs.flatten ++ (0x80 :: zeros ((2 * W - 1 - cbits / 8 - cs.flatten.length % W) % W)
        ++ toBE (cbits / 8) (8 * cs.flatten.length)))).foldl C iv := by
  have h := mdFold_inv C W cbits hW iv cs _ _ (mdInit_inv C W cbits hW iv)
    (fun n hn => countOk_of_fit hfit (by simpa using hn))
  simp only [List.nil_append] at h
  exact mdPadFinal_spec C W cbits hW hl iv _ _ h (countOk_of_fit hfit (Nat.le_refl _))
    (by rw [Nat.mod_eq_of_lt hfit])

/-- chunking theorem for every length, when the counter wraps compatibly with the block size
    (8·W divides 2^cbits) and the length field is the whole counter (8 ∣ cbits): both the model and
    the specification then encode the bit length mod 2^cbits -/
theorem md_chunks_wrap {σ : Type} (C : σ → Bytes → σ) (W cbits q : Nat) (hW : 0 < W) (hc : cbits % 8 = 0)
    (hl : cbits / 8 < W) (hd : 2 ^ cbits = 8 * (W * q)) (iv : σ) (cs : List Bytes) :
    mdPadFinal C W cbits (cs.foldl (mdUpdate C W cbits) (mdInit iv)) =
      (Spec.Sha256.blocks W (cs.flatten ++ (0x80 :: zeros ((2 * W - 1 - cbits / 8 - cs.flatten.length % W) % W)
        ++ toBE (cbits / 8) (8 * cs.flatten.length)))).foldl C iv := by
  have h := mdFold_inv C W cbits hW iv cs _ _ (mdInit_inv C W cbits hW iv)
    (fun n _ => countOk_of_dvd hd n)
  simp only [List.nil_append] at h
  exact mdPadFinal_spec C W cbits hW hl iv _ _ h (countOk_of_dvd hd _) (toBE_mod_pow _ _ hc)

/-- SHA-256 streaming = specification for every chunk list (no length bound: the 64-bit counter and
    the specification's 64-bit length field wrap identically) -/
theorem sha256_chunks_all (cs : List Bytes) :
    Spec.Sha256.digest (mdPadFinal Spec.Sha256.compress 64 64
        (cs.foldl (mdUpdate Spec.Sha256.compress 64 64) (mdInit Spec.Sha256.iv)))
      = Spec.Sha256.hash cs.flatten := by
  rw [md_chunks_wrap Spec.Sha256.compress 64 64 (2 ^ 55) (by omega) (by omega) (by omega) (by decide)
    Spec.Sha256.iv cs]
  rfl

theorem sha512_chunks_all (cs : List Bytes) :
    Spec.Sha512.digest (mdPadFinal Spec.Sha512.compress 128 128
        (cs.foldl (mdUpdate Spec.Sha512.compress 128 128) (mdInit Spec.Sha512.iv)))
      = Spec.Sha512.hash cs.flatten := by
  rw [md_chunks_wrap Spec.Sha512.compress 128 128 (2 ^ 118) (by omega) (by omega) (by omega) (by decide)
    Spec.Sha512.iv cs]
  unfold Spec.Sha512.hash
  rw [sha512_blocks_eq]
  rfl

theorem sha256_digest_length (s : Spec.Sha256.State) : (Spec.Sha256.digest s).length = 32 := by
  simp [Spec.Sha256.digest, List.range, List.range.loop, toBE_length]

theorem sha512_digest_length (s : Spec.Sha512.State) : (Spec.Sha512.digest s).length = 64 := by
  simp [Spec.Sha512.digest, List.range, List.range.loop, toBE_length]

/-! ### BLAKE2b -/

theorem getD_pad (b : Bytes) (k i : Nat) : (b ++ zeros k).toArray.getD i 0 = b.toArray.getD i 0 := by
  simp only [Array.getD_eq_getD_getElem?, List.getElem?_toArray]
  by_cases h : i < b.length
  · rw [List.getElem?_append_left h]
  · rw [List.getElem?_append_right (by omega), List.getElem?_eq_none (l := b) (by omega)]
    simp [zeros, List.getElem?_replicate]
    split <;> rfl

theorem load64le_pad (b : Bytes) (k i : Nat) :
    Spec.Blake2b.load64le (b ++ zeros k).toArray i = Spec.Blake2b.load64le b.toArray i := by
  unfold Spec.Blake2b.load64le
  simp only [getD_pad]

/-- `compress` reads a short block as if zero-extended -/
theorem compress_pad (h : Spec.Blake2b.State) (b : Bytes) (k t : Nat) (l : Bool) :
    Spec.Blake2b.compress h (b ++ zeros k) t l = Spec.Blake2b.compress h b t l := by
  unfold Spec.Blake2b.compress
  simp only [load64le_pad]

/-- chain of non-final compressions with counters t+128, t+256, … -/
def b2Chain {σ : Type} (F : σ → Bytes → Nat → Bool → σ) (h : σ) (t : Nat) : List Bytes → σ
  | [] => h
  | b :: bs => b2Chain F (F h b (t + 128) false) (t + 128) bs

theorem b2Chain_append {σ : Type} (F : σ → Bytes → Nat → Bool → σ) :
    ∀ (as bs : List Bytes) (h : σ) (t : Nat),
      b2Chain F h t (as ++ bs) = b2Chain F (b2Chain F h t as) (t + 128 * as.length) bs
  | [], bs, h, t => by simp [b2Chain]
  | a :: as, bs, h, t => by
    simp only [List.cons_append, b2Chain, b2Chain_append F as bs, List.length_cons]
    congr 1; omega

theorem b2Chain_snoc {σ : Type} (F : σ → Bytes → Nat → Bool → σ) (bs : List Bytes) (b : Bytes) (h : σ) (t : Nat) :
    b2Chain F h t (bs ++ [b]) = F (b2Chain F h t bs) b (t + 128 * bs.length + 128) false := by
  rw [b2Chain_append]; rfl

/-- state after absorbing `d` (key block, if any, followed by message bytes) through the lazy buffer -/
def B2Inv {σ : Type} (F : σ → Bytes → Nat → Bool → σ) (h0 : σ) (s : B2State σ) (d : Bytes) : Prop :=
  ∃ bs : List Bytes, AllLen 128 bs ∧ d = bs.flatten ++ s.buf ∧ s.buf.length ≤ 256 ∧
    (bs ≠ [] → 128 ≤ s.buf.length) ∧ s.t = 128 * bs.length ∧ s.h = b2Chain F h0 0 bs ∧ s.last = false

theorem b2Update_inv {σ : Type} (F : σ → Bytes → Nat → Bool → σ) (h0 : σ) :
    ∀ (fuel : Nat) (s : B2State σ) (c d : Bytes), B2Inv F h0 s d →
      (c = [] ∨ c.length + (if s.buf.length = 256 then 1 else 0) ≤ fuel) →
      B2Inv F h0 (b2Update F fuel s c) (d ++ c) := by
  intro fuel
  induction fuel with
  | zero =>
    intro s c d h hf
    have : c = [] := by
      rcases hf with hf | hf
      · exact hf
      · exact List.eq_nil_of_length_eq_zero (by omega)
    subst this
    simpa [b2Update] using h
  | succ fuel ih =>
    intro s c d h hf
    unfold b2Update
    by_cases he : c.isEmpty = true
    · have : c = [] := List.isEmpty_iff.mp he
      subst this
      simpa using h
    · have hne : c ≠ [] := fun hc => he (by simp [hc])
      have hcl : 0 < c.length := List.length_pos_iff.mpr hne
      rcases hf with hf | hf
      · exact absurd hf hne
      simp only [he, Bool.false_eq_true, if_false]
      obtain ⟨bs, hbs, hd, hle, hbig, ht, hh, hlast⟩ := h
      by_cases hgt : c.length > 256 - s.buf.length
      · simp only [hgt, if_true]
        have hfl : (s.buf ++ c.take (256 - s.buf.length)).length = 256 := by
          simp; omega
        have key := ih
          { s with h := F s.h ((s.buf ++ c.take (256 - s.buf.length)).take 128) (s.t + 128) false,
                   t := s.t + 128, buf := (s.buf ++ c.take (256 - s.buf.length)).drop 128 }
          (c.drop (256 - s.buf.length)) (d ++ c.take (256 - s.buf.length))
          ⟨bs ++ [(s.buf ++ c.take (256 - s.buf.length)).take 128],
            hbs.snoc (by rw [List.length_take, hfl]; rfl), by
              simp only [List.flatten_append, List.flatten_cons, List.flatten_nil, List.append_nil,
                List.append_assoc]
              rw [List.take_append_drop, hd, List.append_assoc],
            by rw [List.length_drop, hfl]; omega,
            by intro _; rw [List.length_drop, hfl]; omega,
            by simp only [List.length_append, List.length_cons, List.length_nil]; omega,
            by rw [b2Chain_snoc, ← hh, ht]; simp,
            hlast⟩
          (Or.inr (by
            simp only [List.length_drop, hfl]
            split at hf <;> simp <;> omega))
        rw [List.append_assoc, List.take_append_drop] at key
        exact key
      · simp only [hgt, if_false]
        refine ⟨bs, hbs, by simp [hd], by simp; omega, ?_, ht, hh, hlast⟩
        intro hb; have := hbig hb; simp; omega

theorem b2Fold_inv {σ : Type} (F : σ → Bytes → Nat → Bool → σ) (h0 : σ) :
    ∀ (cs : List Bytes) (s : B2State σ) (d : Bytes), B2Inv F h0 s d →
      B2Inv F h0 (cs.foldl (fun s c => b2Update F (c.length + 1) s c) s) (d ++ cs.flatten)
  | [], s, d, h => by simpa using h
  | c :: cs, s, d, h => by
    have h1 := b2Update_inv F h0 (c.length + 1) s c d h (Or.inr (by split <;> omega))
    have := b2Fold_inv F h0 cs _ _ h1
    simpa [List.append_assoc] using this

theorem b2Init_inv {σ : Type} (F : σ → Bytes → Nat → Bool → σ) (paramInit : Nat → Nat → Bytes → Bytes → σ)
    (outlen : Nat) (key salt personal : Bytes) (hk : key.length ≤ 128) :
    B2Inv F (paramInit outlen key.length salt personal) (b2Init F paramInit outlen key salt personal)
      (if key.isEmpty then [] else key ++ zeros (128 - key.length)) := by
  unfold b2Init
  by_cases he : key.isEmpty = true
  · simp only [he, if_true]
    exact ⟨[], AllLen.nil 128, rfl, by simp, by simp, rfl, rfl, rfl⟩
  · simp only [he, Bool.false_eq_true, if_false]
    have hne : key ≠ [] := fun hc => he (by simp [hc])
    have hcl : 0 < key.length := List.length_pos_iff.mpr hne
    have hkb : (key ++ zeros (128 - key.length)).length = 128 := by simp [zeros_length]; omega
    have hne2 : (key ++ zeros (128 - key.length)).isEmpty = false := by
      cases key with
      | nil => exact absurd rfl hne
      | cons x xs => rfl
    have : b2Update F 2 ⟨paramInit outlen key.length salt personal, 0, [], false⟩ (key ++ zeros (128 - key.length))
        = ⟨paramInit outlen key.length salt personal, 0, key ++ zeros (128 - key.length), false⟩ := by
      simp only [b2Update, hne2, Bool.false_eq_true, if_false, hkb, List.length_nil, List.nil_append]
      simp
    rw [this]
    exact ⟨[], AllLen.nil 128, rfl, by simp only [hkb]; omega, by simp, rfl, rfl, rfl⟩

/-- `Spec.Blake2b.absorb` over an arbitrary compression function -/
def b2Absorb {σ : Type} (F : σ → Bytes → Nat → Bool → σ) (h : σ) (t : Nat) : List Bytes → σ
  | [] => h
  | [b] => F h b (t + b.length) true
  | b :: b' :: bs => b2Absorb F (F h b (t + 128) false) (t + 128) (b' :: bs)

theorem absorb_eq : ∀ (l : List Bytes) (h : Spec.Blake2b.State) (t : Nat),
    Spec.Blake2b.absorb h t l = b2Absorb Spec.Blake2b.compress h t l
  | [], _, _ => rfl
  | [_], _, _ => rfl
  | b :: b' :: bs, h, t => by
    simp only [Spec.Blake2b.absorb, b2Absorb]
    exact absorb_eq (b' :: bs) _ _

section b2final
variable {σ : Type} (F : σ → Bytes → Nat → Bool → σ)

theorem b2Absorb_cons (h : σ) (t : Nat) (b : Bytes) : ∀ (l : List Bytes), l ≠ [] →
    b2Absorb F h t (b :: l) = b2Absorb F (F h b (t + 128) false) (t + 128) l
  | [], hl => absurd rfl hl
  | _ :: _, _ => rfl

theorem b2Absorb_chain : ∀ (bs : List Bytes) (h : σ) (t : Nat) (last : Bytes),
    b2Absorb F h t (bs ++ [last]) = F (b2Chain F h t bs) last (t + 128 * bs.length + last.length) true
  | [], h, t, last => by simp [b2Absorb, b2Chain]
  | b :: bs, h, t, last => by
    rw [List.cons_append, b2Absorb_cons _ _ _ _ _ (by simp), b2Absorb_chain bs]
    simp only [b2Chain, List.length_cons]
    congr 1; omega

theorem match_nonempty : ∀ (l : List Bytes), l ≠ [] →
    (match l with
      | [] => [[]]
      | bs => bs) = l
  | [], h => absurd rfl h
  | _ :: _, _ => rfl

theorem b2Final_spec (digest : σ → Nat → Bytes)
    (hpad : ∀ (h : σ) (b : Bytes) (k t : Nat) (l : Bool), F h (b ++ zeros k) t l = F h b t l)
    (h0 : σ) (s : B2State σ) (d : Bytes) (outlen : Nat) (h : B2Inv F h0 s d) :
    b2Final F digest s outlen =
      .ok (digest (b2Absorb F h0 0
        (match Spec.Sha256.blocks 128 d with
          | [] => [[]]
          | bs => bs)) outlen) := by
  obtain ⟨bs, hbs, hd, hle, hbig, ht, hh, hlast⟩ := h
  unfold b2Final
  simp only [hlast, Bool.false_eq_true, if_false]
  rw [hd, blocks_flatten_append 128 (by omega) bs _ hbs]
  by_cases hgt : s.buf.length > 128
  · simp only [hgt, if_true]
    have hsplit : Spec.Sha256.blocks 128 s.buf = [s.buf.take 128, s.buf.drop 128] := by
      conv => lhs; rw [← List.take_append_drop 128 s.buf]
      rw [blocks_cons_block 128 (by omega) _ _ (by rw [List.length_take]; omega),
        blocks_single 128 _ (by rw [List.length_drop]; omega) (by rw [List.length_drop]; omega)]
    rw [hsplit, match_nonempty _ (by simp)]
    have : bs ++ [s.buf.take 128, s.buf.drop 128] = (bs ++ [s.buf.take 128]) ++ [s.buf.drop 128] := by simp
    rw [this, b2Absorb_chain, b2Chain_snoc, ← hh, hpad, ht]
    simp only [List.length_append, List.length_cons, List.length_nil, Nat.zero_add, Nat.mul_add,
      Nat.mul_one]
  · simp only [hgt, if_false]
    by_cases hz : s.buf.length = 0
    · have hb0 := List.eq_nil_of_length_eq_zero hz
      have hbs0 : bs = [] := by
        by_cases hb : bs = []
        · exact hb
        · have := hbig hb; omega
      subst hbs0
      simp only [hb0, blocks_nil, List.append_nil, b2Absorb, b2Chain] at hh ⊢
      rw [hh, ht]
      have := hpad h0 [] (128 - 0) (0 + 0) true
      simpa using congrArg (fun x => B2Final.ok (digest x outlen)) this
    · rw [blocks_single 128 _ (by omega) (by omega), match_nonempty _ (by simp), b2Absorb_chain, ← hh,
        hpad, ht]
      simp

end b2final

theorem blake2b_chunks_aux (outlen : Nat) (key salt personal : Bytes) (cs : List Bytes) (hk : key.length ≤ 64) :
    b2Final Spec.Blake2b.compress Spec.Blake2b.digest
        (cs.foldl (fun s c => b2Update Spec.Blake2b.compress (c.length + 1) s c)
          (b2Init Spec.Blake2b.compress Spec.Blake2b.paramInit outlen key salt personal)) outlen
      = .ok (Spec.Blake2b.hash outlen key salt personal cs.flatten) := by
  have hi := b2Init_inv Spec.Blake2b.compress Spec.Blake2b.paramInit outlen key salt personal (by omega)
  have hf := b2Fold_inv Spec.Blake2b.compress _ cs _ _ hi
  rw [b2Final_spec Spec.Blake2b.compress Spec.Blake2b.digest compress_pad _ _ _ outlen hf]
  unfold Spec.Blake2b.hash
  simp only []
  rw [absorb_eq, blake2b_blocks_eq]
  rfl

theorem generichash_aux (outlen : Nat) (msg key salt personal : Bytes) :
    generichash Spec.Blake2b.compress Spec.Blake2b.paramInit Spec.Blake2b.digest outlen msg key salt personal =
      if outlen = 0 ∨ outlen > 64 ∨ key.length > 64 then .err
      else .ok (Spec.Blake2b.hash outlen key salt personal msg) := by
  unfold generichash
  by_cases hr : outlen = 0 ∨ outlen > 64 ∨ key.length > 64
  · rw [if_pos hr, if_pos hr]
  · rw [if_neg hr, if_neg hr]
    have h := blake2b_chunks_aux outlen key salt personal [msg] (by omega)
    simp only [List.foldl_cons, List.foldl_nil, List.flatten_cons, List.flatten_nil, List.append_nil] at h
    simp only [h]

theorem kdf_blake2b_aux (n : Nat) (id : UInt64) (ctx key : Bytes) (hc : ctx.length = 8) (hk : key.length = 32) :
    kdfBlake2b Spec.Blake2b.compress Spec.Blake2b.paramInit Spec.Blake2b.digest n id ctx key =
      if n < 16 ∨ n > 64 then .err
      else .ok (Spec.Blake2b.hash n key (toLE 8 id.toNat ++ zeros 8) (ctx ++ zeros 8) []) := by
  unfold kdfBlake2b
  by_cases hr : n < 16 ∨ n > 64
  · rw [if_pos hr, if_pos hr]
  · rw [if_neg hr, if_neg hr, generichash_aux, if_neg (by omega), List.take_of_length_le (by omega)]

end Sodium
