import SodiumModel.Model.Hash
import SodiumModel.Spec.Sha256
import SodiumModel.Spec.Sha512
import SodiumModel.Spec.Blake2b
import SodiumModel.Spec.Poly1305
import SodiumModel.Proofs.Utils
/-
  Helper lemmas for C04 (hash / MAC / KDF front-ends).
-/
open Sodium Sodium.Model
namespace Sodium

end Sodium
