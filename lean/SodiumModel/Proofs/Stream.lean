import SodiumModel.Model.Stream
import SodiumModel.Spec.Chacha
import SodiumModel.Proofs.Utils
/-
  Helper lemmas for C03 (stream ciphers).
-/
open Sodium Sodium.Model
namespace Sodium

end Sodium
