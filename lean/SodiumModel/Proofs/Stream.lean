import SodiumModel.Model.Stream
import SodiumModel.Spec.Chacha
import SodiumModel.Proofs.Utils
/-
  Helper lemmas for C03 (stream ciphers).
-/
open Sodium Sodium.Model
namespace Sodium

/-! ### xorBytes -/

theorem xorBytes_nil_left (k : Bytes) : xorBytes [] k = [] := by
  cases k <;> rfl

theorem xorBytes_nil_right (m : Bytes) : xorBytes m [] = [] := by
  cases m <;> rfl

theorem xorBytes_length : ∀ a b : Bytes, (xorBytes a b).length = min a.length b.length
  | [], b => by simp [xorBytes_nil_left]
  | _ :: _, [] => by simp [xorBytes]
  | x :: xs, y :: ys => by
    simp only [xorBytes, List.length_cons, xorBytes_length xs ys]; omega

/-- splitting the key stream at any point splits the message at the same point -/
theorem xorBytes_append_right : ∀ (m a r : Bytes),
    xorBytes m (a ++ r) = xorBytes (m.take a.length) a ++ xorBytes (m.drop a.length) r
  | m, [], r => by simp [xorBytes_nil_right]
  | [], _ :: _, r => by simp [xorBytes_nil_left]
  | x :: xs, y :: ys, r => by
    simp [xorBytes, xorBytes_append_right xs ys r]

theorem xorBytes_append (a b c d : Bytes) (h : a.length = c.length) :
    xorBytes (a ++ b) (c ++ d) = xorBytes a c ++ xorBytes b d := by
  rw [xorBytes_append_right, ← h]; simp

/-- only the first `m.length` key-stream bytes matter -/
theorem xorBytes_take_right : ∀ (m k : Bytes) (n : Nat), m.length ≤ n →
    xorBytes m (k.take n) = xorBytes m k
  | [], k, n, _ => by simp [xorBytes_nil_left]
  | _ :: _, [], n, _ => by simp
  | x :: xs, y :: ys, 0, h => by simp at h
  | x :: xs, y :: ys, n + 1, h => by
    simp [xorBytes, xorBytes_take_right xs ys n (by simpa using h)]

theorem xorBytes_drop : ∀ (a b : Bytes) (n : Nat),
    (xorBytes a b).drop n = xorBytes (a.drop n) (b.drop n)
  | a, b, 0 => by simp
  | [], b, n + 1 => by simp [xorBytes_nil_left]
  | _ :: _, [], n + 1 => by simp [xorBytes, xorBytes_nil_right]
  | x :: xs, y :: ys, n + 1 => by simp [xorBytes, xorBytes_drop xs ys n]

theorem xorBytes_zeros_left : ∀ (n : Nat) (k : Bytes), xorBytes (zeros n) k = k.take n
  | 0, k => by simp [zeros, xorBytes_nil_left]
  | n + 1, [] => by simp [zeros, List.replicate_succ, xorBytes]
  | n + 1, y :: ys => by
    have := xorBytes_zeros_left n ys
    simp only [zeros] at this
    simp [zeros, List.replicate_succ, xorBytes, this]

/-! ### consecutive blocks and `streamFrom` -/

/-- `n` consecutive blocks starting at block number `c` -/
def blocks (blk : Nat → Bytes) (c n : Nat) : Bytes :=
  (List.range n).flatMap fun i => blk (c + i)

theorem blocks_zero (blk : Nat → Bytes) (c : Nat) : blocks blk c 0 = [] := rfl

theorem blocks_succ (blk : Nat → Bytes) (c n : Nat) :
    blocks blk c (n + 1) = blk c ++ blocks blk (c + 1) n := by
  simp only [blocks, List.range_succ_eq_map, List.flatMap_cons, List.flatMap_map, Nat.add_zero]
  congr 2
  funext i
  simp [Nat.add_assoc, Nat.add_comm 1 i]

theorem blocks_length (blk : Nat → Bytes) (h : ∀ i, (blk i).length = 64) (c n : Nat) :
    (blocks blk c n).length = 64 * n := by
  induction n generalizing c with
  | zero => rfl
  | succ n ih => rw [blocks_succ, List.length_append, h, ih]; omega

theorem blocks_add (blk : Nat → Bytes) (c a b : Nat) :
    blocks blk c (a + b) = blocks blk c a ++ blocks blk (c + a) b := by
  induction a generalizing c with
  | zero => simp [blocks_zero]
  | succ a ih =>
    rw [Nat.add_right_comm a 1 b, blocks_succ, blocks_succ, ih, List.append_assoc]
    congr 3; omega

theorem blocks_congr (blk blk' : Nat → Bytes) (c c' n : Nat)
    (h : ∀ i, i < n → blk (c + i) = blk' (c' + i)) : blocks blk c n = blocks blk' c' n := by
  induction n generalizing c c' with
  | zero => rfl
  | succ n ih =>
    rw [blocks_succ, blocks_succ, ih (c + 1) (c' + 1)]
    · have := h 0 (by omega); simp only [Nat.add_zero] at this; rw [this]
    · intro i hi
      have := h (i + 1) (by omega)
      simpa [Nat.add_assoc, Nat.add_comm 1 i] using this

/-- block-aligned start: `streamFrom` is a prefix of the consecutive blocks from `c` -/
theorem streamFrom_aligned (blk : Nat → Bytes) (c len : Nat) :
    Spec.Chacha.streamFrom blk (64 * c) len = (blocks blk c ((len + 63) / 64)).take len := by
  simp only [Spec.Chacha.streamFrom, blocks, Nat.mul_mod_right, Nat.zero_add, List.drop_zero]
  rw [Nat.mul_div_cancel_left c (by decide : 0 < 64)]

theorem streamFrom_zero (blk : Nat → Bytes) (len : Nat) :
    Spec.Chacha.streamFrom blk 0 len = (blocks blk 0 ((len + 63) / 64)).take len := by
  have := streamFrom_aligned blk 0 len
  simpa using this

theorem streamFrom_length (blk : Nat → Bytes) (h : ∀ i, (blk i).length = 64) (c len : Nat) :
    (Spec.Chacha.streamFrom blk (64 * c) len).length = len := by
  rw [streamFrom_aligned, List.length_take, blocks_length blk h]; omega

/-- skipping whole blocks of the stream from 0 gives the stream from that block -/
theorem streamFrom_drop (blk : Nat → Bytes) (h : ∀ i, (blk i).length = 64) (a len : Nat) :
    (Spec.Chacha.streamFrom blk 0 (64 * a + len)).drop (64 * a) =
      Spec.Chacha.streamFrom blk (64 * a) len := by
  rw [streamFrom_zero, streamFrom_aligned, List.drop_take]
  have hn : (64 * a + len + 63) / 64 = a + (len + 63) / 64 := by omega
  rw [hn, blocks_add, Nat.zero_add, List.drop_append_of_le_length (by rw [blocks_length blk h]; omega)]
  rw [List.drop_of_length_le (by rw [blocks_length blk h]; omega)]
  simp

/-! ### the abstract loop: one block per iteration, block numbers in `Nat` -/

def specLoop (blk : Nat → Bytes) : Nat → Nat → Bytes → Bytes
  | 0, _, _ => []
  | fuel + 1, c, m =>
    if m.isEmpty then [] else
    xorBytes (m.take 64) (blk c) ++ specLoop blk fuel (c + 1) (m.drop 64)

theorem specLoop_eq_blocks (blk : Nat → Bytes) (h : ∀ i, (blk i).length = 64) :
    ∀ (fuel c : Nat) (m : Bytes), (m.length + 63) / 64 ≤ fuel →
      specLoop blk fuel c m = xorBytes m (blocks blk c ((m.length + 63) / 64))
  | 0, c, m, hf => by
    have : m = [] := by
      cases m with
      | nil => rfl
      | cons x xs => simp only [List.length_cons] at hf; omega
    subst this; simp [specLoop, xorBytes_nil_left]
  | fuel + 1, c, m, hf => by
    cases hm : m with
    | nil => simp [specLoop, xorBytes_nil_left]
    | cons x xs =>
      have hne : m.isEmpty = false := by simp [hm]
      have hpos : 0 < m.length := by simp [hm]
      rw [← hm]
      have hn : (m.length + 63) / 64 = ((m.drop 64).length + 63) / 64 + 1 := by
        rw [List.length_drop]; omega
      have ih := specLoop_eq_blocks blk h fuel (c + 1) (m.drop 64) (by omega)
      simp only [specLoop, hne, Bool.false_eq_true, if_false]
      rw [ih, hn, blocks_succ, xorBytes_append_right, h]

theorem specLoop_eq_stream (blk : Nat → Bytes) (h : ∀ i, (blk i).length = 64)
    (fuel c : Nat) (m : Bytes) (hf : (m.length + 63) / 64 ≤ fuel) :
    specLoop blk fuel c m = xorBytes m (Spec.Chacha.streamFrom blk (64 * c) m.length) := by
  rw [specLoop_eq_blocks blk h fuel c m hf, streamFrom_aligned,
    xorBytes_take_right _ _ _ (Nat.le_refl _)]

/-! ### ChaCha20: the two 32-bit counter words -/

/-- `(j12 + 1, if j12 + 1 = 0 then j13 + 1 else j13)` represents the next block number mod 2^64 -/
theorem chacha_ctr_step (j12 j13 : UInt32) (c : Nat)
    (hc : c % 2 ^ 64 = j12.toNat + 2 ^ 32 * j13.toNat) :
    (c + 1) % 2 ^ 64 =
      (j12 + 1).toNat + 2 ^ 32 * (if j12 + 1 = 0 then j13 + 1 else j13).toNat := by
  have h1 := j12.toNat_lt; have h2 := j13.toNat_lt
  have ha : (j12 + 1).toNat = (j12.toNat + 1) % 2 ^ 32 := by rw [UInt32.toNat_add]; rfl
  have hb : (j13 + 1).toNat = (j13.toNat + 1) % 2 ^ 32 := by rw [UInt32.toNat_add]; rfl
  by_cases hz : j12 + 1 = 0
  · have hz' : (j12 + 1).toNat = 0 := by rw [hz]; rfl
    rw [if_pos hz, hb, hz']
    omega
  · have hz' : (j12 + 1).toNat ≠ 0 := fun e => hz (UInt32.toNat_inj.mp (by rw [e]; rfl))
    rw [if_neg hz, ha]
    omega

theorem chachaLoop_eq_specLoop (B : BlockFn) (blk : Nat → Bytes)
    (hblk : ∀ i, blk i = B (UInt32.ofNat (i % 2 ^ 64 % 2 ^ 32)) (UInt32.ofNat (i % 2 ^ 64 / 2 ^ 32 % 2 ^ 32))) :
    ∀ (fuel : Nat) (j12 j13 : UInt32) (c : Nat) (m : Bytes),
      c % 2 ^ 64 = j12.toNat + 2 ^ 32 * j13.toNat →
      chachaLoop B fuel j12 j13 m = specLoop blk fuel c m
  | 0, _, _, _, _, _ => rfl
  | fuel + 1, j12, j13, c, m, hc => by
    have h1 := j12.toNat_lt; have h2 := j13.toNat_lt
    have hb : blk c = B j12 j13 := by
      rw [hblk, hc]
      have e1 : (j12.toNat + 2 ^ 32 * j13.toNat) % 2 ^ 32 = j12.toNat := by omega
      have e2 : (j12.toNat + 2 ^ 32 * j13.toNat) / 2 ^ 32 % 2 ^ 32 = j13.toNat := by omega
      rw [e1, e2, UInt32.ofNat_toNat, UInt32.ofNat_toNat]
    have ih := chachaLoop_eq_specLoop B blk hblk fuel (j12 + 1)
      (if j12 + 1 = 0 then j13 + 1 else j13) (c + 1) (m.drop 64) (chacha_ctr_step j12 j13 c hc)
    simp only [chachaLoop, specLoop, hb, ih]

/-- IETF layout, no counter wrap: if the last block number stays below 2^32, word 13 (the first nonce
    word) is never touched and block `i` uses the 32-bit counter `i` -/
theorem ietf_loop_eq (Bi : BlockFn) (hB : ∀ a b, (Bi a b).length = 64) (n0 ic : UInt32) (m : Bytes)
    (h : ic.toNat + (m.length + 63) / 64 ≤ 2 ^ 32) :
    chacha_ietf_ext_xor_ic Bi n0 ic m =
      xorBytes m (Spec.Chacha.streamFrom (fun i => Bi (UInt32.ofNat i) n0) (64 * ic.toNat) m.length) := by
  have h1 := ic.toNat_lt; have h2 := n0.toNat_lt
  rw [chacha_ietf_ext_xor_ic,
    chachaLoop_eq_specLoop Bi _ (fun _ => rfl) _ _ _ (ic.toNat + 2 ^ 32 * n0.toNat) m (by omega),
    specLoop_eq_blocks _ (fun _ => hB _ _) _ _ _ (by omega), streamFrom_aligned,
    xorBytes_take_right _ _ _ (Nat.le_refl _)]
  congr 1
  apply blocks_congr
  intro i hi
  have e1 : (ic.toNat + 2 ^ 32 * n0.toNat + i) % 2 ^ 64 % 2 ^ 32 = ic.toNat + i := by omega
  have e2 : (ic.toNat + 2 ^ 32 * n0.toNat + i) % 2 ^ 64 / 2 ^ 32 % 2 ^ 32 = n0.toNat := by omega
  simp only [e1, e2, UInt32.ofNat_toNat]

/-! ### IETF guard -/

theorem ietfGuardFails_iff (ic : UInt32) (mlen : UInt64) :
    ietfGuardFails ic mlen = true ↔
      (2 ^ 38 < mlen.toNat ∨
        ic.toNat > (2 ^ 64 + 2 ^ 32 - (mlen.toNat + 63) % 2 ^ 64 / 64) % 2 ^ 64) := by
  have hk : (274877906944 : UInt64) / 64 = 4294967296 := by decide
  have hk' : ((64 : UInt64) * ((1 : UInt64) <<< 32)) = 274877906944 := by decide
  have hk'' : (274877906944 : UInt64).toNat = 2 ^ 38 := by decide
  have h1 : (mlen + 63).toNat = (mlen.toNat + 63) % 2 ^ 64 := by rw [UInt64.toNat_add]; rfl
  have h2 : ((mlen + 63) / 64).toNat = (mlen.toNat + 63) % 2 ^ 64 / 64 := by
    rw [UInt64.toNat_div, h1]; rfl
  have h3 : ((4294967296 : UInt64) - (mlen + 63) / 64).toNat =
      (2 ^ 64 + 2 ^ 32 - (mlen.toNat + 63) % 2 ^ 64 / 64) % 2 ^ 64 := by
    rw [UInt64.toNat_sub, h2]
    have : (4294967296 : UInt64).toNat = 2 ^ 32 := by decide
    rw [this]
    have : (mlen.toNat + 63) % 2 ^ 64 / 64 ≤ 2 ^ 64 := by omega
    omega
  simp only [ietfGuardFails, hk', hk, Bool.or_eq_true, decide_eq_true_eq, GT.gt,
    UInt64.lt_iff_toNat_lt, h3, hk'', UInt32.toNat_toUInt64]

/-- the guard (with the `mlen > MESSAGEBYTES_MAX` disjunct) fires exactly when the request would run
    past block 2^32 — for every `ic` and every 64-bit `mlen` -/
theorem ietfGuardFails_spec (ic : UInt32) (mlen : UInt64) :
    ietfGuardFails ic mlen = true ↔ 2 ^ 32 < ic.toNat + (mlen.toNat + 63) / 64 := by
  have h1 := ic.toNat_lt; have h2 := mlen.toNat_lt
  rw [ietfGuardFails_iff]; omega

/-! ### Salsa20: byte-wise counter -/

theorem salsaCtrInc_length (u : UInt32) (n : Bytes) : (salsaCtrInc u n).length = n.length := by
  induction n generalizing u with
  | nil => rfl
  | cons x xs ih => simp [salsaCtrInc, ih]

theorem salsaCtrInc_le (u : UInt32) (n : Bytes) (hu : u.toNat ≤ 1) :
    ∃ k, k ≤ 1 ∧ le (salsaCtrInc u n) + k * 256 ^ n.length = u.toNat + le n := by
  induction n generalizing u with
  | nil => exact ⟨u.toNat, hu, by simp [salsaCtrInc, le]⟩
  | cons x xs ih =>
    have hx := x.toNat_lt
    have h1 : (u + x.toUInt32).toNat = u.toNat + x.toNat := by
      rw [UInt32.toNat_add]; simp; omega
    have h2 : ((u + x.toUInt32) >>> 8).toNat = (u.toNat + x.toNat) / 256 := by
      rw [UInt32.toNat_shiftRight, h1]; simp [Nat.shiftRight_eq_div_pow]
    have h3 : (u + x.toUInt32).toUInt8.toNat = (u.toNat + x.toNat) % 256 := by
      rw [UInt32.toNat_toUInt8, h1]
    obtain ⟨k, hk, ih⟩ := ih ((u + x.toUInt32) >>> 8) (by rw [h2]; omega)
    refine ⟨k, hk, ?_⟩
    simp only [salsaCtrInc, le, h3, List.length_cons, Nat.pow_succ]
    rw [h2] at ih
    have hk' : k = 0 ∨ k = 1 := by omega
    rcases hk' with rfl | rfl <;> simp at ih ⊢ <;> omega

theorem salsaCtrInc_one_le (ctr : Bytes) (h : ctr.length = 8) :
    le (salsaCtrInc 1 ctr) = (le ctr + 1) % 2 ^ 64 := by
  obtain ⟨k, hk, e⟩ := salsaCtrInc_le 1 ctr (by decide)
  have hlt := le_lt (salsaCtrInc 1 ctr)
  have hlt' := le_lt ctr
  rw [salsaCtrInc_length] at hlt
  rw [h] at e hlt hlt'
  have hp : (256 : Nat) ^ 8 = 2 ^ 64 := by decide
  rw [hp] at e hlt hlt'
  have h1 : (1 : UInt32).toNat = 1 := rfl
  rw [h1] at e
  have hk' : k = 0 ∨ k = 1 := by omega
  rcases hk' with rfl | rfl <;> omega

theorem salsaCtrInc_toLE (c : Nat) :
    salsaCtrInc 1 (toLE 8 (c % 2 ^ 64)) = toLE 8 ((c + 1) % 2 ^ 64) := by
  apply le_inj
  · rw [salsaCtrInc_length, toLE_length, toLE_length]
  · rw [salsaCtrInc_one_le _ (toLE_length _ _), le_toLE, le_toLE]
    have hp : (256 : Nat) ^ 8 = 2 ^ 64 := by decide
    rw [hp]; omega

theorem salsaLoop_eq_specLoop (S : SalsaBlockFn) :
    ∀ (fuel c : Nat) (m : Bytes),
      salsaLoop S fuel (toLE 8 (c % 2 ^ 64)) m = specLoop (fun i => S (toLE 8 (i % 2 ^ 64))) fuel c m
  | 0, _, _ => rfl
  | fuel + 1, c, m => by
    simp only [salsaLoop, specLoop, salsaCtrInc_toLE, salsaLoop_eq_specLoop S fuel (c + 1)]

theorem zeros8_eq : zeros 8 = toLE 8 (0 % 2 ^ 64) := by decide

end Sodium
