import SodiumModel.Proofs.X86Scalar2c
import SodiumModel.Proofs.Utils
import Mathlib.Tactic.Ring
/-
  Helper lemmas for `Properties/C05Asm3.lean`, part 1: the digit sum — the 32 bytes stored by fe51_pack.S are the
  little-endian encoding of the limb value (fully carried limbs).
-/
namespace Sodium.X86ScalarP
open Sodium Sodium.Model Sodium.Model.X86Scalar Sodium.Model.Fe51 Sodium.Fe51P Sodium.Spec
open Generated.Sandy2xAsm

/-- the linear core of the digit sum: given the per-limb digit decompositions, the Horner sum of the 32 bytes (the four
    straddling bytes being `r·2^j + q`) is the limb value -/
theorem horner (a0 a1 a2 a3 a4 a5 a7 a8 a9 a10 a11 a13 a14 a15 a16 a17 a18 a20 a21 a22 a23 a24 a26 a27 a28 a29 a30 a31 q0 q1 q2 q3 r1 r2 r3 r4 l0 l1 l2 l3 l4 : Nat)
    (d0 : l0 = a0 + 2 ^ 8 * a1 + 2 ^ 16 * a2 + 2 ^ 24 * a3 + 2 ^ 32 * a4 + 2 ^ 40 * a5 + 2 ^ 48 * q0)
    (d1 : l1 = r1 + 2 ^ 5 * a7 + 2 ^ 13 * a8 + 2 ^ 21 * a9 + 2 ^ 29 * a10 + 2 ^ 37 * a11 + 2 ^ 45 * q1)
    (d2 : l2 = r2 + 2 ^ 2 * a13 + 2 ^ 10 * a14 + 2 ^ 18 * a15 + 2 ^ 26 * a16 + 2 ^ 34 * a17 + 2 ^ 42 * a18 + 2 ^ 50 * q2)
    (d3 : l3 = r3 + 2 ^ 7 * a20 + 2 ^ 15 * a21 + 2 ^ 23 * a22 + 2 ^ 31 * a23 + 2 ^ 39 * a24 + 2 ^ 47 * q3)
    (d4 : l4 = r4 + 2 ^ 4 * a26 + 2 ^ 12 * a27 + 2 ^ 20 * a28 + 2 ^ 28 * a29 + 2 ^ 36 * a30 + 2 ^ 44 * a31) :
    a0 + 256 * (a1 + 256 * (a2 + 256 * (a3 + 256 * (a4 + 256 * (a5 + 256 * ((r1 * 8 + q0) + 256 * (a7 + 256 * (a8 + 256 * (a9 + 256 * (a10 + 256 * (a11 + 256 * ((r2 * 64 + q1) + 256 * (a13 + 256 * (a14 + 256 * (a15 + 256 * (a16 + 256 * (a17 + 256 * (a18 + 256 * ((r3 * 2 + q2) + 256 * (a20 + 256 * (a21 + 256 * (a22 + 256 * (a23 + 256 * (a24 + 256 * ((r4 * 16 + q3) + 256 * (a26 + 256 * (a27 + 256 * (a28 + 256 * (a29 + 256 * (a30 + 256 * (a31 + 256 * (0)))))))))))))))))))))))))))))))) =
      l0 + l1 * 2 ^ 51 + l2 * 2 ^ 102 + l3 * 2 ^ 153 + l4 * 2 ^ 204 := by
  subst d0 d1 d2 d3 d4
  ring

theorem digits0 (x : Nat) : x = x % 256 + 2 ^ 8 * (x / 2 ^ 8 % 256) + 2 ^ 16 * (x / 2 ^ 16 % 256) +
    2 ^ 24 * (x / 2 ^ 24 % 256) + 2 ^ 32 * (x / 2 ^ 32 % 256) + 2 ^ 40 * (x / 2 ^ 40 % 256) + 2 ^ 48 * (x / 2 ^ 48) := by omega
theorem digits1 (x : Nat) : x = x % 32 + 2 ^ 5 * (x / 2 ^ 5 % 256) + 2 ^ 13 * (x / 2 ^ 13 % 256) +
    2 ^ 21 * (x / 2 ^ 21 % 256) + 2 ^ 29 * (x / 2 ^ 29 % 256) + 2 ^ 37 * (x / 2 ^ 37 % 256) + 2 ^ 45 * (x / 2 ^ 45) := by omega
theorem digits2 (x : Nat) (h : x < 2 ^ 51) : x = x % 4 + 2 ^ 2 * (x / 2 ^ 2 % 256) + 2 ^ 10 * (x / 2 ^ 10 % 256) +
    2 ^ 18 * (x / 2 ^ 18 % 256) + 2 ^ 26 * (x / 2 ^ 26 % 256) + 2 ^ 34 * (x / 2 ^ 34 % 256) + 2 ^ 42 * (x / 2 ^ 42 % 256) +
    2 ^ 50 * (x / 2 ^ 50) := by omega
theorem digits3 (x : Nat) : x = x % 128 + 2 ^ 7 * (x / 2 ^ 7 % 256) + 2 ^ 15 * (x / 2 ^ 15 % 256) +
    2 ^ 23 * (x / 2 ^ 23 % 256) + 2 ^ 31 * (x / 2 ^ 31 % 256) + 2 ^ 39 * (x / 2 ^ 39 % 256) + 2 ^ 47 * (x / 2 ^ 47) := by omega
theorem digits4 (x : Nat) (h : x < 2 ^ 51) : x = x % 16 + 2 ^ 4 * (x / 2 ^ 4 % 256) + 2 ^ 12 * (x / 2 ^ 12 % 256) +
    2 ^ 20 * (x / 2 ^ 20 % 256) + 2 ^ 28 * (x / 2 ^ 28 % 256) + 2 ^ 36 * (x / 2 ^ 36 % 256) + 2 ^ 44 * (x / 2 ^ 44 % 256) := by omega

/-- **the 32 bytes stored by fe51_pack.S are the little-endian digits of the limb value** (fully carried limbs) -/
theorem packBytes_le (g : Fe) (hb : Bounded (2 ^ 51) g) : le (packBytes g) = val g := by
  obtain ⟨b0, b1, b2, b3, b4⟩ := hb
  have h0 : (bA0 g.l0).toNat = g.l0.toNat % 256 := bA0_nat g.l0
  have h1 : (bA g.l0 8).toNat = g.l0.toNat / 2 ^ 8 % 256 := bA_nat' g.l0 8 8 rfl (by decide)
  have h2 : (bA g.l0 16).toNat = g.l0.toNat / 2 ^ 16 % 256 := bA_nat' g.l0 16 16 rfl (by decide)
  have h3 : (bA g.l0 24).toNat = g.l0.toNat / 2 ^ 24 % 256 := bA_nat' g.l0 24 24 rfl (by decide)
  have h4 : (bA g.l0 32).toNat = g.l0.toNat / 2 ^ 32 % 256 := bA_nat' g.l0 32 32 rfl (by decide)
  have h5 : (bA g.l0 40).toNat = g.l0.toNat / 2 ^ 40 % 256 := bA_nat' g.l0 40 40 rfl (by decide)
  have h6 : (bJ g.l0 48 g.l1 3 0xF8).toNat = g.l1.toNat % 32 * 8 + g.l0.toNat / 2 ^ 48 := bJ3 g.l0 g.l1 b0
  have h7 : (bA g.l1 5).toNat = g.l1.toNat / 2 ^ 5 % 256 := bA_nat' g.l1 5 5 rfl (by decide)
  have h8 : (bA g.l1 13).toNat = g.l1.toNat / 2 ^ 13 % 256 := bA_nat' g.l1 13 13 rfl (by decide)
  have h9 : (bA g.l1 21).toNat = g.l1.toNat / 2 ^ 21 % 256 := bA_nat' g.l1 21 21 rfl (by decide)
  have h10 : (bA g.l1 29).toNat = g.l1.toNat / 2 ^ 29 % 256 := bA_nat' g.l1 29 29 rfl (by decide)
  have h11 : (bA g.l1 37).toNat = g.l1.toNat / 2 ^ 37 % 256 := bA_nat' g.l1 37 37 rfl (by decide)
  have h12 : (bJ g.l1 45 g.l2 6 0xC0).toNat = g.l2.toNat % 4 * 64 + g.l1.toNat / 2 ^ 45 := bJ6 g.l1 g.l2 b1
  have h13 : (bA g.l2 2).toNat = g.l2.toNat / 2 ^ 2 % 256 := bA_nat' g.l2 2 2 rfl (by decide)
  have h14 : (bA g.l2 10).toNat = g.l2.toNat / 2 ^ 10 % 256 := bA_nat' g.l2 10 10 rfl (by decide)
  have h15 : (bA g.l2 18).toNat = g.l2.toNat / 2 ^ 18 % 256 := bA_nat' g.l2 18 18 rfl (by decide)
  have h16 : (bA g.l2 26).toNat = g.l2.toNat / 2 ^ 26 % 256 := bA_nat' g.l2 26 26 rfl (by decide)
  have h17 : (bA g.l2 34).toNat = g.l2.toNat / 2 ^ 34 % 256 := bA_nat' g.l2 34 34 rfl (by decide)
  have h18 : (bS g.l2 42).toNat = g.l2.toNat / 2 ^ 42 % 256 := bS_nat' g.l2 42 42 rfl (by decide)
  have h19 : (bJ g.l2 50 g.l3 1 0xFE).toNat = g.l3.toNat % 128 * 2 + g.l2.toNat / 2 ^ 50 := bJ1 g.l2 g.l3 b2
  have h20 : (bA g.l3 7).toNat = g.l3.toNat / 2 ^ 7 % 256 := bA_nat' g.l3 7 7 rfl (by decide)
  have h21 : (bA g.l3 15).toNat = g.l3.toNat / 2 ^ 15 % 256 := bA_nat' g.l3 15 15 rfl (by decide)
  have h22 : (bA g.l3 23).toNat = g.l3.toNat / 2 ^ 23 % 256 := bA_nat' g.l3 23 23 rfl (by decide)
  have h23 : (bA g.l3 31).toNat = g.l3.toNat / 2 ^ 31 % 256 := bA_nat' g.l3 31 31 rfl (by decide)
  have h24 : (bA g.l3 39).toNat = g.l3.toNat / 2 ^ 39 % 256 := bA_nat' g.l3 39 39 rfl (by decide)
  have h25 : (bJ g.l3 47 g.l4 4 0xF0).toNat = g.l4.toNat % 16 * 16 + g.l3.toNat / 2 ^ 47 := bJ4 g.l3 g.l4 b3
  have h26 : (bA g.l4 4).toNat = g.l4.toNat / 2 ^ 4 % 256 := bA_nat' g.l4 4 4 rfl (by decide)
  have h27 : (bA g.l4 12).toNat = g.l4.toNat / 2 ^ 12 % 256 := bA_nat' g.l4 12 12 rfl (by decide)
  have h28 : (bA g.l4 20).toNat = g.l4.toNat / 2 ^ 20 % 256 := bA_nat' g.l4 20 20 rfl (by decide)
  have h29 : (bA g.l4 28).toNat = g.l4.toNat / 2 ^ 28 % 256 := bA_nat' g.l4 28 28 rfl (by decide)
  have h30 : (bA g.l4 36).toNat = g.l4.toNat / 2 ^ 36 % 256 := bA_nat' g.l4 36 36 rfl (by decide)
  have h31 : (bS g.l4 44).toNat = g.l4.toNat / 2 ^ 44 % 256 := bS_nat' g.l4 44 44 rfl (by decide)
  simp only [packBytes, le, h0, h1, h2, h3, h4, h5, h6, h7, h8, h9, h10, h11, h12, h13, h14, h15, h16, h17, h18, h19, h20, h21, h22, h23, h24, h25, h26, h27, h28, h29, h30, h31, val]
  exact horner _ _ _ _ _ _ _ _ _ _ _ _ _ _ _ _ _ _ _ _ _ _ _ _ _ _ _ _ _ _ _ _ _ _ _ _ _ _ _ _ _
    (digits0 _) (digits1 _) (digits2 _ b2) (digits3 _) (digits4 _ b4)

theorem packBytes_spec (g : Fe) (hb : Bounded (2 ^ 51) g) : packBytes g = toLE 32 (val g) := by
  have hv : val g < 256 ^ 32 := by
    obtain ⟨b0, b1, b2, b3, b4⟩ := hb
    simp only [val]; omega
  apply le_inj
  · rw [toLE_length]; rfl
  · rw [packBytes_le g hb, le_toLE, Nat.mod_eq_of_lt hv]

end Sodium.X86ScalarP
