import SodiumModel.Model.Pad
import SodiumModel.Proofs.Utils
/-
  Helper lemmas for C16 (padding).
-/
open Sodium Sodium.Model
namespace Sodium


theorem pow2_of_and_pred (b : Nat) (hb : 0 < b) (h : b &&& (b - 1) = 0) : ∃ k, b = 2 ^ k := by
  induction b using Nat.strongRecOn with
  | _ b ih =>
    have hdiv := @Nat.and_div_two b (b - 1)
    rw [h] at hdiv
    by_cases hodd : b % 2 = 1
    · -- b = 2c+1
      have hc : (b - 1) / 2 = b / 2 := by omega
      rw [hc, Nat.and_self] at hdiv
      have : b = 1 := by omega
      exact ⟨0, by simpa using this⟩
    · have hc : (b - 1) / 2 = b / 2 - 1 := by omega
      rw [hc] at hdiv
      have hpos : 0 < b / 2 := by omega
      obtain ⟨k, hk⟩ := ih (b / 2) (by omega) hpos (by simpa using hdiv.symm)
      exact ⟨k + 1, by rw [Nat.pow_succ, ← hk]; omega⟩

theorem and_pred_eq_mod (n b : Nat) (hb : 0 < b) (h : b &&& (b - 1) = 0) : n &&& (b - 1) = n % b := by
  obtain ⟨k, rfl⟩ := pow2_of_and_pred b hb h
  exact Nat.and_two_pow_sub_one_eq_mod n k

theorem padXpadlen_toNat (n bs : UInt64) (hbs : bs ≠ 0) :
    (padXpadlen n bs).toNat = bs.toNat - 1 - n.toNat % bs.toNat := by
  have hb : 0 < bs.toNat := by
    rcases Nat.eq_zero_or_pos bs.toNat with h | h
    · exact absurd (UInt64.toNat_inj.mp (by simpa using h)) hbs
    · exact h
  have hbl := bs.toNat_lt
  have h1 : (bs - 1).toNat = bs.toNat - 1 := by rw [UInt64.toNat_sub]; simp; omega
  have hm := Nat.mod_lt n.toNat hb
  unfold padXpadlen
  split
  · rename_i hp
    have hp' : bs.toNat &&& (bs.toNat - 1) = 0 := by
      have := congrArg UInt64.toNat hp
      simpa [UInt64.toNat_and, h1] using this
    have h2 : (n &&& (bs - 1)).toNat = n.toNat % bs.toNat := by
      rw [UInt64.toNat_and, h1, and_pred_eq_mod _ _ hb hp']
    rw [UInt64.toNat_sub, h1, h2]; omega
  · have h2 : (n % bs).toNat = n.toNat % bs.toNat := UInt64.toNat_mod _ _
    rw [UInt64.toNat_sub, h1, h2]; omega

theorem barrier_aux (x : UInt64) (hx : x.toNat < 2 ^ 56) :
    ((x - 1) >>> 56).toUInt8 = if x = 0 then 0xff else 0 := by
  by_cases h : x = 0
  · subst h; decide
  · have hpos : 0 < x.toNat := by
      rcases Nat.eq_zero_or_pos x.toNat with h0 | h0
      · exact absurd (UInt64.toNat_inj.mp (by simpa using h0)) h
      · exact h0
    have h1 : (x - 1).toNat = x.toNat - 1 := by
      rw [UInt64.toNat_sub]; simp; omega
    rw [if_neg h, ← UInt8.toNat_inj]
    simp [UInt64.toNat_shiftRight, h1, Nat.shiftRight_eq_div_pow]
    omega

theorem padBarrier_eq (i xp : UInt64) (hi : i.toNat < 2 ^ 56) (hx : xp.toNat < 2 ^ 56) :
    padBarrier i xp = if i = xp then 0xff else 0 := by
  unfold padBarrier
  have hlt : (i ^^^ xp).toNat < 2 ^ 56 := by
    rw [UInt64.toNat_xor]; exact Nat.xor_lt_two_pow hi hx
  rw [barrier_aux _ hlt]
  simp only [UInt64.xor_eq_zero_iff]


theorem padLoop_length (tail xp : UInt64) : ∀ (k : Nat) (i : UInt64) (mask : UInt8) (buf : Bytes),
    (padLoop tail xp k i mask buf).length = buf.length
  | 0, _, _, _ => rfl
  | k + 1, i, mask, buf => by simp [padLoop, padLoop_length tail xp k]

theorem padBarrier_eq' (i xp : UInt64) (hi : i.toNat < 2 ^ 56) (hx : xp.toNat < 2 ^ 56) :
    padBarrier i xp = if i.toNat = xp.toNat then 0xff else 0 := by
  rw [padBarrier_eq i xp hi hx]
  simp only [← UInt64.toNat_inj]

theorem padLoop_get (tail xp : UInt64) (hx : xp.toNat < 2 ^ 56) :
    ∀ (k : Nat) (i : UInt64) (mask : UInt8) (buf : Bytes),
    i.toNat + k ≤ tail.toNat + 1 → i.toNat + k ≤ 2 ^ 56 → tail.toNat < buf.length →
    mask = (if i.toNat ≤ xp.toNat then 0 else 0xff) →
    ∀ j, (padLoop tail xp k i mask buf)[j]? =
      if tail.toNat + 1 ≤ j + i.toNat + k ∧ j + i.toNat ≤ tail.toNat then
        (if tail.toNat - j < xp.toNat then some 0
         else if tail.toNat - j = xp.toNat then some 0x80 else buf[j]?)
      else buf[j]?
  | 0, i, mask, buf, _, _, _, _, j => by
    simp only [padLoop]
    rw [if_neg (by omega)]
  | k + 1, i, mask, buf, h1, h2, h3, hm, j => by
    have hi1 : (i + 1).toNat = i.toNat + 1 := by rw [UInt64.toNat_add]; simp; omega
    have hidx : (tail - i).toNat = tail.toNat - i.toNat := by
      rw [UInt64.toNat_sub_of_le]; exact UInt64.le_iff_toNat_le.mpr (by omega)
    have hb := padBarrier_eq' i xp (by omega) hx
    simp only [padLoop]
    rw [padLoop_get tail xp hx k (i + 1) _ _ (by omega) (by omega) (by simpa using h3)
        (by rw [hb, hm, hi1]; split <;> split <;> split <;> first | rfl | omega) j]
    rw [hi1, hidx, List.getElem?_set]
    have hlt : tail.toNat - i.toNat < buf.length := by omega
    by_cases hj : tail.toNat - i.toNat = j
    · subst hj
      rw [if_neg (by omega), if_pos rfl, if_pos hlt, if_pos (by omega)]
      have e1 : tail.toNat - (tail.toNat - i.toNat) = i.toNat := by omega
      rw [e1, hb, hm]
      by_cases c1 : i.toNat < xp.toNat
      · rw [if_pos c1, if_pos (by omega), if_neg (by omega)]; simp
      · rw [if_neg c1]
        by_cases c2 : i.toNat = xp.toNat
        · rw [if_pos c2, if_pos (by omega), if_pos c2]; simp; decide
        · rw [if_neg c2, if_neg (by omega), if_neg c2, List.getElem?_eq_getElem hlt]; simp
          have e255 : (255 : UInt8) = -1 := by decide
          rw [e255]; exact UInt8.and_neg_one
    · rw [if_neg hj]
      by_cases c : tail.toNat + 1 ≤ j + i.toNat + (k + 1) ∧ j + i.toNat ≤ tail.toNat
      · rw [if_pos c, if_pos (by omega)]
      · rw [if_neg c, if_neg (by omega)]


theorem padded_get (buf : Bytes) (n xp : Nat) (h : n + xp < buf.length) (j : Nat) :
    (buf.take n ++ 0x80 :: zeros xp ++ buf.drop (n + xp + 1))[j]? =
      if j < n then buf[j]? else if j = n then some 0x80 else if j ≤ n + xp then some 0 else buf[j]? := by
  have hl : (buf.take n).length = n := by simp; omega
  by_cases c1 : j < n
  · rw [if_pos c1, List.append_assoc, List.getElem?_append_left (by omega), List.getElem?_take, if_pos c1]
  · rw [if_neg c1, List.append_assoc, List.getElem?_append_right (by omega), hl]
    by_cases c2 : j = n
    · subst c2; simp
    · rw [if_neg c2]
      obtain ⟨m, hm⟩ : ∃ m, j - n = m + 1 := ⟨j - n - 1, by omega⟩
      rw [hm, List.cons_append, List.getElem?_cons_succ]
      by_cases c3 : j ≤ n + xp
      · have hmx : m < xp := by omega
        rw [if_pos c3, List.getElem?_append_left (by simp [zeros]; omega)]
        simp [zeros, hmx]
      · rw [if_neg c3, List.getElem?_append_right (by simp [zeros]; omega)]
        simp [zeros]
        congr 1; omega

theorem pad_ok_buf (buf : Bytes) (n bs cap : UInt64) (hbuf : buf.length = cap.toNat)
    (hcap : cap.toNat ≤ 2 ^ 56) (hbs : bs ≠ 0)
    (hno : n.toNat + (padXpadlen n bs).toNat < cap.toNat) :
    padLoop (n + padXpadlen n bs) (padXpadlen n bs) bs.toNat 0 0 buf =
      buf.take n.toNat ++ 0x80 :: zeros (padXpadlen n bs).toNat ++ buf.drop (n.toNat + (padXpadlen n bs).toNat + 1) := by
  have hxp := padXpadlen_toNat n bs hbs
  have hb : 0 < bs.toNat := by
    rcases Nat.eq_zero_or_pos bs.toNat with h | h
    · exact absurd (UInt64.toNat_inj.mp (by simpa using h)) hbs
    · exact h
  have hm := Nat.mod_lt n.toNat hb
  have hmle := Nat.mod_le n.toNat bs.toNat
  have htail : (n + padXpadlen n bs).toNat = n.toNat + (padXpadlen n bs).toNat := by
    rw [UInt64.toNat_add]; omega
  apply List.ext_getElem?
  intro j
  rw [padLoop_get _ _ (by omega) bs.toNat 0 0 buf (by simp [htail]; omega) (by simp; omega)
        (by rw [htail]; omega) (by simp) j,
      padded_get buf _ _ (by omega) j, htail]
  simp only [UInt64.toNat_zero, Nat.add_zero]
  generalize (padXpadlen n bs).toNat = xp at *
  by_cases c1 : j < n.toNat
  · rw [if_pos c1]
    by_cases c : n.toNat + xp + 1 ≤ j + bs.toNat ∧ j ≤ n.toNat + xp
    · rw [if_pos c, if_neg (by omega), if_neg (by omega)]
    · rw [if_neg c]
  · rw [if_neg c1]
    by_cases c2 : j = n.toNat
    · rw [if_pos c2, if_pos (by omega), if_neg (by omega), if_pos (by omega)]
    · rw [if_neg c2]
      by_cases c3 : j ≤ n.toNat + xp
      · rw [if_pos c3, if_pos (by omega), if_pos (by omega)]
      · rw [if_neg c3, if_neg (by omega)]


theorem u8_pred_lt (a : UInt8) (h : a ≠ 0) : ((a.toUInt32 - 1).toUInt64).toNat < 255 := by
  have hpos : 0 < a.toNat := by
    rcases Nat.eq_zero_or_pos a.toNat with h0 | h0
    · exact absurd (UInt8.toNat_inj.mp (by simpa using h0)) h
    · exact h0
  have := a.toNat_lt
  rw [UInt32.toNat_toUInt64, UInt32.toNat_sub, UInt8.toNat_toUInt32]
  simp; omega

theorem unpadBarrier_acc_ne (acc : UInt8) (p : UInt64) (c : UInt8) (h : acc ≠ 0) :
    unpadBarrier acc p c = 0 := by
  have h1 := u8_pred_lt acc h
  unfold unpadBarrier
  rw [← UInt64.toNat_inj]
  simp only [UInt64.toNat_and, UInt64.toNat_shiftRight]
  have hle : ((acc.toUInt32 - 1).toUInt64.toNat &&& (p - 1).toNat) &&& ((c ^^^ 0x80).toUInt32 - 1).toUInt64.toNat ≤ (acc.toUInt32 - 1).toUInt64.toNat :=
    Nat.le_trans Nat.and_le_left Nat.and_le_left
  generalize ((acc.toUInt32 - 1).toUInt64.toNat &&& (p - 1).toNat) &&& ((c ^^^ 0x80).toUInt32 - 1).toUInt64.toNat = v at *
  have : v >>> (8 % 64) = 0 := by simp [Nat.shiftRight_eq_div_pow]; omega
  simp [this]

theorem unpadBarrier_c_ne (acc : UInt8) (p : UInt64) (c : UInt8) (h : c ≠ 0x80) :
    unpadBarrier acc p c = 0 := by
  have hx : c ^^^ 0x80 ≠ 0 := fun e => h (UInt8.xor_eq_zero_iff.mp e)
  have h1 := u8_pred_lt (c ^^^ 0x80) hx
  unfold unpadBarrier
  rw [← UInt64.toNat_inj]
  simp only [UInt64.toNat_and, UInt64.toNat_shiftRight]
  have hle : ((acc.toUInt32 - 1).toUInt64.toNat &&& (p - 1).toNat) &&& ((c ^^^ 0x80).toUInt32 - 1).toUInt64.toNat ≤ ((c ^^^ 0x80).toUInt32 - 1).toUInt64.toNat :=
    Nat.and_le_right
  generalize ((acc.toUInt32 - 1).toUInt64.toNat &&& (p - 1).toNat) &&& ((c ^^^ 0x80).toUInt32 - 1).toUInt64.toNat = v at *
  have : v >>> (8 % 64) = 0 := by simp [Nat.shiftRight_eq_div_pow]; omega
  simp [this]

theorem one_add_neg_one64 : (1 : UInt64) + -1 = 0 := by decide

theorem unpadBarrier_hit : unpadBarrier 0 0 0x80 = 1 := by decide

/-- once a non-zero byte has been seen, padLen and valid never change -/
theorem unpadLoop_stable : ∀ (t : Bytes) (s : UnpadState) (i : UInt64), s.acc ≠ 0 →
    (unpadLoop s i t).padLen = s.padLen ∧ (unpadLoop s i t).valid = s.valid
  | [], s, i, _ => by simp [unpadLoop]
  | c :: cs, s, i, h => by
    have hb := unpadBarrier_acc_ne s.acc s.padLen c h
    have hacc : (unpadStep s i c).acc ≠ 0 := by
      simp only [unpadStep]; intro e; exact h (UInt8.or_eq_zero_iff.mp e).1
    have ih := unpadLoop_stable cs (unpadStep s i c) (i + 1) hacc
    simp only [unpadLoop, ih]
    simp [unpadStep, hb, one_add_neg_one64]

def leadZeros : Bytes → Nat
  | 0 :: cs => leadZeros cs + 1
  | _ => 0

/-- functional characterisation of the scan from the clean state -/
theorem unpadLoop_clean : ∀ (t : Bytes) (i : UInt64), i.toNat + t.length ≤ 2 ^ 64 →
    (unpadLoop ⟨0, 0, 0⟩ i t).padLen =
      (if (t.drop (leadZeros t)).head? = some 0x80 then i + UInt64.ofNat (leadZeros t) else 0) ∧
    (unpadLoop ⟨0, 0, 0⟩ i t).valid = (if (t.drop (leadZeros t)).head? = some 0x80 then 1 else 0)
  | [], i, _ => by simp [unpadLoop, leadZeros]
  | c :: cs, i, h => by
    by_cases hc0 : c = 0
    · subst hc0
      have hb : unpadBarrier 0 0 0 = 0 := by decide
      have hstep : unpadStep ⟨0, 0, 0⟩ i 0 = ⟨0, 0, 0⟩ := by
        simp [unpadStep, hb, one_add_neg_one64]
      have ih := unpadLoop_clean cs (i + 1) (by
        have : (i + 1).toNat ≤ i.toNat + 1 := by rw [UInt64.toNat_add]; simp; omega
        simp at h; omega)
      simp only [unpadLoop, hstep, leadZeros, List.drop_succ_cons]
      rw [ih.1, ih.2]
      refine ⟨?_, rfl⟩
      split
      · rw [← UInt64.toNat_inj]
        simp [UInt64.toNat_add]
        omega
      · rfl
    · have hlz : leadZeros (c :: cs) = 0 := by
        unfold leadZeros; split
        · rename_i heq; simp at heq; exact absurd heq.1 hc0
        · rfl
      simp only [unpadLoop, hlz, List.drop_zero, List.head?_cons, Option.some.injEq]
      by_cases hc8 : c = 0x80
      · subst hc8
        have hstep : unpadStep ⟨0, 0, 0⟩ i 0x80 = ⟨0x80, i, 1⟩ := by
          simp only [unpadStep, unpadBarrier_hit]
          have : (1 : UInt64) + ~~~(1 : UInt64) = 0xFFFFFFFFFFFFFFFF := by decide
          rw [this]
          have e : i &&& 0xFFFFFFFFFFFFFFFF = i := by
            have : (0xFFFFFFFFFFFFFFFF : UInt64) = -1 := by decide
            rw [this]; exact UInt64.and_neg_one
          simp [e]
        have st := unpadLoop_stable cs ⟨0x80, i, 1⟩ (i + 1) (by simp)
        rw [hstep, st.1, st.2]
        simp
      · have hb := unpadBarrier_c_ne 0 0 c hc8
        have hstep : unpadStep ⟨0, 0, 0⟩ i c = ⟨c, 0, 0⟩ := by
          simp [unpadStep, hb, one_add_neg_one64]
        have st := unpadLoop_stable cs ⟨c, 0, 0⟩ (i + 1) hc0
        rw [hstep, st.1, st.2]
        simp [hc8]

end Sodium
