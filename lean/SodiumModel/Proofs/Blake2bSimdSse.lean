import SodiumModel.Proofs.Blake2bSimd
/-
  Helper lemmas for `Properties/C04Simd.lean`, continued: the SSSE3 and SSE4.1 BLAKE2b compression
  functions (`blake2b_compress_ssse3`, `blake2b_compress_sse41`; shared macros G1 / G2 /
  DIAGONALIZE / UNDIAGONALIZE / ROUND / _mm_roti_epi64, load headers blake2b-load-sse2.h and
  blake2b-load-sse41.h) equal `Spec.Blake2b.compress`.
-/
namespace Sodium.Blake2bSimdP
open Sodium Sodium.Model Sodium.Model.Blake2bSimd
open Sodium.Model.CompressRef (rotr64)
open Sodium.CompressRefP (arr_ext_getD lt8_cases load64_le_eq)
open Sodium.CompressRefP.B2 (lt16_cases specV specV_size range12)
open Sodium.Model.CompressRef.Blake2b (tWords fWords)
set_option linter.unusedSimpArgs false

/-! ### 3b / 5c. SSSE3 and SSE4.1 (shared macros of blake2b-compress-ssse3.h = blake2b-compress-sse41.h) -/
namespace SseP
open Sodium.Model.Blake2bSimd.Sse

theorem add_lane (a0 a1 b0 b1 : UInt64) : _mm_add_epi64 ⟨a0, a1⟩ ⟨b0, b1⟩ = ⟨a0 + b0, a1 + b1⟩ := rfl
theorem xor_lane (a0 a1 b0 b1 : UInt64) : _mm_xor_si128 ⟨a0, a1⟩ ⟨b0, b1⟩ = ⟨a0 ^^^ b0, a1 ^^^ b1⟩ := rfl

theorem roti_32 (x0 x1 : UInt64) : _mm_roti_epi64 ⟨x0, x1⟩ (-32) = ⟨rotr64 x0 32, rotr64 x1 32⟩ := by
  rw [← shuffle_epi32_2301]; rfl
theorem roti_24 (x0 x1 : UInt64) : _mm_roti_epi64 ⟨x0, x1⟩ (-24) = ⟨rotr64 x0 24, rotr64 x1 24⟩ := by
  rw [← shuffle_epi8_r24]; rfl
theorem roti_16 (x0 x1 : UInt64) : _mm_roti_epi64 ⟨x0, x1⟩ (-16) = ⟨rotr64 x0 16, rotr64 x1 16⟩ := by
  rw [← shuffle_epi8_r16]; rfl
theorem roti_63 (x0 x1 : UInt64) : _mm_roti_epi64 ⟨x0, x1⟩ (-63) = ⟨rotr64 x0 63, rotr64 x1 63⟩ := by
  rw [← rot63_xor x0, ← rot63_xor x1]; rfl

/-- `G1` then `G2` is the scalar G in each of the four lanes (two per register) -/
theorem G1_G2_lanes (a0 a1 a2 a3 b0 b1 b2 b3 c0 c1 c2 c3 d0 d1 d2 d3 x0 x1 x2 x3 y0 y1 y2 y3 : UInt64) :
    G2 (G1 ⟨⟨a0, a1⟩, ⟨b0, b1⟩, ⟨c0, c1⟩, ⟨d0, d1⟩, ⟨a2, a3⟩, ⟨b2, b3⟩, ⟨c2, c3⟩, ⟨d2, d3⟩⟩ ⟨x0, x1⟩ ⟨x2, x3⟩)
        ⟨y0, y1⟩ ⟨y2, y3⟩ =
      ⟨⟨(g4 a0 b0 c0 d0 x0 y0).a, (g4 a1 b1 c1 d1 x1 y1).a⟩, ⟨(g4 a0 b0 c0 d0 x0 y0).b, (g4 a1 b1 c1 d1 x1 y1).b⟩,
       ⟨(g4 a0 b0 c0 d0 x0 y0).c, (g4 a1 b1 c1 d1 x1 y1).c⟩, ⟨(g4 a0 b0 c0 d0 x0 y0).d, (g4 a1 b1 c1 d1 x1 y1).d⟩,
       ⟨(g4 a2 b2 c2 d2 x2 y2).a, (g4 a3 b3 c3 d3 x3 y3).a⟩, ⟨(g4 a2 b2 c2 d2 x2 y2).b, (g4 a3 b3 c3 d3 x3 y3).b⟩,
       ⟨(g4 a2 b2 c2 d2 x2 y2).c, (g4 a3 b3 c3 d3 x3 y3).c⟩, ⟨(g4 a2 b2 c2 d2 x2 y2).d, (g4 a3 b3 c3 d3 x3 y3).d⟩⟩ := by
  simp only [G1, G2, add_lane, xor_lane, roti_32, roti_24, roti_16, roti_63, g4, gHalf]

/-- `DIAGONALIZE`: row 2 rotated by one lane, row 3 by two, row 4 by three -/
theorem DIAG_lanes (a0 a1 a2 a3 b0 b1 b2 b3 c0 c1 c2 c3 d0 d1 d2 d3 : UInt64) :
    DIAGONALIZE ⟨⟨a0, a1⟩, ⟨b0, b1⟩, ⟨c0, c1⟩, ⟨d0, d1⟩, ⟨a2, a3⟩, ⟨b2, b3⟩, ⟨c2, c3⟩, ⟨d2, d3⟩⟩ =
      ⟨⟨a0, a1⟩, ⟨b1, b2⟩, ⟨c2, c3⟩, ⟨d3, d0⟩, ⟨a2, a3⟩, ⟨b3, b0⟩, ⟨c0, c1⟩, ⟨d1, d2⟩⟩ := by
  simp only [DIAGONALIZE, alignr_epi8_8]

theorem UNDIAG_lanes (a0 a1 a2 a3 b0 b1 b2 b3 c0 c1 c2 c3 d0 d1 d2 d3 : UInt64) :
    UNDIAGONALIZE ⟨⟨a0, a1⟩, ⟨b0, b1⟩, ⟨c0, c1⟩, ⟨d0, d1⟩, ⟨a2, a3⟩, ⟨b2, b3⟩, ⟨c2, c3⟩, ⟨d2, d3⟩⟩ =
      ⟨⟨a0, a1⟩, ⟨b3, b0⟩, ⟨c2, c3⟩, ⟨d1, d2⟩, ⟨a2, a3⟩, ⟨b1, b2⟩, ⟨c0, c1⟩, ⟨d3, d0⟩⟩ := by
  simp only [UNDIAGONALIZE, alignr_epi8_8]

/-- the sixteen state words held by the eight row registers -/
def toV (s : Rows) : Array UInt64 :=
  #[s.row1l.q0, s.row1l.q1, s.row1h.q0, s.row1h.q1, s.row2l.q0, s.row2l.q1, s.row2h.q0, s.row2h.q1,
    s.row3l.q0, s.row3l.q1, s.row3h.q0, s.row3h.q1, s.row4l.q0, s.row4l.q1, s.row4h.q0, s.row4h.q1]

theorem toV_size (s : Rows) : (toV s).size = 16 := rfl

/-- the body of `ROUND(r)` after the four message vector pairs have been loaded -/
def roundCore (s : Rows) (p1 p2 p3 p4 : M128 × M128) : Rows :=
  UNDIAGONALIZE (G2 (G1 (DIAGONALIZE (G2 (G1 s p1.1 p1.2) p2.1 p2.2)) p3.1 p3.2) p4.1 p4.2)

theorem ROUND_eq_core (load : Nat → Nat → M128 × M128) (s : Rows) (r : Nat) :
    ROUND load s r = roundCore s (load r 1) (load r 2) (load r 3) (load r 4) := rfl

theorem roundCore_eq_spec (s : Rows) (w : Nat → UInt64) :
    toV (roundCore s (⟨w 0, w 2⟩, ⟨w 4, w 6⟩) (⟨w 1, w 3⟩, ⟨w 5, w 7⟩)
      (⟨w 8, w 10⟩, ⟨w 12, w 14⟩) (⟨w 9, w 11⟩, ⟨w 13, w 15⟩)) = specRoundW (toV s) w := by
  obtain ⟨⟨a0, a1⟩, ⟨b0, b1⟩, ⟨c0, c1⟩, ⟨d0, d1⟩, ⟨a2, a3⟩, ⟨b2, b3⟩, ⟨c2, c3⟩, ⟨d2, d3⟩⟩ := s
  unfold roundCore
  simp only []
  rw [G1_G2_lanes, DIAG_lanes, G1_G2_lanes, UNDIAG_lanes, specRoundW_eq]
  show _ = diagStep (colStep #[a0, a1, a2, a3, b0, b1, b2, b3, c0, c1, c2, c3, d0, d1, d2, d3] w) w
  rw [colStep_lit, diagStep_lit]
  rfl

/-- what the message vectors of round `r` must hold (standard lane order: columns `0 2 | 4 6`,
    `1 3 | 5 7`; diagonals `8 10 | 12 14`, `9 11 | 13 15`) -/
def LoadOK (load : Nat → Nat → M128 × M128) (w : Nat → UInt64) (r : Nat) : Prop :=
  load r 1 = (⟨w (sig r 0), w (sig r 2)⟩, ⟨w (sig r 4), w (sig r 6)⟩) ∧
  load r 2 = (⟨w (sig r 1), w (sig r 3)⟩, ⟨w (sig r 5), w (sig r 7)⟩) ∧
  load r 3 = (⟨w (sig r 8), w (sig r 10)⟩, ⟨w (sig r 12), w (sig r 14)⟩) ∧
  load r 4 = (⟨w (sig r 9), w (sig r 11)⟩, ⟨w (sig r 13), w (sig r 15)⟩)

theorem ROUND_eq (load : Nat → Nat → M128 × M128) (s : Rows) (m : Array UInt64) (r : Nat)
    (hl : LoadOK load (fun j => m.getD j 0) r) :
    toV (ROUND load s r) = Spec.Blake2b.round m (toV s) r := by
  obtain ⟨l1, l2, l3, l4⟩ := hl
  rw [ROUND_eq_core, l1, l2, l3, l4, specRound_eq]
  exact roundCore_eq_spec s (fun j => m.getD (sig r j) 0)

end SseP

namespace SseP
open Sodium.Model.Blake2bSimd.Sse

/-- the twelve `ROUND(r)` -/
def rounds12 (load : Nat → Nat → M128 × M128) (s : Rows) : Rows :=
  ROUND load (ROUND load (ROUND load (ROUND load (ROUND load (ROUND load (ROUND load (ROUND load (ROUND load
    (ROUND load (ROUND load (ROUND load s 0) 1) 2) 3) 4) 5) 6) 7) 8) 9) 10) 11

theorem rounds12_eq (load : Nat → Nat → M128 × M128) (s : Rows) (m : Array UInt64)
    (hl : ∀ r, r < 12 → LoadOK load (fun j => m.getD j 0) r) :
    toV (rounds12 load s) = (List.range 12).foldl (Spec.Blake2b.round m) (toV s) := by
  rw [range12]
  simp only [List.foldl_cons, List.foldl_nil, rounds12]
  rw [ROUND_eq load _ m 11 (hl 11 (by decide)), ROUND_eq load _ m 10 (hl 10 (by decide)),
    ROUND_eq load _ m 9 (hl 9 (by decide)), ROUND_eq load _ m 8 (hl 8 (by decide)),
    ROUND_eq load _ m 7 (hl 7 (by decide)), ROUND_eq load _ m 6 (hl 6 (by decide)),
    ROUND_eq load _ m 5 (hl 5 (by decide)), ROUND_eq load _ m 4 (hl 4 (by decide)),
    ROUND_eq load _ m 3 (hl 3 (by decide)), ROUND_eq load _ m 2 (hl 2 (by decide)),
    ROUND_eq load _ m 1 (hl 1 (by decide)), ROUND_eq load _ m 0 (hl 0 (by decide))]

/-- the row initialisation of `blake2b_compress_ssse3` / `_sse41` -/
def initRows (h t f : Array UInt64) : Rows :=
  ⟨LOADU h 0, LOADU h 4, LOADU blake2b_IV 0, _mm_xor_si128 (LOADU blake2b_IV 4) (LOADU t 0),
   LOADU h 2, LOADU h 6, LOADU blake2b_IV 2, _mm_xor_si128 (LOADU blake2b_IV 6) (LOADU f 0)⟩

/-- the feed-forward of `blake2b_compress_ssse3` / `_sse41` (`S->h` is re-read before each store) -/
def feedForward (h : Array UInt64) (s : Rows) : Array UInt64 :=
  let row1l := _mm_xor_si128 s.row3l s.row1l
  let row1h := _mm_xor_si128 s.row3h s.row1h
  let h := STOREU h 0 (_mm_xor_si128 (LOADU h 0) row1l)
  let h := STOREU h 2 (_mm_xor_si128 (LOADU h 2) row1h)
  let row2l := _mm_xor_si128 s.row4l s.row2l
  let row2h := _mm_xor_si128 s.row4h s.row2h
  let h := STOREU h 4 (_mm_xor_si128 (LOADU h 4) row2l)
  let h := STOREU h 6 (_mm_xor_si128 (LOADU h 6) row2h)
  h

theorem compressBody_unfold (load : Nat → Nat → M128 × M128) (h t f : Array UInt64) :
    compressBody load h t f = feedForward h (rounds12 load (initRows h t f)) := rfl

theorem init_eq (h : Array UInt64) (t : Nat) (last : Bool) :
    toV (initRows h (tWords t) (fWords last)) = specV h t last := by
  have m1 : (0 - 1 : UInt64) = 0xFFFFFFFFFFFFFFFF := by decide
  apply arr_ext_getD 0
  · rw [toV_size, specV_size]
  · rw [toV_size]
    cases last <;> apply lt16_cases <;>
      simp [toV, initRows, LOADU, _mm_loadu_si128_u64, _mm_xor_si128, M128.ofEpi64, M128.epi64, specV, tWords,
        fWords, CompressRef.Blake2b.blake2b_set_lastblock, blake2b_IV, Spec.Blake2b.ivWords, m1]

theorem final_eq (h0 h1 h2 h3 h4 h5 h6 h7 : UInt64) (s : Rows) :
    feedForward #[h0, h1, h2, h3, h4, h5, h6, h7] s =
      (Array.range 8).map fun i => #[h0, h1, h2, h3, h4, h5, h6, h7].getD i 0 ^^^ (toV s).getD i 0 ^^^
        (toV s).getD (i + 8) 0 := by
  obtain ⟨⟨a0, a1⟩, ⟨b0, b1⟩, ⟨c0, c1⟩, ⟨d0, d1⟩, ⟨a2, a3⟩, ⟨b2, b3⟩, ⟨c2, c3⟩, ⟨d2, d3⟩⟩ := s
  have e : feedForward #[h0, h1, h2, h3, h4, h5, h6, h7]
        ⟨⟨a0, a1⟩, ⟨b0, b1⟩, ⟨c0, c1⟩, ⟨d0, d1⟩, ⟨a2, a3⟩, ⟨b2, b3⟩, ⟨c2, c3⟩, ⟨d2, d3⟩⟩ =
      #[h0 ^^^ (c0 ^^^ a0), h1 ^^^ (c1 ^^^ a1), h2 ^^^ (c2 ^^^ a2), h3 ^^^ (c3 ^^^ a3),
        h4 ^^^ (d0 ^^^ b0), h5 ^^^ (d1 ^^^ b1), h6 ^^^ (d2 ^^^ b2), h7 ^^^ (d3 ^^^ b3)] := by
    simp [feedForward, STOREU, LOADU, _mm_storeu_si128_u64, _mm_loadu_si128_u64, _mm_xor_si128, M128.ofEpi64,
      M128.epi64]
  rw [e]
  apply arr_ext_getD 0
  · simp
  · simp only [List.size_toArray, List.length_cons, List.length_nil]
    apply lt8_cases <;> simp [toV] <;> ac_rfl

/-- the shared body = F of the specification, for any load-macro family that yields the right words -/
theorem compressBody_eq (load : Nat → Nat → M128 × M128) (m : Array UInt64)
    (hl : ∀ r, r < 12 → LoadOK load (fun j => m.getD j 0) r)
    (h : Array UInt64) (t : Nat) (last : Bool) (hh : h.size = 8) :
    compressBody load h (tWords t) (fWords last) =
      (let v := (List.range 12).foldl (Spec.Blake2b.round m) (specV h t last)
       (Array.range 8).map fun i => h.getD i 0 ^^^ v.getD i 0 ^^^ v.getD (i + 8) 0) := by
  rw [compressBody_unfold]
  simp only []
  rw [← init_eq, ← rounds12_eq load _ m hl]
  generalize rounds12 load _ = R
  rw [arr8_eta h hh]
  generalize h.getD 0 0 = h0; generalize h.getD 1 0 = h1; generalize h.getD 2 0 = h2
  generalize h.getD 3 0 = h3; generalize h.getD 4 0 = h4; generalize h.getD 5 0 = h5
  generalize h.getD 6 0 = h6; generalize h.getD 7 0 = h7
  exact final_eq h0 h1 h2 h3 h4 h5 h6 h7 R

end SseP

/-! ### 4b. the 48 `LOAD_MSG_r_k` macros of blake2b-load-sse2.h and of blake2b-load-sse41.h -/
namespace SseP

theorem set_epi64x_lane (e1 e0 : UInt64) : _mm_set_epi64x e1 e0 = ⟨e0, e1⟩ := rfl
theorem unpacklo_lane (a0 a1 b0 b1 : UInt64) : _mm_unpacklo_epi64 ⟨a0, a1⟩ ⟨b0, b1⟩ = ⟨a0, b0⟩ := rfl
theorem unpackhi_lane (a0 a1 b0 b1 : UInt64) : _mm_unpackhi_epi64 ⟨a0, a1⟩ ⟨b0, b1⟩ = ⟨a1, b1⟩ := rfl

/-- `m0 … m15` of `blake2b_compress_ssse3` when the block holds the words `w 0 … w 15` -/
def msg64 (w : Nat → UInt64) : Msg64 :=
  { m0 := w 0, m1 := w 1, m2 := w 2, m3 := w 3, m4 := w 4, m5 := w 5, m6 := w 6, m7 := w 7
    m8 := w 8, m9 := w 9, m10 := w 10, m11 := w 11, m12 := w 12, m13 := w 13, m14 := w 14, m15 := w 15 }

/-- `m0 … m7` of `blake2b_compress_sse41` when the block holds the words `w 0 … w 15` -/
def msg128 (w : Nat → UInt64) : Msg128 :=
  { m0 := ⟨w 0, w 1⟩, m1 := ⟨w 2, w 3⟩, m2 := ⟨w 4, w 5⟩, m3 := ⟨w 6, w 7⟩
    m4 := ⟨w 8, w 9⟩, m5 := ⟨w 10, w 11⟩, m6 := ⟨w 12, w 13⟩, m7 := ⟨w 14, w 15⟩ }

macro "load_sse2_tac" : tactic => `(tactic|
  (refine ⟨?_, ?_, ?_, ?_⟩ <;>
    (simp only [Sse2.LOAD_MSG, Sse2.LOAD_MSG_0_1, Sse2.LOAD_MSG_0_2, Sse2.LOAD_MSG_0_3, Sse2.LOAD_MSG_0_4, Sse2.LOAD_MSG_1_1, Sse2.LOAD_MSG_1_2, Sse2.LOAD_MSG_1_3, Sse2.LOAD_MSG_1_4, Sse2.LOAD_MSG_2_1, Sse2.LOAD_MSG_2_2, Sse2.LOAD_MSG_2_3, Sse2.LOAD_MSG_2_4, Sse2.LOAD_MSG_3_1, Sse2.LOAD_MSG_3_2, Sse2.LOAD_MSG_3_3, Sse2.LOAD_MSG_3_4, Sse2.LOAD_MSG_4_1, Sse2.LOAD_MSG_4_2, Sse2.LOAD_MSG_4_3, Sse2.LOAD_MSG_4_4, Sse2.LOAD_MSG_5_1, Sse2.LOAD_MSG_5_2, Sse2.LOAD_MSG_5_3, Sse2.LOAD_MSG_5_4, Sse2.LOAD_MSG_6_1, Sse2.LOAD_MSG_6_2, Sse2.LOAD_MSG_6_3, Sse2.LOAD_MSG_6_4, Sse2.LOAD_MSG_7_1, Sse2.LOAD_MSG_7_2, Sse2.LOAD_MSG_7_3, Sse2.LOAD_MSG_7_4, Sse2.LOAD_MSG_8_1, Sse2.LOAD_MSG_8_2, Sse2.LOAD_MSG_8_3, Sse2.LOAD_MSG_8_4, Sse2.LOAD_MSG_9_1, Sse2.LOAD_MSG_9_2, Sse2.LOAD_MSG_9_3, Sse2.LOAD_MSG_9_4, Sse2.LOAD_MSG_10_1, Sse2.LOAD_MSG_10_2, Sse2.LOAD_MSG_10_3, Sse2.LOAD_MSG_10_4, Sse2.LOAD_MSG_11_1, Sse2.LOAD_MSG_11_2, Sse2.LOAD_MSG_11_3, Sse2.LOAD_MSG_11_4,
      msg64, set_epi64x_lane]; rfl)))

macro "load_sse41_tac" : tactic => `(tactic|
  (refine ⟨?_, ?_, ?_, ?_⟩ <;>
    (simp only [Sse41.LOAD_MSG, Sse41.LOAD_MSG_0_1, Sse41.LOAD_MSG_0_2, Sse41.LOAD_MSG_0_3, Sse41.LOAD_MSG_0_4, Sse41.LOAD_MSG_1_1, Sse41.LOAD_MSG_1_2, Sse41.LOAD_MSG_1_3, Sse41.LOAD_MSG_1_4, Sse41.LOAD_MSG_2_1, Sse41.LOAD_MSG_2_2, Sse41.LOAD_MSG_2_3, Sse41.LOAD_MSG_2_4, Sse41.LOAD_MSG_3_1, Sse41.LOAD_MSG_3_2, Sse41.LOAD_MSG_3_3, Sse41.LOAD_MSG_3_4, Sse41.LOAD_MSG_4_1, Sse41.LOAD_MSG_4_2, Sse41.LOAD_MSG_4_3, Sse41.LOAD_MSG_4_4, Sse41.LOAD_MSG_5_1, Sse41.LOAD_MSG_5_2, Sse41.LOAD_MSG_5_3, Sse41.LOAD_MSG_5_4, Sse41.LOAD_MSG_6_1, Sse41.LOAD_MSG_6_2, Sse41.LOAD_MSG_6_3, Sse41.LOAD_MSG_6_4, Sse41.LOAD_MSG_7_1, Sse41.LOAD_MSG_7_2, Sse41.LOAD_MSG_7_3, Sse41.LOAD_MSG_7_4, Sse41.LOAD_MSG_8_1, Sse41.LOAD_MSG_8_2, Sse41.LOAD_MSG_8_3, Sse41.LOAD_MSG_8_4, Sse41.LOAD_MSG_9_1, Sse41.LOAD_MSG_9_2, Sse41.LOAD_MSG_9_3, Sse41.LOAD_MSG_9_4, Sse41.LOAD_MSG_10_1, Sse41.LOAD_MSG_10_2, Sse41.LOAD_MSG_10_3, Sse41.LOAD_MSG_10_4, Sse41.LOAD_MSG_11_1, Sse41.LOAD_MSG_11_2, Sse41.LOAD_MSG_11_3, Sse41.LOAD_MSG_11_4,
      msg128, unpacklo_lane, unpackhi_lane, alignr_epi8_8, shuffle_epi32_1032, blend_epi16_F0]; rfl)))

theorem load2_ok_0 (w : Nat → UInt64) : LoadOK (fun r k => Sse2.LOAD_MSG r k (msg64 w)) w 0 := by
  unfold LoadOK; load_sse2_tac
theorem load2_ok_1 (w : Nat → UInt64) : LoadOK (fun r k => Sse2.LOAD_MSG r k (msg64 w)) w 1 := by
  unfold LoadOK; load_sse2_tac
theorem load2_ok_2 (w : Nat → UInt64) : LoadOK (fun r k => Sse2.LOAD_MSG r k (msg64 w)) w 2 := by
  unfold LoadOK; load_sse2_tac
theorem load2_ok_3 (w : Nat → UInt64) : LoadOK (fun r k => Sse2.LOAD_MSG r k (msg64 w)) w 3 := by
  unfold LoadOK; load_sse2_tac
theorem load2_ok_4 (w : Nat → UInt64) : LoadOK (fun r k => Sse2.LOAD_MSG r k (msg64 w)) w 4 := by
  unfold LoadOK; load_sse2_tac
theorem load2_ok_5 (w : Nat → UInt64) : LoadOK (fun r k => Sse2.LOAD_MSG r k (msg64 w)) w 5 := by
  unfold LoadOK; load_sse2_tac
theorem load2_ok_6 (w : Nat → UInt64) : LoadOK (fun r k => Sse2.LOAD_MSG r k (msg64 w)) w 6 := by
  unfold LoadOK; load_sse2_tac
theorem load2_ok_7 (w : Nat → UInt64) : LoadOK (fun r k => Sse2.LOAD_MSG r k (msg64 w)) w 7 := by
  unfold LoadOK; load_sse2_tac
theorem load2_ok_8 (w : Nat → UInt64) : LoadOK (fun r k => Sse2.LOAD_MSG r k (msg64 w)) w 8 := by
  unfold LoadOK; load_sse2_tac
theorem load2_ok_9 (w : Nat → UInt64) : LoadOK (fun r k => Sse2.LOAD_MSG r k (msg64 w)) w 9 := by
  unfold LoadOK; load_sse2_tac
theorem load2_ok_10 (w : Nat → UInt64) : LoadOK (fun r k => Sse2.LOAD_MSG r k (msg64 w)) w 10 := by
  unfold LoadOK; load_sse2_tac
theorem load2_ok_11 (w : Nat → UInt64) : LoadOK (fun r k => Sse2.LOAD_MSG r k (msg64 w)) w 11 := by
  unfold LoadOK; load_sse2_tac

/-- blake2b-load-sse2.h: every `LOAD_MSG_r_k` yields the words `m[SIGMA[r][…]]` of its position -/
theorem load2_ok (w : Nat → UInt64) : ∀ r, r < 12 → LoadOK (fun r k => Sse2.LOAD_MSG r k (msg64 w)) w r :=
  lt12_cases (load2_ok_0 w) (load2_ok_1 w) (load2_ok_2 w) (load2_ok_3 w) (load2_ok_4 w) (load2_ok_5 w)
    (load2_ok_6 w) (load2_ok_7 w) (load2_ok_8 w) (load2_ok_9 w) (load2_ok_10 w) (load2_ok_11 w)

theorem load41_ok_0 (w : Nat → UInt64) : LoadOK (fun r k => Sse41.LOAD_MSG r k (msg128 w)) w 0 := by
  unfold LoadOK; load_sse41_tac
theorem load41_ok_1 (w : Nat → UInt64) : LoadOK (fun r k => Sse41.LOAD_MSG r k (msg128 w)) w 1 := by
  unfold LoadOK; load_sse41_tac
theorem load41_ok_2 (w : Nat → UInt64) : LoadOK (fun r k => Sse41.LOAD_MSG r k (msg128 w)) w 2 := by
  unfold LoadOK; load_sse41_tac
theorem load41_ok_3 (w : Nat → UInt64) : LoadOK (fun r k => Sse41.LOAD_MSG r k (msg128 w)) w 3 := by
  unfold LoadOK; load_sse41_tac
theorem load41_ok_4 (w : Nat → UInt64) : LoadOK (fun r k => Sse41.LOAD_MSG r k (msg128 w)) w 4 := by
  unfold LoadOK; load_sse41_tac
theorem load41_ok_5 (w : Nat → UInt64) : LoadOK (fun r k => Sse41.LOAD_MSG r k (msg128 w)) w 5 := by
  unfold LoadOK; load_sse41_tac
theorem load41_ok_6 (w : Nat → UInt64) : LoadOK (fun r k => Sse41.LOAD_MSG r k (msg128 w)) w 6 := by
  unfold LoadOK; load_sse41_tac
theorem load41_ok_7 (w : Nat → UInt64) : LoadOK (fun r k => Sse41.LOAD_MSG r k (msg128 w)) w 7 := by
  unfold LoadOK; load_sse41_tac
theorem load41_ok_8 (w : Nat → UInt64) : LoadOK (fun r k => Sse41.LOAD_MSG r k (msg128 w)) w 8 := by
  unfold LoadOK; load_sse41_tac
theorem load41_ok_9 (w : Nat → UInt64) : LoadOK (fun r k => Sse41.LOAD_MSG r k (msg128 w)) w 9 := by
  unfold LoadOK; load_sse41_tac
theorem load41_ok_10 (w : Nat → UInt64) : LoadOK (fun r k => Sse41.LOAD_MSG r k (msg128 w)) w 10 := by
  unfold LoadOK; load_sse41_tac
theorem load41_ok_11 (w : Nat → UInt64) : LoadOK (fun r k => Sse41.LOAD_MSG r k (msg128 w)) w 11 := by
  unfold LoadOK; load_sse41_tac

/-- blake2b-load-sse41.h: every `LOAD_MSG_r_k` yields the words `m[SIGMA[r][…]]` of its position -/
theorem load41_ok (w : Nat → UInt64) : ∀ r, r < 12 → LoadOK (fun r k => Sse41.LOAD_MSG r k (msg128 w)) w r :=
  lt12_cases (load41_ok_0 w) (load41_ok_1 w) (load41_ok_2 w) (load41_ok_3 w) (load41_ok_4 w) (load41_ok_5 w)
    (load41_ok_6 w) (load41_ok_7 w) (load41_ok_8 w) (load41_ok_9 w) (load41_ok_10 w) (load41_ok_11 w)

theorem loadu64_eq (b : Array UInt8) (o : Nat) : loadu64 b o = Spec.Blake2b.load64le b o := by
  unfold loadu64; rw [loadu128_eq]; rfl

theorem messageWords_ssse3_eq (b : Array UInt8) :
    Ssse3.messageWords b = msg64 (fun j => (specM b).getD j 0) := by
  simp only [Ssse3.messageWords, loadu64_eq, msg64,
    specM_getD _ 0 (by decide), specM_getD _ 1 (by decide), specM_getD _ 2 (by decide),
    specM_getD _ 3 (by decide), specM_getD _ 4 (by decide), specM_getD _ 5 (by decide),
    specM_getD _ 6 (by decide), specM_getD _ 7 (by decide), specM_getD _ 8 (by decide),
    specM_getD _ 9 (by decide), specM_getD _ 10 (by decide), specM_getD _ 11 (by decide),
    specM_getD _ 12 (by decide), specM_getD _ 13 (by decide), specM_getD _ 14 (by decide),
    specM_getD _ 15 (by decide)]

theorem messageWords_sse41_eq (b : Array UInt8) :
    Sse41.messageWords b = msg128 (fun j => (specM b).getD j 0) := by
  simp only [Sse41.messageWords, loadu128_eq, msg128,
    specM_getD _ 0 (by decide), specM_getD _ 1 (by decide), specM_getD _ 2 (by decide),
    specM_getD _ 3 (by decide), specM_getD _ 4 (by decide), specM_getD _ 5 (by decide),
    specM_getD _ 6 (by decide), specM_getD _ 7 (by decide), specM_getD _ 8 (by decide),
    specM_getD _ 9 (by decide), specM_getD _ 10 (by decide), specM_getD _ 11 (by decide),
    specM_getD _ 12 (by decide), specM_getD _ 13 (by decide), specM_getD _ 14 (by decide),
    specM_getD _ 15 (by decide)]

theorem compress_ssse3_eq (h : Array UInt64) (block : Bytes) (t : Nat) (last : Bool) (hh : h.size = 8) :
    Ssse3.blake2b_compress_ssse3 h (tWords t) (fWords last) block.toArray
      = Spec.Blake2b.compress h block t last := by
  unfold Ssse3.blake2b_compress_ssse3
  simp only []
  rw [messageWords_ssse3_eq, compressBody_eq _ (specM block.toArray) (load2_ok _) h t last hh]
  rfl

theorem compress_sse41_eq (h : Array UInt64) (block : Bytes) (t : Nat) (last : Bool) (hh : h.size = 8) :
    Sse41.blake2b_compress_sse41 h (tWords t) (fWords last) block.toArray
      = Spec.Blake2b.compress h block t last := by
  unfold Sse41.blake2b_compress_sse41
  simp only []
  rw [messageWords_sse41_eq, compressBody_eq _ (specM block.toArray) (load41_ok _) h t last hh]
  rfl

end SseP

namespace SseP
open Sodium.Model.Blake2bSimd.Sse

theorem column_eq (s : Rows) (x0 x1 x2 x3 y0 y1 y2 y3 : UInt64) :
    toV (G2 (G1 s ⟨x0, x1⟩ ⟨x2, x3⟩) ⟨y0, y1⟩ ⟨y2, y3⟩) =
      colStep (toV s) (fun j => [x0, y0, x1, y1, x2, y2, x3, y3].getD j 0) := by
  obtain ⟨⟨a0, a1⟩, ⟨b0, b1⟩, ⟨c0, c1⟩, ⟨d0, d1⟩, ⟨a2, a3⟩, ⟨b2, b3⟩, ⟨c2, c3⟩, ⟨d2, d3⟩⟩ := s
  rw [G1_G2_lanes]
  show _ = colStep #[a0, a1, a2, a3, b0, b1, b2, b3, c0, c1, c2, c3, d0, d1, d2, d3] _
  rw [colStep_lit]
  rfl

theorem diagonal_eq (s : Rows) (x0 x1 x2 x3 y0 y1 y2 y3 : UInt64) :
    toV (UNDIAGONALIZE (G2 (G1 (DIAGONALIZE s) ⟨x0, x1⟩ ⟨x2, x3⟩) ⟨y0, y1⟩ ⟨y2, y3⟩)) =
      diagStep (toV s) (fun j => [0, 0, 0, 0, 0, 0, 0, 0, x0, y0, x1, y1, x2, y2, x3, y3].getD j 0) := by
  obtain ⟨⟨a0, a1⟩, ⟨b0, b1⟩, ⟨c0, c1⟩, ⟨d0, d1⟩, ⟨a2, a3⟩, ⟨b2, b3⟩, ⟨c2, c3⟩, ⟨d2, d3⟩⟩ := s
  rw [DIAG_lanes, G1_G2_lanes, UNDIAG_lanes]
  show _ = diagStep #[a0, a1, a2, a3, b0, b1, b2, b3, c0, c1, c2, c3, d0, d1, d2, d3] _
  rw [diagStep_lit]
  rfl
end SseP

end Sodium.Blake2bSimdP
