import SodiumModel.Model.Poly1305Donna
import SodiumModel.Proofs.Utils
import SodiumModel.Proofs.Hash
import SodiumModel.Spec.Poly1305
/-
  Helper lemmas for the 64-bit limb arithmetic of Poly1305 (poly1305_donna64.h):
  bit-field facts on UInt64, the three stages of one `poly1305_blocks` iteration
  (h += m, h *= r, partial reduction), the three stages of `poly1305_finish`
  (full carry, conditional subtraction of p, pad addition and stores) and the simulation
  between the donna64 instantiation of the streaming front-end and the abstract one.
  Core Lean only (no Mathlib): all arithmetic is done in `Nat` with `omega`.
-/
open Sodium Sodium.Model Sodium.Model.Poly1305Donna
namespace Sodium.PolyDonnaP

abbrev Limbs := UInt64 × UInt64 × UInt64

/-- the value of three 44/44/42-bit limbs -/
def val (h : Limbs) : Nat := h.1.toNat + h.2.1.toNat * 2 ^ 44 + h.2.2.toNat * 2 ^ 88

/-! ### bit fields -/

theorem or_shl_nat (a b k n : Nat) (ha : a < 2 ^ k) (hk : k ≤ n) :
    a ||| (b <<< k % 2 ^ n) = a + (b % 2 ^ (n - k)) * 2 ^ k := by
  have h1 : b <<< k % 2 ^ n = (b % 2 ^ (n - k)) <<< k := by
    rw [Nat.shiftLeft_eq, Nat.shiftLeft_eq]
    have : 2 ^ n = 2 ^ (n - k) * 2 ^ k := by rw [← Nat.pow_add]; congr 1; omega
    rw [this, Nat.mul_mod_mul_right]
  rw [h1, Nat.or_comm, ← Nat.shiftLeft_add_eq_or_of_lt ha, Nat.shiftLeft_eq, Nat.add_comm]

theorem lo44 (t : UInt64) : (t &&& 0xfffffffffff).toNat = t.toNat % 2 ^ 44 := by
  rw [UInt64.toNat_and]
  exact Nat.and_two_pow_sub_one_eq_mod t.toNat 44

theorem lo42 (t : UInt64) : (t &&& 0x3ffffffffff).toNat = t.toNat % 2 ^ 42 := by
  rw [UInt64.toNat_and]
  exact Nat.and_two_pow_sub_one_eq_mod t.toNat 42

theorem shr_toNat (t : UInt64) (k : UInt64) : (t >>> k).toNat = t.toNat / 2 ^ (k.toNat % 64) := by
  rw [UInt64.toNat_shiftRight, Nat.shiftRight_eq_div_pow]

theorem mid_toNat (t0 t1 : UInt64) :
    ((t0 >>> 44) ||| (t1 <<< 20)).toNat = t0.toNat / 2 ^ 44 + (t1.toNat % 2 ^ 44) * 2 ^ 20 := by
  rw [UInt64.toNat_or, UInt64.toNat_shiftLeft, shr_toNat]
  have h := t0.toNat_lt
  have : t0.toNat / 2 ^ 44 < 2 ^ 20 := by omega
  exact or_shl_nat _ _ 20 64 this (by omega)

theorem mid44 (t0 t1 : UInt64) :
    (((t0 >>> 44) ||| (t1 <<< 20)) &&& 0xfffffffffff).toNat
      = t0.toNat / 2 ^ 44 + (t1.toNat % 2 ^ 24) * 2 ^ 20 := by
  rw [lo44, mid_toNat]
  have h := t0.toNat_lt
  omega

theorem hi42 (t1 : UInt64) : ((t1 >>> 24) &&& 0x3ffffffffff).toNat = t1.toNat / 2 ^ 24 := by
  rw [lo42, shr_toNat]
  have h := t1.toNat_lt
  show t1.toNat / 2 ^ 24 % 2 ^ 42 = t1.toNat / 2 ^ 24
  omega

/-! ### loads, clamp -/

theorem le_take_add (l : Bytes) (a b : Nat) :
    le (l.take (a + b)) = le (l.take a) + 256 ^ a * le ((l.drop a).take b) := by
  rw [List.take_add, le_append]
  by_cases h : a ≤ l.length
  · rw [List.length_take, Nat.min_eq_left h]
  · have : l.drop a = [] := List.drop_eq_nil_of_le (by omega)
    simp [this, le]

theorem le_take_lt (l : Bytes) (k : Nat) : le (l.take k) < 256 ^ k := by
  have h1 := le_lt (l.take k)
  have h2 : (l.take k).length ≤ k := by simp; omega
  exact Nat.lt_of_lt_of_le h1 (Nat.pow_le_pow_right (by decide) h2)

theorem LOAD64_LE_toNat (b : Bytes) (off : Nat) : (LOAD64_LE b off).toNat = le ((b.drop off).take 8) :=
  load64_toNat _

theorem and_split (a b m0 m1 k : Nat) (ha : a < 2 ^ k) (hm : m0 < 2 ^ k) :
    (a + 2 ^ k * b) &&& (m0 + 2 ^ k * m1) = (a &&& m0) + 2 ^ k * (b &&& m1) := by
  have hp : 0 < 2 ^ k := Nat.pow_pos (by decide)
  rw [← Nat.mod_add_div ((a + 2 ^ k * b) &&& (m0 + 2 ^ k * m1)) (2 ^ k)]
  rw [Nat.and_mod_two_pow, Nat.and_div_two_pow]
  rw [Nat.add_mul_mod_self_left, Nat.add_mul_mod_self_left, Nat.mod_eq_of_lt ha, Nat.mod_eq_of_lt hm]
  rw [Nat.add_mul_div_left _ _ hp, Nat.add_mul_div_left _ _ hp, Nat.div_eq_of_lt ha, Nat.div_eq_of_lt hm]
  simp

theorem and_mask_mod (x m k : Nat) (hm : m < 2 ^ k) : x &&& m = (x % 2 ^ k) &&& m := by
  have h1 : (x &&& m) % 2 ^ k = x % 2 ^ k &&& m % 2 ^ k := Nat.and_mod_two_pow
  have h2 : x &&& m ≤ m := Nat.and_le_right
  rw [Nat.mod_eq_of_lt (by omega), Nat.mod_eq_of_lt hm] at h1
  exact h1

theorem clamp_limbs (t0 t1 : Nat) (h0 : t0 < 2 ^ 64) :
    Spec.Poly1305.clampR (t0 + 2 ^ 64 * t1) =
      (t0 &&& 0xffc0fffffff)
      + ((t0 / 2 ^ 44 + (t1 % 2 ^ 44) * 2 ^ 20) &&& 0xfffffc0ffff) * 2 ^ 44
      + (t1 / 2 ^ 24 &&& 0x00ffffffc0f) * 2 ^ 88 := by
  have e1 : t0 + 2 ^ 64 * t1 = t0 % 2 ^ 44 + 2 ^ 44 * ((t0 / 2 ^ 44 + 2 ^ 20 * (t1 % 2 ^ 24)) + 2 ^ 44 * (t1 / 2 ^ 24)) := by
    omega
  have e2 : (0x0ffffffc0ffffffc0ffffffc0fffffff : Nat) = 0xffc0fffffff + 2 ^ 44 * (0xfffffc0ffff + 2 ^ 44 * 0x00ffffffc0f) := by
    decide
  unfold Spec.Poly1305.clampR
  rw [e1, e2, and_split _ _ _ _ 44 (by omega) (by decide), and_split _ _ _ _ 44 (by omega) (by decide)]
  rw [and_mask_mod t0 0xffc0fffffff 44 (by decide),
    and_mask_mod (t0 / 2 ^ 44 + (t1 % 2 ^ 44) * 2 ^ 20) 0xfffffc0ffff 44 (by decide)]
  have e3 : (t0 / 2 ^ 44 + (t1 % 2 ^ 44) * 2 ^ 20) % 2 ^ 44 = t0 / 2 ^ 44 + 2 ^ 20 * (t1 % 2 ^ 24) := by omega
  rw [e3]
  generalize t0 % 2 ^ 44 &&& 0xffc0fffffff = A
  generalize (t0 / 2 ^ 44 + 2 ^ 20 * (t1 % 2 ^ 24)) &&& 0xfffffc0ffff = B
  generalize t1 / 2 ^ 24 &&& 0x00ffffffc0f = C
  omega

/-! ### h *= r -/

/-- `h *= r`: the fifteen MUL/ADD statements -/
def mulR (r H : Limbs) : Nat × Nat × Nat :=
  let r0 := r.1
  let r1 := r.2.1
  let r2 := r.2.2
  let h0 := H.1
  let h1 := H.2.1
  let h2 := H.2.2
  let s1 := r1 * ((5 : UInt64) <<< 2)
  let s2 := r2 * ((5 : UInt64) <<< 2)
  let d0 := MUL h0 r0
  let d := MUL h1 s2
  let d0 := ADD d0 d
  let d := MUL h2 s1
  let d0 := ADD d0 d
  let d1 := MUL h0 r1
  let d := MUL h1 r0
  let d1 := ADD d1 d
  let d := MUL h2 s2
  let d1 := ADD d1 d
  let d2 := MUL h0 r2
  let d := MUL h1 r1
  let d2 := ADD d2 d
  let d := MUL h2 r0
  let d2 := ADD d2 d
  (d0, d1, d2)

theorem mulR_spec (r0 r1 r2 H0 H1 H2 : UInt64)
    (hr0 : r0.toNat < 2 ^ 44) (hr1 : r1.toNat < 2 ^ 44) (hr2 : r2.toNat < 2 ^ 36)
    (hH0 : H0.toNat < 2 ^ 45) (hH1 : H1.toNat < 2 ^ 46) (hH2 : H2.toNat < 2 ^ 43) :
    mulR (r0, r1, r2) (H0, H1, H2) =
      (H0.toNat * r0.toNat + 20 * (H1.toNat * r2.toNat) + 20 * (H2.toNat * r1.toNat),
       H0.toNat * r1.toNat + H1.toNat * r0.toNat + 20 * (H2.toNat * r2.toNat),
       H0.toNat * r2.toNat + H1.toNat * r1.toNat + H2.toNat * r0.toNat) := by
  have s1 : (r1 * ((5 : UInt64) <<< 2)).toNat = 20 * r1.toNat := by
    rw [UInt64.toNat_mul]; show r1.toNat * 20 % 2 ^ 64 = _; omega
  have s2 : (r2 * ((5 : UInt64) <<< 2)).toNat = 20 * r2.toNat := by
    rw [UInt64.toNat_mul]; show r2.toNat * 20 % 2 ^ 64 = _; omega
  have b00 : H0.toNat * r0.toNat < 2 ^ 45 * 2 ^ 44 := Nat.mul_lt_mul'' hH0 hr0
  have b01 : H0.toNat * r1.toNat < 2 ^ 45 * 2 ^ 44 := Nat.mul_lt_mul'' hH0 hr1
  have b02 : H0.toNat * r2.toNat < 2 ^ 45 * 2 ^ 36 := Nat.mul_lt_mul'' hH0 hr2
  have b10 : H1.toNat * r0.toNat < 2 ^ 46 * 2 ^ 44 := Nat.mul_lt_mul'' hH1 hr0
  have b11 : H1.toNat * r1.toNat < 2 ^ 46 * 2 ^ 44 := Nat.mul_lt_mul'' hH1 hr1
  have b12 : H1.toNat * r2.toNat < 2 ^ 46 * 2 ^ 36 := Nat.mul_lt_mul'' hH1 hr2
  have b20 : H2.toNat * r0.toNat < 2 ^ 43 * 2 ^ 44 := Nat.mul_lt_mul'' hH2 hr0
  have b21 : H2.toNat * r1.toNat < 2 ^ 43 * 2 ^ 44 := Nat.mul_lt_mul'' hH2 hr1
  have b22 : H2.toNat * r2.toNat < 2 ^ 43 * 2 ^ 36 := Nat.mul_lt_mul'' hH2 hr2
  simp only [mulR, MUL, ADD, s1, s2]
  rw [Nat.mul_left_comm H1.toNat 20 r2.toNat, Nat.mul_left_comm H2.toNat 20 r1.toNat,
    Nat.mul_left_comm H2.toNat 20 r2.toNat]
  generalize H0.toNat * r0.toNat = a00 at *
  generalize H0.toNat * r1.toNat = a01 at *
  generalize H0.toNat * r2.toNat = a02 at *
  generalize H1.toNat * r0.toNat = a10 at *
  generalize H1.toNat * r1.toNat = a11 at *
  generalize H1.toNat * r2.toNat = a12 at *
  generalize H2.toNat * r0.toNat = a20 at *
  generalize H2.toNat * r1.toNat = a21 at *
  generalize H2.toNat * r2.toNat = a22 at *
  refine Prod.ext ?_ (Prod.ext ?_ ?_) <;> simp only
  all_goals omega

/-! ### (partial) h %= p -/

/-- `(partial) h %= p` -/
def carry (d : Nat × Nat × Nat) : Limbs :=
  let d0 := d.1
  let d1 := d.2.1
  let d2 := d.2.2
  let c := SHR d0 44
  let h0 := LO d0 &&& 0xfffffffffff
  let d1 := ADDLO d1 c
  let c := SHR d1 44
  let h1 := LO d1 &&& 0xfffffffffff
  let d2 := ADDLO d2 c
  let c := SHR d2 42
  let h2 := LO d2 &&& 0x3ffffffffff
  let h0 := h0 + c * 5
  let c := h0 >>> 44
  let h0 := h0 &&& 0xfffffffffff
  let h1 := h1 + c
  (h0, h1, h2)

theorem shr44 (t : UInt64) : (t >>> 44).toNat = t.toNat / 2 ^ 44 := shr_toNat t 44
theorem shr42 (t : UInt64) : (t >>> 42).toNat = t.toNat / 2 ^ 42 := shr_toNat t 42
theorem mul5 (c : UInt64) : (c * 5).toNat = c.toNat * 5 % 2 ^ 64 := UInt64.toNat_mul c 5

theorem SHR_toNat (d k : Nat) (h : d / 2 ^ k < 2 ^ 64) : (SHR d k).toNat = d / 2 ^ k := by
  rw [SHR, UInt64.toNat_ofNat', Nat.shiftRight_eq_div_pow, Nat.mod_eq_of_lt h]
theorem LO44 (d : Nat) : (LO d &&& 0xfffffffffff).toNat = d % 2 ^ 44 := by
  rw [lo44, LO, UInt64.toNat_ofNat']; omega
theorem LO42 (d : Nat) : (LO d &&& 0x3ffffffffff).toNat = d % 2 ^ 42 := by
  rw [lo42, LO, UInt64.toNat_ofNat']; omega
theorem LO_toNat (d : Nat) : (LO d).toNat = d % 2 ^ 64 := UInt64.toNat_ofNat'
theorem ADDLO_eq (d : Nat) (c : UInt64) (h : d + c.toNat < 2 ^ 128) : ADDLO d c = d + c.toNat :=
  Nat.mod_eq_of_lt h

theorem carry_spec (d0 d1 d2 : Nat) (h0 : d0 < 2 ^ 93) (h1 : d1 < 2 ^ 93) (h2 : d2 < 5 * 2 ^ 87) :
    (carry (d0, d1, d2)).1.toNat < 2 ^ 44 ∧ (carry (d0, d1, d2)).2.1.toNat < 2 ^ 44 + 2 ^ 6 ∧
    (carry (d0, d1, d2)).2.2.toNat < 2 ^ 42 ∧
    val (carry (d0, d1, d2)) + (2 ^ 130 - 5) * ((d2 + (d1 + d0 / 2 ^ 44) / 2 ^ 44) / 2 ^ 42)
      = d0 + d1 * 2 ^ 44 + d2 * 2 ^ 88 := by
  obtain ⟨c0, hc0⟩ : ∃ c0, c0 = d0 / 2 ^ 44 := ⟨_, rfl⟩
  obtain ⟨D1, hD1⟩ : ∃ D1, D1 = d1 + c0 := ⟨_, rfl⟩
  obtain ⟨c1, hc1⟩ : ∃ c1, c1 = D1 / 2 ^ 44 := ⟨_, rfl⟩
  obtain ⟨D2, hD2⟩ : ∃ D2, D2 = d2 + c1 := ⟨_, rfl⟩
  obtain ⟨c2, hc2⟩ : ∃ c2, c2 = D2 / 2 ^ 42 := ⟨_, rfl⟩
  have b0 : c0 < 2 ^ 49 := by omega
  have b1 : c1 < 2 ^ 50 := by omega
  have b2 : c2 < 5 * 2 ^ 45 + 2 ^ 9 := by omega
  have e0 : (SHR d0 44).toNat = c0 := by rw [hc0]; exact SHR_toNat _ _ (by omega)
  have e1 : ADDLO d1 (SHR d0 44) = D1 := by
    rw [ADDLO_eq _ _ (by rw [e0]; omega), e0, hD1]
  have e2 : (SHR D1 44).toNat = c1 := by rw [hc1]; exact SHR_toNat _ _ (by omega)
  have e3 : ADDLO d2 (SHR D1 44) = D2 := by
    rw [ADDLO_eq _ _ (by rw [e2]; omega), e2, hD2]
  have e4 : (SHR D2 42).toNat = c2 := by rw [hc2]; exact SHR_toNat _ _ (by omega)
  rw [← hc0, ← hD1, ← hc1, ← hD2, ← hc2]
  simp only [carry, val, e1, e3, UInt64.toNat_add, lo44, lo42, LO_toNat, shr44, mul5, e4]
  have f0 : d0 % 2 ^ 64 % 2 ^ 44 = d0 - 2 ^ 44 * c0 := by omega
  have f1 : D1 % 2 ^ 64 % 2 ^ 44 = D1 - 2 ^ 44 * c1 := by omega
  have f2 : D2 % 2 ^ 64 % 2 ^ 42 = D2 - 2 ^ 42 * c2 := by omega
  have f3 : c2 * 5 % 2 ^ 64 = c2 * 5 := by omega
  rw [f0, f1, f2, f3]
  have f4 : (d0 - 2 ^ 44 * c0 + c2 * 5) % 2 ^ 64 = d0 - 2 ^ 44 * c0 + c2 * 5 := by omega
  rw [f4]
  obtain ⟨c3, hc3⟩ : ∃ c3, c3 = (d0 - 2 ^ 44 * c0 + c2 * 5) / 2 ^ 44 := ⟨_, rfl⟩
  rw [← hc3]
  have f5 : c3 < 2 ^ 6 := by omega
  have f6 : (d0 - 2 ^ 44 * c0 + c2 * 5) % 2 ^ 44 = d0 - 2 ^ 44 * c0 + c2 * 5 - 2 ^ 44 * c3 := by omega
  rw [f6]
  clear f0 f1 f2 f3 f4 f6 e0 e1 e2 e3 e4
  refine ⟨?_, ?_, ?_, ?_⟩ <;> omega

/-! ### h += m, and one whole block -/

/-- `h += m[i]` -/
def addMsg (h : Limbs) (m : Bytes) (hib : Bool) : Limbs :=
  let hibit : UInt64 := if hib then (1 : UInt64) <<< 40 else 0
  let h0 := h.1
  let h1 := h.2.1
  let h2 := h.2.2
  let t0 := LOAD64_LE m 0
  let t1 := LOAD64_LE m 8
  let h0 := h0 + (t0 &&& 0xfffffffffff)
  let h1 := h1 + (((t0 >>> 44) ||| (t1 <<< 20)) &&& 0xfffffffffff)
  let h2 := h2 + (((t1 >>> 24) &&& 0x3ffffffffff) ||| hibit)
  (h0, h1, h2)

/-- one `poly1305_blocks` iteration is the composition of its three commented sections -/
theorem blocks_eq (st : State) (m : Bytes) (hib : Bool) :
    poly1305_blocks st m hib = { st with h := carry (mulR st.r (addMsg st.h m hib)) } := rfl

theorem hi42_hibit (t1 : UInt64) (hib : Bool) :
    (((t1 >>> 24) &&& (0x3ffffffffff : UInt64)) ||| (if hib then (1 : UInt64) <<< 40 else 0)).toNat
      = t1.toNat / 2 ^ 24 + (if hib then 2 ^ 40 else 0) := by
  have h := t1.toNat_lt
  cases hib
  · simp only [Bool.false_eq_true, if_false, UInt64.or_zero, hi42, Nat.add_zero]
  · simp only [if_true]
    rw [UInt64.toNat_or, hi42, UInt64.toNat_shiftLeft]
    have := or_shl_nat (t1.toNat / 2 ^ 24) 1 40 64 (by omega) (by omega)
    exact this

theorem le16_split (m : Bytes) :
    le (m.take 16) = (LOAD64_LE m 0).toNat + 2 ^ 64 * (LOAD64_LE m 8).toNat := by
  rw [LOAD64_LE_toNat, LOAD64_LE_toNat, show (16 : Nat) = 8 + 8 from rfl, le_take_add]
  simp

/-- no 64-bit addition wraps in `h += m`, and the three limbs added are the block (plus 2^128) -/
theorem addMsg_spec (h0 h1 h2 : UInt64) (m : Bytes) (hib : Bool)
    (b0 : h0.toNat < 2 ^ 44) (b1 : h1.toNat < 2 ^ 44 + 2 ^ 6) (b2 : h2.toNat < 2 ^ 42) :
    (addMsg (h0, h1, h2) m hib).1.toNat = h0.toNat + (LOAD64_LE m 0).toNat % 2 ^ 44 ∧
    (addMsg (h0, h1, h2) m hib).2.1.toNat =
      h1.toNat + ((LOAD64_LE m 0).toNat / 2 ^ 44 + ((LOAD64_LE m 8).toNat % 2 ^ 24) * 2 ^ 20) ∧
    (addMsg (h0, h1, h2) m hib).2.2.toNat =
      h2.toNat + ((LOAD64_LE m 8).toNat / 2 ^ 24 + (if hib then 2 ^ 40 else 0)) := by
  have u0 := (LOAD64_LE m 0).toNat_lt
  have u1 := (LOAD64_LE m 8).toNat_lt
  simp only [addMsg, UInt64.toNat_add, mid44, hi42_hibit]
  simp only [lo44]
  refine ⟨by omega, by omega, ?_⟩
  cases hib <;> simp <;> omega


theorem mul_identity (H0 H1 H2 r0 r1 r2 : Nat) :
    (H0*r0 + 20*(H1*r2) + 20*(H2*r1)) + (H0*r1 + H1*r0 + 20*(H2*r2)) * 2^44
      + (H0*r2 + H1*r1 + H2*r0) * 2^88
      + (2^130-5) * (4*(H1*r2 + H2*r1) + 4 * 2^44 * (H2*r2))
    = (H0 + H1*2^44 + H2*2^88) * (r0 + r1*2^44 + r2*2^88) := by
  grind

/-- one block on raw limbs: invariant preserved, value congruent -/
theorem blocks_core (r0 r1 r2 h0 h1 h2 : UInt64) (m : Bytes) (hib : Bool)
    (hr0 : r0.toNat < 2 ^ 44) (hr1 : r1.toNat < 2 ^ 44) (hr2 : r2.toNat < 2 ^ 36)
    (b0 : h0.toNat < 2 ^ 44) (b1 : h1.toNat < 2 ^ 44 + 2 ^ 6) (b2 : h2.toNat < 2 ^ 42) :
    (carry (mulR (r0, r1, r2) (addMsg (h0, h1, h2) m hib))).1.toNat < 2 ^ 44 ∧
    (carry (mulR (r0, r1, r2) (addMsg (h0, h1, h2) m hib))).2.1.toNat < 2 ^ 44 + 2 ^ 6 ∧
    (carry (mulR (r0, r1, r2) (addMsg (h0, h1, h2) m hib))).2.2.toNat < 2 ^ 42 ∧
    ∃ k, val (carry (mulR (r0, r1, r2) (addMsg (h0, h1, h2) m hib))) + (2 ^ 130 - 5) * k
      = (val (h0, h1, h2) + le (m.take 16) + (if hib then 2 ^ 128 else 0)) * val (r0, r1, r2) := by
  obtain ⟨a0, a1, a2⟩ := addMsg_spec h0 h1 h2 m hib b0 b1 b2
  have hsplit := le16_split m
  have u0 := (LOAD64_LE m 0).toNat_lt
  have u1 := (LOAD64_LE m 8).toNat_lt
  generalize (LOAD64_LE m 0).toNat = t0 at *
  generalize (LOAD64_LE m 8).toNat = t1 at *
  obtain ⟨H0, H1, H2, hH⟩ : ∃ H0 H1 H2, addMsg (h0, h1, h2) m hib = (H0, H1, H2) := ⟨_, _, _, rfl⟩
  rw [hH] at a0 a1 a2 ⊢
  simp only at a0 a1 a2
  have hb : (if hib then 2 ^ 40 else 0) ≤ 2 ^ 40 := by split <;> omega
  have c0 : H0.toNat < 2 ^ 45 := by omega
  have c1 : H1.toNat < 2 ^ 45 + 2 ^ 6 := by omega
  have c2 : H2.toNat < 2 ^ 42 + 2 ^ 41 := by omega
  rw [mulR_spec r0 r1 r2 H0 H1 H2 hr0 hr1 hr2 c0 (by omega) (by omega)]
  have p00 : H0.toNat * r0.toNat < 2 ^ 45 * 2 ^ 44 := Nat.mul_lt_mul'' c0 hr0
  have p01 : H0.toNat * r1.toNat < 2 ^ 45 * 2 ^ 44 := Nat.mul_lt_mul'' c0 hr1
  have p02 : H0.toNat * r2.toNat < 2 ^ 45 * 2 ^ 36 := Nat.mul_lt_mul'' c0 hr2
  have p10 : H1.toNat * r0.toNat < (2 ^ 45 + 2 ^ 6) * 2 ^ 44 := Nat.mul_lt_mul'' c1 hr0
  have p11 : H1.toNat * r1.toNat < (2 ^ 45 + 2 ^ 6) * 2 ^ 44 := Nat.mul_lt_mul'' c1 hr1
  have p12 : H1.toNat * r2.toNat < (2 ^ 45 + 2 ^ 6) * 2 ^ 36 := Nat.mul_lt_mul'' c1 hr2
  have p20 : H2.toNat * r0.toNat < (2 ^ 42 + 2 ^ 41) * 2 ^ 44 := Nat.mul_lt_mul'' c2 hr0
  have p21 : H2.toNat * r1.toNat < (2 ^ 42 + 2 ^ 41) * 2 ^ 44 := Nat.mul_lt_mul'' c2 hr1
  have p22 : H2.toNat * r2.toNat < (2 ^ 42 + 2 ^ 41) * 2 ^ 36 := Nat.mul_lt_mul'' c2 hr2
  obtain ⟨q0, q1, q2, q3⟩ := carry_spec
    (H0.toNat * r0.toNat + 20 * (H1.toNat * r2.toNat) + 20 * (H2.toNat * r1.toNat))
    (H0.toNat * r1.toNat + H1.toNat * r0.toNat + 20 * (H2.toNat * r2.toNat))
    (H0.toNat * r2.toNat + H1.toNat * r1.toNat + H2.toNat * r0.toNat)
    (by omega) (by omega) (by omega)
  refine ⟨q0, q1, q2, ?_⟩
  have hv : val (h0, h1, h2) + le (m.take 16) + (if hib then 2 ^ 128 else 0)
      = H0.toNat + H1.toNat * 2 ^ 44 + H2.toNat * 2 ^ 88 := by
    simp only [val]
    rw [a0, a1, a2, hsplit]
    cases hib <;> simp <;> omega
  rw [hv]
  have hid := mul_identity H0.toNat H1.toNat H2.toNat r0.toNat r1.toNat r2.toNat
  simp only [val] at hid q3 ⊢
  generalize (4 * (H1.toNat * r2.toNat + H2.toNat * r1.toNat) + 4 * 2 ^ 44 * (H2.toNat * r2.toNat)) = k2 at hid
  generalize ((H0.toNat * r2.toNat + H1.toNat * r1.toNat + H2.toNat * r0.toNat +
    (H0.toNat * r1.toNat + H1.toNat * r0.toNat + 20 * (H2.toNat * r2.toNat) +
      (H0.toNat * r0.toNat + 20 * (H1.toNat * r2.toNat) + 20 * (H2.toNat * r1.toNat)) / 2 ^ 44) / 2 ^ 44) / 2 ^ 42) = k1 at q3
  refine ⟨k1 + k2, ?_⟩
  rw [← hid, ← q3, Nat.mul_add]
  omega

/-! ### poly1305_finish in three stages -/

/-- `fully carry h` -/
def fullCarry (h : Limbs) : Limbs :=
  let h0 := h.1
  let h1 := h.2.1
  let h2 := h.2.2
  let c := h1 >>> 44
  let h1 := h1 &&& 0xfffffffffff
  let h2 := h2 + c
  let c := h2 >>> 42
  let h2 := h2 &&& 0x3ffffffffff
  let h0 := h0 + c * 5
  let c := h0 >>> 44
  let h0 := h0 &&& 0xfffffffffff
  let h1 := h1 + c
  let c := h1 >>> 44
  let h1 := h1 &&& 0xfffffffffff
  let h2 := h2 + c
  let c := h2 >>> 42
  let h2 := h2 &&& 0x3ffffffffff
  let h0 := h0 + c * 5
  let c := h0 >>> 44
  let h0 := h0 &&& 0xfffffffffff
  let h1 := h1 + c
  (h0, h1, h2)

/-- `compute h + -p` and `select h if h < p, or h + -p if h >= p` -/
def subP (h : Limbs) : Limbs :=
  let h0 := h.1
  let h1 := h.2.1
  let h2 := h.2.2
  let g0 := h0 + 5
  let c := g0 >>> 44
  let g0 := g0 &&& 0xfffffffffff
  let g1 := h1 + c
  let c := g1 >>> 44
  let g1 := g1 &&& 0xfffffffffff
  let g2 := h2 + c - ((1 : UInt64) <<< 42)
  let mask := (g2 >>> 63) - 1
  let g0 := g0 &&& mask
  let g1 := g1 &&& mask
  let g2 := g2 &&& mask
  let mask := ~~~mask
  let h0 := (h0 &&& mask) ||| g0
  let h1 := (h1 &&& mask) ||| g1
  let h2 := (h2 &&& mask) ||| g2
  (h0, h1, h2)

/-- `h = (h + pad)`, `mac = h % (2^128)` and the stores -/
def addPad (h : Limbs) (pad : UInt64 × UInt64) : Bytes :=
  let h0 := h.1
  let h1 := h.2.1
  let h2 := h.2.2
  let t0 := pad.1
  let t1 := pad.2
  let h0 := h0 + (t0 &&& 0xfffffffffff)
  let c := h0 >>> 44
  let h0 := h0 &&& 0xfffffffffff
  let h1 := h1 + ((((t0 >>> 44) ||| (t1 <<< 20)) &&& 0xfffffffffff) + c)
  let c := h1 >>> 44
  let h1 := h1 &&& 0xfffffffffff
  let h2 := h2 + (((t1 >>> 24) &&& 0x3ffffffffff) + c)
  let h2 := h2 &&& 0x3ffffffffff
  let h0 := h0 ||| (h1 <<< 44)
  let h1 := (h1 >>> 20) ||| (h2 <<< 24)
  store64 h0 ++ store64 h1

theorem finish_eq (st : State) : poly1305_finish st = addPad (subP (fullCarry st.h)) st.pad := rfl

theorem fullCarry_spec (h0 h1 h2 : UInt64)
    (b0 : h0.toNat < 2 ^ 44) (b1 : h1.toNat < 2 ^ 44 + 2 ^ 6) (b2 : h2.toNat < 2 ^ 42) :
    (fullCarry (h0, h1, h2)).1.toNat < 2 ^ 44 ∧ (fullCarry (h0, h1, h2)).2.1.toNat < 2 ^ 44 ∧
    (fullCarry (h0, h1, h2)).2.2.toNat < 2 ^ 42 ∧
    ∃ k, val (fullCarry (h0, h1, h2)) + (2 ^ 130 - 5) * k = val (h0, h1, h2) := by
  simp only [fullCarry, val, UInt64.toNat_add, lo44, lo42, shr44, shr42, mul5]
  obtain ⟨c1, hc1⟩ : ∃ c, c = h1.toNat / 2 ^ 44 := ⟨_, rfl⟩
  rw [← hc1]
  have e1 : (h2.toNat + c1) % 2 ^ 64 = h2.toNat + c1 := by omega
  rw [e1]
  obtain ⟨c2, hc2⟩ : ∃ c, c = (h2.toNat + c1) / 2 ^ 42 := ⟨_, rfl⟩
  rw [← hc2]
  have e2 : (h0.toNat + c2 * 5 % 2 ^ 64) % 2 ^ 64 = h0.toNat + c2 * 5 := by omega
  rw [e2]
  obtain ⟨c3, hc3⟩ : ∃ c, c = (h0.toNat + c2 * 5) / 2 ^ 44 := ⟨_, rfl⟩
  rw [← hc3]
  have e3 : (h1.toNat % 2 ^ 44 + c3) % 2 ^ 64 = h1.toNat % 2 ^ 44 + c3 := by omega
  rw [e3]
  obtain ⟨c4, hc4⟩ : ∃ c, c = (h1.toNat % 2 ^ 44 + c3) / 2 ^ 44 := ⟨_, rfl⟩
  rw [← hc4]
  have e4 : ((h2.toNat + c1) % 2 ^ 42 + c4) % 2 ^ 64 = (h2.toNat + c1) % 2 ^ 42 + c4 := by omega
  rw [e4]
  obtain ⟨c5, hc5⟩ : ∃ c, c = ((h2.toNat + c1) % 2 ^ 42 + c4) / 2 ^ 42 := ⟨_, rfl⟩
  rw [← hc5]
  have e5 : ((h0.toNat + c2 * 5) % 2 ^ 44 + c5 * 5 % 2 ^ 64) % 2 ^ 64 = (h0.toNat + c2 * 5) % 2 ^ 44 + c5 * 5 := by omega
  rw [e5]
  obtain ⟨c6, hc6⟩ : ∃ c, c = ((h0.toNat + c2 * 5) % 2 ^ 44 + c5 * 5) / 2 ^ 44 := ⟨_, rfl⟩
  rw [← hc6]
  have e6 : ((h1.toNat % 2 ^ 44 + c3) % 2 ^ 44 + c6) % 2 ^ 64 = (h1.toNat % 2 ^ 44 + c3) % 2 ^ 44 + c6 := by omega
  rw [e6]
  refine ⟨by omega, by omega, by omega, c2 + c5, by omega⟩


theorem sel0 (h g : UInt64) : (h &&& ~~~(0 : UInt64)) ||| (g &&& 0) = h := by simp
theorem sel1 (h g : UInt64) : (h &&& ~~~(-1 : UInt64)) ||| (g &&& -1) = g := by simp

theorem subP_spec (h0 h1 h2 : UInt64)
    (b0 : h0.toNat < 2 ^ 44) (b1 : h1.toNat < 2 ^ 44) (b2 : h2.toNat < 2 ^ 42) :
    (subP (h0, h1, h2)).1.toNat < 2 ^ 44 ∧ (subP (h0, h1, h2)).2.1.toNat < 2 ^ 44 ∧
    (subP (h0, h1, h2)).2.2.toNat < 2 ^ 42 ∧
    val (subP (h0, h1, h2)) = val (h0, h1, h2) % (2 ^ 130 - 5) := by
  obtain ⟨g0, hg0⟩ : ∃ g, g = h0 + 5 := ⟨_, rfl⟩
  obtain ⟨g1, hg1⟩ : ∃ g, g = h1 + (g0 >>> 44) := ⟨_, rfl⟩
  obtain ⟨g2, hg2⟩ : ∃ g, g = h2 + (g1 >>> 44) - ((1 : UInt64) <<< 42) := ⟨_, rfl⟩
  have n0 : g0.toNat = h0.toNat + 5 := by
    rw [hg0, UInt64.toNat_add]; show (h0.toNat + 5) % 2 ^ 64 = _; omega
  have n1 : g1.toNat = h1.toNat + g0.toNat / 2 ^ 44 := by
    rw [hg1, UInt64.toNat_add, shr44]; omega
  have n2 : g2.toNat = (2 ^ 64 - 2 ^ 42 + (h2.toNat + g1.toNat / 2 ^ 44)) % 2 ^ 64 := by
    rw [hg2, UInt64.toNat_sub, UInt64.toNat_add, shr44]
    show (2 ^ 64 - 2 ^ 42 + (h2.toNat + g1.toNat / 2 ^ 44) % 2 ^ 64) % 2 ^ 64 = _
    omega
  have hs : subP (h0, h1, h2) =
      ((h0 &&& ~~~((g2 >>> 63) - 1)) ||| ((g0 &&& (0xfffffffffff : UInt64)) &&& ((g2 >>> 63) - 1)),
       (h1 &&& ~~~((g2 >>> 63) - 1)) ||| ((g1 &&& (0xfffffffffff : UInt64)) &&& ((g2 >>> 63) - 1)),
       (h2 &&& ~~~((g2 >>> 63) - 1)) ||| (g2 &&& ((g2 >>> 63) - 1))) := by
    rw [hg2, hg1, hg0]; rfl
  rw [hs]
  have hsh : (g2 >>> 63).toNat = g2.toNat / 2 ^ 63 := shr_toNat g2 63
  by_cases hlt : h2.toNat + g1.toNat / 2 ^ 44 < 2 ^ 42
  · -- h + 5 < 2^130: g2 is negative, mask = 0, keep h
    have hm : (g2 >>> 63) = 1 := UInt64.toNat_inj.mp (by rw [hsh, n2]; show _ = 1; omega)
    have hm' : (g2 >>> 63) - 1 = 0 := by rw [hm]; decide
    rw [hm', sel0, sel0, sel0]
    refine ⟨b0, b1, b2, ?_⟩
    simp only [val]
    rw [Nat.mod_eq_of_lt]
    omega
  · -- h + 5 ≥ 2^130: mask = all ones, take g
    have hm : (g2 >>> 63) = 0 := UInt64.toNat_inj.mp (by rw [hsh, n2]; show _ = 0; omega)
    have hm' : (g2 >>> 63) - 1 = -1 := by rw [hm]; decide
    rw [hm', sel1, sel1, sel1]
    simp only [val, lo44]
    have n2' : g2.toNat = h2.toNat + g1.toNat / 2 ^ 44 - 2 ^ 42 := by rw [n2]; omega
    rw [n2', n1, n0]
    rw [n1, n0] at hlt
    refine ⟨by omega, by omega, by omega, ?_⟩
    omega


theorem or_shl44 (a b : UInt64) (ha : a.toNat < 2 ^ 44) :
    (a ||| (b <<< 44)).toNat = a.toNat + (b.toNat % 2 ^ 20) * 2 ^ 44 := by
  rw [UInt64.toNat_or, UInt64.toNat_shiftLeft]
  exact or_shl_nat _ _ 44 64 ha (by omega)

theorem or_shl24 (a b : UInt64) (ha : a.toNat < 2 ^ 24) :
    (a ||| (b <<< 24)).toNat = a.toNat + (b.toNat % 2 ^ 40) * 2 ^ 24 := by
  rw [UInt64.toNat_or, UInt64.toNat_shiftLeft]
  exact or_shl_nat _ _ 24 64 ha (by omega)

theorem shr20 (t : UInt64) : (t >>> 20).toNat = t.toNat / 2 ^ 20 := shr_toNat t 20

theorem store_pair (a b : UInt64) (v : Nat) (h : a.toNat + 2 ^ 64 * b.toNat = v % 2 ^ 128) :
    store64 a ++ store64 b = toLE 16 v := by
  apply le_inj
  · simp [toLE_length]
  · rw [le_append, le_store64, le_store64, le_toLE, store64_length]
    exact h

theorem addPad_spec (h0 h1 h2 p0 p1 : UInt64)
    (b0 : h0.toNat < 2 ^ 44) (b1 : h1.toNat < 2 ^ 44) (b2 : h2.toNat < 2 ^ 42) :
    addPad (h0, h1, h2) (p0, p1)
      = toLE 16 ((val (h0, h1, h2) + (p0.toNat + 2 ^ 64 * p1.toNat)) % 2 ^ 128) := by
  have u0 := p0.toNat_lt
  have u1 := p1.toNat_lt
  obtain ⟨a0, ha0⟩ : ∃ a : UInt64, a = h0 + (p0 &&& (0xfffffffffff : UInt64)) := ⟨_, rfl⟩
  obtain ⟨a1, ha1⟩ : ∃ a : UInt64, a = h1 + ((((p0 >>> 44) ||| (p1 <<< 20)) &&& (0xfffffffffff : UInt64)) + (a0 >>> 44)) := ⟨_, rfl⟩
  obtain ⟨a2, ha2⟩ : ∃ a : UInt64, a = h2 + (((p1 >>> 24) &&& (0x3ffffffffff : UInt64)) + (a1 >>> 44)) := ⟨_, rfl⟩
  have n0 : a0.toNat = h0.toNat + p0.toNat % 2 ^ 44 := by
    rw [ha0, UInt64.toNat_add, lo44]; omega
  have n1 : a1.toNat = h1.toNat + (p0.toNat / 2 ^ 44 + (p1.toNat % 2 ^ 24) * 2 ^ 20 + a0.toNat / 2 ^ 44) := by
    rw [ha1, UInt64.toNat_add, UInt64.toNat_add, mid44, shr44]; omega
  have n2 : a2.toNat = h2.toNat + (p1.toNat / 2 ^ 24 + a1.toNat / 2 ^ 44) := by
    rw [ha2, UInt64.toNat_add, UInt64.toNat_add, hi42, shr44]; omega
  have hs : addPad (h0, h1, h2) (p0, p1) =
      store64 ((a0 &&& (0xfffffffffff : UInt64)) ||| ((a1 &&& (0xfffffffffff : UInt64)) <<< 44)) ++
      store64 (((a1 &&& (0xfffffffffff : UInt64)) >>> 20) ||| ((a2 &&& (0x3ffffffffff : UInt64)) <<< 24)) := by
    rw [ha2, ha1, ha0]; rfl
  rw [hs]
  apply store_pair
  rw [Nat.mod_mod]
  have l0 : (a0 &&& (0xfffffffffff : UInt64)).toNat < 2 ^ 44 := by rw [lo44]; omega
  have l1 : ((a1 &&& (0xfffffffffff : UInt64)) >>> 20).toNat < 2 ^ 24 := by rw [shr20, lo44]; omega
  rw [or_shl44 _ _ l0, or_shl24 _ _ l1, shr20, lo44, lo44, lo42]
  simp only [val]
  omega

/-! ### generic simulation between two instantiations of the streaming front-end -/

theorem polyBlocks_sim {σ τ : Type} (blk : σ → Bytes → Bool → σ) (blk' : τ → Bytes → Bool → τ)
    (R : σ → τ → Prop)
    (hR : ∀ s t b hib, R s t → b.length = 16 → R (blk s b hib) (blk' t b hib)) :
    ∀ (fuel : Nat) (s : σ) (t : τ) (m : Bytes), R s t →
      R (polyBlocks blk fuel s m).1 (polyBlocks blk' fuel t m).1 ∧
      (polyBlocks blk fuel s m).2 = (polyBlocks blk' fuel t m).2
  | 0, _, _, _, h => ⟨h, rfl⟩
  | fuel + 1, s, t, m, h => by
    simp only [polyBlocks]
    by_cases hm : m.length ≥ 16
    · simp only [hm, if_true]
      exact polyBlocks_sim blk blk' R hR fuel _ _ _ (hR s t _ true h (by simp; omega))
    · simp only [hm, if_false]
      exact ⟨h, trivial⟩

theorem polyUpdate_buffer_lt {σ : Type} (blk : σ → Bytes → Bool → σ) (s : PolyState σ) (c : Bytes)
    (h : s.buffer.length < 16) : (polyUpdate blk s c).buffer.length < 16 := by
  obtain ⟨_, _, _, hlt, _⟩ := polyUpdate_inv blk s.st s s.buffer c ⟨[], AllLen.nil 16, by simp, h, rfl⟩
  exact hlt

theorem polyUpdate_sim {σ τ : Type} (blk : σ → Bytes → Bool → σ) (blk' : τ → Bytes → Bool → τ)
    (R : σ → τ → Prop)
    (hR : ∀ s t b hib, R s t → b.length = 16 → R (blk s b hib) (blk' t b hib))
    (s : PolyState σ) (t : PolyState τ) (c : Bytes)
    (hst : R s.st t.st) (hb : s.buffer = t.buffer) (hlt : s.buffer.length < 16) :
    R (polyUpdate blk s c).st (polyUpdate blk' t c).st ∧
    (polyUpdate blk s c).buffer = (polyUpdate blk' t c).buffer := by
  unfold polyUpdate
  rw [← hb]
  by_cases hpos : s.buffer.length > 0
  · simp only [hpos, if_true]
    by_cases hshort : (s.buffer ++ c.take (min (16 - s.buffer.length) c.length)).length < 16
    · simp only [hshort, if_true]
      exact ⟨hst, trivial⟩
    · simp only [hshort, if_false]
      have hlen : (s.buffer ++ c.take (min (16 - s.buffer.length) c.length)).length = 16 := by
        simp at hshort ⊢; omega
      have h1 := hR _ _ _ true hst hlen
      have h2 := polyBlocks_sim blk blk' R hR
        (c.drop (min (16 - s.buffer.length) c.length)).length _ _
        (c.drop (min (16 - s.buffer.length) c.length)) h1
      exact ⟨h2.1, by simp only [h2.2]⟩
  · simp only [hpos, if_false]
    have h2 := polyBlocks_sim blk blk' R hR c.length s.st t.st c hst
    exact ⟨h2.1, by simp only [h2.2, hb]⟩

theorem polyFold_sim {σ τ : Type} (blk : σ → Bytes → Bool → σ) (blk' : τ → Bytes → Bool → τ)
    (R : σ → τ → Prop)
    (hR : ∀ s t b hib, R s t → b.length = 16 → R (blk s b hib) (blk' t b hib)) :
    ∀ (cs : List Bytes) (s : PolyState σ) (t : PolyState τ),
      R s.st t.st → s.buffer = t.buffer → s.buffer.length < 16 →
      R (cs.foldl (polyUpdate blk) s).st (cs.foldl (polyUpdate blk') t).st ∧
      (cs.foldl (polyUpdate blk) s).buffer = (cs.foldl (polyUpdate blk') t).buffer ∧
      (cs.foldl (polyUpdate blk) s).buffer.length < 16
  | [], _, _, h1, h2, h3 => ⟨h1, h2, h3⟩
  | c :: cs, s, t, h1, h2, h3 => by
    have h := polyUpdate_sim blk blk' R hR s t c h1 h2 h3
    exact polyFold_sim blk blk' R hR cs _ _ h.1 h.2 (polyUpdate_buffer_lt blk s c h3)

theorem polyFinish_sim {σ τ : Type} (blk : σ → Bytes → Bool → σ) (blk' : τ → Bytes → Bool → τ)
    (fin : σ → Bytes) (fin' : τ → Bytes) (R : σ → τ → Prop)
    (hR : ∀ s t b hib, R s t → b.length = 16 → R (blk s b hib) (blk' t b hib))
    (hfin : ∀ s t, R s t → fin s = fin' t)
    (s : PolyState σ) (t : PolyState τ)
    (hst : R s.st t.st) (hb : s.buffer = t.buffer) (hlt : s.buffer.length < 16) :
    polyFinish blk fin s = polyFinish blk' fin' t := by
  unfold polyFinish
  rw [← hb]
  by_cases hpos : s.buffer.length > 0
  · simp only [hpos, if_true]
    exact hfin _ _ (hR _ _ _ false hst (by simp [zeros]; omega))
  · simp only [hpos, if_false]
    exact hfin _ _ hst

/-! ### statements on `State` -/

/-- bounds of the clamped key limbs -/
def RInv (st : State) : Prop :=
  st.r.1.toNat < 2 ^ 44 ∧ st.r.2.1.toNat < 2 ^ 44 ∧ st.r.2.2.toNat < 2 ^ 36

/-- what the carry chain of `poly1305_blocks` guarantees between blocks -/
def Inv (st : State) : Prop :=
  st.h.1.toNat < 2 ^ 44 ∧ st.h.2.1.toNat < 2 ^ 44 + 2 ^ 6 ∧ st.h.2.2.toNat < 2 ^ 42

/-- the 128-bit pad -/
def padVal (st : State) : Nat := st.pad.1.toNat + 2 ^ 64 * st.pad.2.toNat

theorem init_spec_aux (key : Bytes) :
    val (poly1305_init key).r = Spec.Poly1305.clampR (le (key.take 16)) ∧
    RInv (poly1305_init key) ∧ (poly1305_init key).h = (0, 0, 0) ∧
    padVal (poly1305_init key) = le ((key.drop 16).take 16) := by
  refine ⟨?_, ?_, rfl, ?_⟩
  · have h := le16_split key
    have u0 := (LOAD64_LE key 0).toNat_lt
    rw [h, clamp_limbs _ _ u0]
    simp only [poly1305_init, val, UInt64.toNat_and, mid_toNat, shr_toNat]
    rfl
  · simp only [RInv, poly1305_init, UInt64.toNat_and]
    exact ⟨Nat.lt_of_le_of_lt Nat.and_le_right (by decide), Nat.lt_of_le_of_lt Nat.and_le_right (by decide),
      Nat.lt_of_le_of_lt Nat.and_le_right (by decide)⟩
  · simp only [padVal, poly1305_init, LOAD64_LE_toNat]
    rw [show (16 : Nat) = 8 + 8 from rfl, le_take_add, List.drop_drop]


theorem blocks_spec_aux (st : State) (m : Bytes) (hib : Bool) (hr : RInv st) (hi : Inv st) :
    (poly1305_blocks st m hib).r = st.r ∧ (poly1305_blocks st m hib).pad = st.pad ∧
    Inv (poly1305_blocks st m hib) ∧
    val (poly1305_blocks st m hib).h % (2 ^ 130 - 5) =
      ((val st.h + le (m.take 16) + (if hib then 2 ^ 128 else 0)) * val st.r) % (2 ^ 130 - 5) := by
  obtain ⟨⟨r0, r1, r2⟩, ⟨h0, h1, h2⟩, pad⟩ := st
  obtain ⟨q0, q1, q2, k, hk⟩ := blocks_core r0 r1 r2 h0 h1 h2 m hib hr.1 hr.2.1 hr.2.2 hi.1 hi.2.1 hi.2.2
  rw [blocks_eq]
  refine ⟨rfl, rfl, ⟨q0, q1, q2⟩, ?_⟩
  show val (carry (mulR (r0, r1, r2) (addMsg (h0, h1, h2) m hib))) % (2 ^ 130 - 5) = _
  rw [← hk, Nat.add_mul_mod_self_left]

theorem finish_spec_aux (st : State) (hi : Inv st) :
    poly1305_finish st = toLE 16 ((val st.h % (2 ^ 130 - 5) + padVal st) % 2 ^ 128) := by
  obtain ⟨r, ⟨h0, h1, h2⟩, ⟨p0, p1⟩⟩ := st
  rw [finish_eq]
  obtain ⟨a0, a1, a2, k, hk⟩ := fullCarry_spec h0 h1 h2 hi.1 hi.2.1 hi.2.2
  show addPad (subP (fullCarry (h0, h1, h2))) (p0, p1) = _
  generalize fullCarry (h0, h1, h2) = fc at *
  obtain ⟨f0, f1, f2⟩ := fc
  obtain ⟨s0, s1, s2, hs⟩ := subP_spec f0 f1 f2 a0 a1 a2
  generalize subP (f0, f1, f2) = sp at *
  obtain ⟨g0, g1, g2⟩ := sp
  rw [addPad_spec g0 g1 g2 p0 p1 s0 s1 s2, hs]
  show _ = toLE 16 ((val (h0, h1, h2) % (2 ^ 130 - 5) + (p0.toNat + 2 ^ 64 * p1.toNat)) % 2 ^ 128)
  rw [← hk, Nat.add_mul_mod_self_left]

/-! ### the donna64 state simulates the abstract (r, s, acc) state -/

def Rel (s : State) (n : PolyNat) : Prop :=
  RInv s ∧ Inv s ∧ val s.r = n.1 ∧ padVal s = n.2.1 ∧ val s.h % (2 ^ 130 - 5) = n.2.2

theorem rel_init (key : Bytes) : Rel (poly1305_init key) (polyInitNat key).st := by
  obtain ⟨h1, h2, h3, h4⟩ := init_spec_aux key
  refine ⟨h2, ?_, h1, h4, ?_⟩
  · rw [Inv, h3]; decide
  · rw [h3]; rfl

theorem add_mul_mod_left (a x r p : Nat) : ((a % p + x) * r) % p = ((a + x) * r) % p := by
  rw [Nat.mul_mod, Nat.add_mod, Nat.mod_mod, ← Nat.add_mod, ← Nat.mul_mod]

theorem rel_blk (s : State) (n : PolyNat) (b : Bytes) (hib : Bool) (h : Rel s n) (hb : b.length = 16) :
    Rel (poly1305_blocks s b hib) (polyBlkNat n b hib) := by
  obtain ⟨hr, hi, e1, e2, e3⟩ := h
  obtain ⟨q1, q2, q3, q4⟩ := blocks_spec_aux s b hib hr hi
  refine ⟨?_, q3, ?_, ?_, ?_⟩
  · simpa [RInv, q1] using hr
  · rw [q1]; exact e1
  · simp only [padVal, q2]; exact e2
  · rw [q4, le_take_full b 16 (by omega)]
    simp only [polyBlkNat, Spec.Poly1305.p]
    rw [← e3, ← e1, Nat.add_assoc, Nat.add_assoc, add_mul_mod_left]

theorem rel_fin (s : State) (n : PolyNat) (h : Rel s n) : poly1305_finish s = polyFinNat n := by
  obtain ⟨_, hi, _, e2, e3⟩ := h
  rw [finish_spec_aux s hi, e2, e3]; rfl

theorem donna64_eq_abstract_aux (key : Bytes) (cs : List Bytes) :
    macChunks key cs
      = polyFinish polyBlkNat polyFinNat (cs.foldl (polyUpdate polyBlkNat) (polyInitNat key)) := by
  have h := polyFold_sim poly1305_blocks polyBlkNat Rel rel_blk cs (Poly1305Donna.init key) (polyInitNat key)
    (rel_init key) rfl (by simp [Poly1305Donna.init])
  exact polyFinish_sim poly1305_blocks polyBlkNat poly1305_finish polyFinNat Rel rel_blk rel_fin _ _
    h.1 h.2.1 h.2.2

/-! ### "no overflow": the block function equals the same computation over unbounded naturals -/

/-- the carry chain of `poly1305_blocks` over unbounded naturals (no `% 2^64`, no `% 2^128`) -/
def carryNat (d0 d1 d2 : Nat) : Nat × Nat × Nat :=
  let c := d0 / 2 ^ 44
  let h0 := d0 % 2 ^ 44
  let d1 := d1 + c
  let c := d1 / 2 ^ 44
  let h1 := d1 % 2 ^ 44
  let d2 := d2 + c
  let c := d2 / 2 ^ 42
  let h2 := d2 % 2 ^ 42
  let h0 := h0 + c * 5
  let c := h0 / 2 ^ 44
  let h0 := h0 % 2 ^ 44
  let h1 := h1 + c
  (h0, h1, h2)

/-- one `poly1305_blocks` iteration over unbounded naturals: the arithmetic the C code intends -/
def blocksNat (r0 r1 r2 h0 h1 h2 t0 t1 hibit : Nat) : Nat × Nat × Nat :=
  let s1 := r1 * 20
  let s2 := r2 * 20
  let h0 := h0 + t0 % 2 ^ 44
  let h1 := h1 + (t0 / 2 ^ 44 + t1 % 2 ^ 24 * 2 ^ 20)
  let h2 := h2 + (t1 / 2 ^ 24 + hibit)
  let d0 := h0 * r0 + h1 * s2 + h2 * s1
  let d1 := h0 * r1 + h1 * r0 + h2 * s2
  let d2 := h0 * r2 + h1 * r1 + h2 * r0
  carryNat d0 d1 d2

def limbsNat (h : Limbs) : Nat × Nat × Nat := (h.1.toNat, h.2.1.toNat, h.2.2.toNat)

theorem carry_toNat (d0 d1 d2 : Nat) (h0 : d0 < 2 ^ 93) (h1 : d1 < 2 ^ 93) (h2 : d2 < 5 * 2 ^ 87) :
    limbsNat (carry (d0, d1, d2)) = carryNat d0 d1 d2 := by
  obtain ⟨c0, hc0⟩ : ∃ c0, c0 = d0 / 2 ^ 44 := ⟨_, rfl⟩
  obtain ⟨D1, hD1⟩ : ∃ D1, D1 = d1 + c0 := ⟨_, rfl⟩
  obtain ⟨c1, hc1⟩ : ∃ c1, c1 = D1 / 2 ^ 44 := ⟨_, rfl⟩
  obtain ⟨D2, hD2⟩ : ∃ D2, D2 = d2 + c1 := ⟨_, rfl⟩
  obtain ⟨c2, hc2⟩ : ∃ c2, c2 = D2 / 2 ^ 42 := ⟨_, rfl⟩
  have b0 : c0 < 2 ^ 49 := by omega
  have b1 : c1 < 2 ^ 50 := by omega
  have b2 : c2 < 5 * 2 ^ 45 + 2 ^ 9 := by omega
  have e0 : (SHR d0 44).toNat = c0 := by rw [hc0]; exact SHR_toNat _ _ (by omega)
  have e1 : ADDLO d1 (SHR d0 44) = D1 := by
    rw [ADDLO_eq _ _ (by rw [e0]; omega), e0, hD1]
  have e2 : (SHR D1 44).toNat = c1 := by rw [hc1]; exact SHR_toNat _ _ (by omega)
  have e3 : ADDLO d2 (SHR D1 44) = D2 := by
    rw [ADDLO_eq _ _ (by rw [e2]; omega), e2, hD2]
  have e4 : (SHR D2 42).toNat = c2 := by rw [hc2]; exact SHR_toNat _ _ (by omega)
  simp only [carryNat, limbsNat]
  rw [← hc0, ← hD1, ← hc1, ← hD2, ← hc2]
  simp only [carry, e1, e3, UInt64.toNat_add, lo44, lo42, LO_toNat, shr44, mul5, e4]
  have f0 : d0 % 2 ^ 64 % 2 ^ 44 = d0 % 2 ^ 44 := by omega
  have f1 : D1 % 2 ^ 64 % 2 ^ 44 = D1 % 2 ^ 44 := by omega
  have f2 : D2 % 2 ^ 64 % 2 ^ 42 = D2 % 2 ^ 42 := by omega
  have f3 : c2 * 5 % 2 ^ 64 = c2 * 5 := by omega
  rw [f0, f1, f2, f3]
  have f4 : (d0 % 2 ^ 44 + c2 * 5) % 2 ^ 64 = d0 % 2 ^ 44 + c2 * 5 := by omega
  rw [f4]
  have f5 : (D1 % 2 ^ 44 + (d0 % 2 ^ 44 + c2 * 5) / 2 ^ 44) % 2 ^ 64
      = D1 % 2 ^ 44 + (d0 % 2 ^ 44 + c2 * 5) / 2 ^ 44 := by omega
  rw [f5]

/-- Under the invariants no 64-bit addition or multiplication wraps, no 128-bit MUL / ADD / ADDLO
    wraps and no `SHR` result is truncated by the cast to 64 bits: the limbs computed by
    `poly1305_blocks` are those of the same computation over unbounded naturals.  Every 128-bit
    accumulator stays below 2^93. -/
theorem blocks_no_overflow_aux (st : State) (m : Bytes) (hib : Bool) (hr : RInv st) (hi : Inv st) :
    limbsNat (poly1305_blocks st m hib).h =
      blocksNat st.r.1.toNat st.r.2.1.toNat st.r.2.2.toNat st.h.1.toNat st.h.2.1.toNat st.h.2.2.toNat
        (LOAD64_LE m 0).toNat (LOAD64_LE m 8).toNat (if hib then 2 ^ 40 else 0) ∧
    (mulR st.r (addMsg st.h m hib)).1 < 2 ^ 93 ∧ (mulR st.r (addMsg st.h m hib)).2.1 < 2 ^ 93 ∧
    (mulR st.r (addMsg st.h m hib)).2.2 < 2 ^ 93 := by
  obtain ⟨⟨r0, r1, r2⟩, ⟨h0, h1, h2⟩, pad⟩ := st
  obtain ⟨hr0, hr1, hr2⟩ := hr
  obtain ⟨b0, b1, b2⟩ := hi
  simp only at hr0 hr1 hr2 b0 b1 b2
  rw [blocks_eq]
  simp only
  obtain ⟨a0, a1, a2⟩ := addMsg_spec h0 h1 h2 m hib b0 b1 b2
  have u0 := (LOAD64_LE m 0).toNat_lt
  have u1 := (LOAD64_LE m 8).toNat_lt
  generalize (LOAD64_LE m 0).toNat = t0 at *
  generalize (LOAD64_LE m 8).toNat = t1 at *
  obtain ⟨H0, H1, H2, hH⟩ : ∃ H0 H1 H2, addMsg (h0, h1, h2) m hib = (H0, H1, H2) := ⟨_, _, _, rfl⟩
  rw [hH] at a0 a1 a2 ⊢
  simp only at a0 a1 a2
  have hb : (if hib then 2 ^ 40 else 0) ≤ 2 ^ 40 := by split <;> omega
  have c0 : H0.toNat < 2 ^ 45 := by omega
  have c1 : H1.toNat < 2 ^ 45 + 2 ^ 6 := by omega
  have c2 : H2.toNat < 2 ^ 42 + 2 ^ 41 := by omega
  rw [mulR_spec r0 r1 r2 H0 H1 H2 hr0 hr1 hr2 c0 (by omega) (by omega)]
  have p00 : H0.toNat * r0.toNat < 2 ^ 45 * 2 ^ 44 := Nat.mul_lt_mul'' c0 hr0
  have p01 : H0.toNat * r1.toNat < 2 ^ 45 * 2 ^ 44 := Nat.mul_lt_mul'' c0 hr1
  have p02 : H0.toNat * r2.toNat < 2 ^ 45 * 2 ^ 36 := Nat.mul_lt_mul'' c0 hr2
  have p10 : H1.toNat * r0.toNat < (2 ^ 45 + 2 ^ 6) * 2 ^ 44 := Nat.mul_lt_mul'' c1 hr0
  have p11 : H1.toNat * r1.toNat < (2 ^ 45 + 2 ^ 6) * 2 ^ 44 := Nat.mul_lt_mul'' c1 hr1
  have p12 : H1.toNat * r2.toNat < (2 ^ 45 + 2 ^ 6) * 2 ^ 36 := Nat.mul_lt_mul'' c1 hr2
  have p20 : H2.toNat * r0.toNat < (2 ^ 42 + 2 ^ 41) * 2 ^ 44 := Nat.mul_lt_mul'' c2 hr0
  have p21 : H2.toNat * r1.toNat < (2 ^ 42 + 2 ^ 41) * 2 ^ 44 := Nat.mul_lt_mul'' c2 hr1
  have p22 : H2.toNat * r2.toNat < (2 ^ 42 + 2 ^ 41) * 2 ^ 36 := Nat.mul_lt_mul'' c2 hr2
  refine ⟨?_, by simp only; omega, by simp only; omega, by simp only; omega⟩
  rw [carry_toNat _ _ _ (by omega) (by omega) (by omega)]
  simp only [blocksNat, ← a0, ← a1, ← a2]
  congr 1
  · ac_rfl
  · congr 1
    ac_rfl

end Sodium.PolyDonnaP
