import SodiumModel.Proofs.GcmAesniLoop
/-
  AES-NI AES-256-GCM model: `aes_gcm_encrypt_generic` (the whole encryption function, every message and AD length).

  MAIN THEOREM `encrypt_generic_spec`: the bytes written to `dst` are GCTR (SP 800-38D) from counter value 2, and the
  tag is `E(J0) ⊕ REV128(acc)` with `acc` the SEQUENTIAL GHASH (`ghFold` / `ghB` of `Proofs/GcmAesniIface.lean`) over
  zero-padded AD, zero-padded ciphertext and the length block — for the 2·7-block loop with the hash lagging 7 blocks
  behind, the 7-, 4-, 2- and 1-block loops, and the tail (`0 ≤ left ≤ 16`, INCLUDING a final full block), and
  independently of the indeterminate stack bytes of `last_blocks`.

  Hypotheses: `GhOK st h0` (the aggregated GHASH code computes the sequential GHASH; proved elsewhere),
  15 round keys, a 12-byte nonce, `(src_len + 15) / 16 + 2 < 2^32` (guaranteed by `required_blocks`), and
  `ad_len < 2^64` (`ad_len` is a `size_t`; the model masks it with `& ~15`).

  Structure: the function is cut into phases (`sec2`, `sec1`, `loopN 4`, `loopN 2`, `loopS`, `tailF`; `generic_eq` is
  `rfl`); the invariant `Inv C lag i s` is preserved by every loop body; `forLoop_le_inv` / `forLoop_lt_inv`
  (`Proofs/GcmAesniLoop.lean`) lift it to the loops.  Core Lean only.
-/
namespace Sodium.GcmAesniP.Enc
open Sodium Sodium.Spec Sodium.Model.GcmAesni Sodium.GcmAesniP Sodium.GcmAesniP.Loop

/-! ### the function cut into its phases (definitionally the same text) -/

/-- `incr_counters; encrypt_xor_wide(st, dst + i, src + i, rev_counters)` -/
def wideStep (st : State) (src : Bytes) (i : Nat) (s : Loop) : Loop :=
  let (rev_counters, counter) := incr_counters s.counter PARALLEL_BLOCKS
  { s with dst := s.dst ++ encrypt_xor_wide st (src.drop i) rev_counters, counter := counter }

/-- body of the 2·PARALLEL_BLOCKS loop -/
def body2 (st : State) (src : Bytes) (i : Nat) (s : Loop) : Loop :=
  let PB := PARALLEL_BLOCKS
  let (rev_counters, counter) := incr_counters s.counter PB
  let dst := s.dst ++ encrypt_xor_wide st (src.drop i) rev_counters
  let pi := i - PB * 16
  let u := gh_update0 s.acc (dst.drop pi) (st.hx.getD (2 * PB - 1 - 0) 0)
  let u := (List.range' 1 (PB - 1)).foldl
    (fun u j => gh_update u (dst.drop (pi + j * 16)) (st.hx.getD (2 * PB - 1 - j) 0)) u
  let (rev_counters, counter) := incr_counters counter PB
  let dst := dst ++ encrypt_xor_wide st (src.drop (i + PB * 16)) rev_counters
  let pi := i
  let u := (List.range PB).foldl
    (fun u j => gh_update u (dst.drop (pi + j * 16)) (st.hx.getD (PB - 1 - j) 0)) u
  { dst := dst, acc := gcm_reduce u, counter := counter }

/-- body of the PARALLEL_BLOCKS loop -/
def body1 (st : State) (src : Bytes) (i : Nat) (s : Loop) : Loop :=
  let PB := PARALLEL_BLOCKS
  let (rev_counters, counter) := incr_counters s.counter PB
  let dst := s.dst ++ encrypt_xor_wide st (src.drop i) rev_counters
  let pi := i - PB * 16
  { dst := dst, acc := gh_agg st s.acc (dst.drop pi) PB, counter := counter }

/-- body of the 4- and 2-block loops -/
def bodyN (st : State) (src : Bytes) (n : Nat) (i : Nat) (s : Loop) : Loop :=
  let (rev_counters, counter) := incr_counters s.counter n
  let dst := (List.range n).foldl (fun dst j =>
    dst ++ encrypt_xor_block st (src.drop (i + j * 16)) (rev_counters.getD j 0)) s.dst
  { dst := dst, acc := gh_agg st s.acc (dst.drop i) n, counter := counter }

/-- body of the single-block loop -/
def bodyS (st : State) (src : Bytes) (i : Nat) (s : Loop) : Loop :=
  let dst := s.dst ++ encrypt_xor_block st (src.drop i) (REV128 s.counter)
  { dst := dst, acc := gh_agg st s.acc (dst.drop i) 1, counter := ADD64x2 s.counter ONE128 }

/-- the hash catch-up after the two wide sections -/
def catchUp (st : State) (i : Nat) (s : Loop) : Nat × Loop :=
  (i, { s with acc := gh_agg st s.acc (s.dst.drop (i - PARALLEL_BLOCKS * 16)) PARALLEL_BLOCKS })

def sec2 (st : State) (src : Bytes) (i : Nat) (s : Loop) : Nat × Loop :=
  if src.length - i ≥ 2 * PARALLEL_BLOCKS * 16 then
    let s := wideStep st src i s
    let i := i + PARALLEL_BLOCKS * 16
    let (i, s) := forLoop (fun i => i + 2 * PARALLEL_BLOCKS * 16 ≤ src.length) (2 * PARALLEL_BLOCKS * 16)
      (body2 st src) (src.length + 1) i s
    catchUp st i s
  else (i, s)

def sec1 (st : State) (src : Bytes) (i : Nat) (s : Loop) : Nat × Loop :=
  if src.length - i ≥ PARALLEL_BLOCKS * 16 then
    let s := wideStep st src i s
    let i := i + PARALLEL_BLOCKS * 16
    let (i, s) := forLoop (fun i => i + PARALLEL_BLOCKS * 16 ≤ src.length) (PARALLEL_BLOCKS * 16)
      (body1 st src) (src.length + 1) i s
    catchUp st i s
  else (i, s)

def loopN (st : State) (src : Bytes) (n : Nat) (i : Nat) (s : Loop) : Nat × Loop :=
  forLoop (fun i => i + n * 16 ≤ src.length) (n * 16) (bodyN st src n) (src.length + 1) i s

def loopS (st : State) (src : Bytes) (i : Nat) (s : Loop) : Nat × Loop :=
  forLoop (fun i => i + 16 < src.length) 16 (bodyS st src) (src.length + 1) i s

/-- the two branches of "Authenticate both the last block of the message and the final block": `(dst, sth->acc)` -/
def tailPair (st : State) (src : Bytes) (fb : BlockVec) (stack : Bytes) (i : Nat) (s : Loop) : Bytes × BlockVec :=
  let left := src.length - i
  if left != 0 then
    let last_blocks := (src.drop i).take left ++ (stack.take 16).drop left ++ STORE128 fb
    let last_blocks := encrypt_xor_block st last_blocks (REV128 s.counter) ++ last_blocks.drop 16
    let last_blocks := last_blocks.take left ++ zeros (16 - left) ++ last_blocks.drop 16
    (s.dst ++ last_blocks.take left, gh_ad_blocks st s.acc last_blocks 32)
  else
    (s.dst, gh_ad_blocks st s.acc (STORE128 fb) 16)

/-- the end of the function -/
def tailF (st : State) (src : Bytes) (ad_len : Nat) (counter_ stack : Bytes) (i : Nat) (s : Loop) : Bytes × Bytes :=
  let fb := final_block ad_len src.length
  let mac := encrypt st (counter_.take NPUBBYTES ++ STORE32_BE 1)
  let (dst, acc) := tailPair st src fb stack i s
  (dst, STORE128 (XOR128 (LOAD128 mac) (REV128 acc)))

/-- the phases in sequence, from the loop state `s` at offset 0 -/
def phases (st : State) (src : Bytes) (ad_len : Nat) (counter_ stack : Bytes) (s : Loop) : Bytes × Bytes :=
  let (i, s) := sec2 st src 0 s
  let (i, s) := sec1 st src i s
  let (i, s) := loopN st src 4 i s
  let (i, s) := loopN st src 2 i s
  let (i, s) := loopS st src i s
  tailF st src ad_len counter_ stack i s

def composed (st : State) (acc0 : BlockVec) (src ad counter_ stack : Bytes) : Bytes × Bytes :=
  phases st src ad.length counter_ stack
    { dst := [], acc := absorb_ad st acc0 ad, counter := REV128 (LOAD128 counter_) }

attribute [local irreducible] forLoop incr_counters encrypt_xor_wide encrypt_xor_block gh_agg gh_update gh_update0 gcm_reduce gh_ad_blocks absorb_ad REV128 ADD64x2 encrypt final_block in
theorem generic_eq (st : State) (acc0 : BlockVec) (src ad counter_ stack : Bytes) :
    aes_gcm_encrypt_generic st acc0 src ad counter_ stack = composed st acc0 src ad counter_ stack := by
  rfl


/-! ### context -/

/-- everything that is fixed during one call -/
structure Ctx where
  st : State
  h0 : BlockVec
  npub : Bytes
  src : Bytes
  /-- the accumulator after the associated data -/
  A : BlockVec
  hg : GhOK st h0
  hk : st.rkeys.length = 15
  hn : npub.length = 12
  hlen : (src.length + 15) / 16 + 2 < 2 ^ 32

/-- the block cipher -/
def Ctx.E (C : Ctx) : Bytes → Bytes := Aes.cipher (C.st.rkeys.map STORE128)
/-- the specified ciphertext -/
def Ctx.ct (C : Ctx) : Bytes := Gcm.gctr C.E (Ctr.ctrBlock C.npub 2) C.src

theorem E_length (C : Ctx) (b : Bytes) (hb : b.length = 16) : (C.E b).length = 16 := by
  unfold Ctx.E
  rw [← AesK.STORE128_LOAD128 b hb, ← AesK.rounds_eq _ C.hk]
  exact AesK.STORE128_length _

theorem E_ctr_length (C : Ctx) (c : Nat) : (C.E (Ctr.ctrBlock C.npub c)).length = 16 :=
  E_length C _ (Ctr.ctrBlock_length C.npub C.hn c)

/-! ### the batches are keystream blocks -/

/-- `encrypt_xor_block` with the register of counter value `c` -/
theorem blk_eq (C : Ctx) (x : Bytes) (c : Nat) (hx : 16 ≤ x.length) :
    encrypt_xor_block C.st x (LOAD128 (Ctr.ctrBlock C.npub c)) =
      xorBytes (x.take 16) (C.E (Ctr.ctrBlock C.npub c)) := by
  rw [AesK.encrypt_xor_block_eq C.st C.hk x hx, AesK.STORE128_LOAD128 _ (Ctr.ctrBlock_length C.npub C.hn c),
    xorBytes_comm]
  rfl

/-- `m` calls of `encrypt_xor_block` with the registers produced by `incr_counters(…, m)` -/
theorem blocks_eq_ks (C : Ctx) (x : Bytes) (counter : BlockVec) (c m : Nat)
    (hc : counter.toNat = be C.npub * 2 ^ 32 + c) (hb : c + m ≤ 2 ^ 32) (hx : 16 * m ≤ x.length) :
    ((List.range m).map fun j =>
        encrypt_xor_block C.st (x.drop (16 * j)) ((incr_counters counter m).1.getD j 0)).flatten
      = ks C.E C.npub m c x := by
  unfold ks
  congr 1
  apply List.map_congr_left
  intro j hj
  have hj' : j < m := List.mem_range.mp hj
  rw [Ctr.incr_counters_getD C.npub C.hn counter c m hc hb j hj', blk_eq C _ _ (by simp; omega)]

/-- `encrypt_xor_wide` with the registers produced by `incr_counters(…, PARALLEL_BLOCKS)` -/
theorem wide_eq_ks (C : Ctx) (x : Bytes) (counter : BlockVec) (c : Nat)
    (hc : counter.toNat = be C.npub * 2 ^ 32 + c) (hb : c + 7 ≤ 2 ^ 32) (hx : 112 ≤ x.length) :
    encrypt_xor_wide C.st x (incr_counters counter PARALLEL_BLOCKS).1 = ks C.E C.npub 7 c x := by
  rw [AesK.encrypt_xor_wide_eq C.st C.hk x hx _ (Ctr.incr_counters_length counter PARALLEL_BLOCKS)]
  exact blocks_eq_ks C x counter c 7 hc hb (by omega)

/-- the `for (j = 0; j < n; j++) encrypt_xor_block(st, dst + i + j * 16, src + i + j * 16, rev_counters[j])` of the
    4- and 2-block loops -/
theorem foldN_eq_ks (C : Ctx) (i : Nat) (d : Bytes) (counter : BlockVec) (c m : Nat)
    (hc : counter.toNat = be C.npub * 2 ^ 32 + c) (hb : c + m ≤ 2 ^ 32) (hx : i + 16 * m ≤ C.src.length) :
    (List.range m).foldl (fun dst j =>
        dst ++ encrypt_xor_block C.st (C.src.drop (i + j * 16)) ((incr_counters counter m).1.getD j 0)) d
      = d ++ ks C.E C.npub m c (C.src.drop i) := by
  rw [foldl_append_eq_flatten, ← blocks_eq_ks C (C.src.drop i) counter c m hc hb (by simp; omega)]
  congr 3
  funext j
  rw [List.drop_drop, Nat.mul_comm j 16]

/-- the single block of the last loop -/
theorem single_eq_ks (C : Ctx) (x : Bytes) (counter : BlockVec) (c : Nat)
    (hc : counter.toNat = be C.npub * 2 ^ 32 + c) (hb : c < 2 ^ 32) (hx : 16 ≤ x.length) :
    encrypt_xor_block C.st x (REV128 counter) = ks C.E C.npub 1 c x := by
  rw [Ctr.REV128_counter C.npub C.hn counter c hc hb, blk_eq C x c hx]
  simp [ks]

/-! ### the invariant -/

/-- State at byte offset `i = 16 k`: `dst` holds the first `i` bytes of the specified ciphertext (written as
    "`ct` = `dst` followed by GCTR of the rest from counter value `2 + k`"), the counter register holds `2 + k`,
    and the accumulator covers the first `k - lag` blocks of `dst` (`lag = 7` inside the two wide sections). -/
def Inv (C : Ctx) (lag : Nat) (i : Nat) (s : Loop) : Prop :=
  ∃ k, i = 16 * k ∧ i ≤ C.src.length ∧ s.dst.length = i ∧
    C.ct = s.dst ++ Gcm.gctr C.E (Ctr.ctrBlock C.npub (2 + k)) (C.src.drop i) ∧
    s.counter.toNat = be C.npub * 2 ^ 32 + (2 + k) ∧ lag ≤ k ∧
    s.acc = ghFold C.h0 C.A s.dst (k - lag)

theorem Inv_init (C : Ctx) (counter : BlockVec) (hc : counter.toNat = be C.npub * 2 ^ 32 + 2) :
    Inv C 0 0 { dst := [], acc := C.A, counter := counter } :=
  ⟨0, rfl, Nat.zero_le _, rfl, by simp [Ctx.ct], hc, Nat.le_refl _, by simp [ghFold_zero]⟩

/-- counter bound: every counter value reached is below `2^32` -/
theorem ctr_bound (C : Ctx) (k m : Nat) (h : 16 * k + 16 * m ≤ C.src.length) : 2 + k + m < 2 ^ 32 := by
  have := C.hlen
  omega

/-- One batch of `m` blocks: the keystream/counter part of the invariant, for any new accumulator that covers
    `k + m - lag'` blocks of the new `dst`. -/
theorem Inv_step (C : Ctx) (lag lag' i m : Nat) (s s' : Loop) (hI : Inv C lag i s) (hm : i + 16 * m ≤ C.src.length)
    (hd : s'.dst = s.dst ++ ks C.E C.npub m (2 + i / 16) (C.src.drop i))
    (hc : s'.counter.toNat = s.counter.toNat + m)
    (hl : lag' ≤ i / 16 + m)
    (ha : s'.acc = ghFold C.h0 C.A s'.dst (i / 16 + m - lag')) :
    Inv C lag' (i + 16 * m) s' := by
  obtain ⟨k, hi, hle, hdl, hct, hcn, hlag, hacc⟩ := hI
  have hk : i / 16 = k := by omega
  rw [hk] at hd hl ha
  have hkl : (ks C.E C.npub m (2 + k) (C.src.drop i)).length = 16 * m :=
    ks_length C.E C.npub (E_ctr_length C) _ _ m (by simp; omega)
  refine ⟨k + m, by omega, hm, ?_, ?_, ?_, hl, ha⟩
  · rw [hd, List.length_append, hkl, hdl]
  · rw [hct, gctr_split C.E C.npub C.hn (2 + k) (C.src.drop i) m (by simp; omega), hd, List.append_assoc,
      List.drop_drop, Nat.add_assoc]
  · rw [hc, hcn]; omega

/-- the counter value in terms of the offset -/
theorem Inv_counter (C : Ctx) (lag i : Nat) (s : Loop) (hI : Inv C lag i s) :
    s.counter.toNat = be C.npub * 2 ^ 32 + (2 + i / 16) ∧ i % 16 = 0 ∧ i ≤ C.src.length ∧ s.dst.length = i ∧
    lag ≤ i / 16 ∧ s.acc = ghFold C.h0 C.A s.dst (i / 16 - lag) := by
  obtain ⟨k, hi, hle, hdl, hct, hcn, hlag, hacc⟩ := hI
  have hk : i / 16 = k := by omega
  rw [hk]
  exact ⟨hcn, by omega, hle, hdl, hlag, hacc⟩

/-- the accumulator catches up: `m` blocks read at offset `16 (k - lag)` of the (possibly extended) `dst` -/
theorem acc_catchup (C : Ctx) (lag i : Nat) (s : Loop) (hI : Inv C lag i s) (b : Bytes) (m : Nat) :
    ghFold C.h0 s.acc ((s.dst ++ b).drop (i - 16 * lag)) m = ghFold C.h0 C.A (s.dst ++ b) (i / 16 - lag + m) := by
  obtain ⟨_, h16, _, hdl, hlag, hacc⟩ := Inv_counter C lag i s hI
  rw [hacc, show i - 16 * lag = 16 * (i / 16 - lag) from by omega]
  exact ghFold_extend C.h0 C.A s.dst b _ m (by omega)

theorem Inv_set_acc (C : Ctx) (lag lag' i : Nat) (s : Loop) (hI : Inv C lag i s) (acc' : BlockVec)
    (hl : lag' ≤ i / 16) (ha : acc' = ghFold C.h0 C.A s.dst (i / 16 - lag')) :
    Inv C lag' i { s with acc := acc' } := by
  obtain ⟨k, hi, hle, hdl, hct, hcn, hlag, hacc⟩ := hI
  have hk : i / 16 = k := by omega
  rw [hk] at hl ha
  exact ⟨k, hi, hle, hdl, hct, hcn, hl, ha⟩

/-! ### the bodies in projection form -/

section
attribute [local irreducible] forLoop incr_counters encrypt_xor_wide encrypt_xor_block gh_agg gh_update gh_update0
  gcm_reduce gh_ad_blocks REV128 ADD64x2

theorem wideStep_eq (st : State) (src : Bytes) (i : Nat) (s : Loop) :
    wideStep st src i s =
      { s with dst := s.dst ++ encrypt_xor_wide st (src.drop i) (incr_counters s.counter PARALLEL_BLOCKS).1,
               counter := (incr_counters s.counter PARALLEL_BLOCKS).2 } := rfl

theorem body2_eq (st : State) (src : Bytes) (i : Nat) (s : Loop) :
    body2 st src i s =
      { wideStep st src (i + PARALLEL_BLOCKS * 16) (wideStep st src i s) with
        acc := gcm_reduce ((List.range PARALLEL_BLOCKS).foldl
          (fun u j => gh_update u
            ((wideStep st src (i + PARALLEL_BLOCKS * 16) (wideStep st src i s)).dst.drop (i + j * 16))
            (st.hx.getD (PARALLEL_BLOCKS - 1 - j) 0))
          ((List.range' 1 (PARALLEL_BLOCKS - 1)).foldl
            (fun u j => gh_update u ((wideStep st src i s).dst.drop (i - PARALLEL_BLOCKS * 16 + j * 16))
              (st.hx.getD (2 * PARALLEL_BLOCKS - 1 - j) 0))
            (gh_update0 s.acc ((wideStep st src i s).dst.drop (i - PARALLEL_BLOCKS * 16))
              (st.hx.getD (2 * PARALLEL_BLOCKS - 1 - 0) 0)))) } := rfl

theorem body1_eq (st : State) (src : Bytes) (i : Nat) (s : Loop) :
    body1 st src i s =
      { wideStep st src i s with
        acc := gh_agg st s.acc ((wideStep st src i s).dst.drop (i - PARALLEL_BLOCKS * 16)) PARALLEL_BLOCKS } := rfl

theorem bodyN_eq (st : State) (src : Bytes) (n i : Nat) (s : Loop) :
    bodyN st src n i s =
      { dst := (List.range n).foldl (fun dst j =>
          dst ++ encrypt_xor_block st (src.drop (i + j * 16)) ((incr_counters s.counter n).1.getD j 0)) s.dst,
        acc := gh_agg st s.acc (((List.range n).foldl (fun dst j =>
          dst ++ encrypt_xor_block st (src.drop (i + j * 16)) ((incr_counters s.counter n).1.getD j 0)) s.dst).drop i) n,
        counter := (incr_counters s.counter n).2 } := rfl
end

/-! ### one step of each phase -/

/-- a wide batch: keystream and counter advance by 7 blocks, the accumulator is untouched (the lag grows by 7) -/
theorem wideStep_spec (C : Ctx) (lag i : Nat) (s : Loop) (hI : Inv C lag i s) (h : i + 112 ≤ C.src.length) :
    (wideStep C.st C.src i s).dst = s.dst ++ ks C.E C.npub 7 (2 + i / 16) (C.src.drop i) ∧
    (wideStep C.st C.src i s).acc = s.acc ∧
    Inv C (lag + 7) (i + 112) (wideStep C.st C.src i s) := by
  obtain ⟨hcn, h16, hle, hdl, hlag, hacc⟩ := Inv_counter C lag i s hI
  have hb := ctr_bound C (i / 16) 7 (by omega)
  have hd : (wideStep C.st C.src i s).dst = s.dst ++ ks C.E C.npub 7 (2 + i / 16) (C.src.drop i) := by
    rw [wideStep_eq, wide_eq_ks C _ s.counter (2 + i / 16) hcn (by omega) (by simp; omega)]
  refine ⟨hd, by rw [wideStep_eq], ?_⟩
  refine Inv_step C lag (lag + 7) i 7 s _ hI h hd ?_ (by omega) ?_
  · rw [wideStep_eq]
    exact ((Ctr.incr_counters_spec C.npub C.hn s.counter (2 + i / 16) 7 hcn (by omega)).2).trans (by rw [hcn]; omega)
  · rw [hd, ghFold_append _ _ _ _ _ (by omega), show (wideStep C.st C.src i s).acc = s.acc from by rw [wideStep_eq],
      hacc]
    congr 1
    omega

theorem catchUp_spec (C : Ctx) (i : Nat) (s : Loop) (hI : Inv C 7 i s) :
    (catchUp C.st i s).1 = i ∧ Inv C 0 i (catchUp C.st i s).2 := by
  refine ⟨rfl, ?_⟩
  obtain ⟨hcn, h16, hle, hdl, hlag, hacc⟩ := Inv_counter C 7 i s hI
  refine Inv_set_acc C 7 0 i s hI _ (Nat.zero_le _) ?_
  have := acc_catchup C 7 i s hI [] 7
  rw [List.append_nil] at this
  rw [C.hg.agg _ _ _ (by decide) (by decide)]
  show ghFold C.h0 s.acc (s.dst.drop (i - 7 * 16)) 7 = _
  rw [show i - 7 * 16 = i - 16 * 7 from by omega, this]
  congr 1
  omega

theorem body1_spec (C : Ctx) (i : Nat) (s : Loop) (hI : Inv C 7 i s) (h : i + 112 ≤ C.src.length) :
    Inv C 7 (i + 112) (body1 C.st C.src i s) := by
  obtain ⟨hcn, h16, hle, hdl, hlag, hacc⟩ := Inv_counter C 7 i s hI
  obtain ⟨hd, _, hI1⟩ := wideStep_spec C 7 i s hI h
  rw [body1_eq]
  refine Inv_set_acc C 14 7 (i + 112) _ hI1 _ (by omega) ?_
  rw [C.hg.agg _ _ _ (by decide) (by decide), hd]
  show ghFold C.h0 s.acc ((s.dst ++ _).drop (i - 7 * 16)) 7 = _
  rw [show i - 7 * 16 = i - 16 * 7 from by omega, acc_catchup C 7 i s hI]
  congr 1
  omega

theorem body2_spec (C : Ctx) (i : Nat) (s : Loop) (hI : Inv C 7 i s) (h : i + 224 ≤ C.src.length) :
    Inv C 7 (i + 224) (body2 C.st C.src i s) := by
  obtain ⟨hcn, h16, hle, hdl, hlag, hacc⟩ := Inv_counter C 7 i s hI
  obtain ⟨hd1, _, hI1⟩ := wideStep_spec C 7 i s hI (by omega)
  obtain ⟨hd2, _, hI2⟩ := wideStep_spec C 14 (i + 112) _ hI1 (by omega)
  obtain ⟨_, _, _, hdl1, _, _⟩ := Inv_counter C 14 (i + 112) _ hI1
  rw [body2_eq]
  refine Inv_set_acc C 21 7 (i + 224) _ hI2 _ (by omega) ?_
  simp only [← List.drop_drop]
  rw [C.hg.split]
  show ghFold C.h0 (ghFold C.h0 s.acc ((wideStep C.st C.src i s).dst.drop (i - 7 * 16)) 7)
    ((wideStep C.st C.src (i + 7 * 16) (wideStep C.st C.src i s)).dst.drop i) 7 = _
  have key : ∀ (d b : Bytes), d.length = i + 112 →
      ghFold C.h0 (ghFold C.h0 C.A d (i / 16 - 7 + 7)) ((d ++ b).drop i) 7
        = ghFold C.h0 C.A (d ++ b) ((i + 112 + 112) / 16 - 7) := by
    intro d b hdl
    have e : i / 16 - 7 + 7 = i / 16 := by omega
    have e2 : (i + 112 + 112) / 16 - 7 = i / 16 + 7 := by omega
    rw [e, e2, ← ghFold_extend _ _ d b (i / 16) 7 (by omega), show 16 * (i / 16) = i from by omega]
  rw [hd2, hd1, show i - 7 * 16 = i - 16 * 7 from by omega, acc_catchup C 7 i s hI, ← hd1]
  exact key _ _ hdl1

theorem bodyN_spec (C : Ctx) (n : Nat) (hn1 : 1 ≤ n) (hn2 : n ≤ PC_COUNT) (i : Nat) (s : Loop) (hI : Inv C 0 i s)
    (h : i + n * 16 ≤ C.src.length) :
    Inv C 0 (i + n * 16) (bodyN C.st C.src n i s) := by
  obtain ⟨hcn, h16, hle, hdl, hlag, hacc⟩ := Inv_counter C 0 i s hI
  have hb := ctr_bound C (i / 16) n (by omega)
  have hf := foldN_eq_ks C i s.dst s.counter (2 + i / 16) n hcn (by omega) (by omega)
  rw [bodyN_eq, hf, Nat.mul_comm n 16]
  refine Inv_step C 0 0 i n s _ hI (by omega) rfl ?_ (Nat.zero_le _) ?_
  · exact ((Ctr.incr_counters_spec C.npub C.hn s.counter (2 + i / 16) n hcn (by omega)).2).trans (by rw [hcn]; omega)
  · show gh_agg C.st s.acc ((s.dst ++ _).drop i) n = _
    rw [C.hg.agg _ _ _ hn1 hn2]
    have := acc_catchup C 0 i s hI (ks C.E C.npub n (2 + i / 16) (C.src.drop i)) n
    rw [Nat.mul_zero, Nat.sub_zero] at this
    rw [this]
    simp only [Nat.sub_zero]

theorem bodyS_spec (C : Ctx) (i : Nat) (s : Loop) (hI : Inv C 0 i s) (h : i + 16 ≤ C.src.length) :
    Inv C 0 (i + 16) (bodyS C.st C.src i s) := by
  obtain ⟨hcn, h16, hle, hdl, hlag, hacc⟩ := Inv_counter C 0 i s hI
  have hb := ctr_bound C (i / 16) 1 (by omega)
  have hf := single_eq_ks C (C.src.drop i) s.counter (2 + i / 16) hcn (by omega) (by simp; omega)
  refine Inv_step C 0 0 i 1 s _ hI (by omega) ?_ ?_ (Nat.zero_le _) ?_
  · show s.dst ++ encrypt_xor_block C.st (C.src.drop i) (REV128 s.counter) = _
    rw [hf]
  · show (ADD64x2 s.counter ONE128).toNat = _
    rw [Ctr.counter_add_spec C.npub s.counter (2 + i / 16) hcn (Or.inl (by omega)), hcn]
    omega
  · show gh_agg C.st s.acc ((s.dst ++ encrypt_xor_block C.st (C.src.drop i) (REV128 s.counter)).drop i) 1 = _
    rw [C.hg.agg _ _ _ (by decide) (by decide), hf]
    have := acc_catchup C 0 i s hI (ks C.E C.npub 1 (2 + i / 16) (C.src.drop i)) 1
    rw [Nat.mul_zero, Nat.sub_zero] at this
    rw [this]
    show _ = ghFold C.h0 C.A (s.dst ++ encrypt_xor_block C.st (C.src.drop i) (REV128 s.counter)) _
    rw [hf]
    simp only [Nat.sub_zero]

/-! ### the phases -/

theorem loopN_spec (C : Ctx) (n : Nat) (hn1 : 1 ≤ n) (hn2 : n ≤ PC_COUNT) (i : Nat) (s : Loop) (hI : Inv C 0 i s) :
    Inv C 0 (loopN C.st C.src n i s).1 (loopN C.st C.src n i s).2 :=
  (forLoop_le_inv (n * 16) (by omega) C.src.length (bodyN C.st C.src n) (Inv C 0)
    (fun i s hP h => bodyN_spec C n hn1 hn2 i s hP h) i s hI).1

theorem loopS_spec (C : Ctx) (i : Nat) (s : Loop) (hI : Inv C 0 i s) :
    Inv C 0 (loopS C.st C.src i s).1 (loopS C.st C.src i s).2 ∧ C.src.length ≤ (loopS C.st C.src i s).1 + 16 :=
  forLoop_lt_inv 16 (by decide) C.src.length (bodyS C.st C.src) (Inv C 0)
    (fun i s hP h => bodyS_spec C i s hP (by omega)) i s hI

theorem sec2_spec (C : Ctx) (i : Nat) (s : Loop) (hI : Inv C 0 i s) :
    Inv C 0 (sec2 C.st C.src i s).1 (sec2 C.st C.src i s).2 := by
  unfold sec2
  split
  · rename_i hge
    have hw := (wideStep_spec C 0 i s hI (by simp only [PARALLEL_BLOCKS] at hge; omega)).2.2
    have hl := (forLoop_le_inv (2 * PARALLEL_BLOCKS * 16) (by decide) C.src.length (body2 C.st C.src) (Inv C 7)
      (fun i s hP h => body2_spec C i s hP h) (i + PARALLEL_BLOCKS * 16) _ hw).1
    exact (catchUp_spec C _ _ hl).2
  · exact hI

theorem sec1_spec (C : Ctx) (i : Nat) (s : Loop) (hI : Inv C 0 i s) :
    Inv C 0 (sec1 C.st C.src i s).1 (sec1 C.st C.src i s).2 := by
  unfold sec1
  split
  · rename_i hge
    have hw := (wideStep_spec C 0 i s hI (by simp only [PARALLEL_BLOCKS] at hge; omega)).2.2
    have hl := (forLoop_le_inv (PARALLEL_BLOCKS * 16) (by decide) C.src.length (body1 C.st C.src) (Inv C 7)
      (fun i s hP h => body1_spec C i s hP h) (i + PARALLEL_BLOCKS * 16) _ hw).1
    exact (catchUp_spec C _ _ hl).2
  · exact hI

/-! ### associated data -/

/-- the "Associated data" prologue = sequential GHASH over the zero-padded AD -/
theorem absorb_ad_spec (st : State) (h0 : BlockVec) (hg : GhOK st h0) (acc : BlockVec) (ad : Bytes)
    (had : ad.length < 2 ^ 64) :
    absorb_ad st acc ad = ghFold h0 acc (ad ++ Gcm.pad16 ad.length) ((ad.length + 15) / 16) := by
  unfold absorb_ad Gcm.pad16
  simp only []
  rw [and_15, and_not_15 _ had]
  by_cases hz : ad.length = 0
  · have : ad = [] := List.eq_nil_of_length_eq_zero hz
    subst this
    simp [ghFold_zero]
  · have hnz : (ad.length != 0) = true := by simpa using hz
    rw [if_pos hnz, hg.ad_blocks _ ad (ad.length - ad.length % 16) (by omega)]
    have hdiv : (ad.length - ad.length % 16) / 16 = ad.length / 16 := by omega
    rw [hdiv]
    by_cases hr : ad.length % 16 = 0
    · have hrz : (ad.length % 16 != 0) = false := by simp [hr]
      rw [hrz, hr]
      simp only [Bool.false_eq_true, if_false]
      rw [show (16 - 0) % 16 = 0 from rfl, show (ad.length + 15) / 16 = ad.length / 16 from by omega]
      simp [zeros]
    · have hrz : (ad.length % 16 != 0) = true := by simpa using hr
      rw [if_pos hrz, hg.ad_blocks _ _ _ (by decide), show 16 / 16 = 1 from rfl,
        show (ad.length + 15) / 16 = ad.length / 16 + 1 from by omega, ghFold_add,
        show (16 - ad.length % 16) % 16 = 16 - ad.length % 16 from by omega,
        ghFold_append h0 acc ad _ (ad.length / 16) (by omega),
        show 16 * (ad.length / 16) = ad.length - ad.length % 16 from by omega,
        List.drop_append_of_le_length (by omega), List.take_of_length_le (by rw [List.length_drop]; omega)]

/-! ### the last block and the tag -/

/-- the `last_blocks` buffer after the three statement groups: whatever the indeterminate bytes `junk` were,
    it holds the last ciphertext bytes, zero padding and the length block -/
theorem last_blocks_eq (x junk f e : Bytes) (left : Nat) (hx : x.length = left) (h16 : left ≤ 16)
    (hj : junk.length = 16 - left) (he : e.length = 16) (enc : Bytes → Bytes)
    (henc : ∀ y, 16 ≤ y.length → enc y = xorBytes (y.take 16) e) :
    ((enc (x.take left ++ junk ++ f) ++ (x.take left ++ junk ++ f).drop 16).take left ++ zeros (16 - left)
        ++ (enc (x.take left ++ junk ++ f) ++ (x.take left ++ junk ++ f).drop 16).drop 16)
      = xorBytes x e ++ zeros (16 - left) ++ f := by
  have hxj : (x ++ junk).length = 16 := by rw [List.length_append, hx, hj]; omega
  have hxt : x.take left = x := List.take_of_length_le (by omega)
  rw [hxt, henc _ (by rw [List.length_append, hxj]; omega),
    List.take_left' hxj, List.drop_left' hxj]
  have hel : (xorBytes (x ++ junk) e).length = 16 := by rw [xorBytes_length, hxj, he]; rfl
  rw [List.drop_left' hel, List.take_append_of_le_length (by omega), xorBytes_take,
    List.take_left' hx, ← hx, xorBytes_take_right]

theorem tailPair_spec (C : Ctx) (fb : BlockVec) (stack : Bytes) (hstack : 16 ≤ stack.length) (i : Nat) (s : Loop)
    (hI : Inv C 0 i s) (hex : C.src.length ≤ i + 16) :
    tailPair C.st C.src fb stack i s =
      (C.ct, ghB C.h0 (ghFold C.h0 C.A (C.ct ++ Gcm.pad16 C.ct.length) ((C.ct.length + 15) / 16)) (STORE128 fb)) := by
  obtain ⟨k, hi, hle, hdl, hct, hcn, _, hacc⟩ := hI
  rw [Nat.sub_zero] at hacc
  unfold tailPair
  simp only []
  by_cases hz : C.src.length - i = 0
  · have hnz : (C.src.length - i != 0) = false := by simp [hz]
    rw [hnz]
    simp only [Bool.false_eq_true, if_false]
    have hnil : C.src.drop i = [] := List.drop_eq_nil_of_le (by omega)
    rw [hnil, gctr_nil, List.append_nil] at hct
    have hcl : C.ct.length = 16 * k := by rw [hct, hdl, hi]
    rw [C.hg.ad_blocks _ _ _ (by decide), show 16 / 16 = 1 from rfl, ghFold_one, hcl, Gcm.pad16,
      show (16 - 16 * k % 16) % 16 = 0 from by omega, show (16 * k + 15) / 16 = k from by omega]
    simp only [zeros, List.replicate_zero, List.append_nil]
    rw [hacc, ← hct]
  · have hnz : (C.src.length - i != 0) = true := by simpa using hz
    rw [if_pos hnz]
    have hxl : (C.src.drop i).length = C.src.length - i := by simp
    have hb := ctr_bound C k 0 (by omega)
    have hEl := E_ctr_length C (2 + k)
    have hlb := last_blocks_eq (C.src.drop i) ((stack.take 16).drop (C.src.length - i)) (STORE128 fb)
      (C.E (Ctr.ctrBlock C.npub (2 + k))) (C.src.length - i) hxl (by omega) (by simp; omega) hEl
      (fun y => encrypt_xor_block C.st y (REV128 s.counter))
      (fun y hy => by
        show encrypt_xor_block C.st y (REV128 s.counter) = _
        rw [Ctr.REV128_counter C.npub C.hn s.counter (2 + k) hcn (by omega), blk_eq C y (2 + k) hy])
    rw [hlb]
    have hT : (xorBytes (C.src.drop i) (C.E (Ctr.ctrBlock C.npub (2 + k)))).length = C.src.length - i := by
      rw [xorBytes_length, hxl, hEl]; omega
    have hTz : (xorBytes (C.src.drop i) (C.E (Ctr.ctrBlock C.npub (2 + k))) ++ zeros (16 - (C.src.length - i))).length
        = 16 := by
      rw [List.length_append, hT]; simp [zeros]; omega
    rw [gctr_single C.E C.npub C.hn (2 + k) (C.src.drop i) (by omega) (by omega)] at hct
    have hcl : C.ct.length = 16 * k + (C.src.length - i) := by rw [hct, List.length_append, hdl, hT, hi]
    rw [List.append_assoc, List.take_left' hT, ← hct, C.hg.ad_blocks _ _ _ (by decide), show 32 / 16 = 1 + 1 from rfl,
      ghFold_succ, ghFold_one, ← List.append_assoc, show 16 * 1 = 16 from rfl, List.drop_left' hTz,
      ghB_congr C.h0 s.acc _ (xorBytes (C.src.drop i) (C.E (Ctr.ctrBlock C.npub (2 + k))) ++
        zeros (16 - (C.src.length - i))) (by rw [List.take_left' hTz, List.take_of_length_le (by omega)])]
    rw [hcl, Gcm.pad16, show (16 - (16 * k + (C.src.length - i)) % 16) % 16 = 16 - (C.src.length - i) from by omega,
      show (16 * k + (C.src.length - i) + 15) / 16 = k + 1 from by omega, ghFold_succ, hct, List.append_assoc,
      ghFold_append _ _ _ _ _ (by omega), List.drop_left' (by omega), hacc]

/-! ### the whole function -/

theorem phases_spec (C : Ctx) (ad_len : Nat) (counter_ stack : Bytes)
    (hcj : counter_.take NPUBBYTES ++ STORE32_BE 1 = C.npub ++ [0, 0, 0, 1]) (hstack : 16 ≤ stack.length)
    (s0 : Loop) (I0 : Inv C 0 0 s0) :
    phases C.st C.src ad_len counter_ stack s0 =
      (C.ct, STORE128 (XOR128 (LOAD128 (C.E (C.npub ++ [0, 0, 0, 1])))
        (REV128 (ghB C.h0 (ghFold C.h0 C.A (C.ct ++ Gcm.pad16 C.ct.length) ((C.ct.length + 15) / 16))
          (STORE128 (final_block ad_len C.src.length)))))) := by
  unfold phases
  have I2 := sec2_spec C _ _ I0
  have I1 := sec1_spec C _ _ I2
  have I4 := loopN_spec C 4 (by decide) (by decide) _ _ I1
  have I3 := loopN_spec C 2 (by decide) (by decide) _ _ I4
  have I5 := loopS_spec C _ _ I3
  unfold tailF
  simp only []
  rw [tailPair_spec C _ stack hstack _ _ I5.1 I5.2, hcj,
    AesK.encrypt_eq C.st C.hk _ (by simp [C.hn])]
  rfl

/-- MAIN THEOREM: for every message and AD length, `aes_gcm_encrypt_generic` outputs GCTR from counter value 2 and the
    tag `E(J0) ⊕ GHASH(pad(AD) ‖ pad(C) ‖ len)`, whatever the indeterminate stack bytes are.
    (`had`: `ad_len` is a `size_t`.) -/
theorem encrypt_generic_spec (st : State) (h0 : BlockVec) (hg : GhOK st h0) (hk : st.rkeys.length = 15)
    (npub : Bytes) (hn : npub.length = 12) (src ad : Bytes) (hlen : (src.length + 15) / 16 + 2 < 2 ^ 32)
    (had : ad.length < 2 ^ 64) (acc0 : BlockVec) (stack : Bytes) (hstack : stack.length = 32) :
    let E := Aes.cipher (st.rkeys.map STORE128)
    let ct := Gcm.gctr E (Ctr.ctrBlock npub 2) src
    let accAD := ghFold h0 acc0 (ad ++ Gcm.pad16 ad.length) ((ad.length + 15) / 16)
    let accCT := ghFold h0 accAD (ct ++ Gcm.pad16 ct.length) ((ct.length + 15) / 16)
    let accF := ghB h0 accCT (STORE128 (final_block ad.length src.length))
    aes_gcm_encrypt_generic st acc0 src ad (npub.take NPUBBYTES ++ STORE32_BE 2) stack
      = (ct, STORE128 (XOR128 (LOAD128 (E (npub ++ [0, 0, 0, 1]))) (REV128 accF))) := by
  intro E ct accAD accCT accF
  let C : Ctx := ⟨st, h0, npub, src, accAD, hg, hk, hn, hlen⟩
  rw [generic_eq]
  unfold composed
  rw [absorb_ad_spec st h0 hg acc0 ad had]
  exact phases_spec C ad.length _ stack (Ctr.j0_block npub hn 2) (by omega) _
    (Inv_init C _ (Ctr.counter_init npub hn))

/-! ### the API entry point -/

/-- the API entry point on its success path (`required_blocks ≠ 0`, which supplies the counter bound): returns 0,
    the GCTR ciphertext and the GHASH tag, for every stack content -/
theorem encrypt_detached_afternm_spec (st : State) (h0 : BlockVec) (hg : GhOK st h0) (hk : st.rkeys.length = 15)
    (npub : Bytes) (hn : npub.length = 12) (m ad : Bytes) (hm : m.length ≤ SODIUM_SIZE_MAX)
    (had : ad.length ≤ SODIUM_SIZE_MAX)
    (hreq : required_blocks (UInt64.ofNat ad.length) (UInt64.ofNat m.length) ≠ 0)
    (stack : Bytes) (hstack : stack.length = 32) :
    let E := Aes.cipher (st.rkeys.map STORE128)
    let ct := Gcm.gctr E (Ctr.ctrBlock npub 2) m
    let accAD := ghFold h0 gh_init (ad ++ Gcm.pad16 ad.length) ((ad.length + 15) / 16)
    let accCT := ghFold h0 accAD (ct ++ Gcm.pad16 ct.length) ((ct.length + 15) / 16)
    let accF := ghB h0 accCT (STORE128 (final_block ad.length m.length))
    crypto_aead_aes256gcm_encrypt_detached_afternm st m ad npub stack
      = .done 0 ct (STORE128 (XOR128 (LOAD128 (E (npub ++ [0, 0, 0, 1]))) (REV128 accF))) := by
  intro E ct accAD accCT accF
  have hS : SODIUM_SIZE_MAX = 2 ^ 64 - 1 := rfl
  have hb := Ctr.required_blocks_counter_bound _ _ hreq
  rw [UInt64.toNat_ofNat', Nat.mod_eq_of_lt (by omega)] at hb
  have hmain := encrypt_generic_spec st h0 hg hk npub hn m ad (by omega) (by omega) gh_init stack hstack
  unfold crypto_aead_aes256gcm_encrypt_detached_afternm
  simp only []
  rw [if_neg (by omega), if_neg (by simpa using hreq), hmain]

end Sodium.GcmAesniP.Enc
