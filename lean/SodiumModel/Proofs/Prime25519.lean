/-
  Primality of p = 2^255 - 19 by a Pratt certificate.

  Generic part: a structural square-and-multiply `powm` proved equal to `a ^ e % m`, a Boolean
  certificate checker `check`, and `pratt`, which turns a successful check (evaluated by the
  kernel's GMP naturals via `decide +kernel`) plus primality of the listed factors into
  `Nat.Prime p` through Mathlib's `lucas_primality`.

  Certificate part: machine generated (GNU `factor` for the factorisations of `q - 1`, smallest
  Lucas witness by search); primes below 1000 are closed by `norm_num`, everything above by a
  recursive Pratt certificate.  Every factorisation is re-checked by the kernel (`qs.prod == p - 1`
  inside `check`), so nothing depends on the generator being right.
-/
import Mathlib.NumberTheory.LucasPrimality
import Mathlib.Tactic.NormNum.Prime
import SodiumModel.Spec.Field25519

namespace Sodium.Prime25519

/-- Right-to-left square-and-multiply modulo `m`; `fuel` bounds the number of exponent bits. -/
def powMod (m : Nat) : (fuel b e acc : Nat) → Nat
  | 0, _, _, acc => acc
  | fuel + 1, b, e, acc =>
    if e = 0 then acc
    else powMod m fuel (b * b % m) (e / 2) (if e % 2 = 1 then acc * b % m else acc)

theorem powMod_mod (m : Nat) : ∀ (fuel b e acc : Nat), e < 2 ^ fuel →
    powMod m fuel b e acc % m = (acc * b ^ e) % m
  | 0, b, e, acc, h => by
    have : e = 0 := by omega
    subst this; simp [powMod]
  | fuel + 1, b, e, acc, h => by
    simp only [powMod]
    split
    · next h0 => subst h0; simp
    · next h0 =>
      have he : e / 2 < 2 ^ fuel := by rw [Nat.pow_succ] at h; omega
      rw [powMod_mod m fuel _ _ _ he]
      have hsq : (b * b % m) ^ (e / 2) % m = (b ^ (2 * (e / 2))) % m := by
        rw [Nat.pow_mul, ← Nat.pow_mod, Nat.pow_two]
      split
      · next h1 =>
        have e2 : e = 2 * (e / 2) + 1 := by omega
        rw [Nat.mul_mod, hsq, Nat.mod_mod, ← Nat.mul_mod]
        conv => rhs; rw [e2, Nat.pow_succ]
        rw [Nat.mul_assoc, Nat.mul_comm b]
      · next h1 =>
        have e2 : e = 2 * (e / 2) := by omega
        rw [Nat.mul_mod, hsq, ← Nat.mul_mod]
        conv => rhs; rw [e2]

/-- `powm m a e = a ^ e % m`, computed by square-and-multiply. -/
def powm (m a e : Nat) : Nat := powMod m (e.log2 + 1) (a % m) e 1 % m

theorem powm_eq (m a e : Nat) : powm m a e = a ^ e % m := by
  rw [powm, powMod_mod m _ _ _ _ Nat.lt_log2_self, Nat.one_mul, ← Nat.pow_mod]

theorem zmod_pow_eq_one_iff {p : Nat} (hp : 1 < p) (a e : Nat) :
    ((a : ZMod p)) ^ e = 1 ↔ powm p a e = 1 := by
  rw [powm_eq, ← Nat.cast_pow, ← Nat.cast_one (R := ZMod p), ZMod.natCast_eq_natCast_iff,
    Nat.ModEq, Nat.mod_eq_of_lt hp]

theorem prime_dvd_prod_mem {q : Nat} (hq : q.Prime) :
    ∀ (qs : List Nat), (∀ r ∈ qs, r.Prime) → q ∣ qs.prod → q ∈ qs
  | [], _, h => by
    rw [List.prod_nil] at h
    exact absurd (Nat.dvd_one.1 h) hq.ne_one
  | r :: rs, hr, h => by
    rw [List.prod_cons] at h
    rcases (Nat.Prime.dvd_mul hq).1 h with h | h
    · have := (Nat.prime_dvd_prime_iff_eq hq (hr r (List.mem_cons_self))).1 h
      subst this; exact List.mem_cons_self
    · exact List.mem_cons_of_mem _
        (prime_dvd_prod_mem hq rs (fun x hx => hr x (List.mem_cons_of_mem _ hx)) h)

/-- The computable part of a Pratt certificate: `qs` (with repetition) multiplies to `p - 1`,
    `a ^ (p-1) = 1` and `a ^ ((p-1)/q) ≠ 1` modulo `p` for each `q ∈ qs`. -/
def check (p a : Nat) (qs : List Nat) : Bool :=
  decide (1 < p) && (qs.prod == p - 1) && (powm p a (p - 1) == 1) &&
    qs.all (fun q => powm p a ((p - 1) / q) != 1)

/-- Pratt / Lucas primality certificate. -/
theorem pratt (p a : Nat) (qs : List Nat) (hq : ∀ q ∈ qs, q.Prime)
    (h : check p a qs = true) : p.Prime := by
  simp only [check, Bool.and_eq_true, decide_eq_true_eq, beq_iff_eq, List.all_eq_true,
    bne_iff_ne, ne_eq] at h
  obtain ⟨⟨⟨hp, hprod⟩, h1⟩, h2⟩ := h
  refine lucas_primality p (a : ZMod p) ((zmod_pow_eq_one_iff hp _ _).2 h1) ?_
  intro q hqp hdvd
  rw [← hprod] at hdvd
  have hmem := prime_dvd_prod_mem hqp qs hq hdvd
  rw [Ne, zmod_pow_eq_one_iff hp]
  exact h2 q hmem

theorem ap_nil : ∀ q ∈ ([] : List Nat), q.Prime := fun _ h => absurd h List.not_mem_nil

theorem ap_cons {q : Nat} {qs : List Nat} (h : q.Prime) (hs : ∀ r ∈ qs, r.Prime) :
    ∀ r ∈ q :: qs, r.Prime := List.forall_mem_cons.2 ⟨h, hs⟩

/-! ### the certificate chain (generated) -/

theorem prime_2 : Nat.Prime 2 := by norm_num

theorem prime_3 : Nat.Prime 3 := by norm_num

theorem prime_17 : Nat.Prime 17 := by norm_num

theorem prime_479 : Nat.Prime 479 := by norm_num

theorem prime_32573 : Nat.Prime 32573 :=
  pratt 32573 2 [2, 2, 17, 479]
    (ap_cons prime_2 <| ap_cons prime_2 <| ap_cons prime_17 <| ap_cons prime_479 <| ap_nil)
    (by decide +kernel)

theorem prime_65147 : Nat.Prime 65147 :=
  pratt 65147 2 [2, 32573]
    (ap_cons prime_2 <| ap_cons prime_32573 <| ap_nil)
    (by decide +kernel)

theorem prime_353 : Nat.Prime 353 := by norm_num

theorem prime_59 : Nat.Prime 59 := by norm_num

theorem prime_487 : Nat.Prime 487 := by norm_num

theorem prime_57467 : Nat.Prime 57467 :=
  pratt 57467 2 [2, 59, 487]
    (ap_cons prime_2 <| ap_cons prime_59 <| ap_cons prime_487 <| ap_nil)
    (by decide +kernel)

theorem prime_7 : Nat.Prime 7 := by norm_num

theorem prime_131 : Nat.Prime 131 := by norm_num

theorem prime_132049 : Nat.Prime 132049 :=
  pratt 132049 26 [2, 2, 2, 2, 3, 3, 7, 131]
    (ap_cons prime_2 <| ap_cons prime_2 <| ap_cons prime_2 <| ap_cons prime_2 <| ap_cons prime_3 <| ap_cons prime_3 <| ap_cons prime_7 <| ap_cons prime_131 <| ap_nil)
    (by decide +kernel)

theorem prime_43 : Nat.Prime 43 := by norm_num

theorem prime_23 : Nat.Prime 23 := by norm_num

theorem prime_3727 : Nat.Prime 3727 :=
  pratt 3727 3 [2, 3, 3, 3, 3, 23]
    (ap_cons prime_2 <| ap_cons prime_3 <| ap_cons prime_3 <| ap_cons prime_3 <| ap_cons prime_3 <| ap_cons prime_23 <| ap_nil)
    (by decide +kernel)

theorem prime_1923133 : Nat.Prime 1923133 :=
  pratt 1923133 2 [2, 2, 3, 43, 3727]
    (ap_cons prime_2 <| ap_cons prime_2 <| ap_cons prime_3 <| ap_cons prime_43 <| ap_cons prime_3727 <| ap_nil)
    (by decide +kernel)

theorem prime_31 : Nat.Prime 31 := by norm_num

theorem prime_107 : Nat.Prime 107 := by norm_num

theorem prime_223 : Nat.Prime 223 := by norm_num

theorem prime_173 : Nat.Prime 173 := by norm_num

theorem prime_4153 : Nat.Prime 4153 :=
  pratt 4153 5 [2, 2, 2, 3, 173]
    (ap_cons prime_2 <| ap_cons prime_2 <| ap_cons prime_2 <| ap_cons prime_3 <| ap_cons prime_173 <| ap_nil)
    (by decide +kernel)

theorem prime_5 : Nat.Prime 5 := by norm_num

theorem prime_41 : Nat.Prime 41 := by norm_num

theorem prime_1723 : Nat.Prime 1723 :=
  pratt 1723 3 [2, 3, 7, 41]
    (ap_cons prime_2 <| ap_cons prime_3 <| ap_cons prime_7 <| ap_cons prime_41 <| ap_nil)
    (by decide +kernel)

theorem prime_430751 : Nat.Prime 430751 :=
  pratt 430751 17 [2, 5, 5, 5, 1723]
    (ap_cons prime_2 <| ap_cons prime_5 <| ap_cons prime_5 <| ap_cons prime_5 <| ap_cons prime_1723 <| ap_nil)
    (by decide +kernel)

theorem prime_31757755568855353 : Nat.Prime 31757755568855353 :=
  pratt 31757755568855353 10 [2, 2, 2, 3, 31, 107, 223, 4153, 430751]
    (ap_cons prime_2 <| ap_cons prime_2 <| ap_cons prime_2 <| ap_cons prime_3 <| ap_cons prime_31 <| ap_cons prime_107 <| ap_cons prime_223 <| ap_cons prime_4153 <| ap_cons prime_430751 <| ap_nil)
    (by decide +kernel)

theorem prime_19 : Nat.Prime 19 := by norm_num

theorem prime_83 : Nat.Prime 83 := by norm_num

theorem prime_9463 : Nat.Prime 9463 :=
  pratt 9463 3 [2, 3, 19, 83]
    (ap_cons prime_2 <| ap_cons prime_3 <| ap_cons prime_19 <| ap_cons prime_83 <| ap_nil)
    (by decide +kernel)

theorem prime_37853 : Nat.Prime 37853 :=
  pratt 37853 2 [2, 2, 9463]
    (ap_cons prime_2 <| ap_cons prime_2 <| ap_cons prime_9463 <| ap_nil)
    (by decide +kernel)

theorem prime_75707 : Nat.Prime 75707 :=
  pratt 75707 2 [2, 37853]
    (ap_cons prime_2 <| ap_cons prime_37853 <| ap_nil)
    (by decide +kernel)

theorem prime_13 : Nat.Prime 13 := by norm_num

theorem prime_29 : Nat.Prime 29 := by norm_num

theorem prime_2437 : Nat.Prime 2437 :=
  pratt 2437 2 [2, 2, 3, 7, 29]
    (ap_cons prime_2 <| ap_cons prime_2 <| ap_cons prime_3 <| ap_cons prime_7 <| ap_cons prime_29 <| ap_nil)
    (by decide +kernel)

theorem prime_97 : Nat.Prime 97 := by norm_num

theorem prime_419 : Nat.Prime 419 := by norm_num

theorem prime_569003 : Nat.Prime 569003 :=
  pratt 569003 2 [2, 7, 97, 419]
    (ap_cons prime_2 <| ap_cons prime_7 <| ap_cons prime_97 <| ap_cons prime_419 <| ap_nil)
    (by decide +kernel)

theorem prime_2773320623 : Nat.Prime 2773320623 :=
  pratt 2773320623 5 [2, 2437, 569003]
    (ap_cons prime_2 <| ap_cons prime_2437 <| ap_cons prime_569003 <| ap_nil)
    (by decide +kernel)

theorem prime_72106336199 : Nat.Prime 72106336199 :=
  pratt 72106336199 7 [2, 13, 2773320623]
    (ap_cons prime_2 <| ap_cons prime_13 <| ap_cons prime_2773320623 <| ap_nil)
    (by decide +kernel)

theorem prime_47 : Nat.Prime 47 := by norm_num

theorem prime_127 : Nat.Prime 127 := by norm_num

theorem prime_103 : Nat.Prime 103 := by norm_num

theorem prime_991 : Nat.Prime 991 := by norm_num

theorem prime_8574133 : Nat.Prime 8574133 :=
  pratt 8574133 2 [2, 2, 3, 7, 103, 991]
    (ap_cons prime_2 <| ap_cons prime_2 <| ap_cons prime_3 <| ap_cons prime_7 <| ap_cons prime_103 <| ap_cons prime_991 <| ap_nil)
    (by decide +kernel)

theorem prime_1919519569386763 : Nat.Prime 1919519569386763 :=
  pratt 1919519569386763 2 [2, 3, 7, 19, 47, 47, 127, 8574133]
    (ap_cons prime_2 <| ap_cons prime_3 <| ap_cons prime_7 <| ap_cons prime_19 <| ap_cons prime_47 <| ap_cons prime_47 <| ap_cons prime_127 <| ap_cons prime_8574133 <| ap_nil)
    (by decide +kernel)

theorem prime_75445702479781427272750846543864801 : Nat.Prime 75445702479781427272750846543864801 :=
  pratt 75445702479781427272750846543864801 7 [2, 2, 2, 2, 2, 3, 3, 5, 5, 75707, 72106336199, 1919519569386763]
    (ap_cons prime_2 <| ap_cons prime_2 <| ap_cons prime_2 <| ap_cons prime_2 <| ap_cons prime_2 <| ap_cons prime_3 <| ap_cons prime_3 <| ap_cons prime_5 <| ap_cons prime_5 <| ap_cons prime_75707 <| ap_cons prime_72106336199 <| ap_cons prime_1919519569386763 <| ap_nil)
    (by decide +kernel)

theorem prime_74058212732561358302231226437062788676166966415465897661863160754340907 : Nat.Prime 74058212732561358302231226437062788676166966415465897661863160754340907 :=
  pratt 74058212732561358302231226437062788676166966415465897661863160754340907 2 [2, 3, 353, 57467, 132049, 1923133, 31757755568855353, 75445702479781427272750846543864801]
    (ap_cons prime_2 <| ap_cons prime_3 <| ap_cons prime_353 <| ap_cons prime_57467 <| ap_cons prime_132049 <| ap_cons prime_1923133 <| ap_cons prime_31757755568855353 <| ap_cons prime_75445702479781427272750846543864801 <| ap_nil)
    (by decide +kernel)

theorem prime_57896044618658097711785492504343953926634992332820282019728792003956564819949 : Nat.Prime 57896044618658097711785492504343953926634992332820282019728792003956564819949 :=
  pratt 57896044618658097711785492504343953926634992332820282019728792003956564819949 2 [2, 2, 3, 65147, 74058212732561358302231226437062788676166966415465897661863160754340907]
    (ap_cons prime_2 <| ap_cons prime_2 <| ap_cons prime_3 <| ap_cons prime_65147 <| ap_cons prime_74058212732561358302231226437062788676166966415465897661863160754340907 <| ap_nil)
    (by decide +kernel)

/-- p = 2^255 - 19 is prime. -/
theorem prime_p : Nat.Prime Sodium.Spec.F25519.p := by
  have h : Sodium.Spec.F25519.p = 57896044618658097711785492504343953926634992332820282019728792003956564819949 := by decide +kernel
  rw [h]; exact prime_57896044618658097711785492504343953926634992332820282019728792003956564819949

instance : Fact (Nat.Prime Sodium.Spec.F25519.p) := ⟨prime_p⟩

end Sodium.Prime25519

