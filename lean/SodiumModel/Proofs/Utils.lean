import SodiumModel.Model.Utils
import SodiumModel.Proofs.ByteDecide
/-
  Helper lemmas for C14 (constant-time helpers): little-endian value lemmas and the
  carry/borrow invariants of the generic loops and of the amd64 fast paths.
-/
open Sodium Sodium.Model
namespace Sodium



theorem le_lt : ∀ b : Bytes, le b < 256 ^ b.length
  | [] => by simp [le]
  | x :: xs => by
    have := le_lt xs
    have hx := x.toNat_lt
    simp only [le, List.length_cons, Nat.pow_succ]
    omega

theorem le_inj : ∀ a b : Bytes, a.length = b.length → le a = le b → a = b
  | [], [], _, _ => rfl
  | x :: xs, y :: ys, hl, h => by
    simp only [le] at h
    have hx := x.toNat_lt; have hy := y.toNat_lt
    have h1 : x.toNat = y.toNat := by omega
    have h2 : le xs = le ys := by omega
    rw [UInt8.toNat_inj.mp h1, le_inj xs ys (by simpa using hl) h2]
  | [], _ :: _, h, _ => by simp at h
  | _ :: _, [], h, _ => by simp at h

theorem le_append (a b : Bytes) : le (a ++ b) = le a + 256 ^ a.length * le b := by
  induction a with
  | nil => simp [le]
  | cons x xs ih =>
    simp only [List.cons_append, le, ih, List.length_cons, Nat.pow_succ, Nat.mul_add, Nat.add_assoc]
    congr 2
    simp only [Nat.mul_assoc, Nat.mul_comm]

theorem toLE_length (n v : Nat) : (toLE n v).length = n := by
  induction n generalizing v with
  | zero => rfl
  | succ n ih => simp [toLE, ih]

theorem le_toLE (n v : Nat) : le (toLE n v) = v % 256 ^ n := by
  induction n generalizing v with
  | zero => simp [toLE, le, Nat.mod_one]
  | succ n ih =>
    simp only [toLE, le, ih, Nat.pow_succ]
    have : (UInt8.ofNat (v % 256)).toNat = v % 256 := by simp
    rw [this, Nat.mul_comm (256 ^ n) 256, Nat.mod_mul]
  


set_option maxRecDepth 100000 in
theorem memcmpFinal_eq : ∀ d : UInt8, memcmpFinal d = if d = 0 then 0 else -1 := by decide +kernel
set_option maxRecDepth 100000 in
theorem isZeroFinal_eq : ∀ d : UInt8, isZeroFinal d = if d = 0 then 1 else 0 := by decide +kernel

theorem orXor_eq_zero : ∀ (a b : Bytes) (d : UInt8), a.length = b.length →
    (orXor d a b = 0 ↔ d = 0 ∧ a = b)
  | [], [], d, _ => by simp [orXor]
  | x :: xs, y :: ys, d, h => by
    have ih := orXor_eq_zero xs ys (d ||| (x ^^^ y)) (by simpa using h)
    simp [orXor, ih, and_assoc]
  | [], _ :: _, _, h => by simp at h
  | _ :: _, [], _, h => by simp at h

theorem orAll_eq_zero : ∀ (a : Bytes) (d : UInt8), (orAll d a = 0 ↔ d = 0 ∧ a = zeros a.length)
  | [], d => by simp [orAll, zeros]
  | x :: xs, d => by
    have ih := orAll_eq_zero xs (d ||| x)
    simp [orAll, ih, zeros, List.replicate_succ, and_assoc] 
    


theorem compareStep_eq0 (g x y : UInt8) : compareStep (g, 0) x y = (g, 0) := by
  simp [compareStep]

theorem xor_lt_256 (a b : Nat) (ha : a < 256) (hb : b < 256) : a ^^^ b < 256 :=
  Nat.xor_lt_two_pow (n := 8) ha hb

theorem compareStep_eq1 (x y : UInt8) :
    compareStep (0, 1) x y = (if y < x then 1 else 0, if x = y then 1 else 0) := by
  have hx := x.toNat_lt; have hy := y.toNat_lt
  have hxor := xor_lt_256 y.toNat x.toNat hy hx
  have hz : (y.toNat ^^^ x.toNat = 0) ↔ y = x := by
    rw [← UInt8.toNat_xor, ← UInt8.xor_eq_zero_iff, ← UInt8.toNat_inj]; rfl
  simp only [compareStep]
  ext
  · simp only
    rw [← UInt8.toNat_inj]
    by_cases h : y < x
    · have h' : y.toNat < x.toNat := h
      simp [h, UInt32.toNat_sub, UInt32.toNat_shiftRight]
      omega
    · have h' : ¬ y.toNat < x.toNat := h
      simp [h, UInt32.toNat_sub, UInt32.toNat_shiftRight]
      omega
  · simp only
    rw [← UInt8.toNat_inj]
    by_cases h : x = y
    · subst h; simp
    · have h' : y.toNat ^^^ x.toNat ≠ 0 := fun e => h (hz.mp e).symm
      simp [h, UInt32.toNat_sub, UInt32.toNat_shiftRight, UInt32.toNat_xor]
      omega


theorem incLoop_length (c : UInt64) (n : Bytes) : (incLoop c n).length = n.length := by
  induction n generalizing c with
  | nil => rfl
  | cons x xs ih => simp [incLoop, ih]

theorem incLoop_le (c : UInt64) (n : Bytes) (hc : c.toNat ≤ 1) :
    ∃ k, k ≤ 1 ∧ le (incLoop c n) + k * 256 ^ n.length = c.toNat + le n := by
  induction n generalizing c with
  | nil => exact ⟨c.toNat, hc, by simp [incLoop, le]⟩
  | cons x xs ih =>
    have hx := x.toNat_lt
    have h1 : (c + x.toUInt64).toNat = c.toNat + x.toNat := by
      rw [UInt64.toNat_add]; simp; omega
    have h2 : ((c + x.toUInt64) >>> 8).toNat = (c.toNat + x.toNat) / 256 := by
      rw [UInt64.toNat_shiftRight, h1]; simp [Nat.shiftRight_eq_div_pow]
    have h3 : (c + x.toUInt64).toUInt8.toNat = (c.toNat + x.toNat) % 256 := by
      rw [UInt64.toNat_toUInt8, h1]
    obtain ⟨k, hk, ih⟩ := ih ((c + x.toUInt64) >>> 8) (by rw [h2]; omega)
    refine ⟨k, hk, ?_⟩
    simp only [incLoop, le, h3, List.length_cons, Nat.pow_succ]
    rw [h2] at ih
    have hk' : k = 0 ∨ k = 1 := by omega
    rcases hk' with rfl | rfl <;> simp at ih ⊢ <;> omega


theorem addLoop_length (c : UInt64) : ∀ (a b : Bytes), a.length = b.length → (addLoop c a b).length = a.length := by
  intro a; induction a generalizing c with
  | nil => intro b _; cases b <;> rfl
  | cons x xs ih => intro b h; cases b with
    | nil => simp at h
    | cons y ys => simp [addLoop, ih _ ys (by simpa using h)]

theorem addLoop_le (c : UInt64) (a b : Bytes) (hl : a.length = b.length) (hc : c.toNat ≤ 1) :
    ∃ k, k ≤ 1 ∧ le (addLoop c a b) + k * 256 ^ a.length = c.toNat + le a + le b := by
  induction a generalizing c b with
  | nil => cases b with
    | nil => exact ⟨c.toNat, hc, by simp [addLoop, le]⟩
    | cons _ _ => simp at hl
  | cons x xs ih => cases b with
    | nil => simp at hl
    | cons y ys =>
    have hx := x.toNat_lt; have hy := y.toNat_lt
    have h1 : (c + (x.toUInt64 + y.toUInt64)).toNat = c.toNat + x.toNat + y.toNat := by
      rw [UInt64.toNat_add, UInt64.toNat_add]; simp; omega
    have h2 : ((c + (x.toUInt64 + y.toUInt64)) >>> 8).toNat = (c.toNat + x.toNat + y.toNat) / 256 := by
      rw [UInt64.toNat_shiftRight, h1]; simp [Nat.shiftRight_eq_div_pow]
    have h3 : (c + (x.toUInt64 + y.toUInt64)).toUInt8.toNat = (c.toNat + x.toNat + y.toNat) % 256 := by
      rw [UInt64.toNat_toUInt8, h1]
    obtain ⟨k, hk, ih⟩ := ih ((c + (x.toUInt64 + y.toUInt64)) >>> 8) ys (by simpa using hl) (by rw [h2]; omega)
    refine ⟨k, hk, ?_⟩
    simp only [addLoop, le, h3, List.length_cons, Nat.pow_succ]
    rw [h2] at ih
    have hk' : k = 0 ∨ k = 1 := by omega
    rcases hk' with rfl | rfl <;> simp at ih ⊢ <;> omega

theorem subLoop_length (c : UInt64) : ∀ (a b : Bytes), a.length = b.length → (subLoop c a b).length = a.length := by
  intro a; induction a generalizing c with
  | nil => intro b _; cases b <;> rfl
  | cons x xs ih => intro b h; cases b with
    | nil => simp at h
    | cons y ys => simp [subLoop, ih _ ys (by simpa using h)]

theorem subLoop_le (c : UInt64) (a b : Bytes) (hl : a.length = b.length) (hc : c.toNat ≤ 1) :
    ∃ k, k ≤ 1 ∧ le (subLoop c a b) + le b + c.toNat = le a + k * 256 ^ a.length := by
  induction a generalizing c b with
  | nil => cases b with
    | nil => exact ⟨c.toNat, hc, by simp [subLoop, le]⟩
    | cons _ _ => simp at hl
  | cons x xs ih => cases b with
    | nil => simp at hl
    | cons y ys =>
    have hx := x.toNat_lt; have hy := y.toNat_lt
    have h1 : (x.toUInt64 - y.toUInt64 - c).toNat = (2^64 + x.toNat - y.toNat - c.toNat) % 2^64 := by
      rw [UInt64.toNat_sub, UInt64.toNat_sub]; simp; omega
    by_cases hb : y.toNat + c.toNat ≤ x.toNat
    · have h1' : (x.toUInt64 - y.toUInt64 - c).toNat = x.toNat - y.toNat - c.toNat := by rw [h1]; omega
      have h2 : (((x.toUInt64 - y.toUInt64 - c) >>> 8) &&& 1).toNat = 0 := by
        rw [UInt64.toNat_and, UInt64.toNat_shiftRight, h1']; simp [Nat.shiftRight_eq_div_pow]
        have : (x.toNat - y.toNat - c.toNat) / 256 = 0 := by omega
        simp [this]
      have h3 : (x.toUInt64 - y.toUInt64 - c).toUInt8.toNat = x.toNat - y.toNat - c.toNat := by
        rw [UInt64.toNat_toUInt8, h1']; omega
      obtain ⟨k, hk, ih⟩ := ih (((x.toUInt64 - y.toUInt64 - c) >>> 8) &&& 1) ys (by simpa using hl) (by rw [h2]; omega)
      refine ⟨k, hk, ?_⟩
      simp only [subLoop, le, h3, List.length_cons, Nat.pow_succ]
      rw [h2] at ih
      have hk' : k = 0 ∨ k = 1 := by omega
      rcases hk' with rfl | rfl <;> simp at ih ⊢ <;> omega
    · have h1' : (x.toUInt64 - y.toUInt64 - c).toNat = 2^64 + x.toNat - y.toNat - c.toNat := by rw [h1]; omega
      have h2 : (((x.toUInt64 - y.toUInt64 - c) >>> 8) &&& 1).toNat = 1 := by
        rw [UInt64.toNat_and, UInt64.toNat_shiftRight, h1']; simp [Nat.shiftRight_eq_div_pow]
        have : (2^64 + x.toNat - y.toNat - c.toNat) / 256 = 2^56 - 1 := by omega
        rw [this]
      have h3 : (x.toUInt64 - y.toUInt64 - c).toUInt8.toNat = 256 + x.toNat - y.toNat - c.toNat := by
        rw [UInt64.toNat_toUInt8, h1']; omega
      obtain ⟨k, hk, ih⟩ := ih (((x.toUInt64 - y.toUInt64 - c) >>> 8) &&& 1) ys (by simpa using hl) (by rw [h2]; omega)
      refine ⟨k, hk, ?_⟩
      simp only [subLoop, le, h3, List.length_cons, Nat.pow_succ]
      rw [h2] at ih
      have hk' : k = 0 ∨ k = 1 := by omega
      rcases hk' with rfl | rfl <;> simp at ih ⊢ <;> omega

theorem le_split (b : Bytes) (k : Nat) (h : k ≤ b.length) :
    le b = le (b.take k) + 256 ^ k * le (b.drop k) := by
  conv => lhs; rw [← List.take_append_drop k b]
  rw [le_append]; simp [Nat.min_eq_left h]

theorem load64_toNat (b : Bytes) : (load64 b).toNat = le (b.take 8) := by
  have := le_lt (b.take 8)
  have h8 : (b.take 8).length ≤ 8 := by simp; omega
  have : le (b.take 8) < 2 ^ 64 := by
    calc le (b.take 8) < 256 ^ (b.take 8).length := this
      _ ≤ 256 ^ 8 := Nat.pow_le_pow_right (by decide) h8
      _ = 2 ^ 64 := by decide
  simp [load64, UInt64.toNat_ofNat', Nat.mod_eq_of_lt this]

theorem load32_toNat (b : Bytes) : (load32 b).toNat = le (b.take 4) := by
  have := le_lt (b.take 4)
  have h8 : (b.take 4).length ≤ 4 := by simp; omega
  have : le (b.take 4) < 2 ^ 32 := by
    calc le (b.take 4) < 256 ^ (b.take 4).length := this
      _ ≤ 256 ^ 4 := Nat.pow_le_pow_right (by decide) h8
      _ = 2 ^ 32 := by decide
  simp [load32, UInt32.toNat_ofNat', Nat.mod_eq_of_lt this]

theorem le_store64 (v : UInt64) : le (store64 v) = v.toNat := by
  have := v.toNat_lt
  simp [store64, le_toLE]
theorem le_store32 (v : UInt32) : le (store32 v) = v.toNat := by
  have := v.toNat_lt
  simp [store32, le_toLE]
@[simp] theorem store64_length (v : UInt64) : (store64 v).length = 8 := toLE_length _ _
@[simp] theorem store32_length (v : UInt32) : (store32 v).length = 4 := toLE_length _ _

theorem adc64_spec (a b : UInt64) (cf : Bool) :
    (adc64 a b cf).1.toNat + 2 ^ 64 * (if (adc64 a b cf).2 then 1 else 0)
      = a.toNat + b.toNat + (if cf then 1 else 0) := by
  have ha := a.toNat_lt; have hb := b.toNat_lt
  cases cf <;> simp [adc64, UInt64.toNat_add] <;> split <;> omega

theorem adc32_spec (a b : UInt32) (cf : Bool) :
    (adc32 a b cf).1.toNat + 2 ^ 32 * (if (adc32 a b cf).2 then 1 else 0)
      = a.toNat + b.toNat + (if cf then 1 else 0) := by
  have ha := a.toNat_lt; have hb := b.toNat_lt
  cases cf <;> simp [adc32, UInt32.toNat_add] <;> split <;> omega

theorem sbb64_spec (a b : UInt64) (cf : Bool) :
    (sbb64 a b cf).1.toNat + b.toNat + (if cf then 1 else 0)
      = a.toNat + 2 ^ 64 * (if (sbb64 a b cf).2 then 1 else 0) := by
  have ha := a.toNat_lt; have hb := b.toNat_lt
  cases cf <;> simp [sbb64, UInt64.toNat_sub] <;> split <;> omega


/-- a value determined modulo `P` by a single-carry equation -/
theorem mod_of_carry {r s P k : Nat} (hr : r < P) (hk : k ≤ 1) (h : r + k * P = s) : r = s % P := by
  have hk' : k = 0 ∨ k = 1 := by omega
  rcases hk' with rfl | rfl
  · simp at h; rw [← h, Nat.mod_eq_of_lt hr]
  · simp at h; rw [← h, Nat.add_mod_right, Nat.mod_eq_of_lt hr]

theorem increment_generic_le (n : Bytes) :
    le (sodium_increment_generic n) = (le n + 1) % 256 ^ n.length := by
  obtain ⟨k, hk, h⟩ := incLoop_le 1 n (by decide)
  have hr := le_lt (incLoop 1 n)
  rw [incLoop_length] at hr
  have := mod_of_carry hr hk h
  simpa [sodium_increment_generic, Nat.add_comm] using this

theorem add_generic_le (a b : Bytes) (hl : a.length = b.length) :
    le (sodium_add_generic a b) = (le a + le b) % 256 ^ a.length := by
  obtain ⟨k, hk, h⟩ := addLoop_le 0 a b hl (by decide)
  have hr := le_lt (addLoop 0 a b)
  rw [addLoop_length 0 a b hl] at hr
  have := mod_of_carry hr hk h
  simpa [sodium_add_generic] using this

theorem sub_generic_le (a b : Bytes) (hl : a.length = b.length) :
    le (sodium_sub_generic a b) = (le a + 256 ^ a.length - le b) % 256 ^ a.length := by
  obtain ⟨k, hk, h⟩ := subLoop_le 0 a b hl (by decide)
  have hr := le_lt (subLoop 0 a b)
  rw [subLoop_length 0 a b hl] at hr
  have hb := le_lt b
  rw [← hl] at hb
  have ha := le_lt a
  simp only [sodium_sub_generic]
  have hk' : k = 0 ∨ k = 1 := by omega
  rcases hk' with rfl | rfl
  · simp at h
    have : le a + 256 ^ a.length - le b = le (subLoop 0 a b) + 256 ^ a.length := by omega
    rw [this, Nat.add_mod_right, Nat.mod_eq_of_lt hr]
  · simp at h
    have : le a + 256 ^ a.length - le b = le (subLoop 0 a b) := by omega
    rw [this, Nat.mod_eq_of_lt hr]



theorem le_take_full (b : Bytes) (k : Nat) (h : b.length ≤ k) : le (b.take k) = le b := by
  rw [List.take_of_length_le h]

/-- le of an 8-byte list equals its load64 -/
theorem increment_asm8_le (n : Bytes) (h : n.length = 8) :
    (increment_asm8 n).length = 8 ∧ le (increment_asm8 n) = (le n + 1) % 256 ^ 8 := by
  constructor
  · simp [increment_asm8]
  · simp only [increment_asm8, le_store64, UInt64.toNat_add, load64_toNat]
    rw [le_take_full n 8 (by omega)]
    simp

theorem increment_asm12_le (n : Bytes) (h : n.length = 12) :
    (increment_asm12 n).length = 12 ∧ le (increment_asm12 n) = (le n + 1) % 256 ^ 12 := by
  constructor
  · simp [increment_asm12]
  · have hs := le_split n 8 (by omega)
    have h0 := adc64_spec (load64 n) 0 true
    have h1 := adc32_spec (load32 (n.drop 8)) 0 (adc64 (load64 n) 0 true).2
    have hl1 : (n.drop 8).length ≤ 4 := by simp; omega
    rw [load64_toNat] at h0
    rw [load32_toNat, le_take_full _ 4 hl1] at h1
    have r0 := (adc64 (load64 n) 0 true).1.toNat_lt
    have r1 := (adc32 (load32 (n.drop 8)) 0 (adc64 (load64 n) 0 true).2).1.toNat_lt
    simp only [increment_asm12, le_append, le_store64, le_store32, store64_length]
    simp at h0 h1
    generalize (adc64 (load64 n) 0 true).1.toNat = v0 at *
    generalize (adc32 (load32 (n.drop 8)) 0 (adc64 (load64 n) 0 true).2).1.toNat = v1 at *
    generalize (adc32 (load32 (n.drop 8)) 0 (adc64 (load64 n) 0 true).2).2 = c1 at *
    generalize (adc64 (load64 n) 0 true).2 = c0 at *
    cases c0 <;> cases c1 <;> simp at h0 h1 <;> omega

theorem increment_asm24_le (n : Bytes) (h : n.length = 24) :
    (increment_asm24 n).length = 24 ∧ le (increment_asm24 n) = (le n + 1) % 256 ^ 24 := by
  constructor
  · simp [increment_asm24]
  · have hs := le_split n 8 (by omega)
    have hs2 := le_split (n.drop 8) 8 (by simp; omega)
    have h0 := adc64_spec (load64 n) 1 false
    have h1 := adc64_spec (load64 (n.drop 8)) 0 (adc64 (load64 n) 1 false).2
    have h2 := adc64_spec (load64 (n.drop 16)) 0 (adc64 (load64 (n.drop 8)) 0 (adc64 (load64 n) 1 false).2).2
    have hl2 : (n.drop 16).length ≤ 8 := by simp; omega
    rw [load64_toNat] at h0 h1
    rw [load64_toNat, le_take_full _ 8 hl2] at h2
    have r0 := (adc64 (load64 n) 1 false).1.toNat_lt
    have r1 := (adc64 (load64 (n.drop 8)) 0 (adc64 (load64 n) 1 false).2).1.toNat_lt
    have r2 := (adc64 (load64 (n.drop 16)) 0 (adc64 (load64 (n.drop 8)) 0 (adc64 (load64 n) 1 false).2).2).1.toNat_lt
    simp only [increment_asm24, le_append, le_store64, store64_length, List.length_append]
    simp only [List.drop_drop] at hs2
    simp at h0 h1 h2 hs2
    generalize (adc64 (load64 (n.drop 16)) 0 (adc64 (load64 (n.drop 8)) 0 (adc64 (load64 n) 1 false).2).2).1.toNat = v2 at *
    generalize (adc64 (load64 (n.drop 16)) 0 (adc64 (load64 (n.drop 8)) 0 (adc64 (load64 n) 1 false).2).2).2 = c2 at *
    generalize (adc64 (load64 (n.drop 8)) 0 (adc64 (load64 n) 1 false).2).1.toNat = v1 at *
    generalize (adc64 (load64 (n.drop 8)) 0 (adc64 (load64 n) 1 false).2).2 = c1 at *
    generalize (adc64 (load64 n) 1 false).1.toNat = v0 at *
    generalize (adc64 (load64 n) 1 false).2 = c0 at *
    cases c0 <;> cases c1 <;> cases c2 <;> simp at h0 h1 h2 <;> omega

theorem add_asm8_le (a b : Bytes) (ha : a.length = 8) (hb : b.length = 8) :
    (add_asm8 a b).length = 8 ∧ le (add_asm8 a b) = (le a + le b) % 256 ^ 8 := by
  constructor
  · simp [add_asm8]
  · have h0 := adc64_spec (load64 a) (load64 b) false
    rw [load64_toNat, load64_toNat, le_take_full a 8 (by omega), le_take_full b 8 (by omega)] at h0
    have r0 := (adc64 (load64 a) (load64 b) false).1.toNat_lt
    simp only [add_asm8, le_store64]
    generalize (adc64 (load64 a) (load64 b) false).1.toNat = v0 at *
    generalize (adc64 (load64 a) (load64 b) false).2 = c0 at *
    cases c0 <;> simp at h0 <;> omega

theorem add_asm12_le (a b : Bytes) (ha : a.length = 12) (hb : b.length = 12) :
    (add_asm12 a b).length = 12 ∧ le (add_asm12 a b) = (le a + le b) % 256 ^ 12 := by
  constructor
  · simp [add_asm12]
  · have hsa := le_split a 8 (by omega)
    have hsb := le_split b 8 (by omega)
    have h0 := adc64_spec (load64 a) (load64 b) false
    have h1 := adc32_spec (load32 (a.drop 8)) (load32 (b.drop 8)) (adc64 (load64 a) (load64 b) false).2
    rw [load64_toNat, load64_toNat] at h0
    rw [load32_toNat, load32_toNat, le_take_full (a.drop 8) 4 (by simp; omega),
        le_take_full (b.drop 8) 4 (by simp; omega)] at h1
    have r0 := (adc64 (load64 a) (load64 b) false).1.toNat_lt
    have r1 := (adc32 (load32 (a.drop 8)) (load32 (b.drop 8)) (adc64 (load64 a) (load64 b) false).2).1.toNat_lt
    simp only [add_asm12, le_append, le_store64, le_store32, store64_length]
    generalize (adc32 (load32 (a.drop 8)) (load32 (b.drop 8)) (adc64 (load64 a) (load64 b) false).2).1.toNat = v1 at *
    generalize (adc32 (load32 (a.drop 8)) (load32 (b.drop 8)) (adc64 (load64 a) (load64 b) false).2).2 = c1 at *
    generalize (adc64 (load64 a) (load64 b) false).1.toNat = v0 at *
    generalize (adc64 (load64 a) (load64 b) false).2 = c0 at *
    cases c0 <;> cases c1 <;> simp at h0 h1 <;> omega

theorem add_asm24_le (a b : Bytes) (ha : a.length = 24) (hb : b.length = 24) :
    (add_asm24 a b).length = 24 ∧ le (add_asm24 a b) = (le a + le b) % 256 ^ 24 := by
  constructor
  · simp [add_asm24]
  · have hsa := le_split a 8 (by omega)
    have hsb := le_split b 8 (by omega)
    have hsa2 := le_split (a.drop 8) 8 (by simp; omega)
    have hsb2 := le_split (b.drop 8) 8 (by simp; omega)
    have h0 := adc64_spec (load64 a) (load64 b) false
    have h1 := adc64_spec (load64 (a.drop 8)) (load64 (b.drop 8)) (adc64 (load64 a) (load64 b) false).2
    have h2 := adc64_spec (load64 (a.drop 16)) (load64 (b.drop 16))
      (adc64 (load64 (a.drop 8)) (load64 (b.drop 8)) (adc64 (load64 a) (load64 b) false).2).2
    rw [load64_toNat, load64_toNat] at h0 h1
    rw [load64_toNat, load64_toNat, le_take_full (a.drop 16) 8 (by simp; omega),
        le_take_full (b.drop 16) 8 (by simp; omega)] at h2
    have r0 := (adc64 (load64 a) (load64 b) false).1.toNat_lt
    have r1 := (adc64 (load64 (a.drop 8)) (load64 (b.drop 8)) (adc64 (load64 a) (load64 b) false).2).1.toNat_lt
    have r2 := (adc64 (load64 (a.drop 16)) (load64 (b.drop 16))
      (adc64 (load64 (a.drop 8)) (load64 (b.drop 8)) (adc64 (load64 a) (load64 b) false).2).2).1.toNat_lt
    simp only [add_asm24, le_append, le_store64, store64_length, List.length_append]
    simp only [List.drop_drop] at hsa2 hsb2
    simp at hsa2 hsb2
    generalize (adc64 (load64 (a.drop 16)) (load64 (b.drop 16))
      (adc64 (load64 (a.drop 8)) (load64 (b.drop 8)) (adc64 (load64 a) (load64 b) false).2).2).1.toNat = v2 at *
    generalize (adc64 (load64 (a.drop 16)) (load64 (b.drop 16))
      (adc64 (load64 (a.drop 8)) (load64 (b.drop 8)) (adc64 (load64 a) (load64 b) false).2).2).2 = c2 at *
    generalize (adc64 (load64 (a.drop 8)) (load64 (b.drop 8)) (adc64 (load64 a) (load64 b) false).2).1.toNat = v1 at *
    generalize (adc64 (load64 (a.drop 8)) (load64 (b.drop 8)) (adc64 (load64 a) (load64 b) false).2).2 = c1 at *
    generalize (adc64 (load64 a) (load64 b) false).1.toNat = v0 at *
    generalize (adc64 (load64 a) (load64 b) false).2 = c0 at *
    cases c0 <;> cases c1 <;> cases c2 <;> simp at h0 h1 h2 <;> omega

theorem sbbChain_length : ∀ (k : Nat) (cf : Bool) (a b : Bytes), (sbbChain k cf a b).length = 8 * k
  | 0, _, _, _ => rfl
  | k + 1, cf, a, b => by simp [sbbChain, sbbChain_length k]; omega

theorem sbbChain_le : ∀ (k : Nat) (cf : Bool) (a b : Bytes), a.length = 8 * k → b.length = 8 * k →
    ∃ bo : Nat, bo ≤ 1 ∧ le (sbbChain k cf a b) + le b + (if cf then 1 else 0) = le a + bo * 256 ^ (8 * k)
  | 0, cf, a, b, ha, hb => by
    have : a = [] := List.eq_nil_of_length_eq_zero (by omega)
    have : b = [] := List.eq_nil_of_length_eq_zero (by omega)
    subst_vars
    exact ⟨if cf then 1 else 0, by split <;> omega, by simp [sbbChain, le]⟩
  | k + 1, cf, a, b, ha, hb => by
    obtain ⟨bo, hbo, ih⟩ := sbbChain_le k (sbb64 (load64 a) (load64 b) cf).2 (a.drop 8) (b.drop 8)
      (by simp; omega) (by simp; omega)
    have hsa := le_split a 8 (by omega)
    have hsb := le_split b 8 (by omega)
    have h0 := sbb64_spec (load64 a) (load64 b) cf
    rw [load64_toNat, load64_toNat] at h0
    refine ⟨bo, hbo, ?_⟩
    simp only [sbbChain, le_append, le_store64, store64_length]
    have hp : 256 ^ (8 * (k + 1)) = 256 ^ 8 * 256 ^ (8 * k) := by rw [← Nat.pow_add]; congr 1; omega
    rw [hp]
    generalize (sbb64 (load64 a) (load64 b) cf).1.toNat = v0 at *
    generalize (sbb64 (load64 a) (load64 b) cf).2 = c0 at *
    generalize 256 ^ (8 * k) = P at *
    have hbo' : bo = 0 ∨ bo = 1 := by omega
    rcases hbo' with rfl | rfl <;> cases c0 <;> cases cf <;> simp at h0 ih ⊢ <;> omega



/-- invariant of the `sodium_compare` loop (most significant byte first) -/
theorem compareLoop_spec : ∀ (a b : Bytes), a.length = b.length →
    compareLoop a b = (if le b < le a then 1 else 0, if le a = le b then 1 else 0)
  | [], [], _ => by simp [compareLoop, le]
  | x :: xs, y :: ys, h => by
    have ih := compareLoop_spec xs ys (by simpa using h)
    have hx := x.toNat_lt; have hy := y.toNat_lt
    simp only [compareLoop, ih, le]
    by_cases heq : le xs = le ys
    · have hlt : ¬ le ys < le xs := by omega
      simp only [heq, if_true, Nat.lt_irrefl, if_false]
      rw [compareStep_eq1]
      have h1 : (y < x) ↔ (y.toNat + 256 * le ys < x.toNat + 256 * le ys) := by
        rw [UInt8.lt_iff_toNat_lt]; omega
      have h2 : (x = y) ↔ (x.toNat + 256 * le ys = y.toNat + 256 * le ys) := by
        rw [← UInt8.toNat_inj]; omega
      simp only [h1, h2]
    · simp only [heq, if_false]
      rw [compareStep_eq0]
      have h2 : ¬ (x.toNat + 256 * le xs = y.toNat + 256 * le ys) := by omega
      have h1 : (le ys < le xs) ↔ (y.toNat + 256 * le ys < x.toNat + 256 * le xs) := by omega
      simp only [h1, h2, if_false]
      rfl
  | [], _ :: _, h => by simp at h
  | _ :: _, [], h => by simp at h

theorem compare_spec (a b : Bytes) (h : a.length = b.length) :
    sodium_compare a b = if le a < le b then -1 else if le a = le b then 0 else 1 := by
  simp only [sodium_compare, compareLoop_spec a b h]
  by_cases h1 : le a < le b
  · have : ¬ le b < le a := by omega
    have : ¬ le a = le b := by omega
    simp [*]
  · by_cases h2 : le a = le b
    · simp [h2]
    · have : le b < le a := by omega
      simp [*]

/-! crypto_verify_n generic -/
theorem orXor16_spec : ∀ (a b : Bytes) (d : UInt16), a.length = b.length →
    (orXor16 d a b = 0 ↔ d = 0 ∧ a = b) ∧ (d.toNat < 256 → (orXor16 d a b).toNat < 256)
  | [], [], d, _ => by simp [orXor16]
  | x :: xs, y :: ys, d, h => by
    have ih := orXor16_spec xs ys (d ||| (x ^^^ y).toUInt16) (by simpa using h)
    constructor
    · simp only [orXor16, ih.1, UInt16.or_eq_zero_iff, List.cons.injEq, and_assoc]
      have : (x ^^^ y).toUInt16 = 0 ↔ x = y := by
        rw [← UInt16.toNat_inj, ← UInt8.xor_eq_zero_iff, ← UInt8.toNat_inj]; simp
      rw [this]
    · intro hd
      simp only [orXor16]
      apply ih.2
      rw [UInt16.toNat_or]
      have := (x ^^^ y).toNat_lt
      exact Nat.or_lt_two_pow (n := 8) hd (by simpa using this)
  | [], _ :: _, _, h => by simp at h
  | _ :: _, [], _, h => by simp at h

theorem verifyFinal16_spec (d : UInt16) (h : d.toNat < 256) :
    verifyFinal16 d = if d = 0 then 0 else -1 := by
  by_cases h0 : d = 0
  · subst h0; decide
  · have hne : d.toNat ≠ 0 := fun e => h0 (UInt16.toNat_inj.mp (by simpa using e))
    have h1 : (d - 1).toNat = d.toNat - 1 := by
      rw [UInt16.toNat_sub]; simp; omega
    have h2 : (((d - 1) >>> 13) ^^^ 0) >>> 2 = 0 := by
      rw [← UInt16.toNat_inj]
      simp [UInt16.toNat_shiftRight, h1, Nat.shiftRight_eq_div_pow]
      omega
    simp only [verifyFinal16, h2, h0, if_false]; decide


def allZero (z : Bytes) : Bool := z.all (· == 0)

theorem allZero_xorLane : ∀ (a b : Bytes), a.length = b.length → (allZero (xorLane a b) = true ↔ a = b)
  | [], [], _ => by simp [allZero, xorLane, xorBytes]
  | x :: xs, y :: ys, h => by
    have ih := allZero_xorLane xs ys (by simpa using h)
    simp only [allZero, xorLane] at ih
    simp [allZero, xorLane, xorBytes, ih]
  | [], _ :: _, h => by simp at h
  | _ :: _, [], h => by simp at h

theorem xorLane_length : ∀ (a b : Bytes), a.length = b.length → (xorLane a b).length = a.length
  | [], [], _ => rfl
  | x :: xs, y :: ys, h => by
    have ih := xorLane_length xs ys (by simpa using h)
    simp only [xorLane] at ih
    simp [xorLane, xorBytes, ih]
  | [], _ :: _, h => by simp at h
  | _ :: _, [], h => by simp at h

theorem orLane_length : ∀ (a b : Bytes), a.length = b.length → (orLane a b).length = a.length
  | [], [], _ => rfl
  | x :: xs, y :: ys, h => by simp [orLane, orLane_length xs ys (by simpa using h)]
  | [], _ :: _, h => by simp at h
  | _ :: _, [], h => by simp at h

theorem allZero_orLane : ∀ (a b : Bytes), a.length = b.length →
    (allZero (orLane a b) = true ↔ allZero a = true ∧ allZero b = true)
  | [], [], _ => by simp [allZero, orLane]
  | x :: xs, y :: ys, h => by
    have ih := allZero_orLane xs ys (by simpa using h)
    simp only [allZero] at ih
    simp only [allZero, orLane, List.all_cons, Bool.and_eq_true, ih, beq_iff_eq, UInt8.or_eq_zero_iff]
    constructor <;> (intro h; simp [h])
  | [], _ :: _, h => by simp at h
  | _ :: _, [], h => by simp at h

theorem sseAccum_spec : ∀ (lanes : List (Bytes × Bytes)) (z : Bytes),
    (∀ p ∈ lanes, p.1.length = z.length ∧ p.2.length = z.length) →
    (allZero (sseAccum z lanes) = true ↔ allZero z = true ∧ ∀ p ∈ lanes, p.1 = p.2) ∧
    (sseAccum z lanes).length = z.length
  | [], z, _ => by simp [sseAccum]
  | (a, b) :: rest, z, h => by
    have hab := h (a, b) (by simp)
    have hx : (xorLane a b).length = z.length := by rw [xorLane_length a b (by simp at hab; omega)]; exact hab.1
    have hz : (orLane z (xorLane a b)).length = z.length := orLane_length _ _ hx.symm
    have ih := sseAccum_spec rest (orLane z (xorLane a b)) (by
      intro p hp; rw [hz]; exact h p (by simp [hp]))
    simp only [sseAccum]
    refine ⟨?_, by rw [ih.2, hz]⟩
    rw [ih.1, allZero_orLane _ _ hx.symm, allZero_xorLane a b (by simp at hab; omega)]
    simp [and_assoc]

theorem allZero_16 (z : Bytes) (h : z.length = 16) :
    allZero z = (dwordZero z 0 && dwordZero z 1 && dwordZero z 2 && dwordZero z 3) := by
  match z, h with
  | [a0,a1,a2,a3,a4,a5,a6,a7,a8,a9,a10,a11,a12,a13,a14,a15], _ =>
    simp [allZero, dwordZero, Bool.and_assoc]

theorem verifyFinalSse_mm : ∀ d0 d1 d2 d3 : Bool,
    verifyFinalSse ((if d0 then 0x000f else 0) ||| (if d1 then 0x00f0 else 0) |||
      (if d2 then 0x0f00 else 0) ||| (if d3 then 0xf000 else 0))
    = if (d0 && d1 && d2 && d3) then 0 else -1 := by decide

theorem verifySse_lane (z : Bytes) (h : z.length = 16) :
    verifyFinalSse (movemaskCmpeq32 z) = if allZero z then 0 else -1 := by
  rw [allZero_16 z h, movemaskCmpeq32, verifyFinalSse_mm]

theorem chunks16_length (k : Nat) (b : Bytes) : (chunks16 k b).length = k := by
  induction k generalizing b with
  | zero => rfl
  | succ k ih => simp [chunks16, ih]

theorem chunks16_lane_length : ∀ (k : Nat) (b : Bytes), b.length = 16 * k → ∀ c ∈ chunks16 k b, c.length = 16
  | 0, _, _ => by simp [chunks16]
  | k + 1, b, h => by
    intro c hc
    simp only [chunks16, List.mem_cons] at hc
    rcases hc with rfl | hc
    · simp; omega
    · exact chunks16_lane_length k (b.drop 16) (by simp; omega) c hc

theorem chunks16_eq_iff : ∀ (k : Nat) (x y : Bytes), x.length = 16 * k → y.length = 16 * k →
    ((∀ p ∈ (chunks16 k x).zip (chunks16 k y), p.1 = p.2) ↔ x = y)
  | 0, x, y, hx, hy => by
    have : x = [] := List.eq_nil_of_length_eq_zero (by omega)
    have : y = [] := List.eq_nil_of_length_eq_zero (by omega)
    subst_vars; simp [chunks16]
  | k + 1, x, y, hx, hy => by
    have ih := chunks16_eq_iff k (x.drop 16) (y.drop 16) (by simp; omega) (by simp; omega)
    simp only [chunks16, List.zip_cons_cons, List.mem_cons, forall_eq_or_imp, ih]
    constructor
    · rintro ⟨h1, h2⟩
      rw [← List.take_append_drop 16 x, ← List.take_append_drop 16 y, h1, h2]
    · rintro rfl; exact ⟨rfl, rfl⟩

theorem verify_n_sse2_spec (k : Nat) (hk : 1 ≤ k) (x y : Bytes)
    (hx : x.length = 16 * k) (hy : y.length = 16 * k) :
    verify_n_sse2 k x y = if x = y then 0 else -1 := by
  obtain ⟨k, rfl⟩ : ∃ j, k = j + 1 := ⟨k - 1, by omega⟩
  have hiff := chunks16_eq_iff (k + 1) x y hx hy
  have hlx := chunks16_lane_length (k + 1) x hx
  have hly := chunks16_lane_length (k + 1) y hy
  simp only [verify_n_sse2]
  simp only [chunks16] at hiff hlx hly ⊢
  simp only [List.zip_cons_cons, List.mem_cons, forall_eq_or_imp] at hiff hlx hly ⊢
  have hl0 : (xorLane (x.take 16) (y.take 16)).length = 16 := by
    rw [xorLane_length _ _ (by rw [hlx.1, hly.1]), hlx.1]
  have hs := sseAccum_spec ((chunks16 k (x.drop 16)).zip (chunks16 k (y.drop 16)))
    (xorLane (x.take 16) (y.take 16)) (by
      intro p hp
      rw [hl0]
      exact ⟨hlx.2 _ (List.of_mem_zip hp).1, hly.2 _ (List.of_mem_zip hp).2⟩)
  rw [verifySse_lane _ (by rw [hs.2, hl0])]
  have := hs.1
  rw [allZero_xorLane _ _ (by rw [hlx.1, hly.1])] at this
  by_cases hxy : x = y
  · have h2 := this.mpr (hiff.mpr hxy)
    rw [if_pos hxy, h2]; rfl
  · have : ¬ (allZero (sseAccum (xorLane (x.take 16) (y.take 16))
        ((chunks16 k (x.drop 16)).zip (chunks16 k (y.drop 16)))) = true) := by
      intro hh; exact hxy (hiff.mp (this.mp hh))
    simp [hxy, this]

end Sodium
