import SodiumModel.Model.AllocMem
import SodiumModel.Proofs.Alloc
/-
  Helper lemmas for the byte-and-page-level allocator model (C17Mem), part 1:
  the memory (page table, byte map, access functions, system calls).  Namespace Sodium.AllocMemP.
-/
open Sodium Sodium.Model Sodium.Model.AllocMem
namespace Sodium.AllocMemP

/-- protection of the page containing address `x` -/
def permA (s : State) (x : Nat) : Perm := s.perm (x / s.pageSize.toNat)

def Readable (p : Perm) : Prop := p = .ro ∨ p = .rw
instance (p : Perm) : Decidable (Readable p) := by unfold Readable; infer_instance

/-! ### page table -/

theorem getD_setPages (m : Std.HashMap Nat Perm) (f n : Nat) (p : Perm) (i : Nat) :
    (setPages m f n p).getD i .unmapped = if f ≤ i ∧ i < f + n then p else m.getD i .unmapped := by
  induction n generalizing m f with
  | zero => simp only [setPages]; rw [if_neg (by omega)]
  | succ n ih =>
    rw [setPages, ih, Std.HashMap.getD_insert]
    by_cases h1 : f + 1 ≤ i ∧ i < f + 1 + n
    · rw [if_pos h1, if_pos (by omega)]
    · rw [if_neg h1]
      by_cases h2 : f = i
      · subst h2; simp
      · have : ¬ (f ≤ i ∧ i < f + (n + 1)) := by omega
        rw [if_neg this]; simp [h2]

theorem allMapped_of (m : Std.HashMap Nat Perm) (f n : Nat)
    (h : ∀ j, j < n → m.getD (f + j) .unmapped ≠ .unmapped) : allMapped m f n = true := by
  induction n generalizing f with
  | zero => rfl
  | succ n ih =>
    rw [allMapped, Bool.and_eq_true]
    refine ⟨?_, ih (f + 1) (fun j hj => ?_)⟩
    · have := h 0 (by omega); simpa using this
    · have := h (j + 1) (by omega)
      rwa [show f + (j + 1) = f + 1 + j by omega] at this

/-- page numbers of an aligned range ↔ addresses of the range -/
theorem page_range_iff (P A L x : Nat) (hP : 0 < P) (hA : P ∣ A) (hL : P ∣ L) :
    (A / P ≤ x / P ∧ x / P < A / P + (L + P - 1) / P) ↔ (A ≤ x ∧ x < A + L) := by
  obtain ⟨a, rfl⟩ := hA
  obtain ⟨l, rfl⟩ := hL
  have e1 : P * a / P = a := Nat.mul_div_cancel_left a hP
  have e2 : (P * l + P - 1) / P = l := by
    rw [show P * l + P - 1 = P - 1 + P * l by omega, Nat.add_mul_div_left _ _ hP,
      Nat.div_eq_of_lt (by omega), Nat.zero_add]
  rw [e1, e2, Nat.le_div_iff_mul_le hP, Nat.div_lt_iff_lt_mul hP, Nat.add_mul, Nat.mul_comm a P,
    Nat.mul_comm l P]

/-! ### byte map -/

def writeBytes (d : Std.HashMap Nat UInt8) (a : Nat) : Bytes → Std.HashMap Nat UInt8
  | [] => d
  | b :: bs => writeBytes (d.insert a b) (a + 1) bs

theorem getD_writeBytes (d : Std.HashMap Nat UInt8) (a : Nat) (bs : Bytes) (x : Nat) :
    (writeBytes d a bs).getD x 0 =
      if a ≤ x ∧ x < a + bs.length then bs.getD (x - a) 0 else d.getD x 0 := by
  induction bs generalizing d a with
  | nil => simp only [writeBytes, List.length_nil]; rw [if_neg (by omega)]
  | cons b bs ih =>
    rw [writeBytes, ih, Std.HashMap.getD_insert, List.length_cons]
    by_cases h1 : a + 1 ≤ x ∧ x < a + 1 + bs.length
    · rw [if_pos h1, if_pos (by omega)]
      rw [show x - a = (x - (a + 1)) + 1 by omega, List.getD_cons_succ]
    · rw [if_neg h1]
      by_cases h2 : a = x
      · subst h2; simp
      · have : ¬ (a ≤ x ∧ x < a + (bs.length + 1)) := by omega
        rw [if_neg this]; simp [h2]

/-! ### access functions -/

theorem load_eq (s : State) (a : UInt64) :
    load s a = if Readable (permA s a.toNat) then .ok (s.byte a.toNat) else .error .fault := by
  unfold load permA Readable State.pageOf
  cases h : s.perm (a.toNat / s.pageSize.toNat) <;> simp

theorem store_eq (s : State) (a : UInt64) (v : UInt8) :
    store s a v = if permA s a.toNat = .rw then .ok { s with data := s.data.insert a.toNat v }
                  else .error .fault := by
  unfold store permA State.pageOf
  cases h : s.perm (a.toNat / s.pageSize.toNat) <;> simp

theorem succ_toNat (a : UInt64) (h : a.toNat + 1 < 2 ^ 64) : (a + 1).toNat = a.toNat + 1 := by
  rw [UInt64.toNat_add]; show (a.toNat + 1) % 2 ^ 64 = _; omega

theorem storeBytes_ok (bs : Bytes) (s : State) (a : UInt64)
    (hp : ∀ x, a.toNat ≤ x → x < a.toNat + bs.length → permA s x = .rw)
    (hfit : a.toNat + bs.length < 2 ^ 64) :
    storeBytes s a bs = .ok { s with data := writeBytes s.data a.toNat bs } := by
  induction bs generalizing s a with
  | nil => rfl
  | cons b bs ih =>
    rw [List.length_cons] at hp hfit
    rw [storeBytes, store_eq, if_pos (hp _ (Nat.le_refl _) (by omega))]
    simp only
    rw [ih _ _ (fun x h1 h2 => by
      rw [succ_toNat a (by omega)] at h1 h2
      exact hp x (by omega) (by omega)) (by rw [succ_toNat a (by omega)]; omega)]
    rw [succ_toNat a (by omega)]; rfl

/-- a run of stores whose first byte is not writable faults (before changing anything) -/
theorem storeBytes_fault (b : UInt8) (bs : Bytes) (s : State) (a : UInt64) (h : permA s a.toNat ≠ .rw) :
    storeBytes s a (b :: bs) = .error .fault := by
  rw [storeBytes, store_eq, if_neg h]

/-- the bytes at addresses `a … a+n-1` -/
def readBytes (s : State) (a n : Nat) : Bytes := (List.range' a n).map s.byte

theorem readBytes_length (s : State) (a n : Nat) : (readBytes s a n).length = n := by simp [readBytes]

theorem readBytes_getD (s : State) (a n i : Nat) (h : i < n) : (readBytes s a n).getD i 0 = s.byte (a + i) := by
  simp [readBytes, List.getD_eq_getElem?_getD, h]

theorem loadBytes_ok (n : Nat) (s : State) (a : UInt64)
    (hp : ∀ x, a.toNat ≤ x → x < a.toNat + n → Readable (permA s x))
    (hfit : a.toNat + n < 2 ^ 64) :
    loadBytes s a n = .ok (readBytes s a.toNat n) := by
  induction n generalizing a with
  | zero => rfl
  | succ n ih =>
    rw [loadBytes, load_eq, if_pos (hp _ (Nat.le_refl _) (by omega))]
    simp only
    rw [ih _ (fun x h1 h2 => by
      rw [succ_toNat a (by omega)] at h1 h2
      exact hp x (by omega) (by omega)) (by rw [succ_toNat a (by omega)]; omega)]
    rw [succ_toNat a (by omega)]
    simp [readBytes, List.range'_succ]

theorem loadBytes_fault (n : Nat) (s : State) (a : UInt64) (h : ¬ Readable (permA s a.toNat)) :
    loadBytes s a (n + 1) = .error .fault := by
  rw [loadBytes, load_eq, if_neg h]

/-! ### system calls -/

theorem mprotect_frame (s : State) (addr len : UInt64) (p : Perm) :
    (sys_mprotect s addr len p).1.data = s.data ∧ (sys_mprotect s addr len p).1.pageSize = s.pageSize ∧
    (sys_mprotect s addr len p).1.canary = s.canary ∧ (sys_mprotect s addr len p).1.errno = s.errno ∧
    (sys_mprotect s addr len p).1.log = s.log ++ [.mprotect addr len p] := by
  unfold sys_mprotect
  split
  · simp
  · split <;> simp

/-- a successful mprotect: aligned range of mapped pages -/
theorem mprotect_ok (s : State) (addr len : UInt64) (p : Perm) (hP : 0 < s.pageSize.toNat)
    (ha : s.pageSize.toNat ∣ addr.toNat) (hl : s.pageSize.toNat ∣ len.toNat)
    (hm : ∀ x, addr.toNat ≤ x → x < addr.toNat + len.toNat → permA s x ≠ .unmapped) :
    (sys_mprotect s addr len p).2 = 0 ∧
    ∀ x, permA (sys_mprotect s addr len p).1 x =
      if addr.toNat ≤ x ∧ x < addr.toNat + len.toNat then p else permA s x := by
  have hmod : addr.toNat % s.pageSize.toNat = 0 := Nat.mod_eq_zero_of_dvd ha
  have hall : allMapped s.prot (s.pageOf addr) (s.nPages len) = true := by
    apply allMapped_of
    intro j hj
    have hx := hm ((s.pageOf addr + j) * s.pageSize.toNat)
    have hdiv : (s.pageOf addr + j) * s.pageSize.toNat / s.pageSize.toNat = s.pageOf addr + j :=
      Nat.mul_div_cancel _ hP
    have hr := (page_range_iff s.pageSize.toNat addr.toNat len.toNat
      ((s.pageOf addr + j) * s.pageSize.toNat) hP ha hl).mp (by
        rw [hdiv]; unfold State.pageOf State.nPages at *; omega)
    have := hx hr.1 hr.2
    unfold permA State.perm at this
    rwa [hdiv] at this
  unfold sys_mprotect
  rw [if_neg (by simp [hmod]), if_neg (by simp [hall])]
  refine ⟨rfl, fun x => ?_⟩
  unfold permA State.perm
  simp only
  rw [getD_setPages]
  have := page_range_iff s.pageSize.toNat addr.toNat len.toNat x hP ha hl
  unfold State.pageOf State.nPages
  by_cases c : addr.toNat ≤ x ∧ x < addr.toNat + len.toNat
  · rw [if_pos c, if_pos (this.mpr c)]
  · rw [if_neg c, if_neg (fun h => c (this.mp h))]

theorem munmap_frame (s : State) (addr len : UInt64) :
    (sys_munmap s addr len).1.data = s.data ∧ (sys_munmap s addr len).1.pageSize = s.pageSize ∧
    (sys_munmap s addr len).1.canary = s.canary ∧ (sys_munmap s addr len).1.errno = s.errno ∧
    (sys_munmap s addr len).1.log = s.log ++ [.munmap addr len] := by
  unfold sys_munmap
  split <;> simp

theorem munmap_ok (s : State) (addr len : UInt64) (hP : 0 < s.pageSize.toNat)
    (ha : s.pageSize.toNat ∣ addr.toNat) (hl : s.pageSize.toNat ∣ len.toNat) :
    ∀ x, permA (sys_munmap s addr len).1 x =
      if addr.toNat ≤ x ∧ x < addr.toNat + len.toNat then .unmapped else permA s x := by
  have hmod : addr.toNat % s.pageSize.toNat = 0 := Nat.mod_eq_zero_of_dvd ha
  intro x
  unfold sys_munmap
  rw [if_neg (by simp [hmod])]
  unfold permA State.perm
  simp only
  rw [getD_setPages]
  have := page_range_iff s.pageSize.toNat addr.toNat len.toNat x hP ha hl
  unfold State.pageOf State.nPages
  by_cases c : addr.toNat ≤ x ∧ x < addr.toNat + len.toNat
  · rw [if_pos c, if_pos (this.mpr c)]
  · rw [if_neg c, if_neg (fun h => c (this.mp h))]

/-- a successful mmap at an aligned address -/
theorem mmap_ok (s : State) (a len : UInt64) (hP : 0 < s.pageSize.toNat)
    (ha : s.pageSize.toNat ∣ a.toNat) (hl : s.pageSize.toNat ∣ len.toNat) :
    ∀ x, permA (sys_mmap s (some a) len).1 x =
      if a.toNat ≤ x ∧ x < a.toNat + len.toNat then .rw else permA s x := by
  intro x
  unfold sys_mmap permA State.perm
  simp only
  rw [getD_setPages]
  have := page_range_iff s.pageSize.toNat a.toNat len.toNat x hP ha hl
  unfold State.pageOf State.nPages
  by_cases c : a.toNat ≤ x ∧ x < a.toNat + len.toNat
  · rw [if_pos c, if_pos (this.mpr c)]
  · rw [if_neg c, if_neg (fun h => c (this.mp h))]

/-! ### little-endian header -/

theorem toLE_length (n v : Nat) : (toLE n v).length = n := by
  induction n generalizing v with
  | zero => rfl
  | succ n ih => simp [toLE, ih]

theorem le_toLE (n v : Nat) : le (toLE n v) = v % 256 ^ n := by
  induction n generalizing v with
  | zero => simp [toLE, le, Nat.mod_one]
  | succ n ih =>
    rw [toLE, le, ih]
    have h1 : (UInt8.ofNat (v % 256)).toNat = v % 256 := by
      simp
    rw [h1, Nat.pow_succ, Nat.mul_comm (256 ^ n) 256, Nat.mod_mul]

end Sodium.AllocMemP
