import SodiumModel.Proofs.GcmAesniAes
import SodiumModel.Proofs.GcmAesniCtr
import SodiumModel.Proofs.GcmAesniIface
/-
  AES-NI AES-256-GCM model (`Model/GcmAesni.lean`): the decryption side.

  * `decrypt_generic_spec`: for EVERY ciphertext / AD length, `aes_gcm_decrypt_generic` returns
    (GCTR from counter value 2 over the input, E(J0) xor the sequential GHASH over AD ‖ pad ‖ C ‖ pad ‖ lengths),
    given the GHASH interface `GhOK st h0` (aggregated GHASH code = sequential `ghFold`).
  * `verify_mac_spec`: the `m == NULL` path (`crypto_aead_aes256gcm_verify_mac`) compares `mac` with the same tag.

  Structure: generic `forLoop` invariant rule (`forLoop_spec`), `ghFold` algebra, the AD prologue
  (`absorb_blocks`, `absorb_ad_eq`; `& ~15` / `& 15` as `and_not15` / `and_15`), `chunks` / `gctr` splitting
  (`gctr_split`, `gctr_short`), the keystream blocks in the C's form (`B`, `G`, `wide_eq`, `blocks_eq`, `gctr_G`),
  the loop bodies named verbatim (`body14`, `body7`, `bodyN`, `body1`, `decTail`, `decrypt_generic_unfold` by `rfl`),
  the invariant (`InvK`, `Inv`) with one step lemma per loop (`step14` uses `GhOK.split`, the others `GhOK.agg`),
  the tail (`tail_zero`, `tail_part`: 1 ≤ left ≤ 16, including `left = 16`) and the final tag.
  Core Lean only.
-/
namespace Sodium.GcmAesniP.Dec
open Sodium Sodium.Spec Sodium.Model.GcmAesni Sodium.GcmAesniP

/-! ### `forLoop` -/

theorem forLoop_spec {σ : Type} (cond : Nat → Bool) (step : Nat) (body : Nat → σ → σ)
    (P : Nat → σ → Prop) (n : Nat) (hstep : 0 < step)
    (hc : ∀ i, cond i = true → i < n)
    (hP : ∀ i s, P i s → cond i = true → P (i + step) (body i s)) :
    ∀ (fuel i : Nat) (s : σ), n ≤ i + fuel → P i s →
      P (forLoop cond step body fuel i s).1 (forLoop cond step body fuel i s).2 ∧
      cond (forLoop cond step body fuel i s).1 = false := by
  intro fuel
  induction fuel with
  | zero =>
    intro i s hf h0
    refine ⟨h0, ?_⟩
    show cond i = false
    cases hci : cond i with
    | false => rfl
    | true => have := hc i hci; omega
  | succ fuel ih =>
    intro i s hf h0
    unfold forLoop
    cases hci : cond i with
    | false => simp only [Bool.false_eq_true, if_false]; exact ⟨h0, hci⟩
    | true =>
      simp only [if_true]
      exact ih (i + step) (body i s) (by omega) (hP i s h0 hci)

/-! ### `ghFold` -/

theorem ghFold_zero (h0 acc : BlockVec) (d : Bytes) : ghFold h0 acc d 0 = acc := rfl

theorem ghFold_succ (h0 acc : BlockVec) (d : Bytes) (n : Nat) :
    ghFold h0 acc d (n + 1) = ghB h0 (ghFold h0 acc d n) (d.drop (16 * n)) := by
  simp only [ghFold, List.range_succ, List.foldl_append, List.foldl_cons, List.foldl_nil]

theorem ghFold_one (h0 acc : BlockVec) (d : Bytes) : ghFold h0 acc d 1 = ghB h0 acc d := by
  rw [ghFold_succ, ghFold_zero, Nat.mul_zero, List.drop_zero]

theorem ghFold_add (h0 acc : BlockVec) (d : Bytes) (a b : Nat) :
    ghFold h0 acc d (a + b) = ghFold h0 (ghFold h0 acc d a) (d.drop (16 * a)) b := by
  induction b with
  | zero => rw [Nat.add_zero, ghFold_zero]
  | succ b ih =>
    rw [← Nat.add_assoc, ghFold_succ, ghFold_succ, ih, List.drop_drop]
    congr 2
    omega

theorem ghB_take (h0 acc : BlockVec) (blk : Bytes) : ghB h0 acc (blk.take 16) = ghB h0 acc blk := by
  unfold ghB
  rw [AesK.LOAD128_take]

theorem ghB_congr (h0 acc : BlockVec) (b b' : Bytes) (h : b.take 16 = b'.take 16) :
    ghB h0 acc b = ghB h0 acc b' := by
  rw [← ghB_take h0 acc b, h, ghB_take]

theorem ghFold_congr (h0 acc : BlockVec) (d d' : Bytes) (n : Nat)
    (h : ∀ j, j < n → (d.drop (16 * j)).take 16 = (d'.drop (16 * j)).take 16) :
    ghFold h0 acc d n = ghFold h0 acc d' n := by
  induction n with
  | zero => rw [ghFold_zero, ghFold_zero]
  | succ n ih =>
    rw [ghFold_succ, ghFold_succ, ih (fun j hj => h j (by omega))]
    exact ghB_congr _ _ _ _ (h n (by omega))

theorem ghFold_append (h0 acc : BlockVec) (d e : Bytes) (n : Nat) (hn : 16 * n ≤ d.length) :
    ghFold h0 acc (d ++ e) n = ghFold h0 acc d n := by
  apply ghFold_congr
  intro j hj
  rw [List.drop_append_of_le_length (by omega), List.take_append_of_le_length (by simp; omega)]

theorem and_15 (n : Nat) : n &&& 15 = n % 16 :=
  Nat.and_two_pow_sub_one_eq_mod n 4

theorem and_not15 (n : Nat) (h : n < 2 ^ 64) : n &&& (2 ^ 64 - 16) = 16 * (n / 16) := by
  have h1 : (n &&& (2 ^ 64 - 16)) / 2 ^ 4 = n / 16 := by
    rw [Nat.and_div_two_pow]
    show n / 16 &&& (2 ^ 60 - 1) = n / 16
    rw [Nat.and_two_pow_sub_one_eq_mod]
    exact Nat.mod_eq_of_lt (by omega)
  have h2 : (n &&& (2 ^ 64 - 16)) % 2 ^ 4 = 0 := by
    rw [Nat.and_mod_two_pow]
    show n % 2 ^ 4 &&& 0 = 0
    exact Nat.and_zero _
  omega

theorem pad16_length (n : Nat) : (Gcm.pad16 n).length = (16 - n % 16) % 16 := by
  simp [Gcm.pad16, zeros]

/-- the two `gh_ad_blocks` calls (whole blocks, then the zero-padded remainder) absorb `d ‖ 0^pad` -/
theorem absorb_blocks (st : State) (h0 : BlockVec) (hg : GhOK st h0) (acc : BlockVec) (d : Bytes)
    (hd : d.length < 2 ^ 64) :
    (let a := gh_ad_blocks st acc d (d.length &&& (2 ^ 64 - 16))
     let left := d.length &&& 15
     if left != 0 then gh_ad_blocks st a ((d.drop (d.length - left)).take left ++ zeros (16 - left)) 16 else a)
      = ghFold h0 acc (d ++ Gcm.pad16 d.length) ((d.length + 15) / 16) := by
  simp only [and_15, and_not15 _ hd]
  have ha := hg.ad_blocks acc d (16 * (d.length / 16)) (by omega)
  rw [Nat.mul_div_cancel_left _ (by decide : 0 < 16)] at ha
  rw [ha]
  by_cases hl : d.length % 16 = 0
  · simp only [hl, bne_self_eq_false, Bool.false_eq_true, if_false]
    rw [show (d.length + 15) / 16 = d.length / 16 from by omega, ghFold_append _ _ _ _ _ (by omega)]
  · have hb : (d.length % 16 != 0) = true := by simpa using hl
    simp only [hb, if_true]
    rw [hg.ad_blocks _ _ _ (by decide), show (16 : Nat) / 16 = 1 from rfl, ghFold_one,
      show (d.length + 15) / 16 = d.length / 16 + 1 from by omega, ghFold_succ,
      ghFold_append _ _ _ _ _ (by omega)]
    apply ghB_congr
    have e1 : d.length - d.length % 16 = 16 * (d.length / 16) := by omega
    have e2 : (d.drop (16 * (d.length / 16))).length = d.length % 16 := by simp; omega
    rw [e1, List.drop_append_of_le_length (by omega), ← e2, List.take_length, e2]
    congr 2
    simp only [Gcm.pad16]
    congr 1
    omega

theorem absorb_ad_eq (st : State) (h0 : BlockVec) (hg : GhOK st h0) (acc : BlockVec) (ad : Bytes)
    (hd : ad.length < 2 ^ 64) :
    absorb_ad st acc ad = ghFold h0 acc (ad ++ Gcm.pad16 ad.length) ((ad.length + 15) / 16) := by
  by_cases h : ad.length = 0
  · unfold absorb_ad
    simp only [h, bne_self_eq_false, Bool.false_eq_true, if_false]
    exact (ghFold_zero _ _ _).symm
  · rw [← absorb_blocks st h0 hg acc ad hd]
    unfold absorb_ad
    have hb : (ad.length != 0) = true := by simpa using h
    simp only [hb, if_true]

/-! ### `chunks`, `gctr` -/

theorem chunksAux_fuel (n : Nat) (hn : 0 < n) : ∀ (f1 f2 : Nat) (l : Bytes), l.length ≤ f1 → l.length ≤ f2 →
    Aes.chunksAux n f1 l = Aes.chunksAux n f2 l := by
  intro f1
  induction f1 with
  | zero =>
    intro f2 l h1 _
    have : l = [] := List.eq_nil_of_length_eq_zero (by omega)
    subst this
    cases f2 <;> simp [Aes.chunksAux]
  | succ f1 ih =>
    intro f2 l h1 h2
    cases l with
    | nil => cases f2 <;> simp [Aes.chunksAux]
    | cons x xs =>
      cases f2 with
      | zero => simp at h2
      | succ f2 =>
        simp only [Aes.chunksAux, List.isEmpty_cons, Bool.false_eq_true, if_false]
        rw [ih f2 _ (by simp at h1 ⊢; omega) (by simp at h2 ⊢; omega)]

theorem chunks_nil (n : Nat) : Aes.chunks n [] = [] := rfl

theorem chunks_cons (n : Nat) (hn : 0 < n) (l : Bytes) (hl : l ≠ []) :
    Aes.chunks n l = l.take n :: Aes.chunks n (l.drop n) := by
  cases l with
  | nil => exact absurd rfl hl
  | cons x xs =>
    unfold Aes.chunks
    simp only [List.length_cons, Aes.chunksAux, List.isEmpty_cons, Bool.false_eq_true, if_false]
    rw [chunksAux_fuel n hn xs.length _ _ (by simp; omega) (Nat.le_refl _)]

theorem gctr_nil (ciph : Bytes → Bytes) (icb : Bytes) : Gcm.gctr ciph icb [] = [] := rfl

theorem gctr_cons (ciph : Bytes → Bytes) (npub : Bytes) (hn : npub.length = 12) (c : Nat) (x : Bytes) (hx : x ≠ []) :
    Gcm.gctr ciph (Ctr.ctrBlock npub c) x
      = xorBytes (x.take 16) (ciph (Ctr.ctrBlock npub c)) ++ Gcm.gctr ciph (Ctr.ctrBlock npub (c + 1)) (x.drop 16) := by
  unfold Gcm.gctr
  rw [chunks_cons 16 (by decide) x hx, Gcm.gctrBlocks, Ctr.inc32_ctrBlock_gen npub hn, List.flatten_cons]

theorem gctr_split (ciph : Bytes → Bytes) (npub : Bytes) (hn : npub.length = 12) :
    ∀ (k c : Nat) (x : Bytes), 16 * k ≤ x.length →
      Gcm.gctr ciph (Ctr.ctrBlock npub c) x
        = ((List.range k).map fun j => xorBytes ((x.drop (16 * j)).take 16) (ciph (Ctr.ctrBlock npub (c + j)))).flatten
          ++ Gcm.gctr ciph (Ctr.ctrBlock npub (c + k)) (x.drop (16 * k)) := by
  intro k
  induction k with
  | zero => intro c x _; simp
  | succ k ih =>
    intro c x hx
    have hne : x ≠ [] := by intro h; subst h; simp at hx
    rw [gctr_cons ciph npub hn c x hne, ih (c + 1) (x.drop 16) (by simp; omega), List.range_succ_eq_map,
      List.map_cons, List.flatten_cons, List.map_map, List.append_assoc]
    have e1 : ∀ j, 16 + 16 * j = 16 * (j + 1) := fun j => by omega
    have e2 : ∀ j, c + 1 + j = c + (j + 1) := fun j => by omega
    simp only [List.drop_drop, e1, e2, Function.comp_def, Nat.succ_eq_add_one, Nat.mul_zero, List.drop_zero,
      Nat.add_zero]

theorem gctr_short (ciph : Bytes → Bytes) (npub : Bytes) (hn : npub.length = 12) (c : Nat) (x : Bytes)
    (h0 : x ≠ []) (h16 : x.length ≤ 16) :
    Gcm.gctr ciph (Ctr.ctrBlock npub c) x = xorBytes x (ciph (Ctr.ctrBlock npub c)) := by
  rw [gctr_cons ciph npub hn c x h0, List.drop_eq_nil_of_le h16, gctr_nil, List.append_nil,
    List.take_of_length_le h16]

/-! ### `xorBytes` -/

theorem xorBytes_comm : ∀ a b : Bytes, xorBytes a b = xorBytes b a
  | [], [] => rfl
  | [], _ :: _ => rfl
  | _ :: _, [] => rfl
  | x :: xs, y :: ys => by simp only [xorBytes, xorBytes_comm xs ys, UInt8.xor_comm]

theorem xorBytes_take_pad : ∀ (a x z : Bytes), (xorBytes a (x ++ z)).take x.length = xorBytes x a
  | a, [], z => by cases a <;> simp [xorBytes]
  | [], y :: ys, z => by simp [xorBytes]
  | b :: bs, y :: ys, z => by
    simp only [List.cons_append, xorBytes, List.length_cons, List.take_succ_cons, xorBytes_take_pad bs ys z,
      UInt8.xor_comm]

/-! ### the loop bodies and the tail of `aes_gcm_decrypt_generic`, named (verbatim copies) -/

def body14 (st : State) (src : Bytes) (i : Nat) (s : Loop) : Loop :=
  let PB := PARALLEL_BLOCKS
  let (rev_counters, counter) := incr_counters s.counter PB
  let u := gh_update0 s.acc (src.drop i) (st.hx.getD (2 * PB - 1 - 0) 0)
  let u := (List.range' 1 (PB - 1)).foldl
    (fun u j => gh_update u (src.drop (i + j * 16)) (st.hx.getD (2 * PB - 1 - j) 0)) u
  let dst := s.dst ++ encrypt_xor_wide st (src.drop i) rev_counters
  let (rev_counters, counter) := incr_counters counter PB
  let i := i + PB * 16
  let u := (List.range PB).foldl
    (fun u j => gh_update u (src.drop (i + j * 16)) (st.hx.getD (PB - 1 - j) 0)) u
  let acc := gcm_reduce u
  let dst := dst ++ encrypt_xor_wide st (src.drop i) rev_counters
  { dst := dst, acc := acc, counter := counter }

def body7 (st : State) (src : Bytes) (i : Nat) (s : Loop) : Loop :=
  let PB := PARALLEL_BLOCKS
  let (rev_counters, counter) := incr_counters s.counter PB
  let acc := gh_agg st s.acc (src.drop i) PB
  { dst := s.dst ++ encrypt_xor_wide st (src.drop i) rev_counters, acc := acc, counter := counter }

def bodyN (n : Nat) (st : State) (src : Bytes) (i : Nat) (s : Loop) : Loop :=
  let (rev_counters, counter) := incr_counters s.counter n
  let acc := gh_agg st s.acc (src.drop i) n
  let dst := (List.range n).foldl (fun dst j =>
    dst ++ encrypt_xor_block st (src.drop (i + j * 16)) (rev_counters.getD j 0)) s.dst
  { dst := dst, acc := acc, counter := counter }

def body1 (st : State) (src : Bytes) (i : Nat) (s : Loop) : Loop :=
  let acc := gh_agg st s.acc (src.drop i) 1
  let dst := s.dst ++ encrypt_xor_block st (src.drop i) (REV128 s.counter)
  { dst := dst, acc := acc, counter := ADD64x2 s.counter ONE128 }

def decTail (st : State) (src ad counter_ : Bytes) (r : Nat × Loop) : Bytes × Bytes :=
  let fb := final_block ad.length src.length
  let mac := encrypt st (counter_.take NPUBBYTES ++ STORE32_BE 1)
  let left := src.length - r.1
  let last_blocks := (src.drop r.1).take left ++ zeros (16 - left) ++ STORE128 fb
  let dst := if left != 0 then
      r.2.dst ++ (encrypt_xor_block st last_blocks (REV128 r.2.counter) ++ last_blocks.drop 16).take left
    else r.2.dst
  let acc := if left != 0 then gh_ad_blocks st r.2.acc last_blocks 32 else gh_ad_blocks st r.2.acc (STORE128 fb) 16
  (dst, STORE128 (XOR128 (LOAD128 mac) (REV128 acc)))

theorem decTail_eq (st : State) (src ad counter_ : Bytes) (r : Nat × Loop) :
    decTail st src ad counter_ r =
    (let src_len := src.length
  let ad_len := ad.length
  let (i, s) := r
  let fb := final_block ad_len src_len
  let counter_ := counter_.take NPUBBYTES ++ STORE32_BE 1
  let mac := encrypt st counter_
  let left := src_len - i
  let (dst, acc) :=
    if left != 0 then
      let last_blocks := (src.drop i).take left ++ zeros (16 - left) ++ STORE128 fb
      let acc := gh_ad_blocks st s.acc last_blocks 32
      let last_blocks := encrypt_xor_block st last_blocks (REV128 s.counter) ++ last_blocks.drop 16
      (s.dst ++ last_blocks.take left, acc)
    else
      (s.dst, gh_ad_blocks st s.acc (STORE128 fb) 16)
  (dst, STORE128 (XOR128 (LOAD128 mac) (REV128 acc)))) := by
  obtain ⟨i, s⟩ := r
  unfold decTail
  simp only []
  split <;> rfl

theorem decrypt_generic_unfold (st : State) (acc0 : BlockVec) (src ad counter_ : Bytes) :
    aes_gcm_decrypt_generic st acc0 src ad counter_
      = (let fuel := src.length + 1
         let s : Loop := { dst := [], acc := absorb_ad st acc0 ad, counter := REV128 (LOAD128 counter_) }
         let (i, s) := forLoop (fun i => i + 2 * PARALLEL_BLOCKS * 16 ≤ src.length) (2 * PARALLEL_BLOCKS * 16) (body14 st src) fuel 0 s
         let (i, s) := forLoop (fun i => i + PARALLEL_BLOCKS * 16 ≤ src.length) (PARALLEL_BLOCKS * 16) (body7 st src) fuel i s
         let (i, s) := forLoop (fun i => i + 4 * 16 ≤ src.length) (4 * 16) (bodyN 4 st src) fuel i s
         let (i, s) := forLoop (fun i => i + 2 * 16 ≤ src.length) (2 * 16) (bodyN 2 st src) fuel i s
         let (i, s) := forLoop (fun i => i + 16 < src.length) 16 (body1 st src) fuel i s
         decTail st src ad counter_ (i, s)) := by
  simp only [decTail_eq]
  rfl

/-! ### the keystream blocks in the C's form -/

/-- output block `j` as the C computes it -/
def B (st : State) (npub src : Bytes) (j : Nat) : Bytes :=
  encrypt_xor_block st (src.drop (16 * j)) (LOAD128 (Ctr.ctrBlock npub (2 + j)))

/-- the first `k` output blocks -/
def G (st : State) (npub src : Bytes) (k : Nat) : Bytes := ((List.range k).map (B st npub src)).flatten

theorem G_zero (st : State) (npub src : Bytes) : G st npub src 0 = [] := rfl

theorem G_add (st : State) (npub src : Bytes) (k n : Nat) :
    G st npub src (k + n) = G st npub src k ++ ((List.range n).map fun j => B st npub src (k + j)).flatten := by
  unfold G
  rw [List.range_add, List.map_append, List.flatten_append, List.map_map]
  rfl

theorem G_succ (st : State) (npub src : Bytes) (k : Nat) :
    G st npub src (k + 1) = G st npub src k ++ B st npub src k := by
  rw [G_add]; simp

theorem B_eq (st : State) (hk : st.rkeys.length = 15) (npub : Bytes) (hn : npub.length = 12) (src : Bytes)
    (j : Nat) (h : 16 * (j + 1) ≤ src.length) :
    B st npub src j
      = xorBytes ((src.drop (16 * j)).take 16) (Aes.cipher (st.rkeys.map STORE128) (Ctr.ctrBlock npub (2 + j))) := by
  unfold B
  rw [AesK.encrypt_xor_block_eq st hk _ (by simp; omega), AesK.STORE128_LOAD128 _ (Ctr.ctrBlock_length npub hn _),
    xorBytes_comm]

theorem gctr_G (st : State) (hk : st.rkeys.length = 15) (npub : Bytes) (hn : npub.length = 12) (src : Bytes)
    (k : Nat) (h : 16 * k ≤ src.length) :
    Gcm.gctr (Aes.cipher (st.rkeys.map STORE128)) (Ctr.ctrBlock npub 2) src
      = G st npub src k ++ Gcm.gctr (Aes.cipher (st.rkeys.map STORE128)) (Ctr.ctrBlock npub (2 + k)) (src.drop (16 * k)) := by
  rw [gctr_split _ npub hn k 2 src h]
  congr 1
  unfold G
  apply congrArg List.flatten
  apply List.map_congr_left
  intro j hj
  rw [B_eq st hk npub hn src j (by have := List.mem_range.mp hj; omega)]

theorem batch_block (st : State) (npub : Bytes) (hn : npub.length = 12) (src : Bytes) (counter : BlockVec) (k n : Nat)
    (hc : counter.toNat = be npub * 2 ^ 32 + (2 + k)) (hb : 2 + k + n ≤ 2 ^ 32) (j : Nat) (hj : j < n) :
    encrypt_xor_block st (src.drop (16 * (k + j))) ((incr_counters counter n).1.getD j 0) = B st npub src (k + j) := by
  rw [Ctr.incr_counters_getD npub hn counter (2 + k) n hc hb j hj, Nat.add_assoc]
  rfl

theorem wide_eq (st : State) (hk : st.rkeys.length = 15) (npub : Bytes) (hn : npub.length = 12) (src : Bytes)
    (counter : BlockVec) (k : Nat) (hc : counter.toNat = be npub * 2 ^ 32 + (2 + k)) (hb : 2 + k + 7 ≤ 2 ^ 32)
    (hs : 16 * (k + 7) ≤ src.length) :
    encrypt_xor_wide st (src.drop (16 * k)) (incr_counters counter 7).1
      = ((List.range 7).map fun j => B st npub src (k + j)).flatten := by
  rw [AesK.encrypt_xor_wide_eq st hk _ (by simp; omega) _ (Ctr.incr_counters_length _ _)]
  apply congrArg List.flatten
  apply List.map_congr_left
  intro j hj
  have hj' := List.mem_range.mp hj
  rw [List.drop_drop, ← Nat.mul_add, batch_block st npub hn src counter k 7 hc hb j hj']

theorem foldl_append_range (f : Nat → Bytes) (n : Nat) (d : Bytes) :
    (List.range n).foldl (fun dst j => dst ++ f j) d = d ++ ((List.range n).map f).flatten := by
  induction n with
  | zero => simp
  | succ n ih => simp [List.range_succ, List.foldl_append, ih]

theorem blocks_eq (st : State) (npub : Bytes) (hn : npub.length = 12) (src : Bytes)
    (counter : BlockVec) (k n : Nat) (hc : counter.toNat = be npub * 2 ^ 32 + (2 + k)) (hb : 2 + k + n ≤ 2 ^ 32)
    (d : Bytes) :
    (List.range n).foldl (fun dst j =>
        dst ++ encrypt_xor_block st (src.drop (16 * k + j * 16)) ((incr_counters counter n).1.getD j 0)) d
      = d ++ ((List.range n).map fun j => B st npub src (k + j)).flatten := by
  rw [foldl_append_range]
  refine congrArg (fun x => d ++ List.flatten x) (List.map_congr_left ?_)
  intro j hj
  have hj' := List.mem_range.mp hj
  rw [show 16 * k + j * 16 = 16 * (k + j) from by omega, batch_block st npub hn src counter k n hc hb j hj']

theorem G_length (st : State) (npub src : Bytes) (k : Nat) : (G st npub src k).length = 16 * k := by
  induction k with
  | zero => rfl
  | succ k ih =>
    rw [G_succ, List.length_append, ih]
    show _ + (STORE128 _).length = _
    rw [AesK.STORE128_length]; omega

/-! ### projection forms of the loop bodies -/

theorem body7_eq (st : State) (src : Bytes) (i : Nat) (s : Loop) :
    body7 st src i s =
      { dst := s.dst ++ encrypt_xor_wide st (src.drop i) (incr_counters s.counter PARALLEL_BLOCKS).1,
        acc := gh_agg st s.acc (src.drop i) PARALLEL_BLOCKS,
        counter := (incr_counters s.counter PARALLEL_BLOCKS).2 } := by
  unfold body7
  dsimp only

theorem bodyN_eq (n : Nat) (st : State) (src : Bytes) (i : Nat) (s : Loop) :
    bodyN n st src i s =
      { dst := (List.range n).foldl (fun dst j =>
          dst ++ encrypt_xor_block st (src.drop (i + j * 16)) ((incr_counters s.counter n).1.getD j 0)) s.dst,
        acc := gh_agg st s.acc (src.drop i) n,
        counter := (incr_counters s.counter n).2 } := by
  unfold bodyN
  dsimp only

theorem body14_eq (st : State) (src : Bytes) (i : Nat) (s : Loop) :
    body14 st src i s =
      { dst := s.dst ++ encrypt_xor_wide st (src.drop i) (incr_counters s.counter PARALLEL_BLOCKS).1
          ++ encrypt_xor_wide st (src.drop (i + PARALLEL_BLOCKS * 16))
              (incr_counters (incr_counters s.counter PARALLEL_BLOCKS).2 PARALLEL_BLOCKS).1,
        acc := gcm_reduce ((List.range PARALLEL_BLOCKS).foldl
          (fun u j => gh_update u ((src.drop (i + PARALLEL_BLOCKS * 16)).drop (j * 16)) (st.hx.getD (PARALLEL_BLOCKS - 1 - j) 0))
          ((List.range' 1 (PARALLEL_BLOCKS - 1)).foldl
            (fun u j => gh_update u ((src.drop i).drop (j * 16)) (st.hx.getD (2 * PARALLEL_BLOCKS - 1 - j) 0))
            (gh_update0 s.acc (src.drop i) (st.hx.getD (2 * PARALLEL_BLOCKS - 1 - 0) 0)))),
        counter := (incr_counters (incr_counters s.counter PARALLEL_BLOCKS).2 PARALLEL_BLOCKS).2 } := by
  unfold body14
  simp only [List.drop_drop]

/-! ### the loop invariant -/

/-- after `k` whole blocks: the output so far, the counter register and the GHASH accumulator -/
structure InvK (st : State) (h0 : BlockVec) (npub src : Bytes) (accAD : BlockVec) (k : Nat) (s : Loop) : Prop where
  le : 16 * k ≤ src.length
  dst : s.dst = G st npub src k
  ctr : s.counter.toNat = be npub * 2 ^ 32 + (2 + k)
  acc : s.acc = ghFold h0 accAD src k

def Inv (st : State) (h0 : BlockVec) (npub src : Bytes) (accAD : BlockVec) (i : Nat) (s : Loop) : Prop :=
  ∃ k, i = 16 * k ∧ InvK st h0 npub src accAD k s

theorem invK_step {st : State} {h0 : BlockVec} {npub src : Bytes} {accAD : BlockVec} {k : Nat} {s : Loop}
    (h : InvK st h0 npub src accAD k s) (n : Nat) (s' : Loop) (hs : 16 * (k + n) ≤ src.length)
    (hdst : s'.dst = s.dst ++ ((List.range n).map fun j => B st npub src (k + j)).flatten)
    (hctr : s'.counter.toNat = be npub * 2 ^ 32 + (2 + k + n))
    (hacc : s'.acc = ghFold h0 s.acc (src.drop (16 * k)) n) :
    InvK st h0 npub src accAD (k + n) s' := by
  refine ⟨hs, ?_, ?_, ?_⟩
  · rw [hdst, h.dst, G_add]
  · rw [hctr, Nat.add_assoc]
  · rw [hacc, h.acc, ghFold_add]

section
variable (st : State) (h0 : BlockVec) (hg : GhOK st h0) (hk : st.rkeys.length = 15)
  (npub : Bytes) (hn : npub.length = 12) (src : Bytes) (hlen : (src.length + 15) / 16 + 2 < 2 ^ 32)
  (accAD : BlockVec)
include hg hk hn hlen

theorem step7 (i : Nat) (s : Loop) (h : Inv st h0 npub src accAD i s) (hc : i + 112 ≤ src.length) :
    Inv st h0 npub src accAD (i + 112) (body7 st src i s) := by
  obtain ⟨k, rfl, h⟩ := h
  refine ⟨k + 7, by omega, ?_⟩
  rw [body7_eq]
  have hic := Ctr.incr_counters_spec npub hn s.counter (2 + k) 7 h.ctr (by omega)
  refine invK_step h 7 _ (by omega) ?_ hic.2 (hg.agg _ _ 7 (by decide) (by decide))
  show s.dst ++ encrypt_xor_wide st (src.drop (16 * k)) (incr_counters s.counter 7).1 = _
  rw [wide_eq st hk npub hn src s.counter k h.ctr (by omega) (by omega)]

omit hk in
theorem stepN (n : Nat) (hn1 : 1 ≤ n) (hn14 : n ≤ 14) (i : Nat) (s : Loop) (h : Inv st h0 npub src accAD i s)
    (hc : i + 16 * n ≤ src.length) :
    Inv st h0 npub src accAD (i + 16 * n) (bodyN n st src i s) := by
  obtain ⟨k, rfl, h⟩ := h
  refine ⟨k + n, by omega, ?_⟩
  rw [bodyN_eq]
  have hic := Ctr.incr_counters_spec npub hn s.counter (2 + k) n h.ctr (by omega)
  refine invK_step h n _ (by omega) ?_ hic.2 (hg.agg _ _ n hn1 hn14)
  exact blocks_eq st npub hn src s.counter k n h.ctr (by omega) s.dst

omit hk in
theorem step1 (i : Nat) (s : Loop) (h : Inv st h0 npub src accAD i s) (hc : i + 16 < src.length) :
    Inv st h0 npub src accAD (i + 16) (body1 st src i s) := by
  obtain ⟨k, rfl, h⟩ := h
  refine ⟨k + 1, by omega, ?_⟩
  have hcs := Ctr.counter_step_spec npub hn s.counter (2 + k) h.ctr (by omega)
  refine invK_step h 1 _ (by omega) ?_ hcs.2 (hg.agg _ _ 1 (by decide) (by decide))
  show s.dst ++ encrypt_xor_block st (src.drop (16 * k)) (REV128 s.counter) = _
  rw [Ctr.REV128_counter npub hn s.counter (2 + k) h.ctr (by omega)]
  simp [B]

theorem step14 (i : Nat) (s : Loop) (h : Inv st h0 npub src accAD i s) (hc : i + 224 ≤ src.length) :
    Inv st h0 npub src accAD (i + 224) (body14 st src i s) := by
  obtain ⟨k, rfl, h⟩ := h
  refine ⟨k + 7 + 7, by omega, ?_⟩
  rw [body14_eq]
  have hic1 := Ctr.incr_counters_spec npub hn s.counter (2 + k) 7 h.ctr (by omega)
  have h1 : InvK st h0 npub src accAD (k + 7)
      { dst := s.dst ++ encrypt_xor_wide st (src.drop (16 * k)) (incr_counters s.counter 7).1,
        acc := ghFold h0 s.acc (src.drop (16 * k)) 7, counter := (incr_counters s.counter 7).2 } := by
    refine invK_step h 7 _ (by omega) ?_ hic1.2 rfl
    show s.dst ++ encrypt_xor_wide st (src.drop (16 * k)) (incr_counters s.counter 7).1 = _
    rw [wide_eq st hk npub hn src s.counter k h.ctr (by omega) (by omega)]
  have hic2 := Ctr.incr_counters_spec npub hn (incr_counters s.counter 7).2 (2 + (k + 7)) 7 h1.ctr (by omega)
  refine invK_step h1 7 _ (by omega) ?_ hic2.2 ?_
  · show s.dst ++ encrypt_xor_wide st (src.drop (16 * k)) (incr_counters s.counter 7).1
      ++ encrypt_xor_wide st (src.drop (16 * k + 7 * 16)) (incr_counters (incr_counters s.counter 7).2 7).1 = _
    rw [show 16 * k + 7 * 16 = 16 * (k + 7) from by omega,
      wide_eq st hk npub hn src _ (k + 7) h1.ctr (by omega) (by omega)]
  · show gcm_reduce _ = ghFold h0 (ghFold h0 s.acc (src.drop (16 * k)) 7) (src.drop (16 * (k + 7))) 7
    rw [show 16 * (k + 7) = 16 * k + PARALLEL_BLOCKS * 16 from by simp only [PARALLEL_BLOCKS]; omega]
    exact hg.split s.acc (src.drop (16 * k)) (src.drop (16 * k + PARALLEL_BLOCKS * 16))

end

/-! ### the tail -/

theorem zeros_length (n : Nat) : (zeros n).length = n := by simp [zeros]

section
variable (st : State) (h0 : BlockVec) (hg : GhOK st h0) (hk : st.rkeys.length = 15)
  (npub : Bytes) (hn : npub.length = 12) (src : Bytes) (hlen : (src.length + 15) / 16 + 2 < 2 ^ 32)
  (accAD : BlockVec)
include hg hk hn hlen

omit hlen in
/-- no partial block left -/
theorem tail_zero (k : Nat) (s : Loop) (h : InvK st h0 npub src accAD k s) (hx : src.length = 16 * k) (fb : BlockVec) :
    s.dst = Gcm.gctr (Aes.cipher (st.rkeys.map STORE128)) (Ctr.ctrBlock npub 2) src ∧
    gh_ad_blocks st s.acc (STORE128 fb) 16
      = ghB h0 (ghFold h0 accAD (src ++ Gcm.pad16 src.length) ((src.length + 15) / 16)) (STORE128 fb) := by
  constructor
  · rw [gctr_G st hk npub hn src k h.le, List.drop_eq_nil_of_le (by omega), gctr_nil, List.append_nil, h.dst]
  · rw [hg.ad_blocks _ _ 16 (by decide), show (16 : Nat) / 16 = 1 from rfl, ghFold_one, h.acc,
      show (src.length + 15) / 16 = k from by omega, ghFold_append _ _ _ _ _ h.le]

/-- a last block of `left` bytes, `1 ≤ left ≤ 16` -/
theorem tail_part (k : Nat) (s : Loop) (h : InvK st h0 npub src accAD k s) (left : Nat)
    (hx : src.length = 16 * k + left) (h1 : 1 ≤ left) (h16 : left ≤ 16) (fb : BlockVec) :
    let last_blocks := (src.drop (16 * k)).take left ++ zeros (16 - left) ++ STORE128 fb
    s.dst ++ (encrypt_xor_block st last_blocks (REV128 s.counter) ++ last_blocks.drop 16).take left
      = Gcm.gctr (Aes.cipher (st.rkeys.map STORE128)) (Ctr.ctrBlock npub 2) src ∧
    gh_ad_blocks st s.acc last_blocks 32
      = ghB h0 (ghFold h0 accAD (src ++ Gcm.pad16 src.length) ((src.length + 15) / 16)) (STORE128 fb) := by
  intro last_blocks
  have hxl : (src.drop (16 * k)).length = left := by simp; omega
  have hx0 : src.drop (16 * k) ≠ [] := by intro h0; rw [h0] at hxl; simp at hxl; omega
  have htk : (src.drop (16 * k)).take left = src.drop (16 * k) := List.take_of_length_le (by omega)
  have hpl : ((src.drop (16 * k)).take left ++ zeros (16 - left)).length = 16 := by
    rw [List.length_append, htk, hxl, zeros_length]; omega
  have hlb16 : last_blocks.take 16 = src.drop (16 * k) ++ zeros (16 - left) := by
    show ((src.drop (16 * k)).take left ++ zeros (16 - left) ++ STORE128 fb).take 16 = _
    rw [List.take_left' hpl, htk]
  have hlbd : last_blocks.drop 16 = STORE128 fb := List.drop_left' hpl
  have hlbl : 16 ≤ last_blocks.length := by
    show 16 ≤ ((src.drop (16 * k)).take left ++ zeros (16 - left) ++ STORE128 fb).length
    rw [List.length_append, hpl]; omega
  constructor
  · rw [gctr_G st hk npub hn src k h.le, gctr_short _ npub hn _ _ hx0 (by omega), h.dst]
    refine congrArg (fun x => G st npub src k ++ x) ?_
    rw [List.take_append_of_le_length (by show left ≤ (STORE128 _).length; rw [AesK.STORE128_length]; exact h16),
      AesK.encrypt_xor_block_eq st hk _ hlbl, Ctr.counter_block_spec npub hn s.counter (2 + k) h.ctr (by omega),
      hlb16]
    have := xorBytes_take_pad (Aes.cipher (st.rkeys.map STORE128) (Ctr.ctrBlock npub (2 + k)))
      (src.drop (16 * k)) (zeros (16 - left))
    rw [hxl] at this
    exact this
  · have hb : ghB h0 s.acc last_blocks = ghB h0 s.acc ((src ++ Gcm.pad16 src.length).drop (16 * k)) := by
      apply ghB_congr
      rw [hlb16, List.drop_append_of_le_length h.le]
      have hp : Gcm.pad16 src.length = zeros (16 - left) := by
        unfold Gcm.pad16; congr 1; omega
      rw [hp, List.take_of_length_le (by rw [List.length_append, hxl, zeros_length]; omega)]
    rw [hg.ad_blocks _ _ 32 (by decide), show (32 : Nat) / 16 = 1 + 1 from rfl, ghFold_succ, ghFold_succ, ghFold_zero,
      Nat.mul_zero, List.drop_zero, Nat.mul_one, hlbd, show (src.length + 15) / 16 = k + 1 from by omega,
      ghFold_succ, ghFold_append _ _ _ _ _ h.le, ← h.acc, hb]

end

/-! ### the main theorems -/

theorem decTail_spec (st : State) (h0 : BlockVec) (hg : GhOK st h0) (hk : st.rkeys.length = 15)
    (npub : Bytes) (hn : npub.length = 12) (src ad : Bytes) (hlen : (src.length + 15) / 16 + 2 < 2 ^ 32)
    (accAD : BlockVec) (i : Nat) (s : Loop) (h : Inv st h0 npub src accAD i s) (hx : src.length ≤ i + 16) :
    decTail st src ad (npub.take NPUBBYTES ++ STORE32_BE 2) (i, s)
      = (Gcm.gctr (Aes.cipher (st.rkeys.map STORE128)) (Ctr.ctrBlock npub 2) src,
         STORE128 (XOR128 (LOAD128 (Aes.cipher (st.rkeys.map STORE128) (npub ++ [0, 0, 0, 1])))
           (REV128 (ghB h0 (ghFold h0 accAD (src ++ Gcm.pad16 src.length) ((src.length + 15) / 16))
             (STORE128 (final_block ad.length src.length)))))) := by
  obtain ⟨k, rfl, h⟩ := h
  unfold decTail
  dsimp only
  rw [Ctr.j0_block npub hn 2, AesK.encrypt_eq st hk _ (by simp [hn])]
  by_cases hl : src.length - 16 * k = 0
  · obtain ⟨e1, e2⟩ := tail_zero st h0 hg hk npub hn src accAD k s h (by have := h.le; omega)
      (final_block ad.length src.length)
    simp only [hl, bne_self_eq_false, Bool.false_eq_true, if_false]
    rw [e1, e2]
  · have hb : (src.length - 16 * k != 0) = true := by simpa using hl
    obtain ⟨e1, e2⟩ := tail_part st h0 hg hk npub hn src hlen accAD k s h (src.length - 16 * k)
      (by have := h.le; omega) (by omega) (by omega) (final_block ad.length src.length)
    simp only [hb, if_true]
    rw [e1, e2]

theorem decrypt_generic_spec (st : State) (h0 : BlockVec) (hg : GhOK st h0) (hk : st.rkeys.length = 15)
    (npub : Bytes) (hn : npub.length = 12) (src ad : Bytes) (hlen : (src.length + 15) / 16 + 2 < 2 ^ 32)
    (hal : ad.length < 2 ^ 64) (acc0 : BlockVec) :
    let E := Aes.cipher (st.rkeys.map STORE128)
    let accAD := ghFold h0 acc0 (ad ++ Gcm.pad16 ad.length) ((ad.length + 15) / 16)
    let accCT := ghFold h0 accAD (src ++ Gcm.pad16 src.length) ((src.length + 15) / 16)
    let accF := ghB h0 accCT (STORE128 (final_block ad.length src.length))
    aes_gcm_decrypt_generic st acc0 src ad (npub.take NPUBBYTES ++ STORE32_BE 2)
      = (Gcm.gctr E (Ctr.ctrBlock npub 2) src, STORE128 (XOR128 (LOAD128 (E (npub ++ [0, 0, 0, 1]))) (REV128 accF))) := by
  intro E accAD accCT accF
  rw [decrypt_generic_unfold]
  dsimp only
  rw [absorb_ad_eq st h0 hg acc0 ad hal]
  have hI0 : Inv st h0 npub src accAD 0
      { dst := [], acc := accAD, counter := REV128 (LOAD128 (npub.take NPUBBYTES ++ STORE32_BE 2)) } :=
    ⟨0, rfl, ⟨Nat.zero_le _, rfl, Ctr.counter_init npub hn, rfl⟩⟩
  -- 2 * PARALLEL_BLOCKS
  obtain ⟨hI1, -⟩ := forLoop_spec (fun i => decide (i + 2 * PARALLEL_BLOCKS * 16 ≤ src.length)) (2 * PARALLEL_BLOCKS * 16)
    (body14 st src) (Inv st h0 npub src accAD) src.length (by decide)
    (fun i hi => by have : i + 224 ≤ src.length := of_decide_eq_true hi; omega)
    (fun i s hP hi => step14 st h0 hg hk npub hn src hlen accAD i s hP (of_decide_eq_true hi))
    (src.length + 1) 0 _ (by omega) hI0
  generalize forLoop (fun i => decide (i + 2 * PARALLEL_BLOCKS * 16 ≤ src.length)) (2 * PARALLEL_BLOCKS * 16)
    (body14 st src) (src.length + 1) 0 _ = r1 at hI1 ⊢
  obtain ⟨i1, s1⟩ := r1
  dsimp only at hI1 ⊢
  -- PARALLEL_BLOCKS
  obtain ⟨hI2, -⟩ := forLoop_spec (fun i => decide (i + PARALLEL_BLOCKS * 16 ≤ src.length)) (PARALLEL_BLOCKS * 16)
    (body7 st src) (Inv st h0 npub src accAD) src.length (by decide)
    (fun i hi => by have : i + 112 ≤ src.length := of_decide_eq_true hi; omega)
    (fun i s hP hi => step7 st h0 hg hk npub hn src hlen accAD i s hP (of_decide_eq_true hi))
    (src.length + 1) i1 s1 (by omega) hI1
  generalize forLoop (fun i => decide (i + PARALLEL_BLOCKS * 16 ≤ src.length)) (PARALLEL_BLOCKS * 16)
    (body7 st src) (src.length + 1) i1 s1 = r2 at hI2 ⊢
  obtain ⟨i2, s2⟩ := r2
  dsimp only at hI2 ⊢
  -- 4 blocks
  obtain ⟨hI3, -⟩ := forLoop_spec (fun i => decide (i + 4 * 16 ≤ src.length)) (4 * 16)
    (bodyN 4 st src) (Inv st h0 npub src accAD) src.length (by decide)
    (fun i hi => by have : i + 64 ≤ src.length := of_decide_eq_true hi; omega)
    (fun i s hP hi => stepN st h0 hg npub hn src hlen accAD 4 (by decide) (by decide) i s hP (of_decide_eq_true hi))
    (src.length + 1) i2 s2 (by omega) hI2
  generalize forLoop (fun i => decide (i + 4 * 16 ≤ src.length)) (4 * 16)
    (bodyN 4 st src) (src.length + 1) i2 s2 = r3 at hI3 ⊢
  obtain ⟨i3, s3⟩ := r3
  dsimp only at hI3 ⊢
  -- 2 blocks
  obtain ⟨hI4, -⟩ := forLoop_spec (fun i => decide (i + 2 * 16 ≤ src.length)) (2 * 16)
    (bodyN 2 st src) (Inv st h0 npub src accAD) src.length (by decide)
    (fun i hi => by have : i + 32 ≤ src.length := of_decide_eq_true hi; omega)
    (fun i s hP hi => stepN st h0 hg npub hn src hlen accAD 2 (by decide) (by decide) i s hP (of_decide_eq_true hi))
    (src.length + 1) i3 s3 (by omega) hI3
  generalize forLoop (fun i => decide (i + 2 * 16 ≤ src.length)) (2 * 16)
    (bodyN 2 st src) (src.length + 1) i3 s3 = r4 at hI4 ⊢
  obtain ⟨i4, s4⟩ := r4
  dsimp only at hI4 ⊢
  -- single blocks
  obtain ⟨hI5, hX⟩ := forLoop_spec (fun i => decide (i + 16 < src.length)) 16
    (body1 st src) (Inv st h0 npub src accAD) src.length (by decide)
    (fun i hi => by have : i + 16 < src.length := of_decide_eq_true hi; omega)
    (fun i s hP hi => step1 st h0 hg npub hn src hlen accAD i s hP (of_decide_eq_true hi))
    (src.length + 1) i4 s4 (by omega) hI4
  generalize forLoop (fun i => decide (i + 16 < src.length)) 16
    (body1 st src) (src.length + 1) i4 s4 = r5 at hI5 hX ⊢
  obtain ⟨i5, s5⟩ := r5
  dsimp only at hI5 hX ⊢
  exact decTail_spec st h0 hg hk npub hn src ad hlen accAD i5 s5 hI5 (by have := of_decide_eq_false hX; omega)

theorem verify_mac_spec (st : State) (h0 : BlockVec) (hg : GhOK st h0) (hk : st.rkeys.length = 15)
    (npub : Bytes) (hn : npub.length = 12) (c mac ad : Bytes)
    (hr : required_blocks (UInt64.ofNat ad.length) (UInt64.ofNat c.length) ≠ 0)
    (hl : ad.length < 2 ^ 64 ∧ c.length < 2 ^ 64) :
    let E := Aes.cipher (st.rkeys.map STORE128)
    let accAD := ghFold h0 gh_init (ad ++ Gcm.pad16 ad.length) ((ad.length + 15) / 16)
    let accCT := ghFold h0 accAD (c ++ Gcm.pad16 c.length) ((c.length + 15) / 16)
    let accF := ghB h0 accCT (STORE128 (final_block ad.length c.length))
    crypto_aead_aes256gcm_verify_mac st c mac ad npub
      = some (crypto_verify_16 mac (STORE128 (XOR128 (LOAD128 (E (npub ++ [0, 0, 0, 1]))) (REV128 accF)))) := by
  intro E accAD accCT accF
  have hA := absorb_blocks st h0 hg gh_init ad hl.1
  have hC := absorb_blocks st h0 hg accAD c hl.2
  dsimp only at hA hC
  unfold crypto_aead_aes256gcm_verify_mac
  dsimp only
  have hs : ¬ (ad.length > SODIUM_SIZE_MAX ∨ c.length > SODIUM_SIZE_MAX) := by
    simp only [SODIUM_SIZE_MAX]; omega
  have hr' : (required_blocks (UInt64.ofNat ad.length) (UInt64.ofNat c.length) == 0) = false := by
    simpa using hr
  rw [if_neg hs]
  simp only [hr', Bool.false_eq_true, if_false]
  rw [hA, hC, Ctr.j0_block npub hn 2, AesK.encrypt_eq st hk _ (by simp [hn]), hg.ad_blocks _ _ 16 (by decide),
    show (16 : Nat) / 16 = 1 from rfl, ghFold_one]

end Sodium.GcmAesniP.Dec
