import SodiumModel.Proofs.Ge25519Ref10
import SodiumModel.Proofs.Fe51
import SodiumModel.Model.SignOps
open Sodium Sodium.Spec Sodium.Spec.F25519 Sodium.Model.Ge25519
namespace Sodium.Ge25519P

/-- `t` is `x^k` in `ZMod p` -/
def PowK (x t k : Nat) : Prop := (t : K) = (x : K) ^ k

theorem PowK.mul {x s t j k : Nat} (hs : PowK x s j) (ht : PowK x t k) : PowK x (specGe.mul s t) (j + k) := by
  unfold PowK at *; rw [s_mul, hs, ht, pow_add]
theorem PowK.sq {x t k : Nat} (ht : PowK x t k) : PowK x (specGe.sq t) (2 * k) := by
  unfold PowK at *; rw [s_sq, ht, ← pow_add]; congr 1; omega
theorem PowK.cast {x t j k : Nat} (ht : PowK x t j) (e : j = k) : PowK x t k := e ▸ ht
theorem PowK.sqN {x : Nat} : ∀ (n : Nat) {t k : Nat}, PowK x t k → PowK x (sqN specGe n t) (2 ^ n * k)
  | 0, t, k, h => by simpa [Model.Ge25519.sqN] using h
  | n + 1, t, k, h => by
    have := PowK.sqN n h.sq
    rw [Model.Ge25519.sqN]
    exact this.cast (by rw [pow_succ]; ring)
theorem PowK.one (x : Nat) : PowK x x 1 := by unfold PowK; rw [pow_one]

theorem invert_pow (z : Nat) : PowK z (fe25519_invert specGe z) (2 ^ 255 - 21) := by
  have z1 := PowK.one z
  have a0 : PowK z _ 2 := z1.sq
  have a1 : PowK z _ 8 := (a0.sq.sq).cast (by decide)
  have a2 : PowK z _ 9 := z1.mul a1
  have b0 : PowK z _ 11 := a0.mul a2
  have a3 : PowK z _ 22 := b0.sq
  have a4 : PowK z _ (2 ^ 5 - 1) := (a2.mul a3).cast (by decide)
  have a5 : PowK z _ (2 ^ 10 - 2 ^ 5) := (PowK.sqN 5 a4).cast (by decide)
  have a6 : PowK z _ (2 ^ 10 - 1) := (a5.mul a4).cast (by decide)
  have a7 : PowK z _ (2 ^ 20 - 2 ^ 10) := (PowK.sqN 10 a6).cast (by decide)
  have a8 : PowK z _ (2 ^ 20 - 1) := (a7.mul a6).cast (by decide)
  have a9 : PowK z _ (2 ^ 40 - 2 ^ 20) := (PowK.sqN 20 a8).cast (by decide)
  have a10 : PowK z _ (2 ^ 40 - 1) := (a9.mul a8).cast (by decide)
  have a11 : PowK z _ (2 ^ 50 - 2 ^ 10) := (PowK.sqN 10 a10).cast (by decide)
  have a12 : PowK z _ (2 ^ 50 - 1) := (a11.mul a6).cast (by decide)
  have a13 : PowK z _ (2 ^ 100 - 2 ^ 50) := (PowK.sqN 50 a12).cast (by decide)
  have a14 : PowK z _ (2 ^ 100 - 1) := (a13.mul a12).cast (by decide)
  have a15 : PowK z _ (2 ^ 200 - 2 ^ 100) := (PowK.sqN 100 a14).cast (by decide)
  have a16 : PowK z _ (2 ^ 200 - 1) := (a15.mul a14).cast (by decide)
  have a17 : PowK z _ (2 ^ 250 - 2 ^ 50) := (PowK.sqN 50 a16).cast (by decide)
  have a18 : PowK z _ (2 ^ 250 - 1) := (a17.mul a12).cast (by decide)
  have a19 : PowK z _ (2 ^ 255 - 2 ^ 5) := (PowK.sqN 5 a18).cast (by decide)
  exact (a19.mul b0).cast (by decide)

theorem pow22523_pow (z : Nat) : PowK z (fe25519_pow22523 specGe z) (2 ^ 252 - 3) := by
  have z1 := PowK.one z
  have a0 : PowK z _ 2 := z1.sq
  have a1 : PowK z _ 8 := (a0.sq.sq).cast (by decide)
  have a2 : PowK z _ 9 := z1.mul a1
  have b0 : PowK z _ 11 := a0.mul a2
  have a3 : PowK z _ 22 := b0.sq
  have a4 : PowK z _ (2 ^ 5 - 1) := (a2.mul a3).cast (by decide)
  have a5 : PowK z _ (2 ^ 10 - 2 ^ 5) := (PowK.sqN 5 a4).cast (by decide)
  have a6 : PowK z _ (2 ^ 10 - 1) := (a5.mul a4).cast (by decide)
  have a7 : PowK z _ (2 ^ 20 - 2 ^ 10) := (PowK.sqN 10 a6).cast (by decide)
  have a8 : PowK z _ (2 ^ 20 - 1) := (a7.mul a6).cast (by decide)
  have a9 : PowK z _ (2 ^ 40 - 2 ^ 20) := (PowK.sqN 20 a8).cast (by decide)
  have a10 : PowK z _ (2 ^ 40 - 1) := (a9.mul a8).cast (by decide)
  have a11 : PowK z _ (2 ^ 50 - 2 ^ 10) := (PowK.sqN 10 a10).cast (by decide)
  have a12 : PowK z _ (2 ^ 50 - 1) := (a11.mul a6).cast (by decide)
  have a13 : PowK z _ (2 ^ 100 - 2 ^ 50) := (PowK.sqN 50 a12).cast (by decide)
  have a14 : PowK z _ (2 ^ 100 - 1) := (a13.mul a12).cast (by decide)
  have a15 : PowK z _ (2 ^ 200 - 2 ^ 100) := (PowK.sqN 100 a14).cast (by decide)
  have a16 : PowK z _ (2 ^ 200 - 1) := (a15.mul a14).cast (by decide)
  have a17 : PowK z _ (2 ^ 250 - 2 ^ 50) := (PowK.sqN 50 a16).cast (by decide)
  have a18 : PowK z _ (2 ^ 250 - 1) := (a17.mul a12).cast (by decide)
  have a19 : PowK z _ (2 ^ 252 - 4) := (a18.sq.sq).cast (by decide)
  exact (a19.mul z1).cast (by decide)

/-- two canonical representatives equal in `ZMod p` are equal -/
theorem eq_of_cast {a b : Nat} (ha : a < p) (hb : b < p) (h : (a : K) = (b : K)) : a = b := by
  have := (modEq_iff a b).2 h
  rwa [Nat.mod_eq_of_lt ha, Nat.mod_eq_of_lt hb] at this

theorem specMul_lt (a b : Nat) : specGe.mul a b < p := Nat.mod_lt _ (by decide)

/-- the addition chain `fe25519_invert` over the specification field IS the specification's inverse a^(p-2) -/
theorem invert_eq (z : Nat) : fe25519_invert specGe z = F25519.inv z := by
  apply eq_of_cast
  · exact specMul_lt _ _
  · rw [Fe51P.inv_eq]; exact Nat.mod_lt _ (by decide)
  · rw [Fe51P.inv_eq, c_mod, Nat.cast_pow]; exact invert_pow z

/-- `fe25519_pow22523` over the specification field is a^((p-5)/8) -/
theorem pow22523_eq (z : Nat) : fe25519_pow22523 specGe z = F25519.pow z ((p - 5) / 8) := by
  apply eq_of_cast
  · exact specMul_lt _ _
  · rw [Fe51P.pow_eq]; exact Nat.mod_lt _ (by decide)
  · have e : (p - 5) / 8 = 2 ^ 252 - 3 := by decide
    rw [e, Fe51P.pow_eq, c_mod, Nat.cast_pow]; exact pow22523_pow z


/-! ### the predicates -/

theorem isZero_sub (a b : Nat) : F25519.isZero (F25519.sub a b) = (a % p == b % p) := by
  unfold F25519.isZero
  have h : (F25519.sub a b % p = 0) ↔ (a % p = b % p) := by
    rw [show (0 : Nat) = 0 % p from rfl, modEq_iff, modEq_iff, ScalarmultLow.c_sub, Nat.cast_zero, sub_eq_zero]
  by_cases e : a % p = b % p
  · simp [e, h.2 e]
  · have : ¬ F25519.sub a b % p = 0 := fun x => e (h.1 x)
    simp [e, this]

theorem sg_iszero (f : Nat) : specGe.iszero f = if F25519.isZero f then 1 else 0 := rfl
theorem sg_mul (a b : Nat) : specGe.mul a b = F25519.mul a b := rfl
theorem sg_sub (a b : Nat) : specGe.sub a b = F25519.sub a b := rfl
theorem sg_add (a b : Nat) : specGe.add a b = F25519.add a b := rfl
theorem sg_neg (a : Nat) : specGe.neg a = F25519.neg a := rfl
theorem sg_sq (a : Nat) : specGe.sq a = F25519.sqr a := rfl

theorem orBits (b1 b2 b3 b4 : Bool) :
    ((0 : Int32) ||| (if b1 then 1 else 0) ||| (if b2 then 1 else 0) ||| (if b3 then 1 else 0) ||| (if b4 then 1 else 0)) =
      if (b1 || b2 || b3 || b4) = true then 1 else 0 := by
  cases b1 <;> cases b2 <;> cases b3 <;> cases b4 <;> rfl

/-- `ge25519_has_small_order` over the specification field is the transcription `hasSmallOrderC` used by the
    sign/verify specification (`Model/SignOps.lean`) -/
theorem has_small_order_eq (q : P3 Nat) :
    ge25519_has_small_order specGe q = Model.Sign.hasSmallOrderC (toPoint q) := by
  have hs : fe25519_sqrtm1 specGe = F25519.sqrtM1 := sqrtm1_eq
  unfold ge25519_has_small_order Model.Sign.hasSmallOrderC
  simp only [invert_eq, hs, sg_iszero, sg_mul, sg_sub, sg_neg, toPoint]
  exact orBits _ _ _ _

/-- `ge25519_is_on_curve` tests exactly the projective curve equation (−X² + Y²)·Z² = Z⁴ + d·X²·Y² (mod p) -/
theorem is_on_curve_eq (q : P3 Nat) :
    ge25519_is_on_curve specGe q =
      if F25519.mul (F25519.sub (sqr q.Y) (sqr q.X)) (sqr q.Z) ==
         F25519.add (F25519.mul (F25519.mul (sqr q.X) (sqr q.Y)) Ed25519.d) (sqr (sqr q.Z)) then 1 else 0 := by
  have hd : ed25519_d specGe = Ed25519.d := d_eq
  have h1 : ∀ a b : Nat, F25519.mul a b % p = F25519.mul a b := fun a b => Nat.mod_eq_of_lt (Nat.mod_lt _ (by decide))
  have h2 : ∀ a b : Nat, F25519.add a b % p = F25519.add a b := fun a b => Nat.mod_eq_of_lt (Nat.mod_lt _ (by decide))
  unfold ge25519_is_on_curve
  simp only [hd, sg_iszero, sg_mul, sg_sub, sg_add, sg_sq, isZero_sub, h1, h2]

end Sodium.Ge25519P
