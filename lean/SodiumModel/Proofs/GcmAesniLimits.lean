import SodiumModel.Model.GcmAesni
namespace Sodium.GcmAesniP
open Sodium Sodium.Model.GcmAesni

/-- `required_blocks` refuses exactly: AD longer than SIZE_MAX − 224 bytes, or a message of more than 2^32 − 3 blocks -/
theorem required_blocks_ne_zero_iff (al ml : Nat) (ha : al < 2 ^ 64) (hm : ml < 2 ^ 64) :
    required_blocks (UInt64.ofNat al) (UInt64.ofNat ml) ≠ 0 ↔ (al ≤ 2 ^ 64 - 225 ∧ ml ≤ 16 * (2 ^ 32 - 3)) := by
  unfold required_blocks
  generalize hA : UInt64.ofNat al = A
  generalize hM : UInt64.ofNat ml = M
  have e1 : A.toNat = al := by rw [← hA]; simp [UInt64.toNat_ofNat']; omega
  have e2 : M.toNat = ml := by rw [← hM]; simp [UInt64.toNat_ofNat']; omega
  have k1 : (UInt64.ofNat (2 * PARALLEL_BLOCKS * 16)).toNat = 224 := by decide
  have k2 : ((0xffffffffffffffff : UInt64) - UInt64.ofNat (2 * PARALLEL_BLOCKS * 16)).toNat = 2 ^ 64 - 225 := by decide
  have k3 : (((1 : UInt64) <<< 32) - 2).toNat = 2 ^ 32 - 2 := by decide
  have b1 : ((A + 15) / 16).toNat = (al + 15) % 2 ^ 64 / 16 := by
    rw [UInt64.toNat_div, UInt64.toNat_add, e1]; rfl
  have b2 : ((M + 15) / 16).toNat = (ml + 15) % 2 ^ 64 / 16 := by
    rw [UInt64.toNat_div, UInt64.toNat_add, e2]; rfl
  dsimp only
  split
  · rename_i hc
    simp only [Bool.or_eq_true, decide_eq_true_eq, gt_iff_lt, ge_iff_le, UInt64.lt_iff_toNat_lt, UInt64.le_iff_toNat_le,
      k2, k3, b1, b2, e1, e2] at hc
    constructor
    · intro h; exact absurd rfl h
    · intro h; omega
  · rename_i hc
    simp only [Bool.or_eq_true, decide_eq_true_eq, gt_iff_lt, ge_iff_le, UInt64.lt_iff_toNat_lt, UInt64.le_iff_toNat_le,
      k2, k3, b1, b2, e1, e2, not_or, Nat.not_lt, Nat.not_le] at hc
    constructor
    · intro _; omega
    · intro _ h0
      have := congrArg UInt64.toNat h0
      rw [UInt64.toNat_add, UInt64.toNat_add, b1, b2] at this
      simp at this
      omega

end Sodium.GcmAesniP
