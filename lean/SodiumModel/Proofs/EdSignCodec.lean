import SodiumModel.Proofs.EdSignRoots
import SodiumModel.Proofs.Sign
/-
  Helper lemmas for `Properties/C06Full.lean`, part 2: the C-structured `ge25519_frombytes`,
  `ge25519_frombytes_negate_vartime`, `ge25519_p3_tobytes` over the specification field.
-/
open Sodium Sodium.Spec Sodium.Model.Ge25519
open Sodium.Model.Sign (u8i i2u8)
open Sodium.Ge25519P (toPoint p2Point invert_eq sg_iszero sg_mul sg_sub sg_add sg_neg sg_sq d_eq sqrtm1_eq)
open Sodium.RistrettoRefP (F normX mul_lt sqr_lt neg_lt)
namespace Sodium.EdSignP

theorem sg_one : specGe.one = 1 := rfl
theorem sg_zero : specGe.zero = 0 := rfl
theorem sg_cmov (f g : Nat) (b : UInt32) : specGe.cmov f g b = if b = 0 then f else g := rfl
theorem sg_frombytes (s : Bytes) : specGe.frombytes s = F25519.fromBytesMasked s := rfl
theorem sg_isneg (f : Nat) : specGe.isnegative f = if F25519.isNegative f then 1 else 0 := rfl
theorem sg_tobytes (f : Nat) : specGe.tobytes f = F25519.toBytes f := rfl

/-- bit 7 of the last byte: the sign bit x_0 of RFC 8032 §5.1.2 -/
def signBit (s : Bytes) : Bool := decide (128 ≤ (s.getD 31 0).toNat)

set_option maxRecDepth 100000 in
theorem flag_bytes : ∀ z : UInt8,
    ((((1 : Int32)) ^^^ (((u8i z >>> 5) ^^^ u8i optblocker_u8) >>> 2)).toUInt32 = 0 ↔ 128 ≤ z.toNat) ∧
    ((((0 : Int32)) ^^^ (((u8i z >>> 5) ^^^ u8i optblocker_u8) >>> 2)).toUInt32 = 0 ↔ ¬ 128 ≤ z.toNat) ∧
    ((1 : Int32) = u8i z >>> 7 ↔ 128 ≤ z.toNat) ∧ ((0 : Int32) = u8i z >>> 7 ↔ ¬ 128 ≤ z.toNat) := by
  decide +kernel

/-- the sign selection of `ge25519_frombytes`: x is replaced by −x iff its parity differs from the sign bit -/
theorem cmov_sign (x : Nat) (z : UInt8) :
    (if ((if F25519.isNegative x then (1 : Int32) else 0) ^^^ (((u8i z >>> 5) ^^^ u8i optblocker_u8) >>> 2)).toUInt32 = 0
      then x else F25519.neg x) = normX x (decide (128 ≤ z.toNat)) := by
  obtain ⟨h1, h0, -, -⟩ := flag_bytes z
  unfold normX
  cases hn : F25519.isNegative x <;> by_cases hz : 128 ≤ z.toNat
  · simp only [Bool.false_eq_true, if_false, hz, decide_true]
    rw [if_neg (fun h => (h0.1 h) hz)]; rfl
  · simp only [Bool.false_eq_true, if_false, hz, decide_false]
    rw [if_pos (h0.2 hz)]; rfl
  · simp only [if_true, hz, decide_true]
    rw [if_pos (h1.2 hz)]; rfl
  · simp only [if_true, hz, decide_false]
    rw [if_neg (fun h => hz (h1.1 h))]; rfl

/-- the sign selection of `ge25519_frombytes_negate_vartime`: x is negated iff its parity EQUALS the sign bit -/
theorem neg_sign (x : Nat) (z : UInt8) :
    (if (if F25519.isNegative x then (1 : Int32) else 0) = u8i z >>> 7 then F25519.neg x else x)
      = normX x (!decide (128 ≤ z.toNat)) := by
  obtain ⟨-, -, h1, h0⟩ := flag_bytes z
  unfold normX
  cases hn : F25519.isNegative x <;> by_cases hz : 128 ≤ z.toNat
  · simp only [Bool.false_eq_true, if_false, hz, decide_true]
    rw [if_neg (fun h => (h0.1 h) hz)]; rfl
  · simp only [Bool.false_eq_true, if_false, hz, decide_false]
    rw [if_pos (h0.2 hz)]; rfl
  · simp only [if_true, hz, decide_true]
    rw [if_pos (h1.2 hz)]; rfl
  · simp only [if_true, hz, decide_false]
    rw [if_neg (fun h => hz (h1.1 h))]; rfl

end Sodium.EdSignP
