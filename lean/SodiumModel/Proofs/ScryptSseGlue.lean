import SodiumModel.Proofs.ScryptSseSmix
/-
  Helper lemmas for Properties/C08ScryptSse.lean, part 5: step 1 of the SSE2 `smix` (the shuffling load of `B` into row 0 of `V`).
-/
namespace Sodium.ScryptSseP
open Sodium Sodium.Model Sodium.Model.ScryptSse Sodium.Spec Sodium.ScryptRefP
open Sodium.Model.ScryptRef (forU64 forU32 load32_le store32_le)

/-- the `n` little-endian words of `B` from byte offset `boff` (what the reference `smix` loads: `X[k] = LOAD32_LE(&B[4 * k])`) -/
def wordsLE (B : Array UInt8) (boff n : Nat) : Array UInt32 := Array.ofFn (n := n) fun t => load32_le B (boff + 4 * t.val)

theorem wordsLE_getD (B : Array UInt8) (boff n t : Nat) (ht : t < n) : (wordsLE B boff n).getD t 0 = load32_le B (boff + 4 * t) := by
  unfold wordsLE
  rw [Array.getD_eq_getD_getElem?, Array.getElem?_eq_getElem (by rw [Array.size_ofFn]; exact ht), Array.getElem_ofFn]
  rfl

/-- pass `k` of the outer load loop -/
def loadN (B : Array UInt8) (boff V : Nat) (k : Nat) (M : Array UInt32) : Array UInt32 :=
  iter (fun i M => M.setIfInBounds (V + 16 * k + i)
    ((fun i (_ : UInt32) => load32_le B (boff + 4 * (16 * k + i * 5 % 16))) i (M.getD (V + 16 * k + i) 0))) 16 0 M

theorem smix_load_eq (B : Array UInt8) (boff : Nat) (r : UInt64) (M : Array UInt32) (V : Nat) (hr2 : 128 * r.toNat < 2 ^ 64) :
    smix_load B boff r M V = iter (loadN B boff V) (2 * r.toNat) 0 M := by
  have h2r : (2 * r).toNat = 2 * r.toNat := by u64
  unfold smix_load
  rw [forU64_one (2 * r) _ (loadN B boff V) _ M (Nat.le_refl _), h2r]
  intro k hk M
  rw [h2r] at hk
  unfold loadN
  apply forU64_one 16 _ _ 16 M (by decide)
  intro i hi M
  have hi : i < 16 := hi
  have e1 : V + (UInt64.ofNat k * 16 + UInt64.ofNat i).toNat = V + 16 * k + i := by u64
  have h16 : (16 : UInt64).toNat = 16 := rfl
  have a1 : (UInt64.ofNat i * 5 % 16).toNat = i * 5 % 16 := by
    rw [UInt64.toNat_mod, h16, UInt64.toNat_mul, UInt64.toNat_ofNat']
    simp only [UInt64.toNat_ofNat, Nat.reducePow, Nat.reduceMod]
    omega
  have a2 : (UInt64.ofNat k * 16).toNat = 16 * k := by u64
  have a3 : i * 5 % 16 < 16 := Nat.mod_lt _ (by decide)
  have e2 : boff + ((UInt64.ofNat k * 16 + UInt64.ofNat i * 5 % 16) * 4).toNat = boff + 4 * (16 * k + i * 5 % 16) := by
    rw [UInt64.toNat_mul, UInt64.toNat_add, a1, a2]
    simp only [UInt64.toNat_ofNat, Nat.reducePow, Nat.reduceMod]
    omega
  rw [e1, e2]

theorem smix_load_spec (B : Array UInt8) (boff : Nat) (r : UInt64) (M : Array UInt32) (V : Nat) (hr2 : 128 * r.toNat < 2 ^ 64)
    (hfit : V + 32 * r.toNat ≤ M.size) :
    (smix_load B boff r M V).size = M.size ∧ RowS (smix_load B boff r M V) V (wordsLE B boff (32 * r.toNat)) := by
  rw [smix_load_eq B boff r M V hr2]
  have hinv := iter_inv (loadN B boff V)
    (fun k M' => M'.size = M.size ∧ ∀ t, t < 16 * k → M'.getD (V + t) 0 = load32_le B (boff + 4 * (16 * (t / 16) + t % 16 * 5 % 16)))
    (2 * r.toNat) 0 M ⟨rfl, fun t ht => by omega⟩
    (fun k M' _ hk h => by
      obtain ⟨h1, h2⟩ := h
      refine ⟨(iter_set_size (V + 16 * k) (fun i (_ : UInt32) => load32_le B (boff + 4 * (16 * k + i * 5 % 16))) 0 16 0 M').trans h1,
        fun t ht => ?_⟩
      unfold loadN
      rw [iter_set_getD (V + 16 * k) (fun i (_ : UInt32) => load32_le B (boff + 4 * (16 * k + i * 5 % 16))) 0 16 0 M' (V + t)]
      by_cases hin : 16 * k ≤ t
      · rw [if_pos ⟨by omega, by omega, by omega⟩]
        have e1 : t / 16 = k := by omega
        have e2 : V + t - (V + 16 * k) = t % 16 := by omega
        rw [e1, e2]
      · rw [if_neg (by omega)]; exact h2 t (by omega))
  rw [Nat.zero_add] at hinv
  refine ⟨hinv.1, fun t ht => ?_⟩
  have hsz : (wordsLE B boff (32 * r.toNat)).size = 32 * r.toNat := by unfold wordsLE; rw [Array.size_ofFn]
  rw [hsz] at ht
  rw [hinv.2 t (by omega), wordsLE_getD _ _ _ _ (by omega)]

end Sodium.ScryptSseP
