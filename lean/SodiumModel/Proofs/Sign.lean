import SodiumModel.Model.Sign
import SodiumModel.Proofs.Utils
import SodiumModel.Spec.Ed25519
/-
  Helper lemmas for C06: the canonicity byte loops of ed25519_ref10.c are exact, and the
  control flow of `_crypto_sign_ed25519_verify_detached` / `crypto_sign_open`.
-/
open Sodium Sodium.Model.Sign
namespace Sodium.SignP

/-! ### `int` arithmetic on promoted bytes -/

theorem u8i_toInt (x : UInt8) : (u8i x).toInt = x.toNat := by
  have h : x.toUInt32 = UInt32.ofNat x.toNat := by
    rw [← UInt32.toNat_inj]; simp
  rw [u8i, h, UInt32.toInt32_ofNat', Int32.toInt_ofNat_of_lt (by have := x.toNat_lt; omega)]

/-- `>> 8` on an `int` is the arithmetic shift: floor division by 256 -/
theorem sar8 (a : Int32) : (a >>> 8).toInt = a.toInt / 256 := by
  rw [← Int32.toInt_toBitVec, Int32.toBitVec_shiftRight]
  have : (Int32.toBitVec 8).smod 32 = 8#32 := by decide
  rw [this, BitVec.sshiftRight', BitVec.toInt_sshiftRight, Int.shiftRight_eq_div_pow]
  simp

/-- `(s[i] - L[i]) >> 8` is all-ones iff `s[i] < L[i]` -/
theorem sub_sar8 (x y : UInt8) : (u8i x - u8i y) >>> 8 = if x < y then -1 else 0 := by
  rw [← Int32.toInt_inj, sar8, Int32.toInt_sub, u8i_toInt, u8i_toInt]
  have hx := x.toNat_lt; have hy := y.toNat_lt
  by_cases h : x < y
  · have h' : x.toNat < y.toNat := h
    simp only [h, if_true]
    simp [Int.bmod]; omega
  · have h' : ¬ x.toNat < y.toNat := h
    simp only [h, if_false]
    simp [Int.bmod]; omega

theorem u8i_xor (x y : UInt8) : u8i x ^^^ u8i y = u8i (x ^^^ y) := by simp [u8i]
theorem u8i_or (x y : UInt8) : u8i x ||| u8i y = u8i (x ||| y) := by simp [u8i]
theorem u8i_and (x y : UInt8) : u8i x &&& u8i y = u8i (x &&& y) := by simp [u8i]
theorem i2u8_u8i (x : UInt8) : i2u8 (u8i x) = x := by simp [u8i, i2u8]

set_option maxRecDepth 100000 in
/-- `(z - 1) >> 8` is all-ones iff `z = 0` -/
theorem dec_sar8 : ∀ z : UInt8, (u8i z - 1) >>> 8 = if z = 0 then -1 else 0 := by decide +kernel

/-! ### sc25519_is_canonical -/

theorem scStep_n0 (c x y : UInt8) : scStep (c, 0) x y = (c, 0) := by
  have h0 : u8i 0 = 0 := by decide
  simp only [scStep, h0, Int32.and_zero, Int32.or_zero, Int32.zero_and, i2u8_u8i]
  rfl

theorem scStep_n1 (x y : UInt8) :
    scStep (0, 1) x y = (if x < y then 1 else 0, if x = y then 1 else 0) := by
  have hz : x ^^^ y = 0 ↔ x = y := UInt8.xor_eq_zero_iff
  simp only [scStep, sub_sar8, u8i_xor, dec_sar8, hz]
  by_cases h2 : x = y
  · subst h2
    have h1 : ¬ x < x := UInt8.lt_irrefl x
    simp only [h1, if_true, if_false]; decide
  · by_cases h1 : x < y <;> simp only [h1, h2, if_true, if_false] <;> decide

/-- invariant of the `sc25519_is_canonical` loop (most significant byte first):
    `c` = "s < l so far", `n` = "s = l so far" -/
theorem scLoop_spec : ∀ (a b : Bytes), a.length = b.length →
    scLoop a b = (if le a < le b then 1 else 0, if le a = le b then 1 else 0)
  | [], [], _ => by simp [scLoop, le]
  | x :: xs, y :: ys, h => by
    have ih := scLoop_spec xs ys (by simpa using h)
    have hx := x.toNat_lt; have hy := y.toNat_lt
    simp only [scLoop, ih, le]
    by_cases heq : le xs = le ys
    · simp only [heq, if_true, Nat.lt_irrefl, if_false]
      rw [scStep_n1]
      have h1 : (x < y) ↔ (x.toNat + 256 * le ys < y.toNat + 256 * le ys) := by
        rw [UInt8.lt_iff_toNat_lt]; omega
      have h2 : (x = y) ↔ (x.toNat + 256 * le ys = y.toNat + 256 * le ys) := by
        rw [← UInt8.toNat_inj]; omega
      simp only [h1, h2]
    · simp only [heq, if_false]
      rw [scStep_n0]
      have h2 : ¬ (x.toNat + 256 * le xs = y.toNat + 256 * le ys) := by omega
      have h1 : (le xs < le ys) ↔ (x.toNat + 256 * le xs < y.toNat + 256 * le ys) := by omega
      simp only [h1, h2, if_false]
      rfl
  | [], _ :: _, h => by simp at h
  | _ :: _, [], h => by simp at h

theorem le_scL : le scL = Spec.Ed25519.L := by decide +kernel

theorem sc_is_canonical_spec (s : Bytes) (h : s.length = 32) :
    sc25519_is_canonical s = if le s < Spec.Ed25519.L then 1 else 0 := by
  rw [sc25519_is_canonical, scLoop_spec s scL (by rw [h]; rfl), le_scL]
  by_cases hlt : le s < Spec.Ed25519.L <;> simp [hlt]

/-! ### ge25519_is_canonical -/

theorem geOrStep (a x : UInt8) : i2u8 (u8i a ||| (u8i x ^^^ 0xff)) = a ||| (x ^^^ 0xff) := by
  have h : (0xff : Int32) = u8i 0xff := by decide
  rw [h, u8i_xor, u8i_or, i2u8_u8i]

theorem geOrLoop_eq_zero : ∀ (xs : Bytes) (c0 : UInt8),
    geOrLoop c0 xs = 0 ↔ c0 = 0 ∧ xs = List.replicate xs.length 0xff
  | [], c0 => by simp [geOrLoop]
  | x :: xs, c0 => by
    have ih := geOrLoop_eq_zero xs c0
    have hx : x ^^^ 0xff = 0 ↔ x = 0xff := UInt8.xor_eq_zero_iff
    simp only [geOrLoop, geOrStep, UInt8.or_eq_zero_iff, ih, hx, List.length_cons,
      List.replicate_succ, List.cons.injEq]
    constructor
    · rintro ⟨⟨h1, h2⟩, h3⟩; exact ⟨h1, h3, h2⟩
    · rintro ⟨h1, h3, h2⟩; exact ⟨⟨h1, h2⟩, h3⟩

theorem le_replicate_ff : ∀ n : Nat, le (List.replicate n (0xff : UInt8)) + 1 = 256 ^ n
  | 0 => by simp [le]
  | n + 1 => by
    have ih := le_replicate_ff n
    have h255 : (255 : UInt8).toNat = 255 := rfl
    simp only [List.replicate_succ, le, Nat.pow_succ, h255]
    omega

/-- a string whose little-endian value is the maximum consists of 0xff bytes -/
theorem eq_replicate_ff_of_le (b : Bytes) (h : le b + 1 = 256 ^ b.length) :
    b = List.replicate b.length 0xff := by
  apply le_inj _ _ (by simp)
  have := le_replicate_ff b.length
  omega

set_option maxRecDepth 100000 in
theorem ge_c_init : ∀ t : UInt8, (i2u8 ((u8i t &&& 0x7f) ^^^ 0x7f) = 0) ↔ t.toNat % 128 = 127 := by
  decide +kernel

set_option maxRecDepth 100000 in
theorem ge_c_final : ∀ c : UInt8, ((c.toUInt32 - 1) >>> 8).toUInt8 = if c = 0 then 0xff else 0 := by
  decide +kernel

set_option maxRecDepth 100000 in
theorem ge_d : ∀ s0 : UInt8,
    (((0xed : UInt32) - 1 - s0.toUInt32) >>> 8).toUInt8 = if 0xed ≤ s0.toNat then 0xff else 0 := by
  decide +kernel

/-- a 32-byte string split as s[0], s[1..30], s[31] -/
theorem split32 (s : Bytes) (h : s.length = 32) :
    s = s.getD 0 0 :: ((s.drop 1).take 30 ++ [s.getD 31 0]) := by
  match s, h with
  | [a0,a1,a2,a3,a4,a5,a6,a7,a8,a9,a10,a11,a12,a13,a14,a15,a16,a17,a18,a19,a20,a21,a22,a23,a24,a25,a26,a27,a28,a29,a30,a31], _ => rfl

/-- the 255-bit `y` field of a 32-byte string, in terms of s[0], s[1..30], s[31] -/
theorem le_mod_255 (s0 t : UInt8) (mid : Bytes) (hm : mid.length = 30) :
    le (s0 :: (mid ++ [t])) % 2 ^ 255 = s0.toNat + 256 * le mid + 256 ^ 31 * (t.toNat % 128) := by
  have h0 := s0.toNat_lt; have ht := t.toNat_lt
  have hmid := le_lt mid; rw [hm] at hmid
  simp only [le, le_append, hm, Nat.mul_zero, Nat.add_zero]
  omega

theorem ge_is_canonical_spec (s : Bytes) (h : s.length = 32) :
    ge25519_is_canonical s = if le s % 2 ^ 255 < Spec.F25519.p then 1 else 0 := by
  have hsplit := split32 s h
  generalize hs0 : s.getD 0 0 = s0 at hsplit
  generalize ht : s.getD 31 0 = t at hsplit
  generalize hmid : (s.drop 1).take 30 = mid at hsplit
  have hm : mid.length = 30 := by rw [← hmid]; simp [h]
  have hval := le_mod_255 s0 t mid hm
  rw [← hsplit] at hval
  have h0 := s0.toNat_lt; have ht' := t.toNat_lt
  have hmidlt := le_lt mid; rw [hm] at hmidlt
  simp only [ge25519_is_canonical, hs0, ht, hmid, ge_c_final, ge_d]
  rw [hval]
  have hp : Spec.F25519.p = 2 ^ 255 - 19 := rfl
  by_cases hc : geOrLoop (i2u8 ((u8i t &&& 0x7f) ^^^ 0x7f)) mid = 0
  · have hc' := (geOrLoop_eq_zero mid _).mp hc
    have h127 := (ge_c_init t).mp hc'.1
    have hle := le_replicate_ff mid.length
    rw [← hc'.2, hm] at hle
    by_cases hd : 0xed ≤ s0.toNat
    · have : ¬ (s0.toNat + 256 * le mid + 256 ^ 31 * (t.toNat % 128) < Spec.F25519.p) := by
        rw [hp]; omega
      simp only [hc, hd, this, if_true, if_false]; decide
    · have : s0.toNat + 256 * le mid + 256 ^ 31 * (t.toNat % 128) < Spec.F25519.p := by
        rw [hp]; omega
      simp only [hc, hd, this, if_true, if_false]; decide
  · have : s0.toNat + 256 * le mid + 256 ^ 31 * (t.toNat % 128) < Spec.F25519.p := by
      rw [hp]
      apply Classical.byContradiction
      intro hge
      apply hc
      apply (geOrLoop_eq_zero mid _).mpr
      have h127 : t.toNat % 128 = 127 := by omega
      refine ⟨(ge_c_init t).mpr h127, ?_⟩
      apply eq_replicate_ff_of_le
      rw [hm]; omega
    simp only [hc, this, if_true, if_false]
    by_cases hd : 0xed ≤ s0.toNat <;> simp only [hd, if_true, if_false] <;> decide

/-! ### the shortcut `(sig[63] & 240) != 0 && …` -/

set_option maxRecDepth 100000 in
theorem hi_nibble : ∀ b : UInt8, (u8i b &&& 240) = 0 ↔ b.toNat < 16 := by decide +kernel

theorem le_last32 (s : Bytes) (h : s.length = 32) :
    le s = le (s.take 31) + 256 ^ 31 * (s.getD 31 0).toNat := by
  have hs : s = s.take 31 ++ [s.getD 31 0] := by
    match s, h with
    | [a0,a1,a2,a3,a4,a5,a6,a7,a8,a9,a10,a11,a12,a13,a14,a15,a16,a17,a18,a19,a20,a21,a22,a23,a24,a25,a26,a27,a28,a29,a30,a31], _ => rfl
  have hl : (s.take 31).length = 31 := by simp [h]
  conv => lhs; rw [hs]
  rw [le_append, hl]; simp [le]

theorem L_gt : 2 ^ 252 ≤ Spec.Ed25519.L := by decide +kernel

/-- top four bits of a 32-byte scalar clear ⇒ the scalar is below 2^252 -/
theorem le_lt_of_hi_nibble (s : Bytes) (h : s.length = 32) (hb : (u8i (s.getD 31 0) &&& 240) = 0) :
    le s < 2 ^ 252 := by
  have h16 := (hi_nibble _).mp hb
  have hl := le_lt (s.take 31)
  have hlen : (s.take 31).length = 31 := by simp [h]
  rw [hlen] at hl
  rw [le_last32 s h]
  omega

/-! ### `verify_detached` reads only `sig[0..64)` and `pk[0..32)` -/

theorem verify_detached_take {P3 P2 : Type} (G : Ops P3 P2) (sig m pk : Bytes) (ph : Bool) :
    verify_detached G sig m pk ph = verify_detached G (sig.take 64) m pk ph := by
  have h1 : (sig.take 64).getD 63 0 = sig.getD 63 0 := by
    simp [List.getD_eq_getElem?_getD]
  have h2 : ((sig.take 64).drop 32).take 32 = (sig.drop 32).take 32 := by
    rw [List.drop_take, List.take_take]; rfl
  have h3 : (sig.take 64).take 32 = sig.take 32 := by
    rw [List.take_take]; rfl
  simp only [verify_detached, h1, h2, h3]

theorem int32_sub_one_eq_zero (x : Int32) : x - 1 = 0 ↔ x = 1 := by
  constructor
  · intro h
    have : x = (x - 1) + 1 := by simp
    rw [this, h]; rfl
  · rintro rfl; rfl

end Sodium.SignP
