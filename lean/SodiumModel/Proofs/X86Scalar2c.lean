import SodiumModel.Proofs.X86Scalar2b
import SodiumModel.Proofs.ByteDecide
import SodiumModel.Proofs.Utils
/-
  Helper lemmas for `Properties/C05Asm2.lean`, part 3: the byte algebra of fe51_pack.S — every stored byte as a natural
  number (a base-256 digit of a limb, or the sum of two limb parts for the four bytes that straddle two limbs).
-/
namespace Sodium.X86ScalarP
open Sodium Sodium.Model Sodium.Model.X86Scalar Sodium.Model.Fe51 Sodium.Fe51P Sodium.Spec
open Generated.Sandy2xAsm

theorem and_ff : ∀ a : UInt8, a &&& 0xFF = a := by decide +kernel
theorem j3 : ∀ a : UInt8, ((a <<< 3) &&& 0xF8).toNat = a.toNat % 32 * 8 := by decide +kernel
theorem j6 : ∀ a : UInt8, ((a <<< 6) &&& 0xC0).toNat = a.toNat % 4 * 64 := by decide +kernel
theorem j1 : ∀ a : UInt8, ((a <<< 1) &&& 0xFE).toNat = a.toNat % 128 * 2 := by decide +kernel
theorem j4 : ∀ a : UInt8, ((a <<< 4) &&& 0xF0).toNat = a.toNat % 16 * 16 := by decide +kernel

/-- xor of disjoint bit ranges is addition -/
theorem xor_disj (a b j : Nat) (hb : b < 2 ^ j) : (a * 2 ^ j) ^^^ b = a * 2 ^ j + b := by
  have h1 : ((a * 2 ^ j) ^^^ b) / 2 ^ j = a := by
    rw [Nat.xor_div_two_pow, Nat.mul_div_cancel _ (Nat.two_pow_pos j), Nat.div_eq_of_lt hb, Nat.xor_zero]
  have h2 : ((a * 2 ^ j) ^^^ b) % 2 ^ j = b := by
    rw [Nat.xor_mod_two_pow, Nat.mul_mod_left, Nat.mod_eq_of_lt hb, Nat.zero_xor]
  have h3 := Nat.div_add_mod ((a * 2 ^ j) ^^^ b) (2 ^ j)
  rw [h1, h2, Nat.mul_comm] at h3
  exact h3.symm

theorem shr8 (x k : UInt64) (hk : k.toNat < 64) : ((x >>> k).toUInt8).toNat = x.toNat / 2 ^ k.toNat % 256 := by
  rw [UInt64.toNat_toUInt8, shr_lit, Nat.mod_eq_of_lt hk]

theorem bA0_nat (x : UInt64) : (bA0 x).toNat = x.toNat % 256 := by
  simp only [bA0, UInt32.toUInt8_toUInt64, UInt32.toUInt8_and, UInt64.toUInt8_toUInt32, UInt32.toUInt8_ofNat, and_ff,
    UInt64.toNat_toUInt8]

theorem bA_nat (x k : UInt64) (hk : k.toNat < 64) : (bA x k).toNat = x.toNat / 2 ^ k.toNat % 256 := by
  simp only [bA, UInt32.toUInt8_toUInt64, UInt32.toUInt8_and, UInt64.toUInt8_toUInt32, UInt32.toUInt8_ofNat, and_ff]
  exact shr8 x k hk

theorem bS_nat (x k : UInt64) (hk : k.toNat < 64) : (bS x k).toNat = x.toNat / 2 ^ k.toNat % 256 := shr8 x k hk

theorem bA_nat' (x k : UInt64) (n : Nat) (hk : k.toNat = n) (hn : n < 64) : (bA x k).toNat = x.toNat / 2 ^ n % 256 := by
  subst hk; exact bA_nat x k hn

theorem bS_nat' (x k : UInt64) (n : Nat) (hk : k.toNat = n) (hn : n < 64) : (bS x k).toNat = x.toNat / 2 ^ n % 256 := by
  subst hk; exact bS_nat x k hn

theorem bJ3 (lo hi : UInt64) (h : lo.toNat < 2 ^ 51) :
    (bJ lo 48 hi 3 0xF8).toNat = hi.toNat % 32 * 8 + lo.toNat / 2 ^ 48 := by
  simp only [bJ, UInt64.toUInt8_xor, UInt32.toUInt8_toUInt64, UInt32.toUInt8_and, UInt64.toUInt8_toUInt32,
    UInt32.toUInt8_ofNat, UInt64.toUInt8_shiftLeft hi 3 (by decide), UInt64.toUInt8_ofNat, UInt8.toNat_xor, j3,
    shr8 lo 48 (by decide), UInt64.toNat_toUInt8]
  have e : (48 : UInt64).toNat = 48 := rfl
  rw [e, Nat.mod_eq_of_lt (show lo.toNat / 2 ^ 48 < 256 by omega),
    show hi.toNat % 2 ^ 8 % 32 * 8 = (hi.toNat % 32) * 2 ^ 3 by omega, xor_disj _ _ 3 (by omega)]
  omega

theorem bJ6 (lo hi : UInt64) (h : lo.toNat < 2 ^ 51) :
    (bJ lo 45 hi 6 0xC0).toNat = hi.toNat % 4 * 64 + lo.toNat / 2 ^ 45 := by
  simp only [bJ, UInt64.toUInt8_xor, UInt32.toUInt8_toUInt64, UInt32.toUInt8_and, UInt64.toUInt8_toUInt32,
    UInt32.toUInt8_ofNat, UInt64.toUInt8_shiftLeft hi 6 (by decide), UInt64.toUInt8_ofNat, UInt8.toNat_xor, j6,
    shr8 lo 45 (by decide), UInt64.toNat_toUInt8]
  have e : (45 : UInt64).toNat = 45 := rfl
  rw [e, Nat.mod_eq_of_lt (show lo.toNat / 2 ^ 45 < 256 by omega),
    show hi.toNat % 2 ^ 8 % 4 * 64 = (hi.toNat % 4) * 2 ^ 6 by omega, xor_disj _ _ 6 (by omega)]
  omega

theorem bJ1 (lo hi : UInt64) (h : lo.toNat < 2 ^ 51) :
    (bJ lo 50 hi 1 0xFE).toNat = hi.toNat % 128 * 2 + lo.toNat / 2 ^ 50 := by
  simp only [bJ, UInt64.toUInt8_xor, UInt32.toUInt8_toUInt64, UInt32.toUInt8_and, UInt64.toUInt8_toUInt32,
    UInt32.toUInt8_ofNat, UInt64.toUInt8_shiftLeft hi 1 (by decide), UInt64.toUInt8_ofNat, UInt8.toNat_xor, j1,
    shr8 lo 50 (by decide), UInt64.toNat_toUInt8]
  have e : (50 : UInt64).toNat = 50 := rfl
  rw [e, Nat.mod_eq_of_lt (show lo.toNat / 2 ^ 50 < 256 by omega),
    show hi.toNat % 2 ^ 8 % 128 * 2 = (hi.toNat % 128) * 2 ^ 1 by omega, xor_disj _ _ 1 (by omega)]
  omega

theorem bJ4 (lo hi : UInt64) (h : lo.toNat < 2 ^ 51) :
    (bJ lo 47 hi 4 0xF0).toNat = hi.toNat % 16 * 16 + lo.toNat / 2 ^ 47 := by
  simp only [bJ, UInt64.toUInt8_xor, UInt32.toUInt8_toUInt64, UInt32.toUInt8_and, UInt64.toUInt8_toUInt32,
    UInt32.toUInt8_ofNat, UInt64.toUInt8_shiftLeft hi 4 (by decide), UInt64.toUInt8_ofNat, UInt8.toNat_xor, j4,
    shr8 lo 47 (by decide), UInt64.toNat_toUInt8]
  have e : (47 : UInt64).toNat = 47 := rfl
  rw [e, Nat.mod_eq_of_lt (show lo.toNat / 2 ^ 47 < 256 by omega),
    show hi.toNat % 2 ^ 8 % 16 * 16 = (hi.toNat % 16) * 2 ^ 4 by omega, xor_disj _ _ 4 (by omega)]
  omega

end Sodium.X86ScalarP
