import SodiumModel.Model.Codecs
import SodiumModel.Spec.Base64
import SodiumModel.Proofs.ByteDecide
/-
  Helper lemmas for C15 (codecs).
-/
open Sodium Sodium.Model Sodium.Spec.Base64
namespace Sodium

/-! ### character tables (256-case kernel evaluation) -/

set_option maxRecDepth 100000 in
theorem hexPair_tbl : ∀ x : UInt8, hexPair x = [hexNibbleChar (x.toNat / 16), hexNibbleChar (x.toNat % 16)] := by
  decide +kernel

set_option maxRecDepth 100000 in
theorem hexClassify_tbl : ∀ c : UInt8,
    hexClassify c = match hexCharVal c with
      | some n => (0xFF, UInt8.ofNat n)
      | none => (0, 0) := by
  decide +kernel

set_option maxRecDepth 100000 in
theorem b2c_tbl : ∀ y : UInt8, y.toNat < 64 → (b64_byte_to_char y.toUInt32).toUInt8 = sextetChar false y.toNat := by
  decide +kernel
set_option maxRecDepth 100000 in
theorem b2cu_tbl : ∀ y : UInt8, y.toNat < 64 → (b64_byte_to_urlsafe_char y.toUInt32).toUInt8 = sextetChar true y.toNat := by
  decide +kernel

theorem u32_of_lt256 (x : UInt32) (h : x.toNat < 256) : x = (UInt8.ofNat x.toNat).toUInt32 := by
  apply UInt32.toNat_inj.mp
  simp
  omega

theorem encChar_tbl (v : UInt32) (x : UInt32) (hx : x.toNat < 64) :
    encChar v x = sextetChar (isUrlsafe v) x.toNat := by
  have hy : (UInt8.ofNat x.toNat).toNat = x.toNat := by simp; omega
  rw [u32_of_lt256 x (by omega)]
  unfold encChar
  cases isUrlsafe v
  · simp only [Bool.false_eq_true, if_false]
    have := b2c_tbl (UInt8.ofNat x.toNat) (by omega)
    simpa [hy] using this
  · simp only [if_true]
    have := b2cu_tbl (UInt8.ofNat x.toNat) (by omega)
    simpa [hy] using this

set_option maxRecDepth 100000 in
theorem c2b_tbl : ∀ c : UInt8, b64_char_to_byte (charToU32 c) = match charSextet false c with
      | some n => UInt32.ofNat n
      | none => 0xFF := by
  decide +kernel
set_option maxRecDepth 100000 in
theorem c2bu_tbl : ∀ c : UInt8, b64_urlsafe_char_to_byte (charToU32 c) = match charSextet true c with
      | some n => UInt32.ofNat n
      | none => 0xFF := by
  decide +kernel

theorem decChar_tbl (v : UInt32) (c : UInt8) :
    decChar v c = match charSextet (isUrlsafe v) c with
      | some n => UInt32.ofNat n
      | none => 0xFF := by
  unfold decChar
  cases isUrlsafe v
  · simpa using c2b_tbl c
  · simpa using c2bu_tbl c

/-! ### hex encoding, lengths -/

theorem bin2hex_spec (hexMaxlen : UInt64) (bin : Bytes) (hlen : bin.length < 2 ^ 63 - 1) :
    sodium_bin2hex hexMaxlen bin =
      if hexMaxlen.toNat ≤ 2 * bin.length then .misuse else .ok (hexEncode bin ++ [0]) := by
  have hfm : bin.flatMap hexPair = hexEncode bin := by
    unfold hexEncode
    congr 1
    funext x
    exact hexPair_tbl x
  unfold sodium_bin2hex
  simp only [hfm]
  have h1 : (UInt64.ofNat bin.length).toNat = bin.length := by
    simp; omega
  have h2 : ¬ (UInt64.ofNat bin.length ≥ (0xFFFFFFFFFFFFFFFF : UInt64) / 2) := by
    rw [ge_iff_le, UInt64.le_iff_toNat_le, h1]
    simp; omega
  have h3 : (hexMaxlen ≤ UInt64.ofNat bin.length * 2) ↔ hexMaxlen.toNat ≤ 2 * bin.length := by
    rw [UInt64.le_iff_toNat_le, UInt64.toNat_mul, h1]
    simp; omega
  simp only [h2, h3, false_or]

theorem b64Len_spec (v : UInt32) (n : Nat) : b64Len v n = encodedLen (!isNoPad v) n := by
  unfold b64Len encodedLen
  have hr : n - 3 * (n / 3) = n % 3 := by omega
  simp only [hr]
  have : n % 3 = 0 ∨ n % 3 = 1 ∨ n % 3 = 2 := by omega
  rcases this with h | h | h <;> simp only [h] <;> cases isNoPad v <;> simp <;> omega

theorem encode_len (us pad : Bool) (b : Bytes) : (encode us pad b).length = encodedLen pad b.length := by
  fun_induction encode us pad b with
  | case1 a b c rest ih =>
    simp only [List.length_cons, ih]
    unfold encodedLen
    cases pad <;> simp <;> omega
  | case2 a b => cases pad <;> simp [encodedLen]
  | case3 a => cases pad <;> simp [encodedLen]
  | case4 => cases pad <;> simp [encodedLen]


/-! ### Base64 encoder -/

theorem and63 (n : Nat) : n &&& 63 = n % 64 := Nat.and_two_pow_sub_one_eq_mod n 6

/-- accumulator after absorbing one byte -/
def accB (acc : UInt32) (b : UInt8) : UInt32 := (acc <<< 8) + b.toUInt32

theorem accB_toNat (acc : UInt32) (b : UInt8) : (accB acc b).toNat = (acc.toNat * 256 + b.toNat) % 2 ^ 32 := by
  have := b.toNat_lt
  simp [accB, UInt32.toNat_add, UInt32.toNat_shiftLeft, Nat.shiftLeft_eq]

theorem enc_s1 (acc : UInt32) (a : UInt8) :
    (((accB acc a) >>> 2) &&& 0x3F).toNat = a.toNat / 4 := by
  have := a.toNat_lt
  simp [UInt32.toNat_shiftRight, Nat.shiftRight_eq_div_pow, accB_toNat, and63]
  omega

theorem enc_s2 (acc : UInt32) (a b : UInt8) :
    (((accB (accB acc a) b) >>> 4) &&& 0x3F).toNat = (a.toNat % 4) * 16 + b.toNat / 16 := by
  have := a.toNat_lt; have := b.toNat_lt
  simp [UInt32.toNat_shiftRight, Nat.shiftRight_eq_div_pow, accB_toNat, and63]
  omega

theorem enc_s3 (acc : UInt32) (b c : UInt8) :
    (((accB (accB acc b) c) >>> 6) &&& 0x3F).toNat = (b.toNat % 16) * 4 + c.toNat / 64 := by
  have := c.toNat_lt; have := b.toNat_lt
  simp [UInt32.toNat_shiftRight, Nat.shiftRight_eq_div_pow, accB_toNat, and63]
  omega

theorem enc_s4 (acc : UInt32) (c : UInt8) :
    (((accB acc c) >>> 0) &&& 0x3F).toNat = c.toNat % 64 := by
  have := c.toNat_lt
  simp [accB_toNat, and63]
  omega

theorem enc_t1 (acc : UInt32) (a : UInt8) :
    (((accB acc a) <<< 4) &&& 0x3F).toNat = (a.toNat % 4) * 16 := by
  have := a.toNat_lt
  simp [UInt32.toNat_shiftLeft, Nat.shiftLeft_eq, accB_toNat, and63]
  omega

theorem enc_t2 (acc : UInt32) (b : UInt8) :
    (((accB acc b) <<< 2) &&& 0x3F).toNat = (b.toNat % 16) * 4 := by
  have := b.toNat_lt
  simp [UInt32.toNat_shiftLeft, Nat.shiftLeft_eq, accB_toNat, and63]
  omega


theorem accB_def (acc : UInt32) (b : UInt8) : (acc <<< 8) + b.toUInt32 = accB acc b := rfl
theorem ofNat2 : UInt32.ofNat 2 = 2 := rfl
theorem ofNat4 : UInt32.ofNat 4 = 4 := rfl

theorem encDrain_8 (v acc) : encDrain v acc 8 = ([encChar v ((acc >>> 2) &&& 0x3F)], 2) := by
  simp [encDrain]
theorem encDrain_10 (v acc) : encDrain v acc 10 = ([encChar v ((acc >>> 4) &&& 0x3F)], 4) := by
  simp [encDrain]
theorem encDrain_12 (v acc) : encDrain v acc 12 =
    ([encChar v ((acc >>> 6) &&& 0x3F), encChar v ((acc >>> 0) &&& 0x3F)], 0) := by
  simp [encDrain]

theorem encLoop_3 (v : UInt32) (a b c : UInt8) (rest : Bytes) (acc : UInt32) :
    encLoop v (a :: b :: c :: rest) acc 0 =
      sextetChar (isUrlsafe v) (a.toNat / 4) :: sextetChar (isUrlsafe v) ((a.toNat % 4) * 16 + b.toNat / 16) ::
      sextetChar (isUrlsafe v) ((b.toNat % 16) * 4 + c.toNat / 64) :: sextetChar (isUrlsafe v) (c.toNat % 64) ::
      encLoop v rest (accB (accB (accB acc a) b) c) 0 := by
  have ha := a.toNat_lt; have hb := b.toNat_lt; have hc := c.toNat_lt
  simp only [encLoop, accB_def, Nat.zero_add, encDrain_8, encDrain_10, encDrain_12,
    Nat.reduceAdd, List.cons_append, List.nil_append]
  rw [encChar_tbl _ _ (by rw [enc_s1]; omega), encChar_tbl _ _ (by rw [enc_s2]; omega),
    encChar_tbl _ _ (by rw [enc_s3]; omega), encChar_tbl _ _ (by rw [enc_s4]; omega),
    enc_s1, enc_s2, enc_s3, enc_s4]

theorem encLoop_2 (v : UInt32) (a b : UInt8) (acc : UInt32) :
    encLoop v [a, b] acc 0 =
      [sextetChar (isUrlsafe v) (a.toNat / 4), sextetChar (isUrlsafe v) ((a.toNat % 4) * 16 + b.toNat / 16),
       sextetChar (isUrlsafe v) ((b.toNat % 16) * 4)] := by
  have ha := a.toNat_lt; have hb := b.toNat_lt
  simp only [encLoop, accB_def, Nat.zero_add, encDrain_8, encDrain_10,
    Nat.reduceAdd, List.cons_append, List.nil_append]
  simp only [Nat.reduceSub, Nat.reduceGT, if_true, ofNat2]
  rw [encChar_tbl _ _ (by rw [enc_s1]; omega), encChar_tbl _ _ (by rw [enc_s2]; omega),
    encChar_tbl _ _ (by rw [enc_t2]; omega), enc_s1, enc_s2, enc_t2]

theorem encLoop_1 (v : UInt32) (a : UInt8) (acc : UInt32) :
    encLoop v [a] acc 0 =
      [sextetChar (isUrlsafe v) (a.toNat / 4), sextetChar (isUrlsafe v) ((a.toNat % 4) * 16)] := by
  have ha := a.toNat_lt
  simp only [encLoop, accB_def, Nat.zero_add, encDrain_8, List.cons_append, List.nil_append]
  simp only [Nat.reduceSub, Nat.reduceGT, if_true, ofNat4]
  rw [encChar_tbl _ _ (by rw [enc_s1]; omega), encChar_tbl _ _ (by rw [enc_t1]; omega), enc_s1, enc_t1]

theorem encLoop_nopad (v : UInt32) (bin : Bytes) (acc : UInt32) :
    encLoop v bin acc 0 = encode (isUrlsafe v) false bin := by
  fun_induction encode (isUrlsafe v) false bin generalizing acc with
  | case1 a b c rest ih => rw [encLoop_3, ih]
  | case2 a b => rw [encLoop_2]; simp
  | case3 a => rw [encLoop_1]; simp
  | case4 => simp [encLoop]

theorem encode_pad (us pad : Bool) (bin : Bytes) :
    encode us pad bin = encode us false bin ++
      List.replicate (encodedLen pad bin.length - encodedLen false bin.length) 61 := by
  fun_induction encode us pad bin with
  | case1 a b c rest ih =>
    rw [ih]
    have : encodedLen pad (a :: b :: c :: rest).length - encodedLen false (a :: b :: c :: rest).length
        = encodedLen pad rest.length - encodedLen false rest.length := by
      simp only [List.length_cons]; unfold encodedLen; cases pad <;> simp <;> omega
    rw [this]
    simp [encode]
  | case2 a b => cases pad <;> simp [encode, encodedLen, padChar]
  | case3 a => cases pad <;> simp [encode, encodedLen, padChar, List.replicate]
  | case4 => cases pad <;> simp [encode, encodedLen]


theorem bin2base64_spec (maxlen : Nat) (bin : Bytes) (v : UInt32) :
    sodium_bin2base64 maxlen bin v =
      if !variantOk v then .misuse
      else if maxlen ≤ encodedLen (!isNoPad v) bin.length then .misuse
      else .ok (encode (isUrlsafe v) (!isNoPad v) bin ++ zeros (maxlen - encodedLen (!isNoPad v) bin.length)) := by
  unfold sodium_bin2base64
  simp only [b64Len_spec, encLoop_nopad, encode_len, zeros]
  rw [encode_pad (isUrlsafe v) (!isNoPad v) bin]

/-! ### hex decoder -/

theorem hexClassify_none {c : UInt8} (h : hexCharVal c = none) : hexClassify c = (0, 0) := by
  rw [hexClassify_tbl, h]
theorem hexClassify_some {c : UInt8} {n : Nat} (h : hexCharVal c = some n) : hexClassify c = (0xFF, UInt8.ofNat n) := by
  rw [hexClassify_tbl, h]

theorem hexLoop_nondigit (cap ign) (c : UInt8) (rest pos binRev cAcc st) (h : hexCharVal c = none) :
    hexLoop cap ign (c :: rest) pos binRev cAcc st =
      if !st && inIgnore ign c then hexLoop cap ign rest (pos + 1) binRev cAcc st
      else ⟨0, pos, binRev.reverse, st⟩ := by
  simp [hexLoop, hexClassify_none h]

theorem hexLoop_digit (cap ign) (c : UInt8) (n : Nat) (rest pos binRev cAcc st) (h : hexCharVal c = some n) :
    hexLoop cap ign (c :: rest) pos binRev cAcc st =
      if binRev.length ≥ cap then ⟨-1, pos, binRev.reverse, st⟩
      else if !st then hexLoop cap ign rest (pos + 1) binRev (UInt8.ofNat n * 16) true
      else hexLoop cap ign rest (pos + 1) ((cAcc ||| UInt8.ofNat n) :: binRev) cAcc false := by
  simp [hexLoop, hexClassify_some h]

theorem hexCharVal_cases (c : UInt8) : hexCharVal c = none ∨ ∃ n, hexCharVal c = some n := by
  cases h : hexCharVal c
  · exact .inl rfl
  · exact .inr ⟨_, rfl⟩

theorem hexLoop_cap (cap ign) : ∀ (hex : Bytes) (pos : Nat) (binRev : Bytes) (cAcc : UInt8) (st : Bool),
    binRev.length ≤ cap → (hexLoop cap ign hex pos binRev cAcc st).bin.length ≤ cap
  | [], pos, binRev, cAcc, st, h => by simpa [hexLoop] using h
  | c :: rest, pos, binRev, cAcc, st, h => by
    rcases hexCharVal_cases c with hc | ⟨n, hc⟩
    · rw [hexLoop_nondigit _ _ _ _ _ _ _ _ hc]
      split
      · exact hexLoop_cap cap ign rest _ _ _ _ h
      · simpa using h
    · rw [hexLoop_digit _ _ _ _ _ _ _ _ _ hc]
      split
      · simpa using h
      · split
        · exact hexLoop_cap cap ign rest _ _ _ _ h
        · exact hexLoop_cap cap ign rest _ _ _ _ (by simp; omega)

theorem hex2bin_cap (cap : Nat) (hex : Bytes) (ign : Option Bytes) (wantEnd : Bool) :
    (sodium_hex2bin cap hex ign wantEnd).written.length ≤ cap := by
  simp only [sodium_hex2bin]
  exact hexLoop_cap cap ign hex 0 [] 0 false (Nat.zero_le _)

theorem hex2bin_fail_len (cap : Nat) (hex : Bytes) (ign : Option Bytes) :
    (sodium_hex2bin cap hex ign true).rc ≠ 0 → (sodium_hex2bin cap hex ign true).binLen = 0 := by
  simp only [sodium_hex2bin]
  intro h
  simp only [Bool.not_true, Bool.false_and, Bool.false_eq_true, if_false] at h ⊢
  rw [if_pos h]


/-- reference grammar for hex text (same as `C15.HexWF`) -/
inductive HexGram (ign : Option Bytes) : Bytes → Bytes → Prop where
  | nil : HexGram ign [] []
  | skip (c : UInt8) (rest out : Bytes) : hexCharVal c = none → inIgnore ign c = true →
      HexGram ign rest out → HexGram ign (c :: rest) out
  | pair (hi lo : UInt8) (a b : Nat) (rest out : Bytes) : hexCharVal hi = some a → hexCharVal lo = some b →
      HexGram ign rest out → HexGram ign (hi :: lo :: rest) (UInt8.ofNat (16 * a + b) :: out)

theorem hexCharVal_lt {c : UInt8} {n : Nat} (h : hexCharVal c = some n) : n < 16 := by
  unfold hexCharVal at h
  simp only [UInt8.le_iff_toNat_le] at h
  split at h
  · cases h; simp at *; omega
  · split at h
    · cases h; simp at *; omega
    · split at h
      · cases h; simp at *; omega
      · cases h

theorem nibbles_join : ∀ a b : Fin 16, UInt8.ofNat a.val * 16 ||| UInt8.ofNat b.val = UInt8.ofNat (16 * a.val + b.val) := by
  decide

theorem nibbles_join' {a b : Nat} (ha : a < 16) (hb : b < 16) :
    UInt8.ofNat a * 16 ||| UInt8.ofNat b = UInt8.ofNat (16 * a + b) := nibbles_join ⟨a, ha⟩ ⟨b, hb⟩

theorem hexLoop_of_gram (cap ign) {hex out : Bytes} (hg : HexGram ign hex out) :
    ∀ (pos : Nat) (binRev : Bytes) (cAcc : UInt8), binRev.length + out.length ≤ cap →
      hexLoop cap ign hex pos binRev cAcc false = ⟨0, pos + hex.length, binRev.reverse ++ out, false⟩ := by
  induction hg with
  | nil => intro pos binRev cAcc _; simp [hexLoop]
  | skip c rest out hc hi _ ih =>
    intro pos binRev cAcc h
    rw [hexLoop_nondigit _ _ _ _ _ _ _ _ hc, ih _ _ _ h]
    simp [hi]; omega
  | pair hi lo a b rest out ha hb _ ih =>
    intro pos binRev cAcc h
    simp only [List.length_cons] at h
    rw [hexLoop_digit _ _ _ _ _ _ _ _ _ ha, if_neg (by omega)]
    simp only [Bool.not_false, if_true]
    rw [hexLoop_digit _ _ _ _ _ _ _ _ _ hb, if_neg (by omega)]
    simp only [Bool.not_true, Bool.false_eq_true, if_false]
    rw [ih _ _ _ (by simp; omega), nibbles_join' (hexCharVal_lt ha) (hexCharVal_lt hb)]
    simp; omega

theorem gram_of_hexLoop (cap ign) : ∀ (hex : Bytes) (pos : Nat) (binRev : Bytes) (cAcc : UInt8),
    (hexLoop cap ign hex pos binRev cAcc false).ret = 0 →
    (hexLoop cap ign hex pos binRev cAcc false).state = false →
    (hexLoop cap ign hex pos binRev cAcc false).pos = pos + hex.length →
    ∃ out, (hexLoop cap ign hex pos binRev cAcc false).bin = binRev.reverse ++ out ∧ HexGram ign hex out
  | [], pos, binRev, cAcc, _, _, _ => ⟨[], by simp [hexLoop], .nil⟩
  | c :: rest, pos, binRev, cAcc, h1, h2, h3 => by
    rcases hexCharVal_cases c with hc | ⟨a, hc⟩
    · rw [hexLoop_nondigit _ _ _ _ _ _ _ _ hc] at h1 h2 h3 ⊢
      by_cases hi : inIgnore ign c = true
      · simp only [hi, Bool.not_false, Bool.and_self, if_true] at h1 h2 h3 ⊢
        obtain ⟨out, ho, hg⟩ := gram_of_hexLoop cap ign rest (pos + 1) binRev cAcc h1 h2
          (by rw [h3]; simp; omega)
        exact ⟨out, ho, .skip c rest out hc hi hg⟩
      · simp [hi] at h3
    · rw [hexLoop_digit _ _ _ _ _ _ _ _ _ hc] at h1 h2 h3 ⊢
      by_cases hcap : binRev.length ≥ cap
      · simp [hcap] at h1
      · simp only [hcap, if_false, Bool.not_false, if_true] at h1 h2 h3 ⊢
        match rest, h1, h2, h3 with
        | [], _, h2, _ => simp [hexLoop] at h2
        | d :: rest', h1, h2, h3 =>
          rcases hexCharVal_cases d with hd | ⟨b, hd⟩
          · rw [hexLoop_nondigit _ _ _ _ _ _ _ _ hd] at h2
            simp at h2
          · rw [hexLoop_digit _ _ _ _ _ _ _ _ _ hd] at h1 h2 h3 ⊢
            by_cases hcap' : binRev.length ≥ cap
            · exact absurd hcap' hcap
            · simp only [hcap', if_false, Bool.not_true, Bool.false_eq_true] at h1 h2 h3 ⊢
              obtain ⟨out, ho, hg⟩ := gram_of_hexLoop cap ign rest' (pos + 1 + 1) _ _ h1 h2
                (by rw [h3]; simp; omega)
              refine ⟨_, ?_, .pair c d a b rest' out hc hd hg⟩
              rw [ho, nibbles_join' (hexCharVal_lt hc) (hexCharVal_lt hd)]
              simp


theorem hex2bin_of_gram (cap : Nat) {hex out : Bytes} (ign : Option Bytes) (wantEnd : Bool)
    (hg : HexGram ign hex out) (hc : out.length ≤ cap) :
    sodium_hex2bin cap hex ign wantEnd = ⟨0, out.length, hex.length, out⟩ := by
  have := hexLoop_of_gram cap ign hg 0 [] 0 (by simpa using hc)
  simp [sodium_hex2bin, this]

theorem hex2bin_spec (cap : Nat) (hex : Bytes) (ign : Option Bytes) (out : Bytes) :
    ((sodium_hex2bin cap hex ign false).rc = 0 ∧ (sodium_hex2bin cap hex ign false).written = out
        ∧ (sodium_hex2bin cap hex ign false).binLen = out.length)
      ↔ (HexGram ign hex out ∧ out.length ≤ cap) := by
  constructor
  · rintro ⟨h1, h2, _⟩
    have hcap := hex2bin_cap cap hex ign false
    rw [h2] at hcap
    refine ⟨?_, hcap⟩
    simp only [sodium_hex2bin] at h1 h2
    generalize hl : hexLoop cap ign hex 0 [] 0 false = l at h1 h2
    by_cases hs : l.state = true
    · simp [hs] at h1
    · simp only [hs, Bool.not_false, Bool.true_and] at h1
      by_cases hp : l.pos = hex.length
      · simp only [hp, ne_eq, not_true_eq_false, decide_false, Bool.false_eq_true, if_false] at h1
        obtain ⟨o, ho, hg⟩ := gram_of_hexLoop cap ign hex 0 [] 0 (by rw [hl]; exact h1)
          (by rw [hl]; simpa using hs) (by rw [hl]; simpa using hp)
        rw [hl, h2] at ho
        simp at ho
        rw [ho]; exact hg
      · simp [hp] at h1
  · rintro ⟨hg, hc⟩
    rw [hex2bin_of_gram cap ign false hg hc]
    simp

theorem hexNibble_val : ∀ n : Fin 16, hexCharVal (hexNibbleChar n.val) = some n.val := by decide

theorem hexEncode_gram (ign : Option Bytes) (bin : Bytes) : HexGram ign (hexEncode bin) bin := by
  induction bin with
  | nil => exact .nil
  | cons x xs ih =>
    have hx := x.toNat_lt
    have h1 := hexNibble_val ⟨x.toNat / 16, by omega⟩
    have h2 := hexNibble_val ⟨x.toNat % 16, by omega⟩
    have := HexGram.pair (ign := ign) _ _ _ _ _ _ h1 h2 ih
    have hb : UInt8.ofNat (16 * (x.toNat / 16) + x.toNat % 16) = x := by
      rw [Nat.div_add_mod]; simp
    simp only [hb] at this
    simpa [hexEncode] using this

theorem hexEncode_length (bin : Bytes) : (hexEncode bin).length = 2 * bin.length := by
  induction bin with
  | nil => rfl
  | cons x xs ih => simp only [hexEncode, List.flatMap_cons, List.length_append, List.length_cons] at ih ⊢; simp at ih ⊢; omega

theorem hex2bin_roundtrip (bin : Bytes) (cap : Nat) (h : bin.length ≤ cap) (ign : Option Bytes) (wantEnd : Bool) :
    sodium_hex2bin cap (hexEncode bin) ign wantEnd = ⟨0, bin.length, 2 * bin.length, bin⟩ := by
  rw [hex2bin_of_gram cap ign wantEnd (hexEncode_gram ign bin) h, hexEncode_length]


/-! ### Base64 decoder: arithmetic of the accumulator -/

/-- decoder state: bytes emitted so far (reversed), accumulator, number of pending bits -/
abbrev DState := Bytes × UInt32 × Nat

/-- one step of the decoding loop on a sextet value: exact model arithmetic, no capacity check -/
def dstep (st : DState) (d : UInt32) : DState :=
  let acc' := (st.2.1 <<< 6) + d
  if st.2.2 + 6 ≥ 8 then
    (((acc' >>> (UInt32.ofNat (st.2.2 + 6 - 8))) &&& 0xFF).toUInt8 :: st.1, acc', st.2.2 + 6 - 8)
  else (st.1, acc', st.2.2 + 6)

def accS (acc d : UInt32) : UInt32 := (acc <<< 6) + d

theorem accS_toNat (acc d : UInt32) : (accS acc d).toNat = (acc.toNat * 64 + d.toNat) % 2 ^ 32 := by
  simp [accS, UInt32.toNat_add, UInt32.toNat_shiftLeft, Nat.shiftLeft_eq]

theorem ofNat_toNat_lt64 {x : Nat} (h : x < 64) : (UInt32.ofNat x).toNat = x := by
  simp; omega

theorem and255 (n : Nat) : n &&& 255 = n % 256 := Nat.and_two_pow_sub_one_eq_mod n 8
theorem and15 (n : Nat) : n &&& 15 = n % 16 := Nat.and_two_pow_sub_one_eq_mod n 4
theorem and3 (n : Nat) : n &&& 3 = n % 4 := Nat.and_two_pow_sub_one_eq_mod n 2

theorem dec_b1 (acc : UInt32) (a b : Nat) (ha : a < 64) (hb : b < 64) :
    (((accS (accS acc (UInt32.ofNat a)) (UInt32.ofNat b)) >>> 4) &&& 0xFF).toUInt8 = UInt8.ofNat (a * 4 + b / 16) := by
  apply UInt8.toNat_inj.mp
  simp [UInt32.toNat_shiftRight, Nat.shiftRight_eq_div_pow, accS_toNat, and255, ofNat_toNat_lt64 ha, ofNat_toNat_lt64 hb]
  omega

theorem dec_b2 (acc : UInt32) (b c : Nat) (hb : b < 64) (hc : c < 64) :
    (((accS (accS acc (UInt32.ofNat b)) (UInt32.ofNat c)) >>> 2) &&& 0xFF).toUInt8 = UInt8.ofNat (b % 16 * 16 + c / 4) := by
  apply UInt8.toNat_inj.mp
  simp [UInt32.toNat_shiftRight, Nat.shiftRight_eq_div_pow, accS_toNat, and255, ofNat_toNat_lt64 hb, ofNat_toNat_lt64 hc]
  omega

theorem dec_b3 (acc : UInt32) (c d : Nat) (hc : c < 64) (hd : d < 64) :
    (((accS (accS acc (UInt32.ofNat c)) (UInt32.ofNat d)) >>> 0) &&& 0xFF).toUInt8 = UInt8.ofNat (c % 4 * 64 + d) := by
  apply UInt8.toNat_inj.mp
  simp [accS_toNat, and255, ofNat_toNat_lt64 hc, ofNat_toNat_lt64 hd]
  omega

/-- the final strictness test of `sodium_base642bin` -/
def badTail (acc : UInt32) (n : Nat) : Prop := n > 4 ∨ (acc &&& ((1 <<< (UInt32.ofNat n)) - 1)) ≠ 0

theorem badTail_0 (acc : UInt32) : ¬ badTail acc 0 := by
  simp [badTail]
theorem badTail_6 (acc : UInt32) : badTail acc 6 := by
  simp [badTail]
theorem badTail_4 (acc : UInt32) (b : Nat) (hb : b < 64) : badTail (accS acc (UInt32.ofNat b)) 4 ↔ b % 16 ≠ 0 := by
  have h15 : ((1 : UInt32) <<< (UInt32.ofNat 4)) - 1 = 15 := by decide
  simp only [badTail, h15, Nat.lt_irrefl, false_or, ne_eq, ← UInt32.toNat_inj]
  simp [accS_toNat, and15, ofNat_toNat_lt64 hb]
  omega
theorem badTail_2 (acc : UInt32) (c : Nat) (hc : c < 64) : badTail (accS acc (UInt32.ofNat c)) 2 ↔ c % 4 ≠ 0 := by
  have h3 : ((1 : UInt32) <<< (UInt32.ofNat 2)) - 1 = 3 := by decide
  simp only [badTail, h3, ne_eq, ← UInt32.toNat_inj]
  simp [accS_toNat, and3, ofNat_toNat_lt64 hc]
  omega


/-- bytes of a sextet sequence (complete groups plus a partial tail) -/
def ungroup : List Nat → Bytes
  | a :: b :: c :: d :: r =>
    UInt8.ofNat (a * 4 + b / 16) :: UInt8.ofNat (b % 16 * 16 + c / 4) :: UInt8.ofNat (c % 4 * 64 + d) :: ungroup r
  | [a, b, c] => [UInt8.ofNat (a * 4 + b / 16), UInt8.ofNat (b % 16 * 16 + c / 4)]
  | [a, b] => [UInt8.ofNat (a * 4 + b / 16)]
  | [_] => []
  | [] => []

/-- canonical: no dangling single sextet, trailing bits zero -/
def canon : List Nat → Prop
  | _ :: _ :: _ :: _ :: r => canon r
  | [_, _, c] => c % 4 = 0
  | [_, b] => b % 16 = 0
  | [_] => False
  | [] => True

/-- pending bits after a sextet sequence -/
def tlen : List Nat → Nat
  | _ :: _ :: _ :: _ :: r => tlen r
  | [_, _, _] => 2
  | [_, _] => 4
  | [_] => 6
  | [] => 0

def dfold (st : DState) (s : List Nat) : DState := s.foldl (fun st x => dstep st (UInt32.ofNat x)) st

theorem dfold_nil (st : DState) : dfold st [] = st := rfl
theorem dfold_cons (st : DState) (x : Nat) (s : List Nat) : dfold st (x :: s) = dfold (dstep st (UInt32.ofNat x)) s := rfl

theorem dstep_0 (br : Bytes) (acc d : UInt32) : dstep (br, acc, 0) d = (br, accS acc d, 6) := by
  simp [dstep, accS]
theorem dstep_6 (br : Bytes) (acc d : UInt32) :
    dstep (br, acc, 6) d = (((accS acc d >>> 4) &&& 0xFF).toUInt8 :: br, accS acc d, 4) := by
  simp [dstep, accS]
theorem dstep_4 (br : Bytes) (acc d : UInt32) :
    dstep (br, acc, 4) d = (((accS acc d >>> 2) &&& 0xFF).toUInt8 :: br, accS acc d, 2) := by
  simp [dstep, accS]
theorem dstep_2 (br : Bytes) (acc d : UInt32) :
    dstep (br, acc, 2) d = (((accS acc d >>> 0) &&& 0xFF).toUInt8 :: br, accS acc d, 0) := by
  simp [dstep, accS]

/-- value of the decoding fold from a group boundary -/
theorem dfold_spec : ∀ (s : List Nat) (br : Bytes) (acc : UInt32), (∀ x ∈ s, x < 64) →
    ∃ acc', dfold (br, acc, 0) s = ((ungroup s).reverse ++ br, acc', tlen s) ∧ (badTail acc' (tlen s) ↔ ¬ canon s)
  | [], br, acc, _ => ⟨acc, by simp [dfold_nil, ungroup, tlen], by simp [tlen, canon, badTail_0]⟩
  | [a], br, acc, _ => ⟨accS acc (UInt32.ofNat a), by simp [dfold_cons, dfold_nil, dstep_0, ungroup, tlen],
      by simp [tlen, canon, badTail_6]⟩
  | [a, b], br, acc, h => by
    have ha : a < 64 := h a (by simp)
    have hb : b < 64 := h b (by simp)
    refine ⟨accS (accS acc (UInt32.ofNat a)) (UInt32.ofNat b), ?_, ?_⟩
    · simp [dfold_cons, dfold_nil, dstep_0, dstep_6, ungroup, tlen, dec_b1 _ _ _ ha hb]
    · simp [tlen, canon, badTail_4 _ _ hb]
  | [a, b, c], br, acc, h => by
    have ha : a < 64 := h a (by simp)
    have hb : b < 64 := h b (by simp)
    have hc : c < 64 := h c (by simp)
    refine ⟨accS (accS (accS acc (UInt32.ofNat a)) (UInt32.ofNat b)) (UInt32.ofNat c), ?_, ?_⟩
    · simp [dfold_cons, dfold_nil, dstep_0, dstep_6, dstep_4, ungroup, tlen, dec_b1 _ _ _ ha hb, dec_b2 _ _ _ hb hc]
    · simp [tlen, canon, badTail_2 _ _ hc]
  | a :: b :: c :: d :: r, br, acc, h => by
    have ha : a < 64 := h a (by simp)
    have hb : b < 64 := h b (by simp)
    have hc : c < 64 := h c (by simp)
    have hd : d < 64 := h d (by simp)
    obtain ⟨acc', h1, h2⟩ := dfold_spec r
      (UInt8.ofNat (c % 4 * 64 + d) :: UInt8.ofNat (b % 16 * 16 + c / 4) :: UInt8.ofNat (a * 4 + b / 16) :: br)
      (accS (accS (accS (accS acc (UInt32.ofNat a)) (UInt32.ofNat b)) (UInt32.ofNat c)) (UInt32.ofNat d))
      (fun x hx => h x (by simp [hx]))
    refine ⟨acc', ?_, ?_⟩
    · simp only [dfold_cons, dstep_0, dstep_6, dstep_4, dstep_2, dec_b1 _ _ _ ha hb, dec_b2 _ _ _ hb hc,
        dec_b3 _ _ _ hc hd, h1, ungroup, tlen]
      simp
    · simpa [tlen, canon] using h2


/-! #### the RFC encoder as a sextet sequence -/

def sextets : Bytes → List Nat
  | a :: b :: c :: r =>
    a.toNat / 4 :: (a.toNat % 4 * 16 + b.toNat / 16) :: (b.toNat % 16 * 4 + c.toNat / 64) :: c.toNat % 64 :: sextets r
  | [a, b] => [a.toNat / 4, a.toNat % 4 * 16 + b.toNat / 16, b.toNat % 16 * 4]
  | [a] => [a.toNat / 4, a.toNat % 4 * 16]
  | [] => []

/-- number of '=' characters -/
def padN (pad : Bool) (n : Nat) : Nat := if pad then (3 - n % 3) % 3 else 0

theorem padN_add3 (pad : Bool) (n : Nat) : padN pad (n + 3) = padN pad n := by
  simp [padN]

theorem encode_sextets (us pad : Bool) (out : Bytes) :
    encode us pad out = (sextets out).map (sextetChar us) ++ List.replicate (padN pad out.length) padChar := by
  fun_induction encode us pad out with
  | case1 a b c rest ih =>
    simp only [List.length_cons, padN_add3, sextets, List.map_cons, List.cons_append, ih]
  | case2 a b => cases pad <;> simp [sextets, padN]
  | case3 a => cases pad <;> simp [sextets, padN, List.replicate]
  | case4 => cases pad <;> simp [sextets, padN]

theorem sextets_lt : ∀ (out : Bytes), ∀ x ∈ sextets out, x < 64
  | a :: b :: c :: r => by
    have ha := a.toNat_lt; have hb := b.toNat_lt; have hc := c.toNat_lt
    intro x hx
    simp only [sextets, List.mem_cons] at hx
    rcases hx with h | h | h | h | h
    · omega
    · omega
    · omega
    · omega
    · exact sextets_lt r x h
  | [a, b] => by
    have ha := a.toNat_lt; have hb := b.toNat_lt
    intro x hx
    simp only [sextets, List.mem_cons, List.not_mem_nil, or_false] at hx
    rcases hx with h | h | h <;> omega
  | [a] => by
    have ha := a.toNat_lt
    intro x hx
    simp only [sextets, List.mem_cons, List.not_mem_nil, or_false] at hx
    rcases hx with h | h <;> omega
  | [] => by simp [sextets]

theorem byte_eq (x : UInt8) (n : Nat) (h : n = x.toNat) : UInt8.ofNat n = x := by
  subst h; simp

theorem ungroup_sextets : ∀ (out : Bytes), ungroup (sextets out) = out ∧ canon (sextets out)
  | a :: b :: c :: r => by
    have ha := a.toNat_lt; have hb := b.toNat_lt; have hc := c.toNat_lt
    obtain ⟨h1, h2⟩ := ungroup_sextets r
    simp only [sextets, ungroup, canon, h1, h2, and_true]
    rw [byte_eq a _ (by omega), byte_eq b _ (by omega), byte_eq c _ (by omega)]
  | [a, b] => by
    have ha := a.toNat_lt; have hb := b.toNat_lt
    simp only [sextets, ungroup, canon]
    rw [byte_eq a _ (by omega), byte_eq b _ (by omega)]
    exact ⟨rfl, by omega⟩
  | [a] => by
    have ha := a.toNat_lt
    simp only [sextets, ungroup, canon]
    rw [byte_eq a _ (by omega)]
    exact ⟨rfl, by omega⟩
  | [] => by simp [sextets, ungroup, canon]

theorem ofNat_toNat_lt256 {n : Nat} (h : n < 256) : (UInt8.ofNat n).toNat = n := by
  simp; omega

theorem sextets_ungroup : ∀ (s : List Nat), (∀ x ∈ s, x < 64) → canon s → sextets (ungroup s) = s
  | a :: b :: c :: d :: r, h, hc => by
    have ha : a < 64 := h a (by simp)
    have hb : b < 64 := h b (by simp)
    have hc' : c < 64 := h c (by simp)
    have hd : d < 64 := h d (by simp)
    have ih := sextets_ungroup r (fun x hx => h x (by simp [hx])) (by simpa [canon] using hc)
    simp only [ungroup, sextets, ih]
    rw [ofNat_toNat_lt256 (n := a * 4 + b / 16) (by omega), ofNat_toNat_lt256 (n := b % 16 * 16 + c / 4) (by omega),
      ofNat_toNat_lt256 (n := c % 4 * 64 + d) (by omega)]
    congr 1
    · omega
    · congr 1
      · omega
      · congr 1
        · omega
        · congr 1; omega
  | [a, b, c], h, hc => by
    have ha : a < 64 := h a (by simp)
    have hb : b < 64 := h b (by simp)
    have hc' : c < 64 := h c (by simp)
    simp only [canon] at hc
    simp only [ungroup, sextets]
    rw [ofNat_toNat_lt256 (n := a * 4 + b / 16) (by omega), ofNat_toNat_lt256 (n := b % 16 * 16 + c / 4) (by omega)]
    congr 1
    · omega
    · congr 1
      · omega
      · congr 1; omega
  | [a, b], h, hc => by
    have ha : a < 64 := h a (by simp)
    have hb : b < 64 := h b (by simp)
    simp only [canon] at hc
    simp only [ungroup, sextets]
    rw [ofNat_toNat_lt256 (n := a * 4 + b / 16) (by omega)]
    congr 1
    · omega
    · congr 1; omega
  | [_], _, hc => by simp [canon] at hc
  | [], _, _ => by simp [ungroup, sextets]

theorem tlen_padN : ∀ (s : List Nat), canon s → tlen s / 2 = padN true (ungroup s).length
  | _ :: _ :: _ :: _ :: r, hc => by
    have ih := tlen_padN r (by simpa [canon] using hc)
    simp only [tlen, ungroup, List.length_cons, padN_add3, ih]
  | [_, _, _], _ => by simp [tlen, ungroup, padN]
  | [_, _], _ => by simp [tlen, ungroup, padN]
  | [_], hc => by simp [canon] at hc
  | [], _ => by simp [tlen, ungroup, padN]

/-! ### Base64 decoder: the main loop as a scan -/

set_option maxRecDepth 100000 in
theorem charSextet_tbl : ∀ (c : UInt8) (us : Bool),
    (charSextet us c).all (fun x => decide (x < 64) && sextetChar us x == c) = true := by decide +kernel

theorem charSextet_lt {us : Bool} {c : UInt8} {x : Nat} (h : charSextet us c = some x) : x < 64 := by
  have := charSextet_tbl c us; rw [h] at this; simp at this; exact this.1
theorem sextetChar_of_charSextet {us : Bool} {c : UInt8} {x : Nat} (h : charSextet us c = some x) :
    sextetChar us x = c := by
  have := charSextet_tbl c us; rw [h] at this; simp at this; exact this.2

theorem charSextet_sextetChar_tbl : ∀ (x : Fin 64) (us : Bool), charSextet us (sextetChar us x.val) = some x.val := by
  decide +kernel
theorem charSextet_sextetChar {us : Bool} {x : Nat} (h : x < 64) : charSextet us (sextetChar us x) = some x :=
  charSextet_sextetChar_tbl ⟨x, h⟩ us

theorem charSextet_pad (us : Bool) : charSextet us padChar = none := by cases us <;> decide

theorem charSextet_cases (us : Bool) (c : UInt8) : charSextet us c = none ∨ ∃ x, charSextet us c = some x := by
  cases h : charSextet us c
  · exact .inl rfl
  · exact .inr ⟨_, rfl⟩

theorem decChar_none {v : UInt32} {c : UInt8} (h : charSextet (isUrlsafe v) c = none) : decChar v c = 0xFF := by
  rw [decChar_tbl, h]
theorem decChar_some {v : UInt32} {c : UInt8} {x : Nat} (h : charSextet (isUrlsafe v) c = some x) :
    decChar v c = UInt32.ofNat x ∧ decChar v c ≠ 0xFF := by
  have hx := charSextet_lt h
  rw [decChar_tbl, h]
  refine ⟨rfl, ?_⟩
  intro e
  have := congrArg UInt32.toNat e
  simp at this
  omega

theorem ofNat_ne_255 {x : Nat} (hx : x < 64) : UInt32.ofNat x ≠ 255 := by
  intro e
  have := congrArg UInt32.toNat e
  simp at this
  omega

theorem b64Loop_none (v cap ign) (c : UInt8) (rest pos br acc n) (h : charSextet (isUrlsafe v) c = none) :
    b64Loop v cap ign (c :: rest) pos br acc n =
      if inIgnore ign c then b64Loop v cap ign rest (pos + 1) br acc n else ⟨0, pos, br.reverse, acc, n⟩ := by
  simp [b64Loop, decChar_none h]

theorem b64Loop_some (v cap ign) (c : UInt8) (x : Nat) (rest pos br acc n)
    (h : charSextet (isUrlsafe v) c = some x) :
    b64Loop v cap ign (c :: rest) pos br acc n =
      if n + 6 ≥ 8 ∧ br.length ≥ cap then ⟨-1, pos, br.reverse, accS acc (UInt32.ofNat x), n + 6 - 8⟩
      else b64Loop v cap ign rest (pos + 1) (dstep (br, acc, n) (UInt32.ofNat x)).1
        (dstep (br, acc, n) (UInt32.ofNat x)).2.1 (dstep (br, acc, n) (UInt32.ofNat x)).2.2 := by
  obtain ⟨h1, _⟩ := decChar_some h
  have h2 := ofNat_ne_255 (charSextet_lt h)
  rw [b64Loop]
  simp only [h1, h2, if_false, dstep, accS]
  by_cases hn : n + 6 ≥ 8
  · by_cases hc : br.length ≥ cap
    · simp [hn, hc]
    · simp [hn, hc]
  · simp [hn]


/-- the main loop as a pure scan: sextet values consumed, and the unconsumed rest of the text -/
def scan (us : Bool) (ign : Option Bytes) : Bytes → List Nat × Bytes
  | [] => ([], [])
  | c :: r =>
    match charSextet us c with
    | some x => (x :: (scan us ign r).1, (scan us ign r).2)
    | none => if inIgnore ign c then scan us ign r else ([], c :: r)

theorem scan_some {us ign} {c : UInt8} {x : Nat} (r : Bytes) (h : charSextet us c = some x) :
    scan us ign (c :: r) = (x :: (scan us ign r).1, (scan us ign r).2) := by
  simp [scan, h]
theorem scan_none {us ign} {c : UInt8} (r : Bytes) (h : charSextet us c = none) :
    scan us ign (c :: r) = if inIgnore ign c then scan us ign r else ([], c :: r) := by
  simp [scan, h]

theorem scan_lt (us ign) : ∀ t : Bytes, ∀ x ∈ (scan us ign t).1, x < 64
  | [] => by simp [scan]
  | c :: r => by
    rcases charSextet_cases us c with h | ⟨x, h⟩
    · rw [scan_none r h]
      split
      · exact scan_lt us ign r
      · simp
    · rw [scan_some r h]
      intro y hy
      simp only [List.mem_cons] at hy
      rcases hy with rfl | hy
      · exact charSextet_lt h
      · exact scan_lt us ign r y hy

theorem scan_rest_len (us ign) : ∀ t : Bytes, (scan us ign t).2.length ≤ t.length
  | [] => by simp [scan]
  | c :: r => by
    have ih := scan_rest_len us ign r
    rcases charSextet_cases us c with h | ⟨x, h⟩
    · rw [scan_none r h]
      split
      · simp; omega
      · simp
    · rw [scan_some r h]; simp; omega

theorem scan_rest_drop (us ign) : ∀ t : Bytes, t.drop (t.length - (scan us ign t).2.length) = (scan us ign t).2
  | [] => by simp [scan]
  | c :: r => by
    have ih := scan_rest_drop us ign r
    have hl := scan_rest_len us ign r
    rcases charSextet_cases us c with h | ⟨x, h⟩
    · rw [scan_none r h]
      split
      · rw [List.length_cons, show r.length + 1 - (scan us ign r).2.length = (r.length - (scan us ign r).2.length) + 1 by omega]
        simpa using ih
      · simp
    · rw [scan_some r h]
      simp only
      rw [List.length_cons, show r.length + 1 - (scan us ign r).2.length = (r.length - (scan us ign r).2.length) + 1 by omega]
      simpa using ih

/-- the scan stops only at the end or at a character that is neither in the alphabet nor ignorable -/
theorem scan_rest_head (us ign) : ∀ t : Bytes, ∀ c r, (scan us ign t).2 = c :: r →
    charSextet us c = none ∧ inIgnore ign c = false
  | [], c, r, h => by simp [scan] at h
  | d :: t, c, r, h => by
    rcases charSextet_cases us d with hd | ⟨x, hd⟩
    · rw [scan_none t hd] at h
      by_cases hi : inIgnore ign d = true
      · simp only [hi, if_true] at h
        exact scan_rest_head us ign t c r h
      · simp only [hi] at h
        simp at h
        obtain ⟨rfl, rfl⟩ := h
        exact ⟨hd, by simpa using hi⟩
    · rw [scan_some t hd] at h
      exact scan_rest_head us ign t c r h

theorem dstep_len (st : DState) (d : UInt32) : st.1.length ≤ (dstep st d).1.length := by
  unfold dstep
  split <;> simp

theorem dfold_len : ∀ (s : List Nat) (st : DState), st.1.length ≤ (dfold st s).1.length
  | [], st => by simp [dfold_nil]
  | x :: s, st => by
    rw [dfold_cons]
    exact Nat.le_trans (dstep_len st _) (dfold_len s _)

theorem dstep_len_emit (br : Bytes) (acc : UInt32) (n : Nat) (d : UInt32) (h : n + 6 ≥ 8) :
    (dstep (br, acc, n) d).1.length = br.length + 1 := by
  simp [dstep, h]

theorem dstep_len_noemit (br : Bytes) (acc : UInt32) (n : Nat) (d : UInt32) (h : ¬ n + 6 ≥ 8) :
    (dstep (br, acc, n) d).1 = br := by
  simp [dstep, h]

theorem b64Loop_ok (v cap ign) : ∀ (t : Bytes) (pos : Nat) (br : Bytes) (acc : UInt32) (n : Nat),
    (dfold (br, acc, n) (scan (isUrlsafe v) ign t).1).1.length ≤ cap →
    b64Loop v cap ign t pos br acc n =
      ⟨0, pos + (t.length - (scan (isUrlsafe v) ign t).2.length),
        (dfold (br, acc, n) (scan (isUrlsafe v) ign t).1).1.reverse,
        (dfold (br, acc, n) (scan (isUrlsafe v) ign t).1).2.1,
        (dfold (br, acc, n) (scan (isUrlsafe v) ign t).1).2.2⟩
  | [], pos, br, acc, n, _ => by simp [b64Loop, scan, dfold_nil]
  | c :: r, pos, br, acc, n, hcap => by
    have hl := scan_rest_len (isUrlsafe v) ign r
    rcases charSextet_cases (isUrlsafe v) c with h | ⟨x, h⟩
    · rw [b64Loop_none _ _ _ _ _ _ _ _ _ h]
      rw [scan_none r h] at hcap ⊢
      by_cases hi : inIgnore ign c = true
      · simp only [hi, if_true] at hcap ⊢
        rw [b64Loop_ok v cap ign r _ _ _ _ hcap]
        simp only [List.length_cons, B64Loop.mk.injEq, true_and, and_true]
        omega
      · simp [hi, dfold_nil]
    · rw [b64Loop_some _ _ _ _ _ _ _ _ _ _ h]
      rw [scan_some r h] at hcap ⊢
      simp only [dfold_cons] at hcap ⊢
      have hmono := dfold_len (scan (isUrlsafe v) ign r).1 (dstep (br, acc, n) (UInt32.ofNat x))
      rw [if_neg]
      · rw [b64Loop_ok v cap ign r (pos + 1) (dstep (br, acc, n) (UInt32.ofNat x)).1
          (dstep (br, acc, n) (UInt32.ofNat x)).2.1 (dstep (br, acc, n) (UInt32.ofNat x)).2.2 hcap]
        simp only [List.length_cons, B64Loop.mk.injEq, true_and, and_true]
        omega
      · rintro ⟨h1, h2⟩
        rw [dstep_len_emit _ _ _ _ h1] at hmono
        omega

theorem b64Loop_fail (v cap ign) : ∀ (t : Bytes) (pos : Nat) (br : Bytes) (acc : UInt32) (n : Nat),
    br.length ≤ cap → ¬ (dfold (br, acc, n) (scan (isUrlsafe v) ign t).1).1.length ≤ cap →
    (b64Loop v cap ign t pos br acc n).ret = -1
  | [], pos, br, acc, n, h1, h2 => by simp [scan, dfold_nil] at h2; omega
  | c :: r, pos, br, acc, n, h1, h2 => by
    rcases charSextet_cases (isUrlsafe v) c with h | ⟨x, h⟩
    · rw [b64Loop_none _ _ _ _ _ _ _ _ _ h]
      rw [scan_none r h] at h2
      by_cases hi : inIgnore ign c = true
      · simp only [hi, if_true] at h2 ⊢
        exact b64Loop_fail v cap ign r _ _ _ _ h1 h2
      · simp [hi, dfold_nil] at h2; omega
    · rw [b64Loop_some _ _ _ _ _ _ _ _ _ _ h]
      rw [scan_some r h] at h2
      simp only [dfold_cons] at h2
      by_cases hc : n + 6 ≥ 8 ∧ br.length ≥ cap
      · rw [if_pos hc]
      · rw [if_neg hc]
        refine b64Loop_fail v cap ign r (pos + 1) (dstep (br, acc, n) (UInt32.ofNat x)).1
          (dstep (br, acc, n) (UInt32.ofNat x)).2.1 (dstep (br, acc, n) (UInt32.ofNat x)).2.2 ?_ h2
        by_cases hn : n + 6 ≥ 8
        · rw [dstep_len_emit _ _ _ _ hn]; omega
        · rw [dstep_len_noemit _ _ _ _ hn]; exact h1

theorem b64Loop_cap (v cap ign) : ∀ (t : Bytes) (pos : Nat) (br : Bytes) (acc : UInt32) (n : Nat),
    br.length ≤ cap → (b64Loop v cap ign t pos br acc n).bin.length ≤ cap
  | [], pos, br, acc, n, h => by simpa [b64Loop] using h
  | c :: r, pos, br, acc, n, h1 => by
    rcases charSextet_cases (isUrlsafe v) c with h | ⟨x, h⟩
    · rw [b64Loop_none _ _ _ _ _ _ _ _ _ h]
      split
      · exact b64Loop_cap v cap ign r _ _ _ _ h1
      · simpa using h1
    · rw [b64Loop_some _ _ _ _ _ _ _ _ _ _ h]
      by_cases hc : n + 6 ≥ 8 ∧ br.length ≥ cap
      · rw [if_pos hc]; simpa using h1
      · rw [if_neg hc]
        refine b64Loop_cap v cap ign r _ _ _ _ ?_
        by_cases hn : n + 6 ≥ 8
        · rw [dstep_len_emit _ _ _ _ hn]; omega
        · rw [dstep_len_noemit _ _ _ _ hn]; exact h1

theorem base642bin_cap (cap : Nat) (b64 : Bytes) (ign : Option Bytes) (wantEnd : Bool) (v : UInt32) (r : DecResult) :
    sodium_base642bin cap b64 ign wantEnd v = .res r → r.written.length ≤ cap := by
  unfold sodium_base642bin
  split
  · intro h; cases h
  · intro h
    simp only [B64Dec.res.injEq] at h
    rw [← h]
    exact b64Loop_cap v cap ign b64 0 [] 0 0 (Nat.zero_le _)


/-! ### Base64 decoder: padding, trailing skip, strictness, round trip -/

/-- the text with its ignorable (non-alphabet, in-ignore-set) characters removed (same as `C15.strip`) -/
def stripIgn (us : Bool) (ign : Option Bytes) (t : Bytes) : Bytes :=
  t.filter fun c => (charSextet us c).isSome || c == padChar || !inIgnore ign c

/-- the ignore set contains neither alphabet characters nor '=' -/
def IgnDisj (us : Bool) (ign : Option Bytes) : Prop :=
  ∀ c, inIgnore ign c = true → charSextet us c = none ∧ c ≠ padChar

theorem stripIgn_nil (us ign) : stripIgn us ign [] = [] := rfl

theorem stripIgn_keep {us ign} {c : UInt8} (r : Bytes)
    (h : ((charSextet us c).isSome || c == padChar || !inIgnore ign c) = true) :
    stripIgn us ign (c :: r) = c :: stripIgn us ign r := by
  simp only [stripIgn, List.filter_cons, h, if_true]

theorem stripIgn_alpha {us ign} {c : UInt8} {x : Nat} (r : Bytes) (h : charSextet us c = some x) :
    stripIgn us ign (c :: r) = c :: stripIgn us ign r := stripIgn_keep r (by simp [h])

theorem stripIgn_pad {us ign} (r : Bytes) : stripIgn us ign (padChar :: r) = padChar :: stripIgn us ign r :=
  stripIgn_keep r (by simp)

theorem stripIgn_notign {us ign} {c : UInt8} (r : Bytes) (h : inIgnore ign c = false) :
    stripIgn us ign (c :: r) = c :: stripIgn us ign r := stripIgn_keep r (by simp [h])

theorem stripIgn_ign {us ign} (hd : IgnDisj us ign) {c : UInt8} (r : Bytes) (h : inIgnore ign c = true) :
    stripIgn us ign (c :: r) = stripIgn us ign r := by
  obtain ⟨h1, h2⟩ := hd c h
  simp [stripIgn, h, h1, h2]

theorem skipIgnored_le (ign) : ∀ (t : Bytes) (pos : Nat), pos ≤ skipIgnored ign t pos ∧ skipIgnored ign t pos ≤ pos + t.length
  | [], pos => by simp [skipIgnored]
  | c :: r, pos => by
    have := skipIgnored_le ign r (pos + 1)
    simp only [skipIgnored]
    split <;> simp <;> omega

theorem skipIgnored_none (t : Bytes) (pos : Nat) : skipIgnored none t pos = pos := by
  cases t <;> simp [skipIgnored, inIgnore]

theorem skipIgnored_iff {us ign} (hd : IgnDisj us ign) : ∀ (t : Bytes) (pos : Nat),
    skipIgnored ign t pos = pos + t.length ↔ stripIgn us ign t = []
  | [], pos => by simp [skipIgnored, stripIgn_nil]
  | c :: r, pos => by
    have hle := skipIgnored_le ign r (pos + 1)
    by_cases hi : inIgnore ign c = true
    · rw [stripIgn_ign hd r hi, ← skipIgnored_iff hd r (pos + 1)]
      simp only [skipIgnored, hi, if_true, List.length_cons]
      omega
    · have hi' : inIgnore ign c = false := by simpa using hi
      rw [stripIgn_notign r hi']
      simp only [skipIgnored, hi, List.length_cons]
      simp

theorem skipPadding_zero (ign) (t : Bytes) (pos : Nat) : skipPadding ign t pos 0 = (0, pos) := by
  cases t <;> simp [skipPadding]

theorem skipPadding_le (ign) : ∀ (t : Bytes) (pos k : Nat),
    pos ≤ (skipPadding ign t pos k).2 ∧ (skipPadding ign t pos k).2 ≤ pos + t.length
  | t, pos, 0 => by simp [skipPadding_zero]
  | [], pos, k + 1 => by simp [skipPadding]
  | c :: r, pos, k + 1 => by
    have h1 := skipPadding_le ign r (pos + 1) k
    have h2 := skipPadding_le ign r (pos + 1) (k + 1)
    simp only [skipPadding]
    split
    · simp; omega
    · split
      · simp
      · simp; omega

theorem replicate_succ_ne_nil {k : Nat} {c : UInt8} : ([] : Bytes) ≠ List.replicate (k + 1) c := by
  simp [List.replicate_succ]

/-- the padding skip followed by the trailing ignore skip reaches the end of the text exactly when
    the rest of the text, ignorable characters removed, is the expected number of '=' -/
theorem skipPadding_iff {us ign} (hd : IgnDisj us ign) : ∀ (t : Bytes) (pos k : Nat),
    ((skipPadding ign t pos k).1 = 0 ∧
      skipIgnored ign (t.drop ((skipPadding ign t pos k).2 - pos)) (skipPadding ign t pos k).2 = pos + t.length)
    ↔ stripIgn us ign t = List.replicate k padChar
  | t, pos, 0 => by
    simp only [skipPadding_zero, Nat.sub_self, List.drop_zero, true_and, List.replicate_zero]
    exact skipIgnored_iff hd t pos
  | [], pos, k + 1 => by
    simp [skipPadding, stripIgn_nil, List.replicate_succ]
  | c :: r, pos, k + 1 => by
    have hle1 := skipPadding_le ign r (pos + 1) k
    have hle2 := skipPadding_le ign r (pos + 1) (k + 1)
    by_cases hc : c = 61
    · subst hc
      have ih := skipPadding_iff hd r (pos + 1) k
      have e : (skipPadding ign r (pos + 1) k).2 - pos = ((skipPadding ign r (pos + 1) k).2 - (pos + 1)) + 1 := by omega
      simp only [skipPadding, if_true]
      rw [e, List.drop_succ_cons, List.length_cons, show pos + (r.length + 1) = pos + 1 + r.length by omega, ih]
      rw [show (61 : UInt8) = padChar from rfl, stripIgn_pad, List.replicate_succ]
      simp
    · by_cases hi : inIgnore ign c = true
      · have ih := skipPadding_iff hd r (pos + 1) (k + 1)
        have e : (skipPadding ign r (pos + 1) (k + 1)).2 - pos = ((skipPadding ign r (pos + 1) (k + 1)).2 - (pos + 1)) + 1 := by omega
        simp only [skipPadding, hc, if_false, hi, Bool.not_true, Bool.false_eq_true]
        rw [e, List.drop_succ_cons, List.length_cons, show pos + (r.length + 1) = pos + 1 + r.length by omega, ih,
          stripIgn_ign hd r hi]
      · have hi' : inIgnore ign c = false := by simpa using hi
        simp only [skipPadding, hc, if_false, hi', Bool.not_false, if_true]
        rw [stripIgn_notign r hi', List.replicate_succ]
        simp [hc, padChar]


/-- everything `sodium_base642bin` does after the main loop -/
def finish (b64 : Bytes) (ign : Option Bytes) (wantEnd : Bool) (v : UInt32) (l : B64Loop) : DecResult :=
  let bad := l.accLen > 4 ∨ (l.acc &&& ((1 <<< (UInt32.ofNat l.accLen)) - 1)) ≠ 0
  let s1 : Int32 × Nat :=
    if bad then (-1, l.pos)
    else if l.ret = 0 ∧ !isNoPad v then skipPadding ign (b64.drop l.pos) l.pos (l.accLen / 2)
    else (l.ret, l.pos)
  let pos2 := if s1.1 ≠ 0 then s1.2 else (if ign.isSome then skipIgnored ign (b64.drop s1.2) s1.2 else s1.2)
  let binPos := if s1.1 ≠ 0 then 0 else l.bin.length
  let ret2 : Int32 := if !wantEnd && pos2 ≠ b64.length then -1 else s1.1
  ⟨ret2, binPos, pos2, l.bin⟩

theorem base642bin_eq (cap : Nat) (b64 : Bytes) (ign : Option Bytes) (wantEnd : Bool) (v : UInt32)
    (hv : variantOk v = true) :
    sodium_base642bin cap b64 ign wantEnd v = .res (finish b64 ign wantEnd v (b64Loop v cap ign b64 0 [] 0 0)) := by
  simp [sodium_base642bin, finish, hv]

theorem finish_ret (b64 ign wantEnd v) (l : B64Loop) (h : l.ret ≠ 0) : (finish b64 ign wantEnd v l).rc ≠ 0 := by
  simp only [finish, h, false_and, if_false]
  split <;> split <;> simp_all

theorem finish_bad (b64 ign wantEnd v) (l : B64Loop) (h : badTail l.acc l.accLen) :
    (finish b64 ign wantEnd v l).rc ≠ 0 := by
  unfold badTail at h
  simp only [finish, h, if_true]
  split <;> simp

theorem skipIgnored_isSome (ign : Option Bytes) (t : Bytes) (pos : Nat) :
    (if ign.isSome then skipIgnored ign t pos else pos) = skipIgnored ign t pos := by
  cases ign
  · simp [skipIgnored_none]
  · simp

/-- the result after a loop that ended without error and with a canonical tail -/
theorem finish_good (b64 ign wantEnd v) (l : B64Loop) (h1 : l.ret = 0) (h2 : ¬ badTail l.acc l.accLen) :
    finish b64 ign wantEnd v l =
      let s1 := skipPadding ign (b64.drop l.pos) l.pos (if isNoPad v then 0 else l.accLen / 2)
      let pos2 := if s1.1 ≠ 0 then s1.2 else skipIgnored ign (b64.drop s1.2) s1.2
      ⟨if !wantEnd && pos2 ≠ b64.length then -1 else s1.1, if s1.1 ≠ 0 then 0 else l.bin.length, pos2, l.bin⟩ := by
  unfold badTail at h2
  simp only [finish, h2, if_false, h1, true_and, skipIgnored_isSome]
  cases isNoPad v
  · simp
  · simp [skipPadding_zero]


/-- model side of the strictness theorem, in terms of the scan of the text -/
theorem base642bin_iff (cap : Nat) (b64 : Bytes) (ign : Option Bytes) (v : UInt32) (hv : variantOk v = true)
    (hd : IgnDisj (isUrlsafe v) ign) (out : Bytes) :
    sodium_base642bin cap b64 ign false v = .res ⟨0, out.length, b64.length, out⟩ ↔
      (ungroup (scan (isUrlsafe v) ign b64).1 = out ∧ out.length ≤ cap ∧ canon (scan (isUrlsafe v) ign b64).1 ∧
        stripIgn (isUrlsafe v) ign (scan (isUrlsafe v) ign b64).2 =
          List.replicate (if isNoPad v then 0 else tlen (scan (isUrlsafe v) ign b64).1 / 2) padChar) := by
  rw [base642bin_eq _ _ _ _ _ hv]
  generalize hs : scan (isUrlsafe v) ign b64 = sc
  have hlt : ∀ x ∈ sc.1, x < 64 := by rw [← hs]; exact scan_lt _ _ _
  have hlen : sc.2.length ≤ b64.length := by rw [← hs]; exact scan_rest_len _ _ _
  have hdrop : b64.drop (b64.length - sc.2.length) = sc.2 := by rw [← hs]; exact scan_rest_drop _ _ _
  obtain ⟨acc', hf, hbad⟩ := dfold_spec sc.1 [] 0 hlt
  by_cases hcap : (ungroup sc.1).length ≤ cap
  · have hl := b64Loop_ok v cap ign b64 0 [] 0 0 (by rw [hs, hf]; simpa using hcap)
    rw [hs, hf] at hl
    simp only [List.append_nil, List.reverse_reverse, Nat.zero_add] at hl
    rw [hl]
    by_cases hc : canon sc.1
    · have hnb : ¬ badTail acc' (tlen sc.1) := fun h => hbad.mp h hc
      rw [finish_good _ _ _ _ _ rfl hnb]
      simp only [hdrop]
      have hiff := skipPadding_iff hd sc.2 (b64.length - sc.2.length) (if isNoPad v then 0 else tlen sc.1 / 2)
      have hle := skipPadding_le ign sc.2 (b64.length - sc.2.length) (if isNoPad v then 0 else tlen sc.1 / 2)
      generalize skipPadding ign sc.2 (b64.length - sc.2.length) (if isNoPad v then 0 else tlen sc.1 / 2) = s1
        at hiff hle ⊢
      have hdd : b64.drop s1.2 = sc.2.drop (s1.2 - (b64.length - sc.2.length)) := by
        calc b64.drop s1.2 = b64.drop ((b64.length - sc.2.length) + (s1.2 - (b64.length - sc.2.length))) := by
              congr 1; omega
          _ = (b64.drop (b64.length - sc.2.length)).drop (s1.2 - (b64.length - sc.2.length)) := List.drop_drop.symm
          _ = _ := by rw [hdrop]
      rw [← hiff, hdd]
      simp only [B64Dec.res.injEq, DecResult.mk.injEq, Bool.not_false, Bool.true_and]
      constructor
      · rintro ⟨h1, h2, h3, h4⟩
        by_cases hz : s1.1 = 0
        · simp only [hz, ne_eq, not_true_eq_false, if_false] at h3 h1
          refine ⟨h4, by rw [← h4]; exact hcap, hc, hz, ?_⟩
          rw [h3]; omega
        · exfalso
          simp only [ne_eq, hz, not_false_eq_true, if_true] at h1
          split at h1
          · exact absurd h1 (by decide)
          · exact hz h1
      · rintro ⟨h4, _, _, hz, h3⟩
        have e : b64.length - sc.2.length + sc.2.length = b64.length := by omega
        simp only [hz, ne_eq, not_true_eq_false, if_false, h3, e, decide_false, Bool.false_eq_true, h4, and_self]
    · have hb : badTail acc' (tlen sc.1) := hbad.mpr hc
      have := finish_bad b64 ign false v ⟨0, b64.length - sc.2.length, ungroup sc.1, acc', tlen sc.1⟩ hb
      constructor
      · intro h
        simp only [B64Dec.res.injEq] at h
        rw [h] at this
        exact absurd rfl this
      · rintro ⟨_, _, h, _⟩
        exact absurd h hc
  · have hl := b64Loop_fail v cap ign b64 0 [] 0 0 (Nat.zero_le _) (by rw [hs, hf]; simpa using hcap)
    have := finish_ret b64 ign false v _ (by rw [hl]; decide)
    constructor
    · intro h
      simp only [B64Dec.res.injEq] at h
      rw [h] at this
      exact absurd rfl this
    · rintro ⟨h1, h2, _⟩
      rw [← h1] at h2
      exact absurd h2 hcap


/-! #### specification side -/

theorem stripIgn_scan {us ign} (hd : IgnDisj us ign) : ∀ t : Bytes,
    stripIgn us ign t = (scan us ign t).1.map (sextetChar us) ++ stripIgn us ign (scan us ign t).2
  | [] => by simp [scan, stripIgn_nil]
  | c :: r => by
    have ih := stripIgn_scan hd r
    rcases charSextet_cases us c with h | ⟨x, h⟩
    · rw [scan_none r h]
      by_cases hi : inIgnore ign c = true
      · simp only [hi, if_true]
        rw [stripIgn_ign hd r hi, ih]
      · simp [hi]
    · rw [scan_some r h, stripIgn_alpha r h, ih]
      simp [sextetChar_of_charSextet h]

/-- a text that is empty or starts with a non-alphabet character -/
def StopsAlpha (us : Bool) (b : Bytes) : Prop := ∀ c r, b = c :: r → charSextet us c = none

theorem split_unique {us : Bool} : ∀ (A A' : List Nat) (B B' : Bytes), (∀ x ∈ A, x < 64) → (∀ x ∈ A', x < 64) →
    StopsAlpha us B → StopsAlpha us B' →
    A.map (sextetChar us) ++ B = A'.map (sextetChar us) ++ B' → A = A' ∧ B = B'
  | [], [], B, B', _, _, _, _, h => ⟨rfl, by simpa using h⟩
  | [], a' :: A', B, B', _, h2, hB, _, h => by
    have := hB _ _ (by simpa using h)
    rw [charSextet_sextetChar (h2 a' (by simp))] at this
    cases this
  | a :: A, [], B, B', h1, _, _, hB', h => by
    have := hB' _ _ (by simpa using h.symm)
    rw [charSextet_sextetChar (h1 a (by simp))] at this
    cases this
  | a :: A, a' :: A', B, B', h1, h2, hB, hB', h => by
    simp only [List.map_cons, List.cons_append, List.cons.injEq] at h
    have ha := charSextet_sextetChar (us := us) (h1 a (by simp))
    rw [h.1, charSextet_sextetChar (h2 a' (by simp))] at ha
    obtain ⟨e1, e2⟩ := split_unique A A' B B' (fun x hx => h1 x (by simp [hx])) (fun x hx => h2 x (by simp [hx]))
      hB hB' h.2
    simp only [Option.some.injEq] at ha
    exact ⟨by rw [ha, e1], e2⟩

theorem stopsAlpha_replicate (us : Bool) (k : Nat) : StopsAlpha us (List.replicate k padChar) := by
  intro c r h
  cases k with
  | zero => simp at h
  | succ k =>
    simp only [List.replicate_succ, List.cons.injEq] at h
    rw [← h.1]; exact charSextet_pad us

theorem stopsAlpha_scan (us ign) (t : Bytes) : StopsAlpha us (stripIgn us ign (scan us ign t).2) := by
  intro c r h
  match hs : (scan us ign t).2 with
  | [] => rw [hs] at h; simp [stripIgn_nil] at h
  | d :: r' =>
    obtain ⟨h1, h2⟩ := scan_rest_head us ign t d r' hs
    rw [hs, stripIgn_notign r' h2] at h
    simp only [List.cons.injEq] at h
    rw [← h.1]; exact h1

theorem padN_tlen (pad : Bool) (s : List Nat) (hc : canon s) :
    (if pad then tlen s / 2 else 0) = padN pad (ungroup s).length := by
  cases pad
  · simp [padN]
  · simp [tlen_padN s hc]

theorem stripIgn_iff {us ign} (pad : Bool) (hd : IgnDisj us ign) (t out : Bytes) :
    stripIgn us ign t = encode us pad out ↔
      (ungroup (scan us ign t).1 = out ∧ canon (scan us ign t).1 ∧
        stripIgn us ign (scan us ign t).2 = List.replicate (if pad then tlen (scan us ign t).1 / 2 else 0) padChar) := by
  rw [stripIgn_scan hd t, encode_sextets]
  constructor
  · intro h
    obtain ⟨e1, e2⟩ := split_unique _ _ _ _ (scan_lt us ign t) (sextets_lt out) (stopsAlpha_scan us ign t)
      (stopsAlpha_replicate us _) h
    obtain ⟨h1, h2⟩ := ungroup_sextets out
    rw [e1]
    refine ⟨h1, h2, ?_⟩
    rw [padN_tlen pad _ h2, h1]; exact e2
  · rintro ⟨h1, h2, h3⟩
    rw [h3, padN_tlen pad _ h2, h1, ← h1, sextets_ungroup _ (scan_lt us ign t) h2]


/-- strictness of `sodium_base642bin` without an end pointer -/
theorem base642bin_strict (cap : Nat) (b64 : Bytes) (ign : Option Bytes) (v : UInt32) (hv : variantOk v = true)
    (hd : IgnDisj (isUrlsafe v) ign) (out : Bytes) :
    sodium_base642bin cap b64 ign false v = .res ⟨0, out.length, b64.length, out⟩ ↔
      (stripIgn (isUrlsafe v) ign b64 = encode (isUrlsafe v) (!isNoPad v) out ∧ out.length ≤ cap) := by
  rw [base642bin_iff cap b64 ign v hv hd out, stripIgn_iff (!isNoPad v) hd]
  have e : (if isNoPad v then 0 else tlen (scan (isUrlsafe v) ign b64).1 / 2) =
      (if (!isNoPad v) = true then tlen (scan (isUrlsafe v) ign b64).1 / 2 else 0) := by
    cases isNoPad v <;> simp
  rw [e]
  constructor
  · rintro ⟨h1, h2, h3, h4⟩; exact ⟨⟨h1, h3, h4⟩, h2⟩
  · rintro ⟨⟨h1, h3, h4⟩, h2⟩; exact ⟨h1, h2, h3, h4⟩

/-! #### round trip -/

theorem scan_pads (us ign) (hne : inIgnore ign padChar = false) (k : Nat) :
    scan us ign (List.replicate k padChar) = ([], List.replicate k padChar) := by
  cases k with
  | zero => simp [scan]
  | succ k => rw [List.replicate_succ, scan_none _ (charSextet_pad us)]; simp [hne]

theorem scan_encoded (us ign) (hne : inIgnore ign padChar = false) (k : Nat) : ∀ (s : List Nat), (∀ x ∈ s, x < 64) →
    scan us ign (s.map (sextetChar us) ++ List.replicate k padChar) = (s, List.replicate k padChar)
  | [], _ => by simpa using scan_pads us ign hne k
  | x :: s, h => by
    have ih := scan_encoded us ign hne k s (fun y hy => h y (by simp [hy]))
    rw [List.map_cons, List.cons_append, scan_some _ (charSextet_sextetChar (h x (by simp))), ih]

theorem skipPadding_pads (ign) : ∀ (k pos : Nat), skipPadding ign (List.replicate k padChar) pos k = (0, pos + k)
  | 0, pos => by simp [skipPadding_zero]
  | k + 1, pos => by
    rw [List.replicate_succ]
    simp only [skipPadding, padChar, if_true]
    rw [show (61 : UInt8) = padChar from rfl, skipPadding_pads ign k (pos + 1)]
    simp; omega

theorem base642bin_roundtrip (bin : Bytes) (cap : Nat) (h : bin.length ≤ cap) (ign : Option Bytes) (wantEnd : Bool)
    (v : UInt32) (hv : variantOk v = true) (hne : inIgnore ign padChar = false) :
    sodium_base642bin cap (encode (isUrlsafe v) (!isNoPad v) bin) ign wantEnd v =
      .res ⟨0, bin.length, encodedLen (!isNoPad v) bin.length, bin⟩ := by
  rw [base642bin_eq _ _ _ _ _ hv, ← encode_len (isUrlsafe v) (!isNoPad v) bin]
  generalize ht : encode (isUrlsafe v) (!isNoPad v) bin = t
  have hsc : scan (isUrlsafe v) ign t = (sextets bin, List.replicate (padN (!isNoPad v) bin.length) padChar) := by
    rw [← ht, encode_sextets]
    exact scan_encoded _ _ hne _ _ (sextets_lt bin)
  obtain ⟨hu, hc⟩ := ungroup_sextets bin
  obtain ⟨acc', hf, hbad⟩ := dfold_spec (sextets bin) [] 0 (sextets_lt bin)
  have hl := b64Loop_ok v cap ign t 0 [] 0 0 (by rw [hsc, hf, hu]; simpa using h)
  have hdrop := scan_rest_drop (isUrlsafe v) ign t
  have hlen := scan_rest_len (isUrlsafe v) ign t
  rw [hsc] at hl hdrop hlen
  simp only [hf, hu, List.append_nil, List.reverse_reverse, Nat.zero_add, List.length_replicate] at hl hdrop hlen
  rw [hl, finish_good _ _ _ _ _ rfl (fun hb => hbad.mp hb hc)]
  have hk : (if isNoPad v then 0 else tlen (sextets bin) / 2) = padN (!isNoPad v) bin.length := by
    rw [← hu, ← padN_tlen _ _ hc, hu]
    cases isNoPad v <;> simp
  simp only [hdrop, hk, skipPadding_pads]
  have e : t.length - padN (!isNoPad v) bin.length + padN (!isNoPad v) bin.length = t.length := by omega
  simp [e, skipIgnored]


end Sodium
