import SodiumModel.Model.Codecs
import SodiumModel.Spec.Base64
import SodiumModel.Proofs.ByteDecide
/-
  Helper lemmas for C15 (codecs).
-/
open Sodium Sodium.Model
namespace Sodium

end Sodium
