import SodiumModel.Model.ScReduce
import SodiumModel.Proofs.Utils
set_option linter.unusedVariables false
/-
  Base of the refinement proof for the scalar limb code (`Model/ScReduce.lean`), Mathlib-free.

  `R a i B` : the machine word `a : Int64` represents the ideal integer `i` and `|i| ≤ B`.
  The `R_*` lemmas are one per syntactic form occurring in the model (`a + b`, `a - b`, `a * b`,
  `a * 666643`, `(a + (1 <<< 20)) >>> 21`, `(a.toUInt64 - carry.toUInt64 * (1 <<< 21)).toInt64`, …);
  each one proves that the `Int64` operation does not wrap (so it equals the `Int` operation)
  and propagates the bound.  `Proofs/ScReduceGen.lean` applies them statement by statement (explicit
  proof terms produced by symbolic execution of the C text); the arithmetic side conditions are closed
  `Nat` numerals discharged by `decide`.

  Also here: `load_3` / `load_4` / mask / shift lemmas, the 21-bit limb decomposition of a byte string
  (`chunk8`, `chunk8top`, `chunk4top`), `le` of a 32/64-byte string as a polynomial in its bytes, and
  the byte forms of the packing (`pack_byteA`, `pack_byteB`).

  NOTE (kernel performance): statements are arranged so that the kernel never has to REFUTE a
  definitional equality between two different `Int64` arithmetic terms (that unfolds `Int64` multiplication by
  a literal into unary `Nat` recursion); the block lemmas therefore destructure the limb records first.
-/
namespace Sodium.ScReduceP
open Sodium Sodium.Model.ScReduce

/-- `a` is the machine image of the ideal integer `i`, and `|i| ≤ B` -/
def R (a : Int64) (i : Int) (B : Nat) : Prop := a.toInt = i ∧ -(B : Int) ≤ i ∧ i ≤ B

theorem toInt_add_exact (a b : Int64) (h1 : -2^63 ≤ a.toInt + b.toInt) (h2 : a.toInt + b.toInt < 2^63) :
    (a + b).toInt = a.toInt + b.toInt := by
  rw [Int64.toInt_add]; apply Int.bmod_eq_of_le <;> omega

theorem toInt_sub_exact (a b : Int64) (h1 : -2^63 ≤ a.toInt - b.toInt) (h2 : a.toInt - b.toInt < 2^63) :
    (a - b).toInt = a.toInt - b.toInt := by
  rw [Int64.toInt_sub]; apply Int.bmod_eq_of_le <;> omega

theorem toInt_mul_exact (a b : Int64) (h1 : -2^63 ≤ a.toInt * b.toInt) (h2 : a.toInt * b.toInt < 2^63) :
    (a * b).toInt = a.toInt * b.toInt := by
  rw [Int64.toInt_mul]; apply Int.bmod_eq_of_le <;> omega

/-- `>> 21` on `int64_t` is the arithmetic shift: floor division by 2^21 -/
theorem toInt_shr21 (a : Int64) : (a >>> 21).toInt = a.toInt / 2097152 := by
  rw [← Int64.toInt_toBitVec, Int64.toBitVec_shiftRight, BitVec.toInt_sshiftRight', Int64.toInt_toBitVec,
    Int.shiftRight_eq_div_pow]
  rfl

/-- `x -= carry * ((uint64_t) 1L << 21)` : the round trip through `uint64_t` is the `int64_t` operation -/
theorem subc_eq (a c : Int64) :
    (a.toUInt64 - c.toUInt64 * ((1 : UInt64) <<< 21)).toInt64 = a - c * 2097152 := by
  rw [UInt64.toInt64_sub, UInt64.toInt64_mul, Int64.toInt64_toUInt64, Int64.toInt64_toUInt64]
  rfl

theorem one_shl_20 : ((1 : Int64) <<< 20) = 1048576 := by decide

theorem R_weaken {a : Int64} {i : Int} {A B : Nat} (h : R a i A) (hAB : A ≤ B) : R a i B := by
  obtain ⟨h, h1, h2⟩ := h
  exact ⟨h, by omega, by omega⟩

theorem R_zero : R 0 0 0 := ⟨by decide, by omega, by omega⟩

theorem R_add {a b : Int64} {i j : Int} {A B : Nat} (ha : R a i A) (hb : R b j B) (h : A + B < 2^63) :
    R (a + b) (i + j) (A + B) := by
  obtain ⟨ha, ha1, ha2⟩ := ha; obtain ⟨hb, hb1, hb2⟩ := hb
  refine ⟨?_, by omega, by omega⟩
  rw [toInt_add_exact] <;> omega

theorem R_sub {a b : Int64} {i j : Int} {A B : Nat} (ha : R a i A) (hb : R b j B) (h : A + B < 2^63) :
    R (a - b) (i - j) (A + B) := by
  obtain ⟨ha, ha1, ha2⟩ := ha; obtain ⟨hb, hb1, hb2⟩ := hb
  refine ⟨?_, by omega, by omega⟩
  rw [toInt_sub_exact] <;> omega

theorem abs_mul_le {i j : Int} {A B : Nat} (ha1 : -(A : Int) ≤ i) (ha2 : i ≤ A) (hb1 : -(B : Int) ≤ j) (hb2 : j ≤ B) :
    -((A * B : Nat) : Int) ≤ i * j ∧ i * j ≤ ((A * B : Nat) : Int) := by
  have h1 : i.natAbs ≤ A := by omega
  have h2 : j.natAbs ≤ B := by omega
  have h3 : (i * j).natAbs ≤ A * B := by rw [Int.natAbs_mul]; exact Nat.mul_le_mul h1 h2
  omega

theorem R_mul {a b : Int64} {i j : Int} {A B : Nat} (ha : R a i A) (hb : R b j B) (h : A * B < 2^63) :
    R (a * b) (i * j) (A * B) := by
  obtain ⟨ha, ha1, ha2⟩ := ha; obtain ⟨hb, hb1, hb2⟩ := hb
  obtain ⟨h1, h2⟩ := abs_mul_le ha1 ha2 hb1 hb2
  refine ⟨?_, h1, h2⟩
  subst ha; subst hb
  rw [toInt_mul_exact] <;> omega

theorem R_mulc_666643 {a : Int64} {i : Int} {A : Nat} (ha : R a i A) (h : A * 666643 < 2^63) :
    R (a * 666643) (i * 666643) (A * 666643) := by
  obtain ⟨ha, ha1, ha2⟩ := ha
  have hk : (666643 : Int64).toInt = 666643 := by decide
  have hm := toInt_mul_exact a 666643 (by rw [hk]; omega) (by rw [hk]; omega)
  rw [hk] at hm
  exact ⟨by omega, by omega, by omega⟩

theorem R_mulc_470296 {a : Int64} {i : Int} {A : Nat} (ha : R a i A) (h : A * 470296 < 2^63) :
    R (a * 470296) (i * 470296) (A * 470296) := by
  obtain ⟨ha, ha1, ha2⟩ := ha
  have hk : (470296 : Int64).toInt = 470296 := by decide
  have hm := toInt_mul_exact a 470296 (by rw [hk]; omega) (by rw [hk]; omega)
  rw [hk] at hm
  exact ⟨by omega, by omega, by omega⟩

theorem R_mulc_654183 {a : Int64} {i : Int} {A : Nat} (ha : R a i A) (h : A * 654183 < 2^63) :
    R (a * 654183) (i * 654183) (A * 654183) := by
  obtain ⟨ha, ha1, ha2⟩ := ha
  have hk : (654183 : Int64).toInt = 654183 := by decide
  have hm := toInt_mul_exact a 654183 (by rw [hk]; omega) (by rw [hk]; omega)
  rw [hk] at hm
  exact ⟨by omega, by omega, by omega⟩

theorem R_mulc_997805 {a : Int64} {i : Int} {A : Nat} (ha : R a i A) (h : A * 997805 < 2^63) :
    R (a * 997805) (i * 997805) (A * 997805) := by
  obtain ⟨ha, ha1, ha2⟩ := ha
  have hk : (997805 : Int64).toInt = 997805 := by decide
  have hm := toInt_mul_exact a 997805 (by rw [hk]; omega) (by rw [hk]; omega)
  rw [hk] at hm
  exact ⟨by omega, by omega, by omega⟩

theorem R_mulc_136657 {a : Int64} {i : Int} {A : Nat} (ha : R a i A) (h : A * 136657 < 2^63) :
    R (a * 136657) (i * 136657) (A * 136657) := by
  obtain ⟨ha, ha1, ha2⟩ := ha
  have hk : (136657 : Int64).toInt = 136657 := by decide
  have hm := toInt_mul_exact a 136657 (by rw [hk]; omega) (by rw [hk]; omega)
  rw [hk] at hm
  exact ⟨by omega, by omega, by omega⟩

theorem R_mulc_683901 {a : Int64} {i : Int} {A : Nat} (ha : R a i A) (h : A * 683901 < 2^63) :
    R (a * 683901) (i * 683901) (A * 683901) := by
  obtain ⟨ha, ha1, ha2⟩ := ha
  have hk : (683901 : Int64).toInt = 683901 := by decide
  have hm := toInt_mul_exact a 683901 (by rw [hk]; omega) (by rw [hk]; omega)
  rw [hk] at hm
  exact ⟨by omega, by omega, by omega⟩

/-- `carry = (a + (int64_t) (1L << 20)) >> 21` -/
theorem R_carryR {a : Int64} {i : Int} {A : Nat} (ha : R a i A) (h : A + 1048576 < 2^63) :
    R ((a + ((1 : Int64) <<< 20)) >>> 21) ((i + 1048576) / 2097152) ((A + 1048576) / 2097152 + 1) := by
  obtain ⟨ha, ha1, ha2⟩ := ha
  have hk : (1048576 : Int64).toInt = 1048576 := by decide
  refine ⟨?_, by omega, by omega⟩
  rw [toInt_shr21, one_shl_20, toInt_add_exact] <;> omega

/-- `carry = a >> 21` -/
theorem R_carryF {a : Int64} {i : Int} {A : Nat} (ha : R a i A) :
    R (a >>> 21) (i / 2097152) (A / 2097152 + 1) := by
  obtain ⟨ha, ha1, ha2⟩ := ha
  refine ⟨?_, by omega, by omega⟩
  rw [toInt_shr21]; omega

/-- `a -= carry * ((uint64_t) 1L << 21)` after `carry = (a + (int64_t) (1L << 20)) >> 21` : the rounded remainder -/
theorem R_carryR_lo {a : Int64} {i : Int} {A : Nat} (ha : R a i A) (h : A + 1048576 < 2^63) :
    R ((a.toUInt64 - ((a + ((1 : Int64) <<< 20)) >>> 21).toUInt64 * ((1 : UInt64) <<< 21)).toInt64)
      (i - (i + 1048576) / 2097152 * 2097152) 1048576 := by
  obtain ⟨hc, hc1, hc2⟩ := R_carryR ha h
  obtain ⟨ha, ha1, ha2⟩ := ha
  have hk : (2097152 : Int64).toInt = 2097152 := by decide
  have hm := toInt_mul_exact ((a + ((1 : Int64) <<< 20)) >>> 21) 2097152
    (by rw [hc, hk]; omega) (by rw [hc, hk]; omega)
  rw [hc, hk] at hm
  refine ⟨?_, by omega, by omega⟩
  rw [subc_eq, toInt_sub_exact, hm, ha] <;> rw [hm, ha] <;> omega

/-- `a -= carry * ((uint64_t) 1L << 21)` after `carry = a >> 21` : the remainder in [0, 2^21) -/
theorem R_carryF_lo {a : Int64} {i : Int} {A : Nat} (ha : R a i A) :
    R ((a.toUInt64 - (a >>> 21).toUInt64 * ((1 : UInt64) <<< 21)).toInt64)
      (i - i / 2097152 * 2097152) 2097152 := by
  obtain ⟨hc, hc1, hc2⟩ := R_carryF ha
  obtain ⟨ha, ha1, ha2⟩ := ha
  have hk : (2097152 : Int64).toInt = 2097152 := by decide
  have hlo := Int64.le_toInt a
  have hhi := Int64.toInt_lt a
  have hm := toInt_mul_exact (a >>> 21) 2097152 (by rw [hc, hk]; omega) (by rw [hc, hk]; omega)
  rw [hc, hk] at hm
  refine ⟨?_, by omega, by omega⟩
  rw [subc_eq, toInt_sub_exact, hm, ha] <;> rw [hm, ha] <;> omega

theorem emod_of_sub_mul {a b q m : Int} (h : a = b - q * m) : a % m = b % m := by
  rw [h, Int.sub_eq_add_neg, ← Int.neg_mul, Int.add_mul_emod_self_right]

theorem emod_of_eq {a b m : Int} (h : a = b) : a % m = b % m := by rw [h]

/-! ### machine-word helper lemmas -/

theorem toInt_shr_of (a k : Int64) (n : Nat) (h : (k.toBitVec.smod 64).toNat = n) :
    (a >>> k).toInt = a.toInt / ((2 ^ n : Nat) : Int) := by
  rw [← Int64.toInt_toBitVec, Int64.toBitVec_shiftRight, BitVec.toInt_sshiftRight', h, Int64.toInt_toBitVec,
    Int.shiftRight_eq_div_pow]

/-- for a non-negative `int64_t`, the conversion to `uint64_t` keeps the value -/
theorem toNat_toUInt64_of_nonneg (a : Int64) (n : Nat) (h : a.toInt = n) : a.toUInt64.toNat = n := by
  have h1 : a.toUInt64.toNat = a.toBitVec.toNat := by
    rw [← UInt64.toNat_toBitVec, Int64.toBitVec_toUInt64]
  have h2 := BitVec.toInt_eq_toNat_cond a.toBitVec
  rw [Int64.toInt_toBitVec, h] at h2
  have h3 := a.toBitVec.isLt
  rw [h1]
  split at h2 <;> omega

/-- a `uint64_t` below 2^63 converts to the same `int64_t` -/
theorem toInt_toInt64_of_lt (v : UInt64) (h : v.toNat < 2 ^ 63) : v.toInt64.toInt = v.toNat := by
  have h2 := BitVec.toInt_eq_toNat_cond v.toInt64.toBitVec
  rw [Int64.toInt_toBitVec] at h2
  have h4 : v.toInt64.toBitVec = v.toBitVec := rfl
  rw [h4, UInt64.toNat_toBitVec] at h2
  split at h2 <;> omega

theorem or_shl_eq_add (x y i : Nat) (h : x < 2 ^ i) : x ||| (y <<< i) = x + y * 2 ^ i := by
  rw [Nat.or_comm, ← Nat.shiftLeft_add_eq_or_of_lt h, Nat.shiftLeft_eq]; omega

theorem or_mul_eq_add (x y i : Nat) (h : x < 2 ^ i) : x ||| (y * 2 ^ i) = x + y * 2 ^ i := by
  have := or_shl_eq_add x y i h
  rwa [Nat.shiftLeft_eq] at this


/-! ### load_3 / load_4 -/

def byteN (s : Bytes) (j : Nat) : Nat := (s[j]!).toNat

theorem byteN_lt (s : Bytes) (j : Nat) : byteN s j < 256 := UInt8.toNat_lt _

/-- the value `load_3(s + off)` reads -/
def w3 (s : Bytes) (off : Nat) : Nat := byteN s off + 256 * byteN s (off + 1) + 65536 * byteN s (off + 2)
/-- the value `load_4(s + off)` reads -/
def w4 (s : Bytes) (off : Nat) : Nat :=
  byteN s off + 256 * byteN s (off + 1) + 65536 * byteN s (off + 2) + 16777216 * byteN s (off + 3)

theorem load_3_toNat (s : Bytes) (off : Nat) : (load_3 s off).toNat = w3 s off := by
  have h0 := byteN_lt s off; have h1 := byteN_lt s (off + 1); have h2 := byteN_lt s (off + 2)
  simp only [load_3, w3, UInt64.toNat_or, UInt64.toNat_shiftLeft, UInt8.toNat_toUInt64]
  show (byteN s off ||| (byteN s (off + 1) <<< 8 % 2 ^ 64)) ||| (byteN s (off + 2) <<< 16 % 2 ^ 64) = _
  rw [Nat.shiftLeft_eq, Nat.shiftLeft_eq, Nat.mod_eq_of_lt (by omega), Nat.mod_eq_of_lt (by omega),
    or_mul_eq_add _ _ 8 (by omega), or_mul_eq_add _ _ 16 (by omega)]
  omega

theorem load_4_toNat (s : Bytes) (off : Nat) : (load_4 s off).toNat = w4 s off := by
  have h0 := byteN_lt s off; have h1 := byteN_lt s (off + 1); have h2 := byteN_lt s (off + 2)
  have h3 := byteN_lt s (off + 3)
  simp only [load_4, w4, UInt64.toNat_or, UInt64.toNat_shiftLeft, UInt8.toNat_toUInt64]
  show ((byteN s off ||| (byteN s (off + 1) <<< 8 % 2 ^ 64)) ||| (byteN s (off + 2) <<< 16 % 2 ^ 64))
    ||| (byteN s (off + 3) <<< 24 % 2 ^ 64) = _
  rw [Nat.shiftLeft_eq, Nat.shiftLeft_eq, Nat.shiftLeft_eq, Nat.mod_eq_of_lt (by omega), Nat.mod_eq_of_lt (by omega),
    Nat.mod_eq_of_lt (by omega),
    or_mul_eq_add _ _ 8 (by omega), or_mul_eq_add _ _ 16 (by omega), or_mul_eq_add _ _ 24 (by omega)]
  omega

theorem w3_lt (s : Bytes) (off : Nat) : w3 s off < 2 ^ 24 := by
  have h0 := byteN_lt s off; have h1 := byteN_lt s (off + 1); have h2 := byteN_lt s (off + 2)
  unfold w3; omega
theorem w4_lt (s : Bytes) (off : Nat) : w4 s off < 2 ^ 32 := by
  have h0 := byteN_lt s off; have h1 := byteN_lt s (off + 1); have h2 := byteN_lt s (off + 2)
  have h3 := byteN_lt s (off + 3)
  unfold w4; omega

/-- `2097151 & v`, converted to `int64_t` -/
theorem mask_toInt (v : UInt64) : ((2097151 : UInt64) &&& v).toInt64.toInt = ((v.toNat % 2097152 : Nat) : Int) := by
  have h : ((2097151 : UInt64) &&& v).toNat = v.toNat % 2097152 := by
    rw [UInt64.toNat_and, Nat.and_comm]
    exact Nat.and_two_pow_sub_one_eq_mod v.toNat 21
  rw [toInt_toInt64_of_lt _ (by rw [h]; omega), h]

theorem shr_toNat (v k : UInt64) (n : Nat) (h : k.toNat % 64 = n) : (v >>> k).toNat = v.toNat / 2 ^ n := by
  rw [UInt64.toNat_shiftRight, h, Nat.shiftRight_eq_div_pow]

theorem nat_range (n B : Nat) (h : n < B) : 0 ≤ (n : Int) ∧ (n : Int) < (B : Int) := by omega

theorem R_of_nat {a : Int64} {n B : Nat} (h : a.toInt = (n : Int)) (hb : n ≤ B) : R a n B :=
  ⟨h, by omega, by omega⟩


/-! ### the 21-bit limbs of a little-endian byte string -/

/-- `2097151 & (load_3(p) >> k)` with `d = 2^k` -/
def limb3 (b0 b1 b2 d : Nat) : Nat := (b0 + 256 * b1 + 65536 * b2) / d % 2097152
/-- `2097151 & (load_4(p) >> k)` with `d = 2^k` -/
def limb4 (b0 b1 b2 b3 d : Nat) : Nat := (b0 + 256 * b1 + 65536 * b2 + 16777216 * b3) / d % 2097152
/-- `load_4(p) >> k` (the unmasked top limb) with `d = 2^k` -/
def top4 (b0 b1 b2 b3 d : Nat) : Nat := (b0 + 256 * b1 + 65536 * b2 + 16777216 * b3) / d

theorem limb3_lt (b0 b1 b2 d : Nat) : limb3 b0 b1 b2 d < 2097152 := Nat.mod_lt _ (by decide)
theorem limb4_lt (b0 b1 b2 b3 d : Nat) : limb4 b0 b1 b2 b3 d < 2097152 := Nat.mod_lt _ (by decide)

/-- eight consecutive limbs (`load_3(p)`, `load_4(p+2)>>5`, `load_3(p+5)>>2`, `load_4(p+7)>>7`, `load_4(p+10)>>4`,
    `load_3(p+13)>>1`, `load_4(p+15)>>6`, `load_3(p+18)>>3`, all masked) are the 168 bits of 21 bytes -/
theorem chunk8 (b0 b1 b2 b3 b4 b5 b6 b7 b8 b9 b10 b11 b12 b13 b14 b15 b16 b17 b18 b19 b20 : Nat)
    (h0 : b0 < 256) (h1 : b1 < 256) (h2 : b2 < 256) (h3 : b3 < 256) (h4 : b4 < 256) (h5 : b5 < 256) (h6 : b6 < 256) (h7 : b7 < 256) (h8 : b8 < 256) (h9 : b9 < 256) (h10 : b10 < 256) (h11 : b11 < 256) (h12 : b12 < 256) (h13 : b13 < 256) (h14 : b14 < 256) (h15 : b15 < 256) (h16 : b16 < 256) (h17 : b17 < 256) (h18 : b18 < 256) (h19 : b19 < 256) (h20 : b20 < 256) :
    limb3 b0 b1 b2 1 + limb4 b2 b3 b4 b5 32 * 2097152 + limb3 b5 b6 b7 4 * 4398046511104
      + limb4 b7 b8 b9 b10 128 * 9223372036854775808 + limb4 b10 b11 b12 b13 16 * 19342813113834066795298816
      + limb3 b13 b14 b15 2 * 40564819207303340847894502572032
      + limb4 b15 b16 b17 b18 64 * 85070591730234615865843651857942052864
      + limb3 b18 b19 b20 8 * 178405961588244985132285746181186892047843328
    = b0 + 256 * (b1 + 256 * (b2 + 256 * (b3 + 256 * (b4 + 256 * (b5 + 256 * (b6 + 256 * (b7 + 256 * (b8 + 256 * (b9 + 256 * (b10 + 256 * (b11 + 256 * (b12 + 256 * (b13 + 256 * (b14 + 256 * (b15 + 256 * (b16 + 256 * (b17 + 256 * (b18 + 256 * (b19 + 256 * (b20)))))))))))))))))))) := by
  unfold limb3 limb4
  omega

/-- the last eight limbs of a 64-byte string: the top one is `load_4(p+18) >> 3`, unmasked (22 bytes) -/
theorem chunk8top (b0 b1 b2 b3 b4 b5 b6 b7 b8 b9 b10 b11 b12 b13 b14 b15 b16 b17 b18 b19 b20 b21 : Nat)
    (h0 : b0 < 256) (h1 : b1 < 256) (h2 : b2 < 256) (h3 : b3 < 256) (h4 : b4 < 256) (h5 : b5 < 256) (h6 : b6 < 256) (h7 : b7 < 256) (h8 : b8 < 256) (h9 : b9 < 256) (h10 : b10 < 256) (h11 : b11 < 256) (h12 : b12 < 256) (h13 : b13 < 256) (h14 : b14 < 256) (h15 : b15 < 256) (h16 : b16 < 256) (h17 : b17 < 256) (h18 : b18 < 256) (h19 : b19 < 256) (h20 : b20 < 256) (h21 : b21 < 256) :
    limb3 b0 b1 b2 1 + limb4 b2 b3 b4 b5 32 * 2097152 + limb3 b5 b6 b7 4 * 4398046511104
      + limb4 b7 b8 b9 b10 128 * 9223372036854775808 + limb4 b10 b11 b12 b13 16 * 19342813113834066795298816
      + limb3 b13 b14 b15 2 * 40564819207303340847894502572032
      + limb4 b15 b16 b17 b18 64 * 85070591730234615865843651857942052864
      + top4 b18 b19 b20 b21 8 * 178405961588244985132285746181186892047843328
    = b0 + 256 * (b1 + 256 * (b2 + 256 * (b3 + 256 * (b4 + 256 * (b5 + 256 * (b6 + 256 * (b7 + 256 * (b8 + 256 * (b9 + 256 * (b10 + 256 * (b11 + 256 * (b12 + 256 * (b13 + 256 * (b14 + 256 * (b15 + 256 * (b16 + 256 * (b17 + 256 * (b18 + 256 * (b19 + 256 * (b20 + 256 * (b21))))))))))))))))))))) := by
  unfold limb3 limb4 top4
  omega

/-- the last four limbs of a 32-byte string: `load_3(p)`, `load_4(p+2)>>5`, `load_3(p+5)>>2`, `load_4(p+7)>>7` unmasked (11 bytes) -/
theorem chunk4top (b0 b1 b2 b3 b4 b5 b6 b7 b8 b9 b10 : Nat)
    (h0 : b0 < 256) (h1 : b1 < 256) (h2 : b2 < 256) (h3 : b3 < 256) (h4 : b4 < 256) (h5 : b5 < 256) (h6 : b6 < 256) (h7 : b7 < 256) (h8 : b8 < 256) (h9 : b9 < 256) (h10 : b10 < 256) :
    limb3 b0 b1 b2 1 + limb4 b2 b3 b4 b5 32 * 2097152 + limb3 b5 b6 b7 4 * 4398046511104
      + top4 b7 b8 b9 b10 128 * 9223372036854775808
    = b0 + 256 * (b1 + 256 * (b2 + 256 * (b3 + 256 * (b4 + 256 * (b5 + 256 * (b6 + 256 * (b7 + 256 * (b8 + 256 * (b9 + 256 * (b10)))))))))) := by
  unfold limb3 limb4 top4
  omega

theorem top4_lt29 (b0 b1 b2 b3 : Nat) (h0 : b0 < 256) (h1 : b1 < 256) (h2 : b2 < 256) (h3 : b3 < 256) :
    top4 b0 b1 b2 b3 8 < 2 ^ 29 := by
  unfold top4; omega
theorem top4_lt25 (b0 b1 b2 b3 : Nat) (h0 : b0 < 256) (h1 : b1 < 256) (h2 : b2 < 256) (h3 : b3 < 256) :
    top4 b0 b1 b2 b3 128 < 2 ^ 25 := by
  unfold top4; omega

theorem byteN_take (s : Bytes) (k j : Nat) (h : j < k) : byteN (s.take k) j = byteN s j := by
  simp [byteN, h]

theorem byteN_drop (s : Bytes) (k j : Nat) : byteN (s.drop k) j = byteN s (k + j) := by
  simp [byteN]

theorem le_eq_bytes32 (s : Bytes) (hs : s.length = 32) :
    le s = byteN s 0 + 256 * (byteN s 1 + 256 * (byteN s 2 + 256 * (byteN s 3 + 256 * (byteN s 4 + 256 * (byteN s 5 + 256 * (byteN s 6 + 256 * (byteN s 7 + 256 * (byteN s 8 + 256 * (byteN s 9 + 256 * (byteN s 10 + 256 * (byteN s 11 + 256 * (byteN s 12 + 256 * (byteN s 13 + 256 * (byteN s 14 + 256 * (byteN s 15 + 256 * (byteN s 16 + 256 * (byteN s 17 + 256 * (byteN s 18 + 256 * (byteN s 19 + 256 * (byteN s 20 + 256 * (byteN s 21 + 256 * (byteN s 22 + 256 * (byteN s 23 + 256 * (byteN s 24 + 256 * (byteN s 25 + 256 * (byteN s 26 + 256 * (byteN s 27 + 256 * (byteN s 28 + 256 * (byteN s 29 + 256 * (byteN s 30 + 256 * (byteN s 31))))))))))))))))))))))))))))))) := by
  match s, hs with
  | [b0, b1, b2, b3, b4, b5, b6, b7, b8, b9, b10, b11, b12, b13, b14, b15, b16, b17, b18, b19, b20, b21, b22, b23, b24, b25, b26, b27, b28, b29, b30, b31], _ => rfl

attribute [irreducible] byteN

theorem le_eq_bytes64 (s : Bytes) (hs : s.length = 64) :
    le s = byteN s 0 + 256 * (byteN s 1 + 256 * (byteN s 2 + 256 * (byteN s 3 + 256 * (byteN s 4 + 256 * (byteN s 5 + 256 * (byteN s 6 + 256 * (byteN s 7 + 256 * (byteN s 8 + 256 * (byteN s 9 + 256 * (byteN s 10 + 256 * (byteN s 11 + 256 * (byteN s 12 + 256 * (byteN s 13 + 256 * (byteN s 14 + 256 * (byteN s 15 + 256 * (byteN s 16 + 256 * (byteN s 17 + 256 * (byteN s 18 + 256 * (byteN s 19 + 256 * (byteN s 20 + 256 * (byteN s 21 + 256 * (byteN s 22 + 256 * (byteN s 23 + 256 * (byteN s 24 + 256 * (byteN s 25 + 256 * (byteN s 26 + 256 * (byteN s 27 + 256 * (byteN s 28 + 256 * (byteN s 29 + 256 * (byteN s 30 + 256 * (byteN s 31 + 256 * (byteN s 32 + 256 * (byteN s 33 + 256 * (byteN s 34 + 256 * (byteN s 35 + 256 * (byteN s 36 + 256 * (byteN s 37 + 256 * (byteN s 38 + 256 * (byteN s 39 + 256 * (byteN s 40 + 256 * (byteN s 41 + 256 * (byteN s 42 + 256 * (byteN s 43 + 256 * (byteN s 44 + 256 * (byteN s 45 + 256 * (byteN s 46 + 256 * (byteN s 47 + 256 * (byteN s 48 + 256 * (byteN s 49 + 256 * (byteN s 50 + 256 * (byteN s 51 + 256 * (byteN s 52 + 256 * (byteN s 53 + 256 * (byteN s 54 + 256 * (byteN s 55 + 256 * (byteN s 56 + 256 * (byteN s 57 + 256 * (byteN s 58 + 256 * (byteN s 59 + 256 * (byteN s 60 + 256 * (byteN s 61 + 256 * (byteN s 62 + 256 * (byteN s 63))))))))))))))))))))))))))))))))))))))))))))))))))))))))))))))) := by
  rw [le_split s 32 (by omega), le_eq_bytes32 (s.take 32) (by simp; omega), le_eq_bytes32 (s.drop 32) (by simp; omega)]
  simp only [byteN_drop, byteN_take, Nat.reduceAdd, Nat.reduceLT, Nat.reducePow]
  clear hs
  omega


/-! ### the byte packing -/

/-- `s[i] = a >> k` for a non-negative limb -/
theorem pack_byteA {a : Int64} {n : Nat} (k : Int64) (sh : Nat) (hk : (k.toBitVec.smod 64).toNat = sh)
    (h : a.toInt = n) : ((a >>> k).toUInt64.toUInt8).toNat = n / 2 ^ sh % 256 := by
  have h1 : (a >>> k).toInt = ((n / 2 ^ sh : Nat) : Int) := by
    rw [toInt_shr_of a k sh hk, h, Int.natCast_ediv]
  rw [UInt64.toNat_toUInt8, toNat_toUInt64_of_nonneg _ _ h1]

/-- `s[i] = (a >> k) | (b * ((uint64_t) 1 << m))` for non-negative limbs with disjoint bit ranges -/
theorem pack_byteB {a b : Int64} {na nb : Nat} (k : Int64) (sh : Nat) (hk : (k.toBitVec.smod 64).toNat = sh)
    (m : UInt64) (ml : Nat) (hm : ((1 : UInt64) <<< m).toNat = 2 ^ ml)
    (ha : a.toInt = na) (hb : b.toInt = nb) (hlt : na / 2 ^ sh < 2 ^ ml) (hb2 : nb * 2 ^ ml < 2 ^ 64) :
    (((a >>> k).toUInt64 ||| (b.toUInt64 * ((1 : UInt64) <<< m))).toUInt8).toNat
      = (na / 2 ^ sh + nb * 2 ^ ml) % 256 := by
  have h1 : (a >>> k).toInt = ((na / 2 ^ sh : Nat) : Int) := by
    rw [toInt_shr_of a k sh hk, ha, Int.natCast_ediv]
  rw [UInt64.toNat_toUInt8, UInt64.toNat_or, UInt64.toNat_mul, hm, toNat_toUInt64_of_nonneg _ _ hb,
    toNat_toUInt64_of_nonneg _ _ h1, Nat.mod_eq_of_lt hb2, or_mul_eq_add _ _ _ hlt]

/-- ideal limbs -/
structure LimbsI where
  s0 : Int
  s1 : Int
  s2 : Int
  s3 : Int
  s4 : Int
  s5 : Int
  s6 : Int
  s7 : Int
  s8 : Int
  s9 : Int
  s10 : Int
  s11 : Int
  s12 : Int
  s13 : Int
  s14 : Int
  s15 : Int
  s16 : Int
  s17 : Int
  s18 : Int
  s19 : Int
  s20 : Int
  s21 : Int
  s22 : Int
  s23 : Int

/-- bounds -/
structure LimbsN where
  s0 : Nat
  s1 : Nat
  s2 : Nat
  s3 : Nat
  s4 : Nat
  s5 : Nat
  s6 : Nat
  s7 : Nat
  s8 : Nat
  s9 : Nat
  s10 : Nat
  s11 : Nat
  s12 : Nat
  s13 : Nat
  s14 : Nat
  s15 : Nat
  s16 : Nat
  s17 : Nat
  s18 : Nat
  s19 : Nat
  s20 : Nat
  s21 : Nat
  s22 : Nat
  s23 : Nat

structure Limbs12I where
  l0 : Int
  l1 : Int
  l2 : Int
  l3 : Int
  l4 : Int
  l5 : Int
  l6 : Int
  l7 : Int
  l8 : Int
  l9 : Int
  l10 : Int
  l11 : Int

structure Limbs12N where
  l0 : Nat
  l1 : Nat
  l2 : Nat
  l3 : Nat
  l4 : Nat
  l5 : Nat
  l6 : Nat
  l7 : Nat
  l8 : Nat
  l9 : Nat
  l10 : Nat
  l11 : Nat

/-- limb-wise `R` -/
structure RL (x : Limbs) (y : LimbsI) (b : LimbsN) : Prop where
  s0 : R x.s0 y.s0 b.s0
  s1 : R x.s1 y.s1 b.s1
  s2 : R x.s2 y.s2 b.s2
  s3 : R x.s3 y.s3 b.s3
  s4 : R x.s4 y.s4 b.s4
  s5 : R x.s5 y.s5 b.s5
  s6 : R x.s6 y.s6 b.s6
  s7 : R x.s7 y.s7 b.s7
  s8 : R x.s8 y.s8 b.s8
  s9 : R x.s9 y.s9 b.s9
  s10 : R x.s10 y.s10 b.s10
  s11 : R x.s11 y.s11 b.s11
  s12 : R x.s12 y.s12 b.s12
  s13 : R x.s13 y.s13 b.s13
  s14 : R x.s14 y.s14 b.s14
  s15 : R x.s15 y.s15 b.s15
  s16 : R x.s16 y.s16 b.s16
  s17 : R x.s17 y.s17 b.s17
  s18 : R x.s18 y.s18 b.s18
  s19 : R x.s19 y.s19 b.s19
  s20 : R x.s20 y.s20 b.s20
  s21 : R x.s21 y.s21 b.s21
  s22 : R x.s22 y.s22 b.s22
  s23 : R x.s23 y.s23 b.s23

structure RL12 (x : Limbs12) (y : Limbs12I) (b : Limbs12N) : Prop where
  l0 : R x.l0 y.l0 b.l0
  l1 : R x.l1 y.l1 b.l1
  l2 : R x.l2 y.l2 b.l2
  l3 : R x.l3 y.l3 b.l3
  l4 : R x.l4 y.l4 b.l4
  l5 : R x.l5 y.l5 b.l5
  l6 : R x.l6 y.l6 b.l6
  l7 : R x.l7 y.l7 b.l7
  l8 : R x.l8 y.l8 b.l8
  l9 : R x.l9 y.l9 b.l9
  l10 : R x.l10 y.l10 b.l10
  l11 : R x.l11 y.l11 b.l11

end Sodium.ScReduceP
