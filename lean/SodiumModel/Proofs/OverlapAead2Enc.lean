import SodiumModel.Proofs.OverlapAead2Sched
/-
  C13 / AES-256-GCM: `encCheck n (encBulk n).2 (0, 0) = some (i, i)` and the same for `decBulk`, for every `n`.
  `encBulk` / `decBulk` are first restated as compositions of named stages (`rfl`).
-/
open Sodium Sodium.Model Sodium.Model.Overlap Sodium.Model.OverlapAead
namespace Sodium.OverlapAeadP

/-! ### encrypt -/

/-- 2×7-block pipeline of aes_gcm_encrypt_generic -/
def encA (n : Nat) : Nat × List GOp :=
  if n ≥ 224 then
    let l := whileOps (fun i => i + 224 ≤ n) 224
      (fun i => [.xor i 112, .gh (i - 112) 112, .xor (i + 112) 112, .gh i 112]) n 112
    (l.1, [GOp.xor 0 112] ++ l.2 ++ [GOp.gh (l.1 - 112) 112])
  else (0, [])

/-- 7-block loop -/
def encB (n : Nat) (a : Nat × List GOp) : Nat × List GOp :=
  if n - a.1 ≥ 112 then
    let l := whileOps (fun i => i + 112 ≤ n) 112 (fun i => [.xor i 112, .gh (i - 112) 112]) n (a.1 + 112)
    (l.1, a.2 ++ [GOp.xor a.1 112] ++ l.2 ++ [GOp.gh (l.1 - 112) 112])
  else a

def encC (n i : Nat) := whileOps (fun i => i + 64 ≤ n) 64
    (fun i => [.xor i 16, .xor (i + 16) 16, .xor (i + 32) 16, .xor (i + 48) 16, .gh i 64]) n i
def encD (n i : Nat) := whileOps (fun i => i + 32 ≤ n) 32 (fun i => [.xor i 16, .xor (i + 16) 16, .gh i 32]) n i
def encE (n i : Nat) := whileOps (fun i => i + 16 < n) 16 (fun i => [.xor i 16, .gh i 16]) n i

theorem encBulk_stages (n : Nat) :
    encBulk n = ((encE n (encD n (encC n (encB n (encA n)).1).1).1).1,
      (encB n (encA n)).2 ++ (encC n (encB n (encA n)).1).2 ++ (encD n (encC n (encB n (encA n)).1).1).2 ++
        (encE n (encD n (encC n (encB n (encA n)).1).1).1).2) := rfl

theorem encA_ok (n : Nat) : encCheck n (encA n).2 (0, 0) = some ((encA n).1, (encA n).1) := by
  unfold encA
  by_cases h : n ≥ 224
  · rw [if_pos h]
    obtain ⟨a, b, _⟩ := whileOps_check (encCheck_seq n) (encCheck_nil n) (fun i => i + 224 ≤ n) 224
      (fun i => [.xor i 112, .gh (i - 112) 112, .xor (i + 112) 112, .gh i 112])
      (fun i => (i, i - 112)) (fun i => 112 ≤ i) (by intro i hi _; omega)
      (by
        intro i hi hc
        have hc' : i + 224 ≤ n := by simpa using hc
        rw [enc_xor _ _ _ _ _ _ rfl (by omega), enc_gh _ _ _ _ _ _ rfl (by omega),
          enc_xor _ _ _ _ _ _ (by omega) (by omega), enc_gh _ _ _ _ _ _ (by omega) (by omega), encCheck_nil]
        exact some_pair (by omega) (by omega)) n 112 (Nat.le_refl _)
    simp only [List.append_assoc, List.cons_append, List.nil_append]
    rw [enc_xor _ _ _ _ _ _ rfl (by omega), (encCheck_seq n).step _ _ _ _ a,
      enc_gh _ _ _ _ _ _ rfl (by omega), encCheck_nil]
    exact some_pair rfl (by omega)
  · rw [if_neg h]; rfl

theorem encB_ok (n : Nat) (a : Nat × List GOp) (ha : encCheck n a.2 (0, 0) = some (a.1, a.1)) :
    encCheck n (encB n a).2 (0, 0) = some ((encB n a).1, (encB n a).1) := by
  unfold encB
  by_cases h : n - a.1 ≥ 112
  · rw [if_pos h]
    obtain ⟨l1, l2, _⟩ := whileOps_check (encCheck_seq n) (encCheck_nil n) (fun i => i + 112 ≤ n) 112
      (fun i => [.xor i 112, .gh (i - 112) 112])
      (fun i => (i, i - 112)) (fun i => 112 ≤ i) (by intro i hi _; omega)
      (by
        intro i hi hc
        have hc' : i + 112 ≤ n := by simpa using hc
        rw [enc_xor _ _ _ _ _ _ rfl (by omega), enc_gh _ _ _ _ _ _ rfl (by omega), encCheck_nil]
        exact some_pair rfl (by omega)) n (a.1 + 112) (by omega)
    simp only [List.append_assoc]
    rw [(encCheck_seq n).step _ _ _ _ ha]
    simp only [List.cons_append, List.nil_append]
    rw [enc_xor _ _ _ _ _ _ rfl (by omega)]
    have e : (a.1 + 112, a.1) = ((a.1 + 112), (a.1 + 112) - 112) := by congr 1
    rw [e, (encCheck_seq n).step _ _ _ _ l1, enc_gh _ _ _ _ _ _ rfl (by omega), encCheck_nil]
    exact some_pair rfl (by omega)
  · rw [if_neg h]; exact ha

theorem encC_ok (n i : Nat) : encCheck n (encC n i).2 (i, i) = some ((encC n i).1, (encC n i).1) :=
  (whileOps_check (encCheck_seq n) (encCheck_nil n) (fun i => i + 64 ≤ n) 64
    (fun i => [.xor i 16, .xor (i + 16) 16, .xor (i + 32) 16, .xor (i + 48) 16, .gh i 64])
    (fun i => (i, i)) (fun _ => True) (fun _ _ _ => trivial)
    (by
      intro i _ hc
      have hc' : i + 64 ≤ n := by simpa using hc
      rw [enc_xor _ _ _ _ _ _ rfl (by omega), enc_xor _ _ _ _ _ _ rfl (by omega),
        enc_xor _ _ _ _ _ _ (by omega) (by omega), enc_xor _ _ _ _ _ _ (by omega) (by omega),
        enc_gh _ _ _ _ _ _ rfl (by omega), encCheck_nil]) n i trivial).1

theorem encD_ok (n i : Nat) : encCheck n (encD n i).2 (i, i) = some ((encD n i).1, (encD n i).1) :=
  (whileOps_check (encCheck_seq n) (encCheck_nil n) (fun i => i + 32 ≤ n) 32
    (fun i => [.xor i 16, .xor (i + 16) 16, .gh i 32])
    (fun i => (i, i)) (fun _ => True) (fun _ _ _ => trivial)
    (by
      intro i _ hc
      have hc' : i + 32 ≤ n := by simpa using hc
      rw [enc_xor _ _ _ _ _ _ rfl (by omega), enc_xor _ _ _ _ _ _ rfl (by omega),
        enc_gh _ _ _ _ _ _ rfl (by omega), encCheck_nil]) n i trivial).1

theorem encE_ok (n i : Nat) : encCheck n (encE n i).2 (i, i) = some ((encE n i).1, (encE n i).1) :=
  (whileOps_check (encCheck_seq n) (encCheck_nil n) (fun i => i + 16 < n) 16
    (fun i => [.xor i 16, .gh i 16])
    (fun i => (i, i)) (fun _ => True) (fun _ _ _ => trivial)
    (by
      intro i _ hc
      have hc' : i + 16 < n := by simpa using hc
      rw [enc_xor _ _ _ _ _ _ rfl (by omega), enc_gh _ _ _ _ _ _ rfl (by omega), encCheck_nil]) n i trivial).1

/-- the transcribed encrypt schedule passes the check for EVERY length -/
theorem encBulk_ok (n : Nat) : encCheck n (encBulk n).2 (0, 0) = some ((encBulk n).1, (encBulk n).1) := by
  rw [encBulk_stages]
  simp only [List.append_assoc]
  rw [(encCheck_seq n).step _ _ _ _ (encB_ok n _ (encA_ok n)), (encCheck_seq n).step _ _ _ _ (encC_ok n _),
    (encCheck_seq n).step _ _ _ _ (encD_ok n _), encE_ok]

end Sodium.OverlapAeadP
