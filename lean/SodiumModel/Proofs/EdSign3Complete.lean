import SodiumModel.Proofs.EdSign3Check
import SodiumModel.Properties.C06Full
/-
  Completeness of `_crypto_sign_ed25519_verify_detached` on honestly generated signatures.
-/
open Sodium Sodium.Spec Sodium.Model Sodium.Model.Ge25519 Sodium.Model.Ed25519Full
open Sodium.Ge25519P (CurveGroup toPoint K dK Sc Sc2 slideVal)
open Sodium.ScalarmultLow (c_add c_mul c_sqr c_sub)
open Sodium.RistrettoRefP (c_neg c_inv c_mod mul_lt)
namespace Sodium.EdSignP

section
variable {G : Type} [AddCommGroup G] (C : CurveGroup G)

attribute [local irreducible] F25519.mul F25519.inv in
/-- the normalised (affine, Z = 1) form of a curve point represents the same group element -/
theorem rep_affine {P : Ed25519.Point} {g : G} (hP : C.Rep P g) (hc : Ed25519.isOnCurve P = true) :
    C.Rep (Ed25519.ofAffine (Ed25519.toAffine P).1 (Ed25519.toAffine P).2) g := by
  have hz := isOnCurve_Z hc
  have ht : ((P.T : Nat) : K) * P.Z = (P.X : K) * P.Y := by
    unfold Ed25519.isOnCurve at hc
    simp only [Bool.and_eq_true, beq_iff_eq] at hc
    have := congrArg (Nat.cast : Nat → K) hc.1.2
    simpa only [c_mul] using this
  have hsc : Sc ((P.Z : K)⁻¹) P (ofPoint (Ed25519.ofAffine (Ed25519.toAffine P).1 (Ed25519.toAffine P).2)) := by
    unfold Sc ofPoint Ed25519.ofAffine Ed25519.toAffine
    simp only [c_mod, c_mul, c_inv, Nat.cast_one]
    generalize ((P.X : Nat) : K) = X at *
    generalize ((P.Y : Nat) : K) = Y at *
    generalize ((P.Z : Nat) : K) = Z at *
    generalize ((P.T : Nat) : K) = T at *
    refine ⟨by ring, by ring, (inv_mul_cancel₀ hz).symm, ?_⟩
    field_simp
    linear_combination (-1 : K) * ht
  exact C.rep_scale _ _ (IsUnit.mk0 _ (inv_ne_zero hz)) hP hsc

theorem group_calc (B : G) (hL : (Ed25519.L : Int) • B = 0) (r k a : Nat) :
    (k : Int) • (-(a • B)) + (((r + k * a) % Ed25519.L : Nat) : Int) • B = r • B := by
  have e : ((r + k * a : Nat) : Int) = (((r + k * a) % Ed25519.L : Nat) : Int) + (((r + k * a) / Ed25519.L : Nat) : Int) * Ed25519.L := by
    exact_mod_cast (Nat.mod_add_div' (r + k * a) Ed25519.L).symm
  have hq : ((((r + k * a) / Ed25519.L : Nat) : Int) * (Ed25519.L : Int)) • B = 0 := by
    rw [mul_smul, hL, smul_zero]
  have hS : (((r + k * a) % Ed25519.L : Nat) : Int) • B = ((r + k * a : Nat) : Int) • B := by
    rw [e, add_smul, hq, add_zero]
  rw [hS, smul_neg, ← natCast_zsmul B a, smul_smul, ← natCast_zsmul B r]
  push_cast
  rw [add_smul]
  abel

/-- the final test passes when R = [r]B, A = [a]B and S = r + k·a mod L -/
theorem final_pass (hF : Faithful C) {B : G} (hB : C.Rep Ed25519.basePoint B) (hL : (Ed25519.L : Int) • B = 0)
    {PA PR : Ed25519.Point} {a r : Nat} (hPA : C.Rep PA (a • B)) (hPR : C.Rep PR (r • B))
    (hb Sb : Bytes) (hh : hb.length = 32) (hkL : le hb < Ed25519.L)
    (hS : Sb.length = 32) (hSv : le Sb = (r + le hb * a) % Ed25519.L) :
    ge25519_has_small_order specGe
      (ge25519_p3_sub specGe (ofPoint (Ed25519.ofAffine (Ed25519.toAffine PR).1 (Ed25519.toAffine PR).2))
        (ge25519_p2_to_p3 specGe (ge25519_double_scalarmult_vartime specGe hb
          (ofPoint (Ed25519.neg (Ed25519.ofAffine (Ed25519.toAffine PA).1 (Ed25519.toAffine PA).2))) Sb))) = 1 := by
  have hL253 : Ed25519.L < 2 ^ 253 := by decide +kernel
  have repA : C.Rep (toPoint (ofPoint (Ed25519.neg (Ed25519.ofAffine (Ed25519.toAffine PA).1 (Ed25519.toAffine PA).2))))
      (-(a • B)) := C.rep_neg (rep_affine C hPA (hF.on_curve hPA))
  obtain ⟨P, l, -, hP, hsc⟩ := C06Ge.double_scalarmult_correct C repA hB hb Sb
  have hSL : le Sb < Ed25519.L := by rw [hSv]; exact Nat.mod_lt _ (by decide +kernel)
  rw [slide_exact hb hh (by omega), slide_exact Sb hS (by omega), hSv, group_calc B hL] at hP
  have repR := rep_affine C hPR (hF.on_curve hPR)
  have hinj := hF.inj hP repR
  have hxl : (Ed25519.toAffine PR).1 < F25519.p := mul_lt _ _
  have hyl : (Ed25519.toAffine PR).2 < F25519.p := mul_lt _ _
  rw [ofPoint_ofAffine hxl hyl]
  generalize (Ed25519.toAffine PR).1 = xr at *
  generalize (Ed25519.toAffine PR).2 = yr at *
  unfold Ed25519.pointEq Ed25519.ofAffine at hinj
  simp only [Bool.and_eq_true, beq_iff_eq] at hinj
  have h1 := congrArg (Nat.cast : Nat → K) hinj.1
  have h2 := congrArg (Nat.cast : Nat → K) hinj.2
  simp only [c_mul, c_mod, Nat.cast_one, mul_one] at h1 h2
  obtain ⟨sx, sy, sz⟩ := hsc
  apply hso_of_X_zero
  rw [(check_coords xr yr _ _).1, sx, sy, h1, h2]
  ring

/-- an encoding is canonical: its 255-bit y field is below p -/
theorem encode_canonical (P : Ed25519.Point) : le (Ed25519.encode P) % 2 ^ 255 < F25519.p := by
  unfold Ed25519.encode
  have hy : (Ed25519.toAffine P).2 < F25519.p := mul_lt _ _
  generalize Ed25519.toAffine P = xy at *
  obtain ⟨x, y⟩ := xy
  simp only at hy ⊢
  have hp : F25519.p < 2 ^ 255 := by decide +kernel
  have hx : x % 2 < 2 := Nat.mod_lt _ (by omega)
  have h1 : (y + 2 ^ 255 * (x % 2)) % 256 ^ 32 = y + 2 ^ 255 * (x % 2) := Nat.mod_eq_of_lt (by omega)
  have : (y + 2 ^ 255 * (x % 2)) % 2 ^ 255 = y := by omega
  rw [le_toLE, h1, this]; exact hy

attribute [local irreducible] Ed25519.scalarMult Ed25519.encode Ed25519.basePoint Sha512.hash Ed25519.clamp in
/-- COMPLETENESS: a signature made by `_crypto_sign_ed25519_detached` with the key pair of `seed` verifies -/
theorem complete (hF : Faithful C) {B : G} (hB : C.Rep Ed25519.basePoint B) (hL : (Ed25519.L : Int) • B = 0)
    (seed m : Bytes) (ph : Bool) (hs : seed.length = 32)
    (hA : ge25519_has_small_order specGe
      (ge25519_frombytes_negate_vartime specGe (Ed25519.publicKey Sha512.hash seed)).2 = 0)
    (hR : ge25519_has_small_order specGe (ge25519_frombytes specGe
      ((_crypto_sign_ed25519_detached m (seed ++ Ed25519.publicKey Sha512.hash seed) ph).take 32)).2 = 0) :
    _crypto_sign_ed25519_verify_detached
      (_crypto_sign_ed25519_detached m (seed ++ Ed25519.publicKey Sha512.hash seed) ph) m
      (Ed25519.publicKey Sha512.hash seed) ph = 0 := by
  have ht : seed.take 32 = seed := List.take_of_length_le (by omega)
  have hpkdef : Ed25519.publicKey Sha512.hash seed =
      Ed25519.encode (Ed25519.scalarMult (Ed25519.clamp (Sha512.hash seed)) Ed25519.basePoint) := by
    simp only [Ed25519.publicKey, Ed25519.secretExpand, ht]
  have hpkl : (Ed25519.publicKey Sha512.hash seed).length = 32 := by rw [hpkdef]; exact encode_length _
  rw [sign_core C hF hB seed m _ ph hs hpkl] at hR ⊢
  rw [hpkdef] at hA hR ⊢
  generalize Ed25519.clamp (Sha512.hash seed) = a at *
  generalize le (Sha512.hash (Sign.hinit ph ++ (((Sha512.hash seed).drop 32).take 32 ++ m))) % Ed25519.L = r at *
  have hPA := rep_scalarMult C hB a
  have hPR := rep_scalarMult C hB r
  have onA := hF.on_curve hPA
  have onR := hF.on_curve hPR
  generalize Ed25519.scalarMult a Ed25519.basePoint = PA at *
  generalize Ed25519.scalarMult r Ed25519.basePoint = PR at *
  have eqA := (frombytes_negate_decode (Ed25519.encode PA)).2 _ (decode_encode PA onA)
  have eqR := (frombytes_decode (Ed25519.encode PR)).2 _ (decode_encode PR onR)
  have hRl : (Ed25519.encode PR).length = 32 := encode_length _
  have hAl : (Ed25519.encode PA).length = 32 := encode_length _
  have hLpos : 0 < Ed25519.L := by decide +kernel
  generalize hM : Sha512.hash (Sign.hinit ph ++ (Ed25519.encode PR ++ (Ed25519.encode PA ++ m))) = M at *
  have hMl : M.length = 64 := by rw [← hM, ← sha_one, sha_length]
  obtain ⟨-, k2, k3, -⟩ := reduce_le M hMl
  have hSlt : (r + le M % Ed25519.L * a) % Ed25519.L < Ed25519.L := Nat.mod_lt _ hLpos
  have hSle : le (toLE 32 ((r + le M % Ed25519.L * a) % Ed25519.L)) = (r + le M % Ed25519.L * a) % Ed25519.L :=
    ScalarP.le_toLE32_of_lt _ hSlt
  have htake : (Ed25519.encode PR ++ toLE 32 ((r + le M % Ed25519.L * a) % Ed25519.L)).take 32 = Ed25519.encode PR :=
    List.take_left' hRl
  have hdrop : (Ed25519.encode PR ++ toLE 32 ((r + le M % Ed25519.L * a) % Ed25519.L)).drop 32 =
      toLE 32 ((r + le M % Ed25519.L * a) % Ed25519.L) := List.drop_left' hRl
  rw [htake] at hR
  rw [C06Full.verify_returns_zero_iff _ _ _ _ (by simp [hRl, toLE_length]) hAl]
  unfold C06.Accepts C06.checkPoint
  simp only [fullOps, htake, hdrop, sha_one, List.append_assoc, hM, eqA, eqR]
  rw [eqA] at hA
  rw [eqR] at hR
  refine ⟨by rw [hSle]; exact hSlt, encode_canonical PA, trivial, hA, trivial, hR, ?_⟩
  exact final_pass C hF hB hL hPA hPR _ _ k2 (by rw [k3]; exact Nat.mod_lt _ hLpos) (toLE_length _ _)
    (by rw [hSle, k3])

end

end Sodium.EdSignP
